(** C07: every verdict of quick_term_or_rec is true of the real machine. *)
From BB Require Import Base TM TMabs Ref TapeModel InstrsModel MachineModel.
From BB Require Import TapeCanon TapeObs StepSim Loops QuickSim AbsEquiv TranslatedCycle CompareTake.
Open Scope N_scope.

Definition shiftZ (h : Z) (sh : shift) (k : Z) : Z := if sh then (h + k)%Z else (h - k)%Z.

Definition acfg (q : state) (ht : headtape) : aconf :=
  mkA q (ht_head ht) (abs_of (unroll_tape (ht_tape ht)) (ht_head ht)).

(** c "is" the compressed configuration (q, ht) *)
Definition arep (c : aconf) (q : state) (ht : headtape) : Prop :=
  a_q c = q /\ a_h c = ht_head ht /\ aeq (a_t c) (abs_of (unroll_tape (ht_tape ht)) (ht_head ht)).

Section Rec.
Variable comp : comp_prog.
Let P := to_prog comp.

Lemma a_step_zip q z h t pr sh q' :
  aeq t (abs_of z h) -> P (q, zc z) = Some (pr, sh, q') ->
  a_step P (mkA q h t) = Some (mkA q' (shiftZ h sh 1) (a_write t h pr)) /\
  aeq (a_write t h pr) (abs_of (tm_move z sh pr) (shiftZ h sh 1)).
Proof.
  intros Ht HP. split.
  - unfold a_step. cbn [a_q a_h a_t]. rewrite (Ht h), abs_of_head, HP.
    destruct sh; reflexivity.
  - eapply aeq_trans; [apply a_write_ext; exact Ht|]. apply aeq_sym.
    pose proof (abs_of_move z h sh pr) as M. destruct sh; exact M.
Qed.

(** i steps of a sweep: same instruction, same state *)
Lemma a_sweep q c pr sh : P (q, c) = Some (pr, sh, q) ->
  forall i z h t, aeq t (abs_of z h) -> zc z = c ->
    (forall k, (S k < i)%nat -> cell (side sh z) k = c) ->
    exists ti, a_steps P i (mkA q h t) = Some (mkA q (shiftZ h sh (Z.of_nat i)) ti) /\
               aeq ti (abs_of (mv_n i sh pr z) (shiftZ h sh (Z.of_nat i))).
Proof.
  intros HP. induction i as [|i IH]; intros z h t Ht Hc Hcells.
  - exists t. split.
    + cbn [a_steps]. f_equal. f_equal. unfold shiftZ. destruct sh; lia.
    + cbn [mv_n]. replace (shiftZ h sh (Z.of_nat 0)) with h by (unfold shiftZ; destruct sh; lia). exact Ht.
  - assert (HP' : P (q, zc z) = Some (pr, sh, q)) by (rewrite Hc; exact HP).
    destruct (a_step_zip q z h t pr sh q Ht HP') as [S1 S2].
    cbn [a_steps]. rewrite S1.
    destruct i as [|i'].
    + exists (a_write t h pr). split; [reflexivity|]. cbn [mv_n]. exact S2.
    + destruct (IH (tm_move z sh pr) (shiftZ h sh 1) (a_write t h pr) S2) as (ti & A & B).
      * rewrite zc_move. apply Hcells. lia.
      * intros k Hk. rewrite side_move, cell_tl. apply Hcells. lia.
      * exists ti. cbn [mv_n].
        replace (shiftZ h sh (Z.of_nat (S (S i')))) with (shiftZ (shiftZ h sh 1) sh (Z.of_nat (S i')))
          by (unfold shiftZ; destruct sh; lia).
        split; [exact A|exact B].
Qed.

(** One cycle of the model = [stepped] steps of the real machine, with the
    head moving monotonically from h to h +/- stepped. *)
Lemma cycle_abs q t h color sh q' t' stepped c :
  canon_tape t -> arep c q (mkHT h t) ->
  cp_get comp (q, scan t) = Some (color, sh, q') ->
  step t sh color (q =? q') = (t', stepped) ->
  exists n c', n = N.to_nat stepped /\ (1 <= n)%nat /\
    a_steps P n c = Some c' /\
    arep c' q' (mkHT (shiftZ h sh (Z.of_N stepped)) t') /\
    (forall i ci, (i <= n)%nat -> a_steps P i c = Some ci -> a_h ci = shiftZ h sh (Z.of_nat i)).
Proof.
  intros Hcan (Hq & Hh & Ht) Hget Hstep. cbn [ht_head ht_tape] in *.
  destruct c as [cq ch ct]. cbn [a_q a_h a_t] in *. subst cq ch.
  destruct (step_unroll _ _ _ _ _ _ (canon_tape_counts_pos _ Hcan) Hstep)
    as (j & Hj & Hteq & Hcells & Hcp & Hblk).
  assert (Hsame : j <> O -> q' = q).
  { intros Hj0. destruct (q =? q') eqn:E; [apply N.eqb_eq in E; auto|].
    exfalso. unfold step in Hstep. destruct sh.
    - destruct (rspan t) as [|[c0 n0] r]; cbn in Hstep.
      + inversion Hstep; subst. cbn in Hj. lia.
      + destruct (1 <? n0); inversion Hstep; subst; cbn in Hj; lia.
    - destruct (lspan t) as [|[c0 n0] r]; cbn in Hstep.
      + inversion Hstep; subst. cbn in Hj. lia.
      + destruct (1 <? n0); inversion Hstep; subst; cbn in Hj; lia. }
  assert (HP : P (q, zc (unroll_tape t)) = Some (color, sh, q')) by (cbn; exact Hget).
  exists (S j). 
  assert (Hrun : forall i, (i <= S j)%nat -> exists ti,
     a_steps P i (mkA q h ct) = Some (mkA (if (i =? S j)%nat then q' else q) (shiftZ h sh (Z.of_nat i)) ti) /\
     aeq ti (abs_of (mv_n i sh color (unroll_tape t)) (shiftZ h sh (Z.of_nat i)))).
  { intros i Hi. destruct j as [|j'].
    - (* single step *)
      destruct i as [|[|i]]; [| |lia].
      + exists ct. cbn. split; [f_equal; f_equal; unfold shiftZ; destruct sh; lia|].
        replace (shiftZ h sh 0) with h by (unfold shiftZ; destruct sh; lia). exact Ht.
      + destruct (a_step_zip q _ h ct color sh q' Ht HP) as [S1 S2].
        exists (a_write ct h color). cbn [a_steps]. rewrite S1. cbn. split; [reflexivity|exact S2].
    - rewrite (Hsame ltac:(discriminate)) in *.
      destruct (a_sweep q (scan t) color sh HP i (unroll_tape t) h ct Ht eq_refl) as (ti & A & B).
      + intros k Hk. apply Hcells. lia.
      + exists ti. destruct (i =? S (S j'))%nat; split; assumption. }
  destruct (Hrun (S j) (le_n _)) as (tn & An & Bn). rewrite Nat.eqb_refl in An.
  exists (mkA q' (shiftZ h sh (Z.of_nat (S j))) tn).
  split; [lia|]. split; [lia|]. split; [exact An|]. split.
  - unfold arep. cbn [a_q a_h a_t ht_head ht_tape].
    replace (Z.of_N stepped) with (Z.of_nat (S j)) by lia.
    split; [reflexivity|]. split; [reflexivity|].
    eapply aeq_trans; [exact Bn|]. apply abs_of_tape_eq. apply tape_eq_sym. exact Hteq.
  - intros i0 ci Hi Hci. destruct (Hrun i0 Hi) as (ti & A & _). rewrite A in Hci.
    inversion Hci; subst. reflexivity.
Qed.

Lemma stays_app n k c c1 lo hi :
  stays P n c lo hi -> a_steps P n c = Some c1 -> stays P k c1 lo hi -> stays P (n + k) c lo hi.
Proof.
  intros H1 Hn H2 i ci Hi Hci.
  destruct (Nat.le_gt_cases i n) as [Hle|Hgt].
  - apply (H1 i ci Hle Hci).
  - replace i with (n + (i - n))%nat in Hci by lia. rewrite a_steps_add, Hn in Hci.
    apply (H2 (i - n)%nat ci); [lia|exact Hci].
Qed.

(** a_spinout_cfg only looks at the tape pointwise *)
Lemma a_spinout_zip q h t z :
  aeq t (abs_of z h) -> a_spinout_cfg P (mkA q h t) -> spinout_cfg P (q, z).
Proof.
  intros Ht (H0 & pr & sh & HP & Hb). cbn [a_q a_h a_t] in *.
  apply (spinout_abs P q z h). unfold a_spinout_cfg. cbn [a_q a_h a_t].
  split; [rewrite <- (Ht h); exact H0|]. exists pr, sh. split; [exact HP|].
  intros x Hx. rewrite <- (Ht x). apply Hb. exact Hx.
Qed.

(** No configuration strictly inside a cycle (times 0 .. stepped-1) is a
    spin-out configuration: at time 0 because the model tested it, inside a
    sweep because a canonical tape is not blank beyond a swept 0-block. *)
Lemma cycle_no_spinout q t h color sh q' t' stepped c :
  canon_tape t -> arep c q (mkHT h t) ->
  cp_get comp (q, scan t) = Some (color, sh, q') ->
  (q =? q') && at_edge t sh = false ->
  step t sh color (q =? q') = (t', stepped) ->
  forall i ci, (i < N.to_nat stepped)%nat -> a_steps P i c = Some ci -> ~ a_spinout_cfg P ci.
Proof.
  intros Hcan (Hq & Hh & Ht) Hget Hedge Hstep i ci Hi Hci Hsp. cbn [ht_head ht_tape] in *.
  destruct c as [cq ch ct]. cbn [a_q a_h a_t] in *. subst cq ch.
  destruct (step_unroll _ _ _ _ _ _ (canon_tape_counts_pos _ Hcan) Hstep)
    as (j & Hj & Hteq & Hcells & Hcp & Hblk).
  assert (Hsame : j <> O -> q' = q).
  { intros Hj0. destruct (q =? q') eqn:E; [apply N.eqb_eq in E; auto|].
    exfalso. unfold step in Hstep. destruct sh.
    - destruct (rspan t) as [|[c0 n0] r]; cbn in Hstep.
      + inversion Hstep; subst. cbn in Hj. lia.
      + destruct (1 <? n0); inversion Hstep; subst; cbn in Hj; lia.
    - destruct (lspan t) as [|[c0 n0] r]; cbn in Hstep.
      + inversion Hstep; subst. cbn in Hj. lia.
      + destruct (1 <? n0); inversion Hstep; subst; cbn in Hj; lia. }
  assert (HP : P (q, zc (unroll_tape t)) = Some (color, sh, q')) by (cbn; exact Hget).
  (* the configuration at time i <= j *)
  assert (Hcfg : exists ti, ci = mkA q (shiftZ h sh (Z.of_nat i)) ti /\
                 aeq ti (abs_of (mv_n i sh color (unroll_tape t)) (shiftZ h sh (Z.of_nat i)))).
  { destruct i as [|i'].
    - cbn in Hci. inversion Hci; subst ci. exists ct. split.
      + f_equal. unfold shiftZ; destruct sh; lia.
      + cbn [mv_n]. replace (shiftZ h sh (Z.of_nat 0)) with h by (unfold shiftZ; destruct sh; lia). exact Ht.
    - assert (Hj0 : j <> O) by lia. rewrite (Hsame Hj0) in HP.
      destruct (a_sweep q (scan t) color sh HP (S i') (unroll_tape t) h ct Ht eq_refl) as (ti & A & B).
      + intros k Hk. apply Hcells. lia.
      + rewrite A in Hci. inversion Hci; subst ci. exists ti. split; [reflexivity|exact B]. }
  destruct Hcfg as (ti & -> & Hti).
  apply (a_spinout_zip _ _ _ _ Hti) in Hsp.
  destruct Hsp as (Hz0 & pr & sh' & HP' & Hblank).
  (* the scanned cell at time i is the original scanned colour *)
  assert (Hscan : zc (mv_n i sh color (unroll_tape t)) = scan t).
  { destruct i as [|i']; [reflexivity|].
    destruct sh.
    - destruct (mv_n_R (S i') color (unroll_tape t)) as (_ & _ & M). rewrite (M i' eq_refl).
      apply (Hcells i'). lia.
    - destruct (mv_n_L (S i') color (unroll_tape t)) as (_ & _ & M). rewrite (M i' eq_refl).
      apply (Hcells i'). lia. }
  rewrite Hscan in Hz0.
  assert (Hinstr : Some (pr, sh', q) = Some (color, sh, q')).
  { rewrite <- HP'. unfold P, to_prog. rewrite Hz0 in Hget. unfold state, colour in *. rewrite Hget. reflexivity. }
  injection Hinstr as -> -> Hqq. subst q'.
  (* the side ahead at time i is the i-th suffix of the original side *)
  assert (Hside : side sh (mv_n i sh color (unroll_tape t)) = skipn i (side sh (unroll_tape t))).
  { destruct sh; cbn [side].
    - destruct (mv_n_R i color (unroll_tape t)) as (_ & M & _). exact M.
    - destruct (mv_n_L i color (unroll_tape t)) as (_ & M & _). exact M. }
  rewrite Hside in Hblank.
  destruct i as [|i'].
  - (* time 0: contradicts the at_edge test *)
    cbn [skipn] in Hblank. rewrite N.eqb_refl in Hedge. cbn [andb] in Hedge.
    assert (at_edge t sh = true); [|congruence].
    apply (at_edge_spec t sh Hcan). split; [exact Hz0|exact Hblank].
  - (* inside the sweep: the tape is not blank beyond the swept block *)
    destruct (Hblk ltac:(lia)) as (c0 & n0 & rest & Hsp & Hc0 & Hn0).
    assert (Hsideu : side sh (unroll_tape t) = unroll_span ((c0, n0) :: rest)).
    { destruct sh; cbn [side unroll_tape zl zr]; rewrite Hsp; reflexivity. }
    assert (Hb' : all_blank (skipn j (side sh (unroll_tape t)))).
    { intro k. rewrite cell_skipn. specialize (Hblank (j - S i' + k)%nat). rewrite cell_skipn in Hblank.
      rewrite <- Hblank. f_equal. lia. }
    rewrite Hsideu, unroll_cons, Hn0, skipn_repeat_app in Hb'.
    refine (canon_nonblank_beyond c0 n0 rest _ _ Hb').
    + destruct Hcan as [Hl Hr]. destruct sh; rewrite Hsp in *; assumption.
    + congruence.
Qed.

Lemma a_never_halts_from T c0 c : a_steps P T c0 = Some c -> a_never_halts P c -> a_never_halts P c0.
Proof.
  intros HT Hn m. destruct (Hn m) as [c' Hc'].
  apply (a_steps_prefix P (T + m) m c0 c'); [lia|]. rewrite a_steps_add, HT. exact Hc'.
Qed.

(** the configuration after the first instruction 1RB *)
Definition c_start : aconf := acfg 1 ht_init_stepped.

(** ---- loop invariant ---- *)
Definition RInv (s : rstate) : Prop :=
  canon_tape (ht_tape (rs_tape s)) /\ canon_tape (ht_tape (rs_ref_tape s)) /\
  exists T n cref ccur,
    a_steps P T c_start = Some cref /\ arep cref (rs_ref_state s) (rs_ref_tape s) /\
    a_steps P n cref = Some ccur /\ arep ccur (rs_state s) (rs_tape s) /\
    stays P n cref (rs_leftmost s) (rs_rightmost s) /\
    (forall i ci, (i < T + n)%nat -> a_steps P i c_start = Some ci -> ~ a_spinout_cfg P ci).

Definition r_init : rstate := mkR 1 ht_init_stepped 1 ht_init_stepped 1 1 1 1.

Lemma RInv_init : RInv r_init.
Proof.
  split; [apply canon_init_stepped|]. split; [apply canon_init_stepped|].
  exists O, O, c_start, c_start. cbn [rs_ref_state rs_ref_tape rs_state rs_tape rs_leftmost rs_rightmost r_init].
  assert (R : arep c_start 1 ht_init_stepped).
  { unfold arep, c_start, acfg. cbn [a_q a_h a_t]. repeat split. }
  split; [reflexivity|]. split; [exact R|]. split; [reflexivity|]. split; [exact R|]. split.
  - intros i ci Hi Hci. assert (i = O) by lia. subst i. cbn in Hci. inversion Hci; subst. cbn. lia.
  - intros i ci Hi. lia.
Qed.

(** what each outcome of one loop iteration means *)
Lemma rec_body_sound s : RInv s ->
  match rec_body comp s with
  | inl s' => RInv s'
  | inr RRecur => (exists T cref, a_steps P T c_start = Some cref /\ a_never_halts P cref) /\
                   (forall m cm, a_steps P m c_start = Some cm -> ~ a_spinout_cfg P cm)
  | inr RSpinout => exists T c, a_steps P T c_start = Some c /\ arep c (rs_state s) (rs_tape s) /\
                     exists color sh, cp_get comp (rs_state s, scan (ht_tape (rs_tape s))) = Some (color, sh, rs_state s)
                                      /\ at_edge (ht_tape (rs_tape s)) sh = true
  | inr (RUndefined sl) => exists T c, a_steps P T c_start = Some c /\ arep c (rs_state s) (rs_tape s) /\
                     sl = (rs_state s, scan (ht_tape (rs_tape s))) /\ cp_get comp sl = None
  | inr RLimit => False
  end.
Proof.
  intros (Hcan & Hcanr & T & n & cref & ccur & HT & Hrref & Hn & Hrcur & Hstays & Hns).
  assert (HTn : a_steps P (T + n) c_start = Some ccur) by (rewrite a_steps_add, HT; exact Hn).
  unfold rec_body.
  set (tp := rs_tape s) in *. set (q := rs_state s) in *.
  destruct (cp_get comp (q, scan (ht_tape tp))) as [[[color sh] next]|] eqn:Eget.
  2:{ exists (T + n)%nat, ccur. split; [rewrite a_steps_add, HT; exact Hn|].
      split; [exact Hrcur|]. split; [reflexivity|first [exact Eget|reflexivity]]. }
  destruct ((q =? next) && at_edge (ht_tape tp) sh) eqn:Esp.
  { apply andb_prop in Esp as [E1 E2]. apply N.eqb_eq in E1. subst next.
    exists (T + n)%nat, ccur. split; [rewrite a_steps_add, HT; exact Hn|].
    split; [exact Hrcur|]. exists color, sh. split; [first [exact Eget|reflexivity]|exact E2]. }
  (* possibly take a new snapshot *)
  set (snap := if rs_reset s =? 0
               then (q, tp, ht_head tp, ht_head tp, rs_cycle s)
               else (rs_ref_state s, rs_ref_tape s, rs_leftmost s, rs_rightmost s, rs_reset s)).
  destruct snap as [[[[ref_state ref_tape] lm] rm] reset] eqn:Esnap.
  assert (Hsnap : canon_tape (ht_tape ref_tape) /\
     exists T' n' cref', a_steps P T' c_start = Some cref' /\ arep cref' ref_state ref_tape /\
       a_steps P n' cref' = Some ccur /\ stays P n' cref' lm rm /\ (T' + n' = T + n)%nat).
  { unfold snap in Esnap. destruct (rs_reset s =? 0).
    - inversion Esnap; subst. split; [exact Hcan|].
      exists (T + n)%nat, O, ccur. split; [rewrite a_steps_add, HT; exact Hn|].
      split; [exact Hrcur|]. split; [reflexivity|]. split; [|lia].
      intros i ci Hi Hci. assert (i = O) by lia. subst i. cbn in Hci. inversion Hci; subst.
      destruct Hrcur as (_ & Hh & _). rewrite Hh. lia.
    - inversion Esnap; subst. split; [exact Hcanr|].
      exists T, n, cref. split; [exact HT|]. split; [exact Hrref|]. split; [exact Hn|]. split; [exact Hstays|reflexivity]. }
  destruct Hsnap as (Hcanr' & T' & n' & cref' & HT' & Hrref' & Hn' & Hstays' & HTn').
  unfold ht_step. destruct tp as [h t] eqn:Etp. cbn [ht_tape ht_head] in *.
  destruct (step t sh color (q =? next)) as [t' stepped] eqn:Estep.
  destruct (cycle_abs q t h color sh next t' stepped ccur Hcan Hrcur Eget Estep)
    as (k & ccur' & Hk & Hk1 & Hrun & Hrep' & Hheads).
  set (curr := if sh then (h + Z.of_N stepped)%Z else (h - Z.of_N stepped)%Z).
  assert (Hcurr : curr = shiftZ h sh (Z.of_N stepped)) by (unfold curr, shiftZ; reflexivity).
  assert (Hcan' : canon_tape t').
  { replace t' with (fst (step t sh color (q =? next))) by (rewrite Estep; reflexivity).
    apply canon_step. exact Hcan. }
  (* the head of the current configuration lies in [lm, rm] *)
  assert (Hhin : (lm <= h <= rm)%Z).
  { pose proof (Hstays' n' ccur (le_n _) Hn') as X. destruct Hrcur as (_ & Hh & _).
    cbn in Hh. rewrite Hh in X. exact X. }
  set (lm' := if (curr <? lm)%Z then curr else lm).
  set (rm' := if (curr <? lm)%Z then rm else if (rm <? curr)%Z then curr else rm).
  assert (Hwin : (lm' <= lm /\ rm <= rm' /\ lm' <= curr <= rm')%Z).
  { unfold lm', rm'. destruct (curr <? lm)%Z eqn:E1; [apply Z.ltb_lt in E1; lia|].
    apply Z.ltb_ge in E1. destruct (rm <? curr)%Z eqn:E2; [apply Z.ltb_lt in E2|apply Z.ltb_ge in E2]; lia. }
  assert (Hstays'' : stays P (n' + k) cref' lm' rm').
  { apply (stays_app n' k cref' ccur).
    - eapply stays_widen; [| |exact Hstays']; lia.
    - exact Hn'.
    - intros i ci Hi Hci. rewrite (Hheads i ci Hi Hci).
      assert (0 <= Z.of_nat i <= Z.of_N stepped)%Z by lia.
      unfold shiftZ in *. destruct sh; lia. }
  assert (Hrun' : a_steps P (n' + k) cref' = Some ccur') by (rewrite a_steps_add, Hn'; exact Hrun).
  assert (Hns' : forall i ci, (i < T' + (n' + k))%nat -> a_steps P i c_start = Some ci -> ~ a_spinout_cfg P ci).
  { intros i ci Hi Hci. destruct (Nat.lt_ge_cases i (T + n)) as [Hlt|Hge]; [exact (Hns i ci Hlt Hci)|].
    replace i with ((T + n) + (i - (T + n)))%nat in Hci by lia. rewrite a_steps_add, HTn in Hci.
    refine (cycle_no_spinout q t h color sh next t' stepped ccur Hcan Hrcur Eget Esp Estep _ ci _ Hci). lia. }
  cbn [ht_head].
  assert (Hpair : (if (curr <? lm)%Z then (curr, rm) else if (rm <? curr)%Z then (lm, curr) else (lm, rm))
                  = (lm', rm')).
  { unfold lm', rm'. destruct (curr <? lm)%Z; [reflexivity|]. destruct (rm <? curr)%Z; reflexivity. }
  fold curr. rewrite Hpair. cbv beta iota.
  rewrite <- Hcurr in Hrep'.
  destruct ((next =? ref_state) && aligns_with (mkHT curr t') ref_tape lm' rm') eqn:Eal.
  - (* recurrence *)
    apply andb_prop in Eal as [Eq Eal]. apply N.eqb_eq in Eq. subst next.
    destruct Hrref' as (Rq & Rh & Rt). destruct Hrep' as (Cq & Ch & Ct).
    cbn [ht_head ht_tape] in *.
    assert (Hlr : (lm' <= ht_head ref_tape <= rm')%Z).
    { pose proof (Hstays'' O cref' ltac:(lia) eq_refl) as X. rewrite Rh in X. exact X. }
    destruct (aligns_with_abs (mkHT curr t') ref_tape lm' rm' Eal Hcan' Hcanr' Hlr) as (W1 & W2 & W3).
    cbn [ht_head ht_tape] in *.
    assert (Hd1 : (1 <= n' + k)%nat) by lia.
    assert (Hd4 : a_q ccur' = a_q cref') by congruence.
    assert (Hd5 : a_h ccur' = (a_h cref' + (curr - ht_head ref_tape))%Z) by (rewrite Ch, Rh; lia).
    assert (Hd6 : forall x, (lm' <= x <= rm')%Z -> a_t ccur' (x + (curr - ht_head ref_tape))%Z = a_t cref' x).
    { intros x Hx. rewrite (Ct _), (Rt _). apply W1. exact Hx. }
    assert (Hd7 : (0 < curr - ht_head ref_tape)%Z -> forall x, (rm' < x)%Z ->
                  a_t ccur' (x + (curr - ht_head ref_tape))%Z = a_t cref' x).
    { intros Hd x Hx. rewrite (Ct _), (Rt _). apply W2; assumption. }
    assert (Hd8 : (curr - ht_head ref_tape < 0)%Z -> forall x, (x < lm')%Z ->
                  a_t ccur' (x + (curr - ht_head ref_tape))%Z = a_t cref' x).
    { intros Hd x Hx. rewrite (Ct _), (Rt _). apply W3; assumption. }
    split.
    + exists T', cref'. split; [exact HT'|].
      exact (translated_cycle P cref' ccur' (n' + k) lm' rm' _ Hd1 Hrun' Hstays'' Hd4 Hd5 Hd6 Hd7 Hd8).
    + intros m cm Hm. destruct (Nat.lt_ge_cases m T') as [Hlt|Hge].
      * apply (Hns' m cm); [lia|exact Hm].
      * replace m with (T' + (m - T'))%nat in Hm by lia. rewrite a_steps_add, HT' in Hm.
        refine (translated_cycle_no_spinout P cref' ccur' (n' + k) lm' rm' _ Hd1 Hrun' Hstays'' Hd4 Hd5 Hd6 Hd7 Hd8 _ _ cm Hm).
        intros i ci Hi Hci. apply (Hns' (T' + i)%nat ci); [lia|]. rewrite a_steps_add, HT'. exact Hci.
  - (* continue *)
    split; [exact Hcan'|]. split; [exact Hcanr'|].
    exists T', (n' + k)%nat, cref', ccur'.
    cbn [rs_ref_state rs_ref_tape rs_state rs_tape rs_leftmost rs_rightmost].
    split; [exact HT'|]. split; [exact Hrref'|]. split; [exact Hrun'|]. split; [exact Hrep'|]. split; [exact Hstays''|exact Hns'].
Qed.
End Rec.

(** ---- loop level ---- *)
Section RecLoop.
Variable comp : comp_prog.
Let P := to_prog comp.

Definition outcome_ok (r : recres) : Prop :=
  match r with
  | RLimit => False
  | RRecur => (exists T cref, a_steps P T (c_start) = Some cref /\ a_never_halts P cref) /\
              (forall m cm, a_steps P m c_start = Some cm -> ~ a_spinout_cfg P cm)
  | RSpinout => exists T c q ht, a_steps P T c_start = Some c /\ arep c q ht /\ canon_tape (ht_tape ht) /\
                  exists color sh, cp_get comp (q, scan (ht_tape ht)) = Some (color, sh, q)
                                   /\ at_edge (ht_tape ht) sh = true
  | RUndefined sl => exists T c q ht, a_steps P T c_start = Some c /\ arep c q ht /\
                  sl = (q, scan (ht_tape ht)) /\ cp_get comp sl = None
  end.

Lemma rec_loop_sound m : forall s, RInv comp s ->
  match iter_nat m (rec_body comp) s with
  | inl s' => RInv comp s'
  | inr r => outcome_ok r
  end.
Proof.
  induction m as [|m IH]; intros s HI; [exact HI|].
  cbn [iter_nat]. pose proof (rec_body_sound comp s HI) as Hb.
  destruct (rec_body comp s) as [s'|r].
  - apply IH. exact Hb.
  - destruct r as [| | |sl]; cbn [outcome_ok].
    + contradiction.
    + exact Hb.
    + destruct Hb as (T & c & H1 & H2 & H3). exists T, c, (rs_state s), (rs_tape s).
      split; [exact H1|]. split; [exact H2|]. split; [apply HI|exact H3].
    + destruct Hb as (T & c & H1 & H2 & H3 & H4). exists T, c, (rs_state s), (rs_tape s). auto.
Qed.

Definition z_start : ztape := unroll_tape init_stepped.

Lemma start_step : P (0, 0) = Some (1, true, 1) -> tm_step P init_config = Some (1, z_start).
Proof.
  intros H. unfold tm_step, init_config. change (zc blank_tape) with 0.
  unfold state, colour in *. rewrite H. reflexivity.
Qed.

(** back from the absolute presentation to the zipper one *)
Lemma reach_zipper T c q ht :
  a_steps P T c_start = Some c -> arep c q ht ->
  exists z, tm_steps P T (1, z_start) = Some (q, z) /\ tape_eq z (unroll_tape (ht_tape ht)).
Proof.
  intros HT (Hq & Hh & Ht).
  pose proof (zipper_abs_steps P T 1 z_start 1%Z) as Hz.
  change (mkA 1 1%Z (abs_of z_start 1%Z)) with c_start in Hz.
  match type of Hz with match ?x with _ => _ end => set (r := x) in Hz end.
  change (tm_steps P T (1, z_start)) with r. clearbody r.
  destruct r as [[q' z']|].
  - destruct Hz as (h' & t' & Ha & He). rewrite HT in Ha. inversion Ha; subst c.
    cbn [a_q a_h a_t] in *. subst q' h'. exists z'. split; [reflexivity|].
    apply (abs_of_tape_eq_inv z' _ (ht_head ht)).
    eapply aeq_trans; [apply aeq_sym; exact He|exact Ht].
  - rewrite HT in Hz. discriminate.
Qed.

Theorem rec_sound lim :
  P (0, 0) = Some (1, true, 1) ->
  match quick_term_or_rec comp lim with
  | RLimit => True
  | RRecur => never_halts P init_config /\ never_spins_out P init_config
  | RSpinout => exists n, spins_out_at P init_config n
  | RUndefined sl => exists n, halts_at P init_config n sl
  end.
Proof.
  intros Hnf. unfold quick_term_or_rec. rewrite for_upto_iter.
  pose proof (rec_loop_sound (N.to_nat (lim - 1)) (r_init) (RInv_init comp)) as H.
  fold r_init. fold P in H.
  destruct (iter_nat (N.to_nat (lim - 1)) (rec_body comp) r_init) as [s'|r]; [exact I|].
  destruct r as [| | |sl]; cbn [outcome_ok] in H.
  - exact I.
  - destruct H as ((T & cref & HT & Hnh) & Hnsp).
    assert (Hs : a_never_halts P c_start) by (eapply a_never_halts_from; eassumption).
    apply (never_halts_abs P 1 z_start 1%Z) in Hs. split.
    + intro n. destruct n as [|n]; [eexists; reflexivity|].
      cbn [tm_steps]. rewrite (start_step Hnf). apply Hs.
    + intros n c Hn Hsp. destruct n as [|n].
      * (* time 0: the first instruction 1RB changes the state *)
        cbn in Hn. inversion Hn; subst c. destruct Hsp as (_ & pr & sh & HP & _).
        unfold state, colour in *. rewrite Hnf in HP. discriminate.
      * cbn [tm_steps] in Hn. rewrite (start_step Hnf) in Hn. destruct c as [q z].
        pose proof (zipper_abs_steps P n 1 z_start 1%Z) as Hz.
        change (mkA 1 1%Z (abs_of z_start 1%Z)) with c_start in Hz.
        match type of Hz with match ?x with _ => _ end => set (r := x) in Hz end.
        change (tm_steps P n (1, z_start)) with r in Hn. clearbody r. subst r.
        destruct Hz as (h' & t' & Ha & He).
        apply (Hnsp n _ Ha). unfold a_spinout_cfg. cbn [a_q a_h a_t].
        apply (spinout_abs P q z h') in Hsp. destruct Hsp as (S0 & pr & sh & SP & SB).
        cbn [a_q a_h a_t] in *. split; [rewrite (He h'); exact S0|].
        exists pr, sh. split; [exact SP|]. intros x Hx. rewrite (He x). apply SB. exact Hx.
  - destruct H as (T & c & q & ht & HT & Hrep & Hcan & color & sh & Hget & Hedge).
    destruct (reach_zipper T c q ht HT Hrep) as (z & Hz & Hzeq).
    exists (S T). unfold spins_out_at. exists (q, z). split.
    + cbn [tm_steps]. rewrite (start_step Hnf). exact Hz.
    + apply (at_edge_spec _ sh Hcan) in Hedge as [E1 E2].
      assert (Hzc : zc z = 0) by (destruct Hzeq as (_ & Hc & _); rewrite Hc; exact E1).
      unfold spinout_cfg. split; [exact Hzc|]. exists color, sh. split.
      * unfold P, to_prog. cbn in E1. rewrite <- E1. exact Hget.
      * eapply all_blank_side_eq; [|exact E2]. apply side_eq_sym. apply side_tape_eq. exact Hzeq.
  - destruct H as (T & c & q & ht & HT & Hrep & Hsl & Hnone).
    destruct (reach_zipper T c q ht HT Hrep) as (z & Hz & Hzeq).
    exists (S T). unfold halts_at. exists q, z. split.
    + cbn [tm_steps]. rewrite (start_step Hnf). exact Hz.
    + assert (Hzc : zc z = scan (ht_tape ht)) by (destruct Hzeq as (_ & Hc & _); exact Hc).
      rewrite Hzc. split; [exact Hsl|]. unfold P, to_prog. exact Hnone.
Qed.
End RecLoop.

Print Assumptions rec_sound.
