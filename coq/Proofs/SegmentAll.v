(** C05 — all verdicts of the finite-segment analysis, assembled.

    [seg_verdicts_true]: for a table whose states and colours lie within
    (S, C), with 0 < S and 0 < C, every settled verdict of the three entry
    points is true of the machine started on the blank tape.

    The two side conditions 0 < S, 0 < C are necessary: for the empty table and
    S = 0 the analysis answers Refuted(0) for halt while the machine halts at
    step 0 ([seg_verdicts_stmt_false]: the statement without them is false). *)
From BB Require Import Base TM TMabs MacroSpec InstrsModel SegmentModel Loops TranslatedCycle AbsEquiv MacroSim.
From BB Require Import SegmentTape SegmentSound SegmentVerdicts SegmentAprog SegmentShape SegmentRefute
  SegmentCover SegmentRefuteHalt SegmentRefuteSpin SegmentBlank.
Open Scope N_scope.

Definition table_within (prog : comp_prog) (S C : N) : Prop :=
  forall s c pr sh tr, cp_get prog (s, c) = Some (pr, sh, tr) -> s < S /\ c < C /\ tr < S /\ pr < C.

Lemma table_within_P prog S C : table_within prog S C -> prog_within_P (to_prog prog) S C.
Proof.
  intros H q c pr sh q' HP. destruct (H q c pr sh q' HP) as (H1 & H2 & H3 & H4).
  repeat split; assumption.
Qed.

Theorem seg_verdicts_true prog S C segs :
  0 < S -> 0 < C -> table_within prog S C ->
  let P := to_prog prog in
  (forall st, sg_seg_cant_halt prog (S, C) segs = Ok (SgrRefuted st) -> forall n sl, ~ halts_at P init_config n sl) /\
  (forall st, sg_seg_cant_spin_out prog (S, C) segs = Ok (SgrRefuted st) -> forall n, ~ spins_out_at P init_config n) /\
  (forall st, sg_seg_cant_blank prog (S, C) segs = Ok (SgrRefuted st) -> forall n, ~ erases_at P init_config n) /\
  (forall g, sg_segment_cant_reach prog (S, C) segs g = Ok SgrHalt -> exists n sl, halts_at P init_config n sl) /\
  (forall g, sg_segment_cant_reach prog (S, C) segs g = Ok SgrSpinout -> exists n, spins_out_at P init_config n) /\
  (forall g, sg_segment_cant_reach prog (S, C) segs g = Ok SgrBlank -> exists n q, blank_after P init_config n q) /\
  (forall g, sg_segment_cant_reach prog (S, C) segs g = Ok SgrRepeat -> never_halts P init_config).
Proof.
  intros HS HC Hw P. pose proof (table_within_P prog S C Hw) as HwP.
  split; [|split; [|split; [|split; [|split; [|split]]]]].
  - intros st H. apply (seg_refuted_halt_sound prog S C segs st HwP HS HC H).
  - intros st H. apply (seg_refuted_spin_sound prog S C segs st HwP HS HC H).
  - intros st H. exfalso. apply (seg_cant_blank_never_refuted prog (S, C) segs st H).
  - intros g H. apply (seg_positive_sound prog (S, C) segs g), H.
  - intros g H. apply (seg_positive_sound prog (S, C) segs g), H.
  - intros g H. apply (seg_positive_sound prog (S, C) segs g), H.
  - intros g H. apply (seg_positive_sound prog (S, C) segs g), H.
Qed.

(** the statement without 0 < S, 0 < C (as first written) is false *)
Definition seg_verdicts_stmt_orig : Prop :=
  forall prog S C segs,
    (forall s c pr sh tr, cp_get prog (s, c) = Some (pr, sh, tr) -> s < S /\ c < C /\ tr < S /\ pr < C) ->
    let P := to_prog prog in
    (forall st, sg_seg_cant_halt prog (S, C) segs = Ok (SgrRefuted st) -> forall n sl, ~ halts_at P init_config n sl) /\
    (forall st, sg_seg_cant_spin_out prog (S, C) segs = Ok (SgrRefuted st) -> forall n, ~ spins_out_at P init_config n) /\
    (forall st, sg_seg_cant_blank prog (S, C) segs = Ok (SgrRefuted st) -> forall n, ~ erases_at P init_config n) /\
    (forall g, sg_segment_cant_reach prog (S, C) segs g = Ok SgrHalt -> exists n sl, halts_at P init_config n sl) /\
    (forall g, sg_segment_cant_reach prog (S, C) segs g = Ok SgrSpinout -> exists n, spins_out_at P init_config n) /\
    (forall g, sg_segment_cant_reach prog (S, C) segs g = Ok SgrBlank -> exists n q, blank_after P init_config n q) /\
    (forall g, sg_segment_cant_reach prog (S, C) segs g = Ok SgrRepeat -> never_halts P init_config).

Theorem seg_verdicts_stmt_false : ~ seg_verdicts_stmt_orig.
Proof.
  intro H. specialize (H [] 0 0 2). destruct H as (H1 & _).
  - intros s c pr sh tr E. discriminate.
  - apply (H1 0 ltac:(vm_compute; reflexivity) 0%nat (0, 0)).
    exists 0, blank_tape. split; [reflexivity|]. split; reflexivity.
Qed.

Print Assumptions seg_verdicts_true.
Print Assumptions seg_verdicts_stmt_false.
