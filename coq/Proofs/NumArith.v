(** Proofs for C18, int-operand fragment of the simplifier (as REPAIRED:
    gcd of an Add, gcd of an Exp with an int exponent, negative divisor of an
    Exp): soundness of [PyNumArithModel.arith true] against the integer
    semantics [NumExpr.eval] for every operation including [//] by any
    nonzero divisor; [arith true] is a restriction of the transcription
    [arith false]; the two coincide (so the transcription is sound) on every
    operand whose exponents are all Python ints, and on operands without Div
    for every operation but [//]; the one place where they differ, gcd(l, Exp)
    for a symbolic exponent, is shown to matter by a concrete wrong [//].
    HISTORY: the transcription of the code before the repair,
    [arith_prefix], is refuted.  Statements: Properties/C18.v. *)
From BB Require Import Base NumExpr PyNumModModel PyNumArithModel.
From Coq Require Import Znumtheory.
Open Scope Z_scope.

#[local] Arguments Z.mul : simpl never.
#[local] Arguments Z.add : simpl never.
#[local] Arguments Z.sub : simpl never.
#[local] Arguments Z.opp : simpl never.
#[local] Arguments Z.div : simpl never.
#[local] Arguments Z.modulo : simpl never.
#[local] Arguments Z.pow : simpl never.
#[local] Arguments Z.gcd : simpl never.
#[local] Arguments Z.sqrt : simpl never.
#[local] Arguments Z.eqb : simpl never.
#[local] Arguments Z.ltb : simpl never.
#[local] Arguments Z.leb : simpl never.
#[local] Arguments Z.min : simpl never.
#[local] Arguments Z.max : simpl never.

(** ** [eval]: inversion and introduction *)

Lemma eval_add_inv l r v : eval (NAdd l r) = Some v ->
  exists a b, eval l = Some a /\ eval r = Some b /\ v = a + b.
Proof.
  cbn [eval]. destruct (eval l) as [a|]; [|discriminate]. destruct (eval r) as [b|]; [|discriminate].
  intros [= <-]. eauto.
Qed.

Lemma eval_mul_inv l r v : eval (NMul l r) = Some v ->
  exists a b, eval l = Some a /\ eval r = Some b /\ v = a * b.
Proof.
  cbn [eval]. destruct (eval l) as [a|]; [|discriminate]. destruct (eval r) as [b|]; [|discriminate].
  intros [= <-]. eauto.
Qed.

Lemma eval_div_inv num den v : eval (NDiv num den) = Some v ->
  exists a, eval num = Some a /\ 0 < den /\ a mod den = 0 /\ v = a / den.
Proof.
  cbn [eval]. destruct (eval num) as [a|]; [|discriminate].
  destruct (0 <? den) eqn:D; [|discriminate]. destruct (a mod den =? 0) eqn:M; [|discriminate].
  cbn [andb]. intros [= <-]. exists a. repeat split; lia.
Qed.

Lemma eval_exp_inv b e v : eval (NExp b e) = Some v ->
  exists k, eval e = Some k /\ 0 <= k /\ v = b ^ k.
Proof.
  cbn [eval]. destruct (eval e) as [k|]; [|discriminate].
  destruct (0 <=? k) eqn:K; [|discriminate]. intros [= <-]. exists k. repeat split; lia.
Qed.

Lemma eval_add_intro l r a b : eval l = Some a -> eval r = Some b -> eval (NAdd l r) = Some (a + b).
Proof. intros A B. cbn [eval]. rewrite A, B. reflexivity. Qed.

Lemma eval_mul_intro l r a b : eval l = Some a -> eval r = Some b -> eval (NMul l r) = Some (a * b).
Proof. intros A B. cbn [eval]. rewrite A, B. reflexivity. Qed.

Lemma eval_div_intro num den a : eval num = Some a -> 0 < den -> a mod den = 0 ->
  eval (NDiv num den) = Some (a / den).
Proof.
  intros A D M. cbn [eval]. rewrite A. replace (0 <? den) with true by lia.
  replace (a mod den =? 0) with true by lia. reflexivity.
Qed.

Lemma eval_exp_intro b e k : eval e = Some k -> 0 <= k -> eval (NExp b e) = Some (b ^ k).
Proof. intros A K. cbn [eval]. rewrite A. replace (0 <=? k) with true by lia. reflexivity. Qed.

Lemma eval_int z : eval (NInt z) = Some z.
Proof. reflexivity. Qed.

(** ** Divisibility helpers *)

Lemma mod0_divide a b : a mod b = 0 -> (b | a).
Proof.
  intros H. destruct (Z.eq_dec b 0) as [->|NE].
  - rewrite Zmod_0_r in H. subst. exists 0. ring.
  - apply Z.mod_divide; assumption.
Qed.

Lemma divide_mod0 a b : (b | a) -> a mod b = 0.
Proof.
  intros [q ->]. destruct (Z.eq_dec b 0) as [->|NE].
  - rewrite Z.mul_0_r. apply Zmod_0_l.
  - apply Z.mod_mul. assumption.
Qed.

Lemma pos_ne d : 0 < d -> d <> 0.
Proof. lia. Qed.

Lemma div_exact a b : b <> 0 -> a mod b = 0 -> a = b * (a / b).
Proof. intros NE M. pose proof (Z.div_mod a b NE). lia. Qed.

Lemma div_of_mul q b : b <> 0 -> (q * b) / b = q.
Proof. intros. apply Z.div_mul. assumption. Qed.

(** ** Outcomes *)

Lemma abind_val {A B} (r : ares A) (f : A -> ares B) b :
  abind r f = AVal b -> exists a, r = AVal a /\ f a = AVal b.
Proof. destruct r as [a| |]; cbn; intros H; try discriminate. eauto. Qed.

Ltac bind_inv H :=
  let a := fresh "t" in let E := fresh "E" in
  apply abind_val in H; destruct H as (a & E & H).

(** ** What each operation must compute *)

Definition op_pre (op : aop) (v : Z) : Prop :=
  match op with
  | OFdiv n => n <> 0 /\ v mod n = 0
  | OPow n => 0 <= n
  | OMkExp _ => 0 <= v
  | _ => True
  end.

Definition op_val (op : aop) (v : Z) : Z :=
  match op with
  | OAddI n => v + n
  | ORadd n => n + v
  | OSubI n => v - n
  | ORsub n => n - v
  | ONeg => - v
  | OMulI n => v * n
  | ORmul n => n * v
  | OFdiv n => v / n
  | OPow n => v ^ n
  | OMkExp b => b ^ v
  end.

Definition call_sound (call : aop -> nexpr -> ares nexpr) : Prop :=
  forall op x r v, call op x = AVal r -> eval x = Some v -> op_pre op v -> eval r = Some (op_val op v).

Lemma make_mul_num_sound a b r va vb :
  make_mul_num a b = AVal r -> eval a = Some va -> eval b = Some vb -> eval r = Some (va * vb).
Proof.
  unfold make_mul_num. intros H A B.
  destruct (pn_lt_int (if pn_depth b <? pn_depth a then b else a)) as [ll|]; [|discriminate].
  destruct (pn_lt_int (if pn_depth b <? pn_depth a then a else b)) as [rl|]; [|discriminate].
  destruct (ll && rl); [discriminate|]. injection H as <-.
  destruct (pn_depth b <? pn_depth a).
  - rewrite (eval_mul_intro _ _ _ _ B A). f_equal; ring.
  - apply eval_mul_intro; assumption.
Qed.

Section steps.
Variable call : aop -> nexpr -> ares nexpr.
Hypothesis CS : call_sound call.

Lemma cadd_sound a b r va vb :
  cadd call a b = AVal r -> eval a = Some va -> eval b = Some vb -> eval r = Some (va + vb).
Proof.
  unfold cadd. intros H A B.
  destruct b as [q| | | |]; try (destruct a as [p| | | |]; try discriminate;
    cbn in A; injection A as <-; exact (CS _ _ _ _ H B I)).
  cbn in B. injection B as <-. exact (CS _ _ _ _ H A I).
Qed.

Lemma cmul_sound a b r va vb :
  cmul call a b = AVal r -> eval a = Some va -> eval b = Some vb -> eval r = Some (va * vb).
Proof.
  unfold cmul. intros H A B.
  destruct b as [q| | | |]; try (destruct a as [p|a1 a2| | |]; try discriminate;
    [ cbn in A; injection A as <-; exact (CS _ _ _ _ H B I)
    | exact (make_mul_num_sound _ _ _ _ _ H A B) ]).
  cbn in B. injection B as <-. exact (CS _ _ _ _ H A I).
Qed.

Lemma cfdiv_sound a n r va :
  cfdiv call a n = AVal r -> eval a = Some va -> n <> 0 -> va mod n = 0 -> eval r = Some (va / n).
Proof. unfold cfdiv. intros H A N M. exact (CS _ _ _ _ H A (conj N M)). Qed.

Lemma make_add_int_sound n x r v :
  make_add_int n x = AVal r -> eval x = Some v -> eval r = Some (n + v).
Proof. unfold make_add_int. intros [= <-] E. apply eval_add_intro; [reflexivity|assumption]. Qed.

Lemma make_mul_int_sound n x r v :
  make_mul_int n x = AVal r -> eval x = Some v -> eval r = Some (n * v).
Proof.
  unfold make_mul_int. intros H E. destruct x; try discriminate.
  - destruct (pn_lt_int (NAdd x1 x2)); discriminate.
  - destruct (pn_lt_int (NMul x1 x2)); discriminate.
  - destruct (pn_lt_int (NDiv x den)); discriminate.
  - injection H as <-. apply eval_mul_intro; [reflexivity|assumption].
Qed.

Lemma make_div_sound x n r v :
  make_div x n = AVal r -> eval x = Some v -> v mod n = 0 -> eval r = Some (v / n).
Proof.
  unfold make_div. destruct (n <=? 0) eqn:N; [discriminate|]. intros [= <-] E M.
  apply eval_div_intro; [assumption|lia|assumption].
Qed.

Lemma exp_finish_sound b e r k :
  exp_finish b e = AVal r -> eval e = Some k -> 0 <= k -> eval r = Some (b ^ k).
Proof.
  unfold exp_finish. intros H E K.
  destruct e as [z| | | |]; try (injection H as <-; apply eval_exp_intro; assumption).
  destruct (z <=? 0); [discriminate|]. injection H as <-. apply eval_exp_intro; assumption.
Qed.

(** *** x + n, n + x, x - n, n - x *)

Lemma div_add_exact a n den : 0 < den -> a mod den = 0 ->
  (a + n * den) mod den = 0 /\ (a + n * den) / den = a / den + n.
Proof.
  intros D M. split.
  - rewrite Z.mod_add by lia. assumption.
  - apply Z.div_add. lia.
Qed.

Lemma step_addi_sound n x r v :
  step_addi call n x = AVal r -> eval x = Some v -> eval r = Some (v + n).
Proof.
  intros H E. destruct x as [z|l r0|l r0|num den|b e]; cbn [step_addi] in H.
  - injection H as <-. cbn in E. injection E as <-. reflexivity.
  - destruct (n =? 0) eqn:N. { injection H as <-. rewrite E. f_equal; lia. }
    destruct (eval_add_inv _ _ _ E) as (a & b & A & B & ->).
    destruct l as [lz| | | |];
      try (rewrite (make_add_int_sound _ _ _ _ H E); f_equal; lia).
    cbn in A. injection A as <-.
    rewrite (cadd_sound _ _ _ _ _ H (eval_int _) B). f_equal; lia.
  - destruct (n =? 0) eqn:N. { injection H as <-. rewrite E. f_equal; lia. }
    rewrite (make_add_int_sound _ _ _ _ H E). f_equal; lia.
  - destruct (n =? 0) eqn:N. { injection H as <-. rewrite E. f_equal; lia. }
    destruct (eval_div_inv _ _ _ E) as (a & A & D & M & ->).
    bind_inv H.
    pose proof (cadd_sound _ _ _ _ _ E0 A (eval_int _)) as T.
    destruct (div_add_exact a n den D M) as [M' Q'].
    rewrite (cfdiv_sound _ _ _ _ H T (pos_ne _ D) M'). f_equal; assumption.
  - destruct (n =? 0) eqn:N. { injection H as <-. rewrite E. f_equal; lia. }
    rewrite (make_add_int_sound _ _ _ _ H E). f_equal; lia.
Qed.

Lemma step_radd_sound n x r v :
  step_radd call n x = AVal r -> eval x = Some v -> eval r = Some (n + v).
Proof.
  intros H E. destruct x as [z|l r0|l r0|num den|b e]; cbn [step_radd] in H.
  - injection H as <-. cbn in E. injection E as <-. reflexivity.
  - destruct (n =? 0) eqn:N. { injection H as <-. rewrite E. f_equal; lia. }
    destruct (eval_add_inv _ _ _ E) as (a & b & A & B & ->).
    destruct l as [lz| | | |];
      try (rewrite (make_add_int_sound _ _ _ _ H E); f_equal; lia).
    cbn in A. injection A as <-.
    rewrite (cadd_sound _ _ _ _ _ H (eval_int _) B). f_equal; lia.
  - destruct (n =? 0) eqn:N. { injection H as <-. rewrite E. f_equal; lia. }
    rewrite (make_add_int_sound _ _ _ _ H E). f_equal.
  - destruct (n =? 0) eqn:N. { injection H as <-. rewrite E. f_equal; lia. }
    destruct (eval_div_inv _ _ _ E) as (a & A & D & M & ->).
    bind_inv H.
    pose proof (cadd_sound _ _ _ _ _ E0 (eval_int _) A) as T.
    destruct (div_add_exact a n den D M) as [M' Q'].
    rewrite Z.add_comm in T.
    rewrite (cfdiv_sound _ _ _ _ H T (pos_ne _ D) M'). f_equal; lia.
  - destruct (n =? 0) eqn:N. { injection H as <-. rewrite E. f_equal; lia. }
    rewrite (make_add_int_sound _ _ _ _ H E). f_equal.
Qed.

Lemma step_subi_sound n x r v :
  step_subi call n x = AVal r -> eval x = Some v -> eval r = Some (v - n).
Proof.
  intros H E. destruct x as [z|l r0|l r0|num den|b e]; cbn [step_subi] in H.
  - injection H as <-. cbn in E. injection E as <-. reflexivity.
  - destruct (n =? 0) eqn:N. { injection H as <-. rewrite E. f_equal; lia. }
    rewrite (CS _ _ _ _ H E I). cbn. f_equal; lia.
  - destruct (n =? 0) eqn:N. { injection H as <-. rewrite E. f_equal; lia. }
    rewrite (CS _ _ _ _ H E I). cbn. f_equal; lia.
  - destruct (n =? 0) eqn:N. { injection H as <-. rewrite E. f_equal; lia. }
    rewrite (CS _ _ _ _ H E I). cbn. f_equal; lia.
  - destruct (n =? 0) eqn:N. { injection H as <-. rewrite E. f_equal; lia. }
    rewrite (make_add_int_sound _ _ _ _ H E). f_equal; lia.
Qed.

Lemma step_rsub_sound n x r v :
  step_rsub call n x = AVal r -> eval x = Some v -> eval r = Some (n - v).
Proof.
  unfold step_rsub. intros H E. bind_inv H.
  pose proof (CS _ _ _ _ E0 E I) as T. cbn in T.
  rewrite (cadd_sound _ _ _ _ _ H (eval_int _) T). f_equal; lia.
Qed.

(** *** -x *)

Lemma step_neg_sound x r v :
  step_neg call x = AVal r -> eval x = Some v -> eval r = Some (- v).
Proof.
  intros H E. destruct x as [z|l r0|l r0|num den|b e]; cbn [step_neg] in H.
  - injection H as <-. cbn in E. injection E as <-. reflexivity.
  - destruct (eval_add_inv _ _ _ E) as (a & b & A & B & ->).
    bind_inv H. bind_inv H.
    pose proof (CS _ _ _ _ E0 A I) as TA. pose proof (CS _ _ _ _ E1 B I) as TB. cbn in TA, TB.
    rewrite (cadd_sound _ _ _ _ _ H TA TB). f_equal; lia.
  - destruct (eval_mul_inv _ _ _ E) as (a & b & A & B & ->).
    bind_inv H. pose proof (CS _ _ _ _ E0 A I) as TA. cbn in TA.
    rewrite (cmul_sound _ _ _ _ _ H TA B). f_equal; lia.
  - destruct (eval_div_inv _ _ _ E) as (a & A & D & M & ->).
    bind_inv H. pose proof (CS _ _ _ _ E0 A I) as TA. cbn in TA.
    assert (M' : (- a) mod den = 0) by (apply Z.mod_opp_l_z; lia).
    rewrite (cfdiv_sound _ _ _ _ H TA (pos_ne _ D) M'). f_equal. apply Z.div_opp_l_z; lia.
  - rewrite (CS _ _ _ _ H E I). cbn. f_equal; lia.
Qed.

(** *** x * n, n * x *)

Lemma div_mul_gcd a den n :
  0 < den -> a mod den = 0 -> 1 < Z.gcd den n ->
  let c := Z.gcd den n in
  0 < den / c /\ ((n / c) * a) mod (den / c) = 0 /\ ((n / c) * a) / (den / c) = a / den * n.
Proof.
  intros D M C c.
  destruct (Z.gcd_divide_l den n) as [d' Hd]. destruct (Z.gcd_divide_r den n) as [n' Hn].
  fold c in Hd, Hn.
  assert (c <> 0) by lia.
  assert (Ed : den / c = d') by (rewrite Hd at 1; apply Z.div_mul; assumption).
  assert (En : n / c = n') by (rewrite Hn at 1; apply Z.div_mul; assumption).
  rewrite Ed, En.
  assert (D' : 0 < d') by nia.
  pose proof (div_exact a den ltac:(lia) M) as Ha. set (q := a / den) in *.
  assert (X : n' * a = (q * n) * d') by (rewrite Ha, Hd at 1; rewrite Hn; ring).
  split; [assumption|]. split.
  - rewrite X. apply Z.mod_mul. lia.
  - rewrite X. apply Z.div_mul. lia.
Qed.

Lemma step_muli_sound n x r v :
  step_muli call n x = AVal r -> eval x = Some v -> eval r = Some (v * n).
Proof.
  intros H E. destruct x as [z|l r0|l r0|num den|b e]; cbn [step_muli] in H.
  - injection H as <-. cbn in E. injection E as <-. reflexivity.
  - rewrite (CS _ _ _ _ H E I). cbn. f_equal; lia.
  - rewrite (CS _ _ _ _ H E I). cbn. f_equal; lia.
  - destruct (eval_div_inv _ _ _ E) as (a & A & D & M & ->).
    destruct (n =? den) eqn:N.
    { injection H as <-. rewrite A. f_equal. assert (n = den) by lia. subst n.
      pose proof (div_exact a den ltac:(lia) M). lia. }
    cbv zeta in H. destruct (1 <? Z.gcd den n) eqn:C.
    + bind_inv H. pose proof (cmul_sound _ _ _ _ _ E0 (eval_int _) A) as T.
      destruct (div_mul_gcd a den n D M ltac:(lia)) as (D' & M' & Q').
      rewrite (cfdiv_sound _ _ _ _ H T (pos_ne _ D') M'). f_equal; assumption.
    + bind_inv H. pose proof (cmul_sound _ _ _ _ _ E0 A (eval_int _)) as T.
      pose proof (div_exact a den ltac:(lia) M) as Ha. set (q := a / den) in *.
      assert (X : a * n = (q * n) * den) by (rewrite Ha; ring).
      assert (M' : (a * n) mod den = 0) by (rewrite X; apply Z.mod_mul; lia).
      rewrite (cfdiv_sound _ _ _ _ H T (pos_ne _ D) M'). f_equal. rewrite X. apply Z.div_mul. lia.
  - rewrite (CS _ _ _ _ H E I). cbn. f_equal; lia.
Qed.

(** the loops 1087-1092 / 1115-1120 *)
Lemma strip_loop_spec base : base <> 0 -> forall f other i n' j,
  strip_loop f other base i = Some (n', j) ->
  0 <= j - i /\ other = n' * base ^ (j - i) /\ n' mod base <> 0.
Proof.
  intros NZ. induction f as [|f IH]; intros other i n' j H; cbn [strip_loop] in H; [discriminate|].
  destruct (other mod base =? 0) eqn:M; cbn [negb] in H.
  - destruct (IH _ _ _ _ H) as (J & O & N). split; [lia|]. split; [|assumption].
    pose proof (div_exact other base ltac:(assumption) ltac:(lia)) as Ho.
    rewrite Ho, O. replace (j - i) with (1 + (j - (i + 1))) by lia.
    rewrite Z.pow_add_r by lia. rewrite Z.pow_1_r. ring.
  - injection H as <- <-. split; [lia|]. replace (i - i) with 0 by lia.
    rewrite Z.pow_0_r. split; [ring|lia].
Qed.

Lemma strip_base_spec other base n' i : base <> 0 ->
  strip_base other base = Some (n', i) -> 0 <= i /\ other = n' * base ^ i /\ n' mod base <> 0.
Proof.
  unfold strip_base. intros NZ H. apply strip_loop_spec in H; [|assumption].
  rewrite Z.sub_0_r in H. assumption.
Qed.

Lemma step_rmul_sound n x r v :
  step_rmul call n x = AVal r -> eval x = Some v -> eval r = Some (n * v).
Proof.
  intros H E. destruct x as [z|l r0|l r0|num den|b e]; cbn [step_rmul] in H.
  - injection H as <-. cbn in E. injection E as <-. reflexivity.
  - destruct (n =? 0) eqn:N0. { injection H as <-. cbn. f_equal; lia. }
    destruct (n =? 1) eqn:N1. { injection H as <-. rewrite E. f_equal; lia. }
    destruct (n =? -1) eqn:N2. { rewrite (CS _ _ _ _ H E I). cbn. f_equal; lia. }
    destruct (eval_add_inv _ _ _ E) as (a & b & A & B & ->).
    bind_inv H. bind_inv H.
    pose proof (cmul_sound _ _ _ _ _ E0 (eval_int _) A) as TA.
    pose proof (cmul_sound _ _ _ _ _ E1 (eval_int _) B) as TB.
    rewrite (cadd_sound _ _ _ _ _ H TA TB). f_equal; ring.
  - destruct (eval_mul_inv _ _ _ E) as (a & b & A & B & ->).
    destruct (n =? -1) eqn:N2.
    + assert (n = -1) by lia. subst n.
      destruct l as [lz| | | |lb le]; try discriminate.
      * cbn in A. injection A as <-. destruct (lz =? -1) eqn:L.
        { injection H as <-. rewrite B. f_equal; lia. }
        rewrite (cmul_sound _ _ _ _ _ H (eval_int _) B). f_equal; lia.
      * destruct r0 as [ | ra rb | | | ]; try discriminate.
        bind_inv H. pose proof (CS _ _ _ _ E0 B I) as TB. cbn in TB.
        rewrite (cmul_sound _ _ _ _ _ H A TB). f_equal; lia.
    + destruct (n =? 1) eqn:N1. { injection H as <-. rewrite E. f_equal; lia. }
      bind_inv H. pose proof (cmul_sound _ _ _ _ _ E0 (eval_int _) A) as TA.
      rewrite (cmul_sound _ _ _ _ _ H TA B). f_equal; ring.
  - destruct (n =? 0) eqn:N0. { injection H as <-. cbn. f_equal; lia. }
    destruct (n =? 1) eqn:N1. { injection H as <-. rewrite E. f_equal; lia. }
    destruct (0 <? n) eqn:NP. { rewrite (CS _ _ _ _ H E I). cbn. f_equal; lia. }
    bind_inv H. pose proof (CS _ _ _ _ E0 E I) as T. cbn in T.
    rewrite (CS _ _ _ _ H T I). cbn. f_equal; lia.
  - destruct (n =? 0) eqn:N0. { injection H as <-. cbn. f_equal; lia. }
    destruct (n =? 1) eqn:N1. { injection H as <-. rewrite E. f_equal; lia. }
    destruct (n =? -1) eqn:N2. { rewrite (make_mul_int_sound _ _ _ _ H E). f_equal; lia. }
    destruct (b <? 2) eqn:B2; [discriminate|].
    destruct ((n <? -1) && (- n mod b =? 0)) eqn:NB.
    { bind_inv H. pose proof (CS _ _ _ _ E0 E I) as T. cbn in T.
      rewrite (CS _ _ _ _ H T I). cbn. f_equal; lia. }
    destruct (negb (n mod b =? 0)) eqn:NM. { apply (make_mul_int_sound _ _ _ _ H E). }
    destruct (strip_base n b) as [[n' i]|] eqn:S; [|discriminate].
    destruct (strip_base_spec n b n' i ltac:(lia) S) as (I0 & Hn & _).
    destruct (eval_exp_inv _ _ _ E) as (k & K & K0 & ->).
    bind_inv H. bind_inv H.
    pose proof (cadd_sound _ _ _ _ _ E0 K (eval_int _)) as T1.
    pose proof (CS _ _ _ _ E1 T1 ltac:(cbn; lia)) as T2. cbn in T2.
    rewrite (cmul_sound _ _ _ _ _ H (eval_int _) T2). f_equal.
    rewrite Z.pow_add_r by lia. rewrite Hn. ring.
Qed.

(** *** x ** n, make_exp *)

Lemma step_mkexp_sound b x r v :
  step_mkexp call b x = AVal r -> eval x = Some v -> 0 <= v -> eval r = Some (b ^ v).
Proof.
  unfold step_mkexp. intros H E V.
  destruct (b <=? 1) eqn:B1. { exact (exp_finish_sound _ _ _ _ H E V). }
  destruct (max_base <=? b) eqn:MB; [discriminate|].
  destruct (b =? 8) eqn:B8.
  - bind_inv H. pose proof (cmul_sound _ _ _ _ _ E0 E (eval_int _)) as T.
    rewrite (exp_finish_sound _ _ _ _ H T ltac:(lia)). f_equal.
    assert (b = 8) by lia. subst b. rewrite Z.mul_comm, Z.pow_mul_r by lia. reflexivity.
  - cbv zeta in H. destruct (Z.sqrt b * Z.sqrt b =? b) eqn:SQ.
    + bind_inv H. pose proof (cmul_sound _ _ _ _ _ E0 E (eval_int _)) as T.
      rewrite (CS _ _ _ _ H T ltac:(cbn; lia)). cbn. f_equal.
      rewrite Z.mul_comm, Z.pow_mul_r by lia. rewrite Z.pow_2_r. f_equal; lia.
    + exact (exp_finish_sound _ _ _ _ H E V).
Qed.

Lemma step_pow_sound n x r v :
  step_pow call n x = AVal r -> eval x = Some v -> 0 <= n -> eval r = Some (v ^ n).
Proof.
  intros H E N. destruct x as [z|l r0|l r0|num den|b e]; cbn [step_pow] in H; try discriminate.
  - destruct (0 <=? n); [|discriminate]. injection H as <-. cbn in E. injection E as <-. reflexivity.
  - destruct (eval_exp_inv _ _ _ E) as (k & K & K0 & ->).
    bind_inv H. pose proof (cmul_sound _ _ _ _ _ E0 K (eval_int _)) as T.
    rewrite (CS _ _ _ _ H T ltac:(cbn; nia)). cbn. f_equal. apply Z.pow_mul_r; assumption.
Qed.

End steps.

(** ** The gcd helper (1306-1347) *)

Lemma gcd_down_div l base : forall f blog, (base ^ gcd_down f l base blog | l).
Proof.
  induction f as [|f IH]; intros blog; cbn [gcd_down].
  - rewrite Z.pow_0_r. apply Z.divide_1_l.
  - destruct (l mod base ^ blog =? 0) eqn:M; [|apply IH]. apply mod0_divide. lia.
Qed.

(** the exponent the loop 1340-1345 ends with: between 0 and where it started *)
Lemma gcd_down_range l base : 0 < l -> forall f blog,
  0 <= gcd_down f l base blog /\ (gcd_down f l base blog <= blog \/ gcd_down f l base blog = 0).
Proof.
  intros L. induction f as [|f IH]; intros blog; cbn [gcd_down].
  - split; [lia|right; reflexivity].
  - destruct (l mod base ^ blog =? 0) eqn:M.
    + split; [|left; lia]. destruct (Z_lt_le_dec blog 0) as [N|]; [|assumption].
      rewrite Z.pow_neg_r in M by assumption. rewrite Zmod_0_r in M. lia.
    + destruct (IH (blog - 1)) as [P [Q|Q]]; split; try assumption; [left; lia|right; assumption].
Qed.

Lemma gcd_exp_ret_val chk e m g g' : gcd_exp_ret chk e m g = AVal g' -> g' = g.
Proof.
  unfold gcd_exp_ret. destruct e; try (intros [= <-]; reflexivity);
    (destruct (chk && negb (exp_ge _ m)); [discriminate|intros [= <-]; reflexivity]).
Qed.

(** whatever the version: a divisor of the FIRST argument, and nonnegative *)
Lemma gcd_gen_div_l pre chk : forall r l g, gcd_gen pre chk l r = AVal g -> (g | l).
Proof.
  induction r as [z|a IHa b IHb|a IHa b IHb|num IH den|base e IH]; intros l g H; cbn [gcd_gen] in H;
    (destruct (l =? 1) eqn:L1; [injection H as <-; apply Z.divide_1_l|]).
  - injection H as <-. apply Z.gcd_divide_l.
  - bind_inv H. destruct (t =? 1). { injection H as <-. apply Z.divide_1_l. }
    bind_inv H. destruct (t0 =? 1). { injection H as <-. apply Z.divide_1_l. }
    injection H as <-. destruct pre.
    + destruct (Z.min_spec t t0) as [[_ ->]|[_ ->]]; eauto.
    + apply Z.divide_trans with t; [apply Z.gcd_divide_l|eauto].
  - bind_inv H. bind_inv H. injection H as <-.
    destruct (Z.max_spec t t0) as [[_ ->]|[_ ->]]; eauto.
  - discriminate.
  - destruct (base <? 2); [discriminate|].
    destruct (match e with NInt z => z <=? 0 | _ => false end); [discriminate|].
    destruct (l =? base). { apply gcd_exp_ret_val in H. subst. apply Z.divide_refl. }
    destruct (negb (l mod base =? 0)).
    { cbv zeta in H. destruct (Z.gcd l base =? 1). { injection H as <-. apply Z.divide_1_l. }
      apply gcd_exp_ret_val in H. subst. apply Z.gcd_divide_l. }
    destruct (l <=? 0); [discriminate|].
    destruct (py_int_log l base) as [blog|]; [|discriminate].
    cbv zeta in H. apply gcd_exp_ret_val in H. subst. apply gcd_down_div.
Qed.

Lemma gcd_gen_nonneg pre chk : forall r l g, gcd_gen pre chk l r = AVal g -> 0 <= g.
Proof.
  induction r as [z|a IHa b IHb|a IHa b IHb|num IH den|base e IH]; intros l g H; cbn [gcd_gen] in H;
    (destruct (l =? 1) eqn:L1; [injection H as <-; lia|]).
  - injection H as <-. apply Z.gcd_nonneg.
  - bind_inv H. destruct (t =? 1). { injection H as <-. lia. }
    bind_inv H. destruct (t0 =? 1). { injection H as <-. lia. }
    injection H as <-. pose proof (IHa _ _ E). pose proof (IHb _ _ E0).
    destruct pre; [lia|apply Z.gcd_nonneg].
  - bind_inv H. bind_inv H. injection H as <-. pose proof (IHa _ _ E). pose proof (IHb _ _ E0). lia.
  - discriminate.
  - destruct (base <? 2) eqn:B; [discriminate|].
    destruct (match e with NInt z => z <=? 0 | _ => false end); [discriminate|].
    destruct (l =? base) eqn:LB. { apply gcd_exp_ret_val in H. subst. lia. }
    destruct (negb (l mod base =? 0)).
    { cbv zeta in H. destruct (Z.gcd l base =? 1). { injection H as <-. lia. }
      apply gcd_exp_ret_val in H. subst. apply Z.gcd_nonneg. }
    destruct (l <=? 0); [discriminate|].
    destruct (py_int_log l base) as [blog|]; [|discriminate].
    cbv zeta in H. apply gcd_exp_ret_val in H. subst. apply Z.pow_nonneg. lia.
Qed.

Lemma gcd_gen_pos pre chk r l g : l <> 0 -> gcd_gen pre chk l r = AVal g -> 0 < g /\ (g | l).
Proof.
  intros L H. pose proof (gcd_gen_div_l _ _ _ _ _ H) as D. pose proof (gcd_gen_nonneg _ _ _ _ _ H) as N.
  split; [|assumption]. destruct D as [q Hq]. destruct (Z.eq_dec g 0); [subst; lia|lia].
Qed.

(** the exponent of an Exp that [gcd] has gone through: an int >= 1, or (under
    [chk]) a symbolic exponent whose value is at least [m] *)
Lemma gcd_exp_ret_ge e m g g' k :
  gcd_exp_ret true e m g = AVal g' -> eval e = Some k ->
  (match e with NInt z => z <=? 0 | _ => false end) = false ->
  (forall z, e = NInt z -> m <= z) -> m <= k.
Proof.
  unfold gcd_exp_ret. intros H E Z0 HI.
  destruct e as [z| | | |]; try (cbn [andb] in H; unfold exp_ge in H; rewrite E in H;
    destruct (m <=? k) eqn:MK; cbn [negb] in H; [lia|discriminate]).
  cbn in E. injection E as <-. apply HI. reflexivity.
Qed.

Lemma pow_divide_pow base b k : 0 <= b <= k -> (base ^ b | base ^ k).
Proof.
  intros B. exists (base ^ (k - b)). rewrite <- Z.pow_add_r by lia. f_equal. lia.
Qed.

(** REPAIRED gcd under [chk]: a divisor of the value of the SECOND argument too *)
Lemma gcd_h_sound : forall r l g v, gcd_h true l r = AVal g -> eval r = Some v -> (g | v).
Proof.
  unfold gcd_h.
  induction r as [z|a IHa b IHb|a IHa b IHb|num IH den|base e IH]; intros l g v H E; cbn [gcd_gen] in H;
    (destruct (l =? 1) eqn:L1; [injection H as <-; apply Z.divide_1_l|]).
  - injection H as <-. cbn in E. injection E as <-. apply Z.gcd_divide_r.
  - destruct (eval_add_inv _ _ _ E) as (va & vb & A & B & ->).
    bind_inv H. destruct (t =? 1). { injection H as <-. apply Z.divide_1_l. }
    bind_inv H. destruct (t0 =? 1). { injection H as <-. apply Z.divide_1_l. }
    injection H as <-. apply Z.divide_add_r.
    + apply Z.divide_trans with t; [apply Z.gcd_divide_l|eauto].
    + apply Z.divide_trans with t0; [apply Z.gcd_divide_r|eauto].
  - destruct (eval_mul_inv _ _ _ E) as (va & vb & A & B & ->).
    bind_inv H. bind_inv H. injection H as <-.
    destruct (Z.max_spec t t0) as [[_ ->]|[_ ->]].
    + apply Z.divide_mul_r. eauto.
    + apply Z.divide_mul_l. eauto.
  - discriminate.
  - destruct (eval_exp_inv _ _ _ E) as (k & K & K0 & ->).
    destruct (base <? 2) eqn:B2; [discriminate|].
    destruct (match e with NInt z => z <=? 0 | _ => false end) eqn:Z0; [discriminate|].
    assert (HI1 : forall z, e = NInt z -> 1 <= z) by (intros z ->; lia).
    destruct (l =? base) eqn:LB.
    { pose proof (gcd_exp_ret_ge _ _ _ _ _ H K Z0 HI1) as K1. apply gcd_exp_ret_val in H. subst g.
      assert (l = base) by lia. subst l. replace k with (1 + (k - 1)) by lia.
      rewrite Z.pow_add_r, Z.pow_1_r by lia. apply Z.divide_factor_l. }
    destruct (negb (l mod base =? 0)).
    { cbv zeta in H. destruct (Z.gcd l base =? 1). { injection H as <-. apply Z.divide_1_l. }
      pose proof (gcd_exp_ret_ge _ _ _ _ _ H K Z0 HI1) as K1. apply gcd_exp_ret_val in H. subst g.
      apply Z.divide_trans with base; [apply Z.gcd_divide_r|].
      replace k with (1 + (k - 1)) by lia. rewrite Z.pow_add_r, Z.pow_1_r by lia. apply Z.divide_factor_l. }
    destruct (l <=? 0) eqn:LP; [discriminate|].
    destruct (py_int_log l base) as [blog0|]; [|discriminate].
    cbv zeta in H. cbn [negb andb] in H.
    set (blog := match e with NInt z => Z.min blog0 z | _ => blog0 end) in *.
    set (bb := gcd_down (S (Z.to_nat blog)) l base blog) in *.
    destruct (gcd_down_range l base ltac:(lia) (S (Z.to_nat blog)) blog) as [P Q]. fold bb in P, Q.
    assert (HI : forall z, e = NInt z -> bb <= z).
    { intros z ->. subst blog. cbn in Z0. lia. }
    pose proof (gcd_exp_ret_ge _ _ _ _ _ H K Z0 HI) as KB. apply gcd_exp_ret_val in H. subst g.
    apply pow_divide_pow. lia.
Qed.

Lemma gcdc_sound n y g v : n <> 0 -> gcdc false true n y = AVal g -> eval y = Some v ->
  0 < g /\ (g | n) /\ (g | v).
Proof.
  unfold gcdc. intros N H E. destruct (gcd_gen_pos _ _ _ _ _ N H) as [P D].
  split; [assumption|]. split; [assumption|]. exact (gcd_h_sound _ _ _ _ H E).
Qed.

(** ** Arithmetic of the __floordiv__ methods *)

Lemma add_fdiv a b n d : n <> 0 -> 0 < d -> (d | a) -> (d | b) -> (d | n) -> (a + b) mod n = 0 ->
  n / d <> 0 /\ a mod d = 0 /\ b mod d = 0 /\
  (a / d + b / d) mod (n / d) = 0 /\ (a / d + b / d) / (n / d) = (a + b) / n.
Proof.
  intros N D [a' ->] [b' ->] [n' ->] M.
  assert (DZ : d <> 0) by lia.
  rewrite !Z.div_mul by assumption. rewrite !Z.mod_mul by assumption.
  assert (N' : n' <> 0) by nia.
  pose proof (div_exact (a' * d + b' * d) (n' * d) ltac:(nia) M) as Q. set (q := (a' * d + b' * d) / (n' * d)) in *.
  assert (X : (a' + b' - n' * q) * d = 0) by lia.
  apply Z.mul_eq_0 in X. destruct X as [X|X]; [|lia].
  assert (S : a' + b' = q * n') by lia.
  repeat split; try lia.
  - rewrite S. apply Z.mod_mul. lia.
  - rewrite S. apply Z.div_mul. lia.
Qed.

Lemma mul_fdiv a b n g : n <> 0 -> 0 < g -> (g | a) -> (g | n) -> (a * b) mod n = 0 ->
  n / g <> 0 /\ a mod g = 0 /\ (a / g * b) mod (n / g) = 0 /\ (a / g * b) / (n / g) = (a * b) / n.
Proof.
  intros N G [a' ->] [n' ->] M.
  assert (GZ : g <> 0) by lia.
  rewrite !Z.div_mul by assumption. rewrite Z.mod_mul by assumption.
  assert (N' : n' <> 0) by nia.
  pose proof (div_exact (a' * g * b) (n' * g) ltac:(nia) M) as Q. set (q := (a' * g * b) / (n' * g)) in *.
  assert (X : (a' * b - n' * q) * g = 0) by lia.
  apply Z.mul_eq_0 in X. destruct X as [X|X]; [|lia].
  assert (S : a' * b = q * n') by lia.
  repeat split; try lia.
  - rewrite S. apply Z.mod_mul. lia.
  - rewrite S. apply Z.div_mul. lia.
Qed.

Lemma div_fdiv1 a den n : 0 < den -> a mod den = 0 -> n <> 0 -> (a / den) mod n = 0 ->
  a mod (n * den) = 0 /\ a / (n * den) = a / den / n.
Proof.
  intros D M N M2.
  pose proof (div_exact a den ltac:(lia) M) as Ha. set (v := a / den) in *.
  pose proof (div_exact v n ltac:(lia) M2) as Hv. set (q := v / n) in *.
  assert (X : a = q * (n * den)) by (rewrite Ha, Hv; ring).
  split.
  - rewrite X. apply Z.mod_mul. nia.
  - rewrite X. apply Z.div_mul. nia.
Qed.

Lemma div_fdiv a den n c : 0 < den -> a mod den = 0 -> n <> 0 -> (a / den) mod n = 0 ->
  0 < c -> (c | n) -> (c | a) ->
  a mod c = 0 /\ n / c * den <> 0 /\ (a / c) mod (n / c * den) = 0 /\ a / c / (n / c * den) = a / den / n.
Proof.
  intros D M N M2 C [n' ->] [a' Ha'].
  assert (CZ : c <> 0) by lia.
  pose proof (div_exact a den ltac:(lia) M) as Ha. set (v := a / den) in *.
  pose proof (div_exact v (n' * c) ltac:(nia) M2) as Hv. set (q := v / (n' * c)) in *.
  rewrite Z.div_mul by assumption.
  assert (N' : n' <> 0) by nia.
  assert (X : a = (q * (n' * den)) * c) by (rewrite Ha, Hv; ring).
  split. { rewrite X. apply Z.mod_mul. assumption. }
  split. { nia. }
  rewrite X at 1 2. rewrite Z.div_mul by assumption.
  split.
  - apply Z.mod_mul. nia.
  - apply Z.div_mul. nia.
Qed.

Lemma pow_div_le base i k n' : 2 <= base -> 0 <= i -> 0 <= k -> 0 < n' ->
  (n' * base ^ i | base ^ k) -> i <= k /\ (n' | base ^ (k - i)).
Proof.
  intros B I K N [q Hq].
  assert (P : forall j, 0 <= j -> 0 < base ^ j) by (intros; apply Z.pow_pos_nonneg; lia).
  destruct (Z_le_gt_dec i k) as [LE|GT].
  - split; [assumption|]. exists q.
    replace k with ((k - i) + i) in Hq at 1 by lia. rewrite Z.pow_add_r in Hq by lia.
    pose proof (P i I). apply (Z.mul_cancel_r _ _ (base ^ i)); [lia|]. rewrite Hq. ring.
  - exfalso. replace i with ((i - k) + k) in Hq by lia. rewrite Z.pow_add_r in Hq by lia.
    pose proof (P k K).
    assert (X : 1 = q * n' * base ^ (i - k)).
    { apply (Z.mul_cancel_r _ _ (base ^ k)); [lia|]. rewrite Z.mul_1_l. rewrite Hq at 1. ring. }
    assert (1 < base ^ (i - k)) by (apply Z.pow_gt_1; lia).
    assert (0 < q * n') by nia. nia.
Qed.

(** ** x // n, any n <> 0 *)

Section fdiv.
Variable call : aop -> nexpr -> ares nexpr.
Hypothesis CS : call_sound call.

Lemma div1 v n : n = 1 -> v = v / n.
Proof. intros ->. symmetry. apply Z.div_1_r. Qed.

Lemma step_fdiv_sound n x r v :
  step_fdiv false true call n x = AVal r -> eval x = Some v -> n <> 0 -> v mod n = 0 ->
  eval r = Some (v / n).
Proof.
  intros H E N M. destruct x as [z|l r0|l r0|num den|b e]; cbn [step_fdiv] in H.
  - destruct (n =? 0) eqn:N0; [discriminate|]. injection H as <-. cbn in E. injection E as <-. reflexivity.
  - (* Add *)
    destruct (n =? 1) eqn:N1. { injection H as <-. rewrite E. f_equal. apply div1. lia. }
    destruct (n =? 0) eqn:N0; [discriminate|].
    destruct (eval_add_inv _ _ _ E) as (a & b & A & B & ->).
    bind_inv H. destruct (gcdc_sound _ _ _ _ N E0 A) as (LP & LN & LA).
    destruct (t =? 1). { exact (make_div_sound _ _ _ _ H E M). }
    bind_inv H. destruct (gcdc_sound _ _ _ _ N E1 B) as (RP & RN & RB).
    destruct (t0 =? 1). { exact (make_div_sound _ _ _ _ H E M). }
    cbv zeta in H. set (d := Z.gcd t t0) in *.
    destruct (d =? 1). { exact (make_div_sound _ _ _ _ H E M). }
    assert (DL : (d | t)) by apply Z.gcd_divide_l. assert (DR : (d | t0)) by apply Z.gcd_divide_r.
    assert (DP : 0 < d).
    { pose proof (Z.gcd_nonneg t t0). fold d in H0. destruct DL as [q Hq]. destruct (Z.eq_dec d 0); [subst d; lia|lia]. }
    destruct (add_fdiv a b n d N DP (Z.divide_trans _ _ _ DL LA) (Z.divide_trans _ _ _ DR RB)
                (Z.divide_trans _ _ _ DL LN) M) as (ND & MA & MB & MS & QS).
    bind_inv H. bind_inv H. bind_inv H.
    pose proof (cfdiv_sound _ CS _ _ _ _ E2 A (pos_ne _ DP) MA) as TA.
    pose proof (cfdiv_sound _ CS _ _ _ _ E3 B (pos_ne _ DP) MB) as TB.
    pose proof (cadd_sound _ CS _ _ _ _ _ E4 TA TB) as TS.
    rewrite (cfdiv_sound _ CS _ _ _ _ H TS ND MS). f_equal; assumption.
  - (* Mul *)
    destruct (n =? 1) eqn:N1. { injection H as <-. rewrite E. f_equal. apply div1. lia. }
    destruct (n =? 0) eqn:N0; [discriminate|].
    destruct (eval_mul_inv _ _ _ E) as (a & b & A & B & ->).
    bind_inv H. destruct (gcdc_sound _ _ _ _ N E0 A) as (LP & LN & LA).
    destruct (1 <? t).
    { destruct (mul_fdiv a b n t N LP LA LN M) as (ND & MA & MS & QS).
      bind_inv H. bind_inv H.
      pose proof (cfdiv_sound _ CS _ _ _ _ E1 A (pos_ne _ LP) MA) as TA.
      pose proof (cmul_sound _ CS _ _ _ _ _ E2 TA B) as TM.
      rewrite (cfdiv_sound _ CS _ _ _ _ H TM ND MS). f_equal; assumption. }
    bind_inv H. destruct (gcdc_sound _ _ _ _ N E1 B) as (RP & RN & RB).
    destruct (1 <? t0).
    { rewrite Z.mul_comm in M. destruct (mul_fdiv b a n t0 N RP RB RN M) as (ND & MB & MS & QS).
      bind_inv H. bind_inv H.
      pose proof (cfdiv_sound _ CS _ _ _ _ E2 B (pos_ne _ RP) MB) as TB.
      pose proof (cmul_sound _ CS _ _ _ _ _ E3 A TB) as TM.
      rewrite Z.mul_comm in TM.
      rewrite (cfdiv_sound _ CS _ _ _ _ H TM ND MS). f_equal. rewrite QS. f_equal. ring. }
    exact (make_div_sound _ _ _ _ H E M).
  - (* Div *)
    destruct (n =? 1) eqn:N1. { injection H as <-. rewrite E. f_equal. apply div1. lia. }
    destruct (n =? 0) eqn:N0; [discriminate|].
    destruct (eval_div_inv _ _ _ E) as (a & A & D & MD & ->).
    bind_inv H. destruct (gcdc_sound _ _ _ _ N E0 A) as (CP & CN & CA).
    destruct (t =? 1).
    { destruct (div_fdiv1 a den n D MD N M) as (M1 & Q1).
      rewrite (make_div_sound _ _ _ _ H A M1). f_equal; assumption. }
    destruct (div_fdiv a den n t D MD N M CP CN CA) as (MC & DP & M2 & Q2).
    bind_inv H.
    pose proof (cfdiv_sound _ CS _ _ _ _ E1 A (pos_ne _ CP) MC) as TA.
    rewrite (cfdiv_sound _ CS _ _ _ _ H TA DP M2). f_equal; assumption.
  - (* Exp *)
    destruct (n =? 1) eqn:N1. { injection H as <-. rewrite E. f_equal. apply div1. lia. }
    cbn [negb andb] in H. destruct (n <? 0) eqn:NN.
    { (* 1102-1103: -(self // -other) *)
      bind_inv H.
      assert (M' : v mod (- n) = 0) by (apply Z.mod_opp_r_z; lia).
      pose proof (cfdiv_sound _ CS _ _ _ _ E0 E ltac:(lia) M') as T.
      rewrite (CS _ _ _ _ H T I). cbn [op_val]. f_equal.
      rewrite (Z.div_opp_r_z v n N M). lia. }
    destruct (n =? 0) eqn:N0; [discriminate|].
    assert (NP : 0 < n) by lia. clear N.
    destruct (b <? 2) eqn:B2; [discriminate|].
    destruct (strip_base n b) as [[n' i]|] eqn:S; [|discriminate].
    destruct (strip_base_spec n b n' i ltac:(lia) S) as (I0 & Hn & _).
    destruct (eval_exp_inv _ _ _ E) as (k & K & K0 & ->).
    assert (BP : forall j, 0 <= j -> 0 < b ^ j) by (intros; apply Z.pow_pos_nonneg; lia).
    pose proof (BP i I0) as BI.
    assert (NP' : 0 < n') by nia.
    assert (DV : (n' * b ^ i | b ^ k)) by (rewrite <- Hn; apply mod0_divide; assumption).
    destruct (pow_div_le b i k n' ltac:(lia) I0 K0 NP' DV) as (IK & [q Hq]).
    assert (BK : b ^ k = q * (n' * b ^ i)).
    { replace k with ((k - i) + i) at 1 by lia. rewrite Z.pow_add_r by lia. rewrite Hq. ring. }
    assert (QV : b ^ k / n = q) by (rewrite Hn, BK; apply Z.div_mul; lia).
    rewrite QV.
    bind_inv H. pose proof (CS _ _ _ _ E0 K I) as T1. cbn in T1.
    destruct (1 <? n') eqn:N'1.
    + destruct (negb (n' <? b)) eqn:NB; [discriminate|].
      destruct (negb (b mod n' =? 0)) eqn:BM; [discriminate|].
      bind_inv H. bind_inv H.
      pose proof (CS _ _ _ _ E1 T1 I) as T2. cbn in T2.
      assert (KI : 1 <= k - i).
      { destruct (Z.eq_dec (k - i) 0) as [Z0|]; [|lia]. rewrite Z0, Z.pow_0_r in Hq.
        assert (0 < q) by nia. nia. }
      pose proof (CS _ _ _ _ E2 T2 ltac:(cbn; lia)) as T3. cbn in T3.
      rewrite (cmul_sound _ CS _ _ _ _ _ H (eval_int _) T3). f_equal.
      pose proof (div_exact b n' ltac:(lia) ltac:(lia)) as Hb. set (c := b / n') in *.
      assert (X : b ^ (k - i) = n' * (c * b ^ (k - i - 1))).
      { replace (k - i) with (1 + (k - i - 1)) at 1 by lia. rewrite Z.pow_add_r by lia.
        rewrite Z.pow_1_r. rewrite Hb at 1. ring. }
      rewrite X in Hq. apply (Z.mul_cancel_l _ _ n'); [lia|]. rewrite Hq. ring.
    + assert (n' = 1) by lia. subst n'. rewrite Z.mul_1_r in Hq.
      destruct t as [[|[p|p|]|p]| | | |];
        try (rewrite (CS _ _ _ _ H T1 ltac:(cbn; lia)); cbn; f_equal; lia).
      * injection H as <-. cbn in T1. injection T1 as T1. rewrite <- T1, Z.pow_0_r in Hq. cbn. f_equal; lia.
      * injection H as <-. cbn in T1. injection T1 as T1. rewrite <- T1, Z.pow_1_r in Hq. cbn. f_equal; lia.
Qed.

End fdiv.

(** ** Soundness of [arith true] *)

Lemma arith_step_sound call : call_sound call -> call_sound (arith_step false true call).
Proof.
  intros CS op x r v H E P. destruct op; cbn [arith_step] in H; cbn [op_pre op_val] in *.
  - exact (step_addi_sound _ CS _ _ _ _ H E).
  - exact (step_radd_sound _ CS _ _ _ _ H E).
  - exact (step_subi_sound _ CS _ _ _ _ H E).
  - exact (step_rsub_sound _ CS _ _ _ _ H E).
  - exact (step_neg_sound _ CS _ _ _ H E).
  - exact (step_muli_sound _ CS _ _ _ _ H E).
  - exact (step_rmul_sound _ CS _ _ _ _ H E).
  - destruct P as [N M]. exact (step_fdiv_sound _ CS _ _ _ _ H E N M).
  - exact (step_pow_sound _ CS _ _ _ _ H E P).
  - exact (step_mkexp_sound _ CS _ _ _ _ H E P).
Qed.

Theorem arith_sound : forall fuel, call_sound (arith true fuel).
Proof.
  induction fuel as [|f IH].
  - intros op x r v H. discriminate.
  - cbn [arith]. apply arith_step_sound. exact IH.
Qed.

(** ** [arith true] is a restriction of the transcription [arith false] *)

Definition refines (c1 c2 : aop -> nexpr -> ares nexpr) : Prop :=
  forall op x r, c1 op x = AVal r -> c2 op x = AVal r.

Lemma gcd_exp_ret_refines e m g g' :
  gcd_exp_ret true e m g = AVal g' -> gcd_exp_ret false e m g = AVal g'.
Proof.
  intros H. rewrite (gcd_exp_ret_val _ _ _ _ _ H). unfold gcd_exp_ret. destruct e; reflexivity.
Qed.

Lemma gcd_gen_refines : forall r l g, gcd_gen false true l r = AVal g -> gcd_gen false false l r = AVal g.
Proof.
  induction r as [z|a IHa b IHb|a IHa b IHb|num IH den|base e IH]; intros l g H; cbn [gcd_gen] in *;
    (destruct (l =? 1); [assumption|]).
  - assumption.
  - bind_inv H. rewrite (IHa _ _ E). cbn [abind]. destruct (t =? 1); [assumption|].
    bind_inv H. rewrite (IHb _ _ E0). cbn [abind]. assumption.
  - bind_inv H. rewrite (IHa _ _ E). cbn [abind].
    bind_inv H. rewrite (IHb _ _ E0). cbn [abind]. assumption.
  - discriminate.
  - destruct (base <? 2); [discriminate|].
    destruct (match e with NInt z => z <=? 0 | _ => false end); [discriminate|].
    destruct (l =? base). { apply gcd_exp_ret_refines. assumption. }
    destruct (negb (l mod base =? 0)).
    { cbv zeta in *. destruct (Z.gcd l base =? 1); [assumption|]. apply gcd_exp_ret_refines. assumption. }
    destruct (l <=? 0); [discriminate|].
    destruct (py_int_log l base); [|discriminate].
    cbv zeta in *. apply gcd_exp_ret_refines. assumption.
Qed.

Lemma gcdc_refines n y g : gcdc false true n y = AVal g -> gcdc false false n y = AVal g.
Proof. apply gcd_gen_refines. Qed.

Ltac ref_step R :=
  match goal with
  | H : ?a = AVal ?r |- ?a = AVal ?r => exact H
  | H : ?c1 ?op ?y = AVal ?r |- ?c2 ?op ?y = AVal ?r => exact (R _ _ _ H)
  | H : ARaise _ = AVal _ |- _ => discriminate H
  | H : AUnm = AVal _ |- _ => discriminate H
  | H : abind (match ?y with _ => _ end) _ = AVal _ |- _ => destruct y
  | H : abind ?a ?f = AVal _ |- _ =>
      let t := fresh "t" in let E := fresh "E" in
      apply abind_val in H; destruct H as (t & E & H);
      first [ rewrite (R _ _ _ E) | rewrite (gcdc_refines _ _ _ E) | rewrite E ]; cbn [abind] in *
  | H : (if ?b then _ else _) = AVal _ |- _ => destruct b
  | H : match ?y with _ => _ end = AVal _ |- _ => destruct y
  end.

Lemma arith_step_refines c1 c2 :
  refines c1 c2 -> refines (arith_step false true c1) (arith_step false false c2).
Proof.
  intros R op x r H.
  destruct op; cbn [arith_step] in *;
    unfold step_addi, step_radd, step_subi, step_rsub, step_neg, step_muli, step_rmul, step_fdiv,
           step_pow, step_mkexp, cadd, cmul, cfdiv in *; cbn [negb andb] in *;
    repeat ref_step R.
Qed.

Theorem arith_chk_refines : forall fuel, refines (arith true fuel) (arith false fuel).
Proof.
  induction fuel as [|f IH].
  - intros op x r H. discriminate.
  - cbn [arith]. apply arith_step_refines. exact IH.
Qed.

(** ** Where the transcription [arith false] itself is sound

    (1) every exponent a Python int: [gcd] never meets a symbolic exponent,
        [arith false] = [arith true] for EVERY operation, [//] included;
    (2) no Div node and an operation other than [//]: no __floordiv__, hence
        no [gcd], is reached at all. *)

Definition is_int (x : nexpr) : bool := match x with NInt _ => true | _ => false end.
Definition is_mkexp (op : aop) : bool := match op with OMkExp _ => true | _ => false end.
(** make_exp(b, x) keeps "every exponent is an int" only for an int [x] *)
Definition ie_pre (op : aop) (x : nexpr) : bool := int_exps x && (negb (is_mkexp op) || is_int x).
(** an int operand gives an int result (make_exp excepted) *)
Definition out_int (op : aop) (x r : nexpr) : bool :=
  if is_int x && negb (is_mkexp op) then is_int r else true.

Lemma gcd_gen_ie : forall r l, int_exps r = true -> gcd_gen false false l r = gcd_gen false true l r.
Proof.
  induction r as [z|a IHa b IHb|a IHa b IHb|num IH den|base e IH]; intros l H; cbn [gcd_gen int_exps] in *;
    try reflexivity.
  - apply andb_prop in H. destruct H as [Ha Hb]. rewrite (IHa l Ha).
    destruct (l =? 1); [reflexivity|].
    destruct (gcd_gen false true l a) as [lg| |]; cbn [abind]; try reflexivity.
    destruct (lg =? 1); [reflexivity|]. rewrite (IHb l Hb). reflexivity.
  - apply andb_prop in H. destruct H as [Ha Hb]. rewrite (IHa l Ha).
    destruct (l =? 1); [reflexivity|].
    destruct (gcd_gen false true l a) as [lg| |]; cbn [abind]; try reflexivity.
    rewrite (IHb l Hb). reflexivity.
  - destruct e; try discriminate H. reflexivity.
Qed.

Lemma gcdc_ie n y : int_exps y = true -> gcdc false false n y = gcdc false true n y.
Proof. apply gcd_gen_ie. Qed.

Definition ie_ok (c2 c1 : aop -> nexpr -> ares nexpr) : Prop :=
  forall op x r, ie_pre op x = true -> c2 op x = AVal r ->
    c1 op x = AVal r /\ int_exps r = true /\ out_int op x r = true.

Ltac ie_side :=
  unfold ie_pre, out_int; cbn [int_exps is_int is_mkexp negb andb orb];
  repeat match goal with |- context [if ?c then _ else _] => destruct c end;
  cbn [int_exps is_int];
  repeat match goal with H : int_exps _ = true |- _ => rewrite H end;
  repeat match goal with H : is_int _ = true |- _ => rewrite H end;
  cbn [andb orb]; reflexivity.

Ltac ie_step K :=
  match goal with
  | H : false = true |- _ => discriminate H
  | H : true = true |- _ => clear H
  | H : ARaise _ = AVal _ |- _ => discriminate H
  | H : AUnm = AVal _ |- _ => discriminate H
  | H : (_ && _) = true |- _ => apply andb_prop in H; destruct H
  | H : is_int ?t = true |- _ => is_var t; destruct t; try discriminate H; clear H
  | H : match ?e with _ => _ end = true |- _ => destruct e; try discriminate H; try clear H
  | H : AVal _ = AVal _ |- _ => injection H as <-; split; [reflexivity | split; ie_side]
  | H : ?c2 ?op ?y = AVal ?r |- ?c1 ?op ?y = AVal ?r /\ _ =>
      let N1 := fresh "N" in let N2 := fresh "N" in let E1 := fresh "E" in
      destruct (K op y r) as (E1 & N1 & N2); [ie_side | exact H |];
      unfold out_int in N2; cbn [is_int is_mkexp negb andb] in N2;
      split; [exact E1 | split; [exact N1 | ie_side]]
  | H : abind (match ?y with _ => _ end) _ = AVal _ |- _ => destruct y; cbn [int_exps abind] in *
  | H : abind ?a ?f = AVal _ |- _ =>
      let t := fresh "t" in let E := fresh "E" in let E1 := fresh "E" in
      let N1 := fresh "N" in let N2 := fresh "N" in
      apply abind_val in H; destruct H as (t & E & H);
      match type of E with
      | gcdc false false ?n ?y = AVal _ =>
          rewrite <- (gcdc_ie n y) by ie_side; rewrite E
      | ?c2 ?op ?y = AVal _ =>
          destruct (K op y t) as (E1 & N1 & N2); [ie_side | exact E |]; rewrite E1; clear E;
          unfold out_int in N2; cbn [is_int is_mkexp negb andb] in N2
      end; cbn [abind] in *
  | H : (if ?b then _ else _) = AVal _ |- _ => destruct b
  | H : match ?y with _ => _ end = AVal _ |- _ => destruct y; cbn [int_exps abind] in *
  end.

Lemma arith_step_ie c2 c1 : ie_ok c2 c1 -> ie_ok (arith_step false false c2) (arith_step false true c1).
Proof.
  intros K op x r P H. unfold ie_pre in P.
  destruct op; destruct x; cbn [arith_step is_mkexp is_int int_exps negb orb] in *;
    unfold step_addi, step_radd, step_subi, step_rsub, step_neg, step_muli, step_rmul, step_fdiv,
           step_pow, step_mkexp, cadd, cmul, cfdiv, make_add_int, make_mul_int, make_mul_num, make_div,
           exp_finish in *;
    cbn [negb andb] in *; cbv zeta in *;
    repeat ie_step K.
Qed.

Lemma arith_ie : forall fuel, ie_ok (arith false fuel) (arith true fuel).
Proof.
  induction fuel as [|f IH].
  - intros op x r _ H. discriminate.
  - cbn [arith]. apply arith_step_ie. exact IH.
Qed.

(** (1) the TRANSCRIPTION is sound for every operation, [//] by any nonzero
    exact divisor included, on operands all of whose exponents are ints *)
Theorem arith_false_sound_intexp fuel op x r v :
  int_exps x = true -> (is_mkexp op = true -> is_int x = true) ->
  arith false fuel op x = AVal r -> eval x = Some v -> op_pre op v ->
  eval r = Some (op_val op v) /\ int_exps r = true.
Proof.
  intros IE MK H E P.
  assert (PRE : ie_pre op x = true).
  { unfold ie_pre. rewrite IE. destruct (is_mkexp op); [rewrite MK; reflexivity|reflexivity]. }
  destruct (arith_ie fuel op x r PRE H) as (H1 & N1 & _).
  split; [|assumption]. exact (arith_sound fuel op x r v H1 E P).
Qed.

(** (2) no Div node, an operation other than [//] *)
Definition nd_ok (c2 c1 : aop -> nexpr -> ares nexpr) : Prop :=
  forall op x r, not_fdiv op = true -> no_div x = true -> c2 op x = AVal r ->
    c1 op x = AVal r /\ no_div r = true.

Ltac nd_side :=
  first [ assumption | reflexivity
        | cbn [no_div];
          repeat match goal with |- context [if ?c then _ else _] => destruct c end;
          cbn [no_div];
          repeat match goal with H : no_div _ = true |- _ => rewrite H end; reflexivity ].

Ltac nd_step K :=
  match goal with
  | H : false = true |- _ => discriminate H
  | H : ARaise _ = AVal _ |- _ => discriminate H
  | H : AUnm = AVal _ |- _ => discriminate H
  | H : (_ && _) = true |- _ => apply andb_prop in H; destruct H
  | H : AVal _ = AVal _ |- _ => injection H as <-; split; [reflexivity | nd_side]
  | H : ?c2 ?op ?y = AVal ?r |- ?c1 ?op ?y = AVal ?r /\ _ =>
      apply (K op y r); [reflexivity | nd_side | exact H]
  | H : abind (match ?y with _ => _ end) _ = AVal _ |- _ => destruct y; cbn [no_div abind] in *
  | H : abind ?a ?f = AVal _ |- _ =>
      let t := fresh "t" in let E := fresh "E" in let E1 := fresh "E" in let N1 := fresh "N" in
      apply abind_val in H; destruct H as (t & E & H);
      match type of E with
      | ?c2 ?op ?y = AVal _ =>
          destruct (K op y t) as [E1 N1]; [reflexivity | nd_side | exact E |]; rewrite E1; clear E
      end; cbn [abind] in *
  | H : (if ?b then _ else _) = AVal _ |- _ => destruct b
  | H : match ?y with _ => _ end = AVal _ |- _ => destruct y; cbn [no_div abind] in *
  end.

Lemma arith_step_nd c2 c1 : nd_ok c2 c1 -> nd_ok (arith_step false false c2) (arith_step false true c1).
Proof.
  intros K op x r NF ND H.
  destruct op; cbn [not_fdiv] in NF; try discriminate NF; cbn [arith_step] in *;
    unfold step_addi, step_radd, step_subi, step_rsub, step_neg, step_muli, step_rmul,
           step_pow, step_mkexp, cadd, cmul, cfdiv, make_add_int, make_mul_int, make_mul_num, exp_finish in *;
    cbv zeta in *;
    repeat nd_step K.
Qed.

Lemma arith_nd : forall fuel, nd_ok (arith false fuel) (arith true fuel).
Proof.
  induction fuel as [|f IH].
  - intros op x r _ _ H. discriminate.
  - cbn [arith]. apply arith_step_nd. exact IH.
Qed.

Theorem arith_false_sound_nodiv fuel op x r v :
  not_fdiv op = true -> no_div x = true ->
  arith false fuel op x = AVal r -> eval x = Some v -> op_pre op v ->
  eval r = Some (op_val op v) /\ no_div r = true.
Proof.
  intros NF ND H E P. destruct (arith_nd fuel op x r NF ND H) as [H1 N1].
  split; [|assumption]. exact (arith_sound fuel op x r v H1 E P).
Qed.

(** ** The one place where [arith true] differs matters: a symbolic exponent
    of small value.  An object the repaired library builds,

        x = (3 + 6 ** (-6 + 6**1)) * 6 ** (-5 + 6 ** (-5 + 6**1))     value (3 + 6**0) * 6**1 = 24

    and [x // 3]: gcd(3, 3 + 6**E) = gcd(gcd(3, 3), gcd(3, 6**E)) = gcd(3, 3) = 3
    (1330-1331: [3 % 6 != 0], so [pgcd(3, 6)] -- a divisor of [6**E] only if
    [E >= 1], and E = -6 + 6**1 = 0); 3 + 6**0 = 4 is then "divided" by 3
    term by term, [6**E // 3 = 2 * 6**(E - 1)], and the answer contains
    [6 ** (-7 + 6**1)] = 6 ** -1: it has no integer value (int() raises). *)
Definition sym_witness : nexpr :=
  NMul (NAdd (NInt 3) (NExp 6 (NAdd (NInt (-6)) (NExp 6 (NInt 1)))))
       (NExp 6 (NAdd (NInt (-5)) (NExp 6 (NAdd (NInt (-5)) (NExp 6 (NInt 1)))))).

Lemma sym_exp_refuted :
  eval sym_witness = Some 24 /\ 24 mod 3 = 0 /\
  arith_top false (OFdiv 3) sym_witness =
    AVal (NMul (NAdd (NInt 1) (NMul (NInt 2) (NExp 6 (NAdd (NInt (-7)) (NExp 6 (NInt 1))))))
               (NExp 6 (NAdd (NInt (-5)) (NExp 6 (NAdd (NInt (-5)) (NExp 6 (NInt 1))))))) /\
  eval (NMul (NAdd (NInt 1) (NMul (NInt 2) (NExp 6 (NAdd (NInt (-7)) (NExp 6 (NInt 1))))))
             (NExp 6 (NAdd (NInt (-5)) (NExp 6 (NAdd (NInt (-5)) (NExp 6 (NInt 1))))))) = None /\
  arith_top true (OFdiv 3) sym_witness = AUnm /\
  gcd_h false 3 (NAdd (NInt 3) (NExp 6 (NAdd (NInt (-6)) (NExp 6 (NInt 1))))) = AVal 3 /\
  eval (NAdd (NInt 3) (NExp 6 (NAdd (NInt (-6)) (NExp 6 (NInt 1))))) = Some 4.
Proof. vm_compute. repeat split; reflexivity. Qed.

Lemma arith_false_symexp_unsound :
  ~ (forall fuel n x r v, arith false fuel (OFdiv n) x = AVal r -> eval x = Some v ->
       n <> 0 -> v mod n = 0 -> eval r = Some (v / n)).
Proof.
  intros H.
  destruct sym_exp_refuted as (E & M & A & R & _).
  unfold arith_top in A. pose proof (H _ _ _ _ _ A E ltac:(lia) M) as X.
  rewrite R in X. discriminate X.
Qed.

(** ** HISTORY: the transcription of the code BEFORE the repair is refuted

    [gcd(l, Add)] was [min(lgcd, rgcd)] and [gcd(l, Exp)] never looked at the
    exponent: neither divides the value in general, and Mul.__floordiv__
    577-578 floors with it.  An object the library built,
    [(-6 + make_exp(3, 2)) * (2 * make_exp(3, 3))], value 162 = 3 * 54:

        ((-6 + 3**2) * (2 * 3**3)) // 54  was answered  0

    gcd(54, -6 + 3**2) = min(gcd(54, -6), gcd(54, 3**2)) = min(6, 27) = 6, but
    -6 + 3**2 = 3; then (-6 + 3**2) // 6 = ((-6 // 3) + (3**2 // 3)) // 2
    = (-2 + 3) // 2 = 1 // 2 = 0.  The repaired [gcd] answers 3 and the
    division 3 (and is proved right in general: [gcd_h_sound]). *)
Definition fdiv_witness : nexpr :=
  NMul (NAdd (NInt (-6)) (NExp 3 (NInt 2))) (NMul (NInt 2) (NExp 3 (NInt 3))).

Lemma gcd_h_prefix_unsound :
  gcd_h_prefix 54 (NAdd (NInt (-6)) (NExp 3 (NInt 2))) = AVal 6 /\
  eval (NAdd (NInt (-6)) (NExp 3 (NInt 2))) = Some 3 /\
  gcd_h_prefix 54 (NExp 3 (NInt 2)) = AVal 27 /\ eval (NExp 3 (NInt 2)) = Some 9 /\
  gcd_h false 54 (NAdd (NInt (-6)) (NExp 3 (NInt 2))) = AVal 3 /\
  gcd_h false 54 (NExp 3 (NInt 2)) = AVal 9.
Proof. vm_compute. repeat split; reflexivity. Qed.

Lemma fdiv_prefix_refuted :
  eval fdiv_witness = Some 162 /\ 162 mod 54 = 0 /\ 162 / 54 = 3 /\
  arith_prefix_top (OFdiv 54) fdiv_witness = AVal (NInt 0) /\
  arith_top false (OFdiv 54) fdiv_witness = AVal (NInt 3).
Proof. vm_compute. repeat split; reflexivity. Qed.

Lemma arith_prefix_fdiv_unsound :
  ~ (forall fuel n x r v, arith_prefix fuel (OFdiv n) x = AVal r -> eval x = Some v ->
       0 < n -> v mod n = 0 -> eval r = Some (v / n)).
Proof.
  intros H.
  assert (A : arith_prefix arith_fuel (OFdiv 54) fdiv_witness = AVal (NInt 0)) by (vm_compute; reflexivity).
  assert (E : eval fdiv_witness = Some 162) by (vm_compute; reflexivity).
  assert (M : 162 mod 54 = 0) by (vm_compute; reflexivity).
  pose proof (H _ _ _ _ _ A E ltac:(lia) M) as X.
  assert (Q : 162 / 54 = 3) by (vm_compute; reflexivity). rewrite Q in X.
  cbn [eval] in X. discriminate X.
Qed.

(** a negative divisor: Exp.__floordiv__ stripped the powers of the base from
    [other] and never looked at its sign ([2**3 // -2] was [2**2]); the
    repaired method answers [-(2**2)] *)
Lemma floordiv_negative_prefix_refuted :
  arith_prefix_top (OFdiv (-2)) (NExp 2 (NInt 3)) = AVal (NExp 2 (NInt 2)) /\
  eval (NExp 2 (NInt 3)) = Some 8 /\ 8 mod (-2) = 0 /\ 8 / (-2) = -4 /\ eval (NExp 2 (NInt 2)) = Some 4 /\
  arith_top false (OFdiv (-2)) (NExp 2 (NInt 3)) = AVal (NMul (NInt (-1)) (NExp 2 (NInt 2))).
Proof. vm_compute. repeat split; reflexivity. Qed.

(** ** Entry point of the correspondence run *)

Lemma arith_top_sound op x r v :
  arith_top true op x = AVal r -> eval x = Some v -> op_pre op v -> eval r = Some (op_val op v).
Proof. exact (arith_sound arith_fuel op x r v). Qed.

Lemma arith_top_refines op x r : arith_top true op x = AVal r -> arith_top false op x = AVal r.
Proof. exact (arith_chk_refines arith_fuel op x r). Qed.

(** ** One statement per operator *)

Lemma add_int_sound fuel n x r v :
  arith true fuel (OAddI n) x = AVal r -> eval x = Some v -> eval r = Some (v + n).
Proof. intros H E. exact (arith_sound fuel (OAddI n) x r v H E I). Qed.

Lemma radd_int_sound fuel n x r v :
  arith true fuel (ORadd n) x = AVal r -> eval x = Some v -> eval r = Some (n + v).
Proof. intros H E. exact (arith_sound fuel (ORadd n) x r v H E I). Qed.

Lemma sub_int_sound fuel n x r v :
  arith true fuel (OSubI n) x = AVal r -> eval x = Some v -> eval r = Some (v - n).
Proof. intros H E. exact (arith_sound fuel (OSubI n) x r v H E I). Qed.

Lemma rsub_int_sound fuel n x r v :
  arith true fuel (ORsub n) x = AVal r -> eval x = Some v -> eval r = Some (n - v).
Proof. intros H E. exact (arith_sound fuel (ORsub n) x r v H E I). Qed.

Lemma neg_sound fuel x r v :
  arith true fuel ONeg x = AVal r -> eval x = Some v -> eval r = Some (- v).
Proof. intros H E. exact (arith_sound fuel ONeg x r v H E I). Qed.

Lemma mul_int_sound fuel n x r v :
  arith true fuel (OMulI n) x = AVal r -> eval x = Some v -> eval r = Some (v * n).
Proof. intros H E. exact (arith_sound fuel (OMulI n) x r v H E I). Qed.

Lemma rmul_int_sound fuel n x r v :
  arith true fuel (ORmul n) x = AVal r -> eval x = Some v -> eval r = Some (n * v).
Proof. intros H E. exact (arith_sound fuel (ORmul n) x r v H E I). Qed.

Lemma floordiv_int_sound fuel n x r v :
  arith true fuel (OFdiv n) x = AVal r -> eval x = Some v -> n <> 0 -> v mod n = 0 ->
  eval r = Some (v / n).
Proof. intros H E N M. exact (arith_sound fuel (OFdiv n) x r v H E (conj N M)). Qed.

Lemma pow_int_sound fuel n x r v :
  arith true fuel (OPow n) x = AVal r -> eval x = Some v -> 0 <= n -> eval r = Some (v ^ n).
Proof. intros H E N. exact (arith_sound fuel (OPow n) x r v H E N). Qed.

Lemma make_exp_sound fuel b x r v :
  arith true fuel (OMkExp b) x = AVal r -> eval x = Some v -> 0 <= v -> eval r = Some (b ^ v).
Proof. intros H E V. exact (arith_sound fuel (OMkExp b) x r v H E V). Qed.

(** the transcription, [//] on int-exponent operands, spelled out *)
Lemma floordiv_false_sound_intexp fuel n x r v :
  int_exps x = true -> arith false fuel (OFdiv n) x = AVal r -> eval x = Some v ->
  n <> 0 -> v mod n = 0 -> eval r = Some (v / n).
Proof.
  intros IE H E N M.
  exact (proj1 (arith_false_sound_intexp fuel (OFdiv n) x r v IE (fun X => ltac:(discriminate X)) H E (conj N M))).
Qed.

(** non-vacuity: every operator answers on operands with a Div and a symbolic
    exponent; [//] goes through the common-factor branch of Add.__floordiv__,
    through gcd of a sum inside a product, and through a negative divisor *)
Example arith_nonvacuous :
  let x := NAdd (NInt 12) (NMul (NInt 6) (NExp 2 (NAdd (NInt 3) (NExp 2 (NInt 2))))) in
  let y := NDiv (NAdd (NInt 1) (NExp 3 (NInt 4))) 2 in
  eval x = Some 780 /\ eval y = Some 41 /\
  arith_top true (OFdiv 6) x = AVal (NAdd (NInt 2) (NExp 2 (NAdd (NInt 3) (NExp 2 (NInt 2))))) /\
  arith_top true (ORmul 4) x = AVal (NAdd (NInt 48) (NMul (NInt 3) (NExp 2 (NAdd (NInt 6) (NExp 2 (NInt 2)))))) /\
  arith_top true (OAddI 5) y = AVal (NDiv (NAdd (NInt 11) (NExp 3 (NInt 4))) 2) /\
  arith_top true (OMulI 4) y = AVal (NAdd (NInt 2) (NMul (NInt 2) (NExp 3 (NInt 4)))) /\
  arith_top true ONeg y = AVal (NDiv (NAdd (NInt (-1)) (NMul (NInt (-1)) (NExp 3 (NInt 4)))) 2) /\
  arith_top true (OPow 3) (NExp 2 (NAdd (NInt 3) (NExp 2 (NInt 2)))) =
    AVal (NExp 2 (NAdd (NInt 9) (NMul (NInt 3) (NExp 2 (NInt 2))))) /\
  arith_top true (OMkExp 64) (NAdd (NInt 3) (NExp 2 (NInt 2))) =
    AVal (NExp 2 (NAdd (NInt 18) (NMul (NInt 3) (NExp 2 (NInt 3))))) /\
  arith_top true (OFdiv 54) fdiv_witness = AVal (NInt 3) /\
  arith_top true (OFdiv (-3)) (NMul (NInt 3) (NExp 5 (NInt 2))) = AVal (NMul (NInt (-1)) (NExp 5 (NInt 2))).
Proof. vm_compute. repeat split; reflexivity. Qed.
