(** Proofs for C10: the tree generator of TreeModel.v emits exactly [Gen],
    without duplicates, independently of the order/interleaving of the
    first-level tasks, in tree normal form, and does not panic. *)
From BB Require Import Base InstrsModel TapeModel TreeModel Loops TreeSpec.
From Coq Require Import Permutation.

(** * Lists *)

Lemma NoDup_app_intro {A} (l1 l2 : list A) :
  NoDup l1 -> NoDup l2 -> (forall x, In x l1 -> In x l2 -> False) -> NoDup (l1 ++ l2).
Proof.
  intros H1 H2 Hd. induction H1 as [|a l1 Ha H1 IH]; cbn [app]; [exact H2|].
  constructor.
  - rewrite in_app_iff. intros [H|H]; [exact (Ha H)|]. apply (Hd a); [left; reflexivity|exact H].
  - apply IH. intros x Hx. apply Hd. right. exact Hx.
Qed.

Lemma NoDup_flat_map_tag {A B} (tag : B -> A) (f : A -> list B) l :
  (forall x y, In y (f x) -> tag y = x) -> NoDup l -> (forall x, In x l -> NoDup (f x)) ->
  NoDup (flat_map f l).
Proof.
  intros Ht Hl Hf. induction Hl as [|a l Ha Hl IH]; cbn [flat_map]; [constructor|].
  apply NoDup_app_intro.
  - apply Hf. left. reflexivity.
  - apply IH. intros x Hx. apply Hf. right. exact Hx.
  - intros y Hy1 Hy2. rewrite in_flat_map in Hy2. destruct Hy2 as (x & Hx & Hy2).
    apply Ht in Hy1. apply Ht in Hy2. apply Ha. rewrite <- Hy1, Hy2. exact Hx.
Qed.

Lemma NoDup_map_inj' {A B} (f : A -> B) l :
  (forall x y, f x = f y -> x = y) -> NoDup l -> NoDup (map f l).
Proof.
  intros Hf Hl. induction Hl as [|a l Ha Hl IH]; cbn [map]; constructor; [|exact IH].
  rewrite in_map_iff. intros (x & E & Hx). apply Hf in E. subst x. exact (Ha Hx).
Qed.

Lemma forallb_ext' {A} (f g : A -> bool) l : (forall x, f x = g x) -> forallb f l = forallb g l.
Proof. intros E. induction l as [|a l IH]; cbn [forallb]; [reflexivity|]. rewrite E, IH. reflexivity. Qed.

Lemma forallb_false_iff {A} (f : A -> bool) l :
  forallb f l = false <-> exists x, In x l /\ f x = false.
Proof.
  induction l as [|a l IH]; cbn [forallb In].
  - split; [discriminate|intros (x & [] & _)].
  - rewrite andb_false_iff, IH. split.
    + intros [H|(x & Hx & H)]; [exists a; auto|exists x; auto].
    + intros (x & [E|Hx] & H); [subst x; left; exact H|right; exists x; auto].
Qed.

Lemma Permutation_concat_map {A B} (f : A -> list B) l l' :
  Permutation l l' -> Permutation (concat (map f l)) (concat (map f l')).
Proof.
  intros H. induction H as [|x l l' H IH|x y l|l l' l'' H1 IH1 H2 IH2]; cbn [map concat].
  - constructor.
  - apply Permutation_app_head. exact IH.
  - rewrite !app_assoc. apply Permutation_app_tail. apply Permutation_app_comm.
  - eapply Permutation_trans; eassumption.
Qed.

(** * Ranges and the instruction list *)

Lemma N_range_In f lo x : In x (N_range f lo) <-> lo <= x < lo + N.of_nat f.
Proof.
  revert lo. induction f as [|f IH]; intros lo; cbn [N_range In].
  - lia.
  - rewrite IH. lia.
Qed.

Lemma N_range_NoDup f lo : NoDup (N_range f lo).
Proof.
  revert lo. induction f as [|f IH]; intros lo; cbn [N_range]; constructor; [|apply IH].
  rewrite N_range_In. lia.
Qed.

Lemma range_In n x : In x (range 0 n) <-> x < n.
Proof. unfold range. rewrite N_range_In. lia. Qed.

Lemma range_NoDup n : NoDup (range 0 n).
Proof. apply N_range_NoDup. Qed.

(** "every instruction over the available states x colours" *)
Lemma make_instrs_spec s c co sh tr : In (co, sh, tr) (make_instrs s c) <-> co < c /\ tr < s.
Proof.
  unfold make_instrs. rewrite in_flat_map. split.
  - intros (co' & Hco & H). rewrite in_flat_map in H. destruct H as (sh' & Hsh & H).
    rewrite in_map_iff in H. destruct H as (st & E & Hst). inversion E; subst.
    rewrite range_In in Hco, Hst. split; assumption.
  - intros [Hc Hs]. exists co. split; [apply range_In; exact Hc|].
    rewrite in_flat_map. exists sh. split; [destruct sh; cbn [In]; auto|].
    apply in_map_iff. exists tr. split; [reflexivity|apply range_In; exact Hs].
Qed.

Lemma make_instrs_nodup s c : NoDup (make_instrs s c).
Proof.
  unfold make_instrs.
  apply (NoDup_flat_map_tag (fun i : instr => fst (fst i))).
  - intros co y Hy. rewrite in_flat_map in Hy. destruct Hy as (sh & _ & Hy).
    rewrite in_map_iff in Hy. destruct Hy as (st & E & _). subst y. reflexivity.
  - apply range_NoDup.
  - intros co _. apply (NoDup_flat_map_tag (fun i : instr => snd (fst i))).
    + intros sh y Hy. rewrite in_map_iff in Hy. destruct Hy as (st & E & _). subst y. reflexivity.
    + repeat constructor; cbn [In]; intuition discriminate.
    + intros sh _. apply NoDup_map_inj'; [|apply range_NoDup].
      intros x y E. inversion E. reflexivity.
Qed.

Lemma make_instrs_nonempty s c : 1 <= s -> 1 <= c -> make_instrs s c <> [].
Proof.
  intros Hs Hc E. assert (H : In (0, false, 0) (make_instrs s c)) by (apply make_instrs_spec; lia).
  rewrite E in H. exact H.
Qed.

(** avail grows by one exactly when the slot or the instruction uses the
    highest available index and the maximum is not reached *)
Lemma update_avail_spec a m x y :
  (a < m /\ 1 + N.max x y = a -> update_avail a m x y = a + 1) /\
  (~ (a < m /\ 1 + N.max x y = a) -> update_avail a m x y = a).
Proof.
  unfold update_avail. destruct (a <? m) eqn:E1; destruct (1 + N.max x y =? a) eqn:E2;
    cbn [andb]; rewrite ?N.ltb_lt, ?N.ltb_ge, ?N.eqb_eq, ?N.eqb_neq in *; split; intros; try reflexivity; lia.
Qed.

Lemma update_avail_bounds a m x y : a <= update_avail a m x y <= a + 1.
Proof.
  unfold update_avail. destruct ((a <? m) && (1 + N.max x y =? a)); lia.
Qed.

(** * Association lists *)

Lemma slot_eqb_eq a b : slot_eqb a b = true <-> a = b.
Proof.
  destruct a as [a1 a2], b as [b1 b2]. unfold slot_eqb. cbn [fst snd].
  rewrite andb_true_iff, !N.eqb_eq. split; [intros [E1 E2]; subst; reflexivity|intros E; inversion E; auto].
Qed.

Lemma slot_eqb_refl a : slot_eqb a a = true.
Proof. apply slot_eqb_eq. reflexivity. Qed.

Lemma slot_eqb_neq a b : a <> b -> slot_eqb a b = false.
Proof. intros H. destruct (slot_eqb a b) eqn:E; [apply slot_eqb_eq in E; contradiction|reflexivity]. Qed.

Lemma cp_get_insert_same k v p : cp_get (cp_insert k v p) k = Some v.
Proof.
  induction p as [|[k' v'] p IH]; cbn [cp_insert cp_get].
  - rewrite slot_eqb_refl. reflexivity.
  - destruct (slot_ltb k k') eqn:L; [cbn [cp_get]; rewrite slot_eqb_refl; reflexivity|].
    destruct (slot_eqb k k') eqn:E; [cbn [cp_get]; rewrite slot_eqb_refl; reflexivity|].
    cbn [cp_get]. destruct (slot_eqb k' k) eqn:E'; [|exact IH].
    apply slot_eqb_eq in E'. subst k'. rewrite slot_eqb_refl in E. discriminate.
Qed.

Lemma cp_get_insert_other k v p k' : k <> k' -> cp_get (cp_insert k v p) k' = cp_get p k'.
Proof.
  intros Hne. induction p as [|[k1 v1] p IH]; cbn [cp_insert cp_get].
  - rewrite slot_eqb_neq by exact Hne. reflexivity.
  - destruct (slot_ltb k k1) eqn:L; [cbn [cp_get]; rewrite (slot_eqb_neq k k') by exact Hne; reflexivity|].
    destruct (slot_eqb k k1) eqn:E.
    + apply slot_eqb_eq in E. subst k1. cbn [cp_get]. rewrite (slot_eqb_neq k k') by exact Hne. reflexivity.
    + cbn [cp_get]. rewrite IH. reflexivity.
Qed.

Lemma cp_get_In p k v : cp_get p k = Some v -> In (k, v) p.
Proof.
  induction p as [|[k' v'] p IH]; cbn [cp_get In]; [discriminate|].
  destruct (slot_eqb k' k) eqn:E.
  - apply slot_eqb_eq in E. subst k'. intros H. inversion H. left. reflexivity.
  - intros H. right. apply IH. exact H.
Qed.

(** [In] after an insertion: the new binding or an old one *)
Lemma cp_insert_In k v p x : In x (cp_insert k v p) -> x = (k, v) \/ In x p.
Proof.
  induction p as [|[k' v'] p IH]; cbn [cp_insert].
  - cbn [In]. intros [H|[]]. left. symmetry. exact H.
  - destruct (slot_ltb k k'); [cbn [In]; intros [H|H]; [left; symmetry; exact H|right; exact H]|].
    destruct (slot_eqb k k').
    + cbn [In]. intros [H|H]; [left; symmetry; exact H|right; right; exact H].
    + cbn [In]. intros [H|H]; [right; left; exact H|]. destruct (IH H) as [H'|H']; auto.
Qed.

Lemma cp_insert_In_new k v p : In (k, v) (cp_insert k v p).
Proof. apply cp_get_In. apply cp_get_insert_same. Qed.

(** bindings present in a list (whatever its order) survive the insertion of
    a key that [cp_get] does not find *)
Lemma cp_insert_In_old k v p x : cp_get p k = None -> In x p -> In x (cp_insert k v p).
Proof.
  induction p as [|[k' v'] p IH]; cbn [cp_insert cp_get]; [intros _ []|].
  destruct (slot_eqb k' k) eqn:E'; [discriminate|]. intros G Hx.
  destruct (slot_ltb k k'); [right; exact Hx|].
  destruct (slot_eqb k k') eqn:E.
  - apply slot_eqb_eq in E. subst k'. rewrite slot_eqb_refl in E'. discriminate.
  - destruct Hx as [Hx|Hx]; [left; exact Hx|right; apply IH; assumption].
Qed.

(** [q] extends [p]: agrees with it on all its defined slots *)
Definition extends (p q : comp_prog) : Prop := forall k v, cp_get p k = Some v -> cp_get q k = Some v.

Lemma extends_refl p : extends p p.
Proof. intros k v H. exact H. Qed.

Lemma extends_trans p q r : extends p q -> extends q r -> extends p r.
Proof. intros H1 H2 k v H. apply H2, H1, H. Qed.

Lemma extends_insert k v p : cp_get p k = None -> extends p (cp_insert k v p).
Proof.
  intros Hn k' v' H. rewrite cp_get_insert_other; [exact H|].
  intros E. subst k'. rewrite Hn in H. discriminate.
Qed.

(** * The run to the next undefined slot *)

Definition is_target (p : comp_prog) (s : state) : Prop :=
  exists k co sh, cp_get p k = Some (co, sh, s).

Lemma rfu_body_cases comp st tp :
  (cp_get comp (st, scan tp) = None /\ rfu_body comp (st, tp) = inr (TrUndefined (st, scan tp), tp)) \/
  (exists co sh nx, cp_get comp (st, scan tp) = Some (co, sh, nx) /\
     ((exists tp1, rfu_body comp (st, tp) = inl (nx, tp1)) \/
      (exists r tp1, rfu_body comp (st, tp) = inr (r, tp1) /\ (r = TrSpinout \/ r = TrBlank)))).
Proof.
  unfold rfu_body. destruct (cp_get comp (st, scan tp)) as [[[co sh] nx]|] eqn:G.
  - right. exists co, sh, nx. split; [reflexivity|].
    destruct ((st =? nx) && at_edge tp sh).
    + right. exists TrSpinout, tp. split; [reflexivity|left; reflexivity].
    + destruct (step tp sh co (st =? nx)) as [tp1 n]. destruct (blank tp1).
      * right. exists TrBlank, tp1. split; [reflexivity|right; reflexivity].
      * left. exists tp1. reflexivity.
  - left. split; reflexivity.
Qed.

Lemma rfu_iter_undefined comp n : forall st tp sl tp',
  iter_nat n (rfu_body comp) (st, tp) = inr (TrUndefined sl, tp') ->
  cp_get comp sl = None /\ (fst sl = st \/ is_target comp (fst sl)).
Proof.
  induction n as [|n IH]; intros st tp sl tp' H; cbn [iter_nat] in H; [discriminate|].
  destruct (rfu_body_cases comp st tp) as [[G B]|(co & sh & nx & G & [[tp1 B]|(r & tp1 & B & Hr)])];
    rewrite B in H.
  - inversion H; subst. split; [exact G|left; reflexivity].
  - apply IH in H. destruct H as [Hn [E|T]]; split; try exact Hn; right; [|exact T].
    rewrite E. exists (st, scan tp), co, sh. exact G.
  - inversion H; subst. destruct Hr; discriminate.
Qed.

(** the slot where the run stops is undefined in the program, and its state
    is the start state or the target of some instruction *)
Lemma run_undefined_slot comp st tp lim sl tp' :
  run_for_undefined comp st tp lim = (TrUndefined sl, tp') ->
  cp_get comp sl = None /\ (fst sl = st \/ is_target comp (fst sl)).
Proof.
  unfold run_for_undefined. rewrite for_upto_iter.
  destruct (iter_nat (N.to_nat lim) (rfu_body comp) (st, tp)) as [[s t]|x] eqn:E; [discriminate|].
  intros H. subst x. eapply rfu_iter_undefined. exact E.
Qed.

(** * The leaf filter *)

Definition leaf_skip (params : N * N) (prog : comp_prog) : bool :=
  forallb (fun kv : slot * instr => 1 + instr_target (snd kv) <? fst params) prog
  || forallb (fun kv : slot * instr => 1 + instr_colour (snd kv) <? snd params) prog.

Lemma leaf_eq prog params acc :
  leaf prog params acc = if leaf_skip params prog then acc else prog :: acc.
Proof.
  destruct params as [ms mc]. unfold leaf, leaf_skip. cbn [fst snd].
  rewrite (forallb_ext' (fun kv : slot * instr => let '(_, (_, _, st)) := kv in 1 + st <? ms)
                        (fun kv : slot * instr => 1 + instr_target (snd kv) <? ms))
    by (intros [k [[co sh] st]]; reflexivity).
  rewrite (forallb_ext' (fun kv : slot * instr => let '(_, (co, _, _)) := kv in 1 + co <? mc)
                        (fun kv : slot * instr => 1 + instr_colour (snd kv) <? mc))
    by (intros [k [[co sh] st]]; reflexivity).
  reflexivity.
Qed.

(** the filter of the code is "mentions the last state and the last colour" *)
Lemma leaf_skip_false params prog : leaf_skip params prog = false <-> mentions_last params prog.
Proof.
  unfold leaf_skip, mentions_last. rewrite orb_false_iff, !forallb_false_iff. split.
  - intros [([k i] & Hi & H1) ([k' i'] & Hi' & H2)]. cbn [snd] in H1, H2.
    apply N.ltb_ge in H1. apply N.ltb_ge in H2. split; [exists k, i|exists k', i']; auto.
  - intros [(k & i & Hi & H1) (k' & i' & Hi' & H2)].
    split; [exists (k, i)|exists (k', i')]; (split; [assumption|cbn [snd]; apply N.ltb_ge; assumption]).
Qed.

Lemma leaf_acc prog params acc : leaf prog params acc = leaf prog params [] ++ acc.
Proof. rewrite !leaf_eq. destruct (leaf_skip params prog); reflexivity. Qed.

Lemma leaf_In prog params p :
  In p (leaf prog params []) <-> p = prog /\ mentions_last params prog.
Proof.
  rewrite leaf_eq, <- leaf_skip_false. destruct (leaf_skip params prog); cbn [In]; split.
  - intros [].
  - intros [_ H]; discriminate.
  - intros [H|[]]. split; [symmetry; exact H|reflexivity].
  - intros [H _]. left. symmetry. exact H.
Qed.

Lemma leaf_NoDup prog params : NoDup (leaf prog params []).
Proof. rewrite leaf_eq. destruct (leaf_skip params prog); repeat constructor. intros []. Qed.

(** * Accumulator-free form of the generator *)

(** the loop over the children of a node, with the accumulator ... *)
Fixpoint children_loop {X : Type} (f : X -> list comp_prog -> outcome (list comp_prog))
  (l : list X) (acc : list comp_prog) : outcome (list comp_prog) :=
  match l with
  | [] => Ok acc
  | x :: l' => match f x acc with
               | Panic => Panic
               | Ok acc' => children_loop f l' acc'
               end
  end.

(** ... and without: the harvests of the children, newest first *)
Fixpoint harvest_children {X : Type} (g : X -> outcome (list comp_prog)) (l : list X)
  : outcome (list comp_prog) :=
  match l with
  | [] => Ok []
  | x :: l' => match g x with
               | Panic => Panic
               | Ok h => match harvest_children g l' with
                         | Panic => Panic
                         | Ok hs => Ok (hs ++ h)
                         end
               end
  end.

Definition with_acc (o : outcome (list comp_prog)) (acc : list comp_prog) : outcome (list comp_prog) :=
  match o with Panic => Panic | Ok h => Ok (h ++ acc) end.

Lemma children_loop_harvest {X} (f : X -> list comp_prog -> outcome (list comp_prog)) g l :
  (forall x acc, In x l -> f x acc = with_acc (g x) acc) ->
  forall acc, children_loop f l acc = with_acc (harvest_children g l) acc.
Proof.
  induction l as [|x l IH]; intros Hf acc; cbn [children_loop harvest_children with_acc]; [reflexivity|].
  rewrite Hf by (left; reflexivity). destruct (g x) as [|h]; cbn [with_acc]; [reflexivity|].
  rewrite IH by (intros y a Hy; apply Hf; right; exact Hy).
  destruct (harvest_children g l) as [|hs]; cbn [with_acc]; [reflexivity|].
  rewrite app_assoc. reflexivity.
Qed.

Lemma harvest_children_ext {X} (g g' : X -> outcome (list comp_prog)) l :
  (forall x, In x l -> g x = g' x) -> harvest_children g l = harvest_children g' l.
Proof.
  induction l as [|x l IH]; intros H; cbn [harvest_children]; [reflexivity|].
  rewrite H by (left; reflexivity). rewrite IH by (intros y Hy; apply H; right; exact Hy). reflexivity.
Qed.

Lemma harvest_children_ok {X} (g : X -> outcome (list comp_prog)) l h :
  harvest_children g l = Ok h -> forall x, In x l -> exists hx, g x = Ok hx.
Proof.
  revert h. induction l as [|a l IH]; intros h H x Hx; [destruct Hx|].
  cbn [harvest_children] in H. destruct (g a) as [|ha] eqn:Ga; [discriminate|].
  destruct (harvest_children g l) as [|hs] eqn:Hl; [discriminate|].
  destruct Hx as [E|Hx]; [subst a; exists ha; exact Ga|]. eapply IH; [reflexivity|exact Hx].
Qed.

Lemma harvest_children_In {X} (g : X -> outcome (list comp_prog)) l h :
  harvest_children g l = Ok h ->
  forall p, In p h <-> exists x hx, In x l /\ g x = Ok hx /\ In p hx.
Proof.
  revert h. induction l as [|a l IH]; intros h H p; cbn [harvest_children] in H.
  - inversion H; subst. split; [intros []|intros (x & hx & [] & _)].
  - destruct (g a) as [|ha] eqn:Ga; [discriminate|].
    destruct (harvest_children g l) as [|hs] eqn:Hl; [discriminate|]. inversion H; subst. clear H.
    rewrite in_app_iff, (IH hs eq_refl p). split.
    + intros [(x & hx & Hx & Gx & Hp)|Hp].
      * exists x, hx. split; [right; exact Hx|split; assumption].
      * exists a, ha. split; [left; reflexivity|split; assumption].
    + intros (x & hx & [E|Hx] & Gx & Hp).
      * subst x. rewrite Ga in Gx. inversion Gx; subst. right. exact Hp.
      * left. exists x, hx. auto.
Qed.

Lemma harvest_children_no_panic {X} (g : X -> outcome (list comp_prog)) l :
  (forall x, In x l -> g x <> Panic) -> harvest_children g l <> Panic.
Proof.
  induction l as [|a l IH]; intros H; cbn [harvest_children]; [discriminate|].
  destruct (g a) as [|ha] eqn:Ga; [exfalso; apply (H a); [left; reflexivity|exact Ga]|].
  destruct (harvest_children g l) as [|hs] eqn:Hl; [|discriminate].
  exfalso. apply IH; [|reflexivity]. intros x Hx. apply H. right. exact Hx.
Qed.

(** children whose harvests carry distinct tags have disjoint harvests *)
Lemma harvest_children_NoDup {X} (tag : comp_prog -> option X) (g : X -> outcome (list comp_prog)) l h :
  harvest_children g l = Ok h -> NoDup l ->
  (forall x hx p, In x l -> g x = Ok hx -> In p hx -> tag p = Some x) ->
  (forall x hx, In x l -> g x = Ok hx -> NoDup hx) ->
  NoDup h.
Proof.
  revert h. induction l as [|a l IH]; intros h H Hl Ht Hn; cbn [harvest_children] in H.
  - inversion H. constructor.
  - destruct (g a) as [|ha] eqn:Ga; [discriminate|].
    destruct (harvest_children g l) as [|hs] eqn:Hs; [discriminate|]. inversion H; subst. clear H.
    inversion Hl as [|a' l' Ha Hl']; subst.
    apply NoDup_app_intro.
    + apply (IH hs eq_refl Hl').
      * intros x hx p Hx. apply Ht. right. exact Hx.
      * intros x hx Hx. apply Hn. right. exact Hx.
    + apply (Hn a); [left; reflexivity|exact Ga].
    + intros p Hp1 Hp2. apply (harvest_children_In g l hs Hs) in Hp1.
      destruct Hp1 as (x & hx & Hx & Gx & Hp1).
      assert (T1 : tag p = Some x) by (eapply Ht; [right; exact Hx|exact Gx|exact Hp1]).
      assert (T2 : tag p = Some a) by (eapply Ht; [left; reflexivity|exact Ga|exact Hp2]).
      rewrite T1 in T2. inversion T2; subst. exact (Ha Hx).
Qed.

(** emission order: the concatenation of the children's sequences *)
Definition seq_of (o : outcome (list comp_prog)) : list comp_prog :=
  match o with Ok h => rev h | Panic => [] end.

Lemma harvest_children_rev {X} (g : X -> outcome (list comp_prog)) l h :
  harvest_children g l = Ok h -> rev h = concat (map (fun x => seq_of (g x)) l).
Proof.
  revert h. induction l as [|a l IH]; intros h H; cbn [harvest_children] in H.
  - inversion H. reflexivity.
  - destruct (g a) as [|ha] eqn:Ga; [discriminate|].
    destruct (harvest_children g l) as [|hs] eqn:Hs; [discriminate|]. inversion H; subst.
    cbn [map concat]. rewrite Ga. cbn [seq_of]. rewrite rev_app_distr, (IH hs eq_refl). reflexivity.
Qed.

(** the generator below one node, without accumulator *)
Fixpoint harvest (fuel : nat) (i : instr) (prog : comp_prog) (st : state) (tp : tape)
  (lim : N) (avail params : N * N) (rem : N) : outcome (list comp_prog) :=
  match fuel with
  | O => Panic
  | S fuel' =>
    match run_for_undefined prog st tp lim with
    | (TrUndefined sl, tp') =>
        let avail' := next_avail params avail sl i in
        let instrs := make_instrs (fst avail') (snd avail') in
        if rem =? 0 then Panic
        else if rem - 1 =? 0 then
          harvest_children (fun nxt => Ok (leaf (cp_insert sl nxt prog) params [])) instrs
        else
          match instrs with
          | [] => Panic
          | _ => harvest_children
                   (fun nxt => harvest fuel' nxt (cp_insert sl nxt prog) (fst sl) tp' lim avail' params (rem - 1))
                   instrs
          end
    | (_, _) => Ok (leaf prog params [])
    end
  end.

Lemma branch_last_loop sl instrs prog params acc :
  Ok (branch_last sl instrs prog params acc) =
  children_loop (fun nxt a => Ok (leaf (cp_insert sl nxt prog) params a)) instrs acc.
Proof.
  revert acc. induction instrs as [|x l IH]; intros acc; cbn [branch_last children_loop]; [reflexivity|].
  apply IH.
Qed.

(** unfolding of [branch] with the nested [fix children] named *)
Lemma branch_S fuel' i prog st tp lim av_s av_c ms mc rem acc :
  branch (S fuel') i prog st tp lim (av_s, av_c) (ms, mc) rem acc =
  match run_for_undefined prog st tp lim with
  | (TrUndefined sl, tp') =>
      let avail' := next_avail (ms, mc) (av_s, av_c) sl i in
      let instrs := make_instrs (fst avail') (snd avail') in
      if rem =? 0 then Panic
      else if rem - 1 =? 0 then Ok (branch_last sl instrs prog (ms, mc) acc)
      else match instrs with
           | [] => Panic
           | _ => children_loop
                    (fun nxt a => branch fuel' nxt (cp_insert sl nxt prog) (fst sl) tp' lim avail' (ms, mc) (rem - 1) a)
                    instrs acc
           end
  | (_, _) => Ok (leaf prog (ms, mc) acc)
  end.
Proof.
  cbn [branch]. destruct (run_for_undefined prog st tp lim) as [[| | |[ss sc]] tp']; try reflexivity.
  destruct i as [[ic ish] is]. cbn [next_avail fst snd instr_target instr_colour].
  destruct (rem =? 0); [reflexivity|]. destruct (rem - 1 =? 0); [reflexivity|].
  match goal with
  | |- match ?L with [] => Panic | _ :: _ => ?F ?L ?a end = _ =>
      assert (HF : forall l0 a0, F l0 a0 =
        children_loop (fun nxt a => branch fuel' nxt (cp_insert (ss, sc) nxt prog) ss tp' lim
                         (update_avail av_s ms ss is, update_avail av_c mc sc ic) (ms, mc) (rem - 1) a) l0 a0)
  end.
  { induction l0 as [|y l0 IH]; intros a0; [reflexivity|]. cbn [children_loop].
    destruct (branch fuel' y (cp_insert (ss, sc) y prog) ss tp' lim
                (update_avail av_s ms ss is, update_avail av_c mc sc ic) (ms, mc) (rem - 1) a0); [reflexivity|].
    apply IH. }
  destruct (make_instrs (update_avail av_s ms ss is) (update_avail av_c mc sc ic)) as [|x l]; [reflexivity|].
  exact (HF (x :: l) acc).
Qed.

Lemma branch_harvest fuel : forall i prog st tp lim avail params rem acc,
  branch fuel i prog st tp lim avail params rem acc =
  with_acc (harvest fuel i prog st tp lim avail params rem) acc.
Proof.
  induction fuel as [|fuel IH]; intros i prog st tp lim [av_s av_c] [ms mc] rem acc; [reflexivity|].
  rewrite branch_S. cbn [harvest].
  destruct (run_for_undefined prog st tp lim) as [[| | |sl] tp']; cbn [with_acc];
    try (rewrite leaf_acc; reflexivity).
  cbv zeta. destruct (rem =? 0); [reflexivity|]. destruct (rem - 1 =? 0).
  - rewrite branch_last_loop. apply children_loop_harvest.
    intros x a _. cbn [with_acc]. rewrite leaf_acc. reflexivity.
  - destruct (make_instrs _ _) as [|x l] eqn:E; [reflexivity|].
    apply children_loop_harvest. intros y a _. apply IH.
Qed.

(** case analysis of a successful [harvest] *)
Lemma harvest_inv fuel i prog st tp lim avail params rem h :
  harvest fuel i prog st tp lim avail params rem = Ok h ->
  exists fuel', fuel = S fuel' /\
  (((forall sl, fst (run_for_undefined prog st tp lim) <> TrUndefined sl) /\ h = leaf prog params [])
   \/ exists sl tp', run_for_undefined prog st tp lim = (TrUndefined sl, tp') /\
        ((rem = 1 /\
          harvest_children (fun nxt => Ok (leaf (cp_insert sl nxt prog) params []))
            (make_instrs (fst (next_avail params avail sl i)) (snd (next_avail params avail sl i))) = Ok h)
         \/ (1 < rem /\
          harvest_children
            (fun nxt => harvest fuel' nxt (cp_insert sl nxt prog) (fst sl) tp' lim
                          (next_avail params avail sl i) params (rem - 1))
            (make_instrs (fst (next_avail params avail sl i)) (snd (next_avail params avail sl i))) = Ok h))).
Proof.
  destruct fuel as [|fuel']; [discriminate|]. intros H. exists fuel'. split; [reflexivity|].
  cbn [harvest] in H. destruct (run_for_undefined prog st tp lim) as [r tp'] eqn:R.
  destruct r as [| | |sl];
    try (left; split; [intros sl; cbn [fst]; discriminate|inversion H; reflexivity]).
  right. exists sl, tp'. split; [reflexivity|]. cbv zeta in H.
  destruct (rem =? 0) eqn:E0; [discriminate|]. apply N.eqb_neq in E0.
  destruct (rem - 1 =? 0) eqn:E1.
  - apply N.eqb_eq in E1. left. split; [lia|exact H].
  - apply N.eqb_neq in E1. right. split; [lia|].
    destruct (make_instrs _ _); [discriminate|exact H].
Qed.

(** * Soundness and completeness with respect to [GenNode] *)

Lemma harvest_gen fuel : forall i prog st tp lim avail params rem h,
  harvest fuel i prog st tp lim avail params rem = Ok h ->
  forall p, In p h <-> GenNode params lim i prog st tp avail rem p.
Proof.
  induction fuel as [|fuel IH]; intros i prog st tp lim avail params rem h H p; [discriminate|].
  apply harvest_inv in H. destruct H as (fuel' & Ef & H). inversion Ef; subst fuel'. clear Ef.
  destruct H as [[Hnu Eh]|(sl & tp' & R & [[Er Hc]|[Hr Hc]])].
  - (* leaf *)
    subst h. rewrite leaf_In. split.
    + intros [E M]. subst p. apply GN_leaf; assumption.
    + intros G. inversion G; subst.
      * split; [reflexivity|assumption].
      * exfalso. apply (Hnu sl). rewrite H. reflexivity.
      * exfalso. apply (Hnu sl). rewrite H. reflexivity.
  - (* last slot *)
    rewrite (harvest_children_In _ _ _ Hc). split.
    + intros (nxt & hx & Hn & Ex & Hp). inversion Ex; subst hx. apply leaf_In in Hp.
      destruct Hp as [E M]. subst p. eapply GN_fill_last; eassumption.
    + intros G. inversion G; subst.
      * exfalso. apply (H sl). rewrite R. reflexivity.
      * rewrite R in H. inversion H; subst.
        exists nxt, (leaf (cp_insert sl0 nxt prog) params []). split; [assumption|].
        split; [reflexivity|]. apply leaf_In. split; [reflexivity|assumption].
      * lia.
  - (* inner node *)
    rewrite (harvest_children_In _ _ _ Hc). split.
    + intros (nxt & hx & Hn & Ex & Hp). eapply GN_fill; try eassumption.
      apply (IH _ _ _ _ _ _ _ _ _ Ex). exact Hp.
    + intros G. inversion G; subst.
      * exfalso. apply (H sl). rewrite R. reflexivity.
      * lia.
      * rewrite R in H. inversion H; subst.
        destruct (harvest_children_ok _ _ _ Hc nxt H1) as [hx Ex].
        exists nxt, hx. split; [assumption|]. split; [exact Ex|].
        apply (IH _ _ _ _ _ _ _ _ _ Ex). assumption.
Qed.

(** * Every emitted program extends the program of the node *)

Lemma harvest_extends fuel : forall i prog st tp lim avail params rem h,
  harvest fuel i prog st tp lim avail params rem = Ok h ->
  forall p, In p h -> extends prog p.
Proof.
  induction fuel as [|fuel IH]; intros i prog st tp lim avail params rem h H p Hp; [discriminate|].
  apply harvest_inv in H. destruct H as (fuel' & Ef & H). inversion Ef; subst fuel'. clear Ef.
  destruct H as [[Hnu Eh]|(sl & tp' & R & [[Er Hc]|[Hr Hc]])].
  - subst h. apply leaf_In in Hp. destruct Hp as [E _]. subst p. apply extends_refl.
  - apply (harvest_children_In _ _ _ Hc) in Hp. destruct Hp as (nxt & hx & Hn & Ex & Hp).
    inversion Ex; subst hx. apply leaf_In in Hp. destruct Hp as [E _]. subst p.
    apply extends_insert. apply (run_undefined_slot _ _ _ _ _ _ R).
  - apply (harvest_children_In _ _ _ Hc) in Hp. destruct Hp as (nxt & hx & Hn & Ex & Hp).
    eapply extends_trans; [|eapply IH; eassumption].
    apply extends_insert. apply (run_undefined_slot _ _ _ _ _ _ R).
Qed.

(** * No program is emitted twice below a node *)

Lemma harvest_NoDup fuel : forall i prog st tp lim avail params rem h,
  harvest fuel i prog st tp lim avail params rem = Ok h -> NoDup h.
Proof.
  induction fuel as [|fuel IH]; intros i prog st tp lim avail params rem h H; [discriminate|].
  apply harvest_inv in H. destruct H as (fuel' & Ef & H). inversion Ef; subst fuel'. clear Ef.
  destruct H as [[Hnu Eh]|(sl & tp' & R & [[Er Hc]|[Hr Hc]])].
  - subst h. apply leaf_NoDup.
  - apply (harvest_children_NoDup (fun p => cp_get p sl) _ _ _ Hc).
    + apply make_instrs_nodup.
    + intros nxt hx p _ Ex Hp. inversion Ex; subst hx. apply leaf_In in Hp. destruct Hp as [E _].
      subst p. apply cp_get_insert_same.
    + intros nxt hx _ Ex. inversion Ex; subst hx. apply leaf_NoDup.
  - apply (harvest_children_NoDup (fun p => cp_get p sl) _ _ _ Hc).
    + apply make_instrs_nodup.
    + intros nxt hx p _ Ex Hp. apply (harvest_extends _ _ _ _ _ _ _ _ _ _ Ex p Hp).
      apply cp_get_insert_same.
    + intros nxt hx _ Ex. eapply IH. exact Ex.
Qed.

(** * No panic: the fuel suffices, the instruction list is never empty and
    the slot budget never underflows *)

Lemma harvest_no_panic fuel : forall i prog st tp lim avail params rem,
  (N.to_nat rem < fuel)%nat -> 1 <= rem -> 1 <= fst avail -> 1 <= snd avail ->
  harvest fuel i prog st tp lim avail params rem <> Panic.
Proof.
  induction fuel as [|fuel IH]; intros i prog st tp lim avail params rem Hf Hr Ha1 Ha2; [lia|].
  cbn [harvest]. destruct (run_for_undefined prog st tp lim) as [[| | |sl] tp']; try discriminate.
  cbv zeta.
  assert (Hb1 : 1 <= fst (next_avail params avail sl i)).
  { unfold next_avail. cbn [fst].
    pose proof (update_avail_bounds (fst avail) (fst params) (fst sl) (instr_target i)). lia. }
  assert (Hb2 : 1 <= snd (next_avail params avail sl i)).
  { unfold next_avail. cbn [snd].
    pose proof (update_avail_bounds (snd avail) (snd params) (snd sl) (instr_colour i)). lia. }
  destruct (rem =? 0) eqn:E0; [apply N.eqb_eq in E0; lia|].
  destruct (rem - 1 =? 0) eqn:E1.
  - apply harvest_children_no_panic. intros; discriminate.
  - apply N.eqb_neq in E1.
    destruct (make_instrs _ _) as [|x l] eqn:E; [exfalso; exact (make_instrs_nonempty _ _ Hb1 Hb2 E)|].
    apply harvest_children_no_panic. intros y _. apply IH; try assumption; lia.
Qed.

(** * The whole tree *)

Definition first_level (params : N * N) : list instr :=
  make_instrs (N.min 3 (fst params)) (N.min 3 (snd params)).

(** one first-level task, without accumulator *)
Definition subtree_h (params : N * N) (halt : bool) (lim : N) (i : instr) : outcome (list comp_prog) :=
  obind (init_remaining (fst params) (snd params) halt) (fun rem =>
    harvest (S (N.to_nat rem)) i (start_prog i) 1 init_stepped lim
            (N.min 3 (fst params), N.min 3 (snd params)) params rem).

Definition tree_h (params : N * N) (halt : bool) (lim : N) : outcome (list comp_prog) :=
  harvest_children (subtree_h params halt lim) (first_level params).

(** the accumulator lemma for a first-level task: what it adds to the
    accumulator does not depend on the accumulator *)
Lemma build_subtree_harvest params halt lim i acc :
  build_subtree params halt lim i acc = with_acc (subtree_h params halt lim i) acc.
Proof.
  destruct params as [ns nc]. unfold build_subtree, subtree_h. cbn [fst snd].
  destruct (init_remaining ns nc halt) as [|rem]; cbn [obind with_acc]; [reflexivity|].
  apply branch_harvest.
Qed.

Lemma build_subtree_acc params halt lim i acc r :
  build_subtree params halt lim i acc = Ok r ->
  exists h, r = h ++ acc /\ forall acc', build_subtree params halt lim i acc' = Ok (h ++ acc').
Proof.
  rewrite build_subtree_harvest. destruct (subtree_h params halt lim i) as [|h] eqn:E; [discriminate|].
  cbn [with_acc]. intros H. inversion H; subst. exists h. split; [reflexivity|].
  intros acc'. rewrite build_subtree_harvest, E. reflexivity.
Qed.

Lemma branch_acc fuel i prog st tp lim avail params rem acc r :
  branch fuel i prog st tp lim avail params rem acc = Ok r ->
  exists h, r = h ++ acc /\ forall acc', branch fuel i prog st tp lim avail params rem acc' = Ok (h ++ acc').
Proof.
  rewrite branch_harvest. destruct (harvest fuel i prog st tp lim avail params rem) as [|h] eqn:E; [discriminate|].
  cbn [with_acc]. intros H. inversion H; subst. exists h. split; [reflexivity|].
  intros acc'. rewrite branch_harvest, E. reflexivity.
Qed.

Lemma build_tree_loop_eq params halt lim l acc :
  build_tree_loop params halt lim l acc = children_loop (build_subtree params halt lim) l acc.
Proof.
  revert acc. induction l as [|x l IH]; intros acc; cbn [build_tree_loop children_loop]; [reflexivity|].
  destruct (build_subtree params halt lim x acc); [reflexivity|apply IH].
Qed.

Lemma rev'_rev {A} (l : list A) : rev' l = rev l.
Proof. unfold rev'. symmetry. apply rev_alt. Qed.

Lemma build_tree_eq params halt lim :
  build_tree params halt lim =
  match tree_h params halt lim with Panic => Panic | Ok h => Ok (rev h) end.
Proof.
  destruct params as [ns nc]. unfold build_tree, tree_h, first_level. cbn [fst snd].
  rewrite build_tree_loop_eq.
  rewrite (children_loop_harvest _ (subtree_h (ns, nc) halt lim))
    by (intros x acc _; apply build_subtree_harvest).
  destruct (harvest_children _ _) as [|h]; cbn [with_acc]; [reflexivity|].
  rewrite app_nil_r, rev'_rev. reflexivity.
Qed.

Lemma build_tree_ok params halt lim progs :
  build_tree params halt lim = Ok progs ->
  exists h, tree_h params halt lim = Ok h /\ progs = rev h.
Proof.
  rewrite build_tree_eq. destruct (tree_h params halt lim) as [|h]; [discriminate|].
  intros H. inversion H. exists h. split; reflexivity.
Qed.

Lemma init_remaining_ok ns nc halt rem :
  init_remaining ns nc halt = Ok rem -> rem = slot_budget (ns, nc) halt.
Proof.
  unfold init_remaining, slot_budget. cbn [fst snd].
  destruct (u64_max <? ns * nc); [discriminate|]. destruct (ns * nc <? 1); [discriminate|].
  destruct (ns * nc - 1 <? (if halt then 2 else 1)); [discriminate|]. intros H. inversion H. reflexivity.
Qed.

Lemma subtree_h_ok params halt lim i h :
  subtree_h params halt lim i = Ok h ->
  harvest (S (N.to_nat (slot_budget params halt))) i (start_prog i) 1 init_stepped lim
          (N.min 3 (fst params), N.min 3 (snd params)) params (slot_budget params halt) = Ok h.
Proof.
  unfold subtree_h. destruct params as [ns nc]. cbn [fst snd].
  destruct (init_remaining ns nc halt) as [|rem] eqn:E; [discriminate|]. cbn [obind].
  apply init_remaining_ok in E. subst rem. intros H. exact H.
Qed.

Lemma start_prog_B0 i : cp_get (start_prog i) (1, 0) = Some i.
Proof. apply cp_get_insert_same. Qed.

Lemma start_prog_A0 i : cp_get (start_prog i) (0, 0) = Some (1, true, 1).
Proof.
  unfold start_prog. rewrite cp_get_insert_other by discriminate. apply cp_get_insert_same.
Qed.

Theorem tree_sound_complete params halt lim progs :
  build_tree params halt lim = Ok progs -> forall p, In p progs <-> Gen params halt lim p.
Proof.
  intros H p. apply build_tree_ok in H. destruct H as (h & Hh & E). subst progs.
  rewrite <- in_rev. unfold tree_h in Hh. rewrite (harvest_children_In _ _ _ Hh). unfold Gen. split.
  - intros (i & hx & Hi & Ex & Hp). exists i. split; [exact Hi|].
    apply subtree_h_ok in Ex. apply (harvest_gen _ _ _ _ _ _ _ _ _ _ Ex). exact Hp.
  - intros (i & Hi & G). destruct (harvest_children_ok _ _ _ Hh i Hi) as [hx Ex].
    exists i, hx. split; [exact Hi|]. split; [exact Ex|].
    apply subtree_h_ok in Ex. apply (harvest_gen _ _ _ _ _ _ _ _ _ _ Ex). exact G.
Qed.

Lemma tree_h_NoDup params halt lim h : tree_h params halt lim = Ok h -> NoDup h.
Proof.
  intros Hh. unfold tree_h in Hh.
  apply (harvest_children_NoDup (fun p => cp_get p (1, 0)) _ _ _ Hh).
  - apply make_instrs_nodup.
  - intros i hx p _ Ex Hp. apply subtree_h_ok in Ex.
    apply (harvest_extends _ _ _ _ _ _ _ _ _ _ Ex p Hp). apply start_prog_B0.
  - intros i hx _ Ex. apply subtree_h_ok in Ex. eapply harvest_NoDup. exact Ex.
Qed.

Theorem tree_nodup params halt lim progs :
  build_tree params halt lim = Ok progs -> NoDup progs.
Proof.
  intros H. apply build_tree_ok in H. destruct H as (h & Hh & E). subst progs.
  apply tree_h_NoDup in Hh. eapply Permutation_NoDup; [apply Permutation_rev|exact Hh].
Qed.

Theorem tree_A0 params halt lim progs :
  build_tree params halt lim = Ok progs -> forall p, In p progs -> cp_get p (0, 0) = Some (1, true, 1).
Proof.
  intros H p Hp. apply build_tree_ok in H. destruct H as (h & Hh & E). subst progs.
  rewrite <- in_rev in Hp. unfold tree_h in Hh. apply (harvest_children_In _ _ _ Hh) in Hp.
  destruct Hp as (i & hx & Hi & Ex & Hp). apply subtree_h_ok in Ex.
  apply (harvest_extends _ _ _ _ _ _ _ _ _ _ Ex p Hp). apply start_prog_A0.
Qed.

(** * Scheduling *)

Lemma concat_all_nil {A} (seqs : list (list A)) : Forall (fun s => s = []) seqs -> concat seqs = [].
Proof. induction 1 as [|s seqs Hs _ IH]; cbn [concat]; [reflexivity|]. rewrite Hs, IH. reflexivity. Qed.

Lemma interleaving_perm {A} (merged : list A) seqs :
  IsInterleaving merged seqs -> Permutation merged (concat seqs).
Proof.
  induction 1 as [seqs Hn|x xs s1 s2 merged _ IH].
  - rewrite concat_all_nil by exact Hn. constructor.
  - rewrite concat_app in *. cbn [concat] in *. rewrite <- app_comm_cons.
    apply Permutation_cons_app. exact IH.
Qed.

Lemma subtree_seq_eq params halt lim i :
  subtree_seq params halt lim i = seq_of (subtree_h params halt lim i).
Proof.
  unfold subtree_seq. rewrite build_subtree_harvest.
  destruct (subtree_h params halt lim i) as [|h]; cbn [with_acc seq_of]; [reflexivity|].
  rewrite app_nil_r. reflexivity.
Qed.

(** the result in emission order is the concatenation of the tasks' sequences *)
Lemma build_tree_concat params halt lim progs :
  build_tree params halt lim = Ok progs ->
  progs = concat (map (subtree_seq params halt lim) (first_level params)).
Proof.
  intros H. apply build_tree_ok in H. destruct H as (h & Hh & E). subst progs.
  unfold tree_h in Hh. rewrite (harvest_children_rev _ _ _ Hh).
  f_equal. apply map_ext. intros i. symmetry. apply subtree_seq_eq.
Qed.

Theorem tree_schedule_indep params halt lim progs :
  build_tree params halt lim = Ok progs ->
  forall order, Permutation order (first_level params) ->
  forall merged, IsInterleaving merged (map (subtree_seq params halt lim) order) ->
  Permutation merged progs.
Proof.
  intros H order Ho merged Hm. rewrite (build_tree_concat _ _ _ _ H).
  eapply Permutation_trans; [apply interleaving_perm; exact Hm|].
  apply Permutation_concat_map. exact Ho.
Qed.

(** * No panic *)

Theorem tree_no_panic_gen ns nc (halt : bool) lim :
  (if halt then 4 else 3) <= ns * nc -> ns * nc <= u64_max ->
  build_tree (ns, nc) halt lim <> Panic.
Proof.
  intros Hlo Hhi. rewrite build_tree_eq.
  assert (Hn : tree_h (ns, nc) halt lim <> Panic); [|destruct (tree_h (ns, nc) halt lim); [contradiction|discriminate]].
  assert (Hs : 1 <= ns) by (destruct (N.eq_dec ns 0) as [E|E]; [subst ns; destruct halt; lia|lia]).
  assert (Hc : 1 <= nc) by (destruct (N.eq_dec nc 0) as [E|E]; [subst nc; destruct halt; lia|lia]).
  unfold tree_h. apply harvest_children_no_panic. intros i _. unfold subtree_h. cbn [fst snd].
  unfold init_remaining.
  destruct (u64_max <? ns * nc) eqn:E1; [apply N.ltb_lt in E1; lia|].
  destruct (ns * nc <? 1) eqn:E2; [apply N.ltb_lt in E2; destruct halt; lia|].
  destruct (ns * nc - 1 <? (if halt then 2 else 1)) eqn:E3; [apply N.ltb_lt in E3; destruct halt; lia|].
  cbn [obind]. apply harvest_no_panic; cbn [fst snd]; destruct halt; lia.
Qed.

Theorem tree_no_panic ns nc halt lim :
  2 <= ns -> 2 <= nc -> ns * nc <= 2 ^ 32 -> build_tree (ns, nc) halt lim <> Panic.
Proof.
  intros Hs Hc Hb. apply tree_no_panic_gen.
  - assert (4 <= ns * nc) by nia. destruct halt; lia.
  - assert (2 ^ 32 <= u64_max) by (vm_compute; discriminate). lia.
Qed.

(** * Tree normal form: states are entered in increasing order *)

Definition tnf_order (p : comp_prog) : Prop :=
  forall s, 0 < s -> state_mentioned p s -> entered_from_lower p s.

Lemma slot_dec (a b : slot) : a = b \/ a <> b.
Proof.
  destruct (slot_eqb a b) eqn:E; [left; apply slot_eqb_eq; exact E|right].
  intros H. subst b. rewrite slot_eqb_refl in E. discriminate.
Qed.

Lemma cp_get_insert_cases k v p k' v' :
  cp_get (cp_insert k v p) k' = Some v' ->
  (k' = k /\ v' = v) \/ (k' <> k /\ cp_get p k' = Some v').
Proof.
  intros H. destruct (slot_dec k k') as [E|E].
  - subst k'. rewrite cp_get_insert_same in H. inversion H. left. split; reflexivity.
  - rewrite cp_get_insert_other in H by exact E. right. split; [intros E'; apply E; symmetry; exact E'|exact H].
Qed.

Lemma is_target_extends p q t : extends p q -> is_target p t -> is_target q t.
Proof. intros He (k & co & sh & H). exists k, co, sh. apply He. exact H. Qed.

Lemma is_target_insert_new k v p : is_target (cp_insert k v p) (instr_target v).
Proof. destruct v as [[co sh] t]. exists k, co, sh. apply cp_get_insert_same. Qed.

Lemma is_target_insert_inv k v p t :
  is_target (cp_insert k v p) t -> is_target p t \/ t = instr_target v.
Proof.
  intros (k' & co & sh & H). apply cp_get_insert_cases in H. destruct H as [[_ E]|[_ H]].
  - right. subst v. reflexivity.
  - left. exists k', co, sh. exact H.
Qed.

Lemma entered_extends p q s : extends p q -> entered_from_lower p s -> entered_from_lower q s.
Proof. intros He (a & co & pr & sh & Ha & H). exists a, co, pr, sh. split; [exact Ha|apply He; exact H]. Qed.

(** Invariant of a node: the targets used so far are 1..m (and possibly 0),
    the current state and the target of the instruction placed last are
    among them, at most the state m+1 is available beyond them, and the
    program so far is in normal form. *)
Record node_inv (prog : comp_prog) (st : state) (i : instr) (av_s m : N) : Prop := {
  ni_le : forall t, is_target prog t -> t <= m;
  ni_all : forall t, 0 < t <= m -> is_target prog t;
  ni_st : is_target prog st;
  ni_i : is_target prog (instr_target i);
  ni_av : av_s <= m + 2;
  ni_oe : tnf_order prog }.

Lemma node_inv_child params prog st tp i av m lim sl tp' nxt :
  node_inv prog st i (fst av) m ->
  run_for_undefined prog st tp lim = (TrUndefined sl, tp') ->
  In nxt (make_instrs (fst (next_avail params av sl i)) (snd (next_avail params av sl i))) ->
  node_inv (cp_insert sl nxt prog) (fst sl) nxt (fst (next_avail params av sl i))
           (N.max m (instr_target nxt)).
Proof.
  intros Inv R Hn. destruct (run_undefined_slot _ _ _ _ _ _ R) as [Hnone Hq].
  assert (Tq : is_target prog (fst sl)).
  { destruct Hq as [E|T]; [rewrite E; apply (ni_st _ _ _ _ _ Inv)|exact T]. }
  pose proof (ni_le _ _ _ _ _ Inv _ Tq) as Hqm.
  pose proof (ni_le _ _ _ _ _ Inv _ (ni_i _ _ _ _ _ Inv)) as Him.
  pose proof (ni_av _ _ _ _ _ Inv) as Hav.
  assert (Hav' : fst (next_avail params av sl i) <= m + 2).
  { unfold next_avail, update_avail. cbn [fst].
    destruct ((fst av <? fst params) && (1 + N.max (fst sl) (instr_target i) =? fst av)) eqn:E; [|exact Hav].
    apply andb_true_iff in E. destruct E as [_ E]. apply N.eqb_eq in E. lia. }
  destruct nxt as [[co sh] t]. apply make_instrs_spec in Hn. destruct Hn as [_ Ht].
  cbn [instr_target snd].
  pose proof (extends_insert sl (co, sh, t) prog Hnone) as Hext.
  constructor.
  - intros u Hu. apply is_target_insert_inv in Hu. destruct Hu as [Hu|Hu].
    + pose proof (ni_le _ _ _ _ _ Inv _ Hu). lia.
    + cbn [instr_target snd] in Hu. lia.
  - intros u Hu. destruct (N.le_gt_cases u m) as [Hle|Hgt].
    + eapply is_target_extends; [exact Hext|]. apply (ni_all _ _ _ _ _ Inv). lia.
    + assert (u = t) by lia. subst u. apply (is_target_insert_new sl (co, sh, t) prog).
  - eapply is_target_extends; [exact Hext|exact Tq].
  - apply (is_target_insert_new sl (co, sh, t) prog).
  - lia.
  - intros s Hs (k & i' & G & Hm). apply cp_get_insert_cases in G.
    assert (Hold : state_mentioned prog s -> entered_from_lower (cp_insert sl (co, sh, t) prog) s).
    { intros M. eapply entered_extends; [exact Hext|]. apply (ni_oe _ _ _ _ _ Inv); assumption. }
    assert (Htgt : forall u, is_target prog u -> state_mentioned prog u).
    { intros u (k0 & co0 & sh0 & G0). exists k0, (co0, sh0, u). split; [exact G0|right; reflexivity]. }
    destruct G as [[Ek Ei]|[Nk G]].
    + subst k i'. cbn [instr_target snd] in Hm. destruct Hm as [Hm|Hm].
      * apply Hold. apply Htgt. rewrite <- Hm. exact Tq.
      * subst t. destruct (N.le_gt_cases s m) as [Hle|Hgt].
        -- apply Hold. apply Htgt. apply (ni_all _ _ _ _ _ Inv). lia.
        -- destruct sl as [q c]. exists q, c, co, sh. cbn [fst] in Hqm. split; [lia|].
           apply cp_get_insert_same.
    + apply Hold. exists k, i'. split; assumption.
Qed.

Lemma harvest_tnf fuel : forall i prog st tp lim avail params rem h m,
  harvest fuel i prog st tp lim avail params rem = Ok h ->
  node_inv prog st i (fst avail) m ->
  forall p, In p h -> tnf_order p.
Proof.
  induction fuel as [|fuel IH]; intros i prog st tp lim avail params rem h m H Inv p Hp; [discriminate|].
  apply harvest_inv in H. destruct H as (fuel' & Ef & H). inversion Ef; subst fuel'. clear Ef.
  destruct H as [[Hnu Eh]|(sl & tp' & R & [[Er Hc]|[Hr Hc]])].
  - subst h. apply leaf_In in Hp. destruct Hp as [E _]. subst p. apply (ni_oe _ _ _ _ _ Inv).
  - apply (harvest_children_In _ _ _ Hc) in Hp. destruct Hp as (nxt & hx & Hn & Ex & Hp).
    inversion Ex; subst hx. apply leaf_In in Hp. destruct Hp as [E _]. subst p.
    apply (ni_oe _ _ _ _ _ (node_inv_child params _ _ _ _ _ _ _ _ _ _ Inv R Hn)).
  - apply (harvest_children_In _ _ _ Hc) in Hp. destruct Hp as (nxt & hx & Hn & Ex & Hp).
    eapply (IH _ _ _ _ _ _ _ _ _ _ Ex); [|exact Hp].
    apply (node_inv_child params _ _ _ _ _ _ _ _ _ _ Inv R Hn).
Qed.

Lemma start_prog_cases i k v :
  cp_get (start_prog i) k = Some v -> (k = (1, 0) /\ v = i) \/ (k = (0, 0) /\ v = (1, true, 1)).
Proof.
  unfold start_prog. intros H. apply cp_get_insert_cases in H. destruct H as [H|[_ H]]; [left; exact H|].
  apply cp_get_insert_cases in H. destruct H as [H|[_ H]]; [right; exact H|discriminate].
Qed.

Lemma start_inv params i :
  In i (first_level params) ->
  node_inv (start_prog i) 1 i (N.min 3 (fst params)) (N.max 1 (instr_target i)).
Proof.
  destruct i as [[co sh] t]. unfold first_level. rewrite make_instrs_spec. intros [_ Ht].
  cbn [instr_target snd].
  assert (T1 : is_target (start_prog (co, sh, t)) 1) by (exists (0, 0), 1, true; apply start_prog_A0).
  assert (Tt : is_target (start_prog (co, sh, t)) t) by (exists (1, 0), co, sh; apply start_prog_B0).
  constructor.
  - intros u (k & co' & sh' & G). apply start_prog_cases in G. destruct G as [[_ E]|[_ E]]; inversion E; lia.
  - intros u Hu. assert (E : u = 1 \/ u = t) by lia. destruct E; subst u; assumption.
  - exact T1.
  - exact Tt.
  - lia.
  - intros s Hs (k & i' & G & Hm). apply start_prog_cases in G.
    assert (E1 : s = 1 -> entered_from_lower (start_prog (co, sh, t)) s).
    { intros ->. exists 0, 0, 1, true. split; [lia|apply start_prog_A0]. }
    destruct G as [[Ek Ei]|[Ek Ei]]; subst k i'; cbn [fst instr_target snd] in Hm.
    + destruct Hm as [Hm|Hm]; [apply E1; symmetry; exact Hm|]. subst t.
      destruct (N.eq_dec s 1) as [E|E]; [apply E1; exact E|].
      exists 1, 0, co, sh. split; [lia|apply start_prog_B0].
    + destruct Hm as [Hm|Hm]; [lia|apply E1; symmetry; exact Hm].
Qed.

Theorem tree_tnf_order params halt lim progs :
  build_tree params halt lim = Ok progs ->
  forall p, In p progs -> forall s, 0 < s -> state_mentioned p s -> entered_from_lower p s.
Proof.
  intros H p Hp. apply build_tree_ok in H. destruct H as (h & Hh & E). subst progs.
  rewrite <- in_rev in Hp. unfold tree_h in Hh. apply (harvest_children_In _ _ _ Hh) in Hp.
  destruct Hp as (i & hx & Hi & Ex & Hp). apply subtree_h_ok in Ex.
  apply (harvest_tnf _ _ _ _ _ _ _ _ _ _ _ Ex (start_inv params i Hi) p Hp).
Qed.

(** the filter of [leaf] is exactly "mentions the last state and colour" *)
Lemma leaf_spec prog params acc :
  (mentions_last params prog -> leaf prog params acc = prog :: acc) /\
  (~ mentions_last params prog -> leaf prog params acc = acc).
Proof.
  rewrite leaf_eq, <- leaf_skip_false. destruct (leaf_skip params prog); split; intros H;
    try reflexivity; try discriminate. exfalso. apply H. reflexivity.
Qed.

(** * No table is emitted twice: any two entries of the result differ as
    tables (at some slot), not only as lists *)

Definition tables_differ (p q : comp_prog) : Prop := exists k, cp_get p k <> cp_get q k.

Lemma tables_differ_sym p q : tables_differ p q -> tables_differ q p.
Proof. intros (k & H). exists k. intros E. apply H. symmetry. exact E. Qed.

Lemma FOP_app {A} (R : A -> A -> Prop) l1 l2 :
  ForallOrdPairs R l1 -> ForallOrdPairs R l2 -> (forall p q, In p l1 -> In q l2 -> R p q) ->
  ForallOrdPairs R (l1 ++ l2).
Proof.
  intros H1 H2 Hc. induction H1 as [|a l1 Ha H1 IH]; cbn [app]; [exact H2|].
  constructor.
  - apply Forall_forall. intros x Hx. apply in_app_iff in Hx. destruct Hx as [Hx|Hx].
    + rewrite Forall_forall in Ha. apply Ha. exact Hx.
    + apply Hc; [left; reflexivity|exact Hx].
  - apply IH. intros p q Hp Hq. apply Hc; [right; exact Hp|exact Hq].
Qed.

Lemma FOP_rev {A} (R : A -> A -> Prop) l :
  (forall p q, R p q -> R q p) -> ForallOrdPairs R l -> ForallOrdPairs R (rev l).
Proof.
  intros Hs H. induction H as [|a l Ha H IH]; cbn [rev]; [constructor|].
  apply FOP_app; [exact IH|repeat constructor|].
  intros p q Hp [E|[]]. subst q. apply Hs. rewrite Forall_forall in Ha. apply Ha.
  apply in_rev. exact Hp.
Qed.

Lemma leaf_FOP prog params : ForallOrdPairs tables_differ (leaf prog params []).
Proof. rewrite leaf_eq. destruct (leaf_skip params prog); repeat constructor. Qed.

Lemma harvest_children_FOP {X} (tag : comp_prog -> option X) (g : X -> outcome (list comp_prog)) l h :
  harvest_children g l = Ok h -> NoDup l ->
  (forall x hx p, In x l -> g x = Ok hx -> In p hx -> tag p = Some x) ->
  (forall p q, tag p <> tag q -> tables_differ p q) ->
  (forall x hx, In x l -> g x = Ok hx -> ForallOrdPairs tables_differ hx) ->
  ForallOrdPairs tables_differ h.
Proof.
  revert h. induction l as [|a l IH]; intros h H Hl Ht Hd Hn; cbn [harvest_children] in H.
  - inversion H. constructor.
  - destruct (g a) as [|ha] eqn:Ga; [discriminate|].
    destruct (harvest_children g l) as [|hs] eqn:Hs; [discriminate|]. inversion H; subst. clear H.
    inversion Hl as [|a' l' Ha Hl']; subst.
    apply FOP_app.
    + apply (IH hs eq_refl Hl').
      * intros x hx p Hx. apply Ht. right. exact Hx.
      * exact Hd.
      * intros x hx Hx. apply Hn. right. exact Hx.
    + apply (Hn a); [left; reflexivity|exact Ga].
    + intros p q Hp Hq. apply (harvest_children_In g l hs Hs) in Hp.
      destruct Hp as (x & hx & Hx & Gx & Hp).
      assert (T1 : tag p = Some x) by (eapply Ht; [right; exact Hx|exact Gx|exact Hp]).
      assert (T2 : tag q = Some a) by (eapply Ht; [left; reflexivity|exact Ga|exact Hq]).
      apply Hd. rewrite T1, T2. intros E. inversion E; subst. exact (Ha Hx).
Qed.

Lemma tag_differ sl p q : cp_get p sl <> cp_get q sl -> tables_differ p q.
Proof. intros H. exists sl. exact H. Qed.

Lemma harvest_FOP fuel : forall i prog st tp lim avail params rem h,
  harvest fuel i prog st tp lim avail params rem = Ok h -> ForallOrdPairs tables_differ h.
Proof.
  induction fuel as [|fuel IH]; intros i prog st tp lim avail params rem h H; [discriminate|].
  apply harvest_inv in H. destruct H as (fuel' & Ef & H). inversion Ef; subst fuel'. clear Ef.
  destruct H as [[Hnu Eh]|(sl & tp' & R & [[Er Hc]|[Hr Hc]])].
  - subst h. apply leaf_FOP.
  - apply (harvest_children_FOP (fun p => cp_get p sl) _ _ _ Hc).
    + apply make_instrs_nodup.
    + intros nxt hx p _ Ex Hp. inversion Ex; subst hx. apply leaf_In in Hp. destruct Hp as [E _].
      subst p. apply cp_get_insert_same.
    + intros p q. apply tag_differ.
    + intros nxt hx _ Ex. inversion Ex; subst hx. apply leaf_FOP.
  - apply (harvest_children_FOP (fun p => cp_get p sl) _ _ _ Hc).
    + apply make_instrs_nodup.
    + intros nxt hx p _ Ex Hp. apply (harvest_extends _ _ _ _ _ _ _ _ _ _ Ex p Hp).
      apply cp_get_insert_same.
    + intros p q. apply tag_differ.
    + intros nxt hx _ Ex. eapply IH. exact Ex.
Qed.

Theorem tree_nodup_tables params halt lim progs :
  build_tree params halt lim = Ok progs ->
  ForallOrdPairs (fun p q => exists k, cp_get p k <> cp_get q k) progs.
Proof.
  intros H. apply build_tree_ok in H. destruct H as (h & Hh & E). subst progs.
  apply (FOP_rev tables_differ); [exact tables_differ_sym|].
  unfold tree_h in Hh. apply (harvest_children_FOP (fun p => cp_get p (1, 0)) _ _ _ Hh).
  - apply make_instrs_nodup.
  - intros i hx p _ Ex Hp. apply subtree_h_ok in Ex.
    apply (harvest_extends _ _ _ _ _ _ _ _ _ _ Ex p Hp). apply start_prog_B0.
  - intros p q. apply tag_differ.
  - intros i hx _ Ex. apply subtree_h_ok in Ex. eapply harvest_FOP. exact Ex.
Qed.
