(** C02 / C03: soundness of [run_prover] DOWNSTREAM of rule inference.

    The rule inference of [try_rule] (four observations of block counts =>
    "rule") is a generalisation, not a theorem.  Everything proved here is
    either unconditional (structure of the run: the tape stays canonical,
    every recorded application is a successful [apply_rule] of a rule with
    distinct keys on a canonical tape; the rule-free run is [run_quick];
    monotonicity in the limit) or CONDITIONAL on [apps_real]: every recorded
    application leads from the configuration before it to the configuration
    after it by real machine steps.  [apps_real] follows from [apps_valid]
    (every applied rule is valid in the sense of [RuleSound.RuleValid]) and,
    for a concrete run, from the verified replay checker ([apps_replay_ok],
    what the run-time check evaluates) -- in which case the verdict theorems
    hold with no hypothesis left.

    NOT claimed: anything about the verdicts that [try_rule] itself returns
    through the [Some other] branch of [prover_body] ([InfiniteRule] -> infrul,
    [MultRule] -> mulrul, [ConfigLimit] -> cfglim).  The only [infrul] verdict
    for which a theorem is proved is the one of the blank-tape bookkeeping of
    [quick_body]; it is told from [InfiniteRule] by [r_cycles r = 0] (the Rust
    code sets [cycles] on the [try_rule] verdicts and leaves it 0 on the blank
    path; [try_rule] gives no verdict at cycle 0, lemma [try_rule_init]). *)
From BB Require Import Base TM Ref TapeModel InstrsModel RulesModel MachineModel ProverModel ReplayModel.
From BB Require Import TapeCanon TapeObs StepSim Loops RulesExact RuleSound QuickSim ReplaySound.
Open Scope N_scope.

(** ------------------------------------------------------------------ *)
(** * generic facts about [iter_nat]                                    *)
Section Iter.
Context {St Rs : Type} (body : St -> St + Rs).

Lemma iter_nat_snoc m s :
  iter_nat (S m) body s = match iter_nat m body s with inl s' => body s' | inr r => inr r end.
Proof.
  replace (S m) with (m + 1)%nat by lia. rewrite iter_nat_add.
  destruct (iter_nat m body s) as [s'|r]; [|reflexivity].
  cbn [iter_nat]. destruct (body s'); reflexivity.
Qed.

Lemma iter_inv_idx (I : nat -> St -> Prop) s0 :
  I O s0 -> (forall k s s', I k s -> body s = inl s' -> I (S k) s') ->
  forall m s, iter_nat m body s0 = inl s -> I m s.
Proof.
  intros H0 Hstep. induction m as [|m IH]; intros s H.
  - cbn [iter_nat] in H. injection H as <-. exact H0.
  - rewrite iter_nat_snoc in H. destruct (iter_nat m body s0) as [s1|r] eqn:E; [|discriminate].
    apply (Hstep m s1 s); [apply IH; reflexivity|exact H].
Qed.

Lemma iter_exit : forall m s0 r, iter_nat m body s0 = inr r ->
  exists k s, (k < m)%nat /\ iter_nat k body s0 = inl s /\ body s = inr r.
Proof.
  induction m as [|m IH]; intros s0 r H; [discriminate|].
  rewrite iter_nat_snoc in H. destruct (iter_nat m body s0) as [s1|r1] eqn:E.
  - exists m, s1. split; [lia|]. split; [exact E|exact H].
  - injection H as <-. destruct (IH s0 r1 E) as (k & s & Hk & A & B).
    exists k, s. split; [lia|]. split; assumption.
Qed.
End Iter.

(** ------------------------------------------------------------------ *)
(** * rules handed out by the prover have distinct keys                 *)

Lemma nodup_app {A} (a b : list A) :
  NoDup a -> NoDup b -> (forall x, In x a -> ~ In x b) -> NoDup (a ++ b).
Proof.
  induction a as [|x a IH]; intros Ha Hb Hd; [exact Hb|].
  inversion Ha as [|? ? Hx Ha']; subst. cbn [app]. constructor.
  - intros Hin. apply in_app_or in Hin. destruct Hin as [Hin|Hin]; [exact (Hx Hin)|].
    exact (Hd x (or_introl eq_refl) Hin).
  - apply IH; [exact Ha'|exact Hb|]. intros y Hy. apply Hd. right. exact Hy.
Qed.

Lemma make_rule_span_keys side : forall l i acc r,
  make_rule_span side i l acc = Ok (Some r) ->
  exists ext, r = acc ++ ext /\
    (forall ix, In ix (map fst ext) -> fst ix = side /\ i <= snd ix) /\ NoDup (map fst ext).
Proof.
  induction l as [|[[[a b] c] d] l IH]; intros i acc r H; cbn [make_rule_span] in H.
  - injection H as <-. exists []. rewrite app_nil_r. split; [reflexivity|]. split.
    + intros ix [].
    + constructor.
  - apply obind_ok in H. destruct H as (dr & Hd & H).
    destruct dr as [| |o]; [|discriminate|].
    + apply IH in H. destruct H as (ext & -> & Hkeys & Hnd).
      exists ext. split; [reflexivity|]. split; [|exact Hnd].
      intros ix Hin. destruct (Hkeys ix Hin) as (? & ?). split; [assumption|lia].
    + apply IH in H. destruct H as (ext & -> & Hkeys & Hnd).
      exists (((side, i), o) :: ext). split; [rewrite <- app_assoc; reflexivity|]. split.
      * cbn [map fst]. intros ix [Hin|Hin].
        -- subst ix. cbn [fst snd]. split; [reflexivity|lia].
        -- destruct (Hkeys ix Hin) as (? & ?). split; [assumption|lia].
      * cbn [map fst]. constructor; [|exact Hnd].
        intros Hin. destruct (Hkeys _ Hin) as (_ & Hle). cbn [snd] in Hle. lia.
Qed.

(** rules come from [make_rule], whose keys are distinct by construction:
    left indices in increasing order, then right indices in increasing order *)
Theorem make_rule_keys_nodup c1 c2 c3 c4 r :
  make_rule c1 c2 c3 c4 = Ok (Some r) -> rule_keys_nodup r.
Proof.
  unfold make_rule. intros H. apply obind_ok in H. destruct H as (ra & HL & HR).
  destruct ra as [accL|]; [|discriminate].
  apply make_rule_span_keys in HL. destruct HL as (extL & -> & HkL & HnL).
  apply make_rule_span_keys in HR. destruct HR as (extR & -> & HkR & HnR).
  unfold rule_keys_nodup. cbn [app]. rewrite map_app. apply nodup_app; [exact HnL|exact HnR|].
  intros ix HinL HinR. destruct (HkL ix HinL) as (A & _). destruct (HkR ix HinR) as (B & _).
  rewrite A in B. discriminate.
Qed.

Definition rules_ok (m : rules_map) : Prop :=
  forall sl l ms r, In (sl, l) m -> In (ms, r) l -> rule_keys_nodup r.

Lemma rules_get_in : forall m k l, rules_get m k = Some l -> exists k', In (k', l) m.
Proof.
  induction m as [|[k' v] m IH]; intros k l H; cbn [rules_get] in H; [discriminate|].
  destruct (slot_eqb k' k).
  - injection H as <-. exists k'. left. reflexivity.
  - destruct (IH k l H) as (k2 & Hin). exists k2. right. exact Hin.
Qed.

Lemma find_rule_in : forall rs sig r, find_rule rs sig = Some r -> exists ms, In (ms, r) rs.
Proof.
  induction rs as [|[ms r0] rs IH]; intros sig r H; cbn [find_rule] in H; [discriminate|].
  destruct (rule_matches ms sig).
  - injection H as <-. exists ms. left. reflexivity.
  - destruct (IH sig r H) as (ms' & Hin). exists ms'. right. exact Hin.
Qed.

Lemma get_rule_ok p st sc sigf r :
  rules_ok (pv_rules p) -> get_rule p st sc sigf = Some r -> rule_keys_nodup r.
Proof.
  unfold get_rule. intros Hok H.
  destruct (rules_get (pv_rules p) (st, sc)) as [rs|] eqn:E; [|discriminate].
  apply rules_get_in in E. destruct E as (k' & Hin).
  apply find_rule_in in H. destruct H as (ms & Hin').
  exact (Hok _ _ _ _ Hin Hin').
Qed.

Lemma rules_push_ok k ms r : forall m,
  rules_ok m -> rule_keys_nodup r -> rules_ok (rules_push k (ms, r) m).
Proof.
  induction m as [|[k' vs] m IH]; intros Hok Hr; cbn [rules_push].
  - intros sl l ms0 r0 [Hin|[]] Hin'. injection Hin as <- <-.
    destruct Hin' as [Hin'|[]]. injection Hin' as <- <-. exact Hr.
  - destruct (slot_ltb k k').
    + intros sl l ms0 r0 [Hin|Hin] Hin'.
      * injection Hin as <- <-. destruct Hin' as [Hin'|[]]. injection Hin' as <- <-. exact Hr.
      * exact (Hok _ _ _ _ Hin Hin').
    + destruct (slot_eqb k k').
      * intros sl l ms0 r0 [Hin|Hin] Hin'.
        -- injection Hin as <- <-. apply in_app_or in Hin'. destruct Hin' as [Hin'|[Hin'|[]]].
           ++ exact (Hok k' vs ms0 r0 (or_introl eq_refl) Hin').
           ++ injection Hin' as <- <-. exact Hr.
        -- exact (Hok _ _ _ _ (or_intror Hin) Hin').
      * intros sl l ms0 r0 [Hin|Hin] Hin'.
        -- injection Hin as <- <-. exact (Hok k' vs ms0 r0 (or_introl eq_refl) Hin').
        -- apply (IH (fun sl l ms r A B => Hok sl l ms r (or_intror A) B) Hr _ _ _ _ Hin Hin').
Qed.

Ltac tr_step H :=
  match type of H with
  | obind ?x _ = Ok _ =>
      let E := fresh "E" in destruct x eqn:E; cbn [obind] in H; [discriminate|]
  | (match ?x with _ => _ end) = Ok _ => let E := fresh "E" in destruct x eqn:E
  end.

(** [try_rule] keeps the stored rules well formed and only hands out well
    formed rules.  (Nothing else about [try_rule] is used anywhere below: it
    takes the tape by shared reference, so the tape is not an output.) *)
Lemma try_rule_ok comp p cyc st t res p' :
  try_rule comp p cyc st t = Ok (res, p') -> rules_ok (pv_rules p) ->
  rules_ok (pv_rules p') /\ (forall r, res = Some (Got r) -> rule_keys_nodup r).
Proof.
  intros H Hok. unfold try_rule in H. cbv zeta in H.
  repeat tr_step H;
    try discriminate;
    injection H as <- <-;
    (split; [cbn [pv_rules set_rule]; try exact Hok|intros r0 Hr0; try discriminate]).
  - injection Hr0 as <-. eapply get_rule_ok; eassumption.
  - apply rules_push_ok; [exact Hok|]. eapply make_rule_keys_nodup. eassumption.
  - injection Hr0 as <-. eapply make_rule_keys_nodup. eassumption.
Qed.

(** at cycle 0 (fresh prover) [try_rule] gives no answer *)
Lemma try_rule_init comp :
  exists p', try_rule comp prover_new 0 0 (init_tape 0) = Ok (None, p').
Proof. eexists. reflexivity. Qed.

(** ------------------------------------------------------------------ *)
(** * facts about [apply_rule]                                          *)

Lemma apply_canon r t times t' :
  canon_tape t -> rule_keys_nodup r -> apply_rule t r = Ok (Some times, t') -> canon_tape t'.
Proof.
  intros Hc Hnd Hap.
  destruct (apply_no_zero_block r t times t' Hc Hnd Hap (N.to_nat times) (le_n _)) as (Hs & _ & Hcan).
  destruct (apply_facts _ _ _ _ Hnd Hap) as (Hplus & _).
  rewrite <- (shifted_unique r (N.to_nat times) t _ _ Hs (apply_shifted _ _ _ _ Hnd Hap) Hplus).
  exact Hcan.
Qed.

(** a successful application applies the rule at least once *)
Lemma apply_times_pos t r times t' : apply_rule t r = Ok (Some times, t') -> 1 <= times.
Proof.
  intros H. pose proof (apply_guard _ _ _ _ H) as Hg. apply apply_rule_inv in H.
  destruct H as [(_ & H & _)|(times' & pos & res & Hca & [(_ & H & _)|(l & _ & Ho & _)])];
    try discriminate.
  injection Ho as Ho. subst times'.
  destruct (count_apps_max _ _ _ _ _ Hca) as (_ & (d & c & Hin & Hd & Hgc & _ & Hmax)).
  destruct (Hg pos d Hin Hd) as (c' & Hgc' & Hlt). rewrite Hgc in Hgc'. injection Hgc' as <-.
  destruct (N.eq_dec times 0) as [E0|Hne]; [subst times; lia|lia].
Qed.

(** ------------------------------------------------------------------ *)
(** * one iteration of the loop of run_prover, by cases                 *)
Section Body.
Variable comp : comp_prog.

Lemma prover_step_inl s s' : prover_step comp s = inl s' ->
  quick_body comp (ps_q s) = inl (ps_q s') /\ ps_prover s' = ps_prover s /\
  ps_rulapp s' = ps_rulapp s /\ ps_apps s' = ps_apps s.
Proof.
  unfold prover_step. destruct (quick_body comp (ps_q s)) as [q'|[[[res cyc] ls] q']].
  - destruct (q_overflow q'); [discriminate|]. intros H. injection H as <-. repeat split.
  - destruct (q_overflow q'); discriminate.
Qed.

Lemma prover_step_inr s res cyc ls s' : prover_step comp s = inr (Ok (res, cyc, ls, s')) ->
  quick_body comp (ps_q s) = inr (res, cyc, ls, ps_q s') /\ ps_prover s' = ps_prover s /\
  ps_rulapp s' = ps_rulapp s /\ ps_apps s' = ps_apps s.
Proof.
  unfold prover_step. destruct (quick_body comp (ps_q s)) as [q'|[[[res0 cyc0] ls0] q']].
  - destruct (q_overflow q'); discriminate.
  - destruct (q_overflow q'); [discriminate|]. intros H. injection H as <- <- <- <-. repeat split.
Qed.

Definition try_rule_at (s : pstate) :=
  try_rule comp (ps_prover s) (q_cycle (ps_q s)) (q_state (ps_q s)) (q_tape (ps_q s)).

(** the loop continues: either a rule was applied (and recorded), or one
    cycle of the rule-free simulator was made *)
Lemma prover_body_inl s s' : prover_body comp s = inl s' ->
  exists res, try_rule_at s = Ok (res, ps_prover s') /\
  ((exists r times t', res = Some (Got r) /\
      apply_rule (q_tape (ps_q s)) r = Ok (Some times, t') /\
      ps_q s' = mkQ t' (q_state (ps_q s)) (q_steps (ps_q s)) (q_cycle (ps_q s) + 1) (q_blanks (ps_q s)) /\
      ps_rulapp s' = ps_rulapp s + times /\
      ps_apps s' = mkApp (q_cycle (ps_q s)) (q_state (ps_q s)) (q_tape (ps_q s)) r times t' :: ps_apps s)
   \/ (quick_body comp (ps_q s) = inl (ps_q s') /\ ps_rulapp s' = ps_rulapp s /\ ps_apps s' = ps_apps s)).
Proof.
  unfold prover_body, try_rule_at. cbv zeta.
  destruct (try_rule comp (ps_prover s) (q_cycle (ps_q s)) (q_state (ps_q s)) (q_tape (ps_q s)))
    as [|[res pv]] eqn:Etr; [discriminate|].
  destruct res as [[| | |r]|].
  - cbn [termres_of]. discriminate.
  - cbn [termres_of]. discriminate.
  - cbn [termres_of]. discriminate.
  - destruct (apply_rule (q_tape (ps_q s)) r) as [|[[times|] t']] eqn:Eap; [discriminate| |].
    + destruct (u64_max <? ps_rulapp s + times); [discriminate|]. intros H. injection H as <-.
      exists (Some (Got r)). cbn [ps_prover ps_q ps_rulapp ps_apps]. split; [reflexivity|].
      left. exists r, times, t'. repeat split. exact Eap.
    + intros H. apply prover_step_inl in H. cbn [ps_prover ps_q ps_rulapp ps_apps] in H.
      destruct H as (A & B & C & D). exists (Some (Got r)). rewrite B. split; [reflexivity|].
      right. repeat split; assumption.
  - intros H. apply prover_step_inl in H. cbn [ps_prover ps_q ps_rulapp ps_apps] in H.
    destruct H as (A & B & C & D). exists None. rewrite B. split; [reflexivity|].
    right. repeat split; assumption.
Qed.

(** the loop stops: through the rule-free simulator, or with a verdict of
    [try_rule] itself (never undfnd / spnout / xlimit, and with the current
    cycle number in the cycles field) *)
Lemma prover_body_inr s res cyc ls s' : prover_body comp s = inr (Ok (res, cyc, ls, s')) ->
  exists tr, try_rule_at s = Ok (tr, ps_prover s') /\
  ps_rulapp s' = ps_rulapp s /\ ps_apps s' = ps_apps s /\
  (quick_body comp (ps_q s) = inr (res, cyc, ls, ps_q s')
   \/ (ps_q s' = ps_q s /\ cyc = q_cycle (ps_q s) /\ ls = None /\
       (res = cfglim \/ res = infrul \/ res = mulrul) /\ tr <> None)).
Proof.
  unfold prover_body, try_rule_at. cbv zeta.
  destruct (try_rule comp (ps_prover s) (q_cycle (ps_q s)) (q_state (ps_q s)) (q_tape (ps_q s)))
    as [|[tr pv]] eqn:Etr; [discriminate|].
  assert (Hstep : prover_step comp (mkP (ps_q s) pv (ps_rulapp s) (ps_apps s)) = inr (Ok (res, cyc, ls, s')) ->
    exists tr0, Ok (tr, pv) = Ok (tr0, ps_prover s') /\
      ps_rulapp s' = ps_rulapp s /\ ps_apps s' = ps_apps s /\
      (quick_body comp (ps_q s) = inr (res, cyc, ls, ps_q s')
       \/ (ps_q s' = ps_q s /\ cyc = q_cycle (ps_q s) /\ ls = None /\
           (res = cfglim \/ res = infrul \/ res = mulrul) /\ tr0 <> None))).
  { intros H. apply prover_step_inr in H. cbn [ps_prover ps_q ps_rulapp ps_apps] in H.
    destruct H as (A & B & C & D). exists tr. rewrite B. split; [reflexivity|].
    split; [exact C|]. split; [exact D|]. left. exact A. }
  destruct tr as [[| | |r]|]; cbn [termres_of].
  - intros H. injection H as <- <- <- <-. exists (Some ConfigLimit).
    cbn [ps_prover ps_q ps_rulapp ps_apps]. repeat split; try reflexivity.
    right. repeat split; try reflexivity; [left; reflexivity|discriminate].
  - intros H. injection H as <- <- <- <-. exists (Some InfiniteRule).
    cbn [ps_prover ps_q ps_rulapp ps_apps]. repeat split; try reflexivity.
    right. repeat split; try reflexivity; [right; left; reflexivity|discriminate].
  - intros H. injection H as <- <- <- <-. exists (Some MultRule).
    cbn [ps_prover ps_q ps_rulapp ps_apps]. repeat split; try reflexivity.
    right. repeat split; try reflexivity; [right; right; reflexivity|discriminate].
  - destruct (apply_rule (q_tape (ps_q s)) r) as [|[[times|] t']] eqn:Eap; [discriminate| |].
    + destruct (u64_max <? ps_rulapp s + times); discriminate.
    + exact Hstep.
  - exact Hstep.
Qed.

Lemma quick_body_kind q res cyc ls q' : quick_body comp q = inr (res, cyc, ls, q') ->
  res = undfnd \/ res = spnout \/ (res = infrul /\ cyc = 0).
Proof.
  unfold quick_body. intros H.
  repeat match type of H with
         | context [match ?x with _ => _ end] => destruct x; try discriminate
         end; injection H as <- <- <- <-; auto.
Qed.

Lemma quick_body_cycle q q' : quick_body comp q = inl q' -> q_cycle q' = q_cycle q + 1.
Proof.
  unfold quick_body. intros H.
  repeat match type of H with
         | context [match ?x with _ => _ end] => destruct x; try discriminate
         end; injection H as <-; reflexivity.
Qed.

Lemma prover_cycle_count m s :
  iter_nat m (prover_body comp) prover_init = inl s -> q_cycle (ps_q s) = N.of_nat m.
Proof.
  apply (iter_inv_idx (prover_body comp) (fun k s => q_cycle (ps_q s) = N.of_nat k)); [reflexivity|].
  intros k s0 s1 IH Hb. apply prover_body_inl in Hb.
  destruct Hb as (res & _ & [(r & times & t' & _ & _ & Hq & _)|(Hq & _)]).
  - rewrite Hq. cbn [q_cycle]. lia.
  - rewrite (quick_body_cycle _ _ Hq). lia.
Qed.
End Body.

(** ------------------------------------------------------------------ *)
(** * a configuration that recurs (up to [tape_eq]) never halts         *)
Lemma tm_steps_prefix P a b c0 c2 :
  tm_steps P (a + b) c0 = Some c2 -> exists c1, tm_steps P a c0 = Some c1.
Proof. intros H. apply tm_steps_split in H. destruct H as (c1 & H & _). exists c1. exact H. Qed.

Lemma recur_never_halts P c0 q n1 n2 z1 z2 :
  (n1 < n2)%nat -> tm_steps P n1 c0 = Some (q, z1) -> tm_steps P n2 c0 = Some (q, z2) ->
  tape_eq z1 z2 -> never_halts P c0.
Proof.
  intros Hlt H1 H2 He.
  set (d := (n2 - n1)%nat).
  assert (Hd : tm_steps P d (q, z1) = Some (q, z2)).
  { replace n2 with (n1 + d)%nat in H2 by (unfold d; lia).
    rewrite tm_steps_plus, H1 in H2. exact H2. }
  assert (Hk : forall k, exists z, tm_steps P (k * d) (q, z1) = Some (q, z) /\ tape_eq z1 z).
  { induction k as [|k IH].
    - exists z1. split; [reflexivity|apply tape_eq_refl].
    - destruct IH as (z & Hrun & Hz).
      destruct (tm_steps_eq P d q z1 z q z2 Hz Hd) as (w & Hw & Hzw).
      exists w. split.
      + replace (S k * d)%nat with (k * d + d)%nat by lia. rewrite tm_steps_plus, Hrun. exact Hw.
      + eapply tape_eq_trans; [exact He|exact Hzw]. }
  intros n. destruct (Hk n) as (z & Hrun & _).
  assert (Hall : tm_steps P (n1 + n * d) c0 = Some (q, z)) by (rewrite tm_steps_plus, H1; exact Hrun).
  assert (Hd1 : (1 <= d)%nat) by (unfold d; lia).
  replace (n1 + n * d)%nat with (n + (n1 + n * d - n))%nat in Hall by nia.
  apply tm_steps_prefix in Hall. exact Hall.
Qed.

Lemma tape_blank_eq2 a b : tape_blank a -> tape_blank b -> tape_eq a b.
Proof.
  intros (A1 & A2 & A3) (B1 & B2 & B3). split; [|split].
  - intros i. rewrite (A1 i), (B1 i). reflexivity.
  - congruence.
  - intros i. rewrite (A3 i), (B3 i). reflexivity.
Qed.

Lemma blanks_insert_mem k v q : forall b,
  blanks_mem q (blanks_insert k v b) = true -> q = k \/ blanks_mem q b = true.
Proof.
  induction b as [|[k0 w] b IH]; cbn [blanks_insert blanks_mem].
  - rewrite orb_false_r. intros H. apply N.eqb_eq in H. left. symmetry. exact H.
  - destruct (k <? k0).
    + cbn [blanks_mem]. intros H. apply orb_prop in H as [H|H].
      * left. apply N.eqb_eq in H. symmetry. exact H.
      * right. exact H.
    + destruct (k =? k0) eqn:E.
      * cbn [blanks_mem]. intros H. apply orb_prop in H as [H|H].
        -- left. apply N.eqb_eq in H. symmetry. exact H.
        -- right. rewrite H. apply orb_true_r.
      * cbn [blanks_mem]. intros H. apply orb_prop in H as [H|H].
        -- right. rewrite H. reflexivity.
        -- destruct (IH H) as [A|A]; [left; exact A|right; rewrite A; apply orb_true_r].
Qed.

(** ------------------------------------------------------------------ *)
(** * the invariants of the run                                         *)

(** every applied rule is valid for one application on the family of the
    tape it was applied to: THE hypothesis of the conditional theorems *)
Definition apps_valid (P : prog) (apps : list rule_app) : Prop :=
  forall a, In a apps -> RuleValid P (app_state a) (app_rule a) (app_before a).

(** the weaker fact that the run theorems actually need: each recorded
    application is a run of the real machine from the configuration before it
    to the configuration after it.  It follows from [apps_valid]
    ([apps_valid_real], through [apply_sound]) and, application by
    application, from a [true] answer of the verified replay checker
    ([apps_replayed_real], through [replay_sound]): that is what the run-time
    check evaluates. *)
Definition app_real (P : prog) (a : rule_app) : Prop :=
  exists n z, tm_steps P n (app_state a, unroll_tape (app_before a)) = Some (app_state a, z) /\
              tape_eq z (unroll_tape (app_after a)).
Definition apps_real (P : prog) (apps : list rule_app) : Prop :=
  forall a, In a apps -> app_real P a.

(** the run-time check: replay every recorded application with the C01
    verified compressed simulator *)
Definition apps_replay_ok (comp : comp_prog) (fuel : N) (apps : list rule_app) : bool :=
  forallb (fun a => replay comp (app_state a) (app_before a) (app_state a) (app_after a) fuel) apps.

(** what is recorded is a successful [apply_rule] of a rule with distinct
    keys on a canonical tape *)
Definition app_ok (a : rule_app) : Prop :=
  apply_rule (app_before a) (app_rule a) = Ok (Some (app_times a), app_after a) /\
  canon_tape (app_before a) /\ rule_keys_nodup (app_rule a).

Section Inv.
Variable comp : comp_prog.
Notation P := (to_prog comp).

(** unconditional part *)
Definition SInv (s : pstate) : Prop :=
  rules_ok (pv_rules (ps_prover s)) /\ canon_tape (q_tape (ps_q s)) /\
  (forall a, In a (ps_apps s) -> app_ok a) /\
  ((ps_apps s = [] /\ ps_rulapp s = 0) \/ 1 <= ps_rulapp s).

(** every entry of the blank record stands for a REAL earlier time at which
    the machine was in that state on an all-blank tape.  (With rule
    applications the recorded step number is no longer the real time, so the
    invariant is existential.) *)
Definition blanks_real (n : nat) (b : list (state * N)) : Prop :=
  forall q, blanks_mem q b = true ->
    exists n' z', (n' <= n)%nat /\ tm_steps P n' init_config = Some (q, z') /\ tape_blank z'.

(** the compressed configuration is the real one at real time [n] *)
Definition real_at (q : qstate) (n : nat) (z : ztape) : Prop :=
  tm_steps P n init_config = Some (q_state q, z) /\ tape_eq z (unroll_tape (q_tape q)) /\
  blanks_real n (q_blanks q).

Definition RInv (s : pstate) : Prop := exists n z, real_at (ps_q s) n z.

Definition PInv (s : pstate) : Prop := SInv s /\ (apps_real P (ps_apps s) -> RInv s).

Lemma blanks_real_mono n n' b : (n <= n')%nat -> blanks_real n b -> blanks_real n' b.
Proof.
  intros Hle H q Hq. destruct (H q Hq) as (n0 & z0 & A & B & C).
  exists n0, z0. split; [lia|]. split; assumption.
Qed.

Lemma quick_canon q q' : canon_tape (q_tape q) -> quick_body comp q = inl q' -> canon_tape (q_tape q').
Proof.
  intros Hcan H. unfold quick_body in H.
  destruct (cp_get comp (q_state q, scan (q_tape q))) as [[[color sh] next]|]; [|discriminate].
  destruct ((q_state q =? next) && at_edge (q_tape q) sh); [discriminate|].
  pose proof (canon_step (q_tape q) sh color (q_state q =? next) Hcan) as Hc'.
  destruct (step (q_tape q) sh color (q_state q =? next)) as [t' stepped]. cbn [fst] in Hc'.
  cbv beta iota zeta in H.
  repeat match type of H with
         | context [if ?x then _ else _] => destruct x; try discriminate
         end; injection H as <-; exact Hc'.
Qed.

(** one cycle of the rule-free simulator from a real configuration *)
Lemma quick_inl_real q q' n z :
  canon_tape (q_tape q) -> real_at q n z -> quick_body comp q = inl q' ->
  exists n' z', (n < n')%nat /\ real_at q' n' z'.
Proof.
  intros Hcan (Hrun & Hz & Hbl) H. unfold quick_body in H.
  destruct (cp_get comp (q_state q, scan (q_tape q))) as [[[color sh] next]|] eqn:Eget; [|discriminate].
  destruct ((q_state q =? next) && at_edge (q_tape q) sh) eqn:Esp; [discriminate|].
  pose proof (canon_step (q_tape q) sh color (q_state q =? next) Hcan) as Hcan'.
  destruct (step (q_tape q) sh color (q_state q =? next)) as [t' stepped] eqn:Estep. cbn [fst] in Hcan'.
  destruct (cycle_tm comp (q_state q) (q_tape q) color sh next t' stepped z Hcan Hz Eget Estep)
    as (z1 & Hrun1 & Hz1 & Hk).
  assert (Hrun' : tm_steps P (n + N.to_nat stepped) init_config = Some (next, z1)).
  { rewrite tm_steps_plus, Hrun. exact Hrun1. }
  cbv beta iota zeta in H.
  exists (n + N.to_nat stepped)%nat, z1. split; [lia|].
  destruct ((color =? 0) && blank t') eqn:Ecb.
  - destruct (blanks_mem next (q_blanks q)) eqn:Emem; [discriminate|].
    destruct (next =? 0) eqn:En; [discriminate|]. injection H as <-.
    unfold real_at. cbn [q_tape q_state q_blanks].
    split; [exact Hrun'|]. split; [exact Hz1|].
    intros q0 Hq0. apply blanks_insert_mem in Hq0. destruct Hq0 as [->|Hq0].
    + exists (n + N.to_nat stepped)%nat, z1. split; [lia|]. split; [exact Hrun'|].
      apply andb_prop in Ecb as [_ Eb]. apply (blank_spec t' Hcan') in Eb.
      exact (tape_blank_eq _ _ (tape_eq_sym _ _ Hz1) Eb).
    + apply (blanks_real_mono n (n + N.to_nat stepped) (q_blanks q)); [lia|exact Hbl|exact Hq0].
  - injection H as <-. unfold real_at. cbn [q_tape q_state q_blanks].
    split; [exact Hrun'|]. split; [exact Hz1|]. apply (blanks_real_mono n); [lia|exact Hbl].
Qed.

(** the rule-free simulator stops from a real configuration: the final
    configuration is real, and the verdict is true *)
Lemma quick_inr_real q res cyc ls q' n z :
  canon_tape (q_tape q) -> real_at q n z -> quick_body comp q = inr (res, cyc, ls, q') ->
  exists n' z', (n <= n')%nat /\ tm_steps P n' init_config = Some (q_state q', z') /\
    tape_eq z' (unroll_tape (q_tape q')) /\
    ((res = undfnd /\ ls = Some (q_state q', zc z') /\ P (q_state q', zc z') = None) \/
     (res = spnout /\ spinout_cfg P (q_state q', z')) \/
     (res = infrul /\ cyc = 0 /\ never_halts P init_config)).
Proof.
  intros Hcan (Hrun & Hz & Hbl) H. unfold quick_body in H.
  assert (Hzc : zc z = scan (q_tape q)) by (destruct Hz as (_ & Hc & _); exact Hc).
  destruct (cp_get comp (q_state q, scan (q_tape q))) as [[[color sh] next]|] eqn:Eget.
  2:{ injection H as <- <- <- <-. exists n, z. split; [lia|]. split; [exact Hrun|]. split; [exact Hz|].
      left. rewrite Hzc. split; [reflexivity|]. split; [reflexivity|]. exact Eget. }
  destruct ((q_state q =? next) && at_edge (q_tape q) sh) eqn:Esp.
  { injection H as <- <- <- <-. exists n, z. split; [lia|]. split; [exact Hrun|]. split; [exact Hz|].
    right. left. split; [reflexivity|].
    apply andb_prop in Esp as [Es Ee]. apply N.eqb_eq in Es. subst next.
    apply (at_edge_spec (q_tape q) sh Hcan) in Ee. destruct Ee as [E0 Eb].
    assert (Hz0 : zc z = 0) by (destruct Hz as (_ & Hc & _); rewrite Hc; exact E0).
    split; [exact Hz0|]. exists color, sh. split.
    - cbn [unroll_tape zc] in E0. rewrite <- E0. exact Eget.
    - eapply all_blank_side_eq; [|exact Eb]. apply side_eq_sym. apply side_tape_eq. exact Hz. }
  pose proof (canon_step (q_tape q) sh color (q_state q =? next) Hcan) as Hcan'.
  destruct (step (q_tape q) sh color (q_state q =? next)) as [t' stepped] eqn:Estep. cbn [fst] in Hcan'.
  destruct (cycle_tm comp (q_state q) (q_tape q) color sh next t' stepped z Hcan Hz Eget Estep)
    as (z1 & Hrun1 & Hz1 & Hk).
  assert (Hrun' : tm_steps P (n + N.to_nat stepped) init_config = Some (next, z1)).
  { rewrite tm_steps_plus, Hrun. exact Hrun1. }
  cbv beta iota zeta in H.
  destruct ((color =? 0) && blank t') eqn:Ecb; [|discriminate].
  assert (Hb1 : tape_blank z1).
  { apply andb_prop in Ecb as [_ Eb]. apply (blank_spec t' Hcan') in Eb.
    exact (tape_blank_eq _ _ (tape_eq_sym _ _ Hz1) Eb). }
  destruct (blanks_mem next (q_blanks q)) eqn:Emem.
  - injection H as <- <- <- <-. cbn [q_state q_tape].
    exists (n + N.to_nat stepped)%nat, z1. split; [lia|]. split; [exact Hrun'|]. split; [exact Hz1|].
    right. right. split; [reflexivity|]. split; [reflexivity|].
    destruct (Hbl next Emem) as (n0 & z0 & Hn0 & Hrun0 & Hb0).
    apply (recur_never_halts P init_config next n0 (n + N.to_nat stepped) z0 z1);
      [lia|exact Hrun0|exact Hrun'|apply tape_blank_eq2; assumption].
  - destruct (next =? 0) eqn:En; [|discriminate]. apply N.eqb_eq in En.
    injection H as <- <- <- <-. cbn [q_state q_tape].
    exists (n + N.to_nat stepped)%nat, z1. split; [lia|]. split; [exact Hrun'|]. split; [exact Hz1|].
    right. right. split; [reflexivity|]. split; [reflexivity|]. subst next.
    apply (recur_never_halts P init_config 0 0 (n + N.to_nat stepped) blank_tape z1);
      [lia|reflexivity|exact Hrun'|].
    apply tape_blank_eq2; [|exact Hb1].
    split; [apply all_blank_nil|]. split; [reflexivity|apply all_blank_nil].
Qed.

(** a bulk application that is a real run, from a real configuration *)
Lemma app_step_real q t' n z :
  (exists k w, tm_steps P k (q_state q, unroll_tape (q_tape q)) = Some (q_state q, w) /\
               tape_eq w (unroll_tape t')) ->
  real_at q n z ->
  exists n' z', (n <= n')%nat /\
    real_at (mkQ t' (q_state q) (q_steps q) (q_cycle q + 1) (q_blanks q)) n' z'.
Proof.
  intros (k & w & Hrunk & Hw) (Hrun & Hz & Hbl).
  destruct (tm_steps_eq P k (q_state q) _ z (q_state q) w (tape_eq_sym _ _ Hz) Hrunk) as (w' & Hrunw & Hww).
  exists (n + k)%nat, w'. split; [lia|]. unfold real_at. cbn [q_state q_tape q_blanks].
  split; [rewrite tm_steps_plus, Hrun; exact Hrunw|].
  split; [eapply tape_eq_trans; [apply tape_eq_sym; exact Hww|exact Hw]|].
  apply (blanks_real_mono n); [lia|exact Hbl].
Qed.

Lemma PInv_init : PInv prover_init.
Proof.
  split.
  - split; [intros sl l ms r []|]. split; [apply canon_init|]. split; [intros a []|].
    left. split; reflexivity.
  - intros _. exists O, blank_tape. split; [reflexivity|]. split.
    + cbn [prover_init ps_q q_tape]. apply tape_eq_refl.
    + intros q Hq. discriminate.
Qed.

Lemma PInv_step s s' : PInv s -> prover_body comp s = inl s' -> PInv s'.
Proof.
  intros ((Hok & Hcan & Hwf & Hcnt) & Hreal) Hb. apply prover_body_inl in Hb.
  destruct Hb as (res & Htr & Hcase). unfold try_rule_at in Htr.
  destruct (try_rule_ok _ _ _ _ _ _ _ Htr Hok) as (Hok' & Hgot).
  destruct Hcase as [(r & times & t' & -> & Hap & Hq & Hra & Happs)|(Hq & Hra & Happs)].
  - pose proof (Hgot r eq_refl) as Hnd.
    split.
    + split; [exact Hok'|]. rewrite Hq, Happs, Hra. cbn [q_tape].
      split; [exact (apply_canon _ _ _ _ Hcan Hnd Hap)|]. split.
      * intros a [<-|Hin]; [|exact (Hwf a Hin)]. unfold app_ok. cbn [app_before app_rule app_times app_after].
        split; [exact Hap|]. split; assumption.
      * right. pose proof (apply_times_pos _ _ _ _ Hap). lia.
    + intros HV. rewrite Happs in HV.
      destruct (Hreal (fun a Hin => HV a (or_intror Hin))) as (n & z & Hr).
      pose proof (HV _ (or_introl eq_refl)) as HV0. unfold app_real in HV0.
      cbn [app_state app_before app_after] in HV0.
      destruct (app_step_real (ps_q s) t' n z HV0 Hr) as (n' & z' & _ & Hr').
      exists n', z'. rewrite Hq. exact Hr'.
  - split.
    + split; [exact Hok'|]. split; [exact (quick_canon _ _ Hcan Hq)|]. rewrite Happs, Hra.
      split; assumption.
    + intros HV. rewrite Happs in HV. destruct (Hreal HV) as (n & z & Hr).
      destruct (quick_inl_real _ _ n z Hcan Hr Hq) as (n' & z' & _ & Hr'). exists n', z'. exact Hr'.
Qed.

Lemma PInv_iter m s : iter_nat m (prover_body comp) prover_init = inl s -> PInv s.
Proof.
  apply (iter_inv_idx (prover_body comp) (fun _ s => PInv s)); [exact PInv_init|].
  intros k s0 s1 IH Hb. exact (PInv_step _ _ IH Hb).
Qed.
End Inv.

(** ------------------------------------------------------------------ *)
(** * the whole run                                                     *)
Section Run.
Variable comp : comp_prog.
Notation P := (to_prog comp).

Lemma finish_prover_ok s x r apps :
  finish_prover s x = Ok (r, apps) -> r = finish (ps_rulapp s) x /\ apps = rev (ps_apps s).
Proof.
  unfold finish_prover. cbv zeta. destruct (u64_max <? r_marks (finish (ps_rulapp s) x)); [discriminate|].
  intros H. injection H as <- <-. split; reflexivity.
Qed.

(** how a run that did not panic ended *)
Lemma trace_cases lim r apps : run_prover_trace comp lim = Ok (r, apps) ->
  (exists s, iter_nat (N.to_nat lim) (prover_body comp) prover_init = inl s /\
     r = finish (ps_rulapp s) (inl (ps_q s)) /\ apps = rev (ps_apps s)) \/
  (exists k s res cyc ls s', (k < N.to_nat lim)%nat /\
     iter_nat k (prover_body comp) prover_init = inl s /\
     prover_body comp s = inr (Ok (res, cyc, ls, s')) /\
     r = finish (ps_rulapp s') (inr (res, cyc, ls, ps_q s')) /\ apps = rev (ps_apps s')).
Proof.
  unfold run_prover_trace. rewrite for_upto_iter.
  destruct (iter_nat (N.to_nat lim) (prover_body comp) prover_init) as [s|[|[[[res cyc] ls] s']]] eqn:E;
    [| discriminate |]; intros H; apply finish_prover_ok in H; destruct H as [Hr Ha].
  - left. exists s. auto.
  - right. apply iter_exit in E. destruct E as (k & s & Hk & A & B).
    exists k, s, res, cyc, ls, s'. auto.
Qed.

Lemma in_rev_iff {A} (l : list A) x : In x (rev l) <-> In x l.
Proof. symmetry. apply in_rev. Qed.

Lemma apps_real_rev apps : apps_real P (rev apps) -> apps_real P apps.
Proof. intros H a Hin. apply H. apply (proj2 (in_rev_iff _ _)). exact Hin. Qed.

(** [apps_valid] gives [apps_real] (for well-formed records) *)
Lemma apps_valid_real apps :
  (forall a, In a apps -> app_ok a) -> apps_valid P apps -> apps_real P apps.
Proof.
  intros Hwf HV a Hin. destruct (Hwf a Hin) as (Hap & Hcan & Hnd).
  destruct (apply_sound P (app_state a) (app_rule a) (app_before a) (app_before a) (app_times a)
              (app_after a) (HV a Hin) Hcan (same_shape_refl _) (conj eq_refl eq_refl) Hnd Hap)
    as (n & z & _ & Hrun & Hz & _).
  exists n, z. split; assumption.
Qed.

(** the replay checker gives [apps_real] (for records with canonical tapes) *)
Lemma apps_replayed_real fuel apps :
  (forall a, In a apps -> app_ok a) -> apps_replay_ok comp fuel apps = true -> apps_real P apps.
Proof.
  intros Hwf Hrp a Hin. destruct (Hwf a Hin) as (_ & Hcan & _).
  unfold apps_replay_ok in Hrp. rewrite forallb_forall in Hrp. specialize (Hrp a Hin).
  destruct (replay_sound comp _ _ _ _ _ Hcan Hrp) as (k & z & _ & Hrun & Hz).
  exists k, z. split; assumption.
Qed.

(** the end state of a run that did not panic: the state the loop was left in
    (limit) or the state handed to the exit, with the invariant of the state
    before the exit *)
Lemma SInv_exit s res cyc ls s' :
  SInv s -> prover_body comp s = inr (Ok (res, cyc, ls, s')) ->
  (forall a, In a (ps_apps s') -> app_ok a) /\
  ((ps_apps s' = [] /\ ps_rulapp s' = 0) \/ 1 <= ps_rulapp s').
Proof.
  intros (_ & _ & Hwf & Hcnt) Hb. apply prover_body_inr in Hb.
  destruct Hb as (tr & _ & Hra & Happs & _). rewrite Happs, Hra. split; assumption.
Qed.

(** ---- C03: the recorded applications ---- *)
Theorem trace_apps_are_applications lim r apps :
  run_prover_trace comp lim = Ok (r, apps) ->
  forall a, In a apps ->
    apply_rule (app_before a) (app_rule a) = Ok (Some (app_times a), app_after a) /\
    canon_tape (app_before a) /\ rule_keys_nodup (app_rule a).
Proof.
  intros H a Hin. apply trace_cases in H.
  destruct H as [(s & Hit & _ & ->)|(k & s & res & cyc & ls & s' & _ & Hit & Hb & _ & ->)];
    apply (proj1 (in_rev_iff _ _)) in Hin.
  - destruct (PInv_iter comp _ _ Hit) as ((_ & _ & Hwf & _) & _). exact (Hwf a Hin).
  - destruct (PInv_iter comp _ _ Hit) as (HS & _).
    destruct (SInv_exit _ _ _ _ _ HS Hb) as (Hwf & _). exact (Hwf a Hin).
Qed.

Theorem trace_valid_apps_real lim r apps :
  run_prover_trace comp lim = Ok (r, apps) -> apps_valid P apps ->
  forall a, In a apps ->
    exists n z, (N.to_nat (app_times a) <= n)%nat /\
      tm_steps P n (app_state a, unroll_tape (app_before a)) = Some (app_state a, z) /\
      tape_eq z (unroll_tape (app_after a)) /\ canon_tape (app_after a) /\
      forall j c, (j <= n)%nat -> tm_steps P j (app_state a, unroll_tape (app_before a)) = Some c ->
        ~ spinout_cfg P c /\ ((j < n)%nat -> ~ halted_cfg P c).
Proof.
  intros H HV a Hin.
  destruct (trace_apps_are_applications lim r apps H a Hin) as (Hap & Hcan & Hnd).
  exact (apply_no_spinout P (app_state a) (app_rule a) (app_before a) (app_before a) (app_times a)
           (app_after a) (HV a Hin) Hcan (same_shape_refl _) (conj eq_refl eq_refl) Hnd Hap).
Qed.

(** the records of a run that did not panic are well formed *)
Lemma trace_apps_ok lim r apps :
  run_prover_trace comp lim = Ok (r, apps) -> forall a, In a apps -> app_ok a.
Proof. exact (trace_apps_are_applications lim r apps). Qed.

Theorem trace_valid_real lim r apps :
  run_prover_trace comp lim = Ok (r, apps) -> apps_valid P apps -> apps_real P apps.
Proof. intros H HV. exact (apps_valid_real apps (trace_apps_ok lim r apps H) HV). Qed.

Theorem trace_replayed_real lim r apps fuel :
  run_prover_trace comp lim = Ok (r, apps) -> apps_replay_ok comp fuel apps = true -> apps_real P apps.
Proof. intros H Hrp. exact (apps_replayed_real fuel apps (trace_apps_ok lim r apps H) Hrp). Qed.

(** ---- C02 (1): the configuration of the accelerated run is real ---- *)
Theorem reach_invariant_real m s :
  iter_nat m (prover_body comp) prover_init = inl s -> apps_real P (ps_apps s) ->
  exists n z, tm_steps P n init_config = Some (q_state (ps_q s), z) /\
    tape_eq z (unroll_tape (q_tape (ps_q s))) /\ canon_tape (q_tape (ps_q s)).
Proof.
  intros Hit HV. destruct (PInv_iter comp _ _ Hit) as ((_ & Hcan & _) & Hreal).
  destruct (Hreal HV) as (n & z & Hrun & Hz & _). exists n, z. auto.
Qed.

Theorem reach_invariant m s :
  iter_nat m (prover_body comp) prover_init = inl s -> apps_valid P (ps_apps s) ->
  exists n z, tm_steps P n init_config = Some (q_state (ps_q s), z) /\
    tape_eq z (unroll_tape (q_tape (ps_q s))) /\ canon_tape (q_tape (ps_q s)).
Proof.
  intros Hit HV. apply (reach_invariant_real m s Hit).
  destruct (PInv_iter comp _ _ Hit) as ((_ & _ & Hwf & _) & _). exact (apps_valid_real _ Hwf HV).
Qed.

(** the canonical-tape part holds without any hypothesis *)
Theorem prover_tape_canon m s :
  iter_nat m (prover_body comp) prover_init = inl s -> canon_tape (q_tape (ps_q s)).
Proof. intros Hit. destruct (PInv_iter comp _ _ Hit) as ((_ & Hcan & _) & _). exact Hcan. Qed.

(** what is known at the end of a run whose applications are all real *)
Lemma run_end lim r apps :
  run_prover_trace comp lim = Ok (r, apps) -> apps_real P apps ->
  exists n q z, tm_steps P n init_config = Some (q, z) /\ marks_of z = r_marks r /\
    (r_result r = undfnd -> r_last_slot r = Some (q, zc z) /\ P (q, zc z) = None) /\
    (r_result r = spnout -> spinout_cfg P (q, z)) /\
    (r_result r = infrul -> r_cycles r = 0 -> never_halts P init_config).
Proof.
  intros H HV. apply trace_cases in H.
  destruct H as [(s & Hit & -> & ->)|(k & s & res & cyc & ls & s' & Hk & Hit & Hb & -> & ->)];
    apply apps_real_rev in HV.
  - destruct (PInv_iter comp _ _ Hit) as (_ & Hreal). destruct (Hreal HV) as (n & z & Hrun & Hz & _).
    exists n, (q_state (ps_q s)), z. cbn [finish r_result r_marks r_last_slot r_cycles].
    split; [exact Hrun|]. split; [rewrite (marks_of_eq _ _ Hz); symmetry; apply marks_spec|].
    repeat split; intros; discriminate.
  - destruct (PInv_iter comp _ _ Hit) as ((_ & Hcan & _) & Hreal).
    pose proof (prover_cycle_count comp _ _ Hit) as Hcyc.
    apply prover_body_inr in Hb. destruct Hb as (tr & Htr & Hra & Happs & Hcase).
    rewrite Happs in HV. destruct (Hreal HV) as (n & z & Hr).
    cbn [finish r_result r_marks r_last_slot r_cycles].
    destruct Hcase as [Hq|(Hq & -> & -> & Hres & Htrn)].
    + destruct (quick_inr_real comp _ _ _ _ _ n z Hcan Hr Hq) as (n' & z' & _ & Hrun' & Hz' & Hv).
      exists n', (q_state (ps_q s')), z'. split; [exact Hrun'|].
      split; [rewrite (marks_of_eq _ _ Hz'); symmetry; apply marks_spec|].
      destruct Hv as [(-> & -> & HP)|[(-> & Hsp)|(-> & -> & Hnh)]].
      * split; [intros _; split; [reflexivity|exact HP]|]. split; intros; discriminate.
      * split; [intros; discriminate|]. split; [intros _; exact Hsp|intros; discriminate].
      * split; [intros; discriminate|]. split; [intros; discriminate|intros _ _; exact Hnh].
    + destruct Hr as (Hrun & Hz & _). rewrite Hq.
      exists n, (q_state (ps_q s)), z. split; [exact Hrun|].
      split; [rewrite (marks_of_eq _ _ Hz); symmetry; apply marks_spec|].
      split; [intros ->; destruct Hres as [|[|]]; discriminate|].
      split; [intros ->; destruct Hres as [|[|]]; discriminate|].
      (* an infrul verdict of try_rule with cycles = 0: impossible, try_rule is silent at cycle 0 *)
      intros _ Hc0. exfalso. rewrite Hcyc in Hc0.
      assert (k = O) by lia. subst k. cbn [iter_nat] in Hit. injection Hit as <-.
      destruct (try_rule_init comp) as (p' & Hinit).
      unfold try_rule_at in Htr. cbn [prover_init ps_prover ps_q q_cycle q_state q_tape] in Htr.
      rewrite Hinit in Htr. injection Htr as <- _. apply Htrn. reflexivity.
Qed.

(** ---- C02 (2): undfnd / spnout are true when every application was real ---- *)
Theorem outcome_sound_given_real lim r apps :
  run_prover_trace comp lim = Ok (r, apps) -> apps_real P apps ->
  (r_result r = undfnd ->
     exists n q z, tm_steps P n init_config = Some (q, z) /\ r_last_slot r = Some (q, zc z) /\
       halts_at P init_config n (q, zc z) /\ marks_of z = r_marks r) /\
  (r_result r = spnout ->
     exists n q z, tm_steps P n init_config = Some (q, z) /\ spinout_cfg P (q, z) /\
       spins_out_at P init_config n /\ marks_of z = r_marks r).
Proof.
  intros H HV. destruct (run_end lim r apps H HV) as (n & q & z & Hrun & Hm & Hu & Hs & _). split.
  - intros E. destruct (Hu E) as (Hls & HP). exists n, q, z. split; [exact Hrun|]. split; [exact Hls|].
    split; [|exact Hm]. exists q, z. auto.
  - intros E. exists n, q, z. split; [exact Hrun|]. split; [exact (Hs E)|]. split; [|exact Hm].
    exists (q, z). split; [exact Hrun|exact (Hs E)].
Qed.

(** ... in particular when every applied rule was valid *)
Theorem outcome_sound_given_rules lim r apps :
  run_prover_trace comp lim = Ok (r, apps) -> apps_valid P apps ->
  (r_result r = undfnd ->
     exists n q z, tm_steps P n init_config = Some (q, z) /\ r_last_slot r = Some (q, zc z) /\
       halts_at P init_config n (q, zc z) /\ marks_of z = r_marks r) /\
  (r_result r = spnout ->
     exists n q z, tm_steps P n init_config = Some (q, z) /\ spinout_cfg P (q, z) /\
       spins_out_at P init_config n /\ marks_of z = r_marks r).
Proof.
  intros H HV. exact (outcome_sound_given_real lim r apps H (trace_valid_real lim r apps H HV)).
Qed.

(** whatever the verdict, the reported number of marks is that of a tape the
    real machine reaches *)
Theorem marks_real_given_real lim r apps :
  run_prover_trace comp lim = Ok (r, apps) -> apps_real P apps ->
  exists n q z, tm_steps P n init_config = Some (q, z) /\ marks_of z = r_marks r.
Proof.
  intros H HV. destruct (run_end lim r apps H HV) as (n & q & z & Hrun & Hm & _). exists n, q, z. auto.
Qed.

Theorem marks_real_given_rules lim r apps :
  run_prover_trace comp lim = Ok (r, apps) -> apps_valid P apps ->
  exists n q z, tm_steps P n init_config = Some (q, z) /\ marks_of z = r_marks r.
Proof.
  intros H HV. exact (marks_real_given_real lim r apps H (trace_valid_real lim r apps H HV)).
Qed.

(** ---- C02 (3): the infrul verdict of the blank-tape bookkeeping ---- *)
Theorem blank_infrul_sound_real lim r apps :
  run_prover_trace comp lim = Ok (r, apps) -> apps_real P apps ->
  r_result r = infrul -> r_cycles r = 0 -> never_halts P init_config.
Proof.
  intros H HV E1 E2. destruct (run_end lim r apps H HV) as (n & q & z & _ & _ & _ & _ & Hi).
  exact (Hi E1 E2).
Qed.

Theorem blank_infrul_sound lim r apps :
  run_prover_trace comp lim = Ok (r, apps) -> apps_valid P apps ->
  r_result r = infrul -> r_cycles r = 0 -> never_halts P init_config.
Proof.
  intros H HV. exact (blank_infrul_sound_real lim r apps H (trace_valid_real lim r apps H HV)).
Qed.

(** ---- C02 (4): without rule applications the run is the rule-free run ---- *)
Lemma norule_sim m s :
  iter_nat m (prover_body comp) prover_init = inl s -> ps_apps s = [] ->
  iter_nat m (quick_body comp) q_init = inl (ps_q s) /\ ps_rulapp s = 0.
Proof.
  apply (iter_inv_idx (prover_body comp)
           (fun k s => ps_apps s = [] ->
              iter_nat k (quick_body comp) q_init = inl (ps_q s) /\ ps_rulapp s = 0)).
  - intros _. split; reflexivity.
  - intros k s0 s1 IH Hb Hnil. apply prover_body_inl in Hb.
    destruct Hb as (res & _ & [(r & times & t' & _ & _ & _ & _ & Happs)|(Hq & Hra & Happs)]).
    + rewrite Happs in Hnil. discriminate.
    + rewrite Happs in Hnil. destruct (IH Hnil) as (A & B). split; [|lia].
      rewrite iter_nat_snoc, A. exact Hq.
Qed.

Definition norule_verdict (r : mresult) : Prop :=
  r_result r = undfnd \/ r_result r = spnout \/ r_result r = xlimit \/
  (r_result r = infrul /\ r_cycles r = 0).

Theorem norule_exact_trace lim r :
  run_prover_trace comp lim = Ok (r, []) -> norule_verdict r -> r = run_quick comp lim.
Proof.
  intros H Hv. apply trace_cases in H. unfold run_quick. rewrite for_upto_iter. fold q_init.
  destruct H as [(s & Hit & -> & Ha)|(k & s & res & cyc & ls & s' & Hk & Hit & Hb & -> & Ha)].
  - assert (Hnil : ps_apps s = []).
    { apply (f_equal (@rev _)) in Ha. rewrite rev_involutive in Ha. symmetry. exact Ha. }
    destruct (norule_sim _ _ Hit Hnil) as (A & B). rewrite A, B. reflexivity.
  - assert (Hnil : ps_apps s' = []).
    { apply (f_equal (@rev _)) in Ha. rewrite rev_involutive in Ha. symmetry. exact Ha. }
    pose proof (prover_cycle_count comp _ _ Hit) as Hcyc.
    apply prover_body_inr in Hb. destruct Hb as (tr & Htr & Hra & Happs & Hcase).
    rewrite Happs in Hnil. destruct (norule_sim _ _ Hit Hnil) as (A & B).
    destruct Hcase as [Hq|(Hq & -> & -> & Hres & Htrn)].
    + assert (E : iter_nat (S k) (quick_body comp) q_init = inr (res, cyc, ls, ps_q s')).
      { rewrite iter_nat_snoc, A. exact Hq. }
      assert (Hle : (S k <= N.to_nat lim)%nat) by lia.
      rewrite (iter_nat_inr_mono _ (S k) (N.to_nat lim) _ _ E Hle). rewrite Hra, B. reflexivity.
    + exfalso. unfold norule_verdict in Hv. cbn [finish r_result r_cycles] in Hv.
      destruct Hv as [->|[->|[->|(-> & Hc0)]]]; try (destruct Hres as [|[|]]; discriminate).
      rewrite Hcyc in Hc0. assert (k = O) by lia. subst k. cbn [iter_nat] in Hit. injection Hit as <-.
      destruct (try_rule_init comp) as (p' & Hinit).
      unfold try_rule_at in Htr. cbn [prover_init ps_prover ps_q q_cycle q_state q_tape] in Htr.
      rewrite Hinit in Htr. injection Htr as <- _. apply Htrn. reflexivity.
Qed.

(** [rulapp = 0] means that no application was recorded *)
Lemma rulapp_zero_no_apps lim r apps :
  run_prover_trace comp lim = Ok (r, apps) -> r_rulapp r = 0 -> apps = [].
Proof.
  intros H H0. apply trace_cases in H.
  destruct H as [(s & Hit & -> & ->)|(k & s & res & cyc & ls & s' & _ & Hit & Hb & -> & ->)];
    cbn [finish r_rulapp] in H0.
  - destruct (PInv_iter comp _ _ Hit) as ((_ & _ & _ & [(-> & _)|Hge]) & _); [reflexivity|lia].
  - destruct (PInv_iter comp _ _ Hit) as (HS & _).
    destruct (SInv_exit _ _ _ _ _ HS Hb) as (_ & [(-> & _)|Hge]); [reflexivity|lia].
Qed.

Lemma run_prover_trace_of lim r :
  run_prover comp lim = Ok r -> exists apps, run_prover_trace comp lim = Ok (r, apps).
Proof.
  unfold run_prover. intros H. apply obind_ok in H. destruct H as ([r0 apps] & Ht & H).
  cbn [fst] in H. injection H as <-. exists apps. exact Ht.
Qed.

Theorem norule_exact lim r :
  run_prover comp lim = Ok r -> r_rulapp r = 0 -> norule_verdict r -> r = run_quick comp lim.
Proof.
  intros H H0 Hv. apply run_prover_trace_of in H. destruct H as (apps & Ht).
  pose proof (rulapp_zero_no_apps _ _ _ Ht H0) as ->. exact (norule_exact_trace lim r Ht Hv).
Qed.

(** ... and therefore (C01) the cell-by-cell reference *)
Theorem norule_eq_ref lim r :
  run_prover comp lim = Ok r -> r_rulapp r = 0 -> norule_verdict r ->
  (r_result r <> xlimit ->
     forall L, r_steps r < L ->
       let rr := ref_run P L in
       rr_result rr = r_result r /\ rr_steps rr = r_steps r /\ rr_marks rr = r_marks r /\
       rr_blanks rr = r_blanks r /\ rr_last_slot rr = r_last_slot r) /\
  (r_result r = xlimit ->
     let rr := ref_run P (r_steps r) in
       rr_result rr = xlimit /\ rr_steps rr = r_steps r /\ rr_marks rr = r_marks r /\
       rr_blanks rr = r_blanks r /\ rr_last_slot rr = r_last_slot r /\ lim <= r_steps r).
Proof.
  intros H H0 Hv. rewrite (norule_exact lim r H H0 Hv). exact (quick_eq_ref comp lim).
Qed.
End Run.

(** ---- C02 (5) / C15: a settled answer is kept for every larger limit ---- *)
Theorem prover_trace_mono comp n m x :
  run_prover_trace comp n = Ok x -> r_result (fst x) <> xlimit -> n <= m ->
  run_prover_trace comp m = Ok x.
Proof.
  unfold run_prover_trace. intros H Hx Hnm.
  destruct (for_upto n (prover_body comp) prover_init) as [s|[|[[[res cyc] ls] s]]] eqn:E.
  - exfalso. destruct x as [r apps]. apply finish_prover_ok in H. destruct H as (-> & _).
    apply Hx. reflexivity.
  - discriminate.
  - rewrite (for_upto_mono _ n m _ _ E Hnm). exact H.
Qed.

Theorem prover_mono comp n m r :
  run_prover comp n = Ok r -> r_result r <> xlimit -> n <= m -> run_prover comp m = Ok r.
Proof.
  unfold run_prover. intros H Hx Hnm. apply obind_ok in H. destruct H as (x & Ht & H).
  injection H as <-. rewrite (prover_trace_mono comp n m x Ht Hx Hnm). reflexivity.
Qed.

Print Assumptions make_rule_keys_nodup.
Print Assumptions trace_apps_are_applications.
Print Assumptions trace_valid_apps_real.
Print Assumptions reach_invariant.
Print Assumptions outcome_sound_given_rules.
Print Assumptions marks_real_given_rules.
Print Assumptions outcome_sound_given_real.
Print Assumptions trace_replayed_real.
Print Assumptions reach_invariant_real.
Print Assumptions blank_infrul_sound_real.
Print Assumptions blank_infrul_sound.
Print Assumptions norule_exact.
Print Assumptions norule_eq_ref.
Print Assumptions prover_mono.
