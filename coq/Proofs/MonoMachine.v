(** C15 for the two loops of machine.rs: an answer other than "limit" is
    kept for every larger limit. *)
From BB Require Import Base Ref TapeModel InstrsModel MachineModel Loops.

Theorem quick_mono comp n m :
  r_result (run_quick comp n) <> xlimit -> n <= m -> run_quick comp m = run_quick comp n.
Proof.
  unfold run_quick. intros H Hnm.
  destruct (for_upto n (quick_body comp) (mkQ (init_tape 0) 0 0 0 [])) as [s|r] eqn:E.
  - cbn in H. congruence.
  - rewrite (for_upto_mono _ _ _ _ _ E Hnm). reflexivity.
Qed.

Theorem rec_mono comp n m :
  quick_term_or_rec comp n <> RLimit -> n <= m -> quick_term_or_rec comp m = quick_term_or_rec comp n.
Proof.
  unfold quick_term_or_rec. intros H Hnm.
  destruct (for_upto (n - 1) (rec_body comp) _) as [s|r] eqn:E.
  - congruence.
  - rewrite (for_upto_mono _ _ _ _ _ E); [reflexivity|lia].
Qed.
