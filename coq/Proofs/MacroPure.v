(** C08/C09 (overlaps C16): the converter caches of a macro program hold the
    POSITIONAL value of every tape they know, so a computed instruction does
    not depend on the cache state — as far as the C08/C09 theorems need it.

    * machine arithmetic: [pow_u64], [t2c_fold] compute the mathematical
      values when those fit in a u64;
    * [cache_ok]: every cached pair (colour, tape) has colour = [encode] tape;
      it holds for a fresh object and is kept by [tape_to_color]. *)
From BB Require Import Base TM TMabs MacroSpec InstrsModel MacrosModel Loops MacroSim.
Open Scope N_scope.

(** ---- checked arithmetic ---- *)
Lemma chk_u64_ok n : n <= u64_max -> chk_u64 n = Ok n.
Proof. intro H. unfold chk_u64. apply N.leb_le in H. rewrite H. reflexivity. Qed.
Lemma chk_mul_ok a b : a * b <= u64_max -> chk_mul_u64 a b = Ok (a * b).
Proof. apply chk_u64_ok. Qed.
Lemma chk_add_ok a b : a + b <= u64_max -> chk_add_u64 a b = Ok (a + b).
Proof. apply chk_u64_ok. Qed.

Lemma pow_body_iter b : 1 <= b -> forall n acc,
  acc * b ^ N.of_nat n <= u64_max ->
  iter_nat n (pow_body b) acc = inl (acc * b ^ N.of_nat n).
Proof.
  intros Hb. induction n as [|n IH]; intros acc H.
  - cbn [iter_nat]. f_equal. cbn. lia.
  - replace (N.of_nat (S n)) with (N.succ (N.of_nat n)) in * by lia.
    rewrite N.pow_succ_r' in *. cbn [iter_nat]. unfold pow_body at 1.
    assert (Hp : 1 <= b ^ N.of_nat n) by (pose proof (N.pow_nonzero b (N.of_nat n) ltac:(lia)); lia).
    assert (Hle : acc * b <= u64_max) by nia.
    apply N.leb_le in Hle. rewrite Hle. rewrite IH by nia. f_equal. lia.
Qed.

Lemma pow_small_exp b e : 2 <= b -> b ^ e <= u64_max -> e < 64.
Proof.
  intros Hb H. destruct (N.lt_ge_cases e 64) as [L|G]; [exact L|exfalso].
  assert (H1 : 2 ^ 64 <= 2 ^ e) by (apply N.pow_le_mono_r; lia).
  assert (H2 : 2 ^ e <= b ^ e) by (apply N.pow_le_mono_l; lia).
  change (2 ^ 64) with 18446744073709551616 in H1. unfold u64_max in H. lia.
Qed.

Lemma pow_u64_ok b e : 1 <= b -> b ^ e <= u64_max -> pow_u64 b e = Ok (b ^ e).
Proof.
  intros Hb H. unfold pow_u64.
  destruct (N.eq_dec b 1) as [->|Hb1].
  - rewrite N.pow_1_l. destruct (e mod 4294967296 =? 0); reflexivity.
  - assert (He : e < 64) by (apply (pow_small_exp b); [lia|exact H]).
    rewrite (N.mod_small e 4294967296) by lia.
    destruct (N.eqb_spec e 0) as [->|He0]; [reflexivity|].
    destruct (N.eqb_spec b 0) as [Hz|_]; [lia|].
    destruct (N.eqb_spec b 1) as [Hz|_]; [contradiction|].
    rewrite for_upto_iter.
    rewrite (pow_body_iter b Hb (N.to_nat e) 1) by (rewrite N2Nat.id; lia).
    rewrite N2Nat.id. f_equal. lia.
Qed.

(** ---- the fold of [tape_to_color] is the positional value ---- *)
Lemma t2c_fold_ok C : 1 <= C -> forall r p acc,
  Forall (ltC C) r -> acc < C ^ p -> C ^ (p + N.of_nat (length r)) <= u64_max ->
  t2c_fold C r p acc = Ok (acc + encode C (rev r) * C ^ p).
Proof.
  intros HC. induction r as [|v r IH]; intros p acc Hr Hacc Hfit.
  - cbn [t2c_fold rev encode]. f_equal. lia.
  - inversion Hr as [|? ? Hv Hr']; subst. unfold ltC in Hv.
    cbn [length] in Hfit.
    replace (p + N.of_nat (S (length r))) with (N.succ p + N.of_nat (length r)) in Hfit by lia.
    assert (Hmono : C ^ N.succ p <= C ^ (N.succ p + N.of_nat (length r)))
      by (apply N.pow_le_mono_r; lia).
    rewrite N.pow_succ_r' in Hmono.
    cbn [t2c_fold rev]. rewrite encode_snoc.
    rewrite (pow_u64_ok C p HC) by nia. cbn [obind].
    rewrite chk_mul_ok by nia. cbn [obind].
    rewrite chk_add_ok by nia. cbn [obind].
    replace (p + 1) with (N.succ p) by lia.
    rewrite IH; [|exact Hr'|rewrite N.pow_succ_r'; nia|exact Hfit].
    f_equal. rewrite N.pow_succ_r'. lia.
Qed.

Lemma t2c_fold_encode C tp :
  1 <= C -> Forall (ltC C) tp -> C ^ N.of_nat (length tp) <= u64_max ->
  t2c_fold C (rev tp) 0 0 = Ok (encode C tp).
Proof.
  intros HC Ht Hfit.
  rewrite (t2c_fold_ok C HC (rev tp) 0 0).
  - rewrite rev_involutive. f_equal. cbn. lia.
  - apply Forall_rev. exact Ht.
  - cbn. lia.
  - rewrite rev_length. cbn [N.add]. exact Hfit.
Qed.

(** ---- the two caches ---- *)
Lemma mtape_cmp_eq a b : mtape_cmp a b = Eq <-> a = b.
Proof.
  revert b. induction a as [|x a IH]; intros [|y b]; cbn [mtape_cmp];
    try (split; [discriminate|discriminate]); [split; reflexivity|].
  destruct (N.compare_spec x y) as [E|L|G].
  - subst y. rewrite IH. split; [intros ->; reflexivity|intro H; injection H; auto].
  - split; [discriminate|]. intro H. injection H as -> _. lia.
  - split; [discriminate|]. intro H. injection H as -> _. lia.
Qed.

Lemma c2t_get_insert k v m q x :
  c2t_get (c2t_insert k v m) q = Some x -> (q = k /\ x = v) \/ c2t_get m q = Some x.
Proof.
  induction m as [|[k' v'] m IH]; cbn [c2t_insert c2t_get].
  - destruct (N.eqb_spec k q) as [->|_]; [|discriminate].
    intro H. injection H as <-. left. split; reflexivity.
  - destruct (k <? k').
    + cbn [c2t_get]. destruct (N.eqb_spec k q) as [->|_].
      * intro H. injection H as <-. left. split; reflexivity.
      * intro H. right. exact H.
    + destruct (N.eqb_spec k k') as [<-|Hne].
      * cbn [c2t_get]. destruct (N.eqb_spec k q) as [->|_].
        -- intro H. injection H as <-. left. split; reflexivity.
        -- intro H. right. exact H.
      * cbn [c2t_get]. destruct (k' =? q); [intro H; right; exact H|exact IH].
Qed.

Lemma c2t_get_insert_same k v m : c2t_get (c2t_insert k v m) k = Some v.
Proof.
  induction m as [|[k' v'] m IH]; cbn [c2t_insert c2t_get].
  - rewrite N.eqb_refl. reflexivity.
  - destruct (N.ltb_spec k k') as [L|G].
    + cbn [c2t_get]. rewrite N.eqb_refl. reflexivity.
    + destruct (N.eqb_spec k k') as [<-|Hne].
      * cbn [c2t_get]. rewrite N.eqb_refl. reflexivity.
      * cbn [c2t_get]. destruct (N.eqb_spec k' k) as [E|_]; [congruence|exact IH].
Qed.

Lemma c2t_get_insert_other k v m q : q <> k -> c2t_get (c2t_insert k v m) q = c2t_get m q.
Proof.
  intro Hq. induction m as [|[k' v'] m IH]; cbn [c2t_insert c2t_get].
  - destruct (N.eqb_spec k q) as [E|_]; [congruence|reflexivity].
  - destruct (k <? k').
    + cbn [c2t_get]. destruct (N.eqb_spec k q) as [E|_]; [congruence|reflexivity].
    + destruct (N.eqb_spec k k') as [<-|Hne].
      * cbn [c2t_get]. destruct (N.eqb_spec k q) as [E|_]; [congruence|reflexivity].
      * cbn [c2t_get]. destruct (k' =? q); [reflexivity|exact IH].
Qed.

Lemma t2c_get_insert k v m q x :
  t2c_get (t2c_insert k v m) q = Some x -> (q = k /\ x = v) \/ t2c_get m q = Some x.
Proof.
  induction m as [|[k' v'] m IH]; cbn [t2c_insert t2c_get].
  - destruct (mtape_cmp k q) eqn:E; try discriminate.
    apply mtape_cmp_eq in E. subst q. intro H. injection H as <-. left. split; reflexivity.
  - destruct (mtape_cmp k k') eqn:Ek.
    + apply mtape_cmp_eq in Ek. subst k'. cbn [t2c_get].
      destruct (mtape_cmp k q) eqn:E.
      * apply mtape_cmp_eq in E. subst q. intro H. injection H as <-. left. split; reflexivity.
      * intro H. right. exact H.
      * intro H. right. exact H.
    + cbn [t2c_get]. destruct (mtape_cmp k q) eqn:E.
      * apply mtape_cmp_eq in E. subst q. intro H. injection H as <-. left. split; reflexivity.
      * intro H. right. exact H.
      * intro H. right. exact H.
    + cbn [t2c_get]. destruct (mtape_cmp k' q); [intro H; right; exact H|exact IH|exact IH].
Qed.

(** the positional invariant of the converter: [k] = length of every cached
    tape, [C] = base colours *)
Definition cache_ok (k C : N) (m : mstate) : Prop :=
  (forall c tp, c2t_get (ms_c2t m) c = Some tp ->
     mt_len tp = k /\ Forall (ltC C) tp /\ encode C tp = c) /\
  (forall tp c, t2c_get (ms_t2c m) tp = Some c -> encode C tp = c) /\
  (forall tp c, t2c_get (ms_t2c m) tp = Some c -> c2t_get (ms_c2t m) c = Some tp).

Lemma encode_repeat0 C n : encode C (repeat 0 n) = 0.
Proof. induction n as [|n IH]; cbn [repeat encode]; [reflexivity|]. rewrite IH. lia. Qed.

Lemma cache_ok_new k C : 0 < C -> cache_ok k C (mstate_new k).
Proof.
  intro HC. split; [|split].
  - intros c tp. unfold mstate_new. cbn [ms_c2t c2t_get].
    destruct (N.eqb_spec 0 c) as [<-|_]; [|discriminate]. intro H. injection H as <-.
    split; [unfold mt_len; rewrite repeat_length; lia|]. split.
    + apply Forall_forall. intros x Hx. apply repeat_spec in Hx. subst x. exact HC.
    + apply encode_repeat0.
  - intros tp c. unfold mstate_new. cbn [ms_t2c t2c_get]. discriminate.
  - intros tp c. unfold mstate_new. cbn [ms_t2c t2c_get]. discriminate.
Qed.

(** [tape_to_color] on a tape of the right shape: the positional value, and
    the invariant is kept; afterwards the colour is in the cache. *)
Lemma tape_to_color_ok k C m tp :
  1 <= C -> C ^ k <= u64_max -> cache_ok k C m -> mt_len tp = k -> Forall (ltC C) tp ->
  exists m', tape_to_color C m tp = (Ok (encode C tp), m') /\ cache_ok k C m' /\
             ms_instrs m' = ms_instrs m /\
             (forall c x, c2t_get (ms_c2t m) c = Some x -> c2t_get (ms_c2t m') c = Some x) /\
             c2t_get (ms_c2t m') (encode C tp) = Some tp.
Proof.
  intros HC Hfit (H1 & H2 & H3) Hl Ht. unfold tape_to_color.
  destruct (t2c_get (ms_t2c m) tp) as [c|] eqn:Eg.
  - exists m. rewrite (H2 tp c Eg). split; [reflexivity|]. split; [split; [exact H1|split; [exact H2|exact H3]]|].
    split; [reflexivity|]. split; [intros c0 x Hx; exact Hx|].
    apply H3. exact Eg.
  - rewrite t2c_fold_encode; [|exact HC|exact Ht|unfold mt_len in Hl; rewrite Hl; exact Hfit].
    assert (Hmono : forall c x, c2t_get (ms_c2t m) c = Some x ->
                      c2t_get (c2t_insert (encode C tp) tp (ms_c2t m)) c = Some x).
    { intros c x Hx. destruct (N.eq_dec c (encode C tp)) as [->|Hne].
      - destruct (H1 _ _ Hx) as (Hlx & Htx & Hex).
        assert (x = tp).
        { apply (encode_inj C); [unfold mt_len in *; lia|assumption..]. }
        subst x. apply c2t_get_insert_same.
      - rewrite c2t_get_insert_other by exact Hne. exact Hx. }
    eexists. split; [reflexivity|]. cbn [ms_c2t ms_t2c ms_instrs]. split; [split; [|split]|].
    + intros c x Hx. apply c2t_get_insert in Hx. destruct Hx as [[-> ->]|Hx].
      * split; [exact Hl|]. split; [exact Ht|reflexivity].
      * apply H1. exact Hx.
    + intros x c Hx. apply t2c_get_insert in Hx. destruct Hx as [[-> ->]|Hx]; [reflexivity|].
      apply H2. exact Hx.
    + intros x c Hx. apply t2c_get_insert in Hx. destruct Hx as [[-> ->]|Hx].
      * apply c2t_get_insert_same.
      * apply Hmono. apply H3. exact Hx.
    + split; [reflexivity|]. split; [exact Hmono|apply c2t_get_insert_same].
Qed.

(** a cached colour decodes positionally *)
Lemma color_to_tape_decode k C m c tp :
  cache_ok k C m -> c2t_get (ms_c2t m) c = Some tp ->
  color_to_tape m c = Ok tp /\ tp = decode C (N.to_nat k) c.
Proof.
  intros (H1 & _) Hg. unfold color_to_tape. rewrite Hg. split; [reflexivity|].
  destruct (H1 c tp Hg) as (Hl & Ht & He). rewrite <- He.
  replace (N.to_nat k) with (length tp) by (unfold mt_len in Hl; lia).
  symmetry. apply enc_dec. exact Ht.
Qed.

(** ---- the instruction memo ---- *)
Lemma slot_eqb_eq (a b : slot) : slot_eqb a b = true <-> a = b.
Proof.
  unfold slot_eqb. rewrite andb_true_iff, !N.eqb_eq. destruct a, b. cbn [fst snd].
  split; [intros [-> ->]; reflexivity|intro H; injection H; auto].
Qed.

Lemma cp_get_insert k v p q x :
  cp_get (cp_insert k v p) q = Some x -> (q = k /\ x = v) \/ cp_get p q = Some x.
Proof.
  induction p as [|[k' v'] p IH]; cbn [cp_insert cp_get].
  - destruct (slot_eqb k q) eqn:E; [|discriminate].
    apply slot_eqb_eq in E. subst q. intro H. injection H as <-. left. split; reflexivity.
  - destruct (slot_ltb k k').
    + cbn [cp_get]. destruct (slot_eqb k q) eqn:E.
      * apply slot_eqb_eq in E. subst q. intro H. injection H as <-. left. split; reflexivity.
      * intro H. right. exact H.
    + destruct (slot_eqb k k') eqn:Ek.
      * apply slot_eqb_eq in Ek. subst k'. cbn [cp_get]. destruct (slot_eqb k q) eqn:E.
        -- apply slot_eqb_eq in E. subst q. intro H. injection H as <-. left. split; reflexivity.
        -- intro H. right. exact H.
      * cbn [cp_get]. destruct (slot_eqb k' q); [intro H; right; exact H|exact IH].
Qed.

Lemma cache_ok_memo k C m memo :
  cache_ok k C m -> cache_ok k C (mkMS (ms_c2t m) (ms_t2c m) memo).
Proof. intro H. exact H. Qed.

(** ---- running a macro machine by querying a stateful object ---- *)
Section ObjRun.
Variable get : mstate * unit -> slot -> outcome (option instr) * (mstate * unit).

Definition obj_step (mc : (mstate * unit) * config)
  : outcome (option ((mstate * unit) * config)) :=
  let '(mb, (q, z)) := mc in
  let '(r, mb') := get mb (q, zc z) in
  match r with
  | Panic => Panic
  | Ok None => Ok None
  | Ok (Some (pr, sh, q')) => Ok (Some (mb', (q', tm_move z sh pr)))
  end.

Fixpoint obj_steps (n : nat) (mc : (mstate * unit) * config)
  : outcome (option ((mstate * unit) * config)) :=
  match n with
  | O => Ok (Some mc)
  | S n' => match obj_step mc with
            | Ok (Some mc') => obj_steps n' mc'
            | Ok None => Ok None
            | Panic => Panic
            end
  end.
End ObjRun.

Print Assumptions tape_to_color_ok.
Print Assumptions cache_ok_new.
