(** C04, local soundness of the building blocks of the backward reasoner
    (model: Model/ReasonModel.v, code: /repo/src/reason.rs).

    The global statement "Refuted => the machine never reaches a target" is
    FALSE for the unchanged code (F1, F2: Proofs/ReasonFacts.v).  What is
    proved here is that every plain backward step is a sound
    over-approximation:

      - [span_conc]/[bs_conc]: which real half tapes / zipper tapes an abstract
        span / [backstepper] describes;
      - the pruning test never rejects a real predecessor
        ([bspan_matches_color_sound], first half of [backstep_exact]);
      - the abstract predecessor covers the real predecessor
        ([bspan_pull_sound], [bspan_push_sound], [backstep_exact]), PROVIDED
        the pulled side does not start with an indefinite block
        ([pulls_indef = false]: exactly the partition of reason.rs:255-257;
        [pull_indef_loses] shows the hypothesis is necessary);
      - the indefinite-sweep configuration built by [get_indef] covers the
        start of every k >= 1 sweep ([push_indef_sound], [indef_covers],
        [get_indef_covers], [indef_pred_covered]);
      - the initial abstract targets cover the real targets;
      - [check_spinout_spec] and the F1 example: [Some false] drops real
        predecessors although the sweep configuration would cover them. *)
From BB Require Import Base TM Ref InstrsModel TapeModel TapeCanon StepSim ReasonModel ReasonFacts.

(** ------------------------------------------------------------------ *)
(** * 1. Concretisation *)

(** [blocks_conc bs e l]: the half tape [l] (nearest cell first, implicit
    blanks beyond the list: cells are read with [cell]) is described by the
    blocks [bs] followed by the end [e].  A block [(c, n)], [n > 0], is
    exactly [n] cells of colour [c]; a block [(c, 0)] is [k >= 1] such cells
    for some [k]. *)
Fixpoint blocks_conc (bs : span) (e : tape_end) (l : list colour) : Prop :=
  match bs with
  | [] => match e with EndBlanks => all_blank l | EndUnknown => True end
  | b :: rest =>
      exists k : nat,
        (if snd b =? 0 then (1 <= k)%nat else k = N.to_nat (snd b)) /\
        (forall i, (i < k)%nat -> cell l i = fst b) /\
        blocks_conc rest e (skipn k l)
  end.

Definition span_conc (s : bspan) (l : list colour) : Prop :=
  blocks_conc (sp_blocks s) (sp_end s) l.

(** [bs_head] is bookkeeping for the recurrence test and plays no role. *)
Definition bs_conc (t : backstepper) (z : ztape) : Prop :=
  zc z = bs_scan t /\ span_conc (bs_lspan t) (zl z) /\ span_conc (bs_rspan t) (zr z).

(** small list facts *)
Lemma skipn_1_tl {A} (l : list A) : skipn 1 l = tl l.
Proof. destruct l; reflexivity. Qed.
Lemma skipn_tl {A} k (l : list A) : skipn k (tl l) = skipn (S k) l.
Proof. destruct l as [|x l]; [cbn [tl]; rewrite !skipn_nil; reflexivity|reflexivity]. Qed.
Lemma hd0_tl_side_eq l : side_eq (hd0 l :: tl l) l.
Proof. destruct l as [|x l]; intros [|i]; try reflexivity. cbn [hd0 tl]. rewrite cell_cons, !cell_nil. reflexivity. Qed.
Lemma all_blank_side_eq a b : side_eq a b -> all_blank a -> all_blank b.
Proof. intros H Ha i. rewrite <- H. apply Ha. Qed.
Lemma all_blank_tl l : all_blank l -> all_blank (tl l).
Proof. intros H i. rewrite cell_tl. apply H. Qed.
Lemma all_blank_cons0 l : all_blank l -> all_blank (0 :: l).
Proof. intros H [|i]; [reflexivity|]. rewrite cell_cons. apply H. Qed.
Lemma all_blank_cons_inv x l : all_blank (x :: l) -> x = 0 /\ all_blank l.
Proof. intros H. split; [exact (H 0%nat)|]. intro i. exact (H (S i)). Qed.
Lemma all_blank_hd_tl l : hd0 l = 0 -> all_blank (tl l) -> all_blank l.
Proof.
  intros H0 Ht. apply (all_blank_side_eq _ _ (hd0_tl_side_eq l)).
  rewrite H0. apply all_blank_cons0. exact Ht.
Qed.
Lemma eqb_1_0 : (1 =? 0) = false. Proof. reflexivity. Qed.
Lemma eqb_0_0 : (0 =? 0) = true. Proof. reflexivity. Qed.

(** the concretisation only looks at the tape through [cell] *)
Lemma blocks_conc_side_eq bs e : forall a b, side_eq a b -> blocks_conc bs e a -> blocks_conc bs e b.
Proof.
  induction bs as [|b0 rest IH]; intros a b Hab H; cbn [blocks_conc] in *.
  - destruct e; [eapply all_blank_side_eq; eauto|exact I].
  - destruct H as (k & Hk & Hc & Hr). exists k. split; [exact Hk|]. split.
    + intros i Hi. rewrite <- Hab. apply Hc. exact Hi.
    + eapply IH; [apply side_eq_skipn; exact Hab|exact Hr].
Qed.

Lemma span_conc_side_eq s a b : side_eq a b -> span_conc s a -> span_conc s b.
Proof. apply blocks_conc_side_eq. Qed.

Lemma bs_conc_tape_eq t a b : tape_eq a b -> bs_conc t a -> bs_conc t b.
Proof.
  intros (H1 & H2 & H3) (C1 & C2 & C3). repeat split.
  - rewrite <- H2. exact C1.
  - eapply span_conc_side_eq; eauto.
  - eapply span_conc_side_eq; eauto.
Qed.

(** ------------------------------------------------------------------ *)
(** * 2. The pruning test is sound: a real nearest cell of colour [c] is
      never rejected. *)
Lemma bspan_matches_color_sound s l c :
  span_conc s l -> cell l 0 = c -> bspan_matches_color s c = true.
Proof.
  unfold span_conc, bspan_matches_color.
  destruct (sp_blocks s) as [|b rest]; cbn [blocks_conc].
  - destruct (sp_end s); cbn [end_matches_color]; intros H E; [|reflexivity].
    apply N.eqb_eq. rewrite <- E. apply H.
  - intros (k & Hk & Hc & _) E. apply N.eqb_eq. rewrite <- E. symmetry. apply Hc.
    destruct (snd b =? 0) eqn:E0; [lia|]. apply N.eqb_neq in E0. lia.
Qed.

(** ------------------------------------------------------------------ *)
(** * 3. pull *)

(** "the nearest block is indefinite" — what [pulls_indef] tests *)
Definition span_indef_front (s : bspan) : bool :=
  match sp_blocks s with [] => false | b :: _ => snd b =? 0 end.

Lemma pulls_indef_front t sh :
  pulls_indef t sh = span_indef_front (if sh then bs_lspan t else bs_rspan t).
Proof. reflexivity. Qed.

(** Removing the nearest cell.  [Span::pull] (reason.rs:625-639) leaves an
    indefinite block untouched, so the lemma needs the front block to be
    definite (or absent). *)
Lemma bspan_pull_sound s l :
  span_indef_front s = false -> span_conc s l -> span_conc (bspan_pull s) (tl l).
Proof.
  unfold span_indef_front, span_conc, bspan_pull.
  destruct (sp_blocks s) as [|[c n] rest] eqn:Eb.
  - intros _ H. rewrite Eb. cbn [blocks_conc] in *.
    destruct (sp_end s); [apply all_blank_tl; exact H|exact I].
  - cbn [snd]. intros Hn. cbn [blocks_conc fst snd]. rewrite Hn.
    intros (k & Hk & Hc & Hr). subst k. apply N.eqb_neq in Hn.
    destruct (n =? 1) eqn:E1.
    + apply N.eqb_eq in E1. subst n. cbn [sp_blocks sp_end].
      change (N.to_nat 1) with 1%nat in Hr. rewrite skipn_1_tl in Hr. exact Hr.
    + apply N.eqb_neq in E1. cbn [sp_blocks sp_end blocks_conc fst snd].
      exists (N.to_nat (n - 1)). split; [|split].
      * destruct (n - 1 =? 0) eqn:E2; [apply N.eqb_eq in E2; lia|reflexivity].
      * intros i Hi. rewrite cell_tl. apply Hc. lia.
      * rewrite skipn_tl. replace (S (N.to_nat (n - 1))) with (N.to_nat n) by lia. exact Hr.
Qed.

(** What happens on an indefinite front block: the abstract span does not
    change, which covers the case "the real block had >= 2 cells" but LOSES
    the case "the real block had exactly one cell" (then the real rest is
    described by the remaining blocks). *)
Lemma bspan_pull_indef s l c rest :
  sp_blocks s = (c, 0) :: rest -> span_conc s l ->
  bspan_pull s = s /\
  (span_conc s (tl l) \/ span_conc (mkSpan rest (sp_end s)) (tl l)).
Proof.
  intros Eb H. split.
  - unfold bspan_pull. rewrite Eb. reflexivity.
  - unfold span_conc in *. rewrite Eb in *. cbn [sp_blocks sp_end blocks_conc fst snd] in *.
    rewrite eqb_0_0 in *. destruct H as (k & Hk & Hc & Hr).
    destruct k as [|[|k]]; [lia| |].
    + right. rewrite skipn_1_tl in Hr. exact Hr.
    + left. exists (S k). split; [lia|]. split.
      * intros i Hi. rewrite cell_tl. apply Hc. lia.
      * rewrite skipn_tl. exact Hr.
Qed.

(** the hypothesis of [bspan_pull_sound] is necessary: smallest witness *)
Example pull_indef_loses :
  let s := mkSpan [(1, 0)] EndBlanks in
  span_conc s [1] /\ ~ span_conc (bspan_pull s) (tl [1]).
Proof.
  cbn zeta. split.
  - unfold span_conc. cbn [sp_blocks sp_end blocks_conc fst snd]. rewrite eqb_0_0.
    exists 1%nat. split; [lia|]. split.
    + intros i Hi. assert (i = 0%nat) by lia. subst i. reflexivity.
    + intro i. cbn [skipn]. apply cell_nil.
  - change (bspan_pull (mkSpan [(1, 0)] EndBlanks)) with (mkSpan [(1, 0)] EndBlanks).
    unfold span_conc. cbn [sp_blocks sp_end blocks_conc fst snd tl]. rewrite eqb_0_0.
    intros (k & Hk & Hc & _). specialize (Hc 0%nat ltac:(lia)). rewrite cell_nil in Hc. discriminate.
Qed.

(** ------------------------------------------------------------------ *)
(** * 4. push *)
Lemma blocks_conc_push1 bs e l c :
  blocks_conc bs e l -> blocks_conc ((c, 1) :: bs) e (c :: l).
Proof.
  intro H. cbn [blocks_conc fst snd]. rewrite eqb_1_0. exists 1%nat.
  split; [reflexivity|]. split.
  - intros i Hi. assert (i = 0%nat) by lia. subst i. reflexivity.
  - exact H.
Qed.

Lemma bspan_push_sound s l c :
  span_conc s l -> span_conc (bspan_push s c 1) (c :: l).
Proof.
  unfold span_conc, bspan_push, bspan_push_block.
  destruct (sp_blocks s) as [|[c' n] rest] eqn:Eb.
  - destruct ((c =? 0) && tape_end_eqb (sp_end s) EndBlanks) eqn:E.
    + apply andb_prop in E as [E1 E2]. apply N.eqb_eq in E1. subst c.
      rewrite Eb. destruct (sp_end s); [|discriminate]. cbn [blocks_conc].
      apply all_blank_cons0.
    + cbn [sp_blocks sp_end]. apply blocks_conc_push1.
  - destruct ((c' =? c) && negb (n =? 0)) eqn:E.
    + apply andb_prop in E as [E1 E2]. apply N.eqb_eq in E1. subst c'.
      apply negb_true_iff in E2. cbn [sp_blocks sp_end blocks_conc fst snd]. rewrite E2.
      apply N.eqb_neq in E2.
      intros (k & Hk & Hc & Hr). subst k. exists (S (N.to_nat n)). split; [|split].
      * destruct (n + 1 =? 0) eqn:E3; [apply N.eqb_eq in E3; lia|lia].
      * intros [|i] Hi; [reflexivity|]. rewrite cell_cons. apply Hc. lia.
      * exact Hr.
    + cbn [sp_blocks sp_end]. apply blocks_conc_push1.
Qed.

(** ------------------------------------------------------------------ *)
(** * 5. One backward step *)

(** MAIN LOCAL THEOREM.  If the real machine steps from [(q,z)] to [(q',z')]
    with an instruction printing [pr] and moving [sh], and the abstract tape
    [t] covers [z'], then (a) the pruning test [check_step] passes, and (b)
    when the pulled side does not start with an indefinite block, the
    abstract predecessor covers [z].  (a) does not need the [pulls_indef]
    hypothesis. *)
Lemma check_step_sound z t pr sh :
  bs_conc t (tm_move z sh pr) -> check_step t sh pr = true.
Proof.
  intros (C1 & C2 & C3). unfold check_step. destruct sh; cbn [tm_move zl zc zr] in *.
  - eapply bspan_matches_color_sound; [exact C2|reflexivity].
  - eapply bspan_matches_color_sound; [exact C3|reflexivity].
Qed.

Lemma backstep_covers z t pr sh :
  bs_conc t (tm_move z sh pr) -> pulls_indef t sh = false ->
  bs_conc (backstep t sh (zc z)) z.
Proof.
  intros (C1 & C2 & C3) Hp. rewrite pulls_indef_front in Hp.
  unfold backstep. destruct sh; cbn [tm_move zl zc zr] in *;
    unfold bs_conc; cbn [bs_scan bs_lspan bs_rspan].
  - split; [reflexivity|]. split.
    + apply (bspan_pull_sound _ _ Hp) in C2. exact C2.
    + rewrite <- C1. eapply span_conc_side_eq; [apply hd0_tl_side_eq|].
      apply bspan_push_sound. exact C3.
  - split; [reflexivity|]. split.
    + rewrite <- C1. eapply span_conc_side_eq; [apply hd0_tl_side_eq|].
      apply bspan_push_sound. exact C2.
    + apply (bspan_pull_sound _ _ Hp) in C3. exact C3.
Qed.

Theorem backstep_exact : forall (P : prog) q z q' z' t pr sh,
  tm_step P (q, z) = Some (q', z') ->
  P (q, zc z) = Some (pr, sh, q') ->
  bs_conc t z' ->
  pulls_indef t sh = false ->
  check_step t sh pr = true /\ bs_conc (backstep t sh (zc z)) z.
Proof.
  intros P q z q' z' t pr sh Hs HP Hc Hp.
  unfold tm_step in Hs. rewrite HP in Hs. inversion Hs; subst z'.
  split; [eapply check_step_sound; exact Hc|apply (backstep_covers _ _ pr); assumption].
Qed.

(** ------------------------------------------------------------------ *)
(** * 6. Indefinite sweeps *)

(** [k] consecutive applications of the same-state instruction at slot
    [(q, c)], from [(q, z)] to [(q, z')]: every configuration passed through
    (including the first, excluding the last) is in state [q] scanning [c]. *)
Definition sweep_run (P : prog) (q : state) (c : colour) (k : nat) (z z' : ztape) : Prop :=
  tm_steps P k (q, z) = Some (q, z') /\
  forall j, (j < k)%nat -> exists zj, tm_steps P j (q, z) = Some (q, zj) /\ zc zj = c.

Lemma sweep_run_mv (P : prog) q c pr sh :
  P (q, c) = Some (pr, sh, q) ->
  forall k z z', sweep_run P q c k z z' ->
    z' = mv_n k sh pr z /\ forall j, (j < k)%nat -> zc (mv_n j sh pr z) = c.
Proof.
  intros HP. induction k as [|k IH]; intros z z' [Hr Hj].
  - cbn [tm_steps] in Hr. inversion Hr. split; [reflexivity|intros; lia].
  - destruct (Hj 0%nat ltac:(lia)) as (z0 & H0 & Hc0). cbn [tm_steps] in H0.
    inversion H0; subst z0.
    assert (Hs : tm_step P (q, z) = Some (q, tm_move z sh pr)).
    { unfold tm_step. rewrite Hc0, HP. reflexivity. }
    cbn [tm_steps] in Hr. rewrite Hs in Hr.
    destruct (IH (tm_move z sh pr) z') as [E1 E2].
    { split; [exact Hr|]. intros j Hjk. destruct (Hj (S j) ltac:(lia)) as (zj & Hzj & Hcj).
      cbn [tm_steps] in Hzj. rewrite Hs in Hzj. exists zj. split; assumption. }
    split; [cbn [mv_n]; exact E1|].
    intros [|j] Hjk; [exact Hc0|]. cbn [mv_n]. apply E2. lia.
Qed.

(** converse: a sweep on the tape is a run of the machine *)
Lemma mv_sweep_run (P : prog) q c pr sh :
  P (q, c) = Some (pr, sh, q) ->
  forall k z, (forall j, (j < k)%nat -> zc (mv_n j sh pr z) = c) ->
    sweep_run P q c k z (mv_n k sh pr z).
Proof.
  intros HP. induction k as [|k IH]; intros z Hj.
  - split; [reflexivity|intros; lia].
  - assert (H0 : zc z = c) by (apply (Hj 0%nat); lia).
    assert (Hs : tm_step P (q, z) = Some (q, tm_move z sh pr)).
    { unfold tm_step. rewrite H0, HP. reflexivity. }
    destruct (IH (tm_move z sh pr)) as [R1 R2].
    { intros j Hjk. apply (Hj (S j)). lia. }
    split.
    + cbn [tm_steps mv_n]. rewrite Hs. exact R1.
    + intros [|j] Hjk.
      * exists z. split; [reflexivity|exact H0].
      * destruct (R2 j ltac:(lia)) as (zj & Hzj & Hcj). exists zj.
        cbn [tm_steps]. rewrite Hs. split; assumption.
Qed.

(** Tape-level lemma: [t] covers the tape after a sweep of [k >= 1] cells in
    direction [sh] during which every scanned cell had the colour [bs_scan t],
    and the pulled side of [t] has no blocks (what [check_spinout] demands
    before it answers [Some _]); then [push_indef t sh] covers the tape before
    the sweep. *)
Lemma push_indef_sound t sh pr k z :
  (1 <= k)%nat ->
  bs_conc t (mv_n k sh pr z) ->
  (forall j, (j < k)%nat -> zc (mv_n j sh pr z) = bs_scan t) ->
  sp_blocks (if sh then bs_lspan t else bs_rspan t) = [] ->
  bs_conc (push_indef t sh) z.
Proof.
  intros Hk (C1 & C2 & C3) Hj Hb. unfold bs_conc, push_indef.
  destruct sh; cbn [bs_scan bs_lspan bs_rspan].
  - destruct (mv_n_R k pr z) as (M1 & M2 & M3). rewrite M1 in C2. rewrite M2 in C3.
    split; [apply (Hj 0%nat); lia|]. split.
    + unfold span_conc in *. rewrite Hb in *. cbn [blocks_conc] in *.
      destruct (sp_end (bs_lspan t)); [|exact I].
      intro i. rewrite <- (C2 (k + i)%nat). symmetry. apply cell_repeat_app_ge.
    + unfold span_conc, bspan_push_block. cbn [sp_blocks sp_end blocks_conc fst snd].
      rewrite eqb_0_0. exists k. split; [exact Hk|]. split; [|exact C3].
      intros i Hi. destruct (Nat.eq_dec (S i) k) as [E|E].
      * rewrite <- (M3 i (eq_sym E)). exact C1.
      * specialize (Hj (S i) ltac:(lia)).
        destruct (mv_n_R (S i) pr z) as (_ & _ & M3'). rewrite (M3' i eq_refl) in Hj. exact Hj.
  - destruct (mv_n_L k pr z) as (M1 & M2 & M3). rewrite M2 in C2. rewrite M1 in C3.
    split; [apply (Hj 0%nat); lia|]. split.
    + unfold span_conc, bspan_push_block. cbn [sp_blocks sp_end blocks_conc fst snd].
      rewrite eqb_0_0. exists k. split; [exact Hk|]. split; [|exact C2].
      intros i Hi. destruct (Nat.eq_dec (S i) k) as [E|E].
      * rewrite <- (M3 i (eq_sym E)). exact C1.
      * specialize (Hj (S i) ltac:(lia)).
        destruct (mv_n_L (S i) pr z) as (_ & _ & M3'). rewrite (M3' i eq_refl) in Hj. exact Hj.
    + unfold span_conc in *. rewrite Hb in *. cbn [blocks_conc] in *.
      destruct (sp_end (bs_rspan t)); [|exact I].
      intro i. rewrite <- (C3 (k + i)%nat). symmetry. apply cell_repeat_app_ge.
Qed.

(** ------------------------------------------------------------------ *)
(** * 8 (first half, needed below). What [check_spinout] tests *)
Lemma check_spinout_spec t sh read b :
  check_spinout t sh read = Some b <->
  let pull := if sh then bs_lspan t else bs_rspan t in
  let push := if sh then bs_rspan t else bs_lspan t in
  bs_scan t = read /\ sp_blocks pull = [] /\
  (sp_end pull = EndBlanks \/ sp_blocks push <> []) /\
  b = negb (bspan_matches_color push (bs_scan t)).
Proof.
  unfold check_spinout. cbn zeta.
  destruct (bs_scan t =? read) eqn:Es; cbn [negb].
  2:{ apply N.eqb_neq in Es. split; [discriminate|]. intros (H & _). contradiction. }
  apply N.eqb_eq in Es.
  set (pull := if sh then bs_lspan t else bs_rspan t).
  set (push := if sh then bs_rspan t else bs_lspan t).
  assert (E : (if sh then (bs_lspan t, bs_rspan t) else (bs_rspan t, bs_lspan t)) = (pull, push))
    by (subst pull push; destruct sh; reflexivity).
  rewrite E. clear E.
  destruct (sp_blocks pull) as [|pb prest] eqn:Ep.
  2:{ split; [discriminate|]. intros (_ & H & _). discriminate. }
  destruct (sp_end pull) eqn:Ee; cbn [tape_end_eqb orb].
  - split.
    + intro H. inversion H. repeat split; auto.
    + intros (_ & _ & _ & H). subst b. reflexivity.
  - destruct (sp_blocks push) as [|qb qrest] eqn:Eq.
    + split; [discriminate|]. intros (_ & _ & [H|H] & _); [discriminate|contradiction].
    + split.
      * intro H. inversion H. repeat split; auto. right. discriminate.
      * intros (_ & _ & _ & H). subst b. reflexivity.
Qed.

(** whenever [check_spinout] answers, the plain step would have been a sound
    step too (the pulled side has no blocks at all) *)
Lemma check_spinout_not_pulls_indef t sh read b :
  check_spinout t sh read = Some b -> pulls_indef t sh = false.
Proof.
  intro H. apply check_spinout_spec in H. cbn zeta in H. destruct H as (_ & Hb & _).
  unfold pulls_indef. rewrite Hb. reflexivity.
Qed.

(** ------------------------------------------------------------------ *)
(** * 6 continued: the configuration of [get_indef] covers every sweep *)

(** k-step covering theorem.  [b] is arbitrary: the configuration
    [push_indef t sh] covers the start of every sweep whether
    [check_spinout] says [Some true] (the code builds it: reason.rs:179) or
    [Some false] (the code builds nothing and drops the predecessor: F1). *)
Theorem indef_covers (P : prog) q c pr sh k z z' t b :
  P (q, c) = Some (pr, sh, q) ->
  (1 <= k)%nat ->
  sweep_run P q c k z z' ->
  bs_conc t z' ->
  check_spinout t sh c = Some b ->
  bs_conc (push_indef t sh) z.
Proof.
  intros HP Hk Hsw Hc Hcs.
  destruct (sweep_run_mv P q c pr sh HP k z z' Hsw) as [E Hj]. subst z'.
  apply check_spinout_spec in Hcs. cbn zeta in Hcs. destruct Hcs as (Hs & Hb & _ & _).
  apply (push_indef_sound t sh pr k z Hk Hc); [|exact Hb].
  intros j Hjk. rewrite Hs. apply Hj. exact Hjk.
Qed.

(** membership in the two filtering loops of [get_indef] *)
Definition indef_excluded (cfg : bw_config) (push : shift) (e : bw_entry) : bool :=
  (fst (fst e) =? c_state cfg) && Bool.eqb (snd (snd e)) push
  && (bs_scan (c_tape cfg) =? snd (fst e)).

Definition entry_instr (e : bw_entry) : instr := (snd (fst e), snd (snd e), fst (fst e)).

Lemma indef_filter_In cfg push e : forall es acc,
  In e acc \/ (In e es /\ indef_excluded cfg push e = false) ->
  In e (indef_filter cfg push es acc).
Proof.
  unfold indef_filter.
  induction es as [|a es IH]; intros acc H; cbn [fold_left].
  - destruct H as [H|[[] _]]. exact H.
  - apply IH. destruct a as [[st co] [pr sh]].
    destruct H as [H|[[H|H] Hx]].
    + left. destruct (_ && _ && _); [exact H|apply in_or_app; left; exact H].
    + left. subst e. unfold indef_excluded in Hx. cbn [fst snd] in Hx. rewrite Hx.
      apply in_or_app. right. left. reflexivity.
    + right. split; assumption.
Qed.

Lemma checked_steps_In tp e : forall es steps,
  In (entry_instr e) steps \/
  (In e es /\ check_step tp (snd (snd e)) (fst (snd e)) = true) ->
  In (entry_instr e) (checked_steps tp es steps).
Proof.
  unfold checked_steps.
  induction es as [|a es IH]; intros steps H; cbn [fold_left].
  - destruct H as [H|[[] _]]. exact H.
  - apply IH. destruct a as [[st co] [pr sh]].
    destruct H as [H|[[H|H] Hx]].
    + left. destruct (negb _); [exact H|apply in_or_app; left; exact H].
    + left. subst e. cbn [fst snd] in Hx. rewrite Hx. cbn [negb].
      apply in_or_app. right. left. reflexivity.
    + right. split; assumption.
Qed.

(** [get_indef] keeps every entry other than the sweeping instruction itself
    that passes [check_step] on the sweep configuration *)
Lemma get_indef_covers push cfg diff same e :
  In e diff \/ In e same ->
  indef_excluded cfg push e = false ->
  check_step (push_indef (c_tape cfg) push) (snd (snd e)) (fst (snd e)) = true ->
  exists steps,
    get_indef push cfg diff same
      = Some (steps, bw_config_new (c_state cfg) (push_indef (c_tape cfg) push)) /\
    In (entry_instr e) steps.
Proof.
  intros Hin Hx Hck. unfold get_indef.
  assert (H1 : In e (indef_filter cfg push same (indef_filter cfg push diff []))).
  { destruct Hin as [Hin|Hin].
    - apply indef_filter_In. left. apply indef_filter_In. right. split; assumption.
    - apply indef_filter_In. right. split; assumption. }
  destruct (indef_filter cfg push same (indef_filter cfg push diff [])) as [|e0 es0] eqn:Ef;
    [destruct H1|].
  assert (H2 : In (entry_instr e) (checked_steps (push_indef (c_tape cfg) push) (e0 :: es0) [])).
  { apply checked_steps_In. right. split; assumption. }
  destruct (checked_steps (push_indef (c_tape cfg) push) (e0 :: es0) []) as [|i0 is0] eqn:Ec;
    [destruct H2|].
  exists (i0 :: is0). split; [reflexivity|exact H2].
Qed.

(** Putting 5 and 6 together: the real run
      (q0, z0) --[I0 = (q0,c0) -> (pr0, sh0, q)]--> (q, z) --[I^k, k >= 1]--> (q, z')
    with I0 another slot than I = (q,c) -> (pr,sh,q), [cfg] covering [z'] and
    [check_spinout] answering [Some b]: the sweep configuration has the step
    [(c0, sh0, q0)], and backstepping it covers [z0]. *)
Theorem indef_pred_covered (P : prog) q c pr sh k z z' q0 z0 pr0 sh0 cfg diff same b :
  P (q, c) = Some (pr, sh, q) ->
  (1 <= k)%nat -> sweep_run P q c k z z' ->
  c_state cfg = q -> bs_conc (c_tape cfg) z' ->
  check_spinout (c_tape cfg) sh c = Some b ->
  tm_step P (q0, z0) = Some (q, z) ->
  P (q0, zc z0) = Some (pr0, sh0, q) ->
  (q0, zc z0) <> (q, c) ->
  In ((q0, zc z0), (pr0, sh0)) diff \/ In ((q0, zc z0), (pr0, sh0)) same ->
  let tp := push_indef (c_tape cfg) sh in
  (exists steps, get_indef sh cfg diff same = Some (steps, bw_config_new q tp) /\
                 In (zc z0, sh0, q0) steps) /\
  (pulls_indef tp sh0 = false -> bs_conc (backstep tp sh0 (zc z0)) z0).
Proof.
  intros HP Hk Hsw Hq Hc Hcs Hs0 HP0 Hne Hin tp.
  assert (Hz : bs_conc tp z) by (eapply indef_covers; eauto).
  assert (Hck : check_step tp sh0 pr0 = true).
  { unfold tm_step in Hs0. rewrite HP0 in Hs0. inversion Hs0; subst z.
    eapply check_step_sound. exact Hz. }
  split.
  - destruct (get_indef_covers sh cfg diff same ((q0, zc z0), (pr0, sh0)) Hin) as (steps & G1 & G2).
    + unfold indef_excluded. cbn [fst snd]. rewrite Hq.
      apply check_spinout_spec in Hcs. cbn zeta in Hcs. destruct Hcs as (Hsc & _).
      destruct (q0 =? q) eqn:E1; [|reflexivity].
      destruct (bs_scan (c_tape cfg) =? zc z0) eqn:E2; [|apply andb_false_r].
      apply N.eqb_eq in E1, E2. exfalso. apply Hne. congruence.
    + exact Hck.
    + exists steps. rewrite Hq in G1. split; [exact G1|exact G2].
  - intro Hp. eapply backstep_exact; eauto.
Qed.

(** ------------------------------------------------------------------ *)
(** * 7. The initial abstract configurations cover the real targets *)
Lemma halt_target_covered (P : prog) q z :
  P (q, zc z) = None -> bs_conc (bs_init_halt (zc z)) z.
Proof. intros _. repeat split. Qed.

(** before the erasing step: reads [zc z] (non-zero in [erases_at]; not
    needed here), prints 0, and the tape is all blank afterwards *)
Lemma blank_target_covered (P : prog) q z sh q' :
  P (q, zc z) = Some (0, sh, q') -> tape_blank (tm_move z sh 0) ->
  bs_conc (bs_init_blank (zc z)) z.
Proof.
  intros _ (B1 & B2 & B3). unfold bs_conc, bs_init_blank, span_conc.
  cbn [bs_scan bs_lspan bs_rspan sp_blocks sp_end blocks_conc].
  split; [reflexivity|]. destruct sh; cbn [tm_move zl zc zr] in *.
  - split; [apply all_blank_cons_inv in B1; apply B1|apply all_blank_hd_tl; assumption].
  - split; [apply all_blank_hd_tl; assumption|apply all_blank_cons_inv in B3; apply B3].
Qed.

Lemma spinout_target_covered_dir z d :
  zc z = 0 -> all_blank (side d z) -> bs_conc (bs_init_spinout d) z.
Proof.
  intros H0 Hb. unfold bs_conc, bs_init_spinout, span_conc.
  destruct d; cbn [side bs_scan bs_lspan bs_rspan sp_blocks sp_end blocks_conc] in *;
    repeat split; assumption.
Qed.

Lemma spinout_target_covered (P : prog) q z :
  spinout_cfg P (q, z) ->
  exists pr d, P (q, 0) = Some (pr, d, q) /\ bs_conc (bs_init_spinout d) z.
Proof.
  intros (H0 & pr & d & HP & Hb). exists pr, d. split; [exact HP|].
  apply spinout_target_covered_dir; assumption.
Qed.

(** the target lists of the reasoner contain these configurations
    (for [halt_configs] this is where F2 lives, so it is not stated) *)
Lemma cp_get_In (comp : comp_prog) k v : cp_get comp k = Some v -> In (k, v) comp.
Proof.
  induction comp as [|[k' v'] comp IH]; cbn [cp_get]; [discriminate|].
  destruct (slot_eqb k' k) eqn:E.
  - intro H. inversion H; subst v'. left. unfold slot_eqb in E.
    apply andb_prop in E as [E1 E2]. apply N.eqb_eq in E1, E2.
    destruct k', k. cbn [fst snd] in *. subst. reflexivity.
  - intro H. right. apply IH. exact H.
Qed.

Lemma erase_configs_complete comp q c sh q' :
  to_prog comp (q, c) = Some (0, sh, q') -> c <> 0 ->
  In (bw_config_init_blank q c) (erase_configs comp).
Proof.
  intros H Hc. apply cp_get_In in H. unfold erase_configs.
  apply (in_map (fun sl : slot => bw_config_init_blank (fst sl) (snd sl)) _ (q, c)).
  unfold erase_slots. apply in_flat_map. eexists. split; [exact H|].
  cbn beta iota. rewrite eqb_0_0. apply N.eqb_neq in Hc. rewrite Hc. left. reflexivity.
Qed.

Lemma zero_reflexive_configs_complete comp q pr d :
  to_prog comp (q, 0) = Some (pr, d, q) ->
  In (bw_config_init_spinout q d) (zero_reflexive_configs comp).
Proof.
  intros H. apply cp_get_In in H. unfold zero_reflexive_configs.
  apply (in_map (fun ss : state * shift => bw_config_init_spinout (fst ss) (snd ss)) _ (q, d)).
  unfold zr_shifts. apply in_flat_map. eexists. split; [exact H|].
  cbn beta iota. rewrite eqb_0_0, N.eqb_refl. left. reflexivity.
Qed.

(** ------------------------------------------------------------------ *)
(** * 8. F1 at the level of one step *)

(** The abstract configuration reached by the reasoner on [f1_halt_prog]
    after 4 backward steps (state A, tape [? 0 1 [1] ?]); the real run
    (halting after 11 steps) is in [c7 = (A, 1 [1] 1 1)] after 7 steps, coming
    from [c6 = (A, 1 1 [1] 1)] by the same-state instruction A1 -> 1LA. *)
Definition f1_t7 : backstepper :=
  mkBS 1 (mkSpan [(1, 1); (0, 1)] EndUnknown) (mkSpan [] EndUnknown) 0%Z.
Definition f1_c6 : ztape := {| zl := [1; 1]; zc := 1; zr := [1] |}.
Definition f1_c7 : ztape := {| zl := [1]; zc := 1; zr := [1; 1] |}.

Lemma f1_t7_covers_c7 : bs_conc f1_t7 f1_c7.
Proof.
  unfold bs_conc, f1_t7, f1_c7, span_conc.
  cbn [bs_scan bs_lspan bs_rspan sp_blocks sp_end zl zc zr blocks_conc fst snd].
  rewrite eqb_1_0. split; [reflexivity|]. split; [|exact I].
  exists 1%nat. split; [reflexivity|]. split.
  { intros i Hi. assert (i = 0%nat) by lia. subst i. reflexivity. }
  exists 1%nat. split; [reflexivity|]. split; [|exact I].
  intros i Hi. assert (i = 0%nat) by lia. subst i. reflexivity.
Qed.

(** iterate the main loop body of [cant_reach] *)
Fixpoint bw_iter (sw : bw_switches) (ep : bw_entrypoints) (n : nat) (s : bw_reach_state)
  : bw_reach_state + outcome backward_result :=
  match n with
  | O => inl s
  | S n' => match cant_reach_body sw ep s with
            | inl s' => bw_iter sw ep n' s'
            | inr r => inr r
            end
  end.

Definition f1_cfgs_at (n : nat) : list (state * backstepper) :=
  let ep := get_entrypoints f1_halt_prog in
  let cfgs := filter (fun cfg => ep_contains_key ep (c_state cfg)) (halt_configs bw_faithful f1_halt_prog) in
  match bw_iter bw_faithful ep n (mkCR 0 cfgs (get_blanks cfgs) []) with
  | inl s => map (fun c => (c_state c, c_tape c)) (cr_configs s)
  | inr _ => []
  end.

Example f1_dropped_predecessor :
  (* the real machine: c6 -> c7 by A1 -> 1LA, on the halting run *)
  tm_steps (to_prog f1_halt_prog) 6 init_config = Some (0, f1_c6) /\
  to_prog f1_halt_prog (0, 1) = Some (1, false, 0) /\
  tm_step (to_prog f1_halt_prog) (0, f1_c6) = Some (0, f1_c7) /\
  (* the reasoner holds (A, f1_t7) after 4 iterations, and it covers c7 *)
  In (0, f1_t7) (f1_cfgs_at 4) /\ bs_conc f1_t7 f1_c7 /\
  (* the step passes the pruning test and is not an indefinite pull ... *)
  check_step f1_t7 false 1 = true /\ pulls_indef f1_t7 false = false /\
  (* ... but check_spinout says "do not keep" and get_valid_steps drops it:
     the only step kept for this configuration is the one through C0 -> 1LA *)
  check_spinout f1_t7 false 1 = Some false /\
  get_valid_steps bw_faithful [bw_config_new 0 f1_t7] (get_entrypoints f1_halt_prog)
    = Ok [([(0, false, 2)], bw_config_new 0 f1_t7)] /\
  (* so after 5 iterations nothing in state A scanning 1 is left, although the
     abstract predecessor (which covers c6 by backstep_exact) is this one: *)
  backstep f1_t7 false 1
    = mkBS 1 (mkSpan [(1, 2); (0, 1)] EndUnknown) (mkSpan [] EndUnknown) 1%Z /\
  forallb (fun st_tp => negb ((fst st_tp =? 0) && (bs_scan (snd st_tp) =? 1))) (f1_cfgs_at 5) = true /\
  (* with the switch, the step is kept *)
  get_valid_steps (mkSw true false) [bw_config_new 0 f1_t7] (get_entrypoints f1_halt_prog)
    = Ok [([(0, false, 2); (1, false, 0)], bw_config_new 0 f1_t7)].
Proof.
  repeat split; try (vm_compute; reflexivity); try apply f1_t7_covers_c7.
  vm_compute. right. right. left. reflexivity.
Qed.

(** the abstract predecessor that the code should have produced covers c6
    (instance of [backstep_exact]) *)
Example f1_dropped_predecessor_covered :
  bs_conc (backstep f1_t7 false (zc f1_c6)) f1_c6.
Proof.
  refine (proj2 (backstep_exact (to_prog f1_halt_prog) 0 f1_c6 0 f1_c7 f1_t7 1 false _ _ _ _));
    try (vm_compute; reflexivity).
  apply f1_t7_covers_c7.
Qed.

(** ... and the sweep configuration (never built, because [keep = false])
    covers it as well: instance of [indef_covers] with k = 1 *)
Example f1_dropped_predecessor_indef :
  bs_conc (push_indef f1_t7 false) f1_c6.
Proof.
  apply (indef_covers (to_prog f1_halt_prog) 0 1 1 false 1 f1_c6 f1_c7 f1_t7 false).
  - vm_compute; reflexivity.
  - lia.
  - split; [vm_compute; reflexivity|]. intros j Hj. assert (j = 0%nat) by lia. subst j.
    exists f1_c6. split; reflexivity.
  - apply f1_t7_covers_c7.
  - vm_compute; reflexivity.
Qed.

(** Observation (degenerate tables only): the reasoner never asks whether
    the INITIAL configuration is itself a target.  With A0 undefined the
    machine halts after 0 steps, and [cant_halt] answers Refuted. *)
Example init_target_not_checked :
  let comp := [((0, 1), (1, true, 0))] in     (* "... 1RA" *)
  cant_halt comp 10 = Ok (BwRefuted 1) /\ halts_at (to_prog comp) init_config 0 (0, 0).
Proof.
  cbn zeta. split; [vm_compute; reflexivity|].
  exists 0, blank_tape. repeat split.
Qed.

(** ------------------------------------------------------------------ *)
(** * 9. (bonus) The candidate-step enumeration: [get_entrypoints] lists every
      instruction under its target state, and [get_valid_steps] keeps every
      step that passes [check_step] -- except the F1 drop. *)

(** sortedness of the BTreeMap model *)
Fixpoint ep_from (lo : N) (ep : bw_entrypoints) : Prop :=
  match ep with [] => True | (k, _) :: ep' => lo <= k /\ ep_from (k + 1) ep' end.

Lemma ep_from_get_none ep : forall lo k, ep_from lo ep -> k < lo -> ep_get ep k = None.
Proof.
  induction ep as [|[k' v] ep IH]; intros lo k H Hk; cbn [ep_get]; [reflexivity|].
  cbn [ep_from] in H. destruct H as [H1 H2].
  destruct (k' =? k) eqn:E; [apply N.eqb_eq in E; lia|]. apply (IH (k' + 1)); [exact H2|lia].
Qed.

Definition ep_default (o : option (bw_entries * bw_entries)) : bw_entries * bw_entries :=
  match o with Some v => v | None => ([], []) end.

Lemma ep_push_spec k b e ep : forall lo, ep_from lo ep -> lo <= k ->
  ep_from lo (ep_push ep k b e) /\
  forall k1, ep_get (ep_push ep k b e) k1
             = if k1 =? k then Some (ep_push_to b e (ep_default (ep_get ep k))) else ep_get ep k1.
Proof.
  induction ep as [|[k' v] ep IH]; intros lo H Hlo.
  - cbn [ep_push ep_from ep_get ep_default]. split; [split; [exact Hlo|exact I]|].
    intro k1. rewrite (N.eqb_sym k k1). reflexivity.
  - cbn [ep_from] in H. destruct H as [H1 H2]. cbn [ep_push].
    destruct (k <? k') eqn:E1.
    + apply N.ltb_lt in E1. split.
      * cbn [ep_from]. split; [exact Hlo|]. split; [lia|exact H2].
      * intro k1. rewrite (ep_from_get_none ((k', v) :: ep) k' k); [|split; [lia|exact H2]|exact E1].
        cbn [ep_get ep_default]. rewrite (N.eqb_sym k k1). reflexivity.
    + apply N.ltb_ge in E1. destruct (k =? k') eqn:E2.
      * apply N.eqb_eq in E2. subst k'. split; [cbn [ep_from]; split; assumption|].
        intro k1. cbn [ep_get]. rewrite N.eqb_refl. cbn [ep_default].
        rewrite (N.eqb_sym k k1). destruct (k1 =? k); reflexivity.
      * apply N.eqb_neq in E2. destruct (IH (k' + 1) H2 ltac:(lia)) as [I1 I2]. split.
        -- cbn [ep_from]. split; [exact H1|exact I1].
        -- intro k1. cbn [ep_get]. rewrite I2.
           destruct (k' =? k) eqn:E3; [apply N.eqb_eq in E3; lia|].
           destruct (k' =? k1) eqn:E4; [|reflexivity].
           apply N.eqb_eq in E4. subst k1.
           destruct (k' =? k) eqn:E5; [discriminate|reflexivity].
Qed.

(** "entry [e] is recorded under state [q] in the list selected by [b]"
    ([b = true]: the same-state list) *)
Definition ep_has (ep : bw_entrypoints) (q : state) (b : bool) (e : bw_entry) : Prop :=
  exists v, ep_get ep q = Some v /\ In e (if b then fst v else snd v).

Lemma ep_push_to_keeps b (e : bw_entry) (v : bw_entries * bw_entries) (b1 : bool) (e1 : bw_entry) :
  In e1 (if b1 then fst v else snd v) ->
  In e1 (if b1 then fst (ep_push_to b e v) else snd (ep_push_to b e v)).
Proof.
  unfold ep_push_to. destruct b, b1; cbn [fst snd]; intro H; try exact H; apply in_or_app; left; exact H.
Qed.

Lemma ep_push_has_old ep k b e q1 b1 e1 :
  ep_from 0 ep -> ep_has ep q1 b1 e1 -> ep_has (ep_push ep k b e) q1 b1 e1.
Proof.
  intros Hs (v & Hg & Hin). destruct (ep_push_spec k b e ep 0 Hs ltac:(lia)) as [_ Sp].
  unfold ep_has. rewrite Sp. destruct (q1 =? k) eqn:E.
  - apply N.eqb_eq in E. subst q1. rewrite Hg. cbn [ep_default].
    eexists. split; [reflexivity|]. apply ep_push_to_keeps. exact Hin.
  - exists v. split; assumption.
Qed.

Lemma ep_push_has_new ep k b e : ep_from 0 ep -> ep_has (ep_push ep k b e) k b e.
Proof.
  intros Hs. destruct (ep_push_spec k b e ep 0 Hs ltac:(lia)) as [_ Sp].
  unfold ep_has. rewrite Sp, N.eqb_refl. eexists. split; [reflexivity|].
  unfold ep_push_to. destruct b; cbn [fst snd]; apply in_or_app; right; left; reflexivity.
Qed.

Lemma get_entrypoints_fold (comp : comp_prog) : forall ep, ep_from 0 ep ->
  forall q b e,
    ep_has ep q b e \/
    (exists sl pr sh, In (sl, (pr, sh, q)) comp /\ b = (fst sl =? q) /\ e = (sl, (pr, sh))) ->
    ep_has (fold_left (fun ep kv =>
                         let '(sl, (color, sh, st)) := kv in
                         ep_push ep st (fst sl =? st) (sl, (color, sh))) comp ep) q b e.
Proof.
  induction comp as [|[sl0 [[pr0 sh0] st0]] comp IH]; intros ep Hs q b e H; cbn [fold_left].
  - destruct H as [H|(sl & pr & sh & [] & _)]. exact H.
  - apply IH.
    + apply (ep_push_spec st0 _ _ ep 0 Hs). lia.
    + destruct H as [H|(sl & pr & sh & [Hin|Hin] & Hb & He)].
      * left. apply ep_push_has_old; assumption.
      * left. inversion Hin; subst. apply ep_push_has_new. exact Hs.
      * right. exists sl, pr, sh. repeat split; assumption.
Qed.

(** every instruction of the table is an entry point of its target state,
    in [same] iff it does not change state *)
Theorem get_entrypoints_complete comp q0 c0 pr sh q :
  to_prog comp (q0, c0) = Some (pr, sh, q) ->
  exists same diff,
    ep_get (get_entrypoints comp) q = Some (same, diff) /\
    In ((q0, c0), (pr, sh)) (if q0 =? q then same else diff).
Proof.
  intro H. apply cp_get_In in H.
  destruct (get_entrypoints_fold comp [] I q (q0 =? q) ((q0, c0), (pr, sh))) as ([same diff] & Hg & Hin).
  { right. exists (q0, c0), pr, sh. repeat split. exact H. }
  exists same, diff. split; [exact Hg|exact Hin].
Qed.

(** the loop over [same] (reason.rs:165-182) *)
Definition same_body (sw : bw_switches) (cfg : bw_config) (diff same : bw_entries)
           (sc : list instr * bw_validated_steps) (e : bw_entry) : list instr * bw_validated_steps :=
  let tp := c_tape cfg in
  let '(steps, checked) := sc in
  let '((st, co), (pr, sh)) := e in
  if negb (check_step tp sh pr) then sc
  else match check_spinout tp sh co with
       | None => (steps ++ [(co, sh, st)], checked)
       | Some keep =>
           if negb keep
           then (if sw_nodrop sw then (steps ++ [(co, sh, st)], checked) else sc)
           else match get_indef sh cfg diff same with
                | Some indef => (steps, checked ++ [indef])
                | None => sc
                end
       end.

Lemma same_loop_fold sw cfg diff same sc :
  same_loop sw cfg diff same sc = fold_left (same_body sw cfg diff same) same sc.
Proof. reflexivity. Qed.

Lemma same_body_mono sw cfg diff same steps checked e :
  incl steps (fst (same_body sw cfg diff same (steps, checked) e)) /\
  incl checked (snd (same_body sw cfg diff same (steps, checked) e)).
Proof.
  unfold same_body. destruct e as [[st co] [pr sh]].
  destruct (negb (check_step (c_tape cfg) sh pr)); [split; apply incl_refl|].
  destruct (check_spinout (c_tape cfg) sh co) as [[|]|]; cbn [negb].
  - destruct (get_indef sh cfg diff same); cbn [fst snd]; split;
      try apply incl_refl; apply incl_appl; apply incl_refl.
  - destruct (sw_nodrop sw); cbn [fst snd]; split;
      try apply incl_refl; apply incl_appl; apply incl_refl.
  - cbn [fst snd]. split; [apply incl_appl|]; apply incl_refl.
Qed.

Lemma same_fold_mono sw cfg diff same es : forall steps checked,
  incl steps (fst (fold_left (same_body sw cfg diff same) es (steps, checked))) /\
  incl checked (snd (fold_left (same_body sw cfg diff same) es (steps, checked))).
Proof.
  induction es as [|a es IH]; intros steps checked; cbn [fold_left].
  - split; apply incl_refl.
  - destruct (same_body_mono sw cfg diff same steps checked a) as [M1 M2].
    destruct (same_body sw cfg diff same (steps, checked) a) as [s1 c1]. cbn [fst snd] in *.
    destruct (IH s1 c1) as [N1 N2]. split; eapply incl_tran; eauto.
Qed.

(** what the loop guarantees for a same-state entry that passes [check_step] *)
Definition same_entry_kept (sw : bw_switches) (cfg : bw_config) (diff same : bw_entries)
           (e : bw_entry) (res : list instr * bw_validated_steps) : Prop :=
  match check_spinout (c_tape cfg) (snd (snd e)) (snd (fst e)) with
  | None => In (entry_instr e) (fst res)
  | Some false => sw_nodrop sw = true -> In (entry_instr e) (fst res)   (* F1: nothing otherwise *)
  | Some true => forall indef, get_indef (snd (snd e)) cfg diff same = Some indef -> In indef (snd res)
  end.

Lemma same_fold_covers sw cfg diff same e es : forall steps checked,
  In e es -> check_step (c_tape cfg) (snd (snd e)) (fst (snd e)) = true ->
  same_entry_kept sw cfg diff same e (fold_left (same_body sw cfg diff same) es (steps, checked)).
Proof.
  induction es as [|a es IH]; intros steps checked Hin Hck; [destruct Hin|].
  cbn [fold_left]. destruct Hin as [Ha|Hin].
  - subst a. unfold same_entry_kept.
    destruct (same_body sw cfg diff same (steps, checked) e) as [s1 c1] eqn:Eb.
    destruct (same_fold_mono sw cfg diff same es s1 c1) as [M1 M2].
    unfold same_body in Eb. destruct e as [[st co] [pr sh]]. cbn [fst snd] in *.
    rewrite Hck in Eb. cbn [negb] in Eb. unfold entry_instr. cbn [fst snd].
    destruct (check_spinout (c_tape cfg) sh co) as [[|]|]; cbn [negb] in Eb.
    + intros indef Hi. rewrite Hi in Eb. inversion Eb; subst. apply M2.
      apply in_or_app. right. left. reflexivity.
    + intro Hsw. rewrite Hsw in Eb. inversion Eb; subst. apply M1.
      apply in_or_app. right. left. reflexivity.
    + inversion Eb; subst. apply M1. apply in_or_app. right. left. reflexivity.
  - destruct (same_body sw cfg diff same (steps, checked) a) as [s1 c1]. apply IH; assumption.
Qed.

(** one configuration of [get_valid_steps] (reason.rs:147-189) *)
Theorem valid_steps_body_covers sw ep checked cfg same diff :
  ep_get ep (c_state cfg) = Some (same, diff) ->
  exists checked',
    valid_steps_body sw ep checked cfg = Ok checked' /\ incl checked checked' /\
    (forall e, In e diff -> check_step (c_tape cfg) (snd (snd e)) (fst (snd e)) = true ->
       exists steps, In (steps, cfg) checked' /\ In (entry_instr e) steps) /\
    (forall e, In e same -> check_step (c_tape cfg) (snd (snd e)) (fst (snd e)) = true ->
       match check_spinout (c_tape cfg) (snd (snd e)) (snd (fst e)) with
       | None => exists steps, In (steps, cfg) checked' /\ In (entry_instr e) steps
       | Some false => sw_nodrop sw = true ->
                       exists steps, In (steps, cfg) checked' /\ In (entry_instr e) steps
       | Some true => forall indef, get_indef (snd (snd e)) cfg diff same = Some indef ->
                                    In indef checked'
       end).
Proof.
  intro Hg. unfold valid_steps_body. rewrite Hg. rewrite same_loop_fold.
  pose proof (same_fold_mono sw cfg diff same same (checked_steps (c_tape cfg) diff []) checked) as [M1 M2].
  pose proof (fun e => same_fold_covers sw cfg diff same e same (checked_steps (c_tape cfg) diff []) checked) as Hc.
  destruct (fold_left (same_body sw cfg diff same) same (checked_steps (c_tape cfg) diff [], checked))
    as [steps1 checked1]. cbn [fst snd] in *.
  assert (Hfin : forall i, In i steps1 ->
            exists checked', (match steps1 with [] => Ok checked1 | _ :: _ => Ok (checked1 ++ [(steps1, cfg)]) end)
                             = Ok checked' /\ In (steps1, cfg) checked').
  { intros i Hi. destruct steps1 as [|i0 r]; [destruct Hi|].
    eexists. split; [reflexivity|]. apply in_or_app. right. left. reflexivity. }
  exists (match steps1 with [] => checked1 | _ :: _ => checked1 ++ [(steps1, cfg)] end).
  assert (Hinc : incl checked1 (match steps1 with [] => checked1 | _ :: _ => checked1 ++ [(steps1, cfg)] end)).
  { destruct steps1; [apply incl_refl|apply incl_appl; apply incl_refl]. }
  assert (Hst : forall i, In i steps1 ->
            In (steps1, cfg) (match steps1 with [] => checked1 | _ :: _ => checked1 ++ [(steps1, cfg)] end)).
  { intros i Hi. destruct steps1; [destruct Hi|]. apply in_or_app. right. left. reflexivity. }
  split; [destruct steps1; reflexivity|]. split; [eapply incl_tran; eauto|]. split.
  - intros e Hin Hck. exists steps1.
    assert (In (entry_instr e) steps1).
    { apply M1. apply checked_steps_In. right. split; assumption. }
    split; [eapply Hst; eauto|assumption].
  - intros e Hin Hck. specialize (Hc e Hin Hck). unfold same_entry_kept in Hc. cbn [fst snd] in Hc.
    destruct (check_spinout (c_tape cfg) (snd (snd e)) (snd (fst e))) as [[|]|].
    + intros indef Hi. apply Hinc. apply Hc. exact Hi.
    + intro Hsw. exists steps1. split; [eapply Hst; eauto|auto].
    + exists steps1. split; [eapply Hst; eauto|auto].
Qed.

(** the whole [get_valid_steps]: what is found for one configuration stays *)
Lemma get_valid_steps_loop_keeps sw ep cfg : forall cfgs checked res,
  In cfg cfgs -> get_valid_steps_loop sw ep cfgs checked = Ok res ->
  exists c1 c2, valid_steps_body sw ep c1 cfg = Ok c2 /\ incl c2 res.
Proof.
  assert (Hmono : forall cfgs checked res,
            get_valid_steps_loop sw ep cfgs checked = Ok res -> incl checked res).
  { induction cfgs as [|c cfgs IH]; intros checked res H; cbn [get_valid_steps_loop] in H.
    - inversion H. apply incl_refl.
    - destruct (valid_steps_body sw ep checked c) as [|c'] eqn:Eb; [discriminate|].
      apply IH in H. eapply incl_tran; [|exact H].
      unfold valid_steps_body in Eb. destruct (ep_get ep (c_state c)) as [[same diff]|] eqn:Eg.
      + destruct (valid_steps_body_covers sw ep checked c same diff Eg) as (c2 & E2 & Hi & _).
        unfold valid_steps_body in E2. rewrite Eg in E2. rewrite E2 in Eb. inversion Eb; subst. exact Hi.
      + destruct (c_state c =? 0); [inversion Eb; apply incl_refl|discriminate]. }
  induction cfgs as [|c cfgs IH]; intros checked res Hin H; [destruct Hin|].
  cbn [get_valid_steps_loop] in H.
  destruct (valid_steps_body sw ep checked c) as [|c'] eqn:Eb; [discriminate|].
  destruct Hin as [Hc|Hin].
  - subst c. exists checked, c'. split; [exact Eb|]. eapply Hmono. exact H.
  - eapply IH; eauto.
Qed.

(** ------------------------------------------------------------------ *)
(** * 10. (bonus) [step_configs]: every validated step is either backstepped
      into the next frontier, or recorded as an indefinite pull, or skipped
      because its tape is "blank" ([bs_blank], which ignores the ends!) in a
      state already in [blanks], or the loop exits with Init / LinRec. *)

Lemma blanks_insert_mono b s x :
  bw_blanks_contains b x = true -> bw_blanks_contains (bw_blanks_insert b s) x = true.
Proof.
  unfold bw_blanks_insert. destruct (bw_blanks_contains b s); [auto|].
  unfold bw_blanks_contains. rewrite existsb_app. intro H. apply orb_true_iff. left. exact H.
Qed.

Lemma blanks_insert_same b s : bw_blanks_contains (bw_blanks_insert b s) s = true.
Proof.
  unfold bw_blanks_insert. destruct (bw_blanks_contains b s) eqn:E; [exact E|].
  unfold bw_blanks_contains. rewrite existsb_app. cbn [existsb]. rewrite N.eqb_refl.
  rewrite orb_true_r. reflexivity.
Qed.

Lemma descendant_fields st tp cfg :
  c_state (bw_config_descendant st tp cfg) = st /\
  c_tape (bw_config_descendant st tp cfg) = tp /\
  c_prev (bw_config_descendant st tp cfg) = Some cfg.
Proof. unfold bw_config_descendant. destruct (lin_rec _); repeat split. Qed.

Definition blanks_le (b b' : bw_blanks) : Prop :=
  forall x, bw_blanks_contains b x = true -> bw_blanks_contains b' x = true.

(** what "the step [i] of [cfg] was taken" means for the results *)
Definition instr_stepped (cfg : bw_config) (i : instr) (stepped' : bw_configs) (bl' : bw_blanks) : Prop :=
  let tp := backstep (c_tape cfg) (snd (fst i)) (fst (fst i)) in
  (exists c, In c stepped' /\ c_state c = snd i /\ c_tape c = tp /\ c_prev c = Some cfg) \/
  (bs_blank tp = true /\ bw_blanks_contains bl' (snd i) = true).

Lemma step_instrs_mono cfg : forall instrs stepped bl stepped' bl',
  step_instrs cfg instrs stepped bl = inl (stepped', bl') ->
  incl stepped stepped' /\ blanks_le bl bl'.
Proof.
  induction instrs as [|[[color sh] st] rest IH]; intros stepped bl stepped' bl' H;
    cbn [step_instrs] in H.
  - inversion H; subst. split; [apply incl_refl|intros x Hx; exact Hx].
  - cbv zeta in H.
    destruct (bs_blank (backstep (c_tape cfg) sh color) && (st =? 0)); [discriminate|].
    destruct (bs_blank (backstep (c_tape cfg) sh color) && bw_blanks_contains bl st).
    + apply IH in H. exact H.
    + destruct (BW_MAX_RECS <? _); [discriminate|]. apply IH in H. destruct H as [H1 H2]. split.
      * eapply incl_tran; [|exact H1]. apply incl_appl. apply incl_refl.
      * intros x Hx. apply H2. destruct (bs_blank _); [apply blanks_insert_mono|]; exact Hx.
Qed.

Lemma step_instrs_err cfg : forall instrs stepped bl r,
  step_instrs cfg instrs stepped bl = inr r -> r = BwInit \/ r = BwLinRec.
Proof.
  induction instrs as [|[[c2 s2] t2] rest IH]; intros stepped bl r Es; cbn [step_instrs] in Es;
    [discriminate|]. cbv zeta in Es.
  destruct (bs_blank _ && (t2 =? 0)); [inversion Es; left; reflexivity|].
  destruct (bs_blank _ && bw_blanks_contains bl t2); [eapply IH; exact Es|].
  destruct (BW_MAX_RECS <? _); [inversion Es; right; reflexivity|eapply IH; exact Es].
Qed.

Lemma step_instrs_covers cfg i : forall instrs stepped bl stepped' bl',
  In i instrs -> step_instrs cfg instrs stepped bl = inl (stepped', bl') ->
  instr_stepped cfg i stepped' bl'.
Proof.
  induction instrs as [|[[color sh] st] rest IH]; intros stepped bl stepped' bl' Hin Es;
    [destruct Hin|].
  cbn [step_instrs] in Es. cbv zeta in Es.
  destruct (bs_blank (backstep (c_tape cfg) sh color) && (st =? 0)) eqn:E0; [discriminate|].
  destruct (bs_blank (backstep (c_tape cfg) sh color) && bw_blanks_contains bl st) eqn:E1.
  - destruct Hin as [Hi|Hin]; [|eapply IH; eauto].
    subst i. apply andb_prop in E1 as [B1 B2].
    apply step_instrs_mono in Es. destruct Es as [_ Hb].
    right. cbn [fst snd]. split; [exact B1|apply Hb; exact B2].
  - destruct (BW_MAX_RECS <? _) eqn:E2; [discriminate|].
    destruct Hin as [Hi|Hin]; [|eapply IH; eauto].
    subst i. apply step_instrs_mono in Es. destruct Es as [Hs _].
    left. cbn [fst snd].
    exists (bw_config_descendant st (backstep (c_tape cfg) sh color) cfg).
    split; [apply Hs; apply in_or_app; right; left; reflexivity|apply descendant_fields].
Qed.

Lemma partition_In {A} (f : A -> bool) x : forall l l1 l2,
  partition f l = (l1, l2) -> In x l -> if f x then In x l1 else In x l2.
Proof.
  induction l as [|a l IH]; intros l1 l2 H Hin; [destruct Hin|].
  cbn [partition] in H. destruct (partition f l) as [g d] eqn:Ep.
  specialize (IH g d eq_refl).
  destruct Hin as [Ha|Hin].
  - subst a. destruct (f x); inversion H; subst; left; reflexivity.
  - specialize (IH Hin). destruct (f a); inversion H; subst; destruct (f x); try exact IH; right; exact IH.
Qed.

Lemma instr_stepped_mono cfg i s1 b1 s2 b2 :
  incl s1 s2 -> blanks_le b1 b2 -> instr_stepped cfg i s1 b1 -> instr_stepped cfg i s2 b2.
Proof.
  intros Hs Hb [(c & H1 & H2)|[H1 H2]]; [left; exists c; split; [apply Hs; exact H1|exact H2]|].
  right. split; [exact H1|apply Hb; exact H2].
Qed.

Lemma step_configs_loop_mono : forall vs stepped indefs bl stepped' indefs' bl',
  step_configs_loop vs stepped indefs bl = inl (stepped', indefs', bl') ->
  incl stepped stepped' /\ blanks_le bl bl' /\ (indefs <> [] -> indefs' <> []).
Proof.
  induction vs as [|[instrs cfg] rest IH]; intros stepped indefs bl stepped' indefs' bl' H;
    cbn [step_configs_loop] in H.
  - inversion H; subst. repeat split; [apply incl_refl|intros x Hx; exact Hx|auto].
  - destruct (partition _ instrs) as [pulls instrs2].
    destruct (step_instrs cfg instrs2 stepped bl) as [[s1 b1]|r] eqn:Es; [|discriminate].
    apply step_instrs_mono in Es. destruct Es as [E1 E2].
    apply IH in H. destruct H as (H1 & H2 & H3). split; [eapply incl_tran; eauto|]. split.
    + intros x Hx. apply H2, E2, Hx.
    + intro Hn. apply H3. destruct pulls; [exact Hn|]. destruct indefs; discriminate.
Qed.

(** the only early exits of [step_configs] are Init and LinRec *)
Lemma step_configs_loop_err : forall vs stepped indefs bl r,
  step_configs_loop vs stepped indefs bl = inr r -> r = BwInit \/ r = BwLinRec.
Proof.
  induction vs as [|[instrs cfg] rest IH]; intros stepped indefs bl r H;
    cbn [step_configs_loop] in H; [discriminate|].
  destruct (partition _ instrs) as [pulls instrs2].
  destruct (step_instrs cfg instrs2 stepped bl) as [[s1 b1]|r1] eqn:Es.
  - eapply IH. exact H.
  - inversion H; subst r1. eapply step_instrs_err. exact Es.
Qed.

(** one validated step through [step_configs] *)
Theorem step_configs_covers instrs cfg i : forall vs stepped indefs bl stepped' indefs' bl',
  In (instrs, cfg) vs -> In i instrs ->
  step_configs_loop vs stepped indefs bl = inl (stepped', indefs', bl') ->
  if pulls_indef (c_tape cfg) (snd (fst i)) then indefs' <> []
  else instr_stepped cfg i stepped' bl'.
Proof.
  induction vs as [|[instrs0 cfg0] rest IH]; intros stepped indefs bl stepped' indefs' bl' Hv Hi H;
    [destruct Hv|].
  cbn [step_configs_loop] in H.
  destruct (partition (fun i0 : instr => pulls_indef (c_tape cfg0) (snd (fst i0))) instrs0)
    as [pulls instrs2] eqn:Ep.
  destruct (step_instrs cfg0 instrs2 stepped bl) as [[s1 b1]|r] eqn:Es; [|discriminate].
  destruct Hv as [Hv|Hv]; [|eapply IH; eauto].
  inversion Hv; subst instrs0 cfg0. clear Hv.
  pose proof (partition_In _ i _ _ _ Ep Hi) as Hpart. cbv beta in Hpart.
  apply step_configs_loop_mono in H. destruct H as (L1 & L2 & L3).
  destruct (pulls_indef (c_tape cfg) (snd (fst i))).
  - apply L3. destruct pulls; [destruct Hpart|]. destruct indefs; discriminate.
  - eapply instr_stepped_mono; [exact L1|exact L2|].
    eapply step_instrs_covers; eauto.
Qed.

(** ------------------------------------------------------------------ *)
(** * 11. (bonus) One round of the main loop, assembled.

    [cfg] is in the frontier and covers the real configuration [(q', z')].
    After [get_valid_steps] and [step_configs] succeed, a real predecessor
    is covered by the new frontier, EXCEPT in the explicitly listed cases:
      - an indefinite block would be pulled: [indefs <> []] (the main loop
        can then never answer Refuted: reason.rs:111-116);
      - the abstract predecessor is "blank" for [bs_blank] and its state is
        already in [blanks] (reason.rs:275-277);
      - the predecessor is by a same-state instruction and [check_spinout]
        answers [Some false] (F1; excluded by hypothesis unless [sw_nodrop]);
      - [check_spinout] answers [Some true]: see [sweep_round_sound]. *)

Definition round_covered (cfgs' : bw_configs) (indefs : bw_validated_steps) (bl' : bw_blanks)
           (tp : backstepper) (sh : shift) (q : state) (z : ztape) : Prop :=
  (exists c, In c cfgs' /\ c_state c = q /\ bs_conc (c_tape c) z) \/
  indefs <> [] \/
  (bs_blank (backstep tp sh (zc z)) = true /\ bw_blanks_contains bl' q = true).

Lemma validated_step_round vs bl cfgs' indefs bl' steps cfg sh q z pr :
  step_configs vs bl = inl (cfgs', indefs, bl') ->
  In (steps, cfg) vs -> In (zc z, sh, q) steps ->
  bs_conc (c_tape cfg) (tm_move z sh pr) ->
  round_covered cfgs' indefs bl' (c_tape cfg) sh q z.
Proof.
  intros Hsc Hv Hi Hc. unfold step_configs in Hsc.
  pose proof (step_configs_covers steps cfg (zc z, sh, q) vs [] [] bl cfgs' indefs bl' Hv Hi Hsc) as H.
  cbn [fst snd] in H. unfold round_covered.
  destruct (pulls_indef (c_tape cfg) sh) eqn:Ep; [right; left; exact H|].
  destruct H as [(c & H1 & H2 & H3 & _)|[H1 H2]].
  - left. exists c. split; [exact H1|]. split; [exact H2|]. rewrite H3.
    eapply backstep_covers; eauto.
  - right. right. cbn [fst snd] in *. split; assumption.
Qed.

Theorem plain_round_sound sw comp cfgs cfg bl vs cfgs' indefs bl' q z q' z' pr sh :
  In cfg cfgs -> c_state cfg = q' -> bs_conc (c_tape cfg) z' ->
  to_prog comp (q, zc z) = Some (pr, sh, q') ->
  tm_step (to_prog comp) (q, z) = Some (q', z') ->
  get_valid_steps sw cfgs (get_entrypoints comp) = Ok vs ->
  step_configs vs bl = inl (cfgs', indefs, bl') ->
  (q = q' -> check_spinout (c_tape cfg) sh (zc z) = None \/
             (check_spinout (c_tape cfg) sh (zc z) = Some false /\ sw_nodrop sw = true)) ->
  round_covered cfgs' indefs bl' (c_tape cfg) sh q z.
Proof.
  intros Hin Hq Hc HP Hs Hgv Hsc Hsame.
  assert (Ez : z' = tm_move z sh pr).
  { unfold tm_step in Hs. rewrite HP in Hs. inversion Hs. reflexivity. }
  subst z'.
  destruct (get_entrypoints_complete comp q (zc z) pr sh q' HP) as (same & diff & Hg & He).
  destruct (get_valid_steps_loop_keeps sw _ cfg cfgs [] vs Hin Hgv) as (c1 & c2 & Hb & Hinc).
  rewrite <- Hq in Hg.
  destruct (valid_steps_body_covers sw _ c1 cfg same diff Hg) as (c2' & Hb' & _ & Hd & Hsm).
  rewrite Hb in Hb'. inversion Hb'; subst c2'. clear Hb'.
  assert (Hck : check_step (c_tape cfg) sh pr = true) by (eapply check_step_sound; eauto).
  assert (Hst : exists steps, In (steps, cfg) c2 /\ In (zc z, sh, q) steps).
  { destruct (q =? q') eqn:E.
    - apply N.eqb_eq in E. specialize (Hsm _ He Hck). cbn [fst snd] in Hsm.
      destruct (Hsame E) as [Hn|[Hf Hsw]].
      + rewrite Hn in Hsm. exact Hsm.
      + rewrite Hf in Hsm. exact (Hsm Hsw).
    - exact (Hd _ He Hck). }
  destruct Hst as (steps & Hv & Hi).
  eapply validated_step_round; eauto.
Qed.

Lemma mv_n_snoc k sh pr : forall z, mv_n (S k) sh pr z = tm_move (mv_n k sh pr z) sh pr.
Proof. induction k as [|k IH]; intro z; [reflexivity|]. cbn [mv_n] in *. rewrite IH. reflexivity. Qed.

(** the sweep case: [check_spinout = Some true].  The real run is
      (q0,z0) --[another slot]--> (q,z) --[(q,c) -> (pr,sh,q), k >= 1 times]--> (q,z')
    and [cfg] covers [(q,z')]. *)
Theorem sweep_round_sound sw comp cfgs cfg bl vs cfgs' indefs bl' q c pr sh k z z' q0 z0 pr0 sh0 :
  In cfg cfgs -> c_state cfg = q -> bs_conc (c_tape cfg) z' ->
  to_prog comp (q, c) = Some (pr, sh, q) ->
  (1 <= k)%nat -> sweep_run (to_prog comp) q c k z z' ->
  check_spinout (c_tape cfg) sh c = Some true ->
  to_prog comp (q0, zc z0) = Some (pr0, sh0, q) ->
  tm_step (to_prog comp) (q0, z0) = Some (q, z) ->
  (q0, zc z0) <> (q, c) ->
  get_valid_steps sw cfgs (get_entrypoints comp) = Ok vs ->
  step_configs vs bl = inl (cfgs', indefs, bl') ->
  round_covered cfgs' indefs bl' (push_indef (c_tape cfg) sh) sh0 q0 z0.
Proof.
  intros Hin Hq Hc HP Hk Hsw Hcs HP0 Hs0 Hne Hgv Hsc.
  destruct (get_entrypoints_complete comp q c pr sh q HP) as (same & diff & Hg & He).
  rewrite N.eqb_refl in He.
  destruct (get_entrypoints_complete comp q0 (zc z0) pr0 sh0 q HP0) as (same' & diff' & Hg' & He').
  rewrite Hg in Hg'. inversion Hg'; subst same' diff'. clear Hg'.
  destruct (get_valid_steps_loop_keeps sw _ cfg cfgs [] vs Hin Hgv) as (c1 & c2 & Hb & Hinc).
  rewrite <- Hq in Hg.
  destruct (valid_steps_body_covers sw _ c1 cfg same diff Hg) as (c2' & Hb' & _ & _ & Hsm).
  rewrite Hb in Hb'. inversion Hb'; subst c2'. clear Hb'.
  (* the sweeping instruction itself passes check_step *)
  destruct (sweep_run_mv _ q c pr sh HP k z z' Hsw) as [Ez' Hj].
  assert (Hck : check_step (c_tape cfg) sh pr = true).
  { destruct k as [|k']; [lia|]. rewrite mv_n_snoc in Ez'. subst z'.
    eapply check_step_sound. exact Hc. }
  specialize (Hsm _ He Hck). cbn [fst snd] in Hsm. rewrite Hcs in Hsm.
  (* the sweep configuration and its step *)
  destruct (indef_pred_covered (to_prog comp) q c pr sh k z z' q0 z0 pr0 sh0 cfg diff same true
              HP Hk Hsw Hq Hc Hcs Hs0 HP0 Hne) as [(steps & Hgi & Hi) Hbk].
  { destruct (q0 =? q); [right|left]; exact He'. }
  specialize (Hsm _ Hgi). apply Hinc in Hsm.
  assert (Hz : bs_conc (push_indef (c_tape cfg) sh) z) by (eapply indef_covers; eauto).
  assert (Ez : z = tm_move z0 sh0 pr0).
  { unfold tm_step in Hs0. rewrite HP0 in Hs0. inversion Hs0. reflexivity. }
  subst z.
  exact (validated_step_round vs bl cfgs' indefs bl' steps
           (bw_config_new q (push_indef (c_tape cfg) sh)) sh0 q0 z0 pr0 Hsc Hsm Hi Hz).
Qed.

(** ------------------------------------------------------------------ *)
(** * 12. (bonus) About the [blanks] skip of reason.rs:270-280.

    [bs_blank] only looks at the colours of the blocks, not at the ends.
    With both ends [EndBlanks] (the only ends [cant_blank] ever has: [pull],
    [push], [push_indef] never change [sp_end]) it is exact: the real tape
    is blank, so two "blank" configurations in the same state describe the
    same real configuration and skipping the second is harmless.  With an
    [EndUnknown] end ([cant_halt], [cant_spin_out]) two "blank" abstract
    tapes need not describe the same real tapes ([blank_skip_not_exact]), so
    the skip is NOT justified by the building blocks alone.  (A random search
    over ~140M halting / spinning-out / erasing tables, F1 repaired, found no
    exploit: in an actual run a "blank" configuration in state p at depth j
    says that the forward run from p over zeros reaches the target in j
    steps inside the known window, which determines the tape, so a second,
    different "blank" tape in the same state does not seem to arise.  A global
    theorem needs that invariant, or the third disjunct of [round_covered]
    as a guard.) *)
Lemma blocks_conc_blank bs : forall l,
  forallb (fun b : colour * N => fst b =? 0) bs = true ->
  blocks_conc bs EndBlanks l -> all_blank l.
Proof.
  induction bs as [|b rest IH]; intros l Hb H; cbn [blocks_conc forallb] in *; [exact H|].
  apply andb_prop in Hb as [Hb1 Hb2]. apply N.eqb_eq in Hb1.
  destruct H as (k & _ & Hc & Hr). specialize (IH _ Hb2 Hr).
  intro i. destruct (Nat.lt_ge_cases i k) as [Hi|Hi].
  - rewrite Hc; [exact Hb1|exact Hi].
  - replace i with (k + (i - k))%nat by lia. rewrite <- cell_skipn. apply IH.
Qed.

Lemma bs_blank_exact t z :
  sp_end (bs_lspan t) = EndBlanks -> sp_end (bs_rspan t) = EndBlanks ->
  bs_blank t = true -> bs_conc t z -> tape_blank z.
Proof.
  intros El Er Hb (C1 & C2 & C3). unfold bs_blank in Hb.
  apply andb_prop in Hb as [Hb Hb3]. apply andb_prop in Hb as [Hb1 Hb2].
  apply N.eqb_eq in Hb1. unfold span_conc in *. rewrite El in C2. rewrite Er in C3.
  split; [|split].
  - apply (blocks_conc_blank (sp_blocks (bs_lspan t))); [exact Hb2|exact C2].
  - congruence.
  - apply (blocks_conc_blank (sp_blocks (bs_rspan t))); [exact Hb3|exact C3].
Qed.

Lemma backstep_ends t sh read :
  sp_end (bs_lspan (backstep t sh read)) = sp_end (bs_lspan t) /\
  sp_end (bs_rspan (backstep t sh read)) = sp_end (bs_rspan t).
Proof.
  assert (Hpull : forall s, sp_end (bspan_pull s) = sp_end s).
  { intro s. unfold bspan_pull. destruct (sp_blocks s) as [|[c n] r]; [reflexivity|].
    destruct (n =? 1); [reflexivity|]. destruct (n =? 0); reflexivity. }
  assert (Hpush : forall s c n, sp_end (bspan_push s c n) = sp_end s).
  { intros s c n. unfold bspan_push, bspan_push_block. destruct (sp_blocks s) as [|[c' n'] r].
    - destruct (_ && _); reflexivity.
    - destruct (_ && _); reflexivity. }
  unfold backstep. destruct sh; cbn [bs_lspan bs_rspan]; split; auto.
Qed.

Lemma push_indef_ends t sh :
  sp_end (bs_lspan (push_indef t sh)) = sp_end (bs_lspan t) /\
  sp_end (bs_rspan (push_indef t sh)) = sp_end (bs_rspan t).
Proof. unfold push_indef. destruct sh; split; reflexivity. Qed.

Example blank_skip_not_exact :
  let t1 := mkBS 0 (mkSpan [] EndUnknown) (mkSpan [(0, 1)] EndUnknown) 0%Z in   (* ? [0] 0 ? *)
  let t2 := mkBS 0 (mkSpan [(0, 1)] EndUnknown) (mkSpan [] EndUnknown) 0%Z in   (* ? 0 [0] ? *)
  let z := {| zl := [0]; zc := 0; zr := [1] |} in
  bs_blank t1 = true /\ bs_blank t2 = true /\ bs_conc t2 z /\ ~ bs_conc t1 z.
Proof.
  cbn zeta. split; [reflexivity|]. split; [reflexivity|]. split.
  - unfold bs_conc, span_conc.
    cbn [bs_scan bs_lspan bs_rspan sp_blocks sp_end zl zc zr blocks_conc fst snd].
    rewrite eqb_1_0. split; [reflexivity|]. split; [|exact I].
    exists 1%nat. split; [reflexivity|]. split; [|exact I].
    intros i Hi. assert (i = 0%nat) by lia. subst i. reflexivity.
  - unfold bs_conc, span_conc.
    cbn [bs_scan bs_lspan bs_rspan sp_blocks sp_end zl zc zr blocks_conc fst snd].
    rewrite eqb_1_0. intros (_ & _ & k & Hk & Hc & _). subst k.
    specialize (Hc 0%nat ltac:(change (0 < 1)%nat; lia)). discriminate.
Qed.

Print Assumptions bspan_matches_color_sound.
Print Assumptions bspan_pull_sound.
Print Assumptions bspan_pull_indef.
Print Assumptions bspan_push_sound.
Print Assumptions backstep_exact.
Print Assumptions push_indef_sound.
Print Assumptions indef_covers.
Print Assumptions get_indef_covers.
Print Assumptions indef_pred_covered.
Print Assumptions halt_target_covered.
Print Assumptions blank_target_covered.
Print Assumptions spinout_target_covered.
Print Assumptions erase_configs_complete.
Print Assumptions zero_reflexive_configs_complete.
Print Assumptions check_spinout_spec.
Print Assumptions get_entrypoints_complete.
Print Assumptions valid_steps_body_covers.
Print Assumptions get_valid_steps_loop_keeps.
Print Assumptions step_configs_covers.
Print Assumptions step_configs_loop_err.
Print Assumptions plain_round_sound.
Print Assumptions sweep_round_sound.
Print Assumptions bs_blank_exact.
Print Assumptions blank_skip_not_exact.
Print Assumptions f1_dropped_predecessor.
Print Assumptions init_target_not_checked.
