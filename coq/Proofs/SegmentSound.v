(** C05 layers 2-4 — soundness of the POSITIVE verdicts of the finite-segment
    analysis (segment.rs): Halt / Spinout / Blank / Repeat.

    Layer 2 ([sg_run_to_edge_sound]): what each result of [sg_run_to_edge]
    means for the real machine.  The hare ([self]) performs macro steps
    [mstep] (= [Config::step]); each of them is k >= 1 base steps
    ([SegmentTape.sg_tape_step_sim]).  The tortoise ([copy]) performs the same
    macro steps, so at every comparison the hare is m >= 1 macro steps ahead
    of the tortoise ([miter m copy = self]).

    Layer 3 ([sg_init_exact], [sg_asr_body_inv]): a configuration whose flag
    [init] is set is a REAL configuration ([real_at]): the machine started on
    the all-blank tape reaches it (window content as recorded, everything
    outside the window blank).  The flag is set in exactly four places:
      - [Config::init]                 (state 0, blank window, n = 0);
      - [check_seen] (branch_in / branch_out) returns [blank && state == 0]
        where [blank] is the blankness of the tape the new configuration
        carries (up to one [step_in], which keeps blankness): state 0 on a
        blank window, n = 0;
      - [run_to_edge], segment.rs:499: state 0, print 0, window blank: n = 0;
      - [Config::step] copies it: n grows by the number of base steps.
    The tortoise copy keeps a stale flag, which is never read.

    Layer 4 ([sg_asr_sound], [sg_scr_sound]): the four positive verdicts. *)
From BB Require Import Base TM TMabs MacroSpec InstrsModel SegmentModel Loops TranslatedCycle AbsEquiv MacroSim SegmentTape.
Open Scope N_scope.

Definition zero_tape : atape := fun _ => 0.

(** ---- loops ---- *)
Lemma iter_nat_inv {St Rs : Type} (body : St -> St + Rs) (I : St -> Prop) (Q : Rs -> Prop) :
  (forall s, I s -> match body s with inl s' => I s' | inr r => Q r end) ->
  forall n s, I s -> match iter_nat n body s with inl s' => I s' | inr r => Q r end.
Proof.
  intros Hb. induction n as [|n IH]; intros s Hs; cbn [iter_nat]; [exact Hs|].
  pose proof (Hb s Hs) as H1. destruct (body s) as [s'|r]; [apply IH; exact H1|exact H1].
Qed.

Lemma iter_nat_inr_witness {St Rs : Type} (body : St -> St + Rs) :
  forall n s r, iter_nat n body s = inr r -> exists s', body s' = inr r.
Proof.
  induction n as [|n IH]; intros s r H; cbn [iter_nat] in H; [discriminate|].
  destruct (body s) as [s'|r'] eqn:E.
  - apply (IH s' r H).
  - exists s. rewrite E. exact H.
Qed.

(** the head moves by one cell per step *)
Lemma head_bound P : forall i c ci, a_steps P i c = Some ci ->
  (a_h c - Z.of_nat i <= a_h ci <= a_h c + Z.of_nat i)%Z.
Proof.
  induction i as [|i IH]; intros c ci H; cbn [a_steps] in H.
  - injection H as <-. lia.
  - destruct (a_step P c) as [c1|] eqn:E; [|discriminate].
    pose proof (IH c1 ci H) as Hb. unfold a_step in E.
    destruct (P (a_q c, a_t c (a_h c))) as [[[pr sh] q']|]; [|discriminate].
    injection E as <-. cbn [a_h] in Hb. destruct sh; lia.
Qed.

Section Run.
Variable prog : comp_prog.
Notation P := (to_prog prog).

(** ---- the abstract (state, window tape) macro step = [Config::step] ---- *)
Definition sg_x (c : sg_config) : state * sg_tape := (sgc_state c, sgc_tape c).

Definition mstep (x : state * sg_tape) : option (state * sg_tape) :=
  match sgt_scan (snd x) with
  | None => None
  | Some c =>
      match cp_get prog (fst x, c) with
      | None => None
      | Some (pr, sh, q') =>
          match sg_tape_step (snd x) sh pr (q' =? fst x) with
          | Ok t' => Some (q', t')
          | Panic => None
          end
      end
  end.

Fixpoint miter (m : nat) (x : state * sg_tape) : option (state * sg_tape) :=
  match m with
  | O => Some x
  | S m' => match mstep x with Some x' => miter m' x' | None => None end
  end.

Lemma miter_snoc : forall m x y z,
  miter m x = Some y -> mstep y = Some z -> miter (S m) x = Some z.
Proof.
  induction m as [|m IH]; intros x y z H1 H2.
  - cbn [miter] in H1. injection H1 as <-. cbn [miter]. rewrite H2. reflexivity.
  - cbn [miter] in H1. destruct (mstep x) as [x1|] eqn:E; [|discriminate].
    change (miter (S (S m)) x) with (match mstep x with Some x' => miter (S m) x' | None => None end).
    rewrite E. apply (IH x1 y z H1 H2).
Qed.

Lemma config_step_mstep c sl pr sh st c1 :
  sg_config_slot c = Some sl -> cp_get prog sl = Some (pr, sh, st) ->
  sg_config_step c (pr, sh, st) = Ok c1 ->
  mstep (sg_x c) = Some (sg_x c1) /\ sgc_init c1 = sgc_init c /\ sgc_state c1 = st.
Proof.
  unfold sg_config_slot, sg_config_step, mstep, sg_x. cbn [fst snd].
  destruct (sgt_scan (sgc_tape c)) as [co|]; [|discriminate].
  intros E HP Hs. injection E as <-. rewrite HP.
  destruct (sg_tape_step (sgc_tape c) sh pr (st =? sgc_state c)) as [|t']; [discriminate|].
  cbn [obind] in Hs. injection Hs as <-. cbn [sgc_state sgc_tape sgc_init].
  split; [reflexivity|split; reflexivity].
Qed.

Lemma mstep_tape_ok x x' : tape_ok (snd x) -> mstep x = Some x' -> tape_ok (snd x').
Proof.
  unfold mstep. intros Hok H. destruct (sgt_scan (snd x)) as [c|]; [|discriminate].
  destruct (cp_get prog (fst x, c)) as [[[pr sh] q']|]; [|discriminate].
  destruct (sg_tape_step (snd x) sh pr (q' =? fst x)) as [|t'] eqn:E; [discriminate|].
  injection H as <-. cbn [snd]. apply (sg_tape_step_ok _ _ _ _ _ Hok E).
Qed.

(** ---- REAL configurations ---- *)
Definition real_at (n : nat) (x : state * sg_tape) : Prop :=
  tape_ok (snd x) /\
  exists h0 h T,
    a_steps P n (mkA 0 h0 zero_tape) = Some (mkA (fst x) h T) /\
    rep (snd x) T h /\
    (forall y, (y < wl (snd x) h \/ wr (snd x) h < y)%Z -> T y = 0) /\
    (sgt_scan (snd x) = None -> T h = 0).

Lemma real_at_0 t : tape_ok t -> sg_tape_blank t = true -> real_at 0 (0, t).
Proof.
  intros Hok Hb. split; [exact Hok|]. exists 0%Z, 0%Z, zero_tape. cbn [fst snd a_steps].
  split; [reflexivity|]. split; [apply rep_blank_zero; exact Hb|].
  split; intros; reflexivity.
Qed.

Lemma real_mstep n x x' : real_at n x -> mstep x = Some x' ->
  exists k, (1 <= k)%nat /\ real_at (n + k) x'.
Proof.
  destruct x as [q t]. intros (Hok & h0 & h & T & R & Hrep & Hout & Hnone) Hm.
  unfold mstep in Hm. cbn [fst snd] in *.
  destruct (sgt_scan t) as [c|] eqn:Hscan; [|discriminate].
  destruct (cp_get prog (q, c)) as [[[pr sh] q']|] eqn:HP; [|discriminate].
  destruct (sg_tape_step t sh pr (q' =? q)) as [|t'] eqn:Hs; [discriminate|].
  injection Hm as <-.
  destruct (sg_tape_step_sim P q c pr sh q' t t' T h HP Hscan Hok Hrep Hs)
    as (k & T' & h' & Hk & R' & Hok' & Hrep' & _ & Wo & Hpos).
  exists k. split; [exact Hk|]. split; [exact Hok'|]. cbn [fst snd].
  exists h0, h', T'. split; [rewrite a_steps_add, R; exact R'|]. split; [exact Hrep'|].
  pose proof (zlen_nonneg (sgt_lspan t)) as Zl. pose proof (zlen_nonneg (sgt_rspan t)) as Zr.
  destruct (sgt_scan t') as [c'|] eqn:Hscan'.
  - destruct Hpos as [E1 E2]. split; [|discriminate].
    intros y Hy. rewrite Wo by lia. apply Hout. lia.
  - destruct sh.
    + destruct Hpos as (Eh & Er & El). split.
      * intros y Hy. unfold wr in Hy. rewrite Er, zlen_nil in Hy.
        rewrite Wo by lia. apply Hout. lia.
      * intros _. rewrite Wo by (unfold wl, wr in *; lia). apply Hout. lia.
    + destruct Hpos as (Eh & Er & El). split.
      * intros y Hy. unfold wl in Hy. rewrite Er, zlen_nil in Hy.
        rewrite Wo by lia. apply Hout. lia.
      * intros _. rewrite Wo by (unfold wl, wr in *; lia). apply Hout. lia.
Qed.

Lemma real_miter : forall m n x x', real_at n x -> miter m x = Some x' ->
  exists k, (m <= k)%nat /\ real_at (n + k) x'.
Proof.
  induction m as [|m IH]; intros n x x' Hr Hm; cbn [miter] in Hm.
  - injection Hm as <-. exists 0%nat. split; [lia|]. rewrite Nat.add_0_r. exact Hr.
  - destruct (mstep x) as [x1|] eqn:E; [|discriminate].
    destruct (real_mstep n x x1 Hr E) as (k1 & Hk1 & Hr1).
    destruct (IH _ x1 x' Hr1 Hm) as (k & Hk & Hr').
    exists (k1 + k)%nat. split; [lia|]. rewrite Nat.add_assoc. exact Hr'.
Qed.

(** ---- the four events, absolute presentation, any starting cell ---- *)
Definition HaltFact : Prop :=
  exists n h0 c, a_steps P n (mkA 0 h0 zero_tape) = Some c /\ a_step P c = None.
Definition SpinFact : Prop :=
  exists n h0 c, a_steps P n (mkA 0 h0 zero_tape) = Some c /\ a_spinout_cfg P c.
Definition BlankFact : Prop :=
  exists n h0 c, a_steps P (S n) (mkA 0 h0 zero_tape) = Some c /\ forall y, a_t c y = 0.
Definition NHFact : Prop :=
  forall j, exists n h0 c, (j <= n)%nat /\ a_steps P n (mkA 0 h0 zero_tape) = Some c.

Lemma real_halt n q t c : real_at n (q, t) -> sgt_scan t = Some c -> cp_get prog (q, c) = None ->
  HaltFact.
Proof.
  intros (_ & h0 & h & T & R & (Rs & _) & _) Hs HP. cbn [fst snd] in *.
  exists n, h0, (mkA q h T). split; [exact R|]. unfold a_step. cbn [a_q a_h a_t].
  rewrite (Rs c Hs). unfold to_prog. rewrite HP. reflexivity.
Qed.

Lemma real_blank_all n x : real_at n x -> sg_tape_blank (snd x) = true ->
  exists h0 h T, a_steps P n (mkA 0 h0 zero_tape) = Some (mkA (fst x) h T) /\ forall y, T y = 0.
Proof.
  intros (_ & h0 & h & T & R & Hrep & Hout & Hnone) Hb. exists h0, h, T. split; [exact R|].
  intro y. destruct (Z_lt_le_dec y (wl (snd x) h)) as [L|G]; [apply Hout; lia|].
  destruct (Z_lt_le_dec (wr (snd x) h) y) as [L'|G']; [apply Hout; lia|].
  destruct (Z.eq_dec y h) as [->|Ne].
  - destruct (sgt_scan (snd x)) as [c|] eqn:Es; [|apply Hnone; reflexivity].
    apply (rep_blank_window _ T h Hb Hrep); [lia|]. right. rewrite Es. discriminate.
  - apply (rep_blank_window _ T h Hb Hrep); [lia|]. left. exact Ne.
Qed.

Lemma real_spinout n c sl pr sh st :
  real_at n (sg_x c) -> sg_config_slot c = Some sl -> cp_get prog sl = Some (pr, sh, st) ->
  sg_config_spinout c (pr, sh, st) = true -> SpinFact.
Proof.
  intros (_ & h0 & h & T & R & (Rs & Rl & Rr) & Hout & _) Hsl HP Hsp.
  unfold sg_x in *. cbn [fst snd] in *.
  unfold sg_config_spinout in Hsp. apply andb_true_iff in Hsp. destruct Hsp as [Eq He].
  apply N.eqb_eq in Eq. subst st.
  unfold sg_tape_at_edge in He. apply andb_true_iff in He. destruct He as [Es Hb].
  unfold sg_config_slot in Hsl.
  destruct (sgt_scan (sgc_tape c)) as [co|] eqn:Hscan; [|discriminate].
  cbn [sg_ocolour_eqb] in Es. apply N.eqb_eq in Es. subst co. injection Hsl as <-.
  exists n, h0, (mkA (sgc_state c) h T). split; [exact R|].
  unfold a_spinout_cfg. cbn [a_q a_h a_t]. split; [apply Rs; reflexivity|].
  exists pr, sh. split; [exact HP|]. intros x Hx. destruct sh.
  - destruct (Z_lt_le_dec (wr (sgc_tape c) h) x) as [L|G]; [apply Hout; lia|].
    unfold wr in G. replace x with (h + 1 + 1 * (x - h - 1))%Z by lia.
    apply (span_blank_at _ T _ _ Hb Rr). lia.
  - destruct (Z_lt_le_dec x (wl (sgc_tape c) h)) as [L|G]; [apply Hout; lia|].
    unfold wl in G. replace x with (h - 1 + -1 * (h - 1 - x))%Z by lia.
    apply (span_blank_at _ T _ _ Hb Rl). lia.
Qed.

(** state 0 on the all-blank tape again, after n >= 1 steps *)
Lemma real_blank_repeat n x : real_at n x -> (1 <= n)%nat -> fst x = 0 ->
  sg_tape_blank (snd x) = true -> NHFact /\ BlankFact.
Proof.
  intros Hr Hn Hq Hb. destruct (real_blank_all n x Hr Hb) as (h0 & h & T & R & HT).
  rewrite Hq in R. split.
  - assert (NH : a_never_halts P (mkA 0 h0 zero_tape)).
    { apply (translated_cycle P (mkA 0 h0 zero_tape) (mkA 0 h T) n
               (h0 - Z.of_nat n)%Z (h0 + Z.of_nat n)%Z (h - h0)%Z Hn R).
      - intros i ci Hi Hc. pose proof (head_bound P i _ _ Hc) as Hbd. cbn [a_h] in Hbd. lia.
      - reflexivity.
      - cbn [a_h]. lia.
      - intros y _. cbn [a_t]. apply HT.
      - intros _ y _. cbn [a_t]. apply HT.
      - intros _ y _. cbn [a_t]. apply HT. }
    intro j. destruct (NH j) as [c Hc]. exists j, h0, c. split; [lia|exact Hc].
  - destruct n as [|n]; [lia|]. exists n, h0, (mkA 0 h T). split; [exact R|exact HT].
Qed.

Lemma real_periodic n x m : real_at n x -> miter m x = Some x -> (1 <= m)%nat ->
  forall j, exists n', (j <= n')%nat /\ real_at n' x.
Proof.
  intros Hr Hm Hm1. induction j as [|j (n' & Hj & Hr')].
  - exists n. split; [lia|exact Hr].
  - destruct (real_miter m n' x x Hr' Hm) as (k & Hk & Hr''). exists (n' + k)%nat.
    split; [lia|exact Hr''].
Qed.

Lemma real_NH x : (forall j, exists n', (j <= n')%nat /\ real_at n' x) -> NHFact.
Proof.
  intros H j. destruct (H j) as (n' & Hj & _ & h0 & h & T & R & _).
  exists n', h0, (mkA (fst x) h T). split; [exact Hj|exact R].
Qed.

(** tortoise = hare, m >= 1 macro steps apart *)
Lemma real_cycle n x m : real_at n x -> miter m x = Some x -> (1 <= m)%nat ->
  NHFact /\ (sg_tape_blank (snd x) = true -> BlankFact).
Proof.
  intros Hr Hm Hm1. split; [apply (real_NH x), (real_periodic n x m Hr Hm Hm1)|].
  intro Hb. destruct (real_miter m n x x Hr Hm) as (k & Hk & Hr').
  destruct (real_blank_all _ x Hr' Hb) as (h0 & h & T & R & HT).
  destruct (n + k)%nat as [|n1] eqn:E; [lia|].
  exists n1, h0, (mkA (fst x) h T). split; [exact R|exact HT].
Qed.

(** ---- small facts about the bookkeeping ---- *)
Lemma sg_check_reached_todo cs c goal b cs' :
  sg_check_reached cs c goal = (b, cs') -> sgs_todo cs' = sgs_todo cs.
Proof.
  unfold sg_check_reached, sg_check_reached_blank.
  destruct (sg_term_eqb goal SgBlank).
  - destruct (sg_dict_get (sgc_state c) (sgs_blanks cs)); intro E; injection E as _ <-; reflexivity.
  - destruct (sg_dict_get (sgc_state c) (sgs_reached cs)); intro E; injection E as _ <-; reflexivity.
Qed.

Lemma sg_check_seen_spec cs st t b o cs' :
  sg_check_seen cs st t b = (o, cs') ->
  sgs_todo cs' = sgs_todo cs /\ forall i, o = Some i -> i = b && (st =? 0).
Proof.
  unfold sg_check_seen. destruct b.
  - destruct (sg_nset_mem _ _); intro E; injection E as <- <-;
      (split; [reflexivity|intros i Hi; try discriminate; injection Hi as <-; reflexivity]).
  - destruct (sg_tapes_mem _ _); intro E; injection E as <- <-;
      (split; [reflexivity|intros i Hi; try discriminate; injection Hi as <-; reflexivity]).
Qed.

(** ---- LAYER 2: [run_to_edge] ---- *)
Definition rte_post (todo0 : list sg_config) (r : sg_rte_ret) : Prop :=
  match r with
  | Panic => True
  | Ok (res, c', cs') =>
      sgs_todo cs' = todo0 /\ tape_ok (sgc_tape c') /\
      (sgc_init c' = true ->
         match res with
         | Some (SgFound SgHalt) => HaltFact
         | Some (SgFound SgSpinout) => SpinFact
         | Some SgRepeat => NHFact /\ (sg_tape_blank (sgc_tape c') = true -> BlankFact)
         | _ => True
         end)
  end.

Definition rte_inv (todo0 : list sg_config) (s : sg_rte_state) : Prop :=
  sgs_todo (rte_configs s) = todo0 /\ tape_ok (sgc_tape (rte_self s)) /\
  (sgc_init (rte_self s) = true -> exists n, real_at n (sg_x (rte_self s))) /\
  exists m, miter m (sg_x (rte_copy s)) = Some (sg_x (rte_self s)) /\
            (rte_step s = true -> (1 <= m)%nat).

Lemma rte_blank_check_spec goal print st self1 cs :
  match sg_rte_blank_check goal print st self1 cs with
  | inl (self2, cs2) =>
      sg_x self2 = sg_x self1 /\ sgs_todo cs2 = sgs_todo cs /\
      (sgc_init self2 = true ->
       sgc_init self1 = true \/ (st = 0 /\ sg_tape_blank (sgc_tape self1) = true))
  | inr (Ok (res, self2, cs2)) =>
      sg_x self2 = sg_x self1 /\ sgs_todo cs2 = sgs_todo cs /\
      ((res = Some SgRepeat /\ st = 0 /\ sgc_init self1 = true /\ self2 = self1 /\
        sg_tape_blank (sgc_tape self1) = true) \/ res = Some (SgFound SgBlank))
  | inr Panic => False
  end.
Proof.
  unfold sg_rte_blank_check.
  destruct ((print =? 0) && sg_tape_blank (sgc_tape self1)) eqn:Eb.
  2:{ split; [reflexivity|]. split; [reflexivity|]. intro H; left; exact H. }
  apply andb_true_iff in Eb. destruct Eb as [_ Hb].
  destruct ((st =? 0) && sgc_init self1) eqn:Ei.
  { apply andb_true_iff in Ei. destruct Ei as [E0 Ei]. apply N.eqb_eq in E0.
    split; [reflexivity|]. split; [reflexivity|]. left. repeat split; assumption. }
  assert (Hx : sg_x (if st =? 0 then mkSgConfig (sgc_state self1) (sgc_tape self1) true else self1)
               = sg_x self1) by (destruct (st =? 0); reflexivity).
  destruct (sg_term_eqb goal SgBlank).
  - split; [exact Hx|]. split; [reflexivity|]. right. reflexivity.
  - split; [exact Hx|]. split; [reflexivity|]. intro Hi.
    destruct (N.eqb_spec st 0) as [E0|E0]; [right; split; assumption|left; exact Hi].
Qed.

Lemma rte_body_inv goal todo0 s : rte_inv todo0 s ->
  match sg_rte_body prog goal s with
  | inl s' => rte_inv todo0 s'
  | inr r => rte_post todo0 r
  end.
Proof.
  destruct s as [self copy step cs]. unfold rte_inv. cbn [rte_self rte_copy rte_step rte_configs].
  intros (Htodo & Hok & Hreal & m & Hm & Hm1). unfold sg_rte_body.
  cbn [rte_self rte_copy rte_step rte_configs].
  destruct (sg_config_slot self) as [sl|] eqn:Esl.
  2:{ cbn [rte_post]. split; [exact Htodo|]. split; [exact Hok|]. intros _. exact I. }
  destruct (cp_get prog sl) as [i|] eqn:HP.
  2:{ cbn [rte_post]. split; [exact Htodo|]. split; [exact Hok|]. intro Hi.
      destruct (Hreal Hi) as [n Hr]. unfold sg_config_slot in Esl.
      destruct (sgt_scan (sgc_tape self)) as [co|] eqn:Es; [|discriminate]. injection Esl as <-.
      apply (real_halt n _ _ co Hr Es HP). }
  destruct i as [[print sh] st].
  (* the spin-out test *)
  destruct (if (sgc_init self || sg_term_eqb goal SgSpinout) && sg_config_spinout self (print, sh, st)
            then if sgc_init self then (true, cs) else sg_check_reached cs self goal
            else (false, cs)) as [spin cs1] eqn:Espin.
  assert (Hspin : sgs_todo cs1 = sgs_todo cs /\
                  (spin = true -> sg_config_spinout self (print, sh, st) = true)).
  { destruct ((sgc_init self || sg_term_eqb goal SgSpinout) && sg_config_spinout self (print, sh, st)) eqn:E1.
    - apply andb_true_iff in E1. destruct E1 as [_ E1]. destruct (sgc_init self).
      + injection Espin as <- <-. split; [reflexivity|intros _; exact E1].
      + split; [apply (sg_check_reached_todo _ _ _ _ _ Espin)|intros _; exact E1].
    - injection Espin as <- <-. split; [reflexivity|discriminate]. }
  destruct Hspin as [Htodo1 Hspin].
  destruct spin.
  { cbn [rte_post]. split; [congruence|]. split; [exact Hok|]. intro Hi.
    destruct (Hreal Hi) as [n Hr].
    apply (real_spinout n self sl print sh st Hr Esl HP (Hspin eq_refl)). }
  destruct (sg_config_step self (print, sh, st)) as [|self1] eqn:Estep; [exact I|].
  destruct (config_step_mstep self sl print sh st self1 Esl HP Estep) as (Hms & Hinit1 & Hst1).
  assert (Hok1 : tape_ok (sgc_tape self1)).
  { apply (mstep_tape_ok (sg_x self) (sg_x self1)); [exact Hok|exact Hms]. }
  assert (Hreal1 : sgc_init self1 = true -> exists n, (1 <= n)%nat /\ real_at n (sg_x self1)).
  { intro Hi. rewrite Hinit1 in Hi. destruct (Hreal Hi) as [n Hr].
    destruct (real_mstep n _ _ Hr Hms) as (k & Hk & Hr1). exists (n + k)%nat.
    split; [lia|exact Hr1]. }
  pose proof (miter_snoc m _ _ _ Hm Hms) as Hm'.
  pose proof (rte_blank_check_spec goal print st self1 cs1) as HB.
  destruct (sg_rte_blank_check goal print st self1 cs1) as [[self2 cs2]|r].
  2:{ destruct r as [|[[res self2] cs2]]; [exact I|].
      destruct HB as (Hx & Ht2 & Hres). cbn [rte_post]. split; [congruence|].
      assert (Et : sgc_tape self2 = sgc_tape self1) by (injection Hx as _ E; exact E).
      split; [rewrite Et; exact Hok1|]. intro Hi.
      destruct Hres as [(Eres & E0 & Hi1 & E21 & Hb)|Eres]; rewrite Eres; [|exact I]. subst self2.
      destruct (Hreal1 Hi1) as (n & Hn & Hr).
      destruct (real_blank_repeat n _ Hr Hn) as [NH BF].
      { unfold sg_x. cbn [fst]. congruence. }
      { exact Hb. }
      split; [exact NH|intros _; exact BF]. }
  destruct HB as (Hx & Ht2 & Hinit2).
  assert (Et : sgc_tape self2 = sgc_tape self1) by (injection Hx as _ E; exact E).
  assert (Hreal2 : sgc_init self2 = true -> exists n, real_at n (sg_x self2)).
  { intro Hi. rewrite Hx. destruct (Hinit2 Hi) as [Hi1|[E0 Hb]].
    - destruct (Hreal1 Hi1) as (n & _ & Hr). exists n. exact Hr.
    - exists 0%nat. unfold sg_x. rewrite Hst1, E0. apply real_at_0; assumption. }
  (* the tortoise *)
  unfold sg_rte_copy_step. destruct step; cbn [negb].
  2:{ unfold rte_inv. cbn [rte_self rte_copy rte_step rte_configs].
      split; [congruence|]. split; [rewrite Et; exact Hok1|]. split; [exact Hreal2|].
      exists (S m). split; [rewrite Hx; exact Hm'|intros _; lia]. }
  destruct (sg_config_slot copy) as [cslot|] eqn:Ecs; [|exact I].
  destruct (cp_get prog cslot) as [[[cpr csh] cst]|] eqn:HPc; [|exact I].
  destruct (sg_config_step copy (cpr, csh, cst)) as [|copy'] eqn:Ecstep; [exact I|].
  destruct (config_step_mstep copy cslot cpr csh cst copy' Ecs HPc Ecstep) as (Hmc & _ & _).
  assert (Hm2 : miter m (sg_x copy') = Some (sg_x self2)).
  { rewrite Hx. change (miter (S m) (sg_x copy)) with
      (match mstep (sg_x copy) with Some x' => miter m x' | None => None end) in Hm'.
    rewrite Hmc in Hm'. exact Hm'. }
  specialize (Hm1 eq_refl).
  destruct ((sgc_state copy' =? sgc_state self2) && sg_tape_eqb (sgc_tape copy') (sgc_tape self2)) eqn:Ecmp.
  - apply andb_true_iff in Ecmp. destruct Ecmp as [E1 E2]. apply N.eqb_eq in E1.
    apply sg_tape_eqb_eq in E2.
    assert (Ex : sg_x copy' = sg_x self2) by (unfold sg_x; congruence).
    rewrite Ex in Hm2.
    cbn [rte_post]. split; [congruence|]. split; [rewrite Et; exact Hok1|]. intro Hi.
    destruct (Hreal2 Hi) as [n Hr].
    apply (real_cycle n (sg_x self2) m Hr Hm2 Hm1).
  - unfold rte_inv. cbn [rte_self rte_copy rte_step rte_configs].
    split; [congruence|]. split; [rewrite Et; exact Hok1|]. split; [exact Hreal2|].
    exists m. split; [exact Hm2|discriminate].
Qed.

Definition cfg_ok (c : sg_config) : Prop :=
  tape_ok (sgc_tape c) /\
  (sgc_init c = true -> sgc_state c = 0 /\ sg_tape_blank (sgc_tape c) = true).

Theorem sg_run_to_edge_sound goal c cs :
  cfg_ok c -> rte_post (sgs_todo cs) (sg_run_to_edge prog goal c cs).
Proof.
  intros [Hok Hinit]. unfold sg_run_to_edge.
  destruct (sgt_scan (sgc_tape c)).
  2:{ cbn [rte_post]. split; [reflexivity|]. split; [exact Hok|]. intros _. exact I. }
  rewrite for_upto_iter.
  pose proof (iter_nat_inv (sg_rte_body prog goal) (rte_inv (sgs_todo cs)) (rte_post (sgs_todo cs))
                (rte_body_inv goal (sgs_todo cs))
                (N.to_nat (sg_rte_fuel prog (sgs_seg cs))) (mkSgRte c c false cs)) as H.
  destruct (iter_nat _ _ _) as [s'|r]; [exact I|]. apply H.
  unfold rte_inv. cbn [rte_self rte_copy rte_step rte_configs].
  split; [reflexivity|]. split; [exact Hok|]. split.
  - intro Hi. destruct (Hinit Hi) as [E0 Hb]. exists 0%nat. unfold sg_x. rewrite E0.
    apply real_at_0; assumption.
  - exists 0%nat. split; [reflexivity|discriminate].
Qed.

(** ---- LAYER 3: the exploration keeps [cfg_ok] on everything it queues ---- *)
Definition asr_inv (cs : sg_configs) : Prop := Forall cfg_ok (sgs_todo cs).

Definition asr_post (r : sg_asr_ret) : Prop :=
  match r with
  | Ok (Some (SgFound SgHalt)) => HaltFact
  | Ok (Some (SgFound SgSpinout)) => SpinFact
  | Ok (Some (SgFound SgBlank)) => BlankFact
  | Ok (Some SgRepeat) => NHFact
  | _ => True
  end.

Lemma sg_configs_next_inv cs c cs0 :
  asr_inv cs -> sg_configs_next cs = Ok (Some c, cs0) -> cfg_ok c /\ asr_inv cs0.
Proof.
  intros Hinv H. unfold sg_configs_next, sg_next_init in H.
  destruct (sg_find_free _ _ _) as [pos|].
  - unfold sg_config_init in H.
    destruct (sg_tape_init (sgs_seg cs) pos) as [|t] eqn:Et; [discriminate|].
    cbn [obind] in H. injection H as <- <-.
    destruct (sg_tape_init_ok _ _ _ Et) as [Hok Hb].
    split; [|exact Hinv]. split; [exact Hok|]. intros _. split; [reflexivity|exact Hb].
  - cbn [obind] in H. cbn [sgs_set_blanks sgs_todo] in H.
    unfold asr_inv in Hinv. destruct (sgs_todo cs) as [|c1 todo'] eqn:Etodo; [discriminate|].
    injection H as <- <-. inversion Hinv as [|? ? H1 H2]; subst.
    split; [exact H1|exact H2].
Qed.

Lemma sg_branch_in_loop_inv t sh blank : tape_ok t ->
  (blank = true -> sg_tape_blank t = true) ->
  forall sts cs cs', asr_inv cs -> sg_branch_in_loop cs t sh blank sts = Ok cs' -> asr_inv cs'.
Proof.
  intros Hok Hb. induction sts as [|st sts IH]; intros cs cs' Hinv H; cbn [sg_branch_in_loop] in H.
  - injection H as <-. exact Hinv.
  - destruct (sg_tape_step_in t sh) as [|nt] eqn:Ein; [discriminate|]. cbn [obind] in H.
    destruct (sg_tape_step_in_ok t sh nt Hok Ein) as (Hok' & Hb' & _).
    destruct (sg_check_seen cs st nt blank) as [[init|] cs1] eqn:Ecs;
      destruct (sg_check_seen_spec _ _ _ _ _ _ Ecs) as [Ht Hi].
    + apply (fun Hx => IH _ _ Hx H). unfold asr_inv, sg_add_todo. cbn [sgs_set_todo sgs_todo].
      constructor; [|rewrite Ht; exact Hinv]. unfold sg_config_new. split; [exact Hok'|].
      cbn [sgc_init sgc_state sgc_tape]. intro E. rewrite (Hi init eq_refl) in E.
      apply andb_true_iff in E. destruct E as [E1 E2]. apply N.eqb_eq in E2.
      split; [exact E2|apply Hb', Hb, E1].
    + apply (fun Hx => IH _ _ Hx H). unfold asr_inv. rewrite Ht. exact Hinv.
Qed.

Lemma sg_branch_out_loop_inv t blank : tape_ok t ->
  (blank = true -> sg_tape_blank t = true) ->
  forall sts cs, asr_inv cs -> asr_inv (sg_branch_out_loop cs t blank sts).
Proof.
  intros Hok Hb. induction sts as [|st sts IH]; intros cs Hinv; cbn [sg_branch_out_loop]; [exact Hinv|].
  destruct (sg_check_seen cs st t blank) as [[init|] cs1] eqn:Ecs;
    destruct (sg_check_seen_spec _ _ _ _ _ _ Ecs) as [Ht Hi]; apply IH.
  - unfold asr_inv, sg_add_todo. cbn [sgs_set_todo sgs_todo].
    constructor; [|rewrite Ht; exact Hinv]. unfold sg_config_new. split; [exact Hok|].
    cbn [sgc_init sgc_state sgc_tape]. intro E. rewrite (Hi init eq_refl) in E.
    apply andb_true_iff in E. destruct E as [E1 E2]. apply N.eqb_eq in E2.
    split; [exact E2|apply Hb, E1].
  - unfold asr_inv. rewrite Ht. exact Hinv.
Qed.

Lemma sg_branch_out_inv c diffs blank cs : tape_ok (sgc_tape c) ->
  (blank = true -> sg_tape_blank (sgc_tape c) = true) ->
  asr_inv cs -> asr_inv (sg_branch_out cs c diffs blank).
Proof.
  intros Hok Hb Hinv. unfold sg_branch_out.
  destruct (sg_split_last diffs) as [[last_next front]|]; [|exact Hinv].
  pose proof (sg_branch_out_loop_inv _ blank Hok Hb front cs Hinv) as H1.
  destruct (sg_check_seen _ last_next (sgc_tape c) blank) as [[init|] cs2] eqn:Ecs;
    destruct (sg_check_seen_spec _ _ _ _ _ _ Ecs) as [Ht Hi].
  - unfold asr_inv, sg_add_todo. cbn [sgs_set_todo sgs_todo].
    constructor; [|rewrite Ht; exact H1]. split; [exact Hok|].
    cbn [sgc_init sgc_state sgc_tape]. intro E. rewrite (Hi init eq_refl) in E.
    apply andb_true_iff in E. destruct E as [E1 E2]. apply N.eqb_eq in E2.
    split; [exact E2|apply Hb, E1].
  - unfold asr_inv. rewrite Ht. exact H1.
Qed.

Lemma sg_asr_check_reached_inv goal c cs : asr_inv cs ->
  match sg_asr_check_reached goal c cs with
  | inl cs' => asr_inv cs'
  | inr r => asr_post r
  end.
Proof.
  intro Hinv. unfold sg_asr_check_reached.
  destruct (sg_check_reached cs c goal) as [b cs'] eqn:E.
  destruct b; [exact I|]. unfold asr_inv. rewrite (sg_check_reached_todo _ _ _ _ _ E). exact Hinv.
Qed.

Lemma sg_asr_body_inv (ap : sg_aprog) goal cs : sga_prog ap = prog -> asr_inv cs ->
  match sg_asr_body ap goal cs with
  | inl cs' => asr_inv cs'
  | inr r => asr_post r
  end.
Proof.
  intros Hap Hinv. unfold sg_asr_body.
  destruct (sg_configs_next cs) as [|[[c|] cs0]] eqn:En; [exact I| |exact I].
  destruct (sg_configs_next_inv cs c cs0 Hinv En) as [Hc Hinv0].
  rewrite Hap. pose proof (sg_run_to_edge_sound goal c cs0 Hc) as HR.
  destruct (sg_run_to_edge prog goal c cs0) as [|[[res c'] cs1]]; [exact I|].
  cbn [rte_post] in HR. destruct HR as (Htodo & Hok' & Hres).
  assert (Hinv1 : asr_inv cs1) by (unfold asr_inv; rewrite Htodo; exact Hinv0).
  destruct res as [result|].
  - unfold sg_asr_result. destruct result as [| | |[| |]].
    + exact Hinv1.
    + destruct (sgc_init c') eqn:Ei; [|exact Hinv1]. destruct (Hres eq_refl) as [NH BF].
      destruct (sg_term_eqb goal SgBlank && sg_tape_blank (sgc_tape c')) eqn:Eb; cbn [asr_post].
      * apply andb_true_iff in Eb. apply BF, Eb.
      * exact NH.
    + exact Hinv1.
    + destruct (sgc_init c') eqn:Ei; [exact (Hres eq_refl)|].
      destruct (sg_term_eqb goal SgHalt); [|exact Hinv1].
      apply sg_asr_check_reached_inv. exact Hinv1.
    + destruct (negb (sg_term_eqb goal SgBlank)); [exact I|].
      apply sg_asr_check_reached_inv. exact Hinv1.
    + destruct (sgc_init c') eqn:Ei; [exact (Hres eq_refl)|].
      destruct (negb (sg_term_eqb goal SgSpinout)); [exact I|].
      apply sg_asr_check_reached_inv. exact Hinv1.
  - unfold sg_asr_edge. destruct (sg_goal_tape ap goal c') as [|goal_tape]; [exact I|].
    destruct (if goal_tape then sg_check_reached cs1 c' goal else (false, cs1)) as [reached cs2] eqn:Er.
    assert (Hinv2 : asr_inv cs2).
    { unfold asr_inv. destruct goal_tape.
      - rewrite (sg_check_reached_todo _ _ _ _ _ Er). exact Hinv1.
      - injection Er as _ <-. exact Hinv1. }
    destruct reached; [exact I|].
    destruct (sg_dict_get (sgc_state c') (sga_branches ap)) as [[diffs dirs]|]; [|exact I].
    destruct (sg_branch_in cs2 (sgc_tape c') dirs (sg_tape_blank (sgc_tape c'))) as [|cs3] eqn:Ebi; [exact I|].
    assert (Hinv3 : asr_inv cs3).
    { unfold sg_branch_in in Ebi. destruct (sg_tape_side (sgc_tape c')) as [|sd]; [discriminate|].
      cbn [obind] in Ebi.
      apply (sg_branch_in_loop_inv (sgc_tape c') (negb sd) (sg_tape_blank (sgc_tape c')) Hok'
               (fun H => H) _ cs2 cs3 Hinv2 Ebi). }
    pose proof (sg_branch_out_inv c' diffs (sg_tape_blank (sgc_tape c')) cs3 Hok' (fun H => H) Hinv3) as Hinv4.
    destruct (sg_check_depth _); [exact I|exact Hinv4].
Qed.

(** the invariant in the form asked for: every configuration handed to
    [run_to_edge] whose flag is set is a real configuration (0 steps from the
    blank tape: state 0, blank window, blank outside) *)
Theorem sg_init_exact (ap : sg_aprog) goal : sga_prog ap = prog ->
  forall n cs0 cs, asr_inv cs0 ->
  iter_nat n (sg_asr_body ap goal) cs0 = inl cs ->
  forall c cs', sg_configs_next cs = Ok (Some c, cs') ->
  tape_ok (sgc_tape c) /\ (sgc_init c = true -> real_at 0 (sg_x c)).
Proof.
  intros Hap n cs0 cs Hinv0 Hrun c cs' Hn.
  pose proof (iter_nat_inv (sg_asr_body ap goal) asr_inv asr_post
                (fun s => sg_asr_body_inv ap goal s Hap) n cs0 Hinv0) as H.
  rewrite Hrun in H. destruct (sg_configs_next_inv cs c cs' H Hn) as [[Hok Hi] _].
  split; [exact Hok|]. intro E. destruct (Hi E) as [E0 Hb]. unfold sg_x. rewrite E0.
  apply real_at_0; assumption.
Qed.

(** ---- LAYER 4 at the level of [all_segments_reached] ---- *)
Theorem sg_asr_sound (ap : sg_aprog) seg goal : sga_prog ap = prog ->
  asr_post (sg_all_segments_reached ap seg goal).
Proof.
  intro Hap. unfold sg_all_segments_reached. rewrite for_upto_iter.
  pose proof (iter_nat_inv (sg_asr_body ap goal) asr_inv asr_post
                (fun s => sg_asr_body_inv ap goal s Hap)
                (N.to_nat (sg_asr_fuel (sga_prog ap) seg))
                (sg_configs_new (sga_halts ap) (sga_spinouts ap) seg goal)) as H.
  destruct (iter_nat _ _ _) as [s'|r]; [exact I|]. apply H.
  unfold asr_inv, sg_configs_new. cbn [sgs_todo]. constructor.
Qed.

End Run.

Lemma sg_aprog_new_prog prog params : sga_prog (sg_aprog_new prog params) = prog.
Proof.
  unfold sg_aprog_new. destruct params as [states colors].
  destruct (fold_left _ _ _) as [[halts spinouts] branches]. reflexivity.
Qed.

Definition scr_post (prog : comp_prog) (r : outcome sg_result) : Prop :=
  match r with
  | Ok SgrHalt => HaltFact prog
  | Ok SgrSpinout => SpinFact prog
  | Ok SgrBlank => BlankFact prog
  | Ok SgrRepeat => NHFact prog
  | _ => True
  end.

Theorem sg_scr_sound prog params segs goal :
  scr_post prog (sg_segment_cant_reach prog params segs goal).
Proof.
  unfold sg_segment_cant_reach. destruct (negb (2 <=? segs)); [exact I|].
  set (ap := sg_aprog_new prog params).
  destruct (_ || _); [exact I|].
  destruct (for_upto (segs - 1) (sg_scr_body ap goal) 2) as [x|r] eqn:E; [exact I|].
  rewrite for_upto_iter in E. destruct (iter_nat_inr_witness _ _ _ _ E) as [seg Hb].
  unfold sg_scr_body in Hb.
  pose proof (sg_asr_sound prog ap (2 + seg) goal (sg_aprog_new_prog prog params)) as HS.
  destruct (sg_all_segments_reached ap (2 + seg) goal) as [|[[| | |[| |]]|]];
    try discriminate; injection Hb as <-; cbn [scr_post sg_result_from_term]; try exact I; exact HS.
Qed.

Print Assumptions sg_run_to_edge_sound.
Print Assumptions sg_init_exact.
Print Assumptions sg_scr_sound.
