(** C11: the rule arithmetic of src/rules.rs is exact.
    [calculate_diff]/[make_rule] infer additive differences that reproduce the
    four count vectors (as long as the true differences fit an i32, which is
    sharp: finding F6); [count_apps] returns the LARGEST number of applications
    that leaves every decreasing block with at least one cell; [apply_rule]
    changes every affected block by exactly difference x times and nothing
    else; a rule that is not applied leaves the tape untouched.  The pre-fix
    definitions are refuted by explicit witnesses (findings F4 and F7). *)
From BB Require Import Base TapeModel RulesModel.
From Coq Require Import ZifyBool.

Local Open Scope N_scope.

(** ---- outcome monad ---- *)
Lemma obind_ok {A B} (x : outcome A) (f : A -> outcome B) (y : B) :
  obind x f = Ok y -> exists a, x = Ok a /\ f a = Ok y.
Proof. destruct x as [|a]; cbn [obind]; [discriminate|]. intros H. exists a. split; [reflexivity|exact H]. Qed.

(** ---- i32 truncation ---- *)
Lemma i32_of_u64_range n : (-2147483648 <= i32_of_u64 n < 2147483648)%Z.
Proof.
  unfold i32_of_u64.
  pose proof (Z.mod_pos_bound (Z.of_N n) 4294967296 eq_refl) as Hm.
  destruct (Z.ltb_spec (Z.of_N n mod 4294967296) 2147483648); lia.
Qed.

Lemma i32_of_u64_cong n : exists k : Z, i32_of_u64 n = (Z.of_N n + k * 4294967296)%Z.
Proof.
  unfold i32_of_u64.
  pose proof (Z.div_mod (Z.of_N n) 4294967296 ltac:(lia)) as Hd.
  destruct (Z.ltb_spec (Z.of_N n mod 4294967296) 2147483648).
  - exists (- (Z.of_N n / 4294967296))%Z. lia.
  - exists (- (Z.of_N n / 4294967296) - 1)%Z. lia.
Qed.

Lemma in_i32_true z : in_i32 z = true <-> (-2147483648 <= z <= 2147483647)%Z.
Proof. unfold in_i32. lia. Qed.

(** two integers of an interval of width 2^32 that are congruent mod 2^32 are equal *)
Lemma cong_small (x y k : Z) :
  (x = y + k * 4294967296)%Z -> (-2147483648 <= x <= 2147483647)%Z ->
  (-2147483648 < y < 2147483648)%Z -> x = y.
Proof. intros. assert (k = 0%Z) by lia. lia. Qed.

Definition small_diff (a b : N) : Prop := (Z.abs (Z.of_N b - Z.of_N a) < 2147483648)%Z.

(** ---- calculate_diff ---- *)
Lemma calculate_diff_plus a b c d x :
  calculate_diff a b c d = Ok (DGot (Plus x)) ->
  x = (i32_of_u64 b - i32_of_u64 a)%Z /\
  x = (i32_of_u64 c - i32_of_u64 b)%Z /\
  x = (i32_of_u64 d - i32_of_u64 c)%Z /\
  in_i32 x = true.
Proof.
  unfold calculate_diff.
  destruct ((a =? b) && (b =? c) && (c =? d)); [discriminate|].
  set (a' := i32_of_u64 a). set (b' := i32_of_u64 b). set (c' := i32_of_u64 c). set (d' := i32_of_u64 d).
  destruct (in_i32 (b' - a')) eqn:E1; cbn [negb]; [|discriminate].
  destruct (in_i32 (c' - b')) eqn:E2; cbn [negb]; [|discriminate].
  destruct (Z.eqb_spec (b' - a') (c' - b')) as [E12|E12].
  - destruct (in_i32 (d' - c')) eqn:E3; cbn [obind]; [|discriminate].
    destruct (Z.eqb_spec (c' - b') (d' - c')) as [E23|E23].
    + intros H. injection H as H. subst x. repeat split; try lia; try exact E1.
    + destruct ((a' =? 0)%Z || (b' =? 0)%Z); [discriminate|].
      destruct ((b' =? -2147483648)%Z && (a' =? -1)%Z); [discriminate|].
      destruct ((c' =? -2147483648)%Z && (b' =? -1)%Z); [discriminate|].
      cbn [fst snd].
      destruct ((Z.quot b' a' =? Z.quot c' b')%Z && (Z.rem b' a' =? Z.rem c' b')%Z); [|discriminate].
      destruct (c' =? 0)%Z; [discriminate|].
      destruct ((d' =? -2147483648)%Z && (c' =? -1)%Z); [discriminate|].
      destruct ((Z.quot c' b' =? Z.quot d' c')%Z && (Z.rem c' b' =? Z.rem d' c')%Z); discriminate.
  - cbn [obind].
    destruct ((a' =? 0)%Z || (b' =? 0)%Z); [discriminate|].
    destruct ((b' =? -2147483648)%Z && (a' =? -1)%Z); [discriminate|].
    destruct ((c' =? -2147483648)%Z && (b' =? -1)%Z); [discriminate|].
    cbn [fst snd].
    destruct ((Z.quot b' a' =? Z.quot c' b')%Z && (Z.rem b' a' =? Z.rem c' b')%Z); [|discriminate].
    destruct (c' =? 0)%Z; [discriminate|].
    destruct ((d' =? -2147483648)%Z && (c' =? -1)%Z); [discriminate|].
    destruct ((Z.quot c' b' =? Z.quot d' c')%Z && (Z.rem c' b' =? Z.rem d' c')%Z); discriminate.
Qed.

Theorem diff_exact : forall a b c d x,
  small_diff a b -> small_diff b c -> small_diff c d ->
  calculate_diff a b c d = Ok (DGot (Plus x)) ->
  Z.of_N b = (Z.of_N a + x)%Z /\ Z.of_N c = (Z.of_N b + x)%Z /\ Z.of_N d = (Z.of_N c + x)%Z.
Proof.
  intros a b c d x Hab Hbc Hcd H. unfold small_diff in *.
  apply calculate_diff_plus in H. destruct H as (H1 & H2 & H3 & Hx).
  apply in_i32_true in Hx.
  destruct (i32_of_u64_cong a) as (ka & Ea). destruct (i32_of_u64_cong b) as (kb & Eb).
  destruct (i32_of_u64_cong c) as (kc & Ec). destruct (i32_of_u64_cong d) as (kd & Ed).
  assert (X1 : x = (Z.of_N b - Z.of_N a)%Z) by (apply (cong_small _ _ (kb - ka)%Z); lia).
  assert (X2 : x = (Z.of_N c - Z.of_N b)%Z) by (apply (cong_small _ _ (kc - kb)%Z); lia).
  assert (X3 : x = (Z.of_N d - Z.of_N c)%Z) by (apply (cong_small _ _ (kd - kc)%Z); lia).
  lia.
Qed.

Theorem diff_skip : forall a b c d,
  calculate_diff a b c d = Ok DSkip <-> a = b /\ b = c /\ c = d.
Proof.
  intros a b c d. unfold calculate_diff.
  destruct (N.eqb_spec a b) as [Eab|Eab]; cbn [andb].
  2:{ split; [|intros (? & _); contradiction].
      set (a' := i32_of_u64 a). set (b' := i32_of_u64 b). set (c' := i32_of_u64 c). set (d' := i32_of_u64 d).
      destruct (negb (in_i32 (b' - a'))); [discriminate|].
      destruct (negb (in_i32 (c' - b'))); [discriminate|].
      intros H. exfalso. apply obind_ok in H. destruct H as (p & _ & H).
      destruct p; [discriminate|].
      destruct ((a' =? 0)%Z || (b' =? 0)%Z); [discriminate|].
      destruct ((b' =? -2147483648)%Z && (a' =? -1)%Z); [discriminate|].
      destruct ((c' =? -2147483648)%Z && (b' =? -1)%Z); [discriminate|].
      cbn [fst snd] in H.
      destruct ((Z.quot b' a' =? Z.quot c' b')%Z && (Z.rem b' a' =? Z.rem c' b')%Z); [|discriminate].
      destruct (c' =? 0)%Z; [discriminate|].
      destruct ((d' =? -2147483648)%Z && (c' =? -1)%Z); [discriminate|].
      destruct ((Z.quot c' b' =? Z.quot d' c')%Z && (Z.rem c' b' =? Z.rem d' c')%Z); discriminate. }
  destruct (N.eqb_spec b c) as [Ebc|Ebc]; cbn [andb].
  2:{ split; [|intros (_ & ? & _); contradiction].
      set (a' := i32_of_u64 a). set (b' := i32_of_u64 b). set (c' := i32_of_u64 c). set (d' := i32_of_u64 d).
      destruct (negb (in_i32 (b' - a'))); [discriminate|].
      destruct (negb (in_i32 (c' - b'))); [discriminate|].
      intros H. exfalso. apply obind_ok in H. destruct H as (p & _ & H).
      destruct p; [discriminate|].
      destruct ((a' =? 0)%Z || (b' =? 0)%Z); [discriminate|].
      destruct ((b' =? -2147483648)%Z && (a' =? -1)%Z); [discriminate|].
      destruct ((c' =? -2147483648)%Z && (b' =? -1)%Z); [discriminate|].
      cbn [fst snd] in H.
      destruct ((Z.quot b' a' =? Z.quot c' b')%Z && (Z.rem b' a' =? Z.rem c' b')%Z); [|discriminate].
      destruct (c' =? 0)%Z; [discriminate|].
      destruct ((d' =? -2147483648)%Z && (c' =? -1)%Z); [discriminate|].
      destruct ((Z.quot c' b' =? Z.quot d' c')%Z && (Z.rem c' b' =? Z.rem d' c')%Z); discriminate. }
  destruct (N.eqb_spec c d) as [Ecd|Ecd].
  - split; auto.
  - split; [|intros (_ & _ & ?); contradiction].
    set (a' := i32_of_u64 a). set (b' := i32_of_u64 b). set (c' := i32_of_u64 c). set (d' := i32_of_u64 d).
    destruct (negb (in_i32 (b' - a'))); [discriminate|].
    destruct (negb (in_i32 (c' - b'))); [discriminate|].
    intros H. exfalso. apply obind_ok in H. destruct H as (p & _ & H).
    destruct p; [discriminate|].
    destruct ((a' =? 0)%Z || (b' =? 0)%Z); [discriminate|].
    destruct ((b' =? -2147483648)%Z && (a' =? -1)%Z); [discriminate|].
    destruct ((c' =? -2147483648)%Z && (b' =? -1)%Z); [discriminate|].
    cbn [fst snd] in H.
    destruct ((Z.quot b' a' =? Z.quot c' b')%Z && (Z.rem b' a' =? Z.rem c' b')%Z); [|discriminate].
    destruct (c' =? 0)%Z; [discriminate|].
    destruct ((d' =? -2147483648)%Z && (c' =? -1)%Z); [discriminate|].
    destruct ((Z.quot c' b' =? Z.quot d' c')%Z && (Z.rem c' b' =? Z.rem d' c')%Z); discriminate.
Qed.

(** ---- rules as association lists ---- *)
Fixpoint rule_get (r : rule) (ix : index) : option op :=
  match r with
  | [] => None
  | (k, o) :: r' => if index_eqb k ix then Some o else rule_get r' ix
  end.
Definition all_plus (r : rule) : Prop := forall ix o, In (ix, o) r -> exists x, o = Plus x.
Definition rule_keys_nodup (r : rule) : Prop := NoDup (map fst r).

Lemma index_eqb_eq (a b : index) : index_eqb a b = true <-> a = b.
Proof.
  destruct a as [sa pa], b as [sb pb]. unfold index_eqb. cbn [fst snd].
  rewrite andb_true_iff, Bool.eqb_true_iff, N.eqb_eq.
  split; [intros (-> & ->); reflexivity|intros H; injection H; auto].
Qed.

Lemma index_eqb_refl a : index_eqb a a = true.
Proof. apply index_eqb_eq. reflexivity. Qed.

Lemma index_eqb_neq (a b : index) : index_eqb a b = false <-> a <> b.
Proof.
  destruct (index_eqb a b) eqn:E.
  - apply index_eqb_eq in E. split; [discriminate|contradiction].
  - split; [|reflexivity]. intros _ H. apply index_eqb_eq in H. congruence.
Qed.

Lemma rule_get_app r1 r2 ix :
  rule_get (r1 ++ r2) ix = match rule_get r1 ix with Some o => Some o | None => rule_get r2 ix end.
Proof.
  induction r1 as [|[k o] r1 IH]; cbn [app rule_get]; [reflexivity|].
  destruct (index_eqb k ix); [reflexivity|exact IH].
Qed.

Lemma rule_get_none r ix : (forall k o, In (k, o) r -> k <> ix) -> rule_get r ix = None.
Proof.
  induction r as [|[k o] r IH]; intros H; cbn [rule_get]; [reflexivity|].
  destruct (index_eqb k ix) eqn:E.
  - apply index_eqb_eq in E. exfalso. apply (H k o); [left; reflexivity|exact E].
  - apply IH. intros k' o' Hin. apply (H k' o'). right. exact Hin.
Qed.

Lemma rule_get_in r ix o : rule_get r ix = Some o -> In (ix, o) r.
Proof.
  induction r as [|[k o'] r IH]; cbn [rule_get]; [discriminate|].
  destruct (index_eqb k ix) eqn:E.
  - apply index_eqb_eq in E. intros H. injection H as ->. subst k. left. reflexivity.
  - intros H. right. apply IH. exact H.
Qed.

Lemma nodup_keys_unique (r : rule) ix o1 o2 :
  rule_keys_nodup r -> In (ix, o1) r -> In (ix, o2) r -> o1 = o2.
Proof.
  unfold rule_keys_nodup. induction r as [|[k o] r IH]; cbn [map fst]; intros Hnd H1 H2; [destruct H1|].
  inversion Hnd as [|? ? Hnotin Hnd']; subst.
  destruct H1 as [H1|H1], H2 as [H2|H2].
  - congruence.
  - injection H1 as -> ->. exfalso. apply Hnotin. apply (in_map fst) in H2. exact H2.
  - injection H2 as -> ->. exfalso. apply Hnotin. apply (in_map fst) in H1. exact H1.
  - apply IH; assumption.
Qed.

Lemma nodup_keys_get r ix o : rule_keys_nodup r -> In (ix, o) r -> rule_get r ix = Some o.
Proof.
  unfold rule_keys_nodup. induction r as [|[k o'] r IH]; cbn [map fst rule_get]; intros Hnd Hin; [destruct Hin|].
  inversion Hnd as [|? ? Hnotin Hnd']; subst.
  destruct Hin as [Hin|Hin].
  - injection Hin as -> ->. rewrite index_eqb_refl. reflexivity.
  - destruct (index_eqb k ix) eqn:E.
    + apply index_eqb_eq in E. subst k. exfalso. apply Hnotin. apply (in_map fst) in Hin. exact Hin.
    + apply IH; assumption.
Qed.

(** ---- make_rule ---- *)
Definition quad := (N * N * N * N)%type.
Definition quad_small (q : quad) : Prop :=
  let '(a, b, c, d) := q in small_diff a b /\ small_diff b c /\ small_diff c d.
Definition quad_diff (q : quad) : outcome diffres :=
  let '(a, b, c, d) := q in calculate_diff a b c d.

(** what one span of [make_rule] appends, and for which index *)
Lemma make_rule_span_spec side : forall l i acc r,
  make_rule_span side i l acc = Ok (Some r) ->
  exists ext, r = acc ++ ext /\
    (forall ix o, In (ix, o) ext -> fst ix = side /\ i <= snd ix) /\
    (forall k q, nth_error l k = Some q ->
       (quad_diff q = Ok DSkip /\ rule_get ext (side, i + N.of_nat k) = None) \/
       (exists o, quad_diff q = Ok (DGot o) /\ rule_get ext (side, i + N.of_nat k) = Some o)).
Proof.
  induction l as [|[[[a b] c] d] l IH]; intros i acc r H; cbn [make_rule_span] in H.
  - injection H as <-. exists []. rewrite app_nil_r. split; [reflexivity|]. split.
    + intros ix o [].
    + intros [|k] q Hk; discriminate.
  - apply obind_ok in H. destruct H as (dr & Hd & H).
    destruct dr as [| |o]; [|discriminate|].
    + apply IH in H. destruct H as (ext & -> & Hkeys & Hnth).
      exists ext. split; [reflexivity|]. split.
      * intros ix o Hin. destruct (Hkeys ix o Hin) as (? & ?). split; [assumption|lia].
      * intros [|k] q Hk; cbn [nth_error] in Hk.
        -- injection Hk as <-. left. split; [exact Hd|].
           apply rule_get_none. intros k' o' Hin Heq. subst k'.
           destruct (Hkeys _ _ Hin) as (_ & Hle). cbn [snd] in Hle. lia.
        -- replace (i + N.of_nat (S k)) with (i + 1 + N.of_nat k) by lia. apply Hnth. exact Hk.
    + apply IH in H. destruct H as (ext & -> & Hkeys & Hnth).
      exists (((side, i), o) :: ext). split; [rewrite <- app_assoc; reflexivity|]. split.
      * intros ix o' [Hin|Hin].
        -- injection Hin as <- <-. cbn [fst snd]. split; [reflexivity|lia].
        -- destruct (Hkeys ix o' Hin) as (? & ?). split; [assumption|lia].
      * intros [|k] q Hk; cbn [nth_error] in Hk.
        -- injection Hk as <-. right. exists o. split; [exact Hd|].
           cbn [rule_get]. replace (i + N.of_nat 0) with i by lia. rewrite index_eqb_refl. reflexivity.
        -- cbn [rule_get].
           assert (E : index_eqb (side, i) (side, i + N.of_nat (S k)) = false).
           { apply index_eqb_neq. intros Heq. injection Heq as Heq. lia. }
           rewrite E. replace (i + N.of_nat (S k)) with (i + 1 + N.of_nat k) by lia. apply Hnth. exact Hk.
Qed.

Definition side_of (side : bool) (c : list N * list N) : list N := if side then snd c else fst c.

Lemma make_rule_spec c1 c2 c3 c4 r :
  make_rule c1 c2 c3 c4 = Ok (Some r) ->
  forall side k q,
    nth_error (zip4 (side_of side c1) (side_of side c2) (side_of side c3) (side_of side c4)) k = Some q ->
    (quad_diff q = Ok DSkip /\ rule_get r (side, N.of_nat k) = None) \/
    (exists o, quad_diff q = Ok (DGot o) /\ rule_get r (side, N.of_nat k) = Some o).
Proof.
  unfold make_rule. intros H. apply obind_ok in H. destruct H as (ra & HL & HR).
  destruct ra as [accL|]; [|discriminate].
  apply make_rule_span_spec in HL. destruct HL as (extL & -> & HkL & HnL).
  apply make_rule_span_spec in HR. destruct HR as (extR & -> & HkR & HnR).
  cbn [app]. intros side k q Hk. rewrite rule_get_app.
  destruct side; unfold side_of in Hk.
  - (* right span: nothing in the left part has a right key *)
    rewrite (rule_get_none extL).
    + specialize (HnR k q Hk). replace (0 + N.of_nat k) with (N.of_nat k) in HnR by lia. exact HnR.
    + intros k' o' Hin Heq. subst k'. destruct (HkL _ _ Hin) as (Hs & _). discriminate Hs.
  - specialize (HnL k q Hk). replace (0 + N.of_nat k) with (N.of_nat k) in HnL by lia.
    destruct HnL as [(Hq & Hg)|(o & Hq & Hg)].
    + left. split; [exact Hq|]. rewrite Hg. apply rule_get_none.
      intros k' o' Hin Heq. subst k'. destruct (HkR _ _ Hin) as (Hs & _). discriminate Hs.
    + right. exists o. split; [exact Hq|]. rewrite Hg. reflexivity.
Qed.

Theorem make_rule_exact : forall c1 c2 c3 c4 r,
  make_rule c1 c2 c3 c4 = Ok (Some r) ->
  Forall quad_small (zip4 (fst c1) (fst c2) (fst c3) (fst c4)) ->
  Forall quad_small (zip4 (snd c1) (snd c2) (snd c3) (snd c4)) ->
  all_plus r ->
  forall (side : bool) i a b c d,
    nth_error (zip4 (side_of side c1) (side_of side c2) (side_of side c3) (side_of side c4)) i
      = Some (a, b, c, d) ->
    let x := match rule_get r (side, N.of_nat i) with Some (Plus x) => x | _ => 0%Z end in
    Z.of_N b = (Z.of_N a + x)%Z /\ Z.of_N c = (Z.of_N b + x)%Z /\ Z.of_N d = (Z.of_N c + x)%Z.
Proof.
  intros c1 c2 c3 c4 r Hmk HsL HsR Hplus side i a b c d Hnth.
  assert (Hsmall : quad_small (a, b, c, d)).
  { apply nth_error_In in Hnth. destruct side; unfold side_of in Hnth.
    - rewrite Forall_forall in HsR. apply HsR. exact Hnth.
    - rewrite Forall_forall in HsL. apply HsL. exact Hnth. }
  destruct Hsmall as (S1 & S2 & S3).
  destruct (make_rule_spec _ _ _ _ _ Hmk side i _ Hnth) as [(Hq & Hg)|(o & Hq & Hg)]; rewrite Hg; cbn [quad_diff] in Hq.
  - apply diff_skip in Hq. destruct Hq as (-> & -> & ->). cbv zeta. lia.
  - destruct (Hplus _ _ (rule_get_in _ _ _ Hg)) as (x & ->). cbv zeta.
    apply diff_exact; assumption.
Qed.

(** ---- count_apps ---- *)
(** per decreasing entry: how often it can be applied and what is left *)
Lemma entry_times (c : N) (d : Z) :
  (d < 0)%Z -> Z.to_N (Z.abs d) < c ->
  let absdiff := Z.to_N (Z.abs d) in
  let '(times, res) := if 0 <? c mod absdiff then (c / absdiff, c mod absdiff)
                       else (c / absdiff - 1, absdiff) in
  (Z.of_N res = Z.of_N c + d * Z.of_N times)%Z /\ (1 <= Z.of_N res)%Z /\
  (Z.of_N c + d * (Z.of_N times + 1) < 1)%Z.
Proof.
  intros Hd Hc absdiff.
  assert (Ha : absdiff <> 0) by (unfold absdiff; lia).
  assert (Hdz : d = (- Z.of_N absdiff)%Z) by (unfold absdiff; lia).
  pose proof (N.div_mod c absdiff Ha) as Hdm.
  pose proof (N.mod_lt c absdiff Ha) as Hlt.
  assert (Hc' : absdiff < c) by exact Hc.
  clearbody absdiff.
  set (q := c / absdiff) in *. set (m := c mod absdiff) in *. clearbody q m.
  assert (Hq : 1 <= q) by nia.
  destruct (N.ltb_spec 0 m) as [Hm|Hm]; subst d; nia.
Qed.

(** the invariant of the loop over the entries [p] processed so far *)
Definition apps_inv (t : tape) (p : rule) (apps : option (N * index * N)) : Prop :=
  match apps with
  | None => forall ix d, In (ix, Plus d) p -> (0 <= d)%Z
  | Some (times, pos, res) =>
      (forall ix d, In (ix, Plus d) p -> (d < 0)%Z ->
         exists c, get_count t ix = Ok c /\ (1 <= Z.of_N c + d * Z.of_N times)%Z) /\
      (exists p1 d p2 c, p = p1 ++ (pos, Plus d) :: p2 /\ (d < 0)%Z /\ get_count t pos = Ok c /\
         (Z.of_N res = Z.of_N c + d * Z.of_N times)%Z /\
         (Z.of_N c + d * (Z.of_N times + 1) < 1)%Z /\
         (forall ix d', In (ix, Plus d') p1 -> (d' < 0)%Z ->
            exists c', get_count t ix = Ok c' /\ (1 <= Z.of_N c' + d' * (Z.of_N times + 1))%Z))
  end.

Lemma count_apps_loop_inv t : forall r p apps out,
  apps_inv t p apps -> count_apps_loop t r apps = Ok (Some out) -> apps_inv t (p ++ r) out.
Proof.
  induction r as [|[pos o] r IH]; intros p apps out Hinv H; cbn [count_apps_loop] in H.
  - injection H as <-. rewrite app_nil_r. exact Hinv.
  - destruct o as [d|]; [|discriminate].
    replace (p ++ (pos, Plus d) :: r) with ((p ++ [(pos, Plus d)]) ++ r) by (rewrite <- app_assoc; reflexivity).
    destruct (Z.leb_spec 0 d) as [Hd|Hd].
    + apply (IH _ apps); [|exact H].
      destruct apps as [[[times mp] res]|]; cbn [apps_inv] in *.
      * destruct Hinv as (Hall & (p1 & d0 & p2 & c0 & -> & Hrest)). split.
        -- intros ix d' Hin Hneg. apply in_app_or in Hin. destruct Hin as [Hin|[Hin|[]]].
           ++ apply Hall; assumption.
           ++ injection Hin as <- <-. lia.
        -- exists p1, d0, (p2 ++ [(pos, Plus d)]), c0. split; [|exact Hrest].
           rewrite <- app_assoc. reflexivity.
      * intros ix d' Hin. apply in_app_or in Hin. destruct Hin as [Hin|[Hin|[]]].
        -- eapply Hinv; eassumption.
        -- injection Hin as <- <-. exact Hd.
    + apply obind_ok in H. destruct H as (c & Hget & H).
      destruct (N.leb_spec c (Z.to_N (Z.abs d))) as [Hle|Hgt]; [discriminate|].
      pose proof (entry_times c d Hd Hgt) as He. cbv zeta in He.
      destruct (if 0 <? c mod Z.to_N (Z.abs d)
                then (c / Z.to_N (Z.abs d), c mod Z.to_N (Z.abs d))
                else (c / Z.to_N (Z.abs d) - 1, Z.to_N (Z.abs d))) as [te re].
      destruct He as (He1 & He2 & He3).
      assert (Hnew : (forall ix d', In (ix, Plus d') p -> (d' < 0)%Z ->
                        exists c', get_count t ix = Ok c' /\ (1 <= Z.of_N c' + d' * (Z.of_N te + 1))%Z) ->
                      apps_inv t (p ++ [(pos, Plus d)]) (Some (te, pos, re))).
      { intros Hpre. cbn [apps_inv]. split.
        - intros ix d' Hin Hneg. apply in_app_or in Hin. destruct Hin as [Hin|[Hin|[]]].
          + destruct (Hpre ix d' Hin Hneg) as (c' & Hg' & Hb'). exists c'. split; [exact Hg'|nia].
          + injection Hin as <- <-. exists c. split; [exact Hget|lia].
        - exists p, d, [], c. repeat split; assumption. }
      destruct apps as [[[curr mp] res]|].
      * cbn [apps_inv] in Hinv.
        destruct Hinv as (Hall & (p1 & d0 & p2 & c0 & Hp & Hd0 & Hg0 & Hr0 & Hm0 & Hf0)).
        destruct (N.ltb_spec te curr) as [Hlt|Hge].
        -- apply (IH _ (Some (te, pos, re))); [|exact H]. apply Hnew.
           intros ix d' Hin Hneg. destruct (Hall ix d' Hin Hneg) as (c' & Hg' & Hb').
           exists c'. split; [exact Hg'|nia].
        -- apply (IH _ (Some (curr, mp, res))); [|exact H]. cbn [apps_inv]. split.
           ++ intros ix d' Hin Hneg. apply in_app_or in Hin. destruct Hin as [Hin|[Hin|[]]].
              ** apply Hall; assumption.
              ** injection Hin as <- <-. exists c. split; [exact Hget|nia].
           ++ exists p1, d0, (p2 ++ [(pos, Plus d)]), c0. split.
              ** rewrite Hp, <- app_assoc. reflexivity.
              ** repeat split; assumption.
      * apply (IH _ (Some (te, pos, re))); [|exact H]. apply Hnew.
        intros ix d' Hin Hneg. cbn [apps_inv] in Hinv. specialize (Hinv ix d' Hin). lia.
Qed.

Lemma count_apps_inv t r out : count_apps t r = Ok out ->
  count_apps_loop t r None = Ok None /\ out = None \/
  count_apps_loop t r None = Ok (Some out) /\ apps_inv t r out.
Proof.
  unfold count_apps. intros H. apply obind_ok in H. destruct H as (x & Hl & H).
  destruct x as [apps|].
  - injection H as <-. right. split; [exact Hl|].
    apply (count_apps_loop_inv t r [] None); [|exact Hl]. intros ix d [].
  - injection H as <-. left. split; [exact Hl|reflexivity].
Qed.

Theorem count_apps_max : forall t r times pos res,
  count_apps t r = Ok (Some (times, pos, res)) ->
  (forall ix d, In (ix, Plus d) r -> (d < 0)%Z ->
     exists c, get_count t ix = Ok c /\ (1 <= Z.of_N c + d * Z.of_N times)%Z) /\
  (exists d c, In (pos, Plus d) r /\ (d < 0)%Z /\ get_count t pos = Ok c /\
     (Z.of_N res = Z.of_N c + d * Z.of_N times)%Z /\
     (Z.of_N c + d * (Z.of_N times + 1) < 1)%Z).
Proof.
  intros t r times pos res H. apply count_apps_inv in H.
  destruct H as [(_ & H)|(_ & H)]; [discriminate|].
  cbn [apps_inv] in H. destruct H as (Hall & (p1 & d & p2 & c & -> & Hd & Hg & Hr & Hm & _)).
  split; [exact Hall|]. exists d, c. split; [apply in_or_app; right; left; reflexivity|].
  repeat split; assumption.
Qed.

(** ties: the reported position is the FIRST entry (in key order) attaining
    the minimum; every decreasing entry before it admits one more application *)
Theorem count_apps_first : forall t r times pos res,
  count_apps t r = Ok (Some (times, pos, res)) ->
  exists r1 d r2, r = r1 ++ (pos, Plus d) :: r2 /\ (d < 0)%Z /\
    forall ix d', In (ix, Plus d') r1 -> (d' < 0)%Z ->
      exists c', get_count t ix = Ok c' /\ (1 <= Z.of_N c' + d' * (Z.of_N times + 1))%Z.
Proof.
  intros t r times pos res H. apply count_apps_inv in H.
  destruct H as [(_ & H)|(_ & H)]; [discriminate|].
  cbn [apps_inv] in H. destruct H as (_ & (p1 & d & p2 & c & -> & Hd & _ & _ & _ & Hf)).
  exists p1, d, p2. repeat split; assumption.
Qed.

(** the early "return None" of the loop *)
Lemma count_apps_loop_none t : forall r apps,
  count_apps_loop t r apps = Ok None ->
  exists ix d c, In (ix, Plus d) r /\ (d < 0)%Z /\ get_count t ix = Ok c /\ (Z.of_N c <= - d)%Z.
Proof.
  induction r as [|[pos o] r IH]; intros apps H; cbn [count_apps_loop] in H; [discriminate|].
  destruct o as [d|]; [|discriminate].
  assert (Hrec : forall apps', count_apps_loop t r apps' = Ok None ->
            exists ix d0 c, In (ix, Plus d0) ((pos, Plus d) :: r) /\ (d0 < 0)%Z /\
                            get_count t ix = Ok c /\ (Z.of_N c <= - d0)%Z).
  { intros apps' H'. destruct (IH _ H') as (ix & d0 & c & Hin & Hrest).
    exists ix, d0, c. split; [right; exact Hin|exact Hrest]. }
  destruct (Z.leb_spec 0 d) as [Hd|Hd]; [eapply Hrec; exact H|].
  apply obind_ok in H. destruct H as (c & Hget & H).
  destruct (N.leb_spec c (Z.to_N (Z.abs d))) as [Hle|Hgt].
  - exists pos, d, c. split; [left; reflexivity|]. repeat split; try assumption. lia.
  - destruct (if 0 <? c mod Z.to_N (Z.abs d)
              then (c / Z.to_N (Z.abs d), c mod Z.to_N (Z.abs d))
              else (c / Z.to_N (Z.abs d) - 1, Z.to_N (Z.abs d))) as [te re].
    destruct apps as [[[curr mp] res]|].
    + destruct (te <? curr); eapply Hrec; exact H.
    + eapply Hrec; exact H.
Qed.

Definition indices_valid (t : tape) (r : rule) : Prop :=
  forall ix o, In (ix, o) r -> exists c, get_count t ix = Ok c.

Lemma count_apps_loop_hits t : forall r apps,
  all_plus r -> indices_valid t r ->
  (exists ix d c, In (ix, Plus d) r /\ (d < 0)%Z /\ get_count t ix = Ok c /\ (Z.of_N c <= - d)%Z) ->
  count_apps_loop t r apps = Ok None.
Proof.
  induction r as [|[pos o] r IH]; intros apps Hplus Hvalid (ix & d0 & c0 & Hin & Hd0 & Hg0 & Hc0); [destruct Hin|].
  assert (Hplus' : all_plus r) by (intros k o' Hk; apply (Hplus k o'); right; exact Hk).
  assert (Hvalid' : indices_valid t r) by (intros k o' Hk; apply (Hvalid k o'); right; exact Hk).
  destruct (Hplus pos o (or_introl eq_refl)) as (d & ->).
  destruct (Hvalid pos (Plus d) (or_introl eq_refl)) as (c & Hget).
  cbn [count_apps_loop]. rewrite Hget. cbn [obind].
  assert (Htail : (pos, Plus d) <> (ix, Plus d0) -> forall apps', count_apps_loop t r apps' = Ok None).
  { intros Hne apps'. apply IH; try assumption. destruct Hin as [Hin|Hin]; [contradiction|].
    exists ix, d0, c0. repeat split; assumption. }
  destruct (Z.leb_spec 0 d) as [Hd|Hd].
  - apply Htail. intros Heq. injection Heq as -> ->. lia.
  - destruct (N.leb_spec c (Z.to_N (Z.abs d))) as [Hle|Hgt]; [reflexivity|].
    assert (Hne : (pos, Plus d) <> (ix, Plus d0)).
    { intros Heq. injection Heq as -> ->. rewrite Hg0 in Hget. injection Hget as ->. lia. }
    destruct (if 0 <? c mod Z.to_N (Z.abs d)
              then (c / Z.to_N (Z.abs d), c mod Z.to_N (Z.abs d))
              else (c / Z.to_N (Z.abs d) - 1, Z.to_N (Z.abs d))) as [te re].
    destruct apps as [[[curr mp] res]|].
    + destruct (te <? curr); apply Htail; exact Hne.
    + apply Htail; exact Hne.
Qed.

Lemma count_apps_loop_nodec t : forall r apps,
  all_plus r -> (forall ix d, In (ix, Plus d) r -> (0 <= d)%Z) ->
  count_apps_loop t r apps = Ok (Some apps).
Proof.
  induction r as [|[pos o] r IH]; intros apps Hplus Hnd; cbn [count_apps_loop]; [reflexivity|].
  destruct (Hplus pos o (or_introl eq_refl)) as (d & ->).
  pose proof (Hnd pos d (or_introl eq_refl)) as Hd.
  destruct (Z.leb_spec 0 d) as [_|Hlt]; [|lia].
  apply IH.
  - intros k o' Hk. apply (Hplus k o'). right. exact Hk.
  - intros k d' Hk. apply (Hnd k d'). right. exact Hk.
Qed.

Theorem count_apps_none : forall t r,
  all_plus r -> indices_valid t r ->
  (count_apps t r = Ok None <->
   (forall ix d, In (ix, Plus d) r -> (0 <= d)%Z) \/
   (exists ix d c, In (ix, Plus d) r /\ (d < 0)%Z /\ get_count t ix = Ok c /\ (Z.of_N c <= - d)%Z)).
Proof.
  intros t r Hplus Hvalid. split.
  - intros H. apply count_apps_inv in H. destruct H as [(H & _)|(_ & H)].
    + right. eapply count_apps_loop_none. exact H.
    + left. exact H.
  - intros [Hnd|Hhit]; unfold count_apps.
    + rewrite (count_apps_loop_nodec t r None Hplus Hnd). reflexivity.
    + rewrite (count_apps_loop_hits t r None Hplus Hvalid Hhit). reflexivity.
Qed.

(** ---- IndexTape: get_count / set_count ---- *)
Lemma set_nth_same : forall (s : span) n v b,
  nth_error s n = Some b -> nth_error (set_nth s n v) n = Some (fst b, v).
Proof.
  induction s as [|[c m] s IH]; intros [|n] v b H; cbn [nth_error set_nth] in *; try discriminate.
  - injection H as <-. reflexivity.
  - apply IH. exact H.
Qed.

Lemma set_nth_other : forall (s : span) n m v, n <> m -> nth_error (set_nth s n v) m = nth_error s m.
Proof.
  induction s as [|[c k] s IH]; intros [|n] [|m] v H; cbn [nth_error set_nth]; try reflexivity.
  - contradiction.
  - apply IH. intros E. apply H. rewrite E. reflexivity.
Qed.

Lemma set_nth_colours : forall (s : span) n v, map fst (set_nth s n v) = map fst s.
Proof.
  induction s as [|[c k] s IH]; intros [|n] v; cbn [map fst set_nth]; try reflexivity.
  rewrite IH. reflexivity.
Qed.

Lemma get_set_same t ix v c : get_count t ix = Ok c -> get_count (set_count t ix v) ix = Ok v.
Proof.
  unfold get_count, set_count. destruct ix as [[|] n]; cbn [fst snd lspan rspan].
  - destruct (nth_error (rspan t) (N.to_nat n)) as [b|] eqn:E; [|discriminate]. intros _.
    rewrite (set_nth_same _ _ v b E). reflexivity.
  - destruct (nth_error (lspan t) (N.to_nat n)) as [b|] eqn:E; [|discriminate]. intros _.
    rewrite (set_nth_same _ _ v b E). reflexivity.
Qed.

Lemma get_set_other t ix ix' v : ix <> ix' -> get_count (set_count t ix v) ix' = get_count t ix'.
Proof.
  intros Hne. unfold get_count, set_count.
  destruct ix as [[|] n], ix' as [[|] n']; cbn [fst snd lspan rspan]; try reflexivity.
  - rewrite set_nth_other; [reflexivity|]. intros E. apply Hne. f_equal. lia.
  - rewrite set_nth_other; [reflexivity|]. intros E. apply Hne. f_equal. lia.
Qed.

Definition same_shape (t' t : tape) : Prop :=
  scan t' = scan t /\ map fst (lspan t') = map fst (lspan t) /\ map fst (rspan t') = map fst (rspan t).

Lemma set_count_shape t ix v : same_shape (set_count t ix v) t.
Proof.
  unfold same_shape, set_count. destruct (fst ix); cbn [scan lspan rspan]; rewrite ?set_nth_colours; auto.
Qed.

Definition write_all (l : list (index * N)) (t : tape) : tape :=
  fold_left (fun t' pv => set_count t' (fst pv) (snd pv)) l t.

Lemma write_all_shape : forall l t, same_shape (write_all l t) t.
Proof.
  unfold write_all. induction l as [|[k w] l IH]; intros t; cbn [fold_left fst snd].
  - repeat split.
  - destruct (IH (set_count t k w)) as (A & B & C). destruct (set_count_shape t k w) as (A' & B' & C').
    repeat split; congruence.
Qed.

Lemma write_all_other : forall l t ix, ~ In ix (map fst l) -> get_count (write_all l t) ix = get_count t ix.
Proof.
  unfold write_all. induction l as [|[k w] l IH]; intros t ix Hnin; cbn [fold_left fst snd map] in *; [reflexivity|].
  rewrite IH by (intros Hi; apply Hnin; right; exact Hi). apply get_set_other. intros E. apply Hnin. left. exact E.
Qed.

Lemma write_all_in : forall l t ix v c,
  NoDup (map fst l) -> In (ix, v) l -> get_count t ix = Ok c -> get_count (write_all l t) ix = Ok v.
Proof.
  induction l as [|[k w] l IH]; intros t ix v c Hnd Hin Hget; [destruct Hin|].
  cbn [map fst] in Hnd. inversion Hnd as [|? ? Hnotin Hnd']; subst.
  change (write_all ((k, w) :: l) t) with (write_all l (set_count t k w)).
  destruct Hin as [Hin|Hin].
  - injection Hin as -> ->. rewrite write_all_other by exact Hnotin.
    eapply get_set_same. exact Hget.
  - assert (Hne : k <> ix).
    { intros ->. apply Hnotin. apply (in_map fst) in Hin. exact Hin. }
    apply (IH _ _ _ c Hnd' Hin). rewrite get_set_other by exact Hne. exact Hget.
Qed.

(** ---- apply_plus / apply_results ---- *)
Lemma apply_plus_some c d times v :
  apply_plus c d times = Ok (Some v) ->
  (Z.of_N v = Z.of_N c + d * Z.of_N times)%Z /\ (Z.abs d * Z.of_N times <= Z.of_N u64_max)%Z /\
  ((0 <= d)%Z -> (Z.of_N c + d * Z.of_N times <= Z.of_N u64_max)%Z).
Proof.
  unfold apply_plus.
  destruct (N.ltb_spec u64_max (Z.to_N (Z.abs d) * times)) as [Hov|Hov]; [discriminate|].
  destruct (Z.ltb_spec d 0) as [Hd|Hd].
  - destruct (N.ltb_spec c (Z.to_N (Z.abs d) * times)) as [Hlt|Hge]; [discriminate|].
    intros H. injection H as <-. split; [nia|]. split; [nia|lia].
  - destruct (N.ltb_spec u64_max (c + Z.to_N (Z.abs d) * times)) as [Hlt|Hge]; [discriminate|].
    intros H. injection H as <-. split; [nia|]. split; nia.
Qed.

(** overflow of the new count: the product or (for an increasing block) the sum does not fit a u64 *)
Definition plus_overflows (c : N) (d : Z) (times : N) : Prop :=
  (Z.of_N u64_max < Z.abs d * Z.of_N times)%Z \/
  ((0 <= d)%Z /\ (Z.of_N u64_max < Z.of_N c + d * Z.of_N times)%Z).

Lemma apply_plus_none c d times :
  apply_plus c d times = Ok None <-> plus_overflows c d times.
Proof.
  unfold apply_plus, plus_overflows.
  destruct (N.ltb_spec u64_max (Z.to_N (Z.abs d) * times)) as [Hov|Hov].
  - split; [intros _; left; nia|reflexivity].
  - destruct (Z.ltb_spec d 0) as [Hd|Hd].
    + destruct (c <? Z.to_N (Z.abs d) * times); (split; [discriminate|intros [H|[H _]]; [nia|lia]]).
    + destruct (N.ltb_spec u64_max (c + Z.to_N (Z.abs d) * times)) as [Hlt|Hge].
      * split; [intros _; right; split; [lia|nia]|reflexivity].
      * split; [discriminate|intros [H|[_ H]]; nia].
Qed.

Lemma apply_results_some t times mp mr : forall r l,
  apply_results t r times mp mr = Ok (Some l) ->
  map fst l = map fst r /\
  (forall ix v, In (ix, v) l -> exists d, In (ix, Plus d) r /\
     ((ix = mp /\ v = mr /\ (d < 0)%Z) \/
      (ix <> mp /\ exists c, get_count t ix = Ok c /\ apply_plus c d times = Ok (Some v)))) /\
  (forall ix d, In (ix, Plus d) r -> exists v, In (ix, v) l) /\
  (forall ix d, In (ix, Plus d) r -> ix <> mp ->
     (Z.abs d * Z.of_N times <= Z.of_N u64_max)%Z /\
     (forall c, get_count t ix = Ok c -> (0 <= d)%Z -> (Z.of_N c + d * Z.of_N times <= Z.of_N u64_max)%Z)) /\
  all_plus r.
Proof.
  induction r as [|[pos o] r IH]; intros l H; cbn [apply_results] in H.
  - injection H as <-. split; [reflexivity|]. split; [intros ? ? []|]. split; [intros ? ? []|].
    split; [intros ? ? []|intros ? ? []].
  - destruct o as [d|]; [|discriminate].
    apply obind_ok in H. destruct H as (res & Hres & H).
    destruct res as [v|]; [|discriminate].
    apply obind_ok in H. destruct H as (rest & Hrest & H).
    destruct rest as [l'|]; [|discriminate]. injection H as <-.
    destruct (IH _ Hrest) as (Hkeys & Hvals & Hall & Hnov & Hplus).
    split; [cbn [map fst]; rewrite Hkeys; reflexivity|]. split; [|split; [|split]].
    + intros ix v' [Hin|Hin].
      * injection Hin as <- <-. exists d. split; [left; reflexivity|].
        destruct (index_eqb pos mp) eqn:E.
        -- apply index_eqb_eq in E. left. destruct (Z.ltb_spec d 0) as [Hd|Hd]; [|discriminate].
           injection Hres as <-. auto.
        -- apply index_eqb_neq in E. right. split; [exact E|].
           apply obind_ok in Hres. destruct Hres as (c & Hg & Hap). exists c. auto.
      * destruct (Hvals ix v' Hin) as (d' & Hin' & Hcase). exists d'. split; [right; exact Hin'|exact Hcase].
    + intros ix d' [Hin|Hin].
      * injection Hin as <- <-. exists v. left. reflexivity.
      * destruct (Hall ix d' Hin) as (v' & Hv'). exists v'. right. exact Hv'.
    + intros ix d' [Hin|Hin] Hne.
      * injection Hin as <- <-. apply index_eqb_neq in Hne. rewrite Hne in Hres.
        apply obind_ok in Hres. destruct Hres as (c & Hg & Hap). apply apply_plus_some in Hap.
        destruct Hap as (_ & A2 & A3). split; [exact A2|].
        intros c' Hg' Hd. rewrite Hg in Hg'. injection Hg' as <-. exact (A3 Hd).
      * apply (Hnov ix d' Hin Hne).
    + intros ix o [Hin|Hin].
      * injection Hin as <- <-. exists d. reflexivity.
      * apply (Hplus ix o Hin).
Qed.

Lemma apply_results_none t times mp mr : forall r,
  apply_results t r times mp mr = Ok None ->
  exists ix d c, In (ix, Plus d) r /\ ix <> mp /\ get_count t ix = Ok c /\ plus_overflows c d times.
Proof.
  induction r as [|[pos o] r IH]; intros H; cbn [apply_results] in H; [discriminate|].
  destruct o as [d|]; [|discriminate].
  apply obind_ok in H. destruct H as (res & Hres & H).
  destruct res as [v|].
  - apply obind_ok in H. destruct H as (rest & Hrest & H).
    destruct rest as [l'|]; [discriminate|].
    destruct (IH Hrest) as (ix & d' & c' & Hin & Hrest'). exists ix, d', c'. split; [right; exact Hin|exact Hrest'].
  - destruct (index_eqb pos mp) eqn:E.
    + destruct (d <? 0)%Z; discriminate.
    + apply index_eqb_neq in E. apply obind_ok in Hres. destruct Hres as (c & Hg & Hap).
      exists pos, d, c. split; [left; reflexivity|]. split; [exact E|]. split; [exact Hg|].
      apply apply_plus_none in Hap. exact Hap.
Qed.

(** ---- apply_rule ---- *)
Lemma apply_rule_inv t r o t' : apply_rule t r = Ok (o, t') ->
  (count_apps t r = Ok None /\ o = None /\ t' = t) \/
  (exists times pos res, count_apps t r = Ok (Some (times, pos, res)) /\
     ((apply_results t r times pos res = Ok None /\ o = None /\ t' = t) \/
      (exists l, apply_results t r times pos res = Ok (Some l) /\ o = Some times /\ t' = write_all l t))).
Proof.
  unfold apply_rule. intros H. apply obind_ok in H. destruct H as (ca & Hca & H).
  destruct ca as [[[times pos] res]|].
  - right. exists times, pos, res. split; [exact Hca|].
    apply obind_ok in H. destruct H as (ar & Har & H). destruct ar as [l|]; injection H as <- <-.
    + right. exists l. auto.
    + left. auto.
  - left. injection H as <- <-. auto.
Qed.

Theorem apply_exact : forall t r times t',
  rule_keys_nodup r -> apply_rule t r = Ok (Some times, t') ->
  (forall ix d, In (ix, Plus d) r ->
     exists c, get_count t ix = Ok c /\
               get_count t' ix = Ok (Z.to_N (Z.of_N c + d * Z.of_N times)) /\
               (0 <= Z.of_N c + d * Z.of_N times)%Z) /\
  (forall ix, (forall o, ~ In (ix, o) r) -> get_count t' ix = get_count t ix) /\
  scan t' = scan t /\
  map fst (lspan t') = map fst (lspan t) /\ map fst (rspan t') = map fst (rspan t) /\
  length (lspan t') = length (lspan t) /\ length (rspan t') = length (rspan t).
Proof.
  intros t r times t' Hnd H. apply apply_rule_inv in H.
  destruct H as [(_ & H & _)|(times' & pos & res & Hca & [(_ & H & _)|(l & Har & Ho & ->)])]; try discriminate.
  injection Ho as <-.
  apply apply_results_some in Har. destruct Har as (Hkeys & Hvals & Hall & _ & _).
  pose proof (count_apps_max _ _ _ _ _ Hca) as (_ & (dm & cm & Hinm & Hdm & Hgm & Hrm & _)).
  assert (Hndl : NoDup (map fst l)) by (rewrite Hkeys; exact Hnd).
  split; [|split].
  - intros ix d Hin. destruct (Hall ix d Hin) as (v & Hv).
    destruct (Hvals ix v Hv) as (d' & Hin' & Hcase).
    assert (d' = d) by (pose proof (nodup_keys_unique r ix _ _ Hnd Hin' Hin) as E; injection E; auto).
    subst d'.
    assert (Hgoal : forall c, get_count t ix = Ok c -> (Z.of_N v = Z.of_N c + d * Z.of_N times)%Z ->
              exists c0, get_count t ix = Ok c0 /\
                get_count (write_all l t) ix = Ok (Z.to_N (Z.of_N c0 + d * Z.of_N times)) /\
                (0 <= Z.of_N c0 + d * Z.of_N times)%Z).
    { intros c Hg Hval. exists c. split; [exact Hg|]. split; [|lia].
      rewrite <- Hval, N2Z.id. apply (write_all_in l t ix v c Hndl Hv Hg). }
    destruct Hcase as [(-> & -> & _)|(_ & c & Hg & Hap)].
    + assert (dm = d) by (pose proof (nodup_keys_unique r pos _ _ Hnd Hinm Hin) as E; injection E; auto).
      subst dm. apply (Hgoal cm Hgm Hrm).
    + apply apply_plus_some in Hap. apply (Hgoal c Hg (proj1 Hap)).
  - intros ix Hnot. apply write_all_other. rewrite Hkeys. intros Hin.
    apply in_map_iff in Hin. destruct Hin as ([k o] & Hk & Hin). cbn [fst] in Hk. subst k.
    apply (Hnot o Hin).
  - destruct (write_all_shape l t) as (A & B & C). repeat split; try assumption.
    + rewrite <- (map_length fst (lspan (write_all l t))), B. apply map_length.
    + rewrite <- (map_length fst (rspan (write_all l t))), C. apply map_length.
Qed.

Theorem apply_none_untouched : forall t r t', apply_rule t r = Ok (None, t') -> t' = t.
Proof.
  intros t r t' H. apply apply_rule_inv in H.
  destruct H as [(_ & _ & H)|(times & pos & res & _ & [(_ & _ & H)|(l & _ & H & _)])]; try assumption.
  discriminate.
Qed.

Theorem apply_none_iff : forall t r o t', apply_rule t r = Ok (o, t') ->
  (o = None <->
   count_apps t r = Ok None \/
   exists times pos res ix d c, count_apps t r = Ok (Some (times, pos, res)) /\
     In (ix, Plus d) r /\ ix <> pos /\ get_count t ix = Ok c /\ plus_overflows c d times).
Proof.
  intros t r o t' H. apply apply_rule_inv in H.
  destruct H as [(Hca & -> & _)|(times & pos & res & Hca & [(Har & -> & _)|(l & Har & -> & _)])].
  - split; auto.
  - split; [intros _|reflexivity]. right.
    destruct (apply_results_none _ _ _ _ _ Har) as (ix & d & c & Hin & Hne & Hg & Hov).
    exists times, pos, res, ix, d, c. auto.
  - split; [discriminate|]. intros [Hc|(times' & pos' & res' & ix & d & c & Hc & Hin & Hne & Hg & Hov)].
    + rewrite Hca in Hc. discriminate.
    + rewrite Hca in Hc. injection Hc as <- <- <-. exfalso.
      apply apply_results_some in Har. destruct Har as (_ & _ & _ & Hnov & _).
      destruct (Hnov ix d Hin Hne) as [N1 N2]. specialize (N2 c Hg).
      destruct Hov as [Hov|[Hd Hov]]; [lia|]. specialize (N2 Hd). lia.
Qed.

(** ---- the two fixed defects, on the pre-fix definitions ---- *)
(** the two clauses of the property as predicates of an [apply_rule] candidate *)
Definition exact_on (ar : tape -> rule -> outcome (option N * tape)) : Prop :=
  forall t r times t', rule_keys_nodup r -> ar t r = Ok (Some times, t') ->
    forall ix d, In (ix, Plus d) r ->
      exists c, get_count t ix = Ok c /\
                get_count t' ix = Ok (Z.to_N (Z.of_N c + d * Z.of_N times)).
Definition untouched_on (ar : tape -> rule -> outcome (option N * tape)) : Prop :=
  forall t r t', ar t r = Ok (None, t') -> t' = t.

Definition f4_tape : tape := mkTape 0 [] [(2, 10); (3, 10); (4, 5)].
Definition f4_rule : rule := [((true, 0), Plus (-1)); ((true, 1), Plus (-2)); ((true, 2), Plus 1)].
Definition f7_tape : tape := mkTape 0 [(1, 4611686018427387904)] [(2, 5)].
Definition f7_rule : rule := [((false, 0), Plus (-1)); ((true, 0), Plus 8)].

Lemma f4_rule_nodup : rule_keys_nodup f4_rule.
Proof.
  unfold rule_keys_nodup, f4_rule. cbn [map fst].
  repeat constructor; cbn [In]; intros H; repeat (destruct H as [H|H]; [discriminate H|]); exact H.
Qed.

(** F4: [apply_plus] added |diff| x times also for a decreasing block that is
    not the minimal one: block R0 (10 cells, -1, 4 applications) became 14,
    exactness demands 6 *)
Theorem apply_plus_prefix_refuted :
  apply_rule_prefix apply_plus_prefix f4_tape f4_rule
    = Ok (Some 4, mkTape 0 [] [(2, 14); (3, 2); (4, 9)]) /\
  apply_rule f4_tape f4_rule = Ok (Some 4, mkTape 0 [] [(2, 6); (3, 2); (4, 9)]) /\
  ~ exact_on (apply_rule_prefix apply_plus_prefix) /\
  exact_on apply_rule.
Proof.
  split; [vm_compute; reflexivity|]. split; [vm_compute; reflexivity|]. split.
  - intros Hex.
    destruct (Hex f4_tape f4_rule 4 (mkTape 0 [] [(2, 14); (3, 2); (4, 9)]) f4_rule_nodup
                  ltac:(vm_compute; reflexivity) (true, 0) (-1)%Z ltac:(left; reflexivity))
      as (c & Hc & Hc').
    vm_compute in Hc. injection Hc as <-. vm_compute in Hc'. discriminate Hc'.
  - intros t r times t' Hnd H ix d Hin.
    destruct (apply_exact t r times t' Hnd H) as (Hall & _).
    destruct (Hall ix d Hin) as (c & Hc & Hc' & _). exists c. auto.
Qed.

(** F7: the one-pass [apply_rule] had already rewritten block L0 when
    [checked_mul] overflowed on R0 and the answer became "not applied" *)
Theorem apply_rule_prefix_refuted :
  count_apps f7_tape f7_rule = Ok (Some (4611686018427387903, (false, 0), 1)) /\
  apply_rule_prefix apply_plus f7_tape f7_rule = Ok (None, mkTape 0 [(1, 1)] [(2, 5)]) /\
  apply_rule f7_tape f7_rule = Ok (None, f7_tape) /\
  ~ untouched_on (apply_rule_prefix apply_plus) /\
  untouched_on apply_rule.
Proof.
  split; [vm_compute; reflexivity|]. split; [vm_compute; reflexivity|].
  split; [vm_compute; reflexivity|]. split.
  - intros Hun.
    specialize (Hun f7_tape f7_rule (mkTape 0 [(1, 1)] [(2, 5)]) ltac:(vm_compute; reflexivity)).
    discriminate Hun.
  - exact apply_none_untouched.
Qed.

(** F6: the i32 hypothesis of [diff_exact] is sharp *)
Lemma diff_boundary :
  calculate_diff 1 (1 + 2 ^ 32) (1 + 2 ^ 33) (1 + 3 * 2 ^ 32) = Ok (DGot (Plus 0)).
Proof. vm_compute. reflexivity. Qed.
