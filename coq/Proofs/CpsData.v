(** C06, part A: the containers of CpsModel (tries, config sets, span maps). *)
From BB Require Import Base InstrsModel CpsModel.
From Coq Require Import Sorted.
Open Scope N_scope.

(** ---- association lists keyed by N (no sortedness needed) ---- *)
Section Nassoc.
Context {A : Type}.

Lemma nassoc_get_upd_same k f (l : list (N * A)) :
  nassoc_get k (nassoc_upd k f l) = Some (f (nassoc_get k l)).
Proof.
  induction l as [|[k' v] l IH]; cbn [nassoc_upd nassoc_get].
  - rewrite N.compare_refl. reflexivity.
  - destruct (k ?= k') eqn:E; cbn [nassoc_get].
    + rewrite N.compare_refl. reflexivity.
    + rewrite N.compare_refl. reflexivity.
    + rewrite E. exact IH.
Qed.

Lemma nassoc_get_upd_other k k2 f (l : list (N * A)) :
  k2 <> k -> nassoc_get k2 (nassoc_upd k f l) = nassoc_get k2 l.
Proof.
  intros Hne. induction l as [|[k' v] l IH]; cbn [nassoc_upd nassoc_get].
  - destruct (k2 ?= k) eqn:E; try reflexivity.
    apply N.compare_eq_iff in E. contradiction.
  - destruct (k ?= k') eqn:E; cbn [nassoc_get].
    + apply N.compare_eq_iff in E. subst k'.
      destruct (k2 ?= k) eqn:E2; try reflexivity.
      apply N.compare_eq_iff in E2. contradiction.
    + destruct (k2 ?= k) eqn:E2.
      * apply N.compare_eq_iff in E2. contradiction.
      * rewrite N.compare_lt_iff in E, E2.
        assert (Hlt : k2 < k') by lia. unfold N.lt in Hlt. rewrite Hlt. reflexivity.
      * reflexivity.
    + destruct (k2 ?= k'); try reflexivity. exact IH.
Qed.

(** an update that rewrites the present value by itself changes nothing *)
Lemma nassoc_upd_noop k f (l : list (N * A)) v :
  nassoc_get k l = Some v -> f (Some v) = v -> nassoc_upd k f l = l.
Proof.
  induction l as [|[k' v'] l IH]; cbn [nassoc_upd nassoc_get]; [discriminate|].
  destruct (k ?= k') eqn:E; intros Hg Hf.
  - apply N.compare_eq_iff in E. subst k'. injection Hg as ->. rewrite Hf. reflexivity.
  - discriminate.
  - rewrite IH; auto.
Qed.
End Nassoc.

(** ---- tries ---- *)
Section Ctrie.
Context {A : Type}.

Lemma ctrie_get_empty (k : list N) : ctrie_get k (@ctrie_empty A) = None.
Proof. destruct k; reflexivity. Qed.

Lemma ctrie_get_upd_same (k : list N) f (t : ctrie A) :
  ctrie_get k (ctrie_upd k f t) = Some (f (ctrie_get k t)).
Proof.
  revert t. induction k as [|c k IH]; intros [v ch]; cbn [ctrie_upd ctrie_get].
  - reflexivity.
  - rewrite nassoc_get_upd_same. rewrite IH.
    destruct (nassoc_get c ch); [reflexivity|]. rewrite ctrie_get_empty. reflexivity.
Qed.

Lemma ctrie_get_upd_other (k k2 : list N) f (t : ctrie A) :
  k2 <> k -> ctrie_get k2 (ctrie_upd k f t) = ctrie_get k2 t.
Proof.
  revert k2 t. induction k as [|c k IH]; intros k2 [v ch] Hne; cbn [ctrie_upd].
  - destruct k2 as [|c2 k2]; [contradiction|]. reflexivity.
  - destruct k2 as [|c2 k2]; [reflexivity|]. cbn [ctrie_get].
    destruct (N.eq_dec c2 c) as [->|Hc].
    + rewrite nassoc_get_upd_same. rewrite IH by congruence.
      destruct (nassoc_get c ch); [reflexivity|]. apply ctrie_get_empty.
    + rewrite nassoc_get_upd_other by exact Hc. reflexivity.
Qed.

Lemma ctrie_upd_noop (k : list N) f (t : ctrie A) v :
  ctrie_get k t = Some v -> f (Some v) = v -> ctrie_upd k f t = t.
Proof.
  revert t. induction k as [|c k IH]; intros [v0 ch]; cbn [ctrie_upd ctrie_get].
  - intros -> ->. reflexivity.
  - destruct (nassoc_get c ch) as [t'|] eqn:E; [|discriminate].
    intros Hg Hf. f_equal.
    apply nassoc_upd_noop with (v := t'); [exact E|]. apply IH; assumption.
Qed.
End Ctrie.

(** ---- config keys ---- *)
Lemma app_inv_length {A} (a a' b b' : list A) :
  length a = length a' -> a ++ b = a' ++ b' -> a = a' /\ b = b'.
Proof.
  revert a'. induction a as [|x a IH]; intros [|x' a']; cbn [length app]; try discriminate.
  - auto.
  - intros Hl He. injection Hl as Hl. injection He as -> He.
    destruct (IH _ Hl He) as [-> ->]. auto.
Qed.

Lemma config_key_inj c c' : config_key c = config_key c' -> c = c'.
Proof.
  destruct c as [st [sc [ls ll] [rs rl]]], c' as [st' [sc' [ls' ll'] [rs' rl']]].
  unfold config_key. cbn [cf_state cf_tape ct_scan ct_lspan ct_rspan sp_span sp_last].
  intros H. injection H as -> -> Hlen H.
  apply Nat2N.inj in Hlen.
  destruct (app_inv_length _ _ _ _ Hlen H) as [-> H2].
  injection H2 as -> H3. apply app_inj_tail in H3. destruct H3 as [-> ->]. reflexivity.
Qed.

(** ---- config sets ---- *)
Definition cset_ok (s : cset) : Prop :=
  (forall c, cset_mem c s = true <-> In c (set_elems s)) /\
  NoDup (set_elems s) /\
  set_len s = N.of_nat (length (set_elems s)).

Lemma cset_mem_empty c : cset_mem c cset_empty = false.
Proof. unfold cset_mem, cset_empty. cbn [set_index]. rewrite ctrie_get_empty. reflexivity. Qed.

Lemma cset_ok_empty : cset_ok cset_empty.
Proof.
  split; [|split].
  - intros c. rewrite cset_mem_empty. cbn. split; [discriminate|contradiction].
  - constructor.
  - reflexivity.
Qed.

Lemma cset_mem_insert c x s :
  cset_mem c (cset_insert x s) = true <-> c = x \/ cset_mem c s = true.
Proof.
  unfold cset_insert. destruct (cset_mem x s) eqn:Ex.
  - split; [auto|]. intros [->|H]; assumption.
  - unfold cset_mem at 1. cbn [set_index].
    destruct (list_eq_dec N.eq_dec (config_key c) (config_key x)) as [Hk|Hk].
    + apply config_key_inj in Hk. subst c. rewrite ctrie_get_upd_same. split; auto.
    + rewrite ctrie_get_upd_other by exact Hk. fold (cset_mem c s).
      split; [auto|]. intros [->|H]; [contradiction|exact H].
Qed.

Lemma cset_mem_insert_mono c x s : cset_mem c s = true -> cset_mem c (cset_insert x s) = true.
Proof. intros H. apply cset_mem_insert. auto. Qed.

Lemma cset_mem_insert_same x s : cset_mem x (cset_insert x s) = true.
Proof. apply cset_mem_insert. auto. Qed.

Lemma set_elems_insert c x s :
  In c (set_elems (cset_insert x s)) -> c = x \/ In c (set_elems s).
Proof.
  unfold cset_insert. destruct (cset_mem x s); [auto|]. cbn [set_elems In].
  intros [H|H]; auto.
Qed.

Lemma cset_ok_insert x s : cset_ok s -> cset_ok (cset_insert x s).
Proof.
  intros (Hm & Hnd & Hlen). split; [|split].
  - intros c. rewrite cset_mem_insert. unfold cset_insert.
    destruct (cset_mem x s) eqn:Ex.
    + rewrite <- Hm. split; [intros [->|H]; assumption|auto].
    + cbn [set_elems In]. rewrite Hm. split; intros [H|H]; auto.
  - unfold cset_insert. destruct (cset_mem x s) eqn:Ex; [exact Hnd|].
    cbn [set_elems]. constructor; [|exact Hnd].
    intros Hin. apply Hm in Hin. congruence.
  - unfold cset_insert. destruct (cset_mem x s) eqn:Ex; [exact Hlen|].
    cbn [set_elems set_len length]. rewrite Hlen. lia.
Qed.

(** ---- colour sets, sorting ---- *)
Lemma existsb_eqb_In (c : colour) (s : list colour) : existsb (N.eqb c) s = true <-> In c s.
Proof.
  rewrite existsb_exists. split.
  - intros (x & Hx & He). apply N.eqb_eq in He. subst. exact Hx.
  - intros H. exists c. split; [exact H|apply N.eqb_refl].
Qed.

Lemma colorset_insert_In c x s : In c (colorset_insert x s) <-> c = x \/ In c s.
Proof.
  unfold colorset_insert. destruct (existsb (N.eqb x) s) eqn:E.
  - apply existsb_eqb_In in E. split; [auto|]. intros [->|H]; assumption.
  - rewrite in_app_iff. cbn [In]. split.
    + intros [H|[H|[]]]; auto.
    + intros [H|H]; auto.
Qed.

Lemma colorset_insert_noop x s : In x s -> colorset_insert x s = s.
Proof. intros H. unfold colorset_insert. apply existsb_eqb_In in H. rewrite H. reflexivity. Qed.

Lemma sort_insert_In c x l : In c (sort_insert x l) <-> c = x \/ In c l.
Proof.
  induction l as [|y l IH]; cbn [sort_insert In].
  - split; [intros [H|[]]; auto|intros [H|[]]; auto].
  - destruct (x <=? y); cbn [In]; [|rewrite IH]; split; intros H;
      repeat (destruct H as [H|H]); auto.
Qed.

Lemma sort_colors_In c l : In c (sort_colors l) <-> In c l.
Proof.
  unfold sort_colors. induction l as [|x l IH]; cbn [fold_right In]; [tauto|].
  rewrite sort_insert_In, IH. split; intros [H|H]; auto.
Qed.

Lemma sort_insert_sorted x l : Sorted N.le l -> Sorted N.le (sort_insert x l).
Proof.
  induction l as [|y l IH]; intros Hs; cbn [sort_insert].
  - repeat constructor.
  - destruct (x <=? y) eqn:E.
    + apply N.leb_le in E. constructor; [exact Hs|]. constructor. exact E.
    + apply N.leb_gt in E. inversion Hs as [|? ? Hs' Hhd]; subst.
      constructor; [apply IH; exact Hs'|].
      destruct l as [|z l]; cbn [sort_insert].
      * constructor. lia.
      * destruct (x <=? z); constructor; [lia|]. inversion Hhd; subst. assumption.
Qed.

Lemma sort_colors_sorted l : Sorted N.le (sort_colors l).
Proof.
  unfold sort_colors. induction l as [|x l IH]; cbn [fold_right]; [constructor|].
  apply sort_insert_sorted. exact IH.
Qed.

Lemma pop_last_ne_app {A} (x : A) l :
  let '(r, z) := pop_last_ne x l in x :: l = r ++ [z].
Proof.
  revert x. induction l as [|y l IH]; intros x; cbn [pop_last_ne]; [reflexivity|].
  specialize (IH y). destruct (pop_last_ne y l) as [r z]. rewrite IH. reflexivity.
Qed.

Lemma split_last_app {A} (l r : list A) z : split_last l = Some (r, z) -> l = r ++ [z].
Proof.
  destruct l as [|x l]; cbn [split_last]; [discriminate|].
  intros H. pose proof (pop_last_ne_app x l) as Hp. destruct (pop_last_ne x l) as [r' z'].
  injection H as -> ->. exact Hp.
Qed.

Lemma split_last_none {A} (l : list A) : split_last l = None -> l = [].
Proof. destruct l; [reflexivity|]. cbn [split_last]. discriminate. Qed.

(** ---- span maps ---- *)
(** colour [col] is registered as following the window [w] *)
Definition reg (sp : spans) (w : list colour) (col : colour) : Prop :=
  exists cols, ctrie_get w sp = Some cols /\ In col cols.

Lemma reg_add_span sp s w col :
  reg (add_span sp s) w col <-> reg sp w col \/ (w = sp_span s /\ col = sp_last s).
Proof.
  unfold reg, add_span.
  destruct (list_eq_dec N.eq_dec w (sp_span s)) as [->|Hne].
  - rewrite ctrie_get_upd_same. destruct (ctrie_get (sp_span s) sp) as [cols|] eqn:E.
    + split.
      * intros (cols' & Hc & Hin). injection Hc as <-. apply colorset_insert_In in Hin.
        destruct Hin as [->|Hin]; [right; auto|left; eauto].
      * intros [(cols' & Hc & Hin)|[_ ->]]; eexists; (split; [reflexivity|]);
          apply colorset_insert_In; [injection Hc as <-|]; auto.
    + split.
      * intros (cols' & Hc & Hin). injection Hc as <-. destruct Hin as [<-|[]]. right; auto.
      * intros [(cols' & Hc & _)|[_ ->]]; [discriminate|].
        eexists; split; [reflexivity|]. left; reflexivity.
  - rewrite ctrie_get_upd_other by exact Hne. split; [auto|].
    intros [H|[H _]]; [exact H|contradiction].
Qed.

Lemma reg_add_span_mono sp s w col : reg sp w col -> reg (add_span sp s) w col.
Proof. intros H. apply reg_add_span. auto. Qed.

Lemma reg_add_span_same sp s : reg (add_span sp s) (sp_span s) (sp_last s).
Proof. apply reg_add_span. auto. Qed.

(** re-registering a registered colour leaves the map unchanged *)
Lemma add_span_noop sp s : reg sp (sp_span s) (sp_last s) -> add_span sp s = sp.
Proof.
  intros (cols & Hg & Hin). unfold add_span.
  apply ctrie_upd_noop with (v := cols); [exact Hg|]. apply colorset_insert_noop. exact Hin.
Qed.

(** [get_colors] returns exactly the registered colours, sorted; it panics
    iff the window was never registered *)
Lemma get_colors_ok sp s colors :
  get_colors sp s = Ok colors ->
  Sorted N.le colors /\ forall col, In col colors <-> reg sp (sp_span s) col.
Proof.
  unfold get_colors, reg. destruct (ctrie_get (sp_span s) sp) as [cols|]; [|discriminate].
  intros H. injection H as <-. split; [apply sort_colors_sorted|].
  intros col. rewrite sort_colors_In. split.
  - intros Hin. eauto.
  - intros (cols' & Hc & Hin). injection Hc as <-. exact Hin.
Qed.

Lemma get_colors_panic sp s :
  get_colors sp s = Panic <-> ctrie_get (sp_span s) sp = None.
Proof.
  unfold get_colors. destruct (ctrie_get (sp_span s) sp); split; congruence.
Qed.

Lemma get_colors_reg sp s col : reg sp (sp_span s) col -> exists colors, get_colors sp s = Ok colors /\ In col colors.
Proof.
  intros (cols & Hc & Hin). unfold get_colors. rewrite Hc. eexists; split; [reflexivity|].
  apply sort_colors_In. exact Hin.
Qed.
