(** C17, whole runs: lock-step simulation between the Python model
    (PyProverModel / PyMachineModel: tm/prover.py, tm/machine.py) and the Rust
    model (ProverModel: src/prover.rs, src/machine.rs [run_prover]).

    The two loops are NOT equivalent statement by statement.  The places where
    they part are listed here; each is either excluded by a DECIDABLE guard
    that is evaluated on the Python side of the run ([iter_inside],
    [run_inside]) or shown not to matter:

    D1  prover.rs:183-185 declines to confirm a rule when a predicted delta
        exceeds 90_000; prover.py has no such test.           guard [deltas_ok]
    D2  Tape.sig_compatible: tape.py:141-143 wants EQUAL span lengths,
        tape.rs:362-363 at least as long.                      guard [compat_ok]
    D3  calculate_diff / make_rule: rules.rs truncates counts to i32 and knows
        one multiplicative shape; rules.py works on unbounded ints and knows
        two multiplicative shapes, SuspectedRule and SecondDiffRule.  For
        counts below 2^31 the verdicts relate as [py_rs_column] says; the only
        outcome in which both go on differently is Python raising InfiniteRule
        from a table with a second-difference column.   guards [tape_small], [sd_ok]
    D4  EnumTape.get_count registers the block it reads (tape.py:267-273),
        tape.rs:722-725 does not: while a min-signature is computed, a rule
        applied to the tape widens Python's signature only.   guard [minsig_ok]
    D5  u64 arithmetic: Rust declines an application whose result overflows
        ([checked_mul]/[checked_add]) or panics; Python goes on with big ints.
                                                               guard [tape_small]
    D6  the cycle number is cast [as i32] (wraps) in Rust, converted with a
        range check (OverflowError) in Python.                 guard [cycle < 2^31]
    D7  Machine.run stops counting steps at the first rule application
        (step = -1); run_prover keeps adding the steps it does take.  Not a
        guard: the statement compares the step numbers of the blank record
        only where Python has one.
    D8  Python's make_rule stops at the first SuspectedRule column and run()
        records it; Rust reads the column as Unknown and returns None: the
        same effect on the run (no rule), proved ([py_rs_make_rule]). *)
From BB Require Import Base TM Ref TapeModel InstrsModel RulesModel MachineModel ProverModel.
From BB Require Import PyTapeModel PyRulesModel PyProverModel PyMachineModel.
From BB Require Import TapeCanon Loops RulesExact PyRsAgree ProverSound.
Open Scope N_scope.

(** ------------------------------------------------------------------ *)
(** * generic loop facts                                                *)

Section IterExt.
Context {St Rs : Type}.
Lemma iter_nat_ext (b1 b2 : St -> St + Rs) :
  (forall s, b1 s = b2 s) -> forall n s, iter_nat n b1 s = iter_nat n b2 s.
Proof.
  intros H. induction n as [|n IH]; intros s; [reflexivity|].
  cbn [iter_nat]. rewrite H. destruct (b2 s); [apply IH|reflexivity].
Qed.
Lemma for_upto_ext (b1 b2 : St -> St + Rs) :
  (forall s, b1 s = b2 s) -> forall n s, for_upto n b1 s = for_upto n b2 s.
Proof. intros H n s. rewrite !for_upto_iter. apply iter_nat_ext. exact H. Qed.
End IterExt.

(** two loops run side by side.  [Bad1] / [Bad2]: exits after which nothing
    is claimed (side 1: guard failed, crash, outside; side 2: panic). *)
Section IterSim.
Context {S1 X1 S2 X2 : Type} (b1 : S1 -> S1 + X1) (b2 : S2 -> S2 + X2).
Variable Rel : S1 -> S2 -> Prop.
Variable Q : X1 -> X2 -> Prop.
Variable Bad1 : X1 -> Prop.
Variable Bad2 : X2 -> Prop.

Definition sim_res (a : S1 + X1) (b : S2 + X2) : Prop :=
  match a, b with
  | inl s1, inl s2 => Rel s1 s2
  | inr x, inr y => Q x y \/ Bad1 x \/ Bad2 y
  | inr x, inl _ => Bad1 x
  | inl _, inr y => Bad2 y
  end.

Hypothesis Hstep : forall s1 s2, Rel s1 s2 -> sim_res (b1 s1) (b2 s2).

Lemma iter_sim n : forall s1 s2, Rel s1 s2 -> sim_res (iter_nat n b1 s1) (iter_nat n b2 s2).
Proof.
  induction n as [|n IH]; intros s1 s2 HR; [exact HR|].
  cbn [iter_nat]. pose proof (Hstep s1 s2 HR) as H.
  destruct (b1 s1) as [s1'|x], (b2 s2) as [s2'|y]; cbn [sim_res] in H.
  - apply IH. exact H.
  - destruct (iter_nat n b1 s1'); cbn [sim_res]; auto.
  - destruct (iter_nat n b2 s2'); cbn [sim_res]; auto.
  - exact H.
Qed.

Lemma for_upto_sim n s1 s2 : Rel s1 s2 -> sim_res (for_upto n b1 s1) (for_upto n b2 s2).
Proof. rewrite !for_upto_iter. apply iter_sim. Qed.
End IterSim.

(** a loop body with a guard tested before every iteration; [inr None] =
    the guard failed *)
Section Guarded.
Context {St Rs : Type} (g : St -> bool) (body : St -> St + Rs).
Definition gbody (s : St) : St + option Rs :=
  if g s then match body s with inl s' => inl s' | inr r => inr (Some r) end else inr None.
Definition glift (x : St + Rs) : St + option Rs :=
  match x with inl s => inl s | inr r => inr (Some r) end.

Lemma giter_cases n : forall s,
  iter_nat n gbody s = inr None \/ iter_nat n gbody s = glift (iter_nat n body s).
Proof.
  induction n as [|n IH]; intros s; [right; reflexivity|].
  cbn [iter_nat]. unfold gbody at 1 3. destruct (g s); [|left; reflexivity].
  destruct (body s) as [s'|r]; [apply IH|right; reflexivity].
Qed.
End Guarded.

(** ------------------------------------------------------------------ *)
(** * slots, the two rule tables                                        *)

Lemma pra_slot_eqb_eq a b : slot_eqb a b = true <-> a = b.
Proof.
  destruct a as [a1 a2], b as [b1 b2]. unfold slot_eqb. cbn [fst snd].
  rewrite andb_true_iff, !N.eqb_eq. split; [intros [-> ->]; reflexivity|intros H; injection H; auto].
Qed.
Lemma pra_slot_eqb_refl a : slot_eqb a a = true.
Proof. apply pra_slot_eqb_eq. reflexivity. Qed.
Lemma pra_slot_eqb_sym a b : slot_eqb a b = slot_eqb b a.
Proof.
  destruct (slot_eqb a b) eqn:E1, (slot_eqb b a) eqn:E2; try reflexivity.
  - apply pra_slot_eqb_eq in E1. subst. rewrite pra_slot_eqb_refl in E2. discriminate.
  - apply pra_slot_eqb_eq in E2. subst. rewrite pra_slot_eqb_refl in E1. discriminate.
Qed.
Definition pra_slot_lt (a b : slot) : Prop := slot_ltb a b = true.
Lemma pra_slot_lt_irrefl a : ~ pra_slot_lt a a.
Proof.
  destruct a as [a1 a2]. unfold pra_slot_lt, slot_ltb. cbn [fst snd].
  rewrite orb_true_iff, andb_true_iff, !N.ltb_lt. lia.
Qed.
Lemma pra_slot_lt_trans a b c : pra_slot_lt a b -> pra_slot_lt b c -> pra_slot_lt a c.
Proof.
  destruct a as [a1 a2], b as [b1 b2], c as [c1 c2]. unfold pra_slot_lt, slot_ltb. cbn [fst snd].
  rewrite !orb_true_iff, !andb_true_iff, !N.ltb_lt, !N.eqb_eq. lia.
Qed.
Lemma pra_slot_tricho a b : slot_ltb a b = false -> slot_eqb a b = false -> pra_slot_lt b a.
Proof.
  destruct a as [a1 a2], b as [b1 b2]. unfold pra_slot_lt, slot_ltb, slot_eqb. cbn [fst snd].
  rewrite !orb_false_iff, !andb_false_iff, orb_true_iff, andb_true_iff,
    !N.ltb_ge, !N.ltb_lt, !N.eqb_neq, N.eqb_eq. lia.
Qed.

(** the BTreeMap is kept strictly sorted *)
Fixpoint rules_sorted (m : rules_map) : Prop :=
  match m with
  | [] => True
  | (k, _) :: m' => (forall k' v, In (k', v) m' -> pra_slot_lt k k') /\ rules_sorted m'
  end.

Lemma rules_get_none_lt : forall (m : rules_map) k,
  (forall k' v, In (k', v) m -> pra_slot_lt k k') -> rules_get m k = None.
Proof.
  induction m as [|[k0 v0] m IH]; intros k H; [reflexivity|]. cbn [rules_get].
  destruct (slot_eqb k0 k) eqn:E.
  - apply pra_slot_eqb_eq in E. subst k0. exfalso. apply (pra_slot_lt_irrefl k).
    apply (H k v0). left. reflexivity.
  - apply IH. intros k' v Hin. apply (H k' v). right. exact Hin.
Qed.

Definition pushed (old : option (list (minsig * rule))) (v : minsig * rule) : list (minsig * rule) :=
  match old with Some vs => vs ++ [v] | None => [v] end.

Lemma rules_get_push k v : forall m k', rules_sorted m ->
  rules_get (rules_push k v m) k' =
  if slot_eqb k k' then Some (pushed (rules_get m k) v) else rules_get m k'.
Proof.
  induction m as [|[k0 vs] m IH]; intros k' Hs.
  - cbn [rules_push rules_get pushed]. destruct (slot_eqb k k'); reflexivity.
  - destruct Hs as [Hlt Hs]. cbn [rules_push].
    destruct (slot_ltb k k0) eqn:Elt.
    + (* goes in front: k is below every key *)
      cbn [rules_get]. destruct (slot_eqb k k') eqn:Ekk'.
      * assert (Hnone : rules_get ((k0, vs) :: m) k = None).
        { apply rules_get_none_lt. intros k2 v2 [Hin|Hin].
          - injection Hin as <- _. exact Elt.
          - apply (pra_slot_lt_trans _ k0); [exact Elt|apply (Hlt k2 v2 Hin)]. }
        cbn [rules_get] in Hnone. rewrite Hnone. reflexivity.
      * reflexivity.
    + destruct (slot_eqb k k0) eqn:Eeq.
      * apply pra_slot_eqb_eq in Eeq. subst k0. cbn [rules_get]. rewrite pra_slot_eqb_refl.
        destruct (slot_eqb k k'); reflexivity.
      * cbn [rules_get]. rewrite IH by exact Hs.
        rewrite (pra_slot_eqb_sym k0 k), Eeq.
        destruct (slot_eqb k0 k') eqn:E0.
        -- apply pra_slot_eqb_eq in E0. subst k'. rewrite Eeq. reflexivity.
        -- reflexivity.
Qed.

Lemma rules_push_in k v : forall m k2 v2, In (k2, v2) (rules_push k v m) ->
  k2 = k \/ In (k2, v2) m.
Proof.
  induction m as [|[k0 vs] m IH]; intros k2 v2 H; cbn [rules_push] in H.
  - destruct H as [H|[]]. injection H as <- _. left. reflexivity.
  - destruct (slot_ltb k k0).
    + destruct H as [H|H]; [injection H as <- _; left; reflexivity|right; exact H].
    + destruct (slot_eqb k k0) eqn:E.
      * apply pra_slot_eqb_eq in E. subst k0.
        destruct H as [H|H]; [injection H as <- _; left; reflexivity|right; right; exact H].
      * destruct H as [H|H]; [right; left; injection H as <- <-; reflexivity|].
        destruct (IH _ _ H) as [->|Hin]; [left; reflexivity|right; right; exact Hin].
Qed.

Lemma rules_push_sorted k v : forall m, rules_sorted m -> rules_sorted (rules_push k v m).
Proof.
  induction m as [|[k0 vs] m IH]; intros Hs; cbn [rules_push].
  - cbn [rules_sorted]. split; [intros ? ? []|exact I].
  - destruct Hs as [Hlt Hs]. destruct (slot_ltb k k0) eqn:Elt.
    + cbn [rules_sorted]. split; [|split; assumption].
      intros k2 v2 [Hin|Hin].
      * injection Hin as <- _. exact Elt.
      * apply (pra_slot_lt_trans _ k0); [exact Elt|apply (Hlt k2 v2 Hin)].
    + destruct (slot_eqb k k0) eqn:Eeq.
      * cbn [rules_sorted]. split; assumption.
      * cbn [rules_sorted]. split; [|apply IH; exact Hs].
        intros k2 v2 Hin. destruct (rules_push_in _ _ _ _ _ Hin) as [->|Hin2].
        -- apply pra_slot_tricho; assumption.
        -- apply (Hlt k2 v2 Hin2).
Qed.

Lemma pyr_get_append k v : forall (m : py_rules) k',
  pyr_get (pyr_append k v m) k' =
  if slot_eqb k k' then Some (pushed (pyr_get m k) v) else pyr_get m k'.
Proof.
  induction m as [|[k0 vs] m IH]; intros k'.
  - cbn [pyr_append pyr_get pushed]. destruct (slot_eqb k k'); reflexivity.
  - cbn [pyr_append]. destruct (slot_eqb k0 k) eqn:E0.
    + apply pra_slot_eqb_eq in E0. subst k0. cbn [pyr_get]. rewrite pra_slot_eqb_refl.
      destruct (slot_eqb k k'); reflexivity.
    + cbn [pyr_get]. rewrite IH, E0. destruct (slot_eqb k0 k') eqn:E1.
      * apply pra_slot_eqb_eq in E1. subst k'. rewrite (pra_slot_eqb_sym k k0), E0. reflexivity.
      * reflexivity.
Qed.

(** the two tables answer every lookup alike *)
Definition lookup_eq (a : py_rules) (b : rules_map) : Prop :=
  forall sl, pyr_get a sl = rules_get b sl.

Lemma lookup_eq_push a b k v : lookup_eq a b -> rules_sorted b ->
  lookup_eq (pyr_append k v a) (rules_push k v b).
Proof.
  intros H Hs sl. rewrite pyr_get_append, rules_get_push by exact Hs. rewrite H.
  destruct (slot_eqb k sl); [|apply H]. reflexivity.
Qed.

(** ------------------------------------------------------------------ *)
(** * get_rule                                                          *)

Lemma cc_eqb_sym a b : cc_eqb a b = cc_eqb b a.
Proof. destruct a, b; cbn [cc_eqb]; try reflexivity; apply N.eqb_sym. Qed.

Lemma sigspan_eqb_firstn : forall pre s,
  sigspan_eqb pre (firstn (length pre) s) = starts_with s pre.
Proof.
  induction pre as [|x pre IH]; intros s; [destruct s; reflexivity|].
  destruct s as [|y s]; [reflexivity|].
  cbn [length firstn sigspan_eqb starts_with]. rewrite IH, cc_eqb_sym. reflexivity.
Qed.

Lemma py_rule_matches_eq ms sig : py_rule_matches ms sig = rule_matches ms sig.
Proof.
  destruct ms as [g [lex rex]]. unfold py_rule_matches, rule_matches.
  destruct lex, rex; rewrite ?sigspan_eqb_firstn; reflexivity.
Qed.

Lemma py_find_rule_eq : forall rs sig, py_find_rule rs sig = find_rule rs sig.
Proof.
  induction rs as [|[ms r] rs IH]; intros sig; [reflexivity|].
  cbn [py_find_rule find_rule]. rewrite py_rule_matches_eq, IH. reflexivity.
Qed.

Lemma py_get_rule_eq pp pv st sc sigf :
  lookup_eq (pp_rules pp) (pv_rules pv) ->
  py_get_rule pp st sc sigf = get_rule pv st sc sigf.
Proof.
  intros H. unfold py_get_rule, get_rule. rewrite H.
  destruct (rules_get (pv_rules pv) (st, sc)); [apply py_find_rule_eq|reflexivity].
Qed.

(** ------------------------------------------------------------------ *)
(** * the configs dict                                                  *)

Lemma bucket_get_set : forall b g v w,
  bucket_get b g = Some w -> bucket_get (bucket_set b g v) g = Some v.
Proof.
  induction b as [|[g' v'] b IH]; intros g v w H; cbn [bucket_get] in H; [discriminate|].
  cbn [bucket_set]. destruct (sig_eqb g' g) eqn:E; cbn [bucket_get]; rewrite E; [reflexivity|].
  apply (IH g v w H).
Qed.

Lemma cfg_get_set m g v w : cfg_get m g = Some w -> cfg_get (cfg_set m g v) g = Some v.
Proof.
  unfold cfg_get, cfg_set. generalize (sig_key g) as k. induction m as [|[k' b] m IH]; intros k H.
  - discriminate.
  - cbn [cfg_get_key] in H. cbn [cfg_set_key].
    destruct (key_eqb k' k) eqn:E; cbn [cfg_get_key]; rewrite E.
    + apply (bucket_get_set _ _ _ _ H).
    + apply IH. exact H.
Qed.

(** ------------------------------------------------------------------ *)
(** * calculate_diff: how the verdicts of the two code bases relate     *)

Definition cnt_ok (n : N) : Prop := 1 <= n /\ n < 2147483648.
Definition col_ok (q : N * N * N * N) : Prop :=
  let '(a, b, c, d) := q in cnt_ok a /\ cnt_ok b /\ cnt_ok c /\ cnt_ok d.

(** rules.rs never panics on counts that fit i32 and are positive *)
Lemma rs_diff_no_panic a b c d :
  cnt_ok a -> cnt_ok b -> cnt_ok c -> cnt_ok d -> exists x, calculate_diff a b c d = Ok x.
Proof.
  intros [Ha1 Ha] [Hb1 Hb] [Hc1 Hc] [Hd1 Hd]. unfold calculate_diff.
  destruct ((a =? b) && (b =? c) && (c =? d)); [eexists; reflexivity|].
  rewrite !i32_of_u64_small by assumption. cbv beta zeta.
  rewrite !in_i32_diff by assumption. cbn [negb].
  assert (E1 : ((Z.of_N b =? -2147483648) && (Z.of_N a =? -1))%Z = false).
  { apply andb_false_iff. left. apply Z.eqb_neq. lia. }
  assert (E2 : ((Z.of_N c =? -2147483648) && (Z.of_N b =? -1))%Z = false).
  { apply andb_false_iff. left. apply Z.eqb_neq. lia. }
  assert (E3 : ((Z.of_N d =? -2147483648) && (Z.of_N c =? -1))%Z = false).
  { apply andb_false_iff. left. apply Z.eqb_neq. lia. }
  assert (E4 : (Z.of_N c =? 0)%Z = false) by (apply Z.eqb_neq; lia).
  rewrite E1, E2, E3, E4. cbn [fst snd].
  repeat match goal with
         | |- exists x, Ok _ = Ok x => eexists; reflexivity
         | |- exists x, obind (if ?c then _ else _) _ = Ok x => destruct c; cbn [obind]
         | |- exists x, (if ?c then _ else _) = Ok x => destruct c
         end.
Qed.

(** the multiplicative shape rules.rs knows is the FIRST of the two shapes of
    rules.py (rules.py:99-115): same quotient and same remainder three times *)
Lemma mult_arith (A B C D q r : Z) :
  (1 <= A)%Z -> (1 <= B)%Z -> (1 <= C)%Z -> (1 <= D)%Z ->
  ~ (A = B /\ B = C /\ C = D) ->
  q = (B / A)%Z -> r = (B mod A)%Z ->
  (C / B)%Z = q -> (C mod B)%Z = r -> (D / C)%Z = q -> (D mod C)%Z = r ->
  (A < B < C)%Z /\ (C < D)%Z.
Proof.
  intros HA HB HC HD Hne Hq Hr Hq2 Hr2 Hq3 Hr3.
  pose proof (Z.div_mod B A ltac:(lia)) as E1. pose proof (Z.mod_pos_bound B A ltac:(lia)) as R1.
  pose proof (Z.div_mod C B ltac:(lia)) as E2. pose proof (Z.mod_pos_bound C B ltac:(lia)) as R2.
  pose proof (Z.div_mod D C ltac:(lia)) as E3. pose proof (Z.mod_pos_bound D C ltac:(lia)) as R3.
  rewrite <- Hq, <- Hr in E1. rewrite Hq2, Hr2 in E2. rewrite Hq3, Hr3 in E3.
  rewrite <- Hr in R1. rewrite Hr2 in R2. rewrite Hr3 in R3.
  assert (Hq0 : (0 <= q)%Z) by (subst q; apply Z.div_pos; lia).
  assert (Hq1 : (q <> 0)%Z).
  { intros ->. assert (B = r) by lia. assert (C = r) by lia. subst B. lia. }
  assert (Hnot : ~ (q = 1 /\ r = 0)%Z).
  { intros [-> ->]. apply Hne. lia. }
  assert (Hcase : (2 <= q \/ (q = 1 /\ 1 <= r))%Z) by lia.
  destruct Hcase as [H2|[-> H1]]; nia.
Qed.

Lemma rs_mult_py_mult a b c d q r :
  cnt_ok a -> cnt_ok b -> cnt_ok c -> cnt_ok d ->
  calculate_diff a b c d = Ok (DGot (MultOp q r)) ->
  py_calculate_diff a b c d = Ret (Some (MultOp q r)).
Proof.
  intros [Ha1 Ha] [Hb1 Hb] [Hc1 Hc] [Hd1 Hd]. unfold calculate_diff.
  destruct ((a =? b) && (b =? c) && (c =? d)) eqn:Eall; [discriminate|].
  rewrite !i32_of_u64_small by assumption. cbv beta zeta.
  rewrite !in_i32_diff by assumption. cbn [negb].
  set (A := Z.of_N a). set (B := Z.of_N b). set (C := Z.of_N c). set (D := Z.of_N d).
  assert (HA : (1 <= A)%Z) by (subst A; lia). assert (HB : (1 <= B)%Z) by (subst B; lia).
  assert (HC : (1 <= C)%Z) by (subst C; lia). assert (HD : (1 <= D)%Z) by (subst D; lia).
  assert (Hne : ~ (A = B /\ B = C /\ C = D)).
  { intros (E1 & E2 & E3). subst A B C D.
    apply N2Z.inj in E1. apply N2Z.inj in E2. apply N2Z.inj in E3. subst.
    rewrite !N.eqb_refl in Eall. discriminate. }
  intros H.
  assert (Hplus : ~ (B - A = C - B /\ C - B = D - C)%Z).
  { intros [P1 P2]. rewrite (proj2 (Z.eqb_eq _ _) P1) in H. cbn [obind] in H.
    rewrite (proj2 (Z.eqb_eq _ _) P2) in H. discriminate. }
  assert (H' : (if (A =? 0)%Z || (B =? 0)%Z then Ok DUnknown else
    if (B =? -2147483648)%Z && (A =? -1)%Z then Panic else
    if (C =? -2147483648)%Z && (B =? -1)%Z then Panic else
    if (Z.quot B A =? Z.quot C B)%Z && (Z.rem B A =? Z.rem C B)%Z then
      if (C =? 0)%Z then Panic else
      if (D =? -2147483648)%Z && (C =? -1)%Z then Panic else
      if (Z.quot C B =? Z.quot D C)%Z && (Z.rem C B =? Z.rem D C)%Z
      then Ok (DGot (MultOp (Z.quot B A) (Z.rem B A))) else Ok DUnknown
    else Ok DUnknown) = Ok (DGot (MultOp q r))).
  { destruct (B - A =? C - B)%Z; cbn [obind] in H; [|exact H].
    destruct (C - B =? D - C)%Z; [discriminate|exact H]. }
  clear H.
  destruct ((A =? 0)%Z || (B =? 0)%Z); [discriminate|].
  destruct ((B =? -2147483648)%Z && (A =? -1)%Z); [discriminate|].
  destruct ((C =? -2147483648)%Z && (B =? -1)%Z); [discriminate|].
  destruct ((Z.quot B A =? Z.quot C B)%Z && (Z.rem B A =? Z.rem C B)%Z) eqn:E12; [|discriminate].
  destruct (C =? 0)%Z; [discriminate|].
  destruct ((D =? -2147483648)%Z && (C =? -1)%Z); [discriminate|].
  destruct ((Z.quot C B =? Z.quot D C)%Z && (Z.rem C B =? Z.rem D C)%Z) eqn:E23; [|discriminate].
  injection H' as Hq Hr.
  apply andb_true_iff in E12. destruct E12 as [Q12 R12]. apply Z.eqb_eq in Q12, R12.
  apply andb_true_iff in E23. destruct E23 as [Q23 R23]. apply Z.eqb_eq in Q23, R23.
  rewrite !Z.quot_div_nonneg in Hq by lia. rewrite !Z.quot_div_nonneg in Q12 by lia.
  rewrite !Z.quot_div_nonneg in Q23 by lia.
  rewrite !Z.rem_mod_nonneg in Hr by lia. rewrite !Z.rem_mod_nonneg in R12 by lia.
  rewrite !Z.rem_mod_nonneg in R23 by lia.
  destruct (mult_arith A B C D q r HA HB HC HD Hne (eq_sym Hq) (eq_sym Hr)) as [[AB BC] CD]; try lia.
  (* Python side *)
  unfold py_calculate_diff. fold A B C D. cbv zeta.
  replace ((B =? A)%Z && (C =? A)%Z && (D =? A)%Z) with false
    by (symmetry; apply andb_false_iff; left; apply andb_false_iff; left; apply Z.eqb_neq; lia).
  replace ((C - B =? B - A)%Z && (D - C =? B - A)%Z) with false.
  2:{ symmetry. apply andb_false_iff.
      destruct (Z.eq_dec (C - B) (B - A)) as [P1|P1]; [|left; apply Z.eqb_neq; exact P1].
      right. apply Z.eqb_neq. intros P2. apply Hplus. lia. }
  replace ((A <? B)%Z && (B <? C)%Z && (C <? D)%Z) with true
    by (symmetry; rewrite !andb_true_iff, !Z.ltb_lt; lia).
  cbn [negb].
  replace (A =? 0)%Z with false by (symmetry; apply Z.eqb_neq; lia).
  replace (C / B =? B / A)%Z with true by (symmetry; apply Z.eqb_eq; lia).
  replace (C mod B =? B mod A)%Z with true by (symmetry; apply Z.eqb_eq; lia).
  replace (D / C =? B / A)%Z with true by (symmetry; apply Z.eqb_eq; lia).
  replace (D mod C =? B mod A)%Z with true by (symmetry; apply Z.eqb_eq; lia).
  cbn [negb pybind]. rewrite Hq, Hr. reflexivity.
Qed.

(** column by column: Python's verdict determines Rust's, except that a
    multiplicative verdict of Python may be Unknown for Rust *)
Lemma py_rs_column a b c d :
  cnt_ok a -> cnt_ok b -> cnt_ok c -> cnt_ok d ->
  match py_calculate_diff a b c d with
  | Ret None => calculate_diff a b c d = Ok DSkip
  | Ret (Some (Plus x)) => calculate_diff a b c d = Ok (DGot (Plus x))
  | Ret (Some (MultOp _ _)) => True
  | Raise ExUnknownRule | Raise (ExSuspectedRule _ _) | Raise ExSecondDiffRule =>
      calculate_diff a b c d = Ok DUnknown
  | Raise _ => True
  end.
Proof.
  intros Ha Hb Hc Hd.
  pose proof (py_diff_eq_rs_additive a b c d (proj2 Ha) (proj2 Hb) (proj2 Hc) (proj2 Hd)) as Heq.
  destruct (rs_diff_no_panic a b c d Ha Hb Hc Hd) as [x Hx].
  assert (Hraise : forall e, py_calculate_diff a b c d = Raise e -> calculate_diff a b c d = Ok DUnknown).
  { intros e He. rewrite He, Hx in Heq. cbn [py_addview rs_addview] in Heq.
    destruct x as [| |[z|q r]]; try discriminate Heq; [exact Hx|].
    rewrite (rs_mult_py_mult _ _ _ _ _ _ Ha Hb Hc Hd Hx) in He. discriminate. }
  destruct (py_calculate_diff a b c d) as [e|[[z|q r]|]] eqn:Epy.
  - destruct e; try exact I; apply (Hraise _ eq_refl).
  - symmetry in Heq. apply (rs_addview_plus _ _ Heq).
  - exact I.
  - symmetry in Heq. apply (rs_addview_same _ Heq).
Qed.

Lemma py_has_mult_app r e :
  py_has_mult (r ++ [e]) = py_has_mult r || match snd e with Plus _ => false | MultOp _ _ => true end.
Proof. unfold py_has_mult. rewrite existsb_app. cbn [existsb]. rewrite orb_false_r. reflexivity. Qed.

(** the two taints only grow along a span *)
Lemma py_span_mono side : forall a b c d i acc sd r sd',
  py_make_rule_span side i a b c d acc sd = Ret (Some (r, sd')) ->
  (sd = true -> sd' = true) /\ (py_has_mult acc = true -> py_has_mult r = true).
Proof.
  induction a as [|x a IH]; intros b c d i acc sd r sd' H.
  - destruct b, c, d; cbn [py_make_rule_span] in H; try discriminate.
    injection H as <- <-. auto.
  - destruct b as [|y b], c as [|z c], d as [|w d]; cbn [py_make_rule_span] in H; try discriminate.
    destruct (py_calculate_diff x y z w) as [e|[o|]].
    + destruct e; try discriminate. apply IH in H. destruct H as [H1 H2].
      split; [intros _; apply H1; reflexivity|exact H2].
    + apply IH in H. destruct H as [H1 H2]. split; [exact H1|].
      intros Hm. apply H2. rewrite py_has_mult_app, Hm. reflexivity.
    + apply (IH _ _ _ _ _ _ _ _ H).
Qed.

Lemma rs_span_no_panic side : forall a b c d i acc,
  Forall cnt_ok a -> Forall cnt_ok b -> Forall cnt_ok c -> Forall cnt_ok d ->
  exists x, make_rule_span side i (zip4 a b c d) acc = Ok x.
Proof.
  induction a as [|x a IH]; intros b c d i acc Fa Fb Fc Fd; [eexists; reflexivity|].
  destruct b as [|y b], c as [|z c], d as [|w d]; try (eexists; reflexivity).
  inversion Fa; inversion Fb; inversion Fc; inversion Fd; subst.
  cbn [zip4 make_rule_span].
  destruct (rs_diff_no_panic x y z w) as [v Hv]; try assumption. rewrite Hv. cbn [obind].
  destruct v; [apply IH; assumption|eexists; reflexivity|apply IH; assumption].
Qed.

(** once Python's table is tainted nothing is claimed about a rule, but a
    "no rule" answer of Python (UnknownRule column -> None, SuspectedRule) is
    still a "no rule" answer of Rust, whatever Rust has accumulated *)
Lemma span_tainted side : forall a b c d i accp accr sd,
  Forall cnt_ok a -> Forall cnt_ok b -> Forall cnt_ok c -> Forall cnt_ok d ->
  match py_make_rule_span side i a b c d accp sd with
  | Ret None | Raise (ExSuspectedRule _ _) => make_rule_span side i (zip4 a b c d) accr = Ok None
  | _ => True
  end.
Proof.
  induction a as [|x a IH]; intros b c d i accp accr sd Fa Fb Fc Fd.
  - destruct b, c, d; cbn [py_make_rule_span]; exact I.
  - destruct b as [|y b], c as [|z c], d as [|w d]; cbn [py_make_rule_span]; try exact I.
    inversion Fa; inversion Fb; inversion Fc; inversion Fd; subst.
    cbn [zip4 make_rule_span].
    pose proof (py_rs_column x y z w) as Hcol. specialize (Hcol ltac:(assumption) ltac:(assumption) ltac:(assumption) ltac:(assumption)).
    destruct (py_calculate_diff x y z w) as [e|[[pz|q r]|]].
    + destruct e; try exact I; rewrite Hcol; cbn [obind]; try reflexivity.
      destruct (py_make_rule_span side (i + 1) a b c d accp true) as [[]|[[]|]]; try exact I; reflexivity.
    + rewrite Hcol. cbn [obind]. apply IH; assumption.
    + destruct (rs_diff_no_panic x y z w) as [v Hv]; try assumption. rewrite Hv. cbn [obind].
      destruct v.
      * apply IH; assumption.
      * destruct (py_make_rule_span side (i + 1) a b c d _ sd) as [[]|[[]|]]; try exact I; reflexivity.
      * apply IH; assumption.
    + rewrite Hcol. cbn [obind]. apply IH; assumption.
Qed.

Lemma span_clean side : forall a b c d i acc,
  Forall cnt_ok a -> Forall cnt_ok b -> Forall cnt_ok c -> Forall cnt_ok d ->
  match py_make_rule_span side i a b c d acc false with
  | Ret None | Raise (ExSuspectedRule _ _) => make_rule_span side i (zip4 a b c d) acc = Ok None
  | Ret (Some (r, sd')) =>
      sd' = false -> py_has_mult r = false -> make_rule_span side i (zip4 a b c d) acc = Ok (Some r)
  | _ => True
  end.
Proof.
  induction a as [|x a IH]; intros b c d i acc Fa Fb Fc Fd.
  - destruct b, c, d; cbn [py_make_rule_span]; try exact I. intros _ _. reflexivity.
  - destruct b as [|y b], c as [|z c], d as [|w d]; cbn [py_make_rule_span]; try exact I.
    inversion Fa as [|? ? Hx Fa']; inversion Fb as [|? ? Hy Fb'];
      inversion Fc as [|? ? Hz Fc']; inversion Fd as [|? ? Hw Fd']; subst.
    cbn [zip4 make_rule_span].
    pose proof (py_rs_column x y z w Hx Hy Hz Hw) as Hcol.
    destruct (py_calculate_diff x y z w) as [e|[[pz|q r]|]].
    + destruct e; try exact I; rewrite Hcol; cbn [obind]; try reflexivity.
      (* SecondDiffRule: Python goes on tainted, Rust has answered None *)
      destruct (py_make_rule_span side (i + 1) a b c d acc true) as [[]|[[r sd']|]] eqn:E;
        try exact I; try reflexivity.
      intros Hsd. destruct (py_span_mono _ _ _ _ _ _ _ _ _ _ E) as [M _].
      rewrite (M eq_refl) in Hsd. discriminate.
    + rewrite Hcol. cbn [obind]. apply IH; assumption.
    + (* multiplicative for Python *)
      destruct (rs_diff_no_panic x y z w Hx Hy Hz Hw) as [v Hv]. rewrite Hv. cbn [obind].
      pose proof (fun accr => span_tainted side a b c d (i + 1) (acc ++ [(side, i, MultOp q r)]) accr false
                    Fa' Fb' Fc' Fd') as T.
      destruct (py_make_rule_span side (i + 1) a b c d (acc ++ [(side, i, MultOp q r)]) false)
        as [e|[[r' sd']|]] eqn:E.
      * destruct e; try exact I. destruct v; [apply T|reflexivity|apply T].
      * intros _ Hm. destruct (py_span_mono _ _ _ _ _ _ _ _ _ _ E) as [_ M].
        rewrite M in Hm; [discriminate|]. rewrite py_has_mult_app. cbn [snd]. apply orb_true_r.
      * destruct v; [apply T|reflexivity|apply T].
    + rewrite Hcol. cbn [obind]. apply IH; assumption.
Qed.

Definition counts_ok (c : list N * list N) : Prop := Forall cnt_ok (fst c) /\ Forall cnt_ok (snd c).

(** D3/D8: make_rule.  Python's "no rule" (an UnknownRule column, or a
    SuspectedRule that run() turns into "no rule") is Rust's "no rule"; an
    untainted table gives the same rule. *)
Lemma py_rs_make_rule c1 c2 c3 c4 :
  counts_ok c1 -> counts_ok c2 -> counts_ok c3 -> counts_ok c4 ->
  match py_make_rule_raw c1 c2 c3 c4 with
  | Ret None | Raise (ExSuspectedRule _ _) => make_rule c1 c2 c3 c4 = Ok None
  | Ret (Some (r, sd)) => sd = false -> py_has_mult r = false -> make_rule c1 c2 c3 c4 = Ok (Some r)
  | _ => True
  end.
Proof.
  intros [L1 R1] [L2 R2] [L3 R3] [L4 R4]. unfold py_make_rule_raw, make_rule.
  pose proof (span_clean false _ _ _ _ 0 [] L1 L2 L3 L4) as HL.
  destruct (py_make_rule_span false 0 (fst c1) (fst c2) (fst c3) (fst c4) [] false)
    as [e|[[accl sdl]|]] eqn:EL; cbn [pybind].
  - destruct e; try exact I. rewrite HL. reflexivity.
  - destruct sdl.
    + (* tainted by a second difference *)
      destruct (rs_span_no_panic false _ _ _ _ 0 [] L1 L2 L3 L4) as [xl Hxl]. rewrite Hxl. cbn [obind].
      pose proof (fun accr => span_tainted true _ _ _ _ 0 accl accr true R1 R2 R3 R4) as T.
      destruct (py_make_rule_span true 0 (snd c1) (snd c2) (snd c3) (snd c4) accl true)
        as [e|[[r sd]|]] eqn:ER.
      * destruct e; try exact I. destruct xl; [apply T|reflexivity].
      * intros Hsd. destruct (py_span_mono _ _ _ _ _ _ _ _ _ _ ER) as [M _].
        rewrite (M eq_refl) in Hsd. discriminate.
      * destruct xl; [apply T|reflexivity].
    + destruct (py_has_mult accl) eqn:Em.
      * destruct (rs_span_no_panic false _ _ _ _ 0 [] L1 L2 L3 L4) as [xl Hxl]. rewrite Hxl. cbn [obind].
        pose proof (fun accr => span_tainted true _ _ _ _ 0 accl accr false R1 R2 R3 R4) as T.
        destruct (py_make_rule_span true 0 (snd c1) (snd c2) (snd c3) (snd c4) accl false)
          as [e|[[r sd]|]] eqn:ER.
        -- destruct e; try exact I. destruct xl; [apply T|reflexivity].
        -- intros _ Hm. destruct (py_span_mono _ _ _ _ _ _ _ _ _ _ ER) as [_ M].
           rewrite (M Em) in Hm. discriminate.
        -- destruct xl; [apply T|reflexivity].
      * rewrite (HL eq_refl eq_refl). cbn [obind].
        apply (span_clean true _ _ _ _ 0 accl R1 R2 R3 R4).
  - rewrite HL. reflexivity.
Qed.

(** rules.py:256-262 vs prover.rs:208-213 / 215-217: the same tests *)
Lemma py_all_nonneg_eq r : py_all_nonneg r = negb (existsb (fun e => is_neg_plus (snd e)) r).
Proof.
  induction r as [|[ix o] r IH]; [reflexivity|].
  cbn [py_all_nonneg forallb existsb snd] in *. unfold py_all_nonneg in IH. rewrite IH.
  destruct o as [d|q m]; cbn [is_neg_plus].
  - rewrite negb_orb. f_equal. rewrite Z.leb_antisym. reflexivity.
  - reflexivity.
Qed.
Lemma py_has_mult_eq r : py_has_mult r = existsb (fun e => is_mult (snd e)) r.
Proof.
  induction r as [|[ix o] r IH]; [reflexivity|].
  cbn [py_has_mult existsb snd] in *. unfold py_has_mult in IH. rewrite IH.
  destruct o; reflexivity.
Qed.

(** ------------------------------------------------------------------ *)
(** * small tapes, well-formed rules                                    *)

Definition span_small (s : span) : bool := forallb (fun b : colour * N => snd b <? 2147483648) s.
(** guard: every count of the tape is below 2^31 *)
Definition tape_small (t : tape) : bool := span_small (lspan t) && span_small (rspan t).

Lemma span_small_nth s n b : span_small s = true -> nth_error s n = Some b -> snd b < 2147483648.
Proof.
  unfold span_small. rewrite forallb_forall. intros H Hn.
  apply N.ltb_lt. apply H. eapply nth_error_In. exact Hn.
Qed.
Lemma tape_small_get t ix c : tape_small t = true -> get_count t ix = Ok c -> c < 2147483648.
Proof.
  unfold tape_small, get_count. rewrite andb_true_iff. intros [Hl Hr].
  destruct (nth_error (if fst ix then rspan t else lspan t) (N.to_nat (snd ix))) as [b|] eqn:E; [|discriminate].
  intros H. injection H as <-.
  destruct (fst ix); [exact (span_small_nth _ _ _ Hr E)|exact (span_small_nth _ _ _ Hl E)].
Qed.

Lemma span_counts_ok s : counts_pos s -> span_small s = true -> Forall cnt_ok (map (fun b : colour * N => snd b) s).
Proof.
  unfold counts_pos, span_small. rewrite forallb_forall, Forall_forall. intros Hp Hs.
  apply Forall_forall. intros n Hn. apply in_map_iff in Hn. destruct Hn as (b & <- & Hb).
  split; [apply Hp; exact Hb|apply N.ltb_lt; apply Hs; exact Hb].
Qed.
Lemma tape_counts_ok t : canon_tape t -> tape_small t = true -> counts_ok (py_counts t).
Proof.
  intros [(Hl & _) (Hr & _)] Hs. unfold tape_small in Hs. apply andb_true_iff in Hs. destruct Hs as [Sl Sr].
  split; cbn [py_counts fst snd]; apply span_counts_ok; assumption.
Qed.

(** what every rule stored or handed out by the Rust prover satisfies *)
Definition rule_good (r : rule) : Prop :=
  rule_keys_nodup r /\ rule_additive r /\ (forall pos d, In (pos, Plus d) r -> in_i32 d = true).
Definition rules_good (m : rules_map) : Prop :=
  forall sl l ms r, In (sl, l) m -> In (ms, r) l -> rule_good r.

Lemma get_rule_good p st sc sigf r :
  rules_good (pv_rules p) -> get_rule p st sc sigf = Some r -> rule_good r.
Proof.
  unfold get_rule. intros Hok H.
  destruct (rules_get (pv_rules p) (st, sc)) as [rs|] eqn:E; [|discriminate].
  apply rules_get_in in E. destruct E as (k' & Hin).
  apply find_rule_in in H. destruct H as (ms & Hin').
  exact (Hok _ _ _ _ Hin Hin').
Qed.

Lemma rules_push_good k ms r : forall m,
  rules_good m -> rule_good r -> rules_good (rules_push k (ms, r) m).
Proof.
  intros m Hok Hr sl l ms0 r0 Hin Hin'.
  assert (Hcase : (exists l0, In (sl, l0) m /\ (In (ms0, r0) l0 \/ (ms0, r0) = (ms, r))) \/ (ms0, r0) = (ms, r)).
  { clear Hok. revert Hin. induction m as [|[k0 vs] m IH]; cbn [rules_push]; intros Hin.
    - destruct Hin as [Hin|[]]. injection Hin as <- <-. destruct Hin' as [E|[]]. right. symmetry. exact E.
    - destruct (slot_ltb k k0).
      + destruct Hin as [Hin|Hin].
        * injection Hin as <- <-. destruct Hin' as [E|[]]. right. symmetry. exact E.
        * left. exists l. split; [exact Hin|left; exact Hin'].
      + destruct (slot_eqb k k0).
        * destruct Hin as [Hin|Hin].
          -- injection Hin as <- <-. apply in_app_or in Hin'. destruct Hin' as [H|[H|[]]].
             ++ left. exists vs. split; [left; reflexivity|left; exact H].
             ++ right. symmetry. exact H.
          -- left. exists l. split; [right; exact Hin|left; exact Hin'].
        * destruct Hin as [Hin|Hin].
          -- injection Hin as <- <-. left. exists vs. split; [left; reflexivity|left; exact Hin'].
          -- destruct (IH Hin) as [(l0 & A & B)|E]; [left; exists l0; split; [right; exact A|exact B]|right; exact E]. }
  destruct Hcase as [(l0 & A & [B|E])|E].
  - exact (Hok _ _ _ _ A B).
  - injection E as _ ->. exact Hr.
  - injection E as _ ->. exact Hr.
Qed.

(** D5.  On a canonical tape with counts below 2^31 a well-formed rule is
    applied alike: Rust's answer (unless it panics) is Python's. *)
Lemma apply_agree t r :
  tape_small t = true -> rule_good r ->
  match apply_rule t r with
  | Panic => True
  | Ok (res, t') => py_apply_rule t r = Ret (res, t')
  end.
Proof.
  intros Hs (Hnd & Hadd & Hi32).
  destruct (apply_rule t r) as [|[res t']] eqn:E; [exact I|].
  destruct res as [k|].
  - apply py_apply_eq_rs_applied; assumption.
  - pose proof (apply_none_untouched _ _ _ E) as ->.
    destruct (proj1 (apply_none_iff _ _ _ _ E) eq_refl) as [Hca|Hov].
    + apply (py_apply_eq_rs_inapplicable t r Hadd Hca).
    + exfalso. destruct Hov as (times & pos & res & ix & d & c & Hca & Hin & Hne & Hg & Hov).
      destruct (count_apps_max _ _ _ _ _ Hca) as (_ & (dm & cm & Hinm & Hdm & Hgm & Hrm & _)).
      pose proof (tape_small_get _ _ _ Hs Hgm) as Hcm. pose proof (tape_small_get _ _ _ Hs Hg) as Hc.
      pose proof (Hi32 _ _ Hin) as Hd. apply in_i32_true in Hd.
      assert (Ht : (Z.of_N times < 2147483648)%Z) by nia.
      unfold plus_overflows, u64_max in Hov. destruct Hov as [Hov|[Hd0 Hov]]; nia.
Qed.

Lemma canon_pull_pos t (sh : bool) : canon_tape t -> counts_pos (if sh then rspan t else lspan t).
Proof. intros [(Hl & _) (Hr & _)]. destruct sh; assumption. Qed.

Lemma pyr_get_eq : forall (m : py_rules) k, pyr_get m k = rules_get m k.
Proof.
  induction m as [|[k' v] m IH]; intros k; [reflexivity|].
  cbn [pyr_get rules_get]. rewrite IH. reflexivity.
Qed.

Lemma py_get_rule_eq2 pp pv st sc sigf1 sigf2 :
  lookup_eq (pp_rules pp) (pv_rules pv) -> sigf1 tt = sigf2 tt ->
  py_get_rule pp st sc sigf1 = get_rule pv st sc sigf2.
Proof.
  intros H E. unfold py_get_rule, get_rule. rewrite H.
  destruct (rules_get (pv_rules pv) (st, sc)); [rewrite E; apply py_find_rule_eq|reflexivity].
Qed.

(** ------------------------------------------------------------------ *)
(** * run_simulator                                                     *)

Section Sim.
Variable comp : comp_prog.
Variable pp : py_prover.
Variable pv : prover.
Hypothesis Hlook : lookup_eq (pp_rules pp) (pv_rules pv).
Hypothesis Hgood : rules_good (pv_rules pv).

Lemma sim_body_agree s :
  canon_tape (snd s) -> tape_small (snd s) = true ->
  match sim_body comp pv s with
  | inl s' => py_sim_body comp pp s = inl s' /\ canon_tape (snd s')
  | inr SimNone => py_sim_body comp pp s = inr PySimNone
  | inr SimPanic => True
  end.
Proof.
  destruct s as [st t]. cbn [snd]. intros Hcan Hsm. unfold sim_body, py_sim_body.
  rewrite (py_get_rule_eq2 pp pv st (scan t) (fun _ => py_signature t) (fun _ => tape_sig t) Hlook
             (py_signature_eq t)).
  assert (Hplain :
    match (match cp_get comp (st, scan t) with
           | None => inr SimNone
           | Some (color, sh, next_state) =>
               match step_ck t sh color (st =? next_state) with
               | Panic => inr SimPanic
               | Ok (t', _) => inl (next_state, t')
               end
           end : (state * tape) + sim_exit) with
    | inl s' => (match cp_get comp (st, scan t) with
                 | None => inr PySimNone
                 | Some (color, sh, next_state) =>
                     let '(t', _) := py_step t sh color (st =? next_state) in inl (next_state, t')
                 end : (state * tape) + py_sim_exit) = inl s' /\ canon_tape (snd s')
    | inr SimNone => (match cp_get comp (st, scan t) with
                      | None => inr PySimNone
                      | Some (color, sh, next_state) =>
                          let '(t', _) := py_step t sh color (st =? next_state) in inl (next_state, t')
                      end : (state * tape) + py_sim_exit) = inr PySimNone
    | inr SimPanic => True
    end).
  { destruct (cp_get comp (st, scan t)) as [[[color sh] ns]|]; [|reflexivity].
    unfold step_ck. rewrite (py_step_eq_rs t sh color (st =? ns) (canon_pull_pos t sh Hcan)).
    pose proof (canon_step t sh color (st =? ns) Hcan) as Hc'.
    destruct (step t sh color (st =? ns)) as [t' stepped]. cbn [fst] in Hc'.
    destruct (step_overflow t' stepped); [exact I|]. split; [reflexivity|exact Hc']. }
  destruct (get_rule pv st (scan t) (fun _ => tape_sig t)) as [r|] eqn:Eg; [|exact Hplain].
  pose proof (get_rule_good _ _ _ _ _ Hgood Eg) as Hr.
  pose proof (apply_agree t r Hsm Hr) as Hap.
  destruct (apply_rule t r) as [|[[k|] t']] eqn:Ea; [exact I| |].
  - rewrite Hap. split; [reflexivity|]. cbn [snd].
    apply (apply_canon r t k t' Hcan (proj1 Hr) Ea).
  - rewrite Hap. exact Hplain.
Qed.

(** guard: every tape the simulator visits in its first [n] iterations is small *)
Definition sim_g (s : state * tape) : bool := tape_small (snd s).
Definition sim_inside (n : N) (st : state) (t : tape) : bool :=
  match for_upto n (gbody sim_g (py_sim_body comp pp)) (st, t) with
  | inr None => false
  | _ => true
  end.

Lemma sim_loop_agree n st t :
  canon_tape t -> sim_inside n st t = true ->
  match for_upto n (sim_body comp pv) (st, t) with
  | inl s' => for_upto n (py_sim_body comp pp) (st, t) = inl s' /\ canon_tape (snd s')
  | inr SimNone => for_upto n (py_sim_body comp pp) (st, t) = inr PySimNone
  | inr SimPanic => True
  end.
Proof.
  intros Hcan Hin. unfold sim_inside in Hin.
  pose proof (for_upto_sim (gbody sim_g (py_sim_body comp pp)) (sim_body comp pv)
    (fun s1 s2 => s1 = s2 /\ canon_tape (snd s1))
    (fun x y => x = Some PySimNone /\ y = SimNone)
    (fun x => x = None) (fun y => y = SimPanic)) as HS.
  assert (Hstep : forall s1 s2, s1 = s2 /\ canon_tape (snd s1) ->
    sim_res (fun s1 s2 => s1 = s2 /\ canon_tape (snd s1))
      (fun x y => x = Some PySimNone /\ y = SimNone) (fun x => x = None) (fun y => y = SimPanic)
      (gbody sim_g (py_sim_body comp pp) s1) (sim_body comp pv s2)).
  { intros s1 s2 [<- Hc]. unfold gbody, sim_g. destruct (tape_small (snd s1)) eqn:Es.
    - pose proof (sim_body_agree s1 Hc Es) as H.
      destruct (sim_body comp pv s1) as [s'|[|]].
      + destruct H as [-> Hc']. cbn [sim_res]. auto.
      + rewrite H. cbn [sim_res]. auto.
      + destruct (py_sim_body comp pp s1); cbn [sim_res]; auto.
    - destruct (sim_body comp pv s1) as [s'|y]; cbn [sim_res]; auto. }
  specialize (HS Hstep n (st, t) (st, t) (conj eq_refl Hcan)).
  rewrite for_upto_iter in Hin, HS. rewrite for_upto_iter in HS. rewrite !for_upto_iter.
  destruct (giter_cases sim_g (py_sim_body comp pp) (N.to_nat n) (st, t)) as [E|E].
  - rewrite E in Hin. discriminate.
  - rewrite E in HS. clear E Hin.
    destruct (iter_nat (N.to_nat n) (py_sim_body comp pp) (st, t)) as [a|x];
      destruct (iter_nat (N.to_nat n) (sim_body comp pv) (st, t)) as [b|y];
      cbn [glift sim_res] in HS.
    + destruct HS as [-> Hc]. auto.
    + subst y. exact I.
    + discriminate HS.
    + destruct HS as [[Hx ->]|[Hx| ->]]; [injection Hx as ->; reflexivity|discriminate|exact I].
Qed.

Lemma run_simulator_agree (d : Z) st t :
  canon_tape t -> sim_inside (Z.to_N d) st t = true ->
  match run_simulator comp pv d st t with
  | Panic => True
  | Ok x => py_run_simulator comp pp d st t = PRet x /\
            (forall st' t', x = Some (st', t') -> canon_tape t')
  end.
Proof.
  intros Hcan Hin. unfold run_simulator, py_run_simulator.
  pose proof (sim_loop_agree _ _ _ Hcan Hin) as H.
  destruct (for_upto (Z.to_N d) (sim_body comp pv) (st, t)) as [s'|[|]].
  - destruct H as [-> Hc]. split; [reflexivity|]. intros st' t' E. injection E as ->. exact Hc.
  - rewrite H. split; [reflexivity|discriminate].
  - exact I.
Qed.
End Sim.

(** ------------------------------------------------------------------ *)
(** * small lemmas for try_rule                                         *)

Lemma cc_eqb_eq a b : cc_eqb a b = true -> a = b.
Proof. destruct a, b; cbn [cc_eqb]; intros H; try discriminate; apply N.eqb_eq in H; subst; reflexivity. Qed.
Lemma sigspan_eqb_eq : forall a b, sigspan_eqb a b = true -> a = b.
Proof.
  induction a as [|x a IH]; destruct b as [|y b]; cbn [sigspan_eqb]; intros H; try discriminate; [reflexivity|].
  apply andb_true_iff in H. destruct H as [H1 H2]. apply cc_eqb_eq in H1. apply IH in H2. subst. reflexivity.
Qed.
Lemma sig_eqb_eq a b : sig_eqb a b = true -> a = b.
Proof.
  destruct a as [sa la ra], b as [sb lb rb]. unfold sig_eqb. cbn [sig_scan sig_l sig_r].
  rewrite !andb_true_iff. intros [[H1 H2] H3].
  apply N.eqb_eq in H1. apply sigspan_eqb_eq in H2, H3. subst. reflexivity.
Qed.
Definition minsig_eqb (a b : minsig) : bool :=
  sig_eqb (fst a) (fst b) && Bool.eqb (fst (snd a)) (fst (snd b)) && Bool.eqb (snd (snd a)) (snd (snd b)).
Lemma minsig_eqb_eq a b : minsig_eqb a b = true -> a = b.
Proof.
  destruct a as [ga [la ra]], b as [gb [lb rb]]. unfold minsig_eqb. cbn [fst snd].
  rewrite !andb_true_iff. intros [[H1 H2] H3].
  apply sig_eqb_eq in H1. apply Bool.eqb_prop in H2, H3. subst. reflexivity.
Qed.

(** get_min_sig reads the rule table through lookups only *)
Lemma get_min_sig_ext comp pa pb d st et sig :
  (forall sl, rules_get (pv_rules pa) sl = rules_get (pv_rules pb) sl) ->
  get_min_sig comp pa d st et sig = get_min_sig comp pb d st et sig.
Proof.
  intros H. unfold get_min_sig.
  rewrite (for_upto_ext (min_sig_body comp pa) (min_sig_body comp pb)); [reflexivity|].
  intros [s e]. unfold min_sig_body, get_rule. rewrite H. reflexivity.
Qed.

(** the Python prover seen as a Rust prover record (same table, same dict) *)
Definition rs_view (p : py_prover) : prover := mkProver (pp_rules p) (pp_configs p) (pp_count p).

Lemma abs_set_agree : forall r acc s,
  abs_set r acc = Ok s -> forallb (fun e : index * op => ProverModel.is_plus (snd e)) r = true ->
  py_abs_set r acc = s.
Proof.
  induction r as [|[ix o] r IH]; intros acc s H Hp.
  - cbn [abs_set] in H. injection H as <-. reflexivity.
  - cbn [forallb snd] in Hp. apply andb_true_iff in Hp. destruct Hp as [Ho Hp].
    destruct o as [d|q m]; [|discriminate Ho]. cbn [abs_set py_abs_set] in *.
    unfold i32_abs in H. destruct (d =? -2147483648)%Z; [discriminate|]. cbn [obind] in H.
    apply (IH _ _ H Hp).
Qed.

Lemma forallb_plus_same (r : rule) :
  forallb (fun e : index * op => match snd e with Plus _ => true | MultOp _ _ => false end) r
  = forallb (fun e : index * op => ProverModel.is_plus (snd e)) r.
Proof.
  induction r as [|[ix o] r IH]; [reflexivity|]. cbn [forallb snd]. rewrite IH.
  destruct o; reflexivity.
Qed.

Lemma exclusion_agree r t b : same_abs_exclusion r t = Ok b -> py_same_abs_exclusion r t = b.
Proof.
  unfold same_abs_exclusion, py_same_abs_exclusion.
  change (forallb (fun e : index * op => match snd e with Plus _ => true | MultOp _ _ => false end) r)
    with (forallb (fun e : index * op => ProverModel.is_plus (snd e)) r).
  change (py_span_lens t) with (span_lens t).
  destruct (span_lens t) as [ll rl].
  destruct ((length r =? 2)%nat && ((ll =? 1) && (rl =? 1))); cbn [andb]; [|intros H; injection H as <-; reflexivity].
  destruct (forallb (fun e : index * op => ProverModel.is_plus (snd e)) r) eqn:Ep; cbn [andb].
  - destruct (abs_set r []) as [|s] eqn:Ea; cbn [obind]; [discriminate|].
    intros H. injection H as <-. rewrite (abs_set_agree _ _ _ Ea Ep). reflexivity.
  - intros H. injection H as <-. reflexivity.
Qed.

Lemma make_rule_span_i32 side : forall l i acc r,
  make_rule_span side i l acc = Ok (Some r) ->
  (forall pos d, In (pos, Plus d) acc -> in_i32 d = true) ->
  forall pos d, In (pos, Plus d) r -> in_i32 d = true.
Proof.
  induction l as [|[[[a b] c] d0] l IH]; intros i acc r H Hacc; cbn [make_rule_span] in H.
  - injection H as <-. exact Hacc.
  - apply obind_ok in H. destruct H as (dr & Hd & H). destruct dr as [| |o]; [|discriminate|].
    + apply (IH _ _ _ H Hacc).
    + apply (IH _ _ _ H). intros pos d Hin. apply in_app_or in Hin. destruct Hin as [Hin|[Hin|[]]].
      * apply (Hacc _ _ Hin).
      * injection Hin as _ ->. apply calculate_diff_plus in Hd. apply Hd.
Qed.
Lemma make_rule_i32 c1 c2 c3 c4 r :
  make_rule c1 c2 c3 c4 = Ok (Some r) -> forall pos d, In (pos, Plus d) r -> in_i32 d = true.
Proof.
  unfold make_rule. intros H. apply obind_ok in H. destruct H as (ra & HL & HR).
  destruct ra as [accL|]; [|discriminate].
  apply (make_rule_span_i32 _ _ _ _ _ HR). apply (make_rule_span_i32 _ _ _ _ _ HL). intros ? ? [].
Qed.

Lemma no_mult_additive r : py_has_mult r = false -> rule_additive r.
Proof.
  unfold py_has_mult, rule_additive. intros H. apply Forall_forall. intros [ix o] Hin.
  destruct o as [d|q m]; [reflexivity|]. exfalso.
  assert (existsb (fun e : index * op => match snd e with Plus _ => false | MultOp _ _ => true end) r = true).
  { apply existsb_exists. exists (ix, MultOp q m). split; [exact Hin|reflexivity]. }
  congruence.
Qed.

(** ------------------------------------------------------------------ *)
(** * the guards of one call of try_rule                                *)

Section TryGuard.
Variable comp : comp_prog.

(** D2 + smallness after a confirmation round *)
Definition round_inside (pp : py_prover) (st : state) (sig : signature) (d : Z) (tags : tape) : bool :=
  sim_inside comp pp (Z.to_N d) st tags &&
  match py_run_simulator comp pp d st tags with
  | PRet (Some (st', tags')) =>
      tape_small tags' &&
      (if st' =? st then Bool.eqb (py_sig_compatible tags' sig) (sig_compatible tags' sig) else true)
  | _ => true
  end.

(** D4: both min-signatures, computed from the same prover and tape, are equal *)
Definition minsig_inside (p2 : py_prover) (d1 : Z) (st : state) (t : tape) (sig : signature) : bool :=
  match py_get_min_sig comp p2 d1 st (py_to_enum t) sig,
        get_min_sig comp (rs_view p2) d1 st (et_from t) sig with
  | PRet a, Ok b => minsig_eqb a b
  | PRet _, Panic => true
  | PRaise _, _ => false
  end.

Definition try_inside (pp : py_prover) (cyc : N) (st : state) (t : tape) : bool :=
  let sig := py_signature t in
  match py_get_rule pp st (scan t) (fun _ => sig) with
  | Some _ => true
  | None =>
  match cfg_get (pp_configs pp) sig with
  | None => true
  | Some pcs =>
    match pcs_next_deltas pcs st (Z.of_N cyc) with
    | Panic => true
    | Ok (None, _) => true
    | Ok (Some (d1, d2, d3), pcs1) =>
      let p1 := mkPyProver (pp_rules pp) (cfg_set (pp_configs pp) sig pcs1) (pp_count pp) in
      (d1 <=? 90000)%Z && (d2 <=? 90000)%Z && (d3 <=? 90000)%Z &&       (* D1 *)
      round_inside p1 st sig d1 t &&
      match py_sim_round comp p1 st sig d1 t with
      | PRet (Some tags1) =>
        round_inside p1 st sig d2 tags1 &&
        match py_sim_round comp p1 st sig d2 tags1 with
        | PRet (Some tags2) =>
          round_inside p1 st sig d3 tags2 &&
          match py_sim_round comp p1 st sig d3 tags2 with
          | PRet (Some tags3) =>
            match py_make_rule_raw (py_counts t) (py_counts tags1) (py_counts tags2) (py_counts tags3) with
            | Ret None => true
            | Raise (ExSuspectedRule _ _) => true
            | Raise _ => false
            | Ret (Some (rule, sd)) =>
                negb sd &&                                                 (* D3 *)
                (if py_all_nonneg rule || py_has_mult rule || py_same_abs_exclusion rule t then true
                 else minsig_inside
                        (mkPyProver (pp_rules p1)
                           (cfg_set (pp_configs p1) sig (pcs_delete_configs pcs1 st)) (pp_count p1))
                        d1 st t sig)
            end
          | _ => true
          end
        | _ => true
        end
      | _ => true
      end
    end
  end end.
End TryGuard.

(** ------------------------------------------------------------------ *)
(** * try_rule                                                          *)

(** the two provers hold the same information *)
Definition prover_rel (pp : py_prover) (pv : prover) : Prop :=
  pp_configs pp = pv_configs pv /\ pp_count pp = pv_count pv /\
  lookup_eq (pp_rules pp) (pv_rules pv) /\ rules_sorted (pv_rules pv) /\ rules_good (pv_rules pv).

(** what Machine.run makes of the answer of try_rule *)
Inductive pclass := PcNone | PcRule (r : rule) | PcInf | PcCfg | PcLeave.
Definition pres_class (x : pr (option rule)) : pclass :=
  match x with
  | PRet None => PcNone
  | PRet (Some r) => PcRule r
  | PRaise (PeRules ExInfiniteRule) => PcInf
  | PRaise PeConfigLimit => PcCfg
  | PRaise (PeRules (ExSuspectedRule _ _)) => PcNone      (* D8 *)
  | PRaise _ => PcLeave                                   (* crash or outside: the run is not PyDone *)
  end.

Section Try.
Variable comp : comp_prog.

Lemma round_agree pp pv st sig d tags :
  lookup_eq (pp_rules pp) (pv_rules pv) -> rules_good (pv_rules pv) ->
  canon_tape tags -> round_inside comp pp st sig d tags = true ->
  match sim_round comp pv st sig d tags with
  | Panic => True
  | Ok o => py_sim_round comp pp st sig d tags = PRet o /\
            (forall tags', o = Some tags' -> canon_tape tags' /\ tape_small tags' = true)
  end.
Proof.
  intros Hl Hg Hc Hin. unfold round_inside in Hin. apply andb_true_iff in Hin. destruct Hin as [Hsim Hin].
  unfold sim_round, py_sim_round.
  pose proof (run_simulator_agree comp pp pv Hl Hg d st tags Hc Hsim) as H.
  destruct (run_simulator comp pv d st tags) as [|x]; cbn [obind]; [exact I|].
  destruct H as [Hpy Hcan]. rewrite Hpy in Hin |- *.
  destruct x as [[st' tags']|].
  - apply andb_true_iff in Hin. destruct Hin as [Hsm Hcompat].
    destruct (st' =? st); cbn [negb orb].
    + apply Bool.eqb_prop in Hcompat. rewrite Hcompat.
      destruct (sig_compatible tags' sig); cbn [negb].
      * split; [reflexivity|]. intros t2 E. injection E as <-. split; [apply (Hcan st' tags' eq_refl)|exact Hsm].
      * split; [reflexivity|discriminate].
    + split; [reflexivity|discriminate].
  - split; [reflexivity|discriminate].
Qed.

Lemma try_rule_agree pp pv cyc st t :
  prover_rel pp pv -> canon_tape t -> tape_small t = true -> cyc < 2147483648 ->
  try_inside comp pp cyc st t = true ->
  match try_rule comp pv cyc st t with
  | Panic => True
  | Ok (res, pv') =>
      let '(pres, pp') := py_try_rule comp pp cyc st t in
      pres_class pres = PcLeave \/
      (prover_rel pp' pv' /\
       match res with
       | None => pres_class pres = PcNone
       | Some (Got r) => pres_class pres = PcRule r /\ rule_good r
       | Some ConfigLimit => pres_class pres = PcCfg
       | Some InfiniteRule => pres_class pres = PcInf
       | Some MultRule => False
       end)
  end.
Proof.
  intros (Hcfg & Hcnt & Hlook & Hsorted & Hgood) Hcan Hsmall Hcyc Hin.
  unfold try_rule, py_try_rule. unfold try_inside in Hin. cbv zeta in Hin |- *.
  rewrite (py_signature_eq t) in Hin |- *.
  rewrite (py_get_rule_eq2 pp pv st (scan t) (fun _ => tape_sig t) (fun _ => tape_sig t) Hlook eq_refl) in Hin |- *.
  assert (Hrel0 : prover_rel pp pv) by exact (conj Hcfg (conj Hcnt (conj Hlook (conj Hsorted Hgood)))).
  destruct (get_rule pv st (scan t) (fun _ => tape_sig t)) as [known|] eqn:Eg.
  { right. split; [exact Hrel0|]. split; [reflexivity|].
    apply (get_rule_good _ _ _ _ _ Hgood Eg). }
  rewrite Hcfg in Hin |- *.
  assert (Hi32 : in_i32 (Z.of_N cyc) = true) by (apply in_i32_true; lia).
  rewrite (i32_of_u64_small cyc Hcyc).
  destruct (cfg_get (pv_configs pv) (tape_sig t)) as [pcs|] eqn:Ecfg.
  2:{ unfold py_config_count, config_count. rewrite Hcnt. destruct (100000 <? pv_count pv).
      - right. split; [exact Hrel0|reflexivity].
      - rewrite Hi32. cbn [negb]. right. split; [|reflexivity].
        refine (conj _ (conj _ (conj Hlook (conj Hsorted Hgood))));
          cbn [pp_configs pv_configs pp_count pv_count]; congruence. }
  rewrite Hi32. cbn [negb].
  destruct (pcs_next_deltas pcs st (Z.of_N cyc)) as [|[od pcs1]]; cbn [obind]; [exact I|].
  set (p1 := mkPyProver (pp_rules pp) (cfg_set (pv_configs pv) (tape_sig t) pcs1) (pp_count pp)) in *.
  set (v1 := mkProver (pv_rules pv) (cfg_set (pv_configs pv) (tape_sig t) pcs1) (pv_count pv)).
  assert (Hrel1 : prover_rel p1 v1) by exact (conj eq_refl (conj Hcnt (conj Hlook (conj Hsorted Hgood)))).
  destruct od as [[[d1 d2] d3]|]; [|right; split; [exact Hrel1|reflexivity]].
  apply andb_true_iff in Hin. destruct Hin as [Hin Hrest].
  apply andb_true_iff in Hin. destruct Hin as [Hd Hr1].
  apply andb_true_iff in Hd. destruct Hd as [Hd Hd3]. apply andb_true_iff in Hd. destruct Hd as [Hd1 Hd2].
  apply Z.leb_le in Hd1, Hd2, Hd3.
  replace ((90000 <? d1)%Z || (90000 <? d2)%Z || (90000 <? d3)%Z) with false.
  2:{ symmetry. rewrite !orb_false_iff, !Z.ltb_ge. lia. }
  assert (Hl1 : lookup_eq (pp_rules p1) (pv_rules v1)) by exact Hlook.
  assert (Hg1 : rules_good (pv_rules v1)) by exact Hgood.
  (* round 1 *)
  pose proof (round_agree p1 v1 st (tape_sig t) d1 t Hl1 Hg1 Hcan Hr1) as R1.
  destruct (sim_round comp v1 st (tape_sig t) d1 t) as [|o1]; cbn [obind]; [exact I|].
  destruct R1 as [E1 C1]. rewrite E1 in Hrest |- *.
  destruct o1 as [tags1|]; [|right; split; [exact Hrel1|reflexivity]].
  destruct (C1 tags1 eq_refl) as [Hc1 Hs1].
  apply andb_true_iff in Hrest. destruct Hrest as [Hr2 Hrest].
  (* round 2 *)
  pose proof (round_agree p1 v1 st (tape_sig t) d2 tags1 Hl1 Hg1 Hc1 Hr2) as R2.
  destruct (sim_round comp v1 st (tape_sig t) d2 tags1) as [|o2]; cbn [obind]; [exact I|].
  destruct R2 as [E2 C2]. rewrite E2 in Hrest |- *.
  destruct o2 as [tags2|]; [|right; split; [exact Hrel1|reflexivity]].
  destruct (C2 tags2 eq_refl) as [Hc2 Hs2].
  apply andb_true_iff in Hrest. destruct Hrest as [Hr3 Hrest].
  (* round 3 *)
  pose proof (round_agree p1 v1 st (tape_sig t) d3 tags2 Hl1 Hg1 Hc2 Hr3) as R3.
  destruct (sim_round comp v1 st (tape_sig t) d3 tags2) as [|o3]; cbn [obind]; [exact I|].
  destruct R3 as [E3 C3]. rewrite E3 in Hrest |- *.
  destruct o3 as [tags3|]; [|right; split; [exact Hrel1|reflexivity]].
  destruct (C3 tags3 eq_refl) as [Hc3 Hs3].
  (* make_rule *)
  pose proof (py_rs_make_rule (py_counts t) (py_counts tags1) (py_counts tags2) (py_counts tags3)
                (tape_counts_ok t Hcan Hsmall) (tape_counts_ok _ Hc1 Hs1)
                (tape_counts_ok _ Hc2 Hs2) (tape_counts_ok _ Hc3 Hs3)) as HM.
  change (py_counts t) with (counts t) in *. change (py_counts tags1) with (counts tags1) in *.
  change (py_counts tags2) with (counts tags2) in *. change (py_counts tags3) with (counts tags3) in *.
  destruct (py_make_rule_raw (counts t) (counts tags1) (counts tags2) (counts tags3))
    as [e|[[rule sd]|]] eqn:Eraw.
  - destruct e; try discriminate Hrest. rewrite HM. cbn [obind].
    right. split; [exact Hrel1|reflexivity].
  - apply andb_true_iff in Hrest. destruct Hrest as [Hsd Hrest]. destruct sd; [discriminate|].
    destruct (py_has_mult rule) eqn:Em.
    { match goal with
      | |- match ?X with Panic => True | Ok _ => _ end => destruct X as [|[res pv']]; [exact I|]
      end.
      destruct (py_all_nonneg rule); cbv beta iota; left; reflexivity. }
    rewrite (HM eq_refl eq_refl). cbn [obind].
    rewrite <- py_all_nonneg_eq. rewrite <- py_has_mult_eq, Em.
    destruct (py_all_nonneg rule) eqn:En.
    { right. split; [exact Hrel1|reflexivity]. }
    cbn [orb] in Hrest.
    destruct (same_abs_exclusion rule t) as [|excl] eqn:Ex; cbn [obind]; [exact I|].
    rewrite (exclusion_agree _ _ _ Ex) in Hrest |- *.
    destruct excl; [right; split; [exact Hrel1|reflexivity]|].
    subst v1. cbn [pv_configs pv_rules pv_count]. rewrite (cfg_get_set _ _ pcs1 _ Ecfg).
    cbn [pp_configs pp_rules pp_count p1] in Hrest |- *.
    set (p2 := mkPyProver (pp_rules pp)
                 (cfg_set (cfg_set (pv_configs pv) (tape_sig t) pcs1) (tape_sig t) (pcs_delete_configs pcs1 st))
                 (pp_count pp)) in *.
    set (v2 := mkProver (pv_rules pv)
                 (cfg_set (cfg_set (pv_configs pv) (tape_sig t) pcs1) (tape_sig t) (pcs_delete_configs pcs1 st))
                 (pv_count pv)).
    unfold minsig_inside in Hrest.
    assert (Hext : get_min_sig comp (rs_view p2) d1 st (et_from t) (tape_sig t)
                   = get_min_sig comp v2 d1 st (et_from t) (tape_sig t)).
    { apply get_min_sig_ext. intros sl. cbn [rs_view pv_rules pp_rules p2 v2].
      rewrite <- pyr_get_eq. apply Hlook. }
    rewrite Hext in Hrest.
    destruct (py_get_min_sig comp p2 d1 st (py_to_enum t) (tape_sig t)) as [e|ms]; [discriminate|].
    destruct (get_min_sig comp v2 d1 st (et_from t) (tape_sig t)) as [|ms']; cbn [obind]; [exact I|].
    apply minsig_eqb_eq in Hrest. subst ms'.
    assert (Hrg : rule_good rule).
    { split; [eapply make_rule_keys_nodup; apply (HM eq_refl eq_refl)|].
      split; [apply no_mult_additive; exact Em|apply (make_rule_i32 _ _ _ _ _ (HM eq_refl eq_refl))]. }
    right. split; [|split; [reflexivity|exact Hrg]].
    unfold py_set_rule, set_rule. cbn [pp_rules pp_configs pp_count pv_rules pv_configs pv_count p2 v2].
    refine (conj eq_refl (conj Hcnt (conj _ (conj _ _)))).
    + apply lookup_eq_push; assumption.
    + apply rules_push_sorted. exact Hsorted.
    + apply rules_push_good; assumption.
  - rewrite HM. cbn [obind]. right. split; [exact Hrel1|reflexivity].
Qed.
End Try.

(** ------------------------------------------------------------------ *)
(** * the blank-tape record                                             *)

(** same states; the step number where Python still has one (D7) *)
Definition blanks_rel (pb : list (state * Z)) (rb : list (state * N)) : Prop :=
  (forall q, pyb_mem q pb = blanks_mem q rb) /\
  (forall q v, In (q, v) pb -> v <> (-1)%Z -> In (q, Z.to_N v) rb).
Definition step_rel (ps : Z) (rsn : N) : Prop := ps = (-1)%Z \/ ps = Z.of_N rsn.

Lemma pyb_mem_app q pb k v : pyb_mem q (pb ++ [(k, v)]) = pyb_mem q pb || (k =? q).
Proof.
  induction pb as [|[k0 v0] pb IH]; cbn [app pyb_mem]; [apply orb_false_r|].
  rewrite IH. apply orb_assoc.
Qed.
Lemma blanks_mem_insert q k n : forall rb, blanks_mem q (blanks_insert k n rb) = (k =? q) || blanks_mem q rb.
Proof.
  induction rb as [|[k0 w] rb IH]; cbn [blanks_insert blanks_mem]; [reflexivity|].
  destruct (k <? k0); [reflexivity|]. destruct (k =? k0) eqn:E; cbn [blanks_mem].
  - apply N.eqb_eq in E. subst k0. destruct (k =? q); reflexivity.
  - rewrite IH. destruct (k0 =? q), (k =? q); reflexivity.
Qed.
Lemma blanks_insert_in k n : forall rb x, blanks_mem k rb = false ->
  (In x rb -> In x (blanks_insert k n rb)) /\ In (k, n) (blanks_insert k n rb).
Proof.
  induction rb as [|[k0 w] rb IH]; intros x Hm; cbn [blanks_insert].
  - split; [intros []|left; reflexivity].
  - cbn [blanks_mem] in Hm. apply orb_false_iff in Hm. destruct Hm as [Hk Hm].
    destruct (k <? k0); [split; [intros H; right; exact H|left; reflexivity]|].
    rewrite N.eqb_sym in Hk. rewrite Hk.
    destruct (IH x Hm) as [A B]. split.
    + intros [H|H]; [left; exact H|right; apply A; exact H].
    + right. exact B.
Qed.

Lemma blanks_rel_insert pb rb q v n :
  blanks_rel pb rb -> blanks_mem q rb = false -> (v = (-1)%Z \/ v = Z.of_N n) ->
  blanks_rel (pb ++ [(q, v)]) (blanks_insert q n rb).
Proof.
  intros [Hm Hi] Hq Hv. split.
  - intros q'. rewrite pyb_mem_app, blanks_mem_insert, Hm. apply orb_comm.
  - intros q' v' Hin Hne. apply in_app_or in Hin. destruct Hin as [Hin|[Hin|[]]].
    + apply (proj1 (blanks_insert_in q n rb _ Hq)). apply (Hi _ _ Hin Hne).
    + injection Hin as <- <-. destruct Hv as [-> | ->]; [contradiction|].
      rewrite N2Z.id. apply (proj2 (blanks_insert_in q n rb (q, n) Hq)).
Qed.

(** ------------------------------------------------------------------ *)
(** * one iteration of the two main loops                               *)

Definition kind_ok (k : py_term) (res : termres) (ls : option slot) : Prop :=
  match k, res with
  | PtInfrul, infrul => True
  | PtCfglim, cfglim => True
  | PtSpnout, spnout => True
  | PtUndfnd sl, undfnd => ls = Some sl
  | _, _ => False
  end.

(** what the result is read from *)
Definition fin_rel (m : py_machine) (s : pstate) : Prop :=
  pm_tape m = q_tape (ps_q s) /\ pm_rulapp m = ps_rulapp s /\
  blanks_rel (pm_blanks m) (q_blanks (ps_q s)).

Definition run_rel (m : py_machine) (s : pstate) : Prop :=
  fin_rel m s /\ pm_state m = q_state (ps_q s) /\ pm_cycle m = q_cycle (ps_q s) /\
  prover_rel (pm_prover m) (ps_prover s) /\ canon_tape (pm_tape m) /\
  step_rel (pm_step m) (q_steps (ps_q s)).

Definition exit_rel (x : option py_exit) (y : pexit) : Prop :=
  exists k m' res cyc ls s', x = Some (PxBreak k m') /\ y = Ok (res, cyc, ls, s') /\
    kind_ok k res ls /\ fin_rel m' s'.
Definition py_bad (x : option py_exit) : Prop :=
  match x with
  | None => True                       (* the guard failed *)
  | Some (PxCrash _) => True
  | Some (PxOutside _) => True
  | Some (PxBreak _ _) => False
  end.
Definition rs_bad (y : pexit) : Prop := y = Panic.

Notation run_sim := (sim_res run_rel exit_rel py_bad rs_bad).

Lemma run_sim_bad2 a : run_sim a (inr Panic).
Proof. destruct a; cbn [sim_res]; unfold rs_bad; auto. Qed.
Lemma run_sim_bad1 x b : py_bad x -> run_sim (inr x) b.
Proof. intros H. destruct b; cbn [sim_res]; auto. Qed.

Section MainBody.
Variable comp : comp_prog.

(** guard of one iteration of the main loop *)
Definition iter_inside (m : py_machine) : bool :=
  tape_small (pm_tape m) && (pm_cycle m <? 2147483648) &&
  try_inside comp (pm_prover m) (pm_cycle m) (pm_state m) (pm_tape m).

Lemma step_part_agree m s :
  run_rel m s ->
  run_sim (glift (py_step_part comp m)) (prover_step comp s).
Proof.
  intros ((Ht & Hra & Hbl) & Hst & Hcy & Hpr & Hcan & Hsr).
  unfold py_step_part, prover_step, quick_body. rewrite <- Ht, <- Hst.
  destruct s as [q pv ra apps]. destruct q as [qt qs qsteps qcyc qbl].
  cbn [ps_q ps_prover ps_rulapp ps_apps q_tape q_state q_steps q_cycle q_blanks] in *.
  subst qt qs qcyc ra.
  destruct (cp_get comp (pm_state m, scan (pm_tape m))) as [[[color sh] ns]|].
  2:{ unfold q_overflow. cbn [q_steps q_tape].
      destruct (_ || _ || _); [apply run_sim_bad2|].
      cbn [glift sim_res]. left.
      exists (PtUndfnd (pm_state m, scan (pm_tape m))), m, undfnd, (pm_cycle m),
        (Some (pm_state m, scan (pm_tape m))). eexists.
      split; [reflexivity|]. split; [reflexivity|]. split; [reflexivity|].
      exact (conj eq_refl (conj eq_refl Hbl)). }
  rewrite py_at_edge_eq.
  destruct ((pm_state m =? ns) && at_edge (pm_tape m) sh).
  { unfold q_overflow. cbn [q_steps q_tape].
    destruct (_ || _ || _); [apply run_sim_bad2|].
    cbn [glift sim_res]. left.
    exists PtSpnout, m, spnout, (pm_cycle m), None. eexists.
    split; [reflexivity|]. split; [reflexivity|]. split; [exact I|].
    exact (conj eq_refl (conj eq_refl Hbl)). }
  rewrite (py_step_eq_rs (pm_tape m) sh color (pm_state m =? ns) (canon_pull_pos _ sh Hcan)).
  pose proof (canon_step (pm_tape m) sh color (pm_state m =? ns) Hcan) as Hc'.
  destruct (step (pm_tape m) sh color (pm_state m =? ns)) as [t' stepped]. cbn [fst] in Hc'.
  rewrite py_blank_eq.
  set (step' := if negb (pm_step m =? -1)%Z then (pm_step m + Z.of_N stepped)%Z else pm_step m).
  assert (Hsr' : step' = (-1)%Z \/ step' = Z.of_N (qsteps + stepped)).
  { unfold step'. destruct (Z.eqb_spec (pm_step m) (-1)) as [E|E]; cbn [negb]; [left; exact E|].
    right. destruct Hsr as [Hs|Hs]; [contradiction|]. rewrite Hs. lia. }
  destruct ((color =? 0) && blank t').
  - rewrite (proj1 Hbl ns).
    destruct (blanks_mem ns qbl) eqn:Emem.
    + unfold q_overflow. cbn [q_steps q_tape].
      destruct (_ || _ || _); [apply run_sim_bad2|].
      cbn [glift sim_res]. left.
      exists PtInfrul. eexists. exists infrul, 0, None. eexists.
      split; [reflexivity|]. split; [reflexivity|]. split; [exact I|].
      exact (conj eq_refl (conj eq_refl Hbl)).
    + pose proof (blanks_rel_insert _ _ ns step' (qsteps + stepped) Hbl Emem Hsr') as Hbl'.
      destruct (ns =? 0).
      * unfold q_overflow. cbn [q_steps q_tape].
        destruct (_ || _ || _); [apply run_sim_bad2|].
        cbn [glift sim_res]. left.
        exists PtInfrul. eexists. exists infrul, 0, None. eexists.
        split; [reflexivity|]. split; [reflexivity|]. split; [exact I|].
        exact (conj eq_refl (conj eq_refl Hbl')).
      * unfold q_overflow. cbn [q_steps q_tape].
        destruct (_ || _ || _); [apply run_sim_bad2|].
        cbn [glift sim_res].
        exact (conj (conj eq_refl (conj eq_refl Hbl'))
                 (conj eq_refl (conj eq_refl (conj Hpr (conj Hc' Hsr'))))).
  - unfold q_overflow. cbn [q_steps q_tape].
    destruct (_ || _ || _); [apply run_sim_bad2|].
    cbn [glift sim_res].
    exact (conj (conj eq_refl (conj eq_refl Hbl))
             (conj eq_refl (conj eq_refl (conj Hpr (conj Hc' Hsr'))))).
Qed.
End MainBody.

Section MainLoop.
Variable comp : comp_prog.

Lemma body_agree m s :
  run_rel m s ->
  run_sim (gbody (iter_inside comp) (py_body comp) m) (prover_body comp s).
Proof.
  intros HR. unfold gbody. destruct (iter_inside comp m) eqn:Hin; [|apply run_sim_bad1; exact I].
  unfold iter_inside in Hin. apply andb_true_iff in Hin. destruct Hin as [Hin Htry].
  apply andb_true_iff in Hin. destruct Hin as [Hsmall Hcyc]. apply N.ltb_lt in Hcyc.
  pose proof HR as ((Ht & Hra & Hbl) & Hst & Hcy & Hpr & Hcan & Hsr).
  unfold py_body, prover_body.
  pose proof (try_rule_agree comp (pm_prover m) (ps_prover s) (pm_cycle m) (pm_state m) (pm_tape m)
                Hpr Hcan Hsmall Hcyc Htry) as HT.
  rewrite <- Ht, <- Hst, <- Hcy.
  destruct (try_rule comp (ps_prover s) (pm_cycle m) (pm_state m) (pm_tape m)) as [|[res pv']].
  { match goal with |- run_sim ?a _ => apply (run_sim_bad2 a) end. }
  destruct (py_try_rule comp (pm_prover m) (pm_cycle m) (pm_state m) (pm_tape m)) as [pres pp'].
  destruct HT as [Hleave|[Hpr' Hres]].
  { (* Python leaves the fragment / crashes *)
    destruct pres as [e|[r|]]; try discriminate Hleave.
    destruct e as [e| | | |w]; try discriminate Hleave;
      [destruct e; try discriminate Hleave|..];
      cbv beta iota zeta; apply run_sim_bad1; exact I. }
  (* the states after try_rule are related *)
  assert (HR0 : run_rel (pm_set_prover m pp')
                  (mkP (ps_q s) pv' (ps_rulapp s) (ps_apps s))).
  { exact (conj (conj Ht (conj Hra Hbl)) (conj Hst (conj Hcy (conj Hpr' (conj Hcan Hsr))))). }
  destruct res as [[| | |r]|].
  - (* ConfigLimit *)
    destruct pres as [e|[r|]]; try discriminate Hres.
    destruct e as [e| | | |w]; try discriminate Hres; [destruct e; discriminate Hres|].
    cbn [termres_of sim_res]. left.
    exists PtCfglim, (pm_set_prover m pp'), cfglim, (pm_cycle m), None. eexists.
    split; [reflexivity|]. split; [reflexivity|]. split; [exact I|].
    exact (conj Ht (conj Hra Hbl)).
  - (* InfiniteRule *)
    destruct pres as [e|[r|]]; try discriminate Hres.
    destruct e as [e| | | |w]; try discriminate Hres. destruct e; try discriminate Hres.
    cbn [termres_of sim_res]. left.
    exists PtInfrul, (pm_set_prover m pp'), infrul, (pm_cycle m), None. eexists.
    split; [reflexivity|]. split; [reflexivity|]. split; [exact I|].
    exact (conj Ht (conj Hra Hbl)).
  - contradiction.
  - (* a rule *)
    destruct Hres as [Hcls Hgood].
    destruct pres as [e|[r'|]]; try discriminate Hcls.
    2:{ injection Hcls as ->. cbn [pm_tape pm_set_prover].
        pose proof (apply_agree (pm_tape m) r Hsmall Hgood) as HA.
        destruct (apply_rule (pm_tape m) r) as [|[[times|] t']] eqn:Ea.
        - match goal with |- run_sim ?a _ => apply (run_sim_bad2 a) end.
        - rewrite HA. destruct (u64_max <? ps_rulapp s + times).
          + match goal with |- run_sim ?a _ => apply (run_sim_bad2 a) end.
          + cbn [sim_res]. unfold run_rel, fin_rel.
            cbn [pm_tape pm_rulapp pm_blanks pm_state pm_cycle pm_prover pm_step pm_susrul pm_set_prover
                 ps_q ps_rulapp ps_prover q_tape q_state q_cycle q_blanks q_steps].
            split; [split; [reflexivity|split; [rewrite Hra; reflexivity|exact Hbl]]|].
            split; [reflexivity|]. split; [reflexivity|]. split; [exact Hpr'|].
            split; [apply (apply_canon r (pm_tape m) times t' Hcan (proj1 Hgood) Ea)|left; reflexivity].
        - rewrite HA. apply (step_part_agree comp _ _ HR0). }
    destruct e as [e| | | |w]; try discriminate Hcls. destruct e; discriminate Hcls.
  - (* no rule: maybe SuspectedRule on the Python side *)
    destruct pres as [e|[r'|]]; try discriminate Hres.
    + destruct e as [e| | | |w]; try discriminate Hres. destruct e; try discriminate Hres.
      apply (step_part_agree comp (pm_set_susrul (pm_set_prover m pp') (add, sub)) _ HR0).
    + apply (step_part_agree comp _ _ HR0).
Qed.

(** the guard of a whole run: [iter_inside] holds before every iteration *)
Definition run_inside (lim : N) : bool :=
  match for_upto lim (gbody (iter_inside comp) (py_body comp)) py_machine_init with
  | inr None => false
  | _ => true
  end.

Lemma run_rel_init : run_rel py_machine_init prover_init.
Proof.
  refine (conj (conj eq_refl (conj eq_refl (conj (fun _ => eq_refl) _)))
            (conj eq_refl (conj eq_refl (conj _ (conj (canon_init 0) (or_intror eq_refl)))))).
  - intros q v [].
  - refine (conj eq_refl (conj eq_refl (conj (fun _ => eq_refl) (conj I _)))). intros ? ? ? ? [].
Qed.
End MainLoop.

(** ------------------------------------------------------------------ *)
(** * whole runs                                                        *)

Definition rs_kind_of (k : py_kind) : termres :=
  match k with
  | PkUndfnd => undfnd | PkSpnout => spnout | PkInfrul => infrul
  | PkXlimit => xlimit | PkCfglim => cfglim
  end.

(** agreement of the four compared fields (the blank record: same states,
    same step number wherever Python has one, D7), plus the undefined slot *)
Definition results_agree (r : py_result) (r' : mresult) : Prop :=
  rs_kind_of (pr_kind r) = r_result r' /\
  pr_marks r = r_marks r' /\
  pr_rulapp r = r_rulapp r' /\
  (forall q, pyb_mem q (pr_blanks r) = blanks_mem q (r_blanks r')) /\
  (forall q v, In (q, v) (pr_blanks r) -> v <> (-1)%Z -> In (q, Z.to_N v) (r_blanks r')) /\
  (pr_kind r = PkUndfnd -> pr_undfnd r = r_last_slot r').

Theorem py_rs_run_agree comp lim r r' :
  run_inside comp lim = true ->
  py_run comp lim = PyDone r ->
  run_prover comp lim = Ok r' ->
  results_agree r r'.
Proof.
  intros Hin Hpy Hrs. unfold run_inside in Hin.
  pose proof (for_upto_sim (gbody (iter_inside comp) (py_body comp)) (prover_body comp)
                run_rel exit_rel py_bad rs_bad (body_agree comp) lim _ _ (run_rel_init)) as HS.
  rewrite for_upto_iter in Hin, HS. rewrite for_upto_iter in HS.
  unfold py_run in Hpy. unfold run_prover, run_prover_trace in Hrs.
  rewrite for_upto_iter in Hpy. rewrite for_upto_iter in Hrs.
  destruct (giter_cases (iter_inside comp) (py_body comp) (N.to_nat lim) py_machine_init) as [E|E].
  { rewrite E in Hin. discriminate. }
  rewrite E in HS. clear E Hin.
  destruct (iter_nat (N.to_nat lim) (py_body comp) py_machine_init) as [m|x];
    destruct (iter_nat (N.to_nat lim) (prover_body comp) prover_init) as [s|y];
    cbn [glift sim_res] in HS.
  - (* both loops ran to the limit *)
    destruct (lim =? 0); [discriminate|]. injection Hpy as <-.
    destruct HS as ((Ht & Hra & Hbl) & _).
    unfold finish_prover in Hrs. cbn [finish] in Hrs.
    destruct (u64_max <? _); cbn [obind] in Hrs; [discriminate|]. injection Hrs as <-.
    unfold results_agree, py_finish. cbn.
    rewrite py_marks_eq, Ht, Hra. repeat split; try apply Hbl; try discriminate.
  - unfold rs_bad in HS. subst y. discriminate.
  - destruct x as [k m|e|w]; try contradiction; discriminate.
  - destruct HS as [HQ|[HB|HB]].
    + destruct HQ as (k & m' & res & cyc & ls & s' & Ex & -> & Hk & (Ht & Hra & Hbl)).
      injection Ex as ->. injection Hpy as <-.
      unfold finish_prover in Hrs. cbn [finish] in Hrs.
      destruct (u64_max <? _); cbn [obind] in Hrs; [discriminate|]. injection Hrs as <-.
      unfold results_agree, py_finish. cbn.
      rewrite py_marks_eq, Ht, Hra.
      destruct k, res; cbn [kind_ok] in Hk; try contradiction; cbn;
        repeat split; try apply Hbl; try discriminate; try (intros _; symmetry; exact Hk).
    + destruct x as [k m|e|w]; try contradiction; discriminate.
    + unfold rs_bad in HB. subst y. discriminate.
Qed.
Print Assumptions py_rs_run_agree.
