(** C05 layer 5, conclusion for goal Halt: a saturated search
    ([SegmentRefute.end_fact]) is incompatible with a halting run; hence
    [seg_cant_halt = Refuted _] means the machine never halts (for the true
    table size: [prog_within prog S C], 0 < S, 0 < C). *)
From BB Require Import Base TM TMabs MacroSpec InstrsModel SegmentModel Loops TranslatedCycle AbsEquiv MacroSim.
From BB Require Import SegmentTape SegmentSound SegmentVerdicts SegmentAprog SegmentShape SegmentRefute SegmentCover.
Open Scope N_scope.

Section HaltEnd.
Variable prog : comp_prog.
Notation P := (to_prog prog).
Variables (S C seg : N).
Hypothesis Hseg : 4 <= seg.
Hypothesis Hwithin : prog_within_P (to_prog prog) S C.
Hypothesis HS : 0 < S.
Hypothesis HC : 0 < C.
Let ap := sg_aprog_new prog (S, C).
Let cells : Z := Z.of_N (seg - 2).
Variables (cs : sg_configs) (D : list (state * sg_tape)).
Hypothesis HI : Inv prog S C seg SgHalt cs D D.
Hypothesis Htodo : sgs_todo cs = [].
Variables (h0 : Z) (n : nat) (cn : aconf).
Hypothesis Hrun : a_steps P n (mkA 0 h0 zero_tape) = Some cn.
Hypothesis Hhalt : a_step P cn = None.
Variable ps : sg_nset.
Hypothesis Hps : sg_dict_get 0 (sgs_blanks cs) = Some ps.
Hypothesis Hall : forall p, p < seg -> In p ps.

Lemma halt_noover : forall i ci k1 ci1, (i < n)%nat ->
  a_steps P i (mkA 0 h0 zero_tape) = Some ci -> (1 <= k1)%nat -> a_steps P k1 ci = Some ci1 ->
  (forall j cj, (j < k1)%nat -> a_steps P j ci = Some cj ->
     a_q cj = a_q ci /\ a_t cj (a_h cj) = a_t ci (a_h ci)) ->
  (i + k1 <= n)%nat.
Proof.
  intros i ci k1 ci1 Hi Hci Hk1 R1 _.
  destruct (Nat.le_gt_cases (i + k1) n) as [L|G]; [exact L|]. exfalso.
  assert (Hrest : a_steps P (n - i) ci = Some cn).
  { replace n with (i + (n - i))%nat in Hrun by lia. rewrite a_steps_add, Hci in Hrun. exact Hrun. }
  replace k1 with ((n - i) + Datatypes.S (k1 - (n - i) - 1))%nat in R1 by lia.
  rewrite a_steps_add, Hrest in R1. cbn [a_steps] in R1. rewrite Hhalt in R1. discriminate.
Qed.

(** every position is recorded for the halting state *)
Lemma all_positions_reached p : p < seg ->
  reached_has cs (a_q cn) p.
Proof.
  intro Hp. set (lo := (a_h cn - Z.of_N p)%Z).
  destruct (cover_init prog S C seg SgHalt Hseg HS HC cs D HI Htodo h0 ps Hps Hall lo) as (x & Hon & HR).
  destruct (cover prog S C seg SgHalt Hseg Hwithin HS HC cs D HI Htodo h0 n cn Hrun halt_noover lo n 0%nat _ x ltac:(lia) eq_refl HR Hon) as (y & (x0 & m & Hin0 & Hm) & HRy).
  pose proof HI as (_ & _ & _ & _ & _ & I6 & _).
  destruct (I6 x0 Hin0 m y Hm) as [Hh He].
  pose proof HRy as (Eq & Hwf & _ & Hpos).
  assert (Hpy : sg_tape_pos (snd y) = p /\ (halting prog y \/ sgt_scan (snd y) = None)).
  { destruct (zpos_cases cells (snd y) Hwf (cells_pos' S C seg Hseg HS HC)) as [(c0 & E & P1 & P2)|[(E & _ & P1 & _)|(E & _ & P1 & _)]];
      rewrite E in Hpos.
    - split; [unfold zpos, lo in *; lia|]. left. exists c0. split; [exact E|].
      pose proof (Rrel_scan cells lo cn y c0 HRy E) as Hco. rewrite Eq, <- Hco.
      unfold a_step in Hhalt. unfold to_prog in Hhalt.
      destruct (cp_get prog (a_q cn, a_t cn (a_h cn))) as [[[pr sh] q']|]; [discriminate|reflexivity].
    - rewrite P1 in Hpos. cbn in Hpos. split; [unfold zpos, lo in *; lia|right; exact E].
    - rewrite P1 in Hpos. destruct (Z.eqb_spec (cells + 1) 0); [lia|].
      split; [unfold zpos, lo, cells in *; lia|right; exact E]. }
  destruct Hpy as [Epos Hor]. rewrite <- Eq, <- Epos.
  destruct Hor as [Hhy|Hey]; [apply Hh, Hhy|apply (He Hey), I].
Qed.

Lemma no_halt : False.
Proof.
  pose proof (steps_bounded prog S C Hwithin n _ cn (init_bounded S C HS HC h0) Hrun) as [Hq Hcol].
  assert (HP : cp_get prog (a_q cn, a_t cn (a_h cn)) = None).
  { unfold a_step, to_prog in Hhalt.
    destruct (cp_get prog (a_q cn, a_t cn (a_h cn))) as [[[pr sh] q']|]; [discriminate|reflexivity]. }
  pose proof (aprog_halts prog S C (a_q cn) (a_t cn (a_h cn)) Hq (Hcol _) HP) as Hin.
  pose proof HI as (_ & _ & _ & _ & _ & _ & I7 & I8).
  fold ap in Hin. specialize (I8 _ Hin).
  destruct (sg_dict_get (a_q cn) (sgs_reached cs)) as [r|] eqn:Er; [|congruence].
  destruct (I7 _ _ Er) as [Hnd Hlen].
  assert (Hfull : seg <= sg_len r).
  { apply sg_nset_full; [exact Hnd|]. intros p Hp. apply (all_positions_reached p Hp r Er). }
  lia.
Qed.

End HaltEnd.

(** ---- the refutation theorem for goal Halt ---- *)
Lemma halts_abs prog n sl : halts_at (to_prog prog) init_config n sl ->
  exists h0 cn, a_steps (to_prog prog) n (mkA 0 h0 zero_tape) = Some cn /\
                a_step (to_prog prog) cn = None.
Proof.
  intros (q & t & Hs & -> & HP).
  pose proof (zipper_abs_steps_gen (to_prog prog) n 0 blank_tape 0%Z zero_tape (zero_abs 0%Z)) as H.
  change (tm_steps (to_prog prog) n (0, blank_tape)) with (tm_steps (to_prog prog) n init_config) in H.
  rewrite Hs in H. destruct H as (h' & t' & R & Ht).
  exists 0%Z, (mkA q h' t'). split; [exact R|]. unfold a_step. cbn [a_q a_h a_t].
  rewrite (Ht h'), abs_of_head, HP. reflexivity.
Qed.

Theorem sg_asr_halt_none_sound prog S C seg :
  prog_within_P (to_prog prog) S C -> 0 < S -> 0 < C -> 4 <= seg ->
  sg_all_segments_reached (sg_aprog_new prog (S, C)) seg SgHalt = Ok None ->
  forall n sl, ~ halts_at (to_prog prog) init_config n sl.
Proof.
  intros Hw HS HC Hseg Hnone n sl Hh.
  destruct (sg_asr_halt_none prog S C seg Hseg Hnone) as (cs & D & HI & Htodo & ps & Hps & Hall).
  destruct (halts_abs prog n sl Hh) as (h0 & cn & Hrun & Hhalt).
  exact (no_halt prog S C seg Hseg Hw HS HC cs D HI Htodo h0 n cn Hrun Hhalt ps Hps Hall).
Qed.

Lemma scr_body_inv ap goal st s : 2 <= s ->
  match sg_scr_body ap goal s with
  | inl s' => 2 <= s'
  | inr r => r = Ok (SgrRefuted st) ->
             exists seg, 4 <= seg /\ sg_all_segments_reached ap seg goal = Ok None
  end.
Proof.
  intro Hs. unfold sg_scr_body.
  destruct (sg_all_segments_reached ap (2 + s) goal) as [|[[| | |f]|]] eqn:Ea.
  - intro; discriminate.
  - intro; discriminate.
  - intro; discriminate.
  - lia.
  - destruct f; intro; discriminate.
  - intros _. exists (2 + s). split; [lia|exact Ea].
Qed.

Theorem seg_refuted_halt_sound prog S C segs st :
  prog_within_P (to_prog prog) S C -> 0 < S -> 0 < C ->
  sg_seg_cant_halt prog (S, C) segs = Ok (SgrRefuted st) ->
  forall n sl, ~ halts_at (to_prog prog) init_config n sl.
Proof.
  intros Hw HS HC H. unfold sg_seg_cant_halt, sg_segment_cant_reach in H.
  destruct (negb (2 <=? segs)); [discriminate|].
  set (ap := sg_aprog_new prog (S, C)) in *. cbn [sg_term_eqb andb orb] in H.
  rewrite orb_false_r in H.
  destruct (sga_halts ap) as [|h hs] eqn:Ehalts.
  - (* no undefined slot within the table *)
    intros n sl Hh. destruct (halts_abs prog n sl Hh) as (h0 & cn & Hrun & Hhalt).
    pose proof (steps_bounded prog S C Hw n _ cn (init_bounded S C HS HC h0) Hrun) as [Hq Hcol].
    assert (HP : cp_get prog (a_q cn, a_t cn (a_h cn)) = None).
    { unfold a_step, to_prog in Hhalt.
      destruct (cp_get prog (a_q cn, a_t cn (a_h cn))) as [[[pr sh] q']|]; [discriminate|reflexivity]. }
    pose proof (aprog_halts prog S C (a_q cn) (a_t cn (a_h cn)) Hq (Hcol _) HP) as Hin.
    fold ap in Hin. rewrite Ehalts in Hin. destruct Hin.
  - destruct (for_upto (segs - 1) (sg_scr_body ap SgHalt) 2) as [x|r] eqn:E; [discriminate|].
    subst r. rewrite for_upto_iter in E.
    pose proof (iter_nat_inv (sg_scr_body ap SgHalt) (fun s => 2 <= s)
                  (fun r => r = Ok (SgrRefuted st) ->
                            exists seg, 4 <= seg /\ sg_all_segments_reached ap seg SgHalt = Ok None)
                  (scr_body_inv ap SgHalt st) (N.to_nat (segs - 1)) 2 (N.le_refl 2)) as Hinv.
    rewrite E in Hinv. destruct (Hinv eq_refl) as (seg & Hseg & Hnone).
    apply (sg_asr_halt_none_sound prog S C seg Hw HS HC Hseg Hnone).
Qed.

Print Assumptions seg_refuted_halt_sound.
