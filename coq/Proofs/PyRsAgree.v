(** C17, component theorems: the model of tm/tape.py / tm/rules.py (PyTapeModel,
    PyRulesModel) against the model of src/tape.rs / src/rules.rs (TapeModel,
    RulesModel), over the common representation (TapeModel.tape,
    RulesModel.rule). *)
From BB Require Import Base TM TapeModel RulesModel TapeCanon PyTapeModel PyRulesModel.

(** ================================================================== *)
(** * 1. the compressed-tape step                                       *)
(** ================================================================== *)

(** the only well-formedness the agreement needs: no zero count on the side
    the head moves to (tape.py tests [count != 1], tape.rs tests [count > 1]) *)
Lemma ne1_gt1 n : 1 <= n -> negb (n =? 1) = (1 <? n).
Proof.
  intros Hn. destruct (n =? 1) eqn:E.
  - apply N.eqb_eq in E. subst. reflexivity.
  - apply N.eqb_neq in E. cbn [negb]. symmetry. apply N.ltb_lt. lia.
Qed.

(** the value of the block Python inserts (tape.py:195-199) is (color, stepped) *)
Definition py_new_block (color : colour) (pb : option block) : block :=
  match pb with None => (color, 1) | Some b => (color, snd b + 1) end.

Lemma py_push_eq (push0 : span) color stepped pb :
  py_new_block color pb = (color, stepped) ->
  match push0 with
  | top_block :: prest =>
      if fst top_block =? color
      then (fst top_block, snd top_block + stepped) :: prest
      else py_new_block color pb :: push0
  | [] => if negb (color =? 0) then [py_new_block color pb] else []
  end = push push0 color stepped.
Proof.
  intros Hnb. unfold push. destruct push0 as [|[c n] prest]; cbn [fst snd].
  - rewrite Hnb. destruct (color =? 0); reflexivity.
  - rewrite Hnb. destruct (c =? color); reflexivity.
Qed.

(** one side: Python's pull/next_scan/push_block part against [pull] *)
Lemma py_pull_eq (pull0 push0 : span) sc color skip :
  counts_pos pull0 ->
  let '(push_block1, pull1) :=
    match pull0 with
    | b :: rest => if skip && (fst b =? sc) then (Some b, rest) else (None, pull0)
    | [] => (None, pull0)
    end in
  let stepped := match push_block1 with None => 1 | Some b => 1 + snd b end in
  let '(next_scan, pull2, push_block2) :=
    match pull1 with
    | [] => (0, pull1, push_block1)
    | next_pull :: rest =>
        if negb (snd next_pull =? 1)
        then (fst next_pull, (fst next_pull, snd next_pull - 1) :: rest, push_block1)
        else match push_block1 with
             | None => (fst next_pull, rest, Some (fst next_pull, 0))
             | Some _ => (fst next_pull, rest, push_block1)
             end
    end in
  pull pull0 sc skip = (pull2, next_scan, stepped)
  /\ py_new_block color push_block2 = (color, stepped).
Proof.
  intros Hpos. unfold pull.
  destruct pull0 as [|[c n] rest].
  - cbn. split; reflexivity.
  - cbn [fst snd]. destruct (skip && (c =? sc)).
    + (* sweep: the whole nearest block is taken *)
      assert (Hrest : counts_pos rest) by (inversion Hpos; assumption).
      destruct rest as [|[c2 n2] rest2].
      * cbn [fst snd py_new_block]. split; [reflexivity|f_equal; lia].
      * assert (Hn2 : 1 <= n2) by (inversion Hrest as [|? ? H1 ?]; exact H1).
        cbn [fst snd]. rewrite (ne1_gt1 n2 Hn2).
        destruct (1 <? n2); cbn [py_new_block fst snd]; (split; [reflexivity|f_equal; lia]).
    + assert (Hn : 1 <= n) by (inversion Hpos as [|? ? H1 ?]; exact H1).
      cbn [fst snd]. rewrite (ne1_gt1 n Hn).
      destruct (1 <? n); cbn [py_new_block fst snd]; (split; [reflexivity|f_equal; lia]).
Qed.

Theorem py_step_eq_rs (t : tape) (sh : shift) (pr : colour) (skip : bool) :
  counts_pos (if sh then rspan t else lspan t) ->
  py_step t sh pr skip = step t sh pr skip.
Proof.
  intros Hpos. unfold py_step, step. destruct sh.
  - pose proof (py_pull_eq (rspan t) (lspan t) (scan t) pr skip Hpos) as H.
    destruct (match rspan t with
              | b :: rest => if skip && (fst b =? scan t) then (Some b, rest) else (None, rspan t)
              | [] => (None, rspan t)
              end) as [push_block1 pull1].
    cbv zeta in H.
    destruct (match pull1 with
              | [] => (0, pull1, push_block1)
              | next_pull :: rest =>
                  if negb (snd next_pull =? 1)
                  then (fst next_pull, (fst next_pull, snd next_pull - 1) :: rest, push_block1)
                  else match push_block1 with
                       | None => (fst next_pull, rest, Some (fst next_pull, 0))
                       | Some _ => (fst next_pull, rest, push_block1)
                       end
              end) as [[next_scan pull2] push_block2].
    destruct H as [Hpull Hnb]. rewrite Hpull.
    fold (py_new_block pr push_block2).
    rewrite (py_push_eq (lspan t) pr _ push_block2 Hnb). reflexivity.
  - pose proof (py_pull_eq (lspan t) (rspan t) (scan t) pr skip Hpos) as H.
    destruct (match lspan t with
              | b :: rest => if skip && (fst b =? scan t) then (Some b, rest) else (None, lspan t)
              | [] => (None, lspan t)
              end) as [push_block1 pull1].
    cbv zeta in H.
    destruct (match pull1 with
              | [] => (0, pull1, push_block1)
              | next_pull :: rest =>
                  if negb (snd next_pull =? 1)
                  then (fst next_pull, (fst next_pull, snd next_pull - 1) :: rest, push_block1)
                  else match push_block1 with
                       | None => (fst next_pull, rest, Some (fst next_pull, 0))
                       | Some _ => (fst next_pull, rest, push_block1)
                       end
              end) as [[next_scan pull2] push_block2].
    destruct H as [Hpull Hnb]. rewrite Hpull.
    fold (py_new_block pr push_block2).
    rewrite (py_push_eq (rspan t) pr _ push_block2 Hnb). reflexivity.
Qed.

(** the hypothesis cannot be dropped: on a zero count the two differ
    (Python decrements to "-1" -- 0 in [N] -- and keeps the block, Rust pops it) *)
Example py_step_neq_rs_zero_count :
  py_step (mkTape 0 [] [(1, 0); (2, 3)]) true 1 false
  <> step (mkTape 0 [] [(1, 0); (2, 3)]) true 1 false.
Proof. vm_compute. discriminate. Qed.

(** every history of steps from a canonical tape (in particular the blank one) *)
Definition py_do_op (t : tape) (o : tape_op) : tape :=
  let '(sh, pr, skip) := o in fst (py_step t sh pr skip).

Theorem py_history_eq_rs ops t :
  canon_tape t -> fold_left py_do_op ops t = fold_left do_op ops t.
Proof.
  revert t. induction ops as [|[[sh pr] skip] ops IH]; intros t Hc; cbn [fold_left]; [reflexivity|].
  assert (E : py_do_op t (sh, pr, skip) = do_op t (sh, pr, skip)).
  { unfold py_do_op, do_op. rewrite py_step_eq_rs; [reflexivity|].
    destruct Hc as [[Hl _] [Hr _]]. destruct sh; assumption. }
  rewrite E. apply IH. unfold do_op. apply canon_step. exact Hc.
Qed.

(** ================================================================== *)
(** * 2. observers                                                      *)
(** ================================================================== *)

Lemma py_blank_eq t : py_blank t = blank t.
Proof.
  unfold py_blank, blank, span_blank. reflexivity.
Qed.

Lemma py_span_marks_acc s a :
  fold_left (fun acc b => if negb (fst b =? 0) then acc + snd b else acc) s a = a + span_marks s.
Proof.
  revert a. induction s as [|[c n] s IH]; intros a; cbn [fold_left span_marks fold_right fst snd].
  - lia.
  - rewrite IH. fold (span_marks s). destruct (c =? 0); cbn [negb]; lia.
Qed.

Lemma py_marks_eq t : py_marks t = marks t.
Proof.
  unfold py_marks, marks, py_span_marks. rewrite !py_span_marks_acc.
  destruct (scan t =? 0); cbn [negb]; lia.
Qed.

Lemma py_at_edge_eq t e : py_at_edge t e = at_edge t e.
Proof. unfold py_at_edge, at_edge, span_blank. reflexivity. Qed.

Lemma py_span_lens_eq t : py_span_lens t = span_lens t.
Proof. reflexivity. Qed.

Lemma py_counts_eq t : py_counts t = counts t.
Proof. reflexivity. Qed.

Lemma py_block_sig_eq b : py_block_sig b = block_cc b.
Proof. unfold py_block_sig, block_cc. destruct (snd b =? 1); reflexivity. Qed.

Lemma py_signature_eq t : py_signature t = tape_sig t.
Proof.
  unfold py_signature, tape_sig, span_sig. f_equal; apply map_ext; exact py_block_sig_eq.
Qed.

(** display: equal as long as every count is in [1, 10^12) *)
Definition counts_below (m : N) (s : span) : Prop := Forall (fun b => snd b < m) s.

Lemma py_show_block_eq b : 1 <= snd b -> snd b < py_truncate_count -> py_show_block b = show_block b.
Proof.
  destruct b as [c n]. cbn [snd]. intros H1 H2. unfold py_show_block, show_block.
  destruct (n =? 1); [reflexivity|].
  assert (E0 : (n =? 0) = false) by (apply N.eqb_neq; lia).
  assert (E1 : (n <? py_truncate_count) = true) by (apply N.ltb_lt; exact H2).
  rewrite E0, E1. reflexivity.
Qed.

Lemma py_show_span_eq s :
  counts_pos s -> counts_below py_truncate_count s -> map py_show_block s = map show_block s.
Proof.
  intros Hp Hb. apply map_ext_in. intros b Hin.
  apply py_show_block_eq.
  - exact (proj1 (Forall_forall _ _) Hp b Hin).
  - exact (proj1 (Forall_forall _ _) Hb b Hin).
Qed.

Lemma py_show_tape_eq t :
  counts_pos (lspan t) -> counts_pos (rspan t) ->
  counts_below py_truncate_count (lspan t) -> counts_below py_truncate_count (rspan t) ->
  py_show_tape t = show_tape t.
Proof.
  intros Hl Hr Bl Br. unfold py_show_tape, show_tape.
  rewrite map_rev, (py_show_span_eq _ Hl Bl), (py_show_span_eq _ Hr Br). reflexivity.
Qed.

(** sig_compatible is NOT the same function: tape.py demands equal span
    lengths, tape.rs only [>=].  Python's answer implies Rust's; not conversely. *)
Lemma py_zip_all_firstn s g :
  py_zip_all (firstn (length g) s) g = span_sig_compatible s g.
Proof.
  revert s. induction g as [|c g IH]; intros s.
  - cbn. destruct s; reflexivity.
  - destruct s as [|b s]; cbn [length firstn py_zip_all span_sig_compatible]; [reflexivity|].
    rewrite IH. reflexivity.
Qed.

Lemma py_sig_compatible_implies_rs t g :
  py_sig_compatible t g = true -> sig_compatible t g = true.
Proof.
  unfold py_sig_compatible, sig_compatible. rewrite !py_zip_all_firstn.
  intros H. apply andb_prop in H as [H H5]. apply andb_prop in H as [H H4].
  apply andb_prop in H as [H H3]. apply andb_prop in H as [H1 H2].
  apply Nat.eqb_eq in H2. apply Nat.eqb_eq in H3.
  rewrite H1, H4, H5, <- H2, <- H3, !Nat.leb_refl. reflexivity.
Qed.

Lemma py_sig_compatible_eq_rs_same_lens t g :
  length (lspan t) = length (sig_l g) -> length (rspan t) = length (sig_r g) ->
  py_sig_compatible t g = sig_compatible t g.
Proof.
  intros Hl Hr. unfold py_sig_compatible, sig_compatible. rewrite !py_zip_all_firstn.
  rewrite Hl, Hr, !Nat.eqb_refl, !Nat.leb_refl. reflexivity.
Qed.

Example py_sig_compatible_neq_rs :
  let t := mkTape 0 [(1, 2)] [(2, 1)] in
  let g := mkSig 0 [Mult 1] [] in
  py_sig_compatible t g = false /\ sig_compatible t g = true.
Proof. vm_compute. split; reflexivity. Qed.

(** ================================================================== *)
(** * 3. additive rules: count_apps / apply_rule                        *)
(** ================================================================== *)

Definition is_plus (o : op) : bool := match o with Plus _ => true | MultOp _ _ => false end.
(** every entry is an additive one (what rules.rs can apply at all) *)
Definition rule_additive (r : rule) : Prop := Forall (fun e : index * op => is_plus (snd e) = true) r.

(** how a result of the Rust model reads as a Python result: a Rust panic
    inside these functions on an additive rule can only be an out-of-range
    block index, which is Python's IndexError *)
Definition py_of_rs {A} (x : outcome A) : pyres A :=
  match x with Ok a => Ret a | Panic => Raise ExIndexError end.

Lemma py_get_count_eq t ix : py_get_count t ix = py_of_rs (get_count t ix).
Proof.
  unfold py_get_count, get_count.
  destruct (nth_error (if fst ix then rspan t else lspan t) (N.to_nat (snd ix))); reflexivity.
Qed.

Lemma py_count_apps_loop_eq t r : rule_additive r -> forall apps,
  py_count_apps_loop t r apps = py_of_rs (count_apps_loop t r apps).
Proof.
  intros Hadd. induction r as [|[pos o] r IH]; intros apps.
  - reflexivity.
  - inversion Hadd as [|? ? Ho Hr]; subst. cbn [snd] in Ho.
    destruct o as [d|q m]; [|discriminate Ho].
    cbn [py_count_apps_loop count_apps_loop].
    destruct (0 <=? d)%Z; [apply IH; exact Hr|].
    rewrite py_get_count_eq. destruct (get_count t pos) as [|count]; [reflexivity|].
    cbn [py_of_rs pybind obind].
    destruct (count <=? Z.to_N (Z.abs d)); [reflexivity|].
    destruct (0 <? count mod Z.to_N (Z.abs d)).
    + destruct apps as [[[cur p] q]|]; [destruct (_ <? cur)|]; apply IH; exact Hr.
    + destruct apps as [[[cur p] q]|]; [destruct (_ <? cur)|]; apply IH; exact Hr.
Qed.

Theorem py_count_apps_eq_rs t r :
  rule_additive r -> py_count_apps t r = py_of_rs (count_apps t r).
Proof.
  intros Hadd. unfold py_count_apps, count_apps. rewrite (py_count_apps_loop_eq t r Hadd).
  destruct (count_apps_loop t r None) as [|[x|]]; reflexivity.
Qed.

(** --- what count_apps returns --- *)
Lemma entry_times_lt a c :
  0 < a -> a < c -> a * (if 0 <? c mod a then c / a else c / a - 1) < c.
Proof.
  intros Ha Hac.
  assert (Hne : a <> 0) by lia.
  pose proof (N.div_mod c a Hne) as Hdm.
  pose proof (N.mod_lt c a Hne) as Hml.
  remember (c / a) as q eqn:Eq. remember (c mod a) as m eqn:Em.
  destruct (0 <? m) eqn:E; cbv iota.
  - apply N.ltb_lt in E. nia.
  - apply N.ltb_ge in E. assert (Hm0 : m = 0) by lia.
    rewrite Hm0, N.add_0_r in Hdm.
    assert (Hq : 1 <= q).
    { destruct (N.eq_dec q 0) as [Hz|Hz]; [rewrite Hz, N.mul_0_r in Hdm; lia|lia]. }
    rewrite N.mul_sub_distr_l, N.mul_1_r. nia.
Qed.

Definition neg_entry_ok (t : tape) (times : N) (e : index * op) : Prop :=
  match snd e with
  | Plus d => (d < 0)%Z -> forall c, get_count t (fst e) = Ok c -> Z.to_N (Z.abs d) * times < c
  | MultOp _ _ => True
  end.

Lemma count_apps_loop_spec t r : forall apps times mp mr,
  count_apps_loop t r apps = Ok (Some (Some (times, mp, mr))) ->
  (forall cur p q, apps = Some (cur, p, q) -> times <= cur) /\
  Forall (neg_entry_ok t times) r /\
  ((exists d c, In (mp, Plus d) r /\ (d < 0)%Z /\ get_count t mp = Ok c)
   \/ exists cur q, apps = Some (cur, mp, q)).
Proof.
  induction r as [|[pos o] r IH]; intros apps times mp mr H.
  - cbn [count_apps_loop] in H. injection H as H. subst apps. repeat split.
    + intros cur p q E. injection E as E1 E2 E3. lia.
    + constructor.
    + right. eexists. eexists. reflexivity.
  - destruct o as [d|q m]; [|cbn [count_apps_loop] in H; discriminate H].
    cbn [count_apps_loop] in H.
    destruct (0 <=? d)%Z eqn:Ed.
    + apply Z.leb_le in Ed. destruct (IH _ _ _ _ H) as (H1 & H2 & H3). repeat split.
      * exact H1.
      * constructor; [|exact H2]. unfold neg_entry_ok. cbn [snd fst]. intros Hd. lia.
      * destruct H3 as [(d' & c & Hin & Hd & Hg)|H3]; [left|right; exact H3].
        exists d', c. repeat split; [right; exact Hin|exact Hd|exact Hg].
    + apply Z.leb_gt in Ed.
      destruct (get_count t pos) as [|count] eqn:Eg; [cbn [obind] in H; discriminate H|].
      cbn [obind] in H.
      set (a := Z.to_N (Z.abs d)) in *.
      assert (Ha : 0 < a) by (unfold a; lia).
      destruct (count <=? a) eqn:Ec; [discriminate H|]. apply N.leb_gt in Ec.
      pose proof (entry_times_lt a count Ha Ec) as Het.
      destruct (0 <? count mod a) eqn:Erem.
      * (* times0 = count / a *)
        assert (Hhead : forall times', times' <= count / a ->
                  neg_entry_ok t times' ((pos, Plus d) : index * op)).
        { intros times' Hle. unfold neg_entry_ok. cbn [snd fst]. intros _ c Hc.
          rewrite Eg in Hc. injection Hc as Hc. subst c. fold a.
          apply N.le_lt_trans with (a * (count / a)); [apply N.mul_le_mono_l; exact Hle|exact Het]. }
        destruct apps as [[[cur p] q]|].
        -- destruct (count / a <? cur) eqn:Ecur.
           ++ apply N.ltb_lt in Ecur. destruct (IH _ _ _ _ H) as (H1 & H2 & H3).
              pose proof (H1 _ _ _ eq_refl) as Hle. repeat split.
              ** intros cur' p' q' E. injection E as E1 E2 E3. lia.
              ** constructor; [apply Hhead; exact Hle|exact H2].
              ** left. destruct H3 as [(d' & c & Hin & Hd & Hg)|(cur' & q' & E)].
                 --- exists d', c. repeat split; [right; exact Hin|exact Hd|exact Hg].
                 --- injection E as E1 E2 E3. subst mp. exists d, count.
                     repeat split; [left; reflexivity|exact Ed|exact Eg].
           ++ apply N.ltb_ge in Ecur. destruct (IH _ _ _ _ H) as (H1 & H2 & H3).
              pose proof (H1 _ _ _ eq_refl) as Hle. repeat split.
              ** exact H1.
              ** constructor; [apply Hhead; lia|exact H2].
              ** destruct H3 as [(d' & c & Hin & Hd & Hg)|H3]; [left|right; exact H3].
                 exists d', c. repeat split; [right; exact Hin|exact Hd|exact Hg].
        -- destruct (IH _ _ _ _ H) as (H1 & H2 & H3).
           pose proof (H1 _ _ _ eq_refl) as Hle. repeat split.
           ** intros cur' p' q' E. discriminate E.
           ** constructor; [apply Hhead; exact Hle|exact H2].
           ** left. destruct H3 as [(d' & c & Hin & Hd & Hg)|(cur' & q' & E)].
              --- exists d', c. repeat split; [right; exact Hin|exact Hd|exact Hg].
              --- injection E as E1 E2 E3. subst mp. exists d, count.
                  repeat split; [left; reflexivity|exact Ed|exact Eg].
      * (* times0 = count / a - 1 *)
        assert (Hhead : forall times', times' <= count / a - 1 ->
                  neg_entry_ok t times' ((pos, Plus d) : index * op)).
        { intros times' Hle. unfold neg_entry_ok. cbn [snd fst]. intros _ c Hc.
          rewrite Eg in Hc. injection Hc as Hc. subst c. fold a.
          apply N.le_lt_trans with (a * (count / a - 1)); [apply N.mul_le_mono_l; exact Hle|exact Het]. }
        destruct apps as [[[cur p] q]|].
        -- destruct (count / a - 1 <? cur) eqn:Ecur.
           ++ apply N.ltb_lt in Ecur. destruct (IH _ _ _ _ H) as (H1 & H2 & H3).
              pose proof (H1 _ _ _ eq_refl) as Hle. repeat split.
              ** intros cur' p' q' E. injection E as E1 E2 E3. lia.
              ** constructor; [apply Hhead; exact Hle|exact H2].
              ** left. destruct H3 as [(d' & c & Hin & Hd & Hg)|(cur' & q' & E)].
                 --- exists d', c. repeat split; [right; exact Hin|exact Hd|exact Hg].
                 --- injection E as E1 E2 E3. subst mp. exists d, count.
                     repeat split; [left; reflexivity|exact Ed|exact Eg].
           ++ apply N.ltb_ge in Ecur. destruct (IH _ _ _ _ H) as (H1 & H2 & H3).
              pose proof (H1 _ _ _ eq_refl) as Hle. repeat split.
              ** exact H1.
              ** constructor; [apply Hhead; lia|exact H2].
              ** destruct H3 as [(d' & c & Hin & Hd & Hg)|H3]; [left|right; exact H3].
                 exists d', c. repeat split; [right; exact Hin|exact Hd|exact Hg].
        -- destruct (IH _ _ _ _ H) as (H1 & H2 & H3).
           pose proof (H1 _ _ _ eq_refl) as Hle. repeat split.
           ** intros cur' p' q' E. discriminate E.
           ** constructor; [apply Hhead; exact Hle|exact H2].
           ** left. destruct H3 as [(d' & c & Hin & Hd & Hg)|(cur' & q' & E)].
              --- exists d', c. repeat split; [right; exact Hin|exact Hd|exact Hg].
              --- injection E as E1 E2 E3. subst mp. exists d, count.
                  repeat split; [left; reflexivity|exact Ed|exact Eg].
Qed.

Lemma count_apps_spec t r times mp mr :
  count_apps t r = Ok (Some (times, mp, mr)) ->
  Forall (neg_entry_ok t times) r /\
  exists d c, In (mp, Plus d) r /\ (d < 0)%Z /\ get_count t mp = Ok c.
Proof.
  unfold count_apps. intros H.
  destruct (count_apps_loop t r None) as [|[[x|]|]] eqn:E; cbn [obind] in H; try discriminate H.
  injection H as H. subst x.
  destruct (count_apps_loop_spec t r _ _ _ _ E) as (_ & H2 & H3). split; [exact H2|].
  destruct H3 as [H3|(cur & q & Hx)]; [exact H3|discriminate Hx].
Qed.

(** --- set_count / get_count --- *)
Lemma index_eqb_eq a b : index_eqb a b = true <-> a = b.
Proof.
  destruct a as [s1 p1], b as [s2 p2]. unfold index_eqb. cbn [fst snd].
  rewrite andb_true_iff, Bool.eqb_true_iff, N.eqb_eq. split.
  - intros [E1 E2]. subst. reflexivity.
  - intros E. injection E as E1 E2. split; assumption.
Qed.

Lemma nth_error_set_nth_other s n m v : n <> m -> nth_error (set_nth s n v) m = nth_error s m.
Proof.
  revert n m. induction s as [|[c k] s IH]; intros n m Hnm.
  - destruct n; reflexivity.
  - destruct n as [|n]; destruct m as [|m]; cbn [set_nth nth_error]; try reflexivity.
    + contradiction.
    + apply IH. intros E. apply Hnm. f_equal. exact E.
Qed.

Lemma get_set_other t p q v : p <> q -> get_count (set_count t p v) q = get_count t q.
Proof.
  intros Hpq. destruct p as [s1 p1], q as [s2 p2]. unfold get_count, set_count. cbn [fst snd].
  destruct s1, s2; cbn [lspan rspan]; try reflexivity.
  - rewrite nth_error_set_nth_other; [reflexivity|].
    intros E. apply Hpq. f_equal. apply N2Nat.inj. exact E.
  - rewrite nth_error_set_nth_other; [reflexivity|].
    intros E. apply Hpq. f_equal. apply N2Nat.inj. exact E.
Qed.

Lemma py_set_count_ok t p v c : get_count t p = Ok c -> py_set_count t p v = Ret (set_count t p v).
Proof.
  unfold get_count, py_set_count.
  destruct (nth_error (if fst p then rspan t else lspan t) (N.to_nat (snd p))); [reflexivity|discriminate].
Qed.

(** the value Python computes for a non-minimal block is Rust's, whenever Rust computes one *)
Lemma apply_plus_py c d times v :
  apply_plus c d times = Ok (Some v) -> Z.to_N (Z.of_N c + d * Z.of_N times) = v.
Proof.
  unfold apply_plus.
  destruct (u64_max <? Z.to_N (Z.abs d) * times); [discriminate|].
  destruct (d <? 0)%Z eqn:Ed.
  - apply Z.ltb_lt in Ed.
    destruct (c <? Z.to_N (Z.abs d) * times) eqn:Ec; [discriminate|]. apply N.ltb_ge in Ec.
    intros H. injection H as H. subst v.
    assert (E : (Z.of_N c + d * Z.of_N times = Z.of_N (c - Z.to_N (Z.abs d) * times))%Z).
    { rewrite N2Z.inj_sub by exact Ec. rewrite N2Z.inj_mul, Z2N.id by lia.
      rewrite (Z.abs_neq d) by lia. ring. }
    rewrite E. apply N2Z.id.
  - apply Z.ltb_ge in Ed.
    destruct (u64_max <? c + Z.to_N (Z.abs d) * times); [discriminate|].
    intros H. injection H as H. subst v.
    assert (E : (Z.of_N c + d * Z.of_N times = Z.of_N (c + Z.to_N (Z.abs d) * times))%Z).
    { rewrite N2Z.inj_add, N2Z.inj_mul, Z2N.id by lia. rewrite (Z.abs_eq d) by lia. ring. }
    rewrite E. apply N2Z.id.
Qed.

Definition write_all (l : list (index * N)) (t : tape) : tape :=
  fold_left (fun t' pv => set_count t' (fst pv) (snd pv)) l t.

(** Python updates the tape entry by entry, Rust (after a9bee5e) computes all
    results from the old tape and then writes them: the same, because the keys
    of a rule are distinct *)
Lemma py_apply_loop_agree t0 times mp mr : forall r t l,
  rule_additive r -> NoDup (map fst r) ->
  (forall pos, In pos (map fst r) -> get_count t pos = get_count t0 pos) ->
  (exists c, get_count t0 mp = Ok c) ->
  apply_results t0 r times mp mr = Ok (Some l) ->
  py_apply_loop t r times mp mr = Ret (write_all l t).
Proof.
  induction r as [|[pos o] r IH]; intros t l Hadd Hnd Hagree Hmp Hres.
  - cbn [apply_results] in Hres. injection Hres as Hres. subst l. reflexivity.
  - inversion Hadd as [|? ? Ho Hr]; subst. cbn [snd] in Ho.
    destruct o as [d|q m]; [|discriminate Ho].
    cbn [map fst] in Hnd. inversion Hnd as [|? ? Hnotin Hnd']; subst.
    assert (Hhere : get_count t pos = get_count t0 pos) by (apply Hagree; left; reflexivity).
    cbn [apply_results] in Hres. cbn [py_apply_loop].
    (* continuation shared by both cases *)
    assert (Hcont : forall v c l', get_count t pos = Ok c ->
              apply_results t0 r times mp mr = Ok (Some l') ->
              pybind (py_set_count t pos v)
                (fun t' => py_apply_loop t' r times mp mr) = Ret (write_all ((pos, v) :: l') t)).
    { intros v c l' Hc Hl'. rewrite (py_set_count_ok t pos v c Hc). cbn [pybind].
      unfold write_all at 1. cbn [fold_left fst snd]. fold (write_all l' (set_count t pos v)).
      apply IH; [exact Hr|exact Hnd'| |exact Hmp|exact Hl'].
      intros pos' Hin. rewrite get_set_other; [apply Hagree; right; exact Hin|].
      intros E. subst pos'. contradiction. }
    destruct (index_eqb pos mp) eqn:Eix.
    + apply index_eqb_eq in Eix. subst pos.
      destruct (d <? 0)%Z; [|cbn [obind] in Hres; discriminate Hres].
      cbn [obind] in Hres.
      destruct (apply_results t0 r times mp mr) as [|[l'|]] eqn:El'; cbn [obind] in Hres;
        try discriminate Hres.
      injection Hres as Hres. subst l.
      destruct Hmp as [c Hc]. rewrite py_get_count_eq, Hhere, Hc. cbn [py_of_rs pybind negb].
      apply (Hcont mr c l'); [rewrite Hhere; exact Hc|reflexivity].
    + destruct (get_count t0 pos) as [|c] eqn:Ec; [cbn [obind] in Hres; discriminate Hres|].
      cbn [obind] in Hres.
      destruct (apply_plus c d times) as [|[v|]] eqn:Eap; cbn [obind] in Hres; try discriminate Hres.
      destruct (apply_results t0 r times mp mr) as [|[l'|]] eqn:El'; cbn [obind] in Hres;
        try discriminate Hres.
      injection Hres as Hres. subst l.
      rewrite py_get_count_eq, Hhere. cbn [py_of_rs pybind negb].
      rewrite (apply_plus_py c d times v Eap).
      apply (Hcont v c l'); [exact Hhere|reflexivity].
Qed.

(** ** whenever Rust applies the rule, Python computes the same count and the same tape *)
Theorem py_apply_eq_rs_applied t r k t' :
  rule_additive r -> NoDup (map fst r) ->
  apply_rule t r = Ok (Some k, t') -> py_apply_rule t r = Ret (Some k, t').
Proof.
  intros Hadd Hnd H. unfold apply_rule in H. unfold py_apply_rule.
  rewrite (py_count_apps_eq_rs t r Hadd).
  destruct (count_apps t r) as [|[[[times mp] mr]|]] eqn:Hca; cbn [obind] in H; try discriminate H.
  cbn [py_of_rs pybind].
  destruct (apply_results t r times mp mr) as [|[l|]] eqn:Hres; cbn [obind] in H; try discriminate H.
  injection H as Hk Ht. subst k t'.
  destruct (count_apps_spec t r times mp mr Hca) as (_ & d & c & _ & _ & Hc).
  rewrite (py_apply_loop_agree t times mp mr r t l Hadd Hnd (fun _ _ => eq_refl)
             (ex_intro _ c Hc) Hres).
  reflexivity.
Qed.

(** ** when no negative entry is applicable, both return None and leave the tape alone *)
Theorem py_apply_eq_rs_inapplicable t r :
  rule_additive r -> count_apps t r = Ok None ->
  py_apply_rule t r = Ret (None, t) /\ apply_rule t r = Ok (None, t).
Proof.
  intros Hadd Hca. unfold py_apply_rule, apply_rule.
  rewrite (py_count_apps_eq_rs t r Hadd), Hca. split; reflexivity.
Qed.

(** --- totality of the Rust side under explicit range hypotheses --- *)
Definition rule_in_range (t : tape) (r : rule) : Prop :=
  Forall (fun e : index * op => exists c, get_count t (fst e) = Ok c) r.

(** the counts the rule touches are u64 values and the additions of an
    application with [times] repetitions stay inside u64 *)
Definition no_overflow (t : tape) (r : rule) (times : N) : Prop :=
  forall pos d c, In (pos, Plus d) r -> get_count t pos = Ok c ->
    c <= u64_max /\ ((0 <= d)%Z -> c + Z.to_N (Z.abs d) * times <= u64_max).

Lemma apply_plus_total_neg c d times :
  (d < 0)%Z -> Z.to_N (Z.abs d) * times < c -> c <= u64_max ->
  exists v, apply_plus c d times = Ok (Some v).
Proof.
  intros Hd Hlt Hmax. unfold apply_plus.
  assert (E1 : (u64_max <? Z.to_N (Z.abs d) * times) = false) by (apply N.ltb_ge; lia).
  assert (E2 : (d <? 0)%Z = true) by (apply Z.ltb_lt; exact Hd).
  assert (E3 : (c <? Z.to_N (Z.abs d) * times) = false) by (apply N.ltb_ge; lia).
  rewrite E1, E2, E3. eexists. reflexivity.
Qed.

Lemma apply_plus_total_pos c d times :
  (0 <= d)%Z -> c + Z.to_N (Z.abs d) * times <= u64_max ->
  exists v, apply_plus c d times = Ok (Some v).
Proof.
  intros Hd Hmax. unfold apply_plus.
  assert (E1 : (u64_max <? Z.to_N (Z.abs d) * times) = false) by (apply N.ltb_ge; lia).
  assert (E2 : (d <? 0)%Z = false) by (apply Z.ltb_ge; exact Hd).
  assert (E3 : (u64_max <? c + Z.to_N (Z.abs d) * times) = false) by (apply N.ltb_ge; lia).
  rewrite E1, E2, E3. eexists. reflexivity.
Qed.

Lemma nodup_key_unique (r : rule) k a b :
  NoDup (map fst r) -> In (k, a) r -> In (k, b) r -> a = b.
Proof.
  induction r as [|[k' o] r IH]; intros Hnd Ha Hb; [contradiction|].
  cbn [map fst] in Hnd. inversion Hnd as [|? ? Hnotin Hnd']; subst.
  destruct Ha as [Ha|Ha]; destruct Hb as [Hb|Hb].
  - injection Ha as E1 E2. injection Hb as E3 E4. congruence.
  - injection Ha as E1 E2. subst. exfalso. apply Hnotin.
    change k with (fst (k, b)). apply in_map. exact Hb.
  - injection Hb as E1 E2. subst. exfalso. apply Hnotin.
    change k with (fst (k, a)). apply in_map. exact Ha.
  - apply IH; assumption.
Qed.

Definition entry_fine (t : tape) (times : N) (mp : index) (e : index * op) : Prop :=
  exists d c, snd e = Plus d /\ get_count t (fst e) = Ok c
    /\ (index_eqb (fst e) mp = true -> (d < 0)%Z)
    /\ ((d < 0)%Z -> Z.to_N (Z.abs d) * times < c /\ c <= u64_max)
    /\ ((0 <= d)%Z -> c + Z.to_N (Z.abs d) * times <= u64_max).

Lemma apply_results_total t times mp mr : forall r,
  Forall (entry_fine t times mp) r -> exists l, apply_results t r times mp mr = Ok (Some l).
Proof.
  induction r as [|[pos o] r IH]; intros Hf.
  - exists []. reflexivity.
  - inversion Hf as [|? ? He Hr]; subst.
    destruct He as (d & c & Ho & Hc & Hmin & Hneg & Hpos). cbn [fst snd] in *. subst o.
    destruct (IH Hr) as [l' Hl']. cbn [apply_results].
    destruct (index_eqb pos mp) eqn:Eix.
    + assert (E : (d <? 0)%Z = true) by (apply Z.ltb_lt; apply Hmin; reflexivity).
      rewrite E. cbn [obind]. rewrite Hl'. cbn [obind]. eexists. reflexivity.
    + rewrite Hc. cbn [obind].
      assert (Hap : exists v, apply_plus c d times = Ok (Some v)).
      { destruct (Z_lt_ge_dec d 0) as [Hd|Hd].
        - destruct (Hneg Hd) as [H1 H2]. apply apply_plus_total_neg; assumption.
        - apply apply_plus_total_pos; [lia|apply Hpos; lia]. }
      destruct Hap as [v Hv]. rewrite Hv. cbn [obind]. rewrite Hl'. cbn [obind].
      eexists. reflexivity.
Qed.

Lemma count_apps_loop_no_panic t r : rule_additive r -> rule_in_range t r ->
  forall apps, count_apps_loop t r apps <> Panic.
Proof.
  intros Hadd Hin. induction r as [|[pos o] r IH]; intros apps.
  - cbn [count_apps_loop]. discriminate.
  - inversion Hadd as [|? ? Ho Hr]; subst. inversion Hin as [|? ? Hc Hir]; subst.
    cbn [fst snd] in *. destruct o as [d|q m]; [|discriminate Ho].
    destruct Hc as [c Hc]. cbn [count_apps_loop]. rewrite Hc. cbn [obind].
    destruct (0 <=? d)%Z; [apply IH; assumption|].
    destruct (c <=? Z.to_N (Z.abs d)); [discriminate|].
    destruct (0 <? c mod Z.to_N (Z.abs d));
      (destruct apps as [[[cur p] q]|]; [destruct (_ <? cur)|]; apply IH; assumption).
Qed.

(** ** C17 component: additive rule application, Python = Rust, for every
       tape and rule within the stated ranges *)
Theorem py_apply_eq_rs t r :
  rule_additive r -> NoDup (map fst r) -> rule_in_range t r ->
  (forall times mp mr, count_apps t r = Ok (Some (times, mp, mr)) -> no_overflow t r times) ->
  py_apply_rule t r = py_of_rs (apply_rule t r) /\ apply_rule t r <> Panic.
Proof.
  intros Hadd Hnd Hin Hno.
  destruct (count_apps t r) as [|[[[times mp] mr]|]] eqn:Hca.
  - exfalso. unfold count_apps in Hca.
    pose proof (count_apps_loop_no_panic t r Hadd Hin None) as Hnp.
    destruct (count_apps_loop t r None) as [|[x|]]; [apply Hnp; reflexivity|discriminate|discriminate].
  - (* applicable *)
    destruct (count_apps_spec t r times mp mr Hca) as (Hnegs & dm & cm & Hinm & Hdm & Hcm).
    specialize (Hno _ _ _ eq_refl).
    assert (Hfine : Forall (entry_fine t times mp) r).
    { apply Forall_forall. intros [pos o] Hine.
      pose proof (proj1 (Forall_forall _ _) Hadd _ Hine) as Ho. cbn [snd] in Ho.
      destruct o as [d|q m]; [|discriminate Ho].
      destruct (proj1 (Forall_forall _ _) Hin _ Hine) as [c Hc]. cbn [fst] in Hc.
      pose proof (proj1 (Forall_forall _ _) Hnegs _ Hine) as Hneg.
      unfold neg_entry_ok in Hneg. cbn [fst snd] in Hneg.
      destruct (Hno pos d c Hine Hc) as [Hmax Hadd'].
      exists d, c. cbn [fst snd]. repeat split.
      - exact Hc.
      - intros Eix. apply index_eqb_eq in Eix. subst pos.
        assert (E : Plus d = Plus dm) by (eapply nodup_key_unique; eassumption).
        injection E as E. subst d. exact Hdm.
      - apply Hneg; assumption.
      - exact Hmax.
      - exact Hadd'. }
    destruct (apply_results_total t times mp mr r Hfine) as [l Hl].
    assert (Hrs : apply_rule t r = Ok (Some times, write_all l t)).
    { unfold apply_rule. rewrite Hca. cbn [obind]. rewrite Hl. cbn [obind]. reflexivity. }
    split; [|rewrite Hrs; discriminate].
    rewrite Hrs. cbn [py_of_rs]. apply py_apply_eq_rs_applied; assumption.
  - destruct (py_apply_eq_rs_inapplicable t r Hadd Hca) as [H1 H2].
    rewrite H1, H2. split; [reflexivity|discriminate].
Qed.

(** a corollary with plain numeric ranges: differences are i32 values (the
    type of rules.rs) and the counts the rule touches are below 2^32 *)
Theorem py_apply_eq_rs_small t r :
  rule_additive r -> NoDup (map fst r) -> rule_in_range t r ->
  (forall pos d, In (pos, Plus d) r -> in_i32 d = true) ->
  (forall pos d c, In (pos, Plus d) r -> get_count t pos = Ok c -> c < 4294967296) ->
  py_apply_rule t r = py_of_rs (apply_rule t r) /\ apply_rule t r <> Panic.
Proof.
  intros Hadd Hnd Hin Hi32 Hsmall. apply py_apply_eq_rs; try assumption.
  intros times mp mr Hca.
  destruct (count_apps_spec t r times mp mr Hca) as (Hnegs & dm & cm & Hinm & Hdm & Hcm).
  (* times < 2^32 *)
  assert (Htimes : times < 4294967296).
  { pose proof (proj1 (Forall_forall _ _) Hnegs _ Hinm) as Hneg.
    unfold neg_entry_ok in Hneg. cbn [fst snd] in Hneg.
    specialize (Hneg Hdm cm Hcm). pose proof (Hsmall _ _ _ Hinm Hcm) as Hc.
    assert (1 <= Z.to_N (Z.abs dm)) by lia. nia. }
  intros pos d c Hine Hc. pose proof (Hsmall _ _ _ Hine Hc) as Hcs.
  pose proof (Hi32 _ _ Hine) as Hd. unfold in_i32 in Hd.
  apply andb_prop in Hd as [Hd1 Hd2]. apply Z.leb_le in Hd1. apply Z.leb_le in Hd2.
  unfold u64_max. split; [lia|]. intros Hd0.
  assert (Ha : Z.to_N (Z.abs d) <= 2147483648) by lia.
  assert (Hm : Z.to_N (Z.abs d) * times <= 2147483648 * 4294967296).
  { apply N.mul_le_mono; lia. }
  lia.
Qed.

(** outside those ranges the two DO differ, by Rust's own limit (u64): the
    F7 witness.  Rust reports "not applicable", Python applies with big ints. *)
Example py_apply_neq_rs_on_u64_overflow :
  let t := mkTape 0 [(1, 4611686018427387904)] [(2, 5)] in
  let r : rule := [((false, 0), Plus (-1)); ((true, 0), Plus 8)] in
  apply_rule t r = Ok (None, t) /\
  py_apply_rule t r = Ret (Some 4611686018427387903,
                           mkTape 0 [(1, 1)] [(2, 36893488147419103229)]).
Proof. vm_compute. split; reflexivity. Qed.

(** ================================================================== *)
(** * 4. additive difference inference                                  *)
(** ================================================================== *)

(** what the comparison reads off a difference answer: the block did not
    change / it changes by a constant [d] / anything else (multiplicative op,
    "unknown", an exception, a panic) *)
Inductive addview := AVSame | AVPlus (d : Z) | AVOther.

Definition rs_addview (x : outcome diffres) : addview :=
  match x with
  | Ok DSkip => AVSame
  | Ok (DGot (Plus d)) => AVPlus d
  | _ => AVOther
  end.
Definition py_addview (x : pyres (option op)) : addview :=
  match x with
  | Ret None => AVSame
  | Ret (Some (Plus d)) => AVPlus d
  | _ => AVOther
  end.

Lemma i32_of_u64_small n : n < 2147483648 -> i32_of_u64 n = Z.of_N n.
Proof.
  intros Hn. unfold i32_of_u64.
  rewrite Z.mod_small by lia.
  assert (E : (Z.of_N n <? 2147483648)%Z = true) by (apply Z.ltb_lt; lia).
  rewrite E. reflexivity.
Qed.

Lemma in_i32_diff x y :
  x < 2147483648 -> y < 2147483648 -> in_i32 (Z.of_N y - Z.of_N x) = true.
Proof.
  intros Hx Hy. unfold in_i32. apply andb_true_intro. split; apply Z.leb_le; lia.
Qed.

(** the non-additive tail of rules.py never answers "same" or "plus" *)
Lemma py_diff_tail_other (loop : pyres bool) (k : bool -> pyres (option op)) :
  (forall b, py_addview (k b) = AVOther) -> py_addview (pybind loop k) = AVOther.
Proof. intros Hk. destruct loop as [e|b]; [reflexivity|apply Hk]. Qed.

Theorem py_diff_eq_rs_additive a b c d :
  a < 2147483648 -> b < 2147483648 -> c < 2147483648 -> d < 2147483648 ->
  py_addview (py_calculate_diff a b c d) = rs_addview (calculate_diff a b c d).
Proof.
  intros Ha Hb Hc Hd. unfold py_calculate_diff, calculate_diff.
  rewrite !i32_of_u64_small by assumption.
  (* all four equal *)
  destruct ((a =? b) && (b =? c) && (c =? d)) eqn:Eall.
  - apply andb_prop in Eall as [Eall E3]. apply andb_prop in Eall as [E1 E2].
    apply N.eqb_eq in E1. apply N.eqb_eq in E2. apply N.eqb_eq in E3. subst b c d.
    rewrite Z.eqb_refl. reflexivity.
  - assert (Epy : ((Z.of_N b =? Z.of_N a) && (Z.of_N c =? Z.of_N a) && (Z.of_N d =? Z.of_N a))%Z = false).
    { apply not_true_is_false. intros E. apply andb_prop in E as [E E3]. apply andb_prop in E as [E1 E2].
      apply Z.eqb_eq in E1. apply Z.eqb_eq in E2. apply Z.eqb_eq in E3.
      apply N2Z.inj in E1. apply N2Z.inj in E2. apply N2Z.inj in E3. subst b c d.
      rewrite !N.eqb_refl in Eall. discriminate Eall. }
    rewrite Epy.
    rewrite (in_i32_diff a b Ha Hb), (in_i32_diff b c Hb Hc), (in_i32_diff c d Hc Hd).
    cbn [negb].
    destruct ((Z.of_N c - Z.of_N b =? Z.of_N b - Z.of_N a)
              && (Z.of_N d - Z.of_N c =? Z.of_N b - Z.of_N a))%Z eqn:Eplus.
    + (* additive *)
      apply andb_prop in Eplus as [E1 E2]. apply Z.eqb_eq in E1. apply Z.eqb_eq in E2.
      assert (R1 : (Z.of_N b - Z.of_N a =? Z.of_N c - Z.of_N b)%Z = true) by (apply Z.eqb_eq; lia).
      assert (R2 : (Z.of_N c - Z.of_N b =? Z.of_N d - Z.of_N c)%Z = true) by (apply Z.eqb_eq; lia).
      rewrite R1, R2. reflexivity.
    + (* not additive: neither side answers "same" or "plus" *)
      assert (R : (if (Z.of_N b - Z.of_N a =? Z.of_N c - Z.of_N b)%Z
                   then Ok (Z.of_N c - Z.of_N b =? Z.of_N d - Z.of_N c)%Z else Ok false) = Ok false).
      { destruct (Z.of_N b - Z.of_N a =? Z.of_N c - Z.of_N b)%Z eqn:R1; [|reflexivity].
        destruct (Z.of_N c - Z.of_N b =? Z.of_N d - Z.of_N c)%Z eqn:R2; [|reflexivity].
        apply Z.eqb_eq in R1. apply Z.eqb_eq in R2. exfalso.
        apply andb_false_iff in Eplus as [E|E]; apply Z.eqb_neq in E; lia. }
      rewrite R. cbn [obind].
      (* Rust tail *)
      assert (Hrs : rs_addview
        (if (Z.of_N a =? 0)%Z || (Z.of_N b =? 0)%Z then Ok DUnknown
         else if ((Z.of_N b =? -2147483648) && (Z.of_N a =? -1))%Z then Panic
         else if ((Z.of_N c =? -2147483648) && (Z.of_N b =? -1))%Z then Panic
         else if ((fst (Z.quot (Z.of_N b) (Z.of_N a), Z.rem (Z.of_N b) (Z.of_N a))
                   =? fst (Z.quot (Z.of_N c) (Z.of_N b), Z.rem (Z.of_N c) (Z.of_N b)))
               && (snd (Z.quot (Z.of_N b) (Z.of_N a), Z.rem (Z.of_N b) (Z.of_N a))
                   =? snd (Z.quot (Z.of_N c) (Z.of_N b), Z.rem (Z.of_N c) (Z.of_N b))))%Z
         then if (Z.of_N c =? 0)%Z then Panic
              else if ((Z.of_N d =? -2147483648) && (Z.of_N c =? -1))%Z then Panic
              else if ((fst (Z.quot (Z.of_N c) (Z.of_N b), Z.rem (Z.of_N c) (Z.of_N b))
                        =? fst (Z.quot (Z.of_N d) (Z.of_N c), Z.rem (Z.of_N d) (Z.of_N c)))
                    && (snd (Z.quot (Z.of_N c) (Z.of_N b), Z.rem (Z.of_N c) (Z.of_N b))
                        =? snd (Z.quot (Z.of_N d) (Z.of_N c), Z.rem (Z.of_N d) (Z.of_N c))))%Z
              then Ok (DGot (MultOp (fst (Z.quot (Z.of_N b) (Z.of_N a), Z.rem (Z.of_N b) (Z.of_N a)))
                                    (snd (Z.quot (Z.of_N b) (Z.of_N a), Z.rem (Z.of_N b) (Z.of_N a)))))
              else Ok DUnknown
         else Ok DUnknown) = AVOther).
      { repeat match goal with |- context [if ?x then _ else _] => destruct x end; reflexivity. }
      rewrite Hrs.
      (* Python tail *)
      destruct (negb ((Z.of_N a <? Z.of_N b) && (Z.of_N b <? Z.of_N c) && (Z.of_N c <? Z.of_N d))%Z);
        [reflexivity|].
      destruct (Z.of_N a =? 0)%Z; [reflexivity|].
      apply py_diff_tail_other. intros completed.
      destruct completed; [reflexivity|].
      repeat match goal with
             | |- context [if ?x then _ else _] => destruct x
             | |- context [match ?x with Some _ => _ | None => _ end] => destruct x as [[? ?]|]
             end; reflexivity.
Qed.

(** beyond i32 the two DO differ although every difference is 1: [as Diff]
    truncates the counts (F6 boundary; Rust's own representation limit) *)
Example py_diff_neq_rs_beyond_i32 :
  rs_addview (calculate_diff 2147483647 2147483648 2147483649 2147483650) = AVOther /\
  py_addview (py_calculate_diff 2147483647 2147483648 2147483649 2147483650) = AVPlus 1.
Proof. vm_compute. split; reflexivity. Qed.

(** before the two repairs of rules.rs the agreement was FALSE inside the
    range: the F4 witness (a decreasing block that is not the minimum one) *)
Example py_apply_neq_rs_prefix :
  let t := mkTape 0 [] [(2, 10); (3, 10); (4, 5)] in
  let r : rule := [((true, 0), Plus (-1)); ((true, 1), Plus (-2)); ((true, 2), Plus 1)] in
  py_apply_rule t r = Ret (Some 4, mkTape 0 [] [(2, 6); (3, 2); (4, 9)]) /\
  apply_rule_prefix apply_plus_prefix t r = Ok (Some 4, mkTape 0 [] [(2, 14); (3, 2); (4, 9)]) /\
  apply_rule t r = Ok (Some 4, mkTape 0 [] [(2, 6); (3, 2); (4, 9)]).
Proof. vm_compute. repeat split; reflexivity. Qed.

(** ================================================================== *)
(** * 5. make_rule on additive count tables                             *)
(** ================================================================== *)

Definition col_small (q : N * N * N * N) : Prop :=
  let '(a, b, c, d) := q in
  a < 2147483648 /\ b < 2147483648 /\ c < 2147483648 /\ d < 2147483648.
(** Python reads the column as "unchanged" or "changes by a constant" *)
Definition col_additive (q : N * N * N * N) : Prop :=
  let '(a, b, c, d) := q in py_addview (py_calculate_diff a b c d) <> AVOther.

Lemma py_addview_same x : py_addview x = AVSame -> x = Ret None.
Proof. destruct x as [e|[[z|q m]|]]; cbn; intros H; try discriminate H; reflexivity. Qed.
Lemma py_addview_plus x z : py_addview x = AVPlus z -> x = Ret (Some (Plus z)).
Proof.
  destruct x as [e|[[z'|q m]|]]; cbn; intros H; try discriminate H.
  injection H as H. subst. reflexivity.
Qed.
Lemma rs_addview_same x : rs_addview x = AVSame -> x = Ok DSkip.
Proof. destruct x as [|[| |[z|q m]]]; cbn; intros H; try discriminate H; reflexivity. Qed.
Lemma rs_addview_plus x z : rs_addview x = AVPlus z -> x = Ok (DGot (Plus z)).
Proof.
  destruct x as [|[| |[z'|q m]]]; cbn; intros H; try discriminate H.
  injection H as H. subst. reflexivity.
Qed.

Lemma rule_additive_app r e : rule_additive r -> is_plus (snd e) = true -> rule_additive (r ++ [e]).
Proof.
  intros Hr He. apply Forall_app. split; [exact Hr|]. constructor; [exact He|constructor].
Qed.

Lemma make_rule_span_agree side : forall a b c d i acc sd,
  length a = length b -> length b = length c -> length c = length d ->
  Forall col_small (zip4 a b c d) -> Forall col_additive (zip4 a b c d) ->
  rule_additive acc ->
  exists acc', make_rule_span side i (zip4 a b c d) acc = Ok (Some acc')
            /\ py_make_rule_span side i a b c d acc sd = Ret (Some (acc', sd))
            /\ rule_additive acc'.
Proof.
  induction a as [|x a IH]; intros b c d i acc sd H1 H2 H3 Hs Ha Hacc.
  - destruct b; [|discriminate H1]. destruct c; [|discriminate H2]. destruct d; [|discriminate H3].
    exists acc. split; [reflexivity|split; [reflexivity|exact Hacc]].
  - destruct b as [|y b]; [discriminate H1|]. destruct c as [|z c]; [discriminate H2|].
    destruct d as [|w d]; [discriminate H3|].
    cbn [length] in H1, H2, H3. injection H1 as H1. injection H2 as H2. injection H3 as H3.
    cbn [zip4] in Hs, Ha |- *.
    inversion Hs as [|? ? Hs0 Hs']; subst. inversion Ha as [|? ? Ha0 Ha']; subst.
    destruct Hs0 as (Sx & Sy & Sz & Sw). cbn [col_additive] in Ha0.
    pose proof (py_diff_eq_rs_additive x y z w Sx Sy Sz Sw) as Heq.
    cbn [make_rule_span py_make_rule_span].
    destruct (py_addview (py_calculate_diff x y z w)) as [|dz|] eqn:Epy; [| |contradiction].
    + rewrite (py_addview_same _ Epy). symmetry in Heq. rewrite (rs_addview_same _ Heq).
      cbn [obind]. apply IH; assumption.
    + rewrite (py_addview_plus _ _ Epy). symmetry in Heq. rewrite (rs_addview_plus _ _ Heq).
      cbn [obind]. apply IH; try assumption.
      apply rule_additive_app; [exact Hacc|reflexivity].
Qed.

Definition rule_all_nonneg (r : rule) : bool :=
  forallb (fun e : index * op => match snd e with Plus d => (0 <=? d)%Z | MultOp _ _ => true end) r.

(** on count tables every column of which Python reads as additive (and whose
    counts fit i32), make_rule of rules.rs returns exactly the rule Python
    builds; Python raises InfiniteRule iff no entry is negative, which is the
    test prover.rs:208-213 makes on the Rust side right after make_rule *)
Theorem py_make_rule_eq_rs_additive c1 c2 c3 c4 :
  length (fst c1) = length (fst c2) -> length (fst c2) = length (fst c3) ->
  length (fst c3) = length (fst c4) ->
  length (snd c1) = length (snd c2) -> length (snd c2) = length (snd c3) ->
  length (snd c3) = length (snd c4) ->
  Forall col_small (zip4 (fst c1) (fst c2) (fst c3) (fst c4)) ->
  Forall col_small (zip4 (snd c1) (snd c2) (snd c3) (snd c4)) ->
  Forall col_additive (zip4 (fst c1) (fst c2) (fst c3) (fst c4)) ->
  Forall col_additive (zip4 (snd c1) (snd c2) (snd c3) (snd c4)) ->
  exists r, make_rule c1 c2 c3 c4 = Ok (Some r) /\ rule_additive r /\
    py_make_rule c1 c2 c3 c4 =
      if rule_all_nonneg r then Raise ExInfiniteRule else Ret (Some r).
Proof.
  intros L1 L2 L3 R1 R2 R3 SL SR AL AR.
  destruct (make_rule_span_agree false _ _ _ _ 0 [] false L1 L2 L3 SL AL (Forall_nil _))
    as (accl & Hrl & Hpl & Haddl).
  destruct (make_rule_span_agree true _ _ _ _ 0 accl false R1 R2 R3 SR AR Haddl)
    as (r & Hrr & Hpr & Haddr).
  exists r. unfold make_rule, py_make_rule. rewrite Hrl, Hpl. cbn [obind pybind].
  rewrite Hrr, Hpr. cbn [pybind]. split; [reflexivity|split; [exact Haddr|]].
  unfold rule_all_nonneg. destruct (forallb _ r); reflexivity.
Qed.
