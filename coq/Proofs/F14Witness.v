(** F14: machine-checked witness that the accelerated runner [run_prover]
    applies an inferred rule one time too many at the end of a block.

    The 23-state 4-colour program [f14_prog] (text [f14_text]) makes the model
    of run_prover (cycle limit 400) answer
        undfnd at slot (16, 0) = Q0, rulapp = 4,
    after ONE recorded bulk application: in state 14 (= O), on the tape
        1 / 2:6, 3:1 / 1:5          (scan / left span / right span)
    the rule "L0: +1, R0: -1" is applied 4 times at once, giving
        1 / 2:10, 3:1 / 1:1.
    The cell-by-cell machine of Spec/TM.v, started on the blank tape, instead
    halts at slot (14, 0) = O0 after 79 steps; by determinism it never halts at
    (16, 0).  From the tape before the application the real machine halts
    after 28 steps and none of the 29 configurations on the way is the
    configuration after the application: the recorded application is NOT a run
    of the machine.  The first three single applications ARE real (7 steps
    each); the fourth (1/2:9,3:1/1:2 -> 1/2:10,3:1/1:1, which passes the guard
    of rules.rs: the decreasing block has 2 > 1 cells) is not: from there the
    machine halts after 7 steps.  Hence the inferred rule is not [RuleValid].

    Everything below is closed under the global context (vm_compute on the
    models + the lemmas of this file). *)
From BB Require Import Base TM Ref TapeModel InstrsModel RulesModel MachineModel ProverModel ReplayModel.
From BB Require Import TapeCanon StepSim RulesExact RuleSound ReplaySound ProverSound.
From Coq Require String Ascii.
Open Scope N_scope.

(** ------------------------------------------------------------------ *)
(** * generic facts about the spec machine: determinism of halting      *)

(** after a halt there is no further step *)
Lemma tm_steps_after_halt P n c cN :
  tm_steps P n c = Some cN -> tm_step P cN = None ->
  forall m, (n < m)%nat -> tm_steps P m c = None.
Proof.
  intros Hn Hh m Hm. replace m with (n + S (m - n - 1))%nat by lia.
  rewrite tm_steps_plus, Hn. cbn [tm_steps]. rewrite Hh. reflexivity.
Qed.

Lemma halted_no_step P q t : P (q, zc t) = None -> tm_step P (q, t) = None.
Proof. intro H. unfold tm_step. rewrite H. reflexivity. Qed.

(** the machine halts at most once: step number and slot are unique *)
Theorem halts_at_unique P c n m sl sl' :
  halts_at P c n sl -> halts_at P c m sl' -> n = m /\ sl = sl'.
Proof.
  intros (q & t & Hn & -> & Hp) (q' & t' & Hm & -> & Hp').
  assert (E : n = m).
  { destruct (Nat.lt_trichotomy n m) as [L|[L|L]]; [|exact L|].
    - rewrite (tm_steps_after_halt P n c (q, t) Hn (halted_no_step P q t Hp) m L) in Hm. discriminate Hm.
    - rewrite (tm_steps_after_halt P m c (q', t') Hm (halted_no_step P q' t' Hp') n L) in Hn. discriminate Hn. }
  split; [exact E|]. subst m. rewrite Hn in Hm. injection Hm as <- <-. reflexivity.
Qed.

(** ------------------------------------------------------------------ *)
(** * a verified checker for "this configuration is never reached"      *)

(** decidable [side_eq] / [tape_eq] (lists up to trailing blanks) *)
Fixpoint side_eqb (a b : list colour) : bool :=
  match a, b with
  | [], _ => all_blankb b
  | _, [] => all_blankb a
  | x :: a', y :: b' => (x =? y) && side_eqb a' b'
  end.
Definition ztape_eqb (a b : ztape) : bool :=
  side_eqb (zl a) (zl b) && (zc a =? zc b) && side_eqb (zr a) (zr b).

Lemma side_eq_nil_blankb b : side_eq [] b -> all_blankb b = true.
Proof.
  induction b as [|y b IH]; intro H; [reflexivity|].
  unfold all_blankb. cbn [forallb]. apply andb_true_intro. split.
  - specialize (H O). unfold cell in H. cbn [nth] in H. apply N.eqb_eq. exact H.
  - apply IH. intro i. specialize (H (S i)). rewrite cell_nil in *. exact H.
Qed.

(** the direction the refutations need: a [false] answer excludes [side_eq] *)
Lemma side_eqb_complete a : forall b, side_eq a b -> side_eqb a b = true.
Proof.
  induction a as [|x a IH]; intros b H.
  - cbn [side_eqb]. apply side_eq_nil_blankb. exact H.
  - destruct b as [|y b].
    + cbn [side_eqb]. apply side_eq_nil_blankb. apply side_eq_sym. exact H.
    + cbn [side_eqb]. apply andb_true_intro. split.
      * apply N.eqb_eq. exact (H O).
      * apply IH. intro i. exact (H (S i)).
Qed.

Lemma ztape_eqb_complete a b : tape_eq a b -> ztape_eqb a b = true.
Proof.
  intros (H1 & H2 & H3). unfold ztape_eqb.
  rewrite (side_eqb_complete _ _ H1), (side_eqb_complete _ _ H3), H2, N.eqb_refl. reflexivity.
Qed.

(** configuration number n of the run from [c0] is not (q, tgt) *)
Definition not_target_at (P : prog) (c0 : config) (q : state) (tgt : ztape) (n : nat) : bool :=
  match tm_steps P n c0 with
  | Some (q', z) => negb ((q' =? q) && ztape_eqb z tgt)
  | None => true
  end.

(** none of the configurations 0 .. N of the run from [c0] is (q, tgt) *)
Definition never_target_upto (P : prog) (c0 : config) (q : state) (tgt : ztape) (N : nat) : bool :=
  forallb (not_target_at P c0 q tgt) (seq 0 (S N)).

(** if the machine halts after N steps and the checker passes, the target
    is not reached after ANY number of steps (zero included) *)
Theorem never_target_sound P c0 q tgt N cN :
  tm_steps P N c0 = Some cN -> tm_step P cN = None ->
  never_target_upto P c0 q tgt N = true ->
  forall n z, tm_steps P n c0 = Some (q, z) -> ~ tape_eq z tgt.
Proof.
  intros HN Hh Hck n z Hn He.
  destruct (Nat.le_gt_cases n N) as [L|L].
  - unfold never_target_upto in Hck. rewrite forallb_forall in Hck.
    assert (Hin : In n (seq 0 (S N))) by (apply in_seq; lia).
    specialize (Hck n Hin). unfold not_target_at in Hck. rewrite Hn in Hck.
    rewrite N.eqb_refl, (ztape_eqb_complete _ _ He) in Hck. discriminate Hck.
  - rewrite (tm_steps_after_halt P N c0 cN HN Hh n L) in Hn. discriminate Hn.
Qed.

(** ------------------------------------------------------------------ *)
(** * the witness program                                               *)

(** rows = states A..W, 4 colours per row *)
Definition f14_prog : comp_prog :=
  [((0,0),(3,true,1)); ((1,0),(2,true,2)); ((2,0),(2,true,3)); ((3,0),(1,true,4));
   ((4,0),(1,true,5)); ((5,0),(1,true,6)); ((6,0),(1,true,7)); ((7,0),(1,true,8));
   ((8,0),(1,true,9)); ((9,0),(1,true,10)); ((10,0),(1,true,11)); ((11,0),(1,true,12));
   ((12,0),(1,false,13)); ((13,1),(1,false,13)); ((13,2),(2,true,14)); ((14,1),(2,true,15));
   ((15,1),(1,true,16)); ((16,1),(1,true,17)); ((17,0),(0,false,21)); ((17,1),(1,false,18));
   ((18,1),(1,false,19)); ((19,1),(1,false,20)); ((20,2),(2,true,14)); ((21,1),(1,false,22));
   ((22,1),(0,false,20))].

Module F14Text.
Import String Ascii.
Fixpoint codes (s : string) : list N :=
  match s with EmptyString => [] | String a s' => N_of_ascii a :: codes s' end.
Definition text : string :=
  "3RB ... ... ...  2RC ... ... ...  2RD ... ... ...  1RE ... ... ...  1RF ... ... ...  1RG ... ... ...  1RH ... ... ...  1RI ... ... ...  1RJ ... ... ...  1RK ... ... ...  1RL ... ... ...  1RM ... ... ...  1LN ... ... ...  ... 1LN 2RO ...  ... 2RP ... ...  ... 1RQ ... ...  ... 1RR ... ...  0LV 1LS ... ...  ... 1LT ... ...  ... 1LU ... ...  ... ... 2RO ...  ... 1LW ... ...  ... 0LU ... ..."%string.
End F14Text.

(** the program text as the code points Rust's [chars()] yields *)
Definition f14_text : str := F14Text.codes F14Text.text.

(** the literal is what the model of [from_str] parses the text to *)
Example f14_prog_text : from_str f14_text = Some f14_prog.
Proof. vm_compute. reflexivity. Qed.

(** the tapes of the bulk application: t0 = before, t4 = after, t1..t3 the
    intermediate tapes t0 + k.r *)
Definition f14_rule : rule := [((false, 0), Plus 1%Z); ((true, 0), Plus (-1)%Z)].
Definition f14_tk (a b : N) : tape := mkTape 1 [(2, a); (3, 1)] [(1, b)].
Definition f14_t0 : tape := f14_tk 6 5.
Definition f14_t1 : tape := f14_tk 7 4.
Definition f14_t2 : tape := f14_tk 8 3.
Definition f14_t3 : tape := f14_tk 9 2.
Definition f14_t4 : tape := f14_tk 10 1.
Definition f14_app : rule_app := mkApp 43 14 f14_t0 f14_rule 4 f14_t4.

(** ------------------------------------------------------------------ *)
(** * (2) what the model of run_prover answers                          *)

Lemma f14_model_trace :
  run_prover_trace f14_prog 400 = Ok (mkRes undfnd 53 46 13 4 [] (Some (16, 0)), [f14_app]).
Proof. vm_compute. reflexivity. Qed.

Lemma f14_model_run :
  run_prover f14_prog 400 = Ok (mkRes undfnd 53 46 13 4 [] (Some (16, 0))).
Proof. vm_compute. reflexivity. Qed.

Lemma f14_model_verdict :
  exists r, run_prover f14_prog 400 = Ok r /\
    r_result r = undfnd /\ r_last_slot r = Some (16, 0) /\ r_rulapp r = 4.
Proof. eexists. split; [exact f14_model_run|]. repeat split. Qed.

(** the bulk application is what [apply_rule] computes: 4 times *)
Lemma f14_apply_rule : apply_rule f14_t0 f14_rule = Ok (Some 4, f14_t4).
Proof. vm_compute. reflexivity. Qed.

(** ------------------------------------------------------------------ *)
(** * (3) what the real machine does from the blank tape                *)

Lemma f14_real_halt : halts_at (to_prog f14_prog) init_config 79 (14, 0).
Proof.
  unfold halts_at. eexists. eexists. split; [vm_compute; reflexivity|]. split; vm_compute; reflexivity.
Qed.

(** the tape it halts on: 12 marks (the model reports 13) *)
Lemma f14_real_halt_config :
  tm_steps (to_prog f14_prog) 79 init_config
  = Some (14, {| zl := [2;2;2;2;2;2;2;2;2;2;3]; zc := 0; zr := [1; 0] |}).
Proof. vm_compute. reflexivity. Qed.

Lemma f14_real_halt_only : forall n sl,
  halts_at (to_prog f14_prog) init_config n sl -> n = 79%nat /\ sl = (14, 0).
Proof. intros n sl H. exact (halts_at_unique _ _ _ _ _ _ H f14_real_halt). Qed.

Lemma f14_real_never_halts_at_reported_slot : forall n,
  ~ halts_at (to_prog f14_prog) init_config n (16, 0).
Proof. intros n H. destruct (f14_real_halt_only n _ H) as (_ & E). discriminate E. Qed.

(** ------------------------------------------------------------------ *)
(** * (4) the verdict is false                                          *)

(** the negation of the undfnd clause of [outcome_sound_given_rules] /
    [outcome_sound_given_real] for this run *)
Lemma f14_undfnd_clause_false : forall r apps,
  run_prover_trace f14_prog 400 = Ok (r, apps) ->
  r_result r = undfnd /\
  ~ (exists n q z, tm_steps (to_prog f14_prog) n init_config = Some (q, z) /\
       r_last_slot r = Some (q, zc z) /\
       halts_at (to_prog f14_prog) init_config n (q, zc z) /\ marks_of z = r_marks r).
Proof.
  intros r apps H. rewrite f14_model_trace in H. injection H as <- <-.
  split; [reflexivity|]. intros (n & q & z & _ & Hls & Hh & _).
  cbn [r_last_slot] in Hls. injection Hls as Hq Hz. rewrite <- Hq, <- Hz in Hh.
  exact (f14_real_never_halts_at_reported_slot n Hh).
Qed.

Theorem verdict_refuted_F14 :
  exists comp lim r apps,
    run_prover_trace comp lim = Ok (r, apps) /\ r_result r = undfnd /\
    ~ (exists n q z, tm_steps (to_prog comp) n init_config = Some (q, z) /\
         r_last_slot r = Some (q, zc z) /\
         halts_at (to_prog comp) init_config n (q, zc z) /\ marks_of z = r_marks r).
Proof.
  eexists f14_prog, 400, _, _. split; [exact f14_model_trace|].
  exact (f14_undfnd_clause_false _ _ f14_model_trace).
Qed.

(** hence the undfnd clause of C02 does NOT hold without its hypothesis on
    the applications *)
Theorem outcome_unconditional_refuted_F14 :
  ~ (forall comp lim r apps,
       run_prover_trace comp lim = Ok (r, apps) -> r_result r = undfnd ->
       exists n q z, tm_steps (to_prog comp) n init_config = Some (q, z) /\
         r_last_slot r = Some (q, zc z) /\
         halts_at (to_prog comp) init_config n (q, zc z) /\ marks_of z = r_marks r).
Proof.
  intro H. destruct (f14_undfnd_clause_false _ _ f14_model_trace) as (Hu & Hn).
  exact (Hn (H _ _ _ _ f14_model_trace Hu)).
Qed.

(** the same in plain words: the run reports an undefined-instruction halt at
    a slot where the real machine never halts; the real machine halts elsewhere *)
Theorem verdict_slot_refuted_F14 :
  exists comp lim r sl n' sl',
    run_prover comp lim = Ok r /\ r_result r = undfnd /\ r_last_slot r = Some sl /\
    (forall n, ~ halts_at (to_prog comp) init_config n sl) /\
    halts_at (to_prog comp) init_config n' sl' /\ sl' <> sl.
Proof.
  eexists f14_prog, 400, _, (16, 0), 79%nat, (14, 0).
  split; [exact f14_model_run|]. split; [reflexivity|]. split; [reflexivity|].
  split; [exact f14_real_never_halts_at_reported_slot|]. split; [exact f14_real_halt|discriminate].
Qed.

(** ------------------------------------------------------------------ *)
(** * (5) the recorded application is not a run of the machine          *)

(** from the tape before, the real machine halts after 28 steps ... *)
Lemma f14_before_halts :
  halts_at (to_prog f14_prog) (14, unroll_tape f14_t0) 28 (14, 0).
Proof.
  unfold halts_at. eexists. eexists. split; [vm_compute; reflexivity|]. split; vm_compute; reflexivity.
Qed.

(** ... and none of its 29 configurations is (14, tape after) *)
Theorem f14_app_not_real : forall n z,
  tm_steps (to_prog f14_prog) n (14, unroll_tape f14_t0) = Some (14, z) ->
  ~ tape_eq z (unroll_tape f14_t4).
Proof.
  destruct (tm_steps (to_prog f14_prog) 28 (14, unroll_tape f14_t0)) as [cN|] eqn:E;
    [|vm_compute in E; discriminate E].
  apply (never_target_sound _ _ 14 _ 28%nat cN E).
  - vm_compute in E. injection E as <-. vm_compute. reflexivity.
  - vm_compute. reflexivity.
Qed.

Lemma f14_app_not_app_real : ~ app_real (to_prog f14_prog) f14_app.
Proof. intros (n & z & H & He). exact (f14_app_not_real n z H He). Qed.

(** the negation of the conclusion of [trace_replayed_real] (the weakest of
    the C03 conclusions: no lower bound on the number of steps), hence of the
    conclusion of [trace_valid_apps_real] *)
Theorem application_refuted_F14 :
  exists comp lim r apps a,
    run_prover_trace comp lim = Ok (r, apps) /\ In a apps /\
    app_state a = 14 /\ app_before a = f14_t0 /\ app_rule a = f14_rule /\
    app_times a = 4 /\ app_after a = f14_t4 /\
    apply_rule (app_before a) (app_rule a) = Ok (Some (app_times a), app_after a) /\
    ~ (exists n z, tm_steps (to_prog comp) n (app_state a, unroll_tape (app_before a)) = Some (app_state a, z) /\
                   tape_eq z (unroll_tape (app_after a))).
Proof.
  eexists f14_prog, 400, _, _, f14_app. split; [exact f14_model_trace|].
  split; [left; reflexivity|]. do 5 (split; [reflexivity|]).
  split; [exact f14_apply_rule|]. exact f14_app_not_app_real.
Qed.

(** consequently the hypotheses of the conditional C02/C03 theorems fail for
    this run *)
Theorem f14_apps_not_real : forall r apps,
  run_prover_trace f14_prog 400 = Ok (r, apps) ->
  ~ apps_real (to_prog f14_prog) apps /\ ~ apps_valid (to_prog f14_prog) apps.
Proof.
  intros r apps H.
  assert (Hn : ~ apps_real (to_prog f14_prog) apps).
  { intro HR. pose proof H as H'. rewrite f14_model_trace in H'. injection H' as <- <-.
    apply f14_app_not_app_real. apply HR. left. reflexivity. }
  split; [exact Hn|]. intro HV. exact (Hn (trace_valid_real f14_prog _ _ _ H HV)).
Qed.

(** ------------------------------------------------------------------ *)
(** * which single application fails                                    *)

Lemma f14_canon_tk a b : 1 <= a -> 1 <= b -> canon_tape (f14_tk a b).
Proof.
  intros Ha Hb. unfold canon_tape, canon, counts_pos, last_nonzero, f14_tk. cbn.
  repeat split; try discriminate; repeat constructor; cbn; try lia.
Qed.

(** the first three single applications are runs of the real machine
    (replay checker, 7 compressed cycles each, + [replay_sound]) *)
Lemma f14_replay_first_three :
  replay3 f14_prog 14 f14_t0 14 f14_t1 100 = RpReached 7 /\
  replay3 f14_prog 14 f14_t1 14 f14_t2 100 = RpReached 7 /\
  replay3 f14_prog 14 f14_t2 14 f14_t3 100 = RpReached 7 /\
  replay3 f14_prog 14 f14_t0 14 f14_t3 100 = RpReached 21.
Proof. vm_compute. repeat split; reflexivity. Qed.

(** ... the fourth is not: the machine stops (halts) after 7 cycles without
    meeting the target; so does the bulk application as a whole, after 28 *)
Lemma f14_replay_fourth :
  replay3 f14_prog 14 f14_t3 14 f14_t4 100 = RpStopped 7 /\
  replay3 f14_prog 14 f14_t0 14 f14_t4 100 = RpStopped 28.
Proof. vm_compute. split; reflexivity. Qed.

Definition f14_single_real (t t' : tape) : Prop :=
  exists k z, (1 <= k)%nat /\
    tm_steps (to_prog f14_prog) k (14, unroll_tape t) = Some (14, z) /\ tape_eq z (unroll_tape t').

Theorem f14_first_three_real :
  f14_single_real f14_t0 f14_t1 /\ f14_single_real f14_t1 f14_t2 /\ f14_single_real f14_t2 f14_t3 /\
  f14_single_real f14_t0 f14_t3.
Proof.
  destruct f14_replay_first_three as (A & B & C & D).
  repeat split; unfold f14_single_real;
    (eapply replay_sound; [apply f14_canon_tk; lia|eapply replay3_reached; eassumption]).
Qed.

(** the fourth single application t3 -> t4 is an instance of the rule that
    passes the guard of rules.rs (decreasing block 2 > 1) ... *)
Lemma f14_fourth_shifted : Shifted f14_rule 1 f14_t3 f14_t4.
Proof.
  unfold Shifted. split; [repeat split|]. split; [split; reflexivity|]. split.
  - intros ix d [H|[H|[]]]; injection H as <- <-; eexists; (split; [vm_compute; reflexivity|]);
      (split; [vm_compute; reflexivity|vm_compute; discriminate]).
  - intros [[|] n] Hno; unfold get_count; cbn [fst snd f14_t3 f14_t4 f14_tk lspan rspan].
    + destruct (N.to_nat n) as [|m] eqn:E.
      * exfalso. apply (Hno (Plus (-1))). replace n with 0 by lia. right. left. reflexivity.
      * cbn [nth_error]. reflexivity.
    + destruct (N.to_nat n) as [|m] eqn:E.
      * exfalso. apply (Hno (Plus 1)). replace n with 0 by lia. left. reflexivity.
      * cbn [nth_error]. reflexivity.
Qed.

Lemma f14_fourth_guard : rule_guard f14_rule f14_t3.
Proof.
  intros ix d [H|[H|[]]] Hd; injection H as <- <-; [lia|].
  exists 2. split; [reflexivity|]. vm_compute. reflexivity.
Qed.

(** ... and is NOT a run of the machine: from t3 it halts after 7 steps *)
Lemma f14_t3_halts : halts_at (to_prog f14_prog) (14, unroll_tape f14_t3) 7 (14, 0).
Proof.
  unfold halts_at. eexists. eexists. split; [vm_compute; reflexivity|]. split; vm_compute; reflexivity.
Qed.

Theorem f14_fourth_not_real : forall n z,
  tm_steps (to_prog f14_prog) n (14, unroll_tape f14_t3) = Some (14, z) ->
  ~ tape_eq z (unroll_tape f14_t4).
Proof.
  destruct (tm_steps (to_prog f14_prog) 7 (14, unroll_tape f14_t3)) as [cN|] eqn:E;
    [|vm_compute in E; discriminate E].
  apply (never_target_sound _ _ 14 _ 7%nat cN E).
  - vm_compute in E. injection E as <-. vm_compute. reflexivity.
  - vm_compute. reflexivity.
Qed.

(** so the inferred rule is not valid on the family of the tape it was applied to *)
Theorem f14_rule_invalid : ~ RuleValid (to_prog f14_prog) 14 f14_rule f14_t0.
Proof.
  intro HV.
  destruct (HV f14_t3 f14_t4 (f14_canon_tk 9 2 ltac:(lia) ltac:(lia))
              ltac:(repeat split) ltac:(split; reflexivity) f14_fourth_shifted f14_fourth_guard)
    as (n & z & _ & Hrun & He).
  exact (f14_fourth_not_real n z Hrun He).
Qed.

Theorem first_three_applications_real_F14 :
  (exists k z, (1 <= k)%nat /\
     tm_steps (to_prog f14_prog) k (14, unroll_tape f14_t0) = Some (14, z) /\
     tape_eq z (unroll_tape f14_t3)) /\
  Shifted f14_rule 1 f14_t3 f14_t4 /\ rule_guard f14_rule f14_t3 /\ canon_tape f14_t3 /\
  (forall n z, tm_steps (to_prog f14_prog) n (14, unroll_tape f14_t3) = Some (14, z) ->
     ~ tape_eq z (unroll_tape f14_t4)) /\
  ~ RuleValid (to_prog f14_prog) 14 f14_rule f14_t0.
Proof.
  split; [exact (proj2 (proj2 (proj2 f14_first_three_real)))|].
  split; [exact f14_fourth_shifted|]. split; [exact f14_fourth_guard|].
  split; [apply f14_canon_tk; lia|]. split; [exact f14_fourth_not_real|exact f14_rule_invalid].
Qed.

Print Assumptions verdict_refuted_F14.
Print Assumptions verdict_slot_refuted_F14.
Print Assumptions outcome_unconditional_refuted_F14.
Print Assumptions application_refuted_F14.
Print Assumptions f14_apps_not_real.
Print Assumptions first_three_applications_real_F14.
