(** C05 layer 5, part B — shapes of window tapes ([wf]: exactly [cells]
    cells, at an edge one span is empty), head positions ([zpos]), and the
    relation [Rrel lo c x] between a REAL configuration [c] of the machine and
    an abstract configuration [x] = (state, window tape) for the window placed
    on the absolute cells [lo+1 .. lo+cells]: same state, same window content,
    head at the same place when it is inside the window, on the same side when
    it is outside.

    One-step lemmas: a macro step inside the window ([Rrel_inner]), a step of
    the real machine outside the window ([Rrel_edge]: the abstract successor
    is the same edge tape in the new state, or the [step_in] tape). *)
From BB Require Import Base TM TMabs MacroSpec InstrsModel SegmentModel Loops TranslatedCycle AbsEquiv MacroSim SegmentTape SegmentSound.
Open Scope N_scope.

(** ---- lengths through pull / push / take ---- *)
Lemma sg_span_pull_len s scan skip s' o st :
  span_ok s -> sg_span_pull s scan skip = (s', o, st) ->
  zlen s = (Z.of_N st - 1 + (if o then 1 else 0) + zlen s')%Z /\ (o = None -> s' = []).
Proof.
  intros Hok Hp. unfold sg_span_pull in Hp.
  assert (G : forall s1 st1, span_ok s1 ->
    (if sg_span_is_empty s1 then (s1, None, st1)
     else match s1 with
          | (c, n) :: s2 => if 1 <? n then ((c, n - 1) :: s2, Some c, st1) else (s2, Some c, st1)
          | [] => (s1, None, st1)
          end) = (s', o, st) ->
    st = st1 /\ zlen s1 = ((if o then 1 else 0) + zlen s')%Z /\ (o = None -> s' = [])).
  { intros s1 st1 Ok1 E. rewrite (span_ok_empty s1 Ok1) in E. destruct s1 as [|[c n] s2].
    - injection E as <- <- <-. split; [reflexivity|]. split; [rewrite zlen_nil; lia|reflexivity].
    - destruct (span_ok_inv _ _ _ Ok1) as [Hn Ok2].
      destruct (N.ltb_spec 1 n); injection E as <- <- <-;
        (split; [reflexivity|]; split; [rewrite !zlen_cons; lia|discriminate]). }
  destruct s as [|[c n] s0].
  - destruct (G [] 1 Hok Hp) as (-> & H1 & H2). split; [lia|exact H2].
  - destruct (span_ok_inv _ _ _ Hok) as [Hn Ok0].
    destruct (skip && negb (sg_span_is_empty ((c, n) :: s0)) && (c =? scan)).
    + destruct (G s0 (1 + n) Ok0 Hp) as (-> & H1 & H2). split; [rewrite zlen_cons; lia|exact H2].
    + destruct (G ((c, n) :: s0) 1 Hok Hp) as (-> & H1 & H2). split; [lia|exact H2].
Qed.

Lemma sg_span_push_len s pr st : zlen (sg_span_push s pr st) = (zlen s + Z.of_N st)%Z.
Proof.
  unfold sg_span_push, sg_span_push_block. destruct s as [|[c n] s0].
  - rewrite zlen_cons, zlen_nil. lia.
  - destruct (c =? pr); rewrite !zlen_cons; lia.
Qed.

(** ---- well-formed window tapes ---- *)
Definition has_scan (t : sg_tape) : Z := match sgt_scan t with Some _ => 1%Z | None => 0%Z end.
Definition tlen (t : sg_tape) : Z := (zlen (sgt_lspan t) + zlen (sgt_rspan t) + has_scan t)%Z.
Definition wf (cells : Z) (t : sg_tape) : Prop :=
  tape_ok t /\ tlen t = cells /\
  (sgt_scan t = None -> sgt_lspan t = [] \/ sgt_rspan t = []).
Definition zpos (t : sg_tape) : Z := Z.of_N (sg_tape_pos t).

Lemma span_ok_zlen_pos c n s : span_ok ((c, n) :: s) -> (1 <= zlen ((c, n) :: s))%Z.
Proof.
  intro H. destruct (span_ok_inv _ _ _ H) as [Hn _]. rewrite zlen_cons.
  pose proof (zlen_nonneg s). lia.
Qed.

Lemma zpos_cases cells t : wf cells t -> (1 <= cells)%Z ->
  (exists c, sgt_scan t = Some c /\ zpos t = (zlen (sgt_lspan t) + 1)%Z /\ (1 <= zpos t <= cells)%Z) \/
  (sgt_scan t = None /\ sgt_lspan t = [] /\ zpos t = 0%Z /\ zlen (sgt_rspan t) = cells) \/
  (sgt_scan t = None /\ sgt_rspan t = [] /\ zpos t = (cells + 1)%Z /\ zlen (sgt_lspan t) = cells).
Proof.
  intros ((Hl & Hr) & Hlen & Hedge) Hc. unfold zpos, sg_tape_pos, tlen, has_scan in *.
  pose proof (zlen_nonneg (sgt_lspan t)) as Zl. pose proof (zlen_nonneg (sgt_rspan t)) as Zr.
  unfold zlen in *.
  destruct (sgt_scan t) as [c|] eqn:Es.
  - left. exists c. split; [reflexivity|]. cbn [orb]. split; lia.
  - right. destruct (Hedge eq_refl) as [E|E].
    + left. rewrite E in *. rewrite sg_span_len_nil in *. cbn [orb].
      change (0 <? 0) with false. cbn iota. repeat split; lia.
    + right. rewrite E in *. rewrite sg_span_len_nil in *. cbn [orb].
      destruct (N.ltb_spec 0 (sg_span_len (sgt_lspan t))); repeat split; lia.
Qed.

Lemma sg_tape_step_wf cells t sh pr skip t' :
  wf cells t -> sg_tape_step t sh pr skip = Ok t' -> wf cells t'.
Proof.
  intros (Hok & Hlen & _) Hs. pose proof (sg_tape_step_ok _ _ _ _ _ Hok Hs) as Hok'.
  split; [exact Hok'|]. destruct Hok as [Hl Hr].
  unfold sg_tape_step in Hs. unfold tlen, has_scan in *.
  destruct (sgt_scan t) as [c|]; [|discriminate]. destruct sh.
  - destruct (sg_span_pull (sgt_rspan t) c skip) as [[s' o] st] eqn:E. injection Hs as <-.
    cbn [sgt_scan sgt_lspan sgt_rspan].
    destruct (sg_span_pull_len _ _ _ _ _ _ Hr E) as [H1 H2]. rewrite sg_span_push_len.
    split; [destruct o; lia|]. intro Eo. right. apply H2, Eo.
  - destruct (sg_span_pull (sgt_lspan t) c skip) as [[s' o] st] eqn:E. injection Hs as <-.
    cbn [sgt_scan sgt_lspan sgt_rspan].
    destruct (sg_span_pull_len _ _ _ _ _ _ Hl E) as [H1 H2]. rewrite sg_span_push_len.
    split; [destruct o; lia|]. intro Eo. left. apply H2, Eo.
Qed.

Lemma sg_tape_side_edge t : sgt_scan t = None -> sg_tape_side t = Ok (sg_span_is_empty (sgt_rspan t)).
Proof. intro E. unfold sg_tape_side, sg_tape_assert_edge. rewrite E. reflexivity. Qed.

(** [step_in]: from an edge tape to the first cell inside *)
Lemma sg_tape_step_in_wf cells t sh t' : wf cells t -> (1 <= cells)%Z ->
  sg_tape_step_in t sh = Ok t' ->
  wf cells t' /\ sg_tape_side t = Ok (negb sh) /\
  sg_tape_blank t' = sg_tape_blank t /\
  exists c, sgt_scan t' = Some c /\
    if sh then sgt_lspan t = [] /\ sgt_lspan t' = [] /\
               (forall T x, span_at (sgt_rspan t) T x 1%Z -> T x = c /\ span_at (sgt_rspan t') T (x + 1)%Z 1%Z)
    else sgt_rspan t = [] /\ sgt_rspan t' = [] /\
         (forall T x, span_at (sgt_lspan t) T x (-1)%Z -> T x = c /\ span_at (sgt_lspan t') T (x + -1)%Z (-1)%Z).
Proof.
  intros Hwf Hc Hs. pose proof (zpos_cases cells t Hwf Hc) as Hcases.
  destruct Hwf as ((Hl & Hr) & Hlen & Hedge).
  unfold sg_tape_step_in in Hs.
  destruct (sg_tape_side t) as [|sd] eqn:Esd; [discriminate|]. cbn [obind] in Hs.
  assert (Escan : sgt_scan t = None).
  { unfold sg_tape_side, sg_tape_assert_edge in Esd. destruct (sgt_scan t); [discriminate|reflexivity]. }
  rewrite (sg_tape_side_edge t Escan) in Esd. injection Esd as Esd.
  destruct (Bool.eqb sd (negb sh)) eqn:Eb; [|discriminate]. cbn [negb] in Hs.
  apply Bool.eqb_prop in Eb. subst sd.
  destruct Hcases as [(c & E & _)|[(_ & EL & _ & ER)|(_ & ER & _ & EL)]]; [congruence| |].
  - (* left edge: rspan holds the cells *)
    assert (sh = true).
    { destruct sh; [reflexivity|]. cbn [negb] in Eb. rewrite (span_ok_empty _ Hr) in Eb.
      destruct (sgt_rspan t); [rewrite zlen_nil in ER; lia|discriminate]. }
    subst sh. destruct (sg_span_take (sgt_rspan t)) as [|[r' c]] eqn:Et; [discriminate|].
    cbn [obind] in Hs. injection Hs as <-.
    destruct (sg_span_take_ok _ _ _ Hr Et) as (Hok' & Hz & Hb & Hat).
    split; [|split; [|split]].
    + split; [split; assumption|]. unfold tlen, has_scan. cbn [sgt_scan sgt_lspan sgt_rspan].
      rewrite EL, zlen_nil. split; [lia|discriminate].
    + rewrite Eb. reflexivity.
    + unfold sg_tape_blank. cbn [sgt_scan sgt_lspan sgt_rspan]. rewrite Escan, EL.
      cbn [sg_span_blank forallb andb].
      destruct (sg_span_blank (sgt_rspan t)) eqn:Eb'.
      * destruct (Hb eq_refl) as [-> Hb']. rewrite Hb'. reflexivity.
      * destruct (c =? 0) eqn:Ec; [|reflexivity]. cbn [andb].
        (* the rest blank and c = 0 would make the whole span blank *)
        destruct (sg_span_blank r') eqn:Er; [|reflexivity]. exfalso.
        apply N.eqb_eq in Ec. subst c. unfold sg_span_take in Et.
        rewrite (span_ok_empty _ Hr) in Et. destruct (sgt_rspan t) as [|[c0 n] s0]; [discriminate|].
        unfold sg_span_blank in Eb', Er. cbn [forallb fst] in Eb'.
        destruct (n =? 1).
        -- injection Et as E1 E2. subst r' c0. rewrite N.eqb_refl, Er in Eb'. discriminate.
        -- destruct (n =? 0); [discriminate|]. injection Et as E1 E2. subst r' c0.
           cbn [forallb fst] in Er. rewrite Er in Eb'. discriminate.
    + exists c. split; [reflexivity|]. split; [exact EL|]. split; [exact EL|]. intros T x. apply Hat.
  - (* right edge *)
    assert (sh = false).
    { destruct sh; [|reflexivity]. cbn [negb] in Eb. rewrite ER in Eb. discriminate. }
    subst sh. destruct (sg_span_take (sgt_lspan t)) as [|[l' c]] eqn:Et; [discriminate|].
    cbn [obind] in Hs. injection Hs as <-.
    destruct (sg_span_take_ok _ _ _ Hl Et) as (Hok' & Hz & Hb & Hat).
    split; [|split; [|split]].
    + split; [split; assumption|]. unfold tlen, has_scan. cbn [sgt_scan sgt_lspan sgt_rspan].
      rewrite ER, zlen_nil. split; [lia|discriminate].
    + rewrite Eb. reflexivity.
    + unfold sg_tape_blank. cbn [sgt_scan sgt_lspan sgt_rspan]. rewrite Escan, ER.
      cbn [sg_span_blank forallb andb]. rewrite !andb_true_r.
      destruct (sg_span_blank (sgt_lspan t)) eqn:Eb'.
      * destruct (Hb eq_refl) as [-> Hb']. rewrite Hb'. reflexivity.
      * destruct (c =? 0) eqn:Ec; [|reflexivity]. cbn [andb].
        destruct (sg_span_blank l') eqn:Er; [|reflexivity]. exfalso.
        apply N.eqb_eq in Ec. subst c. unfold sg_span_take in Et.
        rewrite (span_ok_empty _ Hl) in Et. destruct (sgt_lspan t) as [|[c0 n] s0]; [discriminate|].
        unfold sg_span_blank in Eb', Er. cbn [forallb fst] in Eb'.
        destruct (n =? 1).
        -- injection Et as E1 E2. subst l' c0. rewrite N.eqb_refl, Er in Eb'. discriminate.
        -- destruct (n =? 0); [discriminate|]. injection Et as E1 E2. subst l' c0.
           cbn [forallb fst] in Er. rewrite Er in Eb'. discriminate.
    + exists c. split; [reflexivity|]. split; [exact ER|]. split; [exact ER|]. intros T x. apply Hat.
Qed.

Lemma sg_tape_init_wf seg pos t : sg_tape_init seg pos = Ok t ->
  wf (Z.of_N (seg - 2)) t /\ sg_tape_blank t = true /\ sg_tape_pos t = pos.
Proof.
  intro H. destruct (sg_tape_init_ok _ _ _ H) as [Hok Hb].
  unfold sg_tape_init in H.
  destruct (N.leb_spec 4 seg) as [H4|]; [|discriminate]. cbn [negb] in H.
  destruct (N.leb_spec pos seg) as [Hp|]; [|discriminate]. cbn [negb] in H.
  destruct (N.eqb_spec pos 0) as [->|P0].
  { injection H as <-. split; [|split; [exact Hb|reflexivity]].
    split; [exact Hok|]. unfold tlen, has_scan. cbn [sgt_scan sgt_lspan sgt_rspan].
    unfold zlen; cbn [sg_span_len fold_left snd]. split; [lia|]. intros _. left. reflexivity. }
  destruct (N.eqb_spec pos (seg - 1)) as [->|P1].
  { injection H as <-. split; [|split; [exact Hb|]].
    - split; [exact Hok|]. unfold tlen, has_scan. cbn [sgt_scan sgt_lspan sgt_rspan].
      unfold zlen; cbn [sg_span_len fold_left snd]. split; [lia|]. intros _. right. reflexivity.
    - unfold sg_tape_pos. cbn [sgt_scan sgt_lspan]. cbn [sg_span_len fold_left snd orb].
      destruct (N.ltb_spec 0 (0 + (seg - 2))); lia. }
  destruct (N.ltb_spec (seg - 2) pos) as [|Hle]; [discriminate|]. injection H as <-.
  split; [|split; [exact Hb|]].
  - split; [exact Hok|]. unfold tlen, has_scan. cbn [sgt_scan sgt_lspan sgt_rspan].
    split; [|discriminate].
    destruct (N.ltb_spec 0 (pos - 1)), (N.ltb_spec 0 (seg - 2 - pos));
      unfold zlen; cbn [sg_span_len fold_left snd]; lia.
  - unfold sg_tape_pos. cbn [sgt_scan sgt_lspan orb].
    destruct (N.ltb_spec 0 (pos - 1)) as [L0|L0]; cbn [sg_span_len fold_left snd];
      [destruct (N.ltb_spec 0 (0 + (pos - 1)))|]; lia.
Qed.

(** ---- blank tapes: the representation is "all cells of the window are 0" ---- *)
Lemma span_at_zero s : forall T x d, sg_span_blank s = true ->
  (forall i, (0 <= i < zlen s)%Z -> T (x + d * i)%Z = 0) -> span_at s T x d.
Proof.
  induction s as [|[c n] s IH]; intros T x d Hb H0; cbn [span_at]; [exact I|].
  unfold sg_span_blank in Hb. cbn [forallb fst] in Hb. apply andb_true_iff in Hb.
  destruct Hb as [Hc Hb]. apply N.eqb_eq in Hc. subst c. rewrite zlen_cons in H0.
  pose proof (zlen_nonneg s) as Zs. split.
  - intros i Hi. apply H0. lia.
  - apply IH; [exact Hb|]. intros i Hi.
    replace (x + d * Z.of_N n + d * i)%Z with (x + d * (Z.of_N n + i))%Z by lia. apply H0. lia.
Qed.

Lemma rep_blank_same cells t t' T h : (1 <= cells)%Z ->
  wf cells t -> wf cells t' -> sg_tape_blank t = true -> sg_tape_blank t' = true ->
  zpos t' = zpos t -> rep t T h -> rep t' T h /\ (sgt_scan t' = None <-> sgt_scan t = None).
Proof.
  intros Hc Hwf Hwf' Hb Hb' Hp Hrep.
  pose proof (rep_blank_window t T h Hb Hrep) as Hz.
  destruct (zpos_cases cells t Hwf Hc) as [(c & E & P1 & P2)|[(E & EL & P1 & P2)|(E & ER & P1 & P2)]];
  destruct (zpos_cases cells t' Hwf' Hc) as [(c' & E' & P1' & P2')|[(E' & EL' & P1' & P2')|(E' & ER' & P1' & P2')]];
    try lia.
  - (* both inside *)
    destruct Hwf as (_ & Hl & _), Hwf' as (_ & Hl' & _). unfold tlen, has_scan in Hl, Hl'.
    rewrite E in Hl. rewrite E' in Hl'.
    unfold sg_tape_blank in Hb'. apply andb_true_iff in Hb'. destruct Hb' as [Hb' B3].
    apply andb_true_iff in Hb'. destruct Hb' as [B1 B2]. rewrite E' in B1. apply N.eqb_eq in B1.
    unfold wl, wr in Hz. split; [|rewrite E, E'; split; discriminate].
    split; [|split].
    + intros c0 Ec0. rewrite E' in Ec0. injection Ec0 as <-. rewrite B1.
      apply Hz; [lia|]. right. rewrite E. discriminate.
    + apply span_at_zero; [exact B2|]. intros i Hi. apply Hz; [lia|]. left. lia.
    + apply span_at_zero; [exact B3|]. intros i Hi. apply Hz; [lia|]. left. lia.
  - (* both at the left edge *)
    unfold sg_tape_blank in Hb'. apply andb_true_iff in Hb'. destruct Hb' as [Hb' B3].
    unfold wl, wr in Hz. rewrite EL, zlen_nil in Hz.
    split; [|rewrite E, E'; tauto]. split; [|split].
    + intros c0 Ec0. congruence.
    + rewrite EL'. exact I.
    + apply span_at_zero; [exact B3|]. intros i Hi. apply Hz; [lia|]. left. lia.
  - (* both at the right edge *)
    unfold sg_tape_blank in Hb'. apply andb_true_iff in Hb'. destruct Hb' as [Hb' B3].
    apply andb_true_iff in Hb'. destruct Hb' as [B1 B2].
    unfold wl, wr in Hz. rewrite ER, zlen_nil in Hz.
    split; [|rewrite E, E'; tauto]. split; [|split].
    + intros c0 Ec0. congruence.
    + apply span_at_zero; [exact B2|]. intros i Hi. apply Hz; [lia|]. left. lia.
    + rewrite ER'. exact I.
Qed.

(** ---- the relation between real and abstract configurations ---- *)
Section Rel.
Variable prog : comp_prog.
Notation P := (to_prog prog).
Variable cells : Z.
Hypothesis Hcells : (1 <= cells)%Z.

Definition Rrel (lo : Z) (c : aconf) (x : state * sg_tape) : Prop :=
  fst x = a_q c /\ wf cells (snd x) /\
  rep (snd x) (a_t c) (lo + zpos (snd x))%Z /\
  match sgt_scan (snd x) with
  | Some _ => a_h c = (lo + zpos (snd x))%Z
  | None => if (zpos (snd x) =? 0)%Z then (a_h c <= lo)%Z else (lo + cells + 1 <= a_h c)%Z
  end.

Lemma mstep_wf x x' : wf cells (snd x) -> mstep prog x = Some x' -> wf cells (snd x').
Proof.
  unfold mstep. intros Hwf H. destruct (sgt_scan (snd x)) as [c|]; [|discriminate].
  destruct (cp_get prog (fst x, c)) as [[[pr sh] q']|]; [|discriminate].
  destruct (sg_tape_step (snd x) sh pr (q' =? fst x)) as [|t'] eqn:E; [discriminate|].
  injection H as <-. cbn [snd]. apply (sg_tape_step_wf _ _ _ _ _ _ Hwf E).
Qed.

Lemma miter_wf : forall m x y, wf cells (snd x) -> miter prog m x = Some y -> wf cells (snd y).
Proof.
  induction m as [|m IH]; intros x y Hwf H; cbn [miter] in H.
  - injection H as <-. exact Hwf.
  - destruct (mstep prog x) as [x1|] eqn:E; [|discriminate].
    apply (IH x1 y); [apply (mstep_wf x x1 Hwf E)|exact H].
Qed.

(** the scanned cell *)
Lemma Rrel_scan lo c x co : Rrel lo c x -> sgt_scan (snd x) = Some co -> a_t c (a_h c) = co.
Proof.
  intros (_ & _ & (Rs & _) & Hpos) E. rewrite E in Hpos. rewrite Hpos. apply Rs. exact E.
Qed.

(** a macro step inside the window *)
Lemma Rrel_inner lo c x x' : Rrel lo c x -> mstep prog x = Some x' ->
  exists k c', (1 <= k)%nat /\ a_steps P k c = Some c' /\ Rrel lo c' x' /\
    (forall j cj, (j < k)%nat -> a_steps P j c = Some cj ->
       a_q cj = a_q c /\ a_t cj (a_h cj) = a_t c (a_h c)).
Proof.
  destruct x as [q t], c as [cq ch cT]. intros (Eq & Hwf & Hrep & Hpos) Hm.
  pose proof (mstep_wf _ _ Hwf Hm) as Hwf'.
  cbn [fst snd a_q a_h a_t] in *. subst cq. unfold mstep in Hm. cbn [fst snd] in Hm.
  destruct (sgt_scan t) as [co|] eqn:Hscan; [|discriminate]. subst ch.
  destruct (cp_get prog (q, co)) as [[[pr sh] q']|] eqn:HP; [|discriminate].
  destruct (sg_tape_step t sh pr (q' =? q)) as [|t'] eqn:Hs; [discriminate|].
  injection Hm as <-. cbn [snd] in Hwf'.
  destruct Hwf as (Hok & Hlen & Hedge).
  destruct (sg_tape_step_sim P q co pr sh q' t t' cT (lo + zpos t)%Z HP Hscan Hok Hrep Hs)
    as (k & T' & h' & Hk & R & _ & Hrep' & Wi & _ & Hmatch).
  exists k, (mkA q' h' T'). split; [exact Hk|]. split; [exact R|].
  apply and_comm. split.
  { intros j cj Hj Hcj. destruct (Wi j cj Hj Hcj) as (_ & Hq1 & Hc1). cbn [a_q a_h a_t].
    split; [exact Hq1|]. rewrite Hc1. symmetry. destruct Hrep as (Rs & _). apply Rs. exact Hscan. }
  destruct (zpos_cases cells t (conj Hok (conj Hlen Hedge)) Hcells)
    as [(c0 & E0 & P1 & P2)|[(E0 & _)|(E0 & _)]]; try congruence.
  assert (Hwl : wl t (lo + zpos t) = (lo + 1)%Z) by (unfold wl; lia).
  assert (Hwr : wr t (lo + zpos t) = (lo + cells)%Z).
  { unfold wr. unfold tlen, has_scan in Hlen. rewrite Hscan in Hlen. lia. }
  rewrite Hwl, Hwr in Hmatch.
  split; [reflexivity|]. split; [exact Hwf'|]. cbn [fst snd a_q a_h a_t].
  destruct (zpos_cases cells t' Hwf' Hcells)
    as [(c1 & E1 & Q1 & Q2)|[(E1 & EL & Q1 & Q2)|(E1 & ER & Q1 & Q2)]]; rewrite E1 in Hmatch |- *.
  - destruct Hmatch as [M1 M2]. unfold wl in M1.
    assert (h' = lo + zpos t')%Z by lia. subst h'. split; [exact Hrep'|reflexivity].
  - destruct sh.
    + destruct Hmatch as (_ & Er & _). rewrite Er, zlen_nil in Q2. lia.
    + destruct Hmatch as (Eh & _ & _). rewrite Q1.
      replace (lo + 0)%Z with h' by lia. split; [exact Hrep'|]. cbn. lia.
  - destruct sh.
    + destruct Hmatch as (Eh & _ & _). rewrite Q1.
      replace (lo + (cells + 1))%Z with h' by lia. split; [exact Hrep'|].
      destruct (Z.eqb_spec (cells + 1) 0); lia.
    + destruct Hmatch as (_ & El & _). rewrite El, zlen_nil in Q2. lia.
Qed.

(** a step of the real machine while the head is outside the window *)
Lemma Rrel_edge lo c x c' : Rrel lo c x -> sgt_scan (snd x) = None ->
  a_step P c = Some c' ->
  exists pr sh,
    P (a_q c, a_t c (a_h c)) = Some (pr, sh, a_q c') /\
    (Rrel lo c' (a_q c', snd x) \/
     exists nt, sg_tape_side (snd x) = Ok (negb sh) /\
                sg_tape_step_in (snd x) sh = Ok nt /\ Rrel lo c' (a_q c', nt)).
Proof.
  destruct x as [q t], c as [cq ch cT]. intros (Eq & Hwf & Hrep & Hpos) Hscan Hs.
  cbn [fst snd a_q a_h a_t] in *. subst cq. rewrite Hscan in Hpos.
  unfold a_step in Hs. cbn [a_q a_h a_t] in Hs.
  destruct (P (q, cT ch)) as [[[pr sh] q']|] eqn:HP; [|discriminate]. injection Hs as <-.
  cbn [a_q a_h a_t]. exists pr, sh. split; [reflexivity|].
  destruct Hrep as (Rs & Rl & Rr).
  destruct (zpos_cases cells t Hwf Hcells)
    as [(c0 & E0 & _)|[(_ & EL & Q1 & Q2)|(_ & ER & Q1 & Q2)]]; [congruence| |].
  - (* left of the window *)
    rewrite Q1 in *. cbn in Hpos.
    assert (Hstay : ((if sh then ch + 1 else ch - 1) <= lo)%Z ->
                    Rrel lo (mkA q' (if sh then ch + 1 else ch - 1)%Z (a_write cT ch pr)) (q', t)).
    { intro Hle. split; [reflexivity|]. split; [exact Hwf|]. cbn [fst snd a_q a_h a_t].
      rewrite Hscan, Q1. split; [|cbn; exact Hle].
      split; [intros c1 E1; congruence|]. split; [rewrite EL; exact I|].
      apply (span_at_ext _ cT); [|exact Rr]. intros i Hi. unfold a_write.
      destruct (Z.eqb_spec (lo + 0 + 1 + 1 * i) ch); [lia|reflexivity]. }
    destruct sh; [|left; apply Hstay; lia].
    destruct (Z_lt_le_dec ch lo) as [L|G]; [left; apply Hstay; lia|].
    assert (ch = lo) by lia. subst ch. right.
    (* the head enters on the first cell *)
    destruct (sg_tape_step_in t true) as [|nt] eqn:Ein.
    { exfalso. unfold sg_tape_step_in in Ein. rewrite (sg_tape_side_edge t Hscan) in Ein.
      cbn [obind] in Ein. destruct Hwf as ((Hl & Hr) & _ & _).
      rewrite (span_ok_empty _ Hr) in Ein.
      destruct (sgt_rspan t) as [|[c1 n1] r1] eqn:Er; [rewrite zlen_nil in Q2; lia|].
      cbn [Bool.eqb negb] in Ein. unfold sg_span_take in Ein.
      rewrite (span_ok_empty _ Hr) in Ein. destruct (span_ok_inv _ _ _ Hr) as [Hn1 _].
      destruct (N.eqb_spec n1 1); [discriminate|].
      destruct (N.eqb_spec n1 0); [lia|discriminate]. }
    destruct (sg_tape_step_in_wf cells t true nt Hwf Hcells Ein)
      as (Hwf' & Hside & _ & c1 & Es1 & _ & EL' & Hat).
    exists nt. split; [exact Hside|]. split; [reflexivity|].
    destruct (zpos_cases cells nt Hwf' Hcells)
      as [(c2 & E2 & P1 & P2)|[(E2 & _)|(E2 & _)]]; try congruence.
    rewrite EL', zlen_nil in P1. change (0 + 1)%Z with 1%Z in P1.
    split; [reflexivity|]. split; [exact Hwf'|]. cbn [fst snd a_q a_h a_t].
    rewrite E2, P1. split; [|lia].
    destruct (Hat cT (lo + 0 + 1)%Z Rr) as [Hc1 Hrest].
    split; [|split].
    + intros c3 E3. rewrite Es1 in E3. injection E3 as <-. unfold a_write.
      destruct (Z.eqb_spec (lo + 1) lo); [lia|]. rewrite <- Hc1. f_equal. lia.
    + rewrite EL'. exact I.
    + apply (span_at_ext _ cT).
      * intros i Hi. unfold a_write. destruct (Z.eqb_spec (lo + 1 + 1 + 1 * i) lo); [lia|reflexivity].
      * apply (span_at_start _ cT (lo + 0 + 1 + 1)%Z); [lia|exact Hrest].
  - (* right of the window *)
    rewrite Q1 in *. destruct (Z.eqb_spec (cells + 1) 0) as [|_]; [lia|].
    assert (Hstay : (lo + cells + 1 <= (if sh then ch + 1 else ch - 1))%Z ->
                    Rrel lo (mkA q' (if sh then ch + 1 else ch - 1)%Z (a_write cT ch pr)) (q', t)).
    { intro Hle. split; [reflexivity|]. split; [exact Hwf|]. cbn [fst snd a_q a_h a_t].
      rewrite Hscan, Q1. destruct (Z.eqb_spec (cells + 1) 0) as [|_]; [lia|]. split; [|exact Hle].
      split; [intros c1 E1; congruence|]. split; [|rewrite ER; exact I].
      apply (span_at_ext _ cT); [|exact Rl]. intros i Hi. unfold a_write.
      destruct (Z.eqb_spec (lo + (cells + 1) - 1 + -1 * i) ch); [lia|reflexivity]. }
    destruct sh; [left; apply Hstay; lia|].
    destruct (Z_lt_le_dec (lo + cells + 1) ch) as [L|G]; [left; apply Hstay; lia|].
    assert (ch = lo + cells + 1)%Z by lia. subst ch. right.
    destruct (sg_tape_step_in t false) as [|nt] eqn:Ein.
    { exfalso. unfold sg_tape_step_in in Ein. rewrite (sg_tape_side_edge t Hscan) in Ein.
      cbn [obind] in Ein. destruct Hwf as ((Hl & Hr) & _ & _). rewrite ER in Ein.
      cbn [Bool.eqb negb] in Ein. change (sg_span_is_empty []) with true in Ein. cbn [Bool.eqb negb] in Ein.
      destruct (sgt_lspan t) as [|[c1 n1] l1] eqn:El; [rewrite zlen_nil in Q2; lia|].
      unfold sg_span_take in Ein.
      rewrite (span_ok_empty _ Hl) in Ein. destruct (span_ok_inv _ _ _ Hl) as [Hn1 _].
      destruct (N.eqb_spec n1 1); [discriminate|].
      destruct (N.eqb_spec n1 0); [lia|discriminate]. }
    destruct (sg_tape_step_in_wf cells t false nt Hwf Hcells Ein)
      as (Hwf' & Hside & _ & c1 & Es1 & _ & ER' & Hat).
    exists nt. split; [exact Hside|]. split; [reflexivity|].
    destruct (zpos_cases cells nt Hwf' Hcells)
      as [(c2 & E2 & P1 & P2)|[(E2 & _)|(E2 & _)]]; try congruence.
    assert (Hzl : zlen (sgt_lspan nt) = (cells - 1)%Z).
    { destruct Hwf' as (_ & Hl' & _). unfold tlen, has_scan in Hl'. rewrite E2, ER', zlen_nil in Hl'. lia. }
    split; [reflexivity|]. split; [exact Hwf'|]. cbn [fst snd a_q a_h a_t].
    rewrite E2, P1, Hzl. split; [|lia].
    destruct (Hat cT (lo + (cells + 1) - 1)%Z Rl) as [Hc1 Hrest].
    split; [|split].
    + intros c3 E3. rewrite Es1 in E3. injection E3 as <-. unfold a_write.
      destruct (Z.eqb_spec (lo + (cells - 1 + 1)) (lo + cells + 1)); [lia|]. rewrite <- Hc1. f_equal. lia.
    + apply (span_at_ext _ cT).
      * intros i Hi. unfold a_write.
        destruct (Z.eqb_spec (lo + (cells - 1 + 1) - 1 + -1 * i) (lo + cells + 1)); [lia|reflexivity].
      * apply (span_at_start _ cT (lo + (cells + 1) - 1 + -1)%Z); [lia|exact Hrest].
    + rewrite ER'. exact I.
Qed.

(** blank windows with the head at the same place are interchangeable *)
Lemma Rrel_blank_same lo c q t t' : Rrel lo c (q, t) ->
  wf cells t' -> sg_tape_blank t = true -> sg_tape_blank t' = true ->
  sg_tape_pos t' = sg_tape_pos t -> Rrel lo c (q, t').
Proof.
  intros (Eq & Hwf & Hrep & Hpos) Hwf' Hb Hb' Hp. cbn [fst snd] in *.
  assert (Hz : zpos t' = zpos t) by (unfold zpos; rewrite Hp; reflexivity).
  destruct (rep_blank_same cells t t' _ _ Hcells Hwf Hwf' Hb Hb' Hz Hrep) as [Hrep' Hsc].
  split; [exact Eq|]. split; [exact Hwf'|]. cbn [fst snd]. rewrite Hz. split; [exact Hrep'|].
  destruct (sgt_scan t) as [c0|] eqn:E, (sgt_scan t') as [c1|] eqn:E'; try exact Hpos.
  - exfalso. destruct Hsc as [H _]. discriminate (H eq_refl).
  - exfalso. destruct Hsc as [_ H]. discriminate (H eq_refl).
Qed.

End Rel.

Print Assumptions Rrel_inner.
Print Assumptions Rrel_edge.
