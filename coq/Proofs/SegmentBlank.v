(** C05 — goal Blank: the finite-segment analysis can NEVER answer
    [Refuted] for the blank goal.

    Why.  [Configs::next] serves the [seg] initial configurations first
    (positions 0, 1, ... in increasing order: [next_init] takes the smallest
    position missing from blanks[0]) and only then pops the todo stack.  As
    long as position seg-1 is missing from blanks[0] only initial
    configurations are processed, and none of them can put seg-1 into
    blanks[0] (a run from an initial configuration marks blanks[st] only for
    st <> 0; the re-entry tapes created at the left edge stand at position 1 or
    0).  So seg-1 is inserted by [next_init] itself; that initial
    configuration is the blank right-edge configuration, for which
    [check_reached_blank] finds blanks[0] = {0..seg-1}: the search answers
    [Reached], never [None].  Hence [segment_cant_reach(.., Blank)] ends with
    SegmentLimit, DepthLimit or a positive verdict, never with Refuted. *)
From BB Require Import Base TM TMabs MacroSpec InstrsModel SegmentModel Loops TranslatedCycle AbsEquiv MacroSim.
From BB Require Import SegmentTape SegmentSound SegmentVerdicts SegmentAprog SegmentShape SegmentRefute SegmentRefuteHalt.
Open Scope N_scope.

(** ---- dictionaries as lists of entries ---- *)
Lemma sg_dict_set_entries {V} k (v : V) d k' v' :
  In (k', v') (sg_dict_set k v d) -> (k', v') = (k, v) \/ In (k', v') d.
Proof.
  induction d as [|[k0 v0] d IH]; cbn [sg_dict_set In].
  - intros [H|[]]. left. symmetry. exact H.
  - destruct (k <? k0).
    + cbn [In]. intros [H|H]; [left; symmetry; exact H|right; exact H].
    + destruct (k =? k0).
      * cbn [In]. intros [H|H]; [left; symmetry; exact H|right; right; exact H].
      * cbn [In]. intros [H|H]; [right; left; exact H|].
        destruct (IH H) as [E|E]; [left; exact E|right; right; exact E].
Qed.

Lemma sg_dict_get_In {V} k (v : V) d : sg_dict_get k d = Some v -> In (k, v) d.
Proof.
  induction d as [|[k0 v0] d IH]; cbn [sg_dict_get]; [discriminate|].
  destruct (N.eqb_spec k0 k) as [->|Ne].
  - intro H. injection H as <-. left. reflexivity.
  - intro H. right. apply IH, H.
Qed.

(** a tape that was pushed onto with a non-blank colour is not blank *)
Lemma sg_span_push_blank s pr st : sg_span_blank (sg_span_push s pr st) = true -> pr = 0.
Proof.
  unfold sg_span_push, sg_span_push_block, sg_span_blank. destruct s as [|[c n] s0].
  - cbn [forallb fst]. intro H. apply andb_true_iff in H. destruct H as [H _]. apply N.eqb_eq, H.
  - destruct (N.eqb_spec c pr) as [->|Ne]; cbn [forallb fst]; intro H;
      apply andb_true_iff in H; destruct H as [H _]; apply N.eqb_eq, H.
Qed.

Lemma sg_tape_step_blank t sh pr skip t' :
  sg_tape_step t sh pr skip = Ok t' -> sg_tape_blank t' = true -> pr = 0.
Proof.
  unfold sg_tape_step. destruct (sgt_scan t) as [c|]; [|discriminate]. destruct sh.
  - destruct (sg_span_pull (sgt_rspan t) c skip) as [[s' o] st]. intro H. injection H as <-.
    unfold sg_tape_blank. cbn [sgt_scan sgt_lspan sgt_rspan]. intro Hb.
    apply andb_true_iff in Hb. destruct Hb as [Hb _]. apply andb_true_iff in Hb. destruct Hb as [_ Hb].
    apply (sg_span_push_blank _ _ _ Hb).
  - destruct (sg_span_pull (sgt_lspan t) c skip) as [[s' o] st]. intro H. injection H as <-.
    unfold sg_tape_blank. cbn [sgt_scan sgt_lspan sgt_rspan]. intro Hb.
    apply andb_true_iff in Hb. destruct Hb as [_ Hb]. apply (sg_span_push_blank _ _ _ Hb).
Qed.

(** a duplicate-free list holding exactly 0 .. n-1 has n elements *)
Lemma sg_nset_exact n s : NoDup s -> (forall p, In p s <-> p < n) -> sg_len s = n.
Proof.
  intros Hnd Hiff. apply N.le_antisymm.
  - rewrite sg_len_length. set (l := map N.of_nat (seq 0 (N.to_nat n))).
    assert (Hincl : incl s l).
    { intros x Hx. apply Hiff in Hx. unfold l. apply in_map_iff. exists (N.to_nat x).
      split; [lia|]. apply in_seq. lia. }
    pose proof (NoDup_incl_length Hnd Hincl) as Hle. unfold l in Hle.
    rewrite map_length, seq_length in Hle. lia.
  - apply sg_nset_full; [exact Hnd|]. intros p Hp. apply Hiff, Hp.
Qed.

(** [find_free] *)
Lemma find_free_none fuel : forall lo s, sg_find_free fuel lo s = None ->
  forall p, lo <= p < lo + N.of_nat fuel -> In p s.
Proof.
  induction fuel as [|f IH]; intros lo s H p Hp; [lia|]. cbn [sg_find_free] in H.
  destruct (sg_nset_mem lo s) eqn:Em; [|discriminate]. apply sg_nset_mem_In in Em.
  destruct (N.eq_dec p lo) as [->|Ne]; [exact Em|]. apply (IH (lo + 1) s H). lia.
Qed.

Lemma find_free_some fuel : forall lo s pos, sg_find_free fuel lo s = Some pos ->
  lo <= pos < lo + N.of_nat fuel /\ forall p, lo <= p < pos -> In p s.
Proof.
  induction fuel as [|f IH]; intros lo s pos H; cbn [sg_find_free] in H; [discriminate|].
  destruct (sg_nset_mem lo s) eqn:Em.
  - apply sg_nset_mem_In in Em. destruct (IH _ _ _ H) as [H1 H2]. split; [lia|].
    intros p Hp. destruct (N.eq_dec p lo) as [->|Ne]; [exact Em|]. apply H2. lia.
  - injection H as <-. split; [lia|]. intros p Hp. lia.
Qed.

(** the union computed by [check_reached_blank] *)
Definition blanks_union (B : sg_dict sg_nset) : sg_nset :=
  fold_left (fun acc kv => fold_left (fun a p => sg_nset_insert p a) (snd kv) acc) B [].

Lemma insert_all_spec l : forall acc, NoDup acc ->
  NoDup (fold_left (fun a p => sg_nset_insert p a) l acc) /\
  forall x, In x (fold_left (fun a p => sg_nset_insert p a) l acc) <-> In x acc \/ In x l.
Proof.
  induction l as [|p l IH]; intros acc Hnd; cbn [fold_left].
  - split; [exact Hnd|]. intro x. split; [auto|intros [H|[]]; exact H].
  - destruct (IH (sg_nset_insert p acc) (sg_nset_insert_NoDup p acc Hnd)) as [H1 H2].
    split; [exact H1|]. intro x. rewrite H2, sg_nset_insert_In. cbn [In]. split.
    + intros [[->|H]|H]; auto.
    + intros [H|[->|H]]; auto.
Qed.

Lemma blanks_union_spec (B : sg_dict sg_nset) :
  NoDup (blanks_union B) /\
  forall x, In x (blanks_union B) <-> exists k ps, In (k, ps) B /\ In x ps.
Proof.
  unfold blanks_union.
  assert (G : forall acc, NoDup acc ->
    NoDup (fold_left (fun acc kv => fold_left (fun a p => sg_nset_insert p a) (snd kv) acc) B acc) /\
    forall x, In x (fold_left (fun acc (kv : N * sg_nset) => fold_left (fun a p => sg_nset_insert p a) (snd kv) acc) B acc)
              <-> In x acc \/ exists k ps, In (k, ps) B /\ In x ps).
  { induction B as [|[k ps] B IH]; intros acc Hnd; cbn [fold_left snd].
    - split; [exact Hnd|]. intro x. split; [auto|]. intros [H|(k & ps & [] & _)]. exact H.
    - destruct (insert_all_spec ps acc Hnd) as [N1 N2].
      destruct (IH _ N1) as [H1 H2]. split; [exact H1|]. intro x. rewrite H2, N2. split.
      + intros [[H|H]|(k' & ps' & Hin & Hx)]; [left; exact H| |].
        * right. exists k, ps. split; [left; reflexivity|exact H].
        * right. exists k', ps'. split; [right; exact Hin|exact Hx].
      + intros [H|(k' & ps' & [E|Hin] & Hx)]; [left; left; exact H| |].
        * injection E as <- <-. left. right. exact Hx.
        * right. exists k', ps'. split; assumption. }
  destruct (G [] (NoDup_nil _)) as [H1 H2]. split; [exact H1|].
  intro x. rewrite H2. split; [intros [[]|H]; exact H|intro H; right; exact H].
Qed.

Section BlankNever.
Variable prog : comp_prog.
Variable ap : sg_aprog.
Hypothesis Hap : sga_prog ap = prog.
Variable seg : N.
Hypothesis Hseg : 4 <= seg.
Let cells : Z := Z.of_N (seg - 2).

Lemma cellsB_pos : (1 <= cells)%Z.
Proof. unfold cells. lia. Qed.

Lemma wf_pos_lt t : wf cells t -> sg_tape_pos t < seg.
Proof.
  intro Hwf. destruct (zpos_cases cells t Hwf cellsB_pos) as [(c & _ & _ & P2)|[(_ & _ & P1 & _)|(_ & _ & P1 & _)]];
    unfold zpos, cells in *; lia.
Qed.

Lemma wf_pos_inside t c : wf cells t -> sgt_scan t = Some c -> sg_tape_pos t <> seg - 1.
Proof.
  intros Hwf Hs. destruct (zpos_cases cells t Hwf cellsB_pos) as [(c0 & _ & _ & P2)|[(E & _)|(E & _)]];
    try congruence. unfold zpos, cells in *. lia.
Qed.

(** ---- the invariant: all marked positions are < seg, and seg-1 is not yet
    marked for state 0 ---- *)
Definition blanks_lt (B : sg_dict sg_nset) : Prop :=
  forall k ps p, In (k, ps) B -> In p ps -> p < seg.
Definition no_last (B : sg_dict sg_nset) : Prop :=
  forall ps, sg_dict_get 0 B = Some ps -> ~ In (seg - 1) ps.
Definition KB (cs : sg_configs) : Prop :=
  sgs_seg cs = seg /\ blanks_lt (sgs_blanks cs) /\ no_last (sgs_blanks cs).

Lemma entry_lt B k p : blanks_lt B -> In p (sg_dict_entry k [] B) -> p < seg.
Proof.
  intros Hlt Hin. unfold sg_dict_entry in Hin.
  dentry Hin ps E.
  apply (Hlt k ps p (sg_dict_get_In _ _ _ E) Hin).
Qed.

Lemma blanks_lt_insert B k p : blanks_lt B -> p < seg ->
  blanks_lt (sg_dict_set k (sg_nset_insert p (sg_dict_entry k [] B)) B).
Proof.
  intros Hlt Hp k' ps' p' Hin Hp'. destruct (sg_dict_set_entries _ _ _ _ _ Hin) as [E|Hold].
  - injection E as -> ->. apply sg_nset_insert_In in Hp'. destruct Hp' as [->|Hp']; [exact Hp|].
    apply (entry_lt B k p' Hlt Hp').
  - apply (Hlt k' ps' p' Hold Hp').
Qed.

Lemma blanks_lt_reset B k : blanks_lt B -> blanks_lt (sg_dict_set k (sg_dict_entry k [] B) B).
Proof.
  intros Hlt k' ps' p' Hin Hp'. destruct (sg_dict_set_entries _ _ _ _ _ Hin) as [E|Hold].
  - injection E as -> ->. apply (entry_lt B k p' Hlt Hp').
  - apply (Hlt k' ps' p' Hold Hp').
Qed.

Lemma no_last_insert B k p : no_last B -> (k = 0 -> p <> seg - 1) ->
  no_last (sg_dict_set k (sg_nset_insert p (sg_dict_entry k [] B)) B).
Proof.
  intros Hnl Hp ps Hg Hin. destruct (N.eq_dec k 0) as [->|Ne].
  - rewrite sg_dict_get_set_same in Hg. injection Hg as <-.
    apply sg_nset_insert_In in Hin. destruct Hin as [E|Hin]; [apply (Hp eq_refl); symmetry; exact E|].
    unfold sg_dict_entry in Hin. dentry Hin ps0 E.
    apply (Hnl ps0 E Hin).
  - rewrite sg_dict_get_set_other in Hg by congruence. apply (Hnl ps Hg Hin).
Qed.

Lemma no_last_reset B k : no_last B -> no_last (sg_dict_set k (sg_dict_entry k [] B) B).
Proof.
  intros Hnl ps Hg Hin. destruct (N.eq_dec k 0) as [->|Ne].
  - rewrite sg_dict_get_set_same in Hg. injection Hg as <-.
    unfold sg_dict_entry in Hin. dentry Hin ps0 E.
    apply (Hnl ps0 E Hin).
  - rewrite sg_dict_get_set_other in Hg by congruence. apply (Hnl ps Hg Hin).
Qed.

(** ---- [check_seen] under the invariant ---- *)
Lemma check_seen_KB cs st t blank o cs' :
  KB cs -> wf cells t -> (blank = true -> st = 0 -> sg_tape_pos t <> seg - 1) ->
  sg_check_seen cs st t blank = (o, cs') -> KB cs'.
Proof.
  intros (K1 & K2 & K3) Hwf Hp H. unfold sg_check_seen in H. destruct blank.
  - destruct (sg_nset_mem _ _); injection H as _ <-; cbn [sgs_set_blanks KB sgs_seg sgs_blanks];
      (split; [exact K1|]; split).
    + apply blanks_lt_reset, K2.
    + apply no_last_reset, K3.
    + apply blanks_lt_insert; [exact K2|apply wf_pos_lt, Hwf].
    + apply no_last_insert; [exact K3|apply Hp; reflexivity].
  - destruct (sg_tapes_mem _ _); injection H as _ <-; (split; [exact K1|split; assumption]).
Qed.

Lemma branch_in_loop_KB t sh blank nt : sg_tape_step_in t sh = Ok nt -> wf cells nt ->
  (exists c, sgt_scan nt = Some c) ->
  forall sts cs cs', KB cs -> sg_branch_in_loop cs t sh blank sts = Ok cs' -> KB cs'.
Proof.
  intros Hin Hwf [c Hc]. induction sts as [|st sts IH]; intros cs cs' HK H; cbn [sg_branch_in_loop] in H.
  - injection H as <-. exact HK.
  - rewrite Hin in H. cbn [obind] in H.
    destruct (sg_check_seen cs st nt blank) as [o cs1] eqn:Ecs.
    assert (HK1 : KB cs1).
    { apply (check_seen_KB cs st nt blank o cs1 HK Hwf); [|exact Ecs].
      intros _ _. apply (wf_pos_inside nt c Hwf Hc). }
    destruct o as [init|]; apply (fun Hx => IH _ _ Hx H).
    + exact HK1.
    + exact HK1.
Qed.

Lemma branch_out_loop_KB t blank : wf cells t -> (blank = true -> sg_tape_pos t <> seg - 1) ->
  forall sts cs, KB cs -> KB (sg_branch_out_loop cs t blank sts).
Proof.
  intros Hwf Hp. induction sts as [|st sts IH]; intros cs HK; cbn [sg_branch_out_loop]; [exact HK|].
  destruct (sg_check_seen cs st t blank) as [o cs1] eqn:Ecs.
  assert (HK1 : KB cs1).
  { apply (check_seen_KB cs st t blank o cs1 HK Hwf); [|exact Ecs]. intros Hb _. apply Hp, Hb. }
  destruct o as [init|]; apply IH; exact HK1.
Qed.

Lemma branch_out_KB c diffs blank cs : wf cells (sgc_tape c) ->
  (blank = true -> sg_tape_pos (sgc_tape c) <> seg - 1) ->
  KB cs -> KB (sg_branch_out cs c diffs blank).
Proof.
  intros Hwf Hp HK. unfold sg_branch_out.
  destruct (sg_split_last diffs) as [[last_next front]|]; [|exact HK].
  pose proof (branch_out_loop_KB (sgc_tape c) blank Hwf Hp front cs HK) as HK1.
  destruct (sg_check_seen _ last_next (sgc_tape c) blank) as [o cs2] eqn:Ecs.
  assert (HK2 : KB cs2).
  { apply (check_seen_KB _ last_next (sgc_tape c) blank o cs2 HK1 Hwf); [|exact Ecs].
    intros Hb _. apply Hp, Hb. }
  destruct o as [init|]; exact HK2.
Qed.

(** ---- [check_reached_blank] ---- *)
Lemma check_reached_blank_KB cs c b cs' :
  KB cs -> wf cells (sgc_tape c) -> sgc_state c <> 0 ->
  sg_check_reached cs c SgBlank = (b, cs') -> KB cs'.
Proof.
  intros (K1 & K2 & K3) Hwf Hst H. unfold sg_check_reached in H. cbn [sg_term_eqb] in H.
  unfold sg_check_reached_blank in H.
  destruct (sg_dict_get (sgc_state c) (sgs_blanks cs)) as [ps|] eqn:Eg.
  2:{ injection H as _ <-. split; [exact K1|split; assumption]. }
  injection H as _ <-. cbn [sgs_set_blanks KB sgs_seg sgs_blanks]. split; [exact K1|]. split.
  - intros k' ps' p' Hin Hp'. cbn [sgs_set_blanks sgs_blanks] in Hin.
    destruct (sg_dict_set_entries _ _ _ _ _ Hin) as [E|Hold].
    + injection E as -> ->. apply sg_nset_insert_In in Hp'. destruct Hp' as [->|Hp'].
      * apply wf_pos_lt, Hwf.
      * apply (K2 _ ps p' (sg_dict_get_In _ _ _ Eg) Hp').
    + apply (K2 k' ps' p' Hold Hp').
  - intros ps0 Hg. cbn [sgs_set_blanks sgs_blanks] in Hg.
    rewrite sg_dict_get_set_other in Hg by (intro E0; apply Hst; symmetry; exact E0). apply K3, Hg.
Qed.

(** ---- [run_to_edge] from an initial configuration, goal Blank ---- *)
Definition rteB_post (r : sg_rte_ret) : Prop :=
  match r with
  | Panic => True
  | Ok (res, c', cs1) =>
      KB cs1 /\ wf cells (sgc_tape c') /\ sgc_init c' = true /\
      match res with
      | None => sg_tape_blank (sgc_tape c') = false
      | Some (SgFound SgBlank) => sgc_state c' <> 0
      | _ => True
      end
  end.

Definition rteB_inv (s : sg_rte_state) : Prop :=
  sgc_init (rte_self s) = true /\ wf cells (sgc_tape (rte_self s)) /\ KB (rte_configs s) /\
  (sgt_scan (sgc_tape (rte_self s)) = None -> sg_tape_blank (sgc_tape (rte_self s)) = false).

Lemma rteB_body_inv s : rteB_inv s ->
  match sg_rte_body prog SgBlank s with
  | inl s' => rteB_inv s'
  | inr r => rteB_post r
  end.
Proof.
  destruct s as [self copy step cs]. unfold rteB_inv. cbn [rte_self rte_copy rte_step rte_configs].
  intros (Hinit & Hwf & HK & Hnb). unfold sg_rte_body. cbn [rte_self rte_copy rte_step rte_configs].
  destruct (sg_config_slot self) as [sl|] eqn:Esl.
  2:{ cbn [rteB_post]. split; [exact HK|]. split; [exact Hwf|]. split; [exact Hinit|]. apply Hnb.
      unfold sg_config_slot in Esl. destruct (sgt_scan (sgc_tape self)); [discriminate|reflexivity]. }
  destruct (cp_get prog sl) as [i|] eqn:HP.
  2:{ cbn [rteB_post]. split; [exact HK|]. split; [exact Hwf|]. split; [exact Hinit|exact I]. }
  destruct i as [[print sh] st]. rewrite Hinit. cbn [orb andb].
  destruct (sg_config_spinout self (print, sh, st)).
  { cbn [rteB_post]. split; [exact HK|]. split; [exact Hwf|]. split; [exact Hinit|exact I]. }
  destruct (sg_config_step self (print, sh, st)) as [|self1] eqn:Estep; [exact I|].
  destruct (config_step_mstep prog self sl print sh st self1 Esl HP Estep) as (Hms & Hinit1 & Hst1).
  assert (Hwf1 : wf cells (sgc_tape self1)).
  { apply (mstep_wf prog cells (sg_x self) (sg_x self1) Hwf Hms). }
  rewrite Hinit in Hinit1.
  assert (Hpr : sg_tape_blank (sgc_tape self1) = true -> print = 0).
  { unfold sg_config_step in Estep.
    destruct (sg_tape_step (sgc_tape self) sh print (st =? sgc_state self)) as [|t1] eqn:Et; [discriminate|].
    cbn [obind] in Estep. injection Estep as <-. cbn [sgc_tape]. apply (sg_tape_step_blank _ _ _ _ _ Et). }
  unfold sg_rte_blank_check.
  destruct ((print =? 0) && sg_tape_blank (sgc_tape self1)) eqn:Eb.
  - rewrite Hinit1. destruct (N.eqb_spec st 0) as [E0|N0]; cbn [andb].
    + cbn [rteB_post]. split; [exact HK|]. split; [exact Hwf1|]. split; [exact Hinit1|exact I].
    + cbn [sg_term_eqb rteB_post]. destruct HK as (K1 & K2 & K3). split.
      * split; [exact K1|]. cbn [sgs_set_blanks sgs_blanks]. split.
        -- apply blanks_lt_insert; [exact K2|apply wf_pos_lt, Hwf1].
        -- apply no_last_insert; [exact K3|intro; contradiction].
      * split; [exact Hwf1|]. split; [exact Hinit1|]. rewrite Hst1. exact N0.
  - assert (Hnb1 : sg_tape_blank (sgc_tape self1) = false).
    { destruct (sg_tape_blank (sgc_tape self1)) eqn:E; [|reflexivity].
      rewrite (Hpr eq_refl) in Eb. cbn in Eb. discriminate. }
    unfold sg_rte_copy_step. destruct step; cbn [negb].
    2:{ unfold rteB_inv. cbn [rte_self rte_copy rte_step rte_configs].
        split; [exact Hinit1|]. split; [exact Hwf1|]. split; [exact HK|intros _; exact Hnb1]. }
    destruct (sg_config_slot copy) as [cslot|]; [|exact I].
    destruct (cp_get prog cslot) as [cinstr|]; [|exact I].
    destruct (sg_config_step copy cinstr) as [|copy']; [exact I|].
    destruct ((sgc_state copy' =? sgc_state self1) && sg_tape_eqb (sgc_tape copy') (sgc_tape self1)).
    + cbn [rteB_post]. split; [exact HK|]. split; [exact Hwf1|]. split; [exact Hinit1|exact I].
    + unfold rteB_inv. cbn [rte_self rte_copy rte_step rte_configs].
      split; [exact Hinit1|]. split; [exact Hwf1|]. split; [exact HK|intros _; exact Hnb1].
Qed.

(** ---- one iteration of the search loop, goal Blank ---- *)
Lemma asrB_body_inv cs : KB cs ->
  match sg_asr_body ap SgBlank cs with
  | inl cs' => KB cs'
  | inr r => r <> Ok None
  end.
Proof.
  intros (K1 & K2 & K3). unfold sg_asr_body, sg_configs_next, sg_next_init.
  destruct (sg_find_free (N.to_nat (sgs_seg cs)) 0 (sg_dict_entry 0 [] (sgs_blanks cs))) as [pos|] eqn:Ef.
  2:{ (* impossible: seg-1 is still free *)
      exfalso. unfold sg_dict_entry in Ef.
      match type of Ef with context [match ?g with Some _ => _ | None => _ end] =>
        destruct g as [ps|] eqn:Eg; try rewrite Eg in Ef end.
      - apply (K3 ps Eg). apply (find_free_none _ _ _ Ef). rewrite K1. lia.
      - rewrite K1 in Ef. destruct (N.to_nat seg) as [|f] eqn:En; [lia|].
        cbn [sg_find_free sg_nset_mem] in Ef. discriminate. }
  destruct (find_free_some _ _ _ _ Ef) as [Hpos Hbefore]. rewrite K1 in Hpos.
  unfold sg_config_init. rewrite K1.
  destruct (sg_tape_init seg pos) as [|t] eqn:Et; [cbn [obind]; discriminate|]. cbn [obind].
  destruct (sg_tape_init_wf _ _ _ Et) as (Hwf & Hb & Hp). fold cells in Hwf.
  change (sg_config_new 0 t true) with (mkSgConfig 0 t true).
  set (cs0 := sgs_set_blanks cs (sg_dict_set 0 (sg_nset_insert pos (sg_dict_entry 0 [] (sgs_blanks cs))) (sgs_blanks cs))).
  rewrite Hap.
  destruct (N.eq_dec pos (seg - 1)) as [Elast|Nlast].
  - (* the last initial configuration: the search answers Reached *)
    assert (Escan : sgt_scan t = None).
    { unfold sg_tape_init in Et. destruct (negb (4 <=? seg)); [discriminate|].
      destruct (negb (pos <=? seg)); [discriminate|].
      destruct (N.eqb_spec pos 0); [lia|]. destruct (N.eqb_spec pos (seg - 1)); [|contradiction].
      injection Et as <-. reflexivity. }
    unfold sg_run_to_edge. cbn [sgc_tape]. rewrite Escan.
    unfold sg_asr_edge. cbn [sg_goal_tape sgc_tape]. rewrite Hb.
    unfold sg_check_reached. cbn [sg_term_eqb]. unfold sg_check_reached_blank.
    cbn [cs0 sgs_set_blanks sgs_blanks sgc_state sgc_tape sgs_seg].
    rewrite sg_dict_get_set_same. rewrite Hp.
    set (B := sg_dict_set 0 _ (sg_dict_set 0 _ (sgs_blanks cs))).
    change (fold_left _ B []) with (blanks_union B).
    destruct (blanks_union_spec B) as [Und Uin].
    assert (Hlen : sg_len (blanks_union B) = seg).
    { apply sg_nset_exact; [exact Und|]. intro p. rewrite Uin. split.
      - intros (k & ps & Hin & Hx). unfold B in Hin.
        destruct (sg_dict_set_entries _ _ _ _ _ Hin) as [E|Hin1].
        + injection E as -> ->. apply sg_nset_insert_In in Hx. destruct Hx as [->|Hx]; [lia|].
          apply sg_nset_insert_In in Hx. destruct Hx as [->|Hx]; [lia|]. apply (entry_lt _ 0 p K2 Hx).
        + destruct (sg_dict_set_entries _ _ _ _ _ Hin1) as [E|Hin2].
          * injection E as -> ->. apply sg_nset_insert_In in Hx. destruct Hx as [->|Hx]; [lia|].
            apply (entry_lt _ 0 p K2 Hx).
          * apply (K2 k ps p Hin2 Hx).
      - intro Hlt. exists 0, (sg_nset_insert pos (sg_nset_insert pos (sg_dict_entry 0 [] (sgs_blanks cs)))).
        split; [unfold B; apply sg_dict_get_In, sg_dict_get_set_same|].
        apply sg_nset_insert_In. destruct (N.eq_dec p pos) as [->|Ne]; [left; reflexivity|right].
        apply sg_nset_insert_In. right. apply Hbefore. lia. }
    rewrite Hlen, K1, N.eqb_refl. discriminate.
  - (* an earlier initial configuration *)
    assert (HK0 : KB cs0).
    { split; [exact K1|]. cbn [cs0 sgs_set_blanks sgs_blanks]. split.
      - apply blanks_lt_insert; [exact K2|lia].
      - apply no_last_insert; [exact K3|intros _; exact Nlast]. }
    destruct (sgt_scan t) as [co|] eqn:Escan.
    + (* inside the window *)
      unfold sg_run_to_edge. cbn [sgc_tape]. rewrite Escan. rewrite for_upto_iter.
      pose proof (iter_nat_inv (sg_rte_body prog SgBlank) rteB_inv rteB_post rteB_body_inv
                    (N.to_nat (sg_rte_fuel prog (sgs_seg cs0))) (mkSgRte (mkSgConfig 0 t true) (mkSgConfig 0 t true) false cs0)) as HR.
      destruct (iter_nat _ _ _) as [s'|r]; [discriminate|].
      assert (Hpost : rteB_post r).
      { apply HR. unfold rteB_inv. cbn [rte_self rte_copy rte_step rte_configs sgc_init sgc_tape].
        split; [reflexivity|]. split; [exact Hwf|]. split; [exact HK0|]. rewrite Escan. discriminate. }
      destruct r as [|[[res c'] cs1]]; [discriminate|].
      cbn [rteB_post] in Hpost. destruct Hpost as (HK1 & Hwf' & Hinit' & Hres).
      destruct res as [result|].
      * unfold sg_asr_result. rewrite Hinit'. destruct result as [| | |[| |]]; try discriminate.
        -- exact HK1.
        -- exact HK1.
        -- cbn [sg_term_eqb negb]. unfold sg_asr_check_reached.
           destruct (sg_check_reached cs1 c' SgBlank) as [b cs2] eqn:Ecr. destruct b; [discriminate|].
           apply (check_reached_blank_KB cs1 c' false cs2 HK1 Hwf' Hres Ecr).
      * unfold sg_asr_edge. cbn [sg_goal_tape]. rewrite Hres.
        destruct (sg_dict_get (sgc_state c') (sga_branches ap)) as [[diffs dirs]|]; [|discriminate].
        destruct (sg_branch_in cs1 (sgc_tape c') dirs false) as [|cs3] eqn:Ebi; [discriminate|].
        assert (HK3 : KB cs3).
        { unfold sg_branch_in in Ebi. destruct (sg_tape_side (sgc_tape c')) as [|sd]; [discriminate|].
          cbn [obind] in Ebi. destruct (sg_dirs_get dirs (negb sd)) as [|st0 sts0] eqn:Ed.
          - cbn [sg_branch_in_loop] in Ebi. injection Ebi as <-. exact HK1.
          - destruct (sg_tape_step_in (sgc_tape c') (negb sd)) as [|nt] eqn:Ein.
            { cbn [sg_branch_in_loop] in Ebi. rewrite Ein in Ebi. discriminate. }
            destruct (sg_tape_step_in_wf cells _ _ nt Hwf' cellsB_pos Ein) as (Hwfn & _ & _ & cn & Hcn & _).
            apply (branch_in_loop_KB _ _ false nt Ein Hwfn (ex_intro _ cn Hcn) _ cs1 cs3 HK1 Ebi). }
        pose proof (branch_out_KB c' diffs false cs3 Hwf' ltac:(discriminate) HK3) as HK4.
        destruct (sg_check_depth _); [discriminate|exact HK4].
    + (* the left-edge initial configuration *)
      unfold sg_run_to_edge. cbn [sgc_tape]. rewrite Escan.
      unfold sg_asr_edge. cbn [sg_goal_tape sgc_tape]. rewrite Hb.
      destruct (sg_check_reached cs0 (mkSgConfig 0 t true) SgBlank) as [b cs2] eqn:Ecr.
      destruct b; [discriminate|].
      assert (HK2 : KB cs2).
      { (* the position inserted is pos itself *)
        unfold sg_check_reached in Ecr. cbn [sg_term_eqb] in Ecr. unfold sg_check_reached_blank in Ecr.
        cbn [sgc_state sgc_tape] in Ecr.
        destruct (sg_dict_get 0 (sgs_blanks cs0)) as [ps0|] eqn:Eg0.
        2:{ injection Ecr as <-. exact HK0. }
        injection Ecr as _ <-. destruct HK0 as (J1 & J2 & J3). split; [exact J1|].
        cbn [sgs_set_blanks sgs_blanks]. rewrite Hp. split.
        - intros k' ps' p' Hin Hp'. destruct (sg_dict_set_entries _ _ _ _ _ Hin) as [E|Hold].
          + injection E as -> ->. apply sg_nset_insert_In in Hp'. destruct Hp' as [->|Hp']; [lia|].
            apply (J2 0 ps0 p' (sg_dict_get_In _ _ _ Eg0) Hp').
          + apply (J2 k' ps' p' Hold Hp').
        - intros ps1 Hg. rewrite sg_dict_get_set_same in Hg. injection Hg as <-. intro Hin.
          apply sg_nset_insert_In in Hin. destruct Hin as [E|Hin]; [apply Nlast; symmetry; exact E|].
          apply (J3 ps0 Eg0 Hin). }
      cbn [sgc_state sgc_tape].
      destruct (sg_dict_get 0 (sga_branches ap)) as [[diffs dirs]|]; [|discriminate].
      destruct (sg_branch_in cs2 t dirs true) as [|cs3] eqn:Ebi; [discriminate|].
      assert (HK3 : KB cs3).
      { unfold sg_branch_in in Ebi. destruct (sg_tape_side t) as [|sd]; [discriminate|].
        cbn [obind] in Ebi. destruct (sg_dirs_get dirs (negb sd)) as [|st0 sts0] eqn:Ed.
        - cbn [sg_branch_in_loop] in Ebi. injection Ebi as <-. exact HK2.
        - destruct (sg_tape_step_in t (negb sd)) as [|nt] eqn:Ein.
          { cbn [sg_branch_in_loop] in Ebi. rewrite Ein in Ebi. discriminate. }
          destruct (sg_tape_step_in_wf cells _ _ nt Hwf cellsB_pos Ein) as (Hwfn & _ & _ & cn & Hcn & _).
          apply (branch_in_loop_KB _ _ true nt Ein Hwfn (ex_intro _ cn Hcn) _ cs2 cs3 HK2 Ebi). }
      assert (Hpne : true = true -> sg_tape_pos (sgc_tape (mkSgConfig 0 t true)) <> seg - 1).
      { intros _. cbn [sgc_tape]. rewrite Hp. exact Nlast. }
      pose proof (branch_out_KB (mkSgConfig 0 t true) diffs true cs3 Hwf Hpne HK3) as HK4.
      destruct (sg_check_depth _); [discriminate|exact HK4].
Qed.

Theorem sg_asr_blank_not_none : sg_all_segments_reached ap seg SgBlank <> Ok None.
Proof.
  unfold sg_all_segments_reached. rewrite for_upto_iter.
  pose proof (iter_nat_inv (sg_asr_body ap SgBlank) KB (fun r => r <> Ok None) asrB_body_inv
                (N.to_nat (sg_asr_fuel (sga_prog ap) seg))
                (sg_configs_new (sga_halts ap) (sga_spinouts ap) seg SgBlank)) as HI.
  destruct (iter_nat _ _ _) as [s'|r]; [discriminate|]. apply HI.
  unfold KB, sg_configs_new. cbn [sgs_seg sgs_blanks]. split; [reflexivity|]. split.
  - intros k ps p [].
  - intros ps Hg. discriminate.
Qed.

End BlankNever.

(** the blank goal is never refuted *)
Theorem seg_cant_blank_never_refuted prog params segs st :
  sg_seg_cant_blank prog params segs <> Ok (SgrRefuted st).
Proof.
  intro H. unfold sg_seg_cant_blank, sg_segment_cant_reach in H.
  destruct (negb (2 <=? segs)); [discriminate|].
  set (ap := sg_aprog_new prog params) in *. cbn [sg_term_eqb andb orb] in H.
  destruct (for_upto (segs - 1) (sg_scr_body ap SgBlank) 2) as [x|r] eqn:E; [discriminate|].
  subst r. rewrite for_upto_iter in E.
  pose proof (iter_nat_inv (sg_scr_body ap SgBlank) (fun s => 2 <= s)
                (fun r => r = Ok (SgrRefuted st) ->
                          exists seg, 4 <= seg /\ sg_all_segments_reached ap seg SgBlank = Ok None)
                (scr_body_inv ap SgBlank st) (N.to_nat (segs - 1)) 2 (N.le_refl 2)) as Hinv.
  rewrite E in Hinv. destruct (Hinv eq_refl) as (seg & Hseg & Hnone).
  apply (sg_asr_blank_not_none prog ap (sg_aprog_new_prog prog params) seg Hseg Hnone).
Qed.

Print Assumptions seg_cant_blank_never_refuted.
