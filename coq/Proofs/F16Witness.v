(** F16: machine-checked witness that the accelerated runner [run_prover]
    answers "spin-out" for a machine that halts.

    The 22-state 4-colour program [f16_prog] (text [f16_text]) makes the model
    of run_prover (cycle limit 1000) answer
        spnout, steps 153, cycles 75, marks 1, rulapp = 6,
    after TWO recorded applications of the inferred rule "R0: -2" in state
    5 (= F):
        cycle 55:  1 / - / 1:11   --x5-->  1 / - / 1:1
        cycle 66:  1 / 2:1 / 1:4  --x1-->  1 / 2:1 / 1:2
    (scan / left span / right span, nearest block first, colour:count).
    The cell-by-cell machine of Spec/TM.v, started on the blank tape, instead
    HALTS at slot (20, 2) = U2 after 166 steps; it halts only once, and none
    of its 167 configurations is a spin-out configuration: it never spins out.
    The first application is real.  The second is not: from the tape before
    it the real machine halts after 11 steps and none of the 12 configurations
    on the way is (5, 1/2:1/1:2); after 2 steps it is on 1 / 0:2, 2:1 / 1:2:
    the tape the model works on has lost the two zeros the machine pushed on
    the left.

    Everything below is closed under the global context (vm_compute on the
    models + the lemmas of this file and of F14Witness.v). *)
From BB Require Import Base TM Ref TapeModel InstrsModel RulesModel MachineModel ProverModel ReplayModel.
From BB Require Import TapeCanon StepSim RulesExact RuleSound ReplaySound ProverSound QuickSim.
From BB Require Import F14Witness.
From Coq Require String Ascii.
Open Scope N_scope.

(** ------------------------------------------------------------------ *)
(** * a verified checker for "the machine never spins out"              *)

(** executable form of [spinout_cfg] *)
Definition spinoutb (P : prog) (c : config) : bool :=
  let (q, t) := c in
  (zc t =? 0) &&
  match P (q, 0) with
  | Some (_, sh, q') => (q' =? q) && all_blankb (side sh t)
  | None => false
  end.

(** the direction the refutation needs: a [false] answer excludes [spinout_cfg] *)
Lemma spinoutb_complete P c : spinout_cfg P c -> spinoutb P c = true.
Proof.
  destruct c as (q, t). intros (Hz & pr & sh & HP & Hb).
  unfold spinoutb. rewrite Hz, HP, !N.eqb_refl.
  apply all_blankb_spec in Hb. rewrite Hb. reflexivity.
Qed.

(** configuration number n of the run from [c0] is not a spin-out configuration *)
Definition not_spinout_at (P : prog) (c0 : config) (n : nat) : bool :=
  match tm_steps P n c0 with
  | Some c => negb (spinoutb P c)
  | None => true
  end.

(** none of the configurations 0 .. N of the run from [c0] is one *)
Definition never_spinout_upto (P : prog) (c0 : config) (N : nat) : bool :=
  forallb (not_spinout_at P c0) (seq 0 (S N)).

(** if the machine halts after N steps and the checker passes, there is no
    spin-out event after ANY number of steps *)
Theorem never_spinout_sound P c0 N cN :
  tm_steps P N c0 = Some cN -> tm_step P cN = None ->
  never_spinout_upto P c0 N = true ->
  never_spins_out P c0.
Proof.
  intros HN Hh Hck n c Hn Hs.
  destruct (Nat.le_gt_cases n N) as [L|L].
  - unfold never_spinout_upto in Hck. rewrite forallb_forall in Hck.
    assert (Hin : In n (seq 0 (S N))) by (apply in_seq; lia).
    specialize (Hck n Hin). unfold not_spinout_at in Hck. rewrite Hn in Hck.
    rewrite (spinoutb_complete _ _ Hs) in Hck. discriminate Hck.
  - rewrite (tm_steps_after_halt P N c0 cN HN Hh n L) in Hn. discriminate Hn.
Qed.

Lemma never_spins_out_at P c0 : never_spins_out P c0 -> forall n, ~ spins_out_at P c0 n.
Proof. intros H n (c & Hn & Hs). exact (H n c Hn Hs). Qed.

(** ------------------------------------------------------------------ *)
(** * the witness program                                               *)

(** rows = states A..V, 4 colours per row *)
Definition f16_prog : comp_prog :=
  [((0,0),(3,true,1)); ((1,0),(3,true,2)); ((2,0),(3,true,3)); ((3,0),(3,false,4));
   ((4,0),(0,true,5)); ((4,1),(1,false,4)); ((4,3),(3,false,4));
   ((5,0),(2,true,12)); ((5,1),(0,true,6)); ((5,3),(0,true,7));
   ((6,0),(0,false,18)); ((6,1),(0,true,5));
   ((7,0),(1,true,8)); ((7,1),(1,true,7)); ((7,3),(3,true,7));
   ((8,0),(1,true,9)); ((9,0),(1,true,10)); ((10,0),(1,true,11)); ((11,0),(1,false,4));
   ((12,0),(1,true,13)); ((13,0),(1,true,14)); ((14,0),(1,true,15)); ((15,0),(1,true,16));
   ((16,0),(1,false,17)); ((17,1),(1,false,17)); ((17,2),(2,true,5));
   ((18,0),(0,false,19)); ((18,2),(2,true,21)); ((19,0),(0,false,20)); ((20,0),(0,false,18));
   ((21,0),(0,true,21))].

Module F16Text.
Import String Ascii.
Definition text : string :=
  "3RB ... ... ...  3RC ... ... ...  3RD ... ... ...  3LE ... ... ...  0RF 1LE ... 3LE  2RM 0RG ... 0RH  0LS 0RF ... ...  1RI 1RH ... 3RH  1RJ ... ... ...  1RK ... ... ...  1RL ... ... ...  1LE ... ... ...  1RN ... ... ...  1RO ... ... ...  1RP ... ... ...  1RQ ... ... ...  1LR ... ... ...  ... 1LR 2RF ...  0LT ... 2RV ...  0LU ... ... ...  0LS ... ... ...  0RV ... ... ..."%string.
End F16Text.

(** the program text as the code points Rust's [chars()] yields *)
Definition f16_text : str := F14Text.codes F16Text.text.

(** the literal is what the model of [from_str] parses the text to *)
Example f16_prog_text : from_str f16_text = Some f16_prog.
Proof. vm_compute. reflexivity. Qed.

(** the two recorded applications of the rule "R0: -2" in state 5 = F *)
Definition f16_rule : rule := [((true, 0), Plus (-2)%Z)].
Definition f16_a0 : tape := mkTape 1 [] [(1, 11)].
Definition f16_a1 : tape := mkTape 1 [] [(1, 1)].
Definition f16_t0 : tape := mkTape 1 [(2, 1)] [(1, 4)].          (* before the second *)
Definition f16_t1 : tape := mkTape 1 [(2, 1)] [(1, 2)].          (* after it, as claimed *)
Definition f16_tz : tape := mkTape 1 [(0, 2); (2, 1)] [(1, 2)].  (* what the machine reaches *)
Definition f16_app1 : rule_app := mkApp 55 5 f16_a0 f16_rule 5 f16_a1.
Definition f16_app2 : rule_app := mkApp 66 5 f16_t0 f16_rule 1 f16_t1.
Definition f16_res : mresult := mkRes spnout 153 75 1 6 [(5, 134)] None.

(** ------------------------------------------------------------------ *)
(** * (2) what the model of run_prover answers                          *)

Lemma f16_model_trace :
  run_prover_trace f16_prog 1000 = Ok (f16_res, [f16_app1; f16_app2]).
Proof. vm_compute. reflexivity. Qed.

Lemma f16_model_run : run_prover f16_prog 1000 = Ok f16_res.
Proof. vm_compute. reflexivity. Qed.

Lemma f16_model_verdict :
  exists r, run_prover f16_prog 1000 = Ok r /\
    r_result r = spnout /\ r_steps r = 153 /\ r_cycles r = 75 /\ r_marks r = 1 /\ r_rulapp r = 6.
Proof. eexists. split; [exact f16_model_run|]. repeat split. Qed.

(** the second application is what [apply_rule] computes: once *)
Lemma f16_apply_rule : apply_rule f16_t0 f16_rule = Ok (Some 1, f16_t1).
Proof. vm_compute. reflexivity. Qed.

(** ------------------------------------------------------------------ *)
(** * (3) what the real machine does from the blank tape                *)

Lemma f16_real_halt : halts_at (to_prog f16_prog) init_config 166 (20, 2).
Proof.
  unfold halts_at. eexists. eexists. split; [vm_compute; reflexivity|]. split; vm_compute; reflexivity.
Qed.

(** the tape it halts on: one mark, the 2 under the head *)
Lemma f16_real_halt_config :
  tm_steps (to_prog f16_prog) 166 init_config
  = Some (20, {| zl := [0;0;0;0;0;0;0;0;0;0;0;0;0;0;0;0;0;0;0;0;0;0;0;0;0]; zc := 2;
                 zr := [0;0;0;0;0;0] |}).
Proof. vm_compute. reflexivity. Qed.

Lemma f16_real_halt_only : forall n sl,
  halts_at (to_prog f16_prog) init_config n sl -> n = 166%nat /\ sl = (20, 2).
Proof. intros n sl H. exact (halts_at_unique _ _ _ _ _ _ H f16_real_halt). Qed.

(** there are exactly 167 configurations *)
Lemma f16_real_no_config_after : forall n, (166 < n)%nat ->
  tm_steps (to_prog f16_prog) n init_config = None.
Proof.
  intros n L. apply (tm_steps_after_halt _ 166%nat _ _ f16_real_halt_config); [|exact L].
  vm_compute. reflexivity.
Qed.

(** none of them is a spin-out configuration *)
Theorem f16_real_never_spins_out : never_spins_out (to_prog f16_prog) init_config.
Proof.
  apply (never_spinout_sound _ _ 166%nat _ f16_real_halt_config); vm_compute; reflexivity.
Qed.

Lemma f16_real_no_spinout_event : forall n, ~ spins_out_at (to_prog f16_prog) init_config n.
Proof. exact (never_spins_out_at _ _ f16_real_never_spins_out). Qed.

(** ------------------------------------------------------------------ *)
(** * (4) the verdict is false                                          *)

(** the negation of the spnout clause of [outcome_sound_given_rules] /
    [outcome_sound_given_real] for this run *)
Lemma f16_spnout_clause_false : forall r apps,
  run_prover_trace f16_prog 1000 = Ok (r, apps) ->
  r_result r = spnout /\
  ~ (exists n q z, tm_steps (to_prog f16_prog) n init_config = Some (q, z) /\
       spinout_cfg (to_prog f16_prog) (q, z) /\
       spins_out_at (to_prog f16_prog) init_config n /\ marks_of z = r_marks r).
Proof.
  intros r apps H. rewrite f16_model_trace in H. injection H as <- <-.
  split; [reflexivity|]. intros (n & q & z & _ & _ & Hs & _).
  exact (f16_real_no_spinout_event n Hs).
Qed.

Theorem verdict_refuted_F16 :
  exists comp lim r apps n' sl',
    run_prover_trace comp lim = Ok (r, apps) /\ r_result r = spnout /\
    halts_at (to_prog comp) init_config n' sl' /\
    never_spins_out (to_prog comp) init_config /\
    ~ (exists n q z, tm_steps (to_prog comp) n init_config = Some (q, z) /\
         spinout_cfg (to_prog comp) (q, z) /\
         spins_out_at (to_prog comp) init_config n /\ marks_of z = r_marks r).
Proof.
  eexists f16_prog, 1000, _, _, 166%nat, (20, 2). split; [exact f16_model_trace|].
  split; [reflexivity|]. split; [exact f16_real_halt|]. split; [exact f16_real_never_spins_out|].
  exact (proj2 (f16_spnout_clause_false _ _ f16_model_trace)).
Qed.

(** hence the spnout clause of C02 does NOT hold without its hypothesis on
    the applications *)
Theorem outcome_unconditional_refuted_F16 :
  ~ (forall comp lim r apps,
       run_prover_trace comp lim = Ok (r, apps) -> r_result r = spnout ->
       exists n q z, tm_steps (to_prog comp) n init_config = Some (q, z) /\
         spinout_cfg (to_prog comp) (q, z) /\
         spins_out_at (to_prog comp) init_config n /\ marks_of z = r_marks r).
Proof.
  intro H. destruct (f16_spnout_clause_false _ _ f16_model_trace) as (Hu & Hn).
  exact (Hn (H _ _ _ _ f16_model_trace Hu)).
Qed.

(** ------------------------------------------------------------------ *)
(** * (5) the second recorded application is not a run of the machine   *)

(** from the tape before, the real machine halts after 11 steps ... *)
Lemma f16_before_halts :
  halts_at (to_prog f16_prog) (5, unroll_tape f16_t0) 11 (20, 2).
Proof.
  unfold halts_at. eexists. eexists. split; [vm_compute; reflexivity|]. split; vm_compute; reflexivity.
Qed.

(** ... and none of its 12 configurations is (5, tape after) *)
Theorem f16_app_not_real : forall n z,
  tm_steps (to_prog f16_prog) n (5, unroll_tape f16_t0) = Some (5, z) ->
  ~ tape_eq z (unroll_tape f16_t1).
Proof.
  destruct (tm_steps (to_prog f16_prog) 11 (5, unroll_tape f16_t0)) as [cN|] eqn:E;
    [|vm_compute in E; discriminate E].
  apply (never_target_sound _ _ 5 _ 11%nat cN E).
  - vm_compute in E. injection E as <-. vm_compute. reflexivity.
  - vm_compute. reflexivity.
Qed.

Lemma f16_app_not_app_real : ~ app_real (to_prog f16_prog) f16_app2.
Proof. intros (n & z & H & He). exact (f16_app_not_real n z H He). Qed.

Theorem application_refuted_F16 :
  exists comp lim r apps a,
    run_prover_trace comp lim = Ok (r, apps) /\ In a apps /\
    app_cycle a = 66 /\
    app_state a = 5 /\ app_before a = f16_t0 /\ app_rule a = f16_rule /\
    app_times a = 1 /\ app_after a = f16_t1 /\
    apply_rule (app_before a) (app_rule a) = Ok (Some (app_times a), app_after a) /\
    ~ (exists n z, tm_steps (to_prog comp) n (app_state a, unroll_tape (app_before a)) = Some (app_state a, z) /\
                   tape_eq z (unroll_tape (app_after a))).
Proof.
  eexists f16_prog, 1000, _, _, f16_app2. split; [exact f16_model_trace|].
  split; [right; left; reflexivity|]. do 6 (split; [reflexivity|]).
  split; [exact f16_apply_rule|]. exact f16_app_not_app_real.
Qed.

(** consequently the hypotheses of the conditional C02/C03 theorems fail for
    this run *)
Theorem f16_apps_not_real : forall r apps,
  run_prover_trace f16_prog 1000 = Ok (r, apps) ->
  ~ apps_real (to_prog f16_prog) apps /\ ~ apps_valid (to_prog f16_prog) apps.
Proof.
  intros r apps H.
  assert (Hn : ~ apps_real (to_prog f16_prog) apps).
  { intro HR. pose proof H as H'. rewrite f16_model_trace in H'. injection H' as <- <-.
    apply f16_app_not_app_real. apply HR. right. left. reflexivity. }
  split; [exact Hn|]. intro HV. exact (Hn (trace_valid_real f16_prog _ _ _ H HV)).
Qed.

(** ------------------------------------------------------------------ *)
(** * where the machine really is: the tape with the two zeros          *)

Lemma f16_replay :
  replay3 f16_prog 5 f16_a0 5 f16_a1 100 = RpReached 10 /\
  replay3 f16_prog 5 f16_t0 5 f16_t1 100 = RpStopped 11 /\
  replay3 f16_prog 5 f16_t0 5 f16_tz 100 = RpReached 2.
Proof. vm_compute. repeat split; reflexivity. Qed.

(** after exactly 2 steps the real machine is in state 5 on 1 / 0:2, 2:1 / 1:2 *)
Lemma f16_real_after_two :
  tm_steps (to_prog f16_prog) 2 (5, unroll_tape f16_t0) = Some (5, unroll_tape f16_tz).
Proof. vm_compute. reflexivity. Qed.

Lemma f16_tz_unrolled :
  unroll_tape f16_t1 = {| zl := [2]; zc := 1; zr := [1; 1] |} /\
  unroll_tape f16_tz = {| zl := [0; 0; 2]; zc := 1; zr := [1; 1] |}.
Proof. vm_compute. split; reflexivity. Qed.

Lemma f16_canon_a0 : canon_tape f16_a0.
Proof.
  unfold canon_tape, canon, counts_pos, last_nonzero, f16_a0. cbn.
  repeat split; try discriminate; repeat constructor; cbn; try lia.
Qed.

(** the first application IS a run of the real machine (replay checker +
    [replay_sound]) *)
Lemma f16_first_app_real :
  exists k z, (1 <= k)%nat /\
    tm_steps (to_prog f16_prog) k (5, unroll_tape f16_a0) = Some (5, z) /\ tape_eq z (unroll_tape f16_a1).
Proof.
  eapply replay_sound; [exact f16_canon_a0|].
  eapply replay3_reached. exact (proj1 f16_replay).
Qed.

Theorem real_tape_has_zeros_F16 :
  (exists k z, (1 <= k)%nat /\
     tm_steps (to_prog f16_prog) k (5, unroll_tape f16_t0) = Some (5, z) /\
     tape_eq z (unroll_tape f16_tz)) /\
  tm_steps (to_prog f16_prog) 2 (5, unroll_tape f16_t0) = Some (5, unroll_tape f16_tz) /\
  (forall n z, tm_steps (to_prog f16_prog) n (5, unroll_tape f16_t0) = Some (5, z) ->
     ~ tape_eq z (unroll_tape f16_t1)) /\
  halts_at (to_prog f16_prog) (5, unroll_tape f16_t0) 11 (20, 2) /\
  replay3 f16_prog 5 f16_t0 5 f16_t1 100 = RpStopped 11 /\
  replay3 f16_prog 5 f16_t0 5 f16_tz 100 = RpReached 2.
Proof.
  split.
  { exists 2%nat, (unroll_tape f16_tz). split; [lia|]. split; [exact f16_real_after_two|].
    repeat split; intro i; reflexivity. }
  split; [exact f16_real_after_two|]. split; [exact f16_app_not_real|].
  split; [exact f16_before_halts|]. exact (proj2 f16_replay).
Qed.

Print Assumptions verdict_refuted_F16.
Print Assumptions outcome_unconditional_refuted_F16.
Print Assumptions application_refuted_F16.
Print Assumptions f16_apps_not_real.
Print Assumptions real_tape_has_zeros_F16.
Print Assumptions f16_first_app_real.
