(** Soundness of the symbolic rule checker (Model/SymRule.v): a certificate
    [check_rule .. = CCert n req] proves that ONE application of the rule is a
    run of real machine steps on EVERY tape of the family whose counts are
    >= [req] -- the hypothesis [RuleValid] of Proofs/RuleSound.v, which the rule
    inference of src/prover.rs does not establish. *)
From BB Require Import Base TM TapeModel InstrsModel RulesModel SymRule ReplayModel.
From BB Require Import TapeCanon StepSim RulesExact RuleSound ReplaySound.
Open Scope N_scope.

(** ---- instances of symbolic tapes ---- *)
Definition senv := svar -> N.
Definition evz (env : senv) (c : scount) : Z :=
  match c with SC None o => o | SC (Some v) o => (Z.of_N (env v) + o)%Z end.
Definition ev (env : senv) (c : scount) : N := Z.to_N (evz env c).
Definition inst_span (env : senv) (s : sspan) : span := map (fun b => (fst b, ev env (snd b))) s.
Definition inst (env : senv) (t : stape) : tape :=
  mkTape (s_scan t) (inst_span env (s_l t)) (inst_span env (s_r t)).
Definition env_ge (env : senv) (lb : bounds) : Prop := forall v, lb_get lb v <= env v.

Lemma slo_le env lb c : env_ge env lb -> (slo lb c <= evz env c)%Z.
Proof. intros H. destruct c as [[v|] o]; cbn [slo evz]; [specialize (H v)|]; lia. Qed.

Lemma ev_shift_up env c : (0 <= evz env c)%Z -> ev env (sshift c 1) = 1 + ev env c.
Proof. destruct c as [[v|] o]; unfold ev; cbn [sshift evz]; lia. Qed.

Lemma ev_shift_down env c : ev env (sshift c (-1)) = ev env c - 1.
Proof. destruct c as [[v|] o]; unfold ev; cbn [sshift evz]; lia. Qed.

Lemma sadd_ev env a b c : sadd a b = Some c -> (0 <= evz env a)%Z -> (0 <= evz env b)%Z ->
  ev env c = ev env a + ev env b.
Proof.
  destruct a as [[v|] x], b as [[w|] y]; cbn [sadd]; intros H Ha Hb; try discriminate H;
    injection H as <-; unfold ev; cbn [evz] in *; lia.
Qed.

Lemma sgt1_sound env lb c b : sgt1 lb c = SOk b -> env_ge env lb -> (1 <? ev env c) = b.
Proof.
  intros H Hge. destruct c as [[v|] o]; cbn [sgt1] in H.
  - destruct (Z.leb_spec 2 (Z.of_N (lb_get lb v) + o)) as [Hle|Hgt]; [|discriminate H].
    injection H as <-. apply N.ltb_lt. specialize (Hge v). unfold ev. cbn [evz]. lia.
  - injection H as <-. unfold ev. cbn [evz].
    destruct (Z.ltb_spec 1 o); [apply N.ltb_lt|apply N.ltb_ge]; lia.
Qed.

(** ---- pull ---- *)
Lemma stake1_sound env lb s stp s' nx stp' :
  stake1 lb s stp = SOk (s', nx, stp') -> env_ge env lb ->
  take1 (inst_span env s) = (inst_span env s', nx) /\ stp' = stp.
Proof.
  intros H Hge. destruct s as [|[c n] rest]; cbn [stake1] in H.
  - injection H as <- <- <-. split; reflexivity.
  - destruct (sgt1 lb n) as [b|v k|w] eqn:E; try discriminate H.
    pose proof (sgt1_sound env lb n b E Hge) as Hb.
    cbn [inst_span map fst snd take1]. rewrite Hb.
    destruct b; injection H as <- <- <-; (split; [|reflexivity]).
    + cbn [inst_span map fst snd]. rewrite ev_shift_down. reflexivity.
    + reflexivity.
Qed.

Lemma spull_sound env lb s sc skip s' nx stp :
  spull lb s sc skip = SOk (s', nx, stp) -> env_ge env lb ->
  pull (inst_span env s) sc skip = (inst_span env s', nx, ev env stp).
Proof.
  intros H Hge. rewrite pull_take1. destruct s as [|[c n] rest]; cbn [spull] in H.
  - injection H as <- <- <-. reflexivity.
  - cbn [inst_span map fst snd]. destruct (skip && (c =? sc)).
    + destruct (Z.leb_spec 0 (slo lb n)) as [Hlo|Hlo]; [|discriminate H].
      destruct (stake1_sound env lb rest _ _ _ _ H Hge) as [Ht ->].
      change (map (fun b => (fst b, ev env (snd b))) rest) with (inst_span env rest).
      rewrite Ht. cbn [fst snd]. rewrite ev_shift_up; [reflexivity|].
      pose proof (slo_le env lb n Hge). lia.
    + destruct (stake1_sound env lb ((c, n) :: rest) _ _ _ _ H Hge) as [Ht ->].
      change ((c, ev env n) :: map (fun b => (fst b, ev env (snd b))) rest)
        with (inst_span env ((c, n) :: rest)).
      rewrite Ht. reflexivity.
Qed.

(** ---- push ---- *)
Lemma spush_sound env lb s pr stp s' :
  spush lb s pr stp = SOk s' -> env_ge env lb ->
  push (inst_span env s) pr (ev env stp) = inst_span env s'.
Proof.
  intros H Hge. destruct s as [|[c n] rest]; cbn [spush] in H; cbn [inst_span map fst snd push].
  - destruct (pr =? 0); injection H as <-; reflexivity.
  - destruct (c =? pr).
    + destruct (Z.leb_spec 0 (slo lb n)) as [Hn|Hn]; [|discriminate H].
      destruct (Z.leb_spec 0 (slo lb stp)) as [Hs|Hs]; [|discriminate H].
      cbn [andb] in H. destruct (sadd n stp) as [m|] eqn:E; [|discriminate H].
      injection H as <-. cbn [inst_span map fst snd].
      rewrite (sadd_ev env n stp m E).
      * reflexivity.
      * pose proof (slo_le env lb n Hge). lia.
      * pose proof (slo_le env lb stp Hge). lia.
    + injection H as <-. reflexivity.
Qed.

(** ---- step ---- *)
Theorem sstep_sound env lb st sh color skip st' stp :
  sstep lb st sh color skip = SOk (st', stp) -> env_ge env lb ->
  step (inst env st) sh color skip = (inst env st', ev env stp).
Proof.
  intros H Hge. unfold sstep in H. unfold step. destruct sh.
  - destruct (spull lb (s_r st) (s_scan st) skip) as [[[r' nx] stepped]|v k|w] eqn:Ep; try discriminate H.
    destruct (spush lb (s_l st) color stepped) as [l'|v k|w] eqn:Eq; try discriminate H.
    injection H as <- <-. cbn [inst scan lspan rspan].
    rewrite (spull_sound env lb _ _ _ _ _ _ Ep Hge), (spush_sound env lb _ _ _ _ Eq Hge).
    reflexivity.
  - destruct (spull lb (s_l st) (s_scan st) skip) as [[[l' nx] stepped]|v k|w] eqn:Ep; try discriminate H.
    destruct (spush lb (s_r st) color stepped) as [r'|v k|w] eqn:Eq; try discriminate H.
    injection H as <- <-. cbn [inst scan lspan rspan].
    rewrite (spull_sound env lb _ _ _ _ _ _ Ep Hge), (spush_sound env lb _ _ _ _ Eq Hge).
    reflexivity.
Qed.

(** ---- syntactic equality ---- *)
Lemma svar_eqb_eq a b : svar_eqb a b = true -> a = b.
Proof.
  destruct a as [sa ia], b as [sb ib]. unfold svar_eqb. cbn [fst snd]. intros H.
  apply andb_prop in H as [H1 H2]. apply Bool.eqb_prop in H1. apply Nat.eqb_eq in H2. congruence.
Qed.

Lemma scount_eqb_eq a b : scount_eqb a b = true -> a = b.
Proof.
  destruct a as [[v|] x], b as [[w|] y]; cbn [scount_eqb]; intros H; try discriminate H.
  - apply andb_prop in H as [H1 H2]. apply svar_eqb_eq in H1. apply Z.eqb_eq in H2. congruence.
  - apply Z.eqb_eq in H. congruence.
Qed.

Lemma sspan_eqb_eq : forall a b, sspan_eqb a b = true -> a = b.
Proof.
  induction a as [|[c n] a IH]; intros [|[d m] b] H; cbn [sspan_eqb fst snd] in H;
    try discriminate H; [reflexivity|].
  apply andb_prop in H as [H H3]. apply andb_prop in H as [H1 H2].
  apply N.eqb_eq in H1. apply scount_eqb_eq in H2. apply IH in H3. congruence.
Qed.

Lemma stape_eqb_eq a b : stape_eqb a b = true -> a = b.
Proof.
  destruct a as [sa la ra], b as [sb lb rb]. unfold stape_eqb. cbn [s_scan s_l s_r]. intros H.
  apply andb_prop in H as [H H3]. apply andb_prop in H as [H1 H2].
  apply N.eqb_eq in H1. apply sspan_eqb_eq in H2, H3. congruence.
Qed.

(** ---- the symbolic run is a run of the machine on every instance ---- *)
Section Run.
Variable comp : comp_prog.
Let P := to_prog comp.

Lemma sym_run_sound lb tq target env : env_ge env lb ->
  forall fuel q st started n0 n z,
  sym_run comp lb tq target fuel q st started n0 = SOk n ->
  canon_tape (inst env st) -> tape_eq z (unroll_tape (inst env st)) ->
  exists k z', tm_steps P k (q, z) = Some (tq, z') /\
               tape_eq z' (unroll_tape (inst env target)) /\
               (started = false -> (1 <= k)%nat).
Proof.
  intros Hge. induction fuel as [|fuel IH]; intros q st started n0 n z H Hcan Hz.
  - cbn [sym_run] in H.
    destruct (started && (q =? tq) && stape_eqb st target) eqn:Ehit; [|discriminate H].
    apply andb_prop in Ehit as [E1 E3]. apply andb_prop in E1 as [E1 E2].
    apply N.eqb_eq in E2. apply stape_eqb_eq in E3. subst tq target.
    exists O, z. split; [reflexivity|]. split; [exact Hz|]. intros ->. discriminate E1.
  - cbn [sym_run] in H.
    destruct (started && (q =? tq) && stape_eqb st target) eqn:Ehit.
    + apply andb_prop in Ehit as [E1 E3]. apply andb_prop in E1 as [E1 E2].
      apply N.eqb_eq in E2. apply stape_eqb_eq in E3. subst tq target.
      exists O, z. split; [reflexivity|]. split; [exact Hz|]. intros ->. discriminate E1.
    + destruct (cp_get comp (q, s_scan st)) as [[[color sh] q']|] eqn:Eget; [|discriminate H].
      destruct ((q =? q') && s_at_edge st sh); [discriminate H|].
      destruct (sstep lb st sh color (q =? q')) as [[st' stp]|v k|w] eqn:Estep; try discriminate H.
      pose proof (sstep_sound env lb st sh color (q =? q') st' stp Estep Hge) as Hstep.
      destruct (cycle_tm comp q (inst env st) color sh q' (inst env st') (ev env stp) z Hcan Hz Eget Hstep)
        as (z1 & Hrun & Hz1 & Hk).
      assert (Hcan' : canon_tape (inst env st')).
      { replace (inst env st') with (fst (step (inst env st) sh color (q =? q'))) by (rewrite Hstep; reflexivity).
        apply canon_step. exact Hcan. }
      destruct (IH q' st' true (n0 + 1) n z1 H Hcan' Hz1) as (k & z' & Hk' & Hz' & _).
      exists (N.to_nat (ev env stp) + k)%nat, z'. split.
      * fold P in Hrun. rewrite tm_steps_plus, Hrun. exact Hk'.
      * split; [exact Hz'|]. intros _. lia.
Qed.
End Run.

(** ---- start and target tapes ---- *)
Lemma nth_error_sbuild f : forall s i k,
  nth_error (sbuild f i s) k = option_map (fun b => (fst b, f (i + k)%nat (snd b))) (nth_error s k).
Proof.
  induction s as [|b s IH]; intros i k.
  - destruct k; reflexivity.
  - destruct k as [|k]; cbn [sbuild nth_error option_map].
    + rewrite Nat.add_0_r. reflexivity.
    + rewrite IH. replace (S i + k)%nat with (i + S k)%nat by lia. reflexivity.
Qed.

Lemma map_fst_sbuild f : forall s i, map fst (sbuild f i s) = map fst s.
Proof. induction s as [|b s IH]; intros i; [reflexivity|]. cbn [sbuild map fst]. rewrite IH. reflexivity. Qed.

Lemma map_fst_inst env s : map fst (inst_span env s) = map fst s.
Proof. unfold inst_span. rewrite map_map. apply map_ext. reflexivity. Qed.

(** the unknowns are the counts of the tape *)
Definition env_of (t : tape) : senv := count_at t.

(** pinned blocks have the counts of [t0] *)
Definition fixed_ok (m : smask) (t t0 : tape) : Prop :=
  forall sd i, mask_get m (sd, i) = false ->
    get_count t (sd, N.of_nat i) = get_count t0 (sd, N.of_nat i).
(** the counts satisfy the requirement ([env_of t v] is the count of block [v]
    of [t], 0 when there is no such block) *)
Definition req_ok (req : bounds) (t : tape) : Prop := env_ge (env_of t) req.

Lemma map_fst_nth_none (a b : span) i : map fst a = map fst b -> nth_error a i = None -> nth_error b i = None.
Proof.
  intros H Ha. apply nth_error_None. apply nth_error_None in Ha.
  rewrite <- (map_length fst b), <- H, map_length. exact Ha.
Qed.

Lemma span_of_inst env sd st : span_of sd (inst env st) = inst_span env (if sd then s_r st else s_l st).
Proof. destruct sd; reflexivity. Qed.

Lemma get_count_nat t sd i :
  get_count t (sd, N.of_nat i) =
  match nth_error (span_of sd t) i with Some b => Ok (snd b) | None => Panic end.
Proof. rewrite get_count_span, Nat2N.id. reflexivity. Qed.

Lemma env_of_count t sd i c : get_count t (sd, N.of_nat i) = Ok c -> env_of t (sd, i) = c.
Proof.
  rewrite get_count_nat. unfold env_of, count_at, span_of. cbn [fst snd].
  set (o := nth_error (if sd then rspan t else lspan t) i).
  change (match o with Some b => Ok (snd b) | None => Panic end = Ok c ->
          match o with Some b => snd b | None => 0 end = c).
  destruct o; intros H; [injection H as <-; reflexivity|discriminate H].
Qed.

(** the instance of [sym_tape m d t0] at the counts of [t] (whose pinned
    blocks are those of [t0]) is the tape with the colours of [t0] and the
    counts of [t] changed by [d] *)
Lemma inst_sym_tape m d t0 t tx :
  same_shape t t0 -> same_shape tx t0 -> fixed_ok m t t0 ->
  (forall sd i c, get_count t (sd, N.of_nat i) = Ok c ->
     get_count tx (sd, N.of_nat i) = Ok (Z.to_N (Z.of_N c + d (sd, i)))) ->
  inst (env_of t) (sym_tape m d t0) = tx.
Proof.
  intros Hs Hsx Hfix Hvar. apply tape_ext.
  - destruct Hsx as (A & B & C). unfold same_shape, inst, sym_tape. cbn [scan lspan rspan s_scan s_l s_r].
    rewrite !map_fst_inst, !map_fst_sbuild. repeat split; congruence.
  - intros [sd p]. rewrite <- (N2Nat.id p). generalize (N.to_nat p) as i. clear p. intros i.
    rewrite (get_count_nat (inst _ _)), span_of_inst.
    assert (E : (if sd then s_r (sym_tape m d t0) else s_l (sym_tape m d t0))
                = sbuild (sym_count m d sd) 0 (span_of sd t0)) by (destruct sd; reflexivity).
    rewrite E. unfold inst_span. rewrite nth_error_map, nth_error_sbuild. cbn [Nat.add].
    destruct (nth_error (span_of sd t0) i) as [b0|] eqn:E0; cbn [option_map fst snd].
    + assert (Ht0 : get_count t0 (sd, N.of_nat i) = Ok (snd b0)) by (rewrite get_count_nat, E0; reflexivity).
      unfold sym_count. destruct (mask_get m (sd, i)) eqn:Em.
      * destruct (nth_error (span_of sd t) i) as [b|] eqn:Et.
        -- assert (Hc : get_count t (sd, N.of_nat i) = Ok (snd b)) by (rewrite get_count_nat, Et; reflexivity).
           rewrite (Hvar sd i (snd b) Hc). unfold ev. cbn [evz].
           rewrite (env_of_count t sd i (snd b) Hc). reflexivity.
        -- apply (map_fst_nth_none _ (span_of sd t0)) in Et; [|apply shape_span_of; exact Hs].
           rewrite Et in E0. discriminate E0.
      * rewrite <- (Hfix sd i Em) in Ht0. rewrite (Hvar sd i (snd b0) Ht0). reflexivity.
    + rewrite get_count_nat.
      apply (map_fst_nth_none _ (span_of sd tx)) in E0;
        [|symmetry; apply shape_span_of; exact Hsx].
      rewrite E0. reflexivity.
Qed.

(** ---- facts about the rule ---- *)
Lemma srule_get_in r ix o : srule_get r ix = Some o -> In (ix, o) r.
Proof.
  induction r as [|[k o'] r IH]; cbn [srule_get]; [discriminate|].
  destruct (index_eqb k ix) eqn:E.
  - intros H. injection H as ->. apply index_eqb_eq in E. subst k. left. reflexivity.
  - intros H. right. exact (IH H).
Qed.

Lemma srule_get_none r ix : srule_get r ix = None -> forall o, ~ In (ix, o) r.
Proof.
  induction r as [|[k o'] r IH]; cbn [srule_get]; intros H o Hin; [destruct Hin|].
  destruct (index_eqb k ix) eqn:E; [discriminate H|].
  destruct Hin as [Heq|Hin]; [|exact (IH H o Hin)].
  injection Heq as -> _. apply index_eqb_neq in E. apply E. reflexivity.
Qed.

Lemma rule_ok_in t0 r ix o : rule_ok t0 r = true -> In (ix, o) r -> exists d, o = Plus d.
Proof.
  unfold rule_ok. rewrite forallb_forall. intros H Hin. specialize (H _ Hin). cbn [fst snd] in H.
  destruct o as [d|a b]; [|discriminate H]. exists d. reflexivity.
Qed.

(** ---- the driver returns a requirement under which the run succeeds ---- *)
Lemma check_loop_cert comp q start target cycles : forall restarts lb n req,
  check_loop comp q start target cycles restarts lb = CCert n req ->
  sym_run comp req q target cycles q start false 0 = SOk n.
Proof.
  induction restarts as [|restarts IH]; intros lb n req H; cbn [check_loop] in H;
    destruct (sym_run comp lb q target cycles q start false 0) as [n'|v k|w] eqn:E; try discriminate H.
  - injection H as <- <-. exact E.
  - injection H as <- <-. exact E.
  - exact (IH _ _ _ H).
Qed.

(** MAIN THEOREM: a certificate proves the rule on every tape of the family
    whose counts satisfy the requirement *)
Theorem check_rule_sound comp q t0 r m cycles restarts n req :
  check_rule comp q t0 r m cycles restarts = CCert n req ->
  forall t t1, canon_tape t -> same_shape t t0 -> lens_eq t t0 ->
    fixed_ok m t t0 -> req_ok req t -> Shifted r 1 t t1 ->
    exists k z, (1 <= k)%nat /\
      tm_steps (to_prog comp) k (q, unroll_tape t) = Some (q, z) /\
      tape_eq z (unroll_tape t1).
Proof.
  unfold check_rule. intros H t t1 Hcan Hs _ Hfix Hreq Hsh.
  destruct (rule_ok t0 r) eqn:Hok; [|discriminate H].
  apply check_loop_cert in H.
  destruct Hsh as (Hs1 & _ & Hin & Hout).
  assert (Hs10 : same_shape t1 t0) by (eapply same_shape_trans; eassumption).
  assert (Estart : inst (env_of t) (sstart m t0) = t).
  { apply inst_sym_tape; try assumption.
    intros sd i c Hc. rewrite Hc. f_equal. lia. }
  assert (Etarget : inst (env_of t) (starget m r t0) = t1).
  { apply inst_sym_tape; try assumption.
    intros sd i c Hc. cbn [fst snd]. unfold rule_delta.
    destruct (srule_get r (sd, N.of_nat i)) as [[d|a b]|] eqn:Eg.
    - apply srule_get_in in Eg. destruct (Hin _ _ Eg) as (c' & Hc' & Hc1 & _).
      rewrite Hc in Hc'. injection Hc' as <-. rewrite Hc1. f_equal.
      change (Z.of_nat 1) with 1%Z. lia.
    - apply srule_get_in in Eg. destruct (rule_ok_in _ _ _ _ Hok Eg) as (d & Hd). discriminate Hd.
    - rewrite (Hout _ (srule_get_none _ _ Eg)), Hc. f_equal. lia. }
  destruct (sym_run_sound comp req q (starget m r t0) (env_of t) Hreq cycles q (sstart m t0) false 0 n
              (unroll_tape t) H) as (k & z & Hrun & Hz & Hk).
  - rewrite Estart. exact Hcan.
  - rewrite Estart. apply tape_eq_refl.
  - exists k, z. split; [apply Hk; reflexivity|]. split; [exact Hrun|].
    rewrite Etarget in Hz. exact Hz.
Qed.
Print Assumptions check_rule_sound.

(** ================================================================== *)
(** * The complete check: case split on the boundary ([cover])          *)

Lemma svar_eqb_refl a : svar_eqb a a = true.
Proof. destruct a as [s i]. unfold svar_eqb. cbn [fst snd]. rewrite Bool.eqb_reflx, Nat.eqb_refl. reflexivity. Qed.

Lemma nth_nil_true j : nth j (@nil bool) true = true.
Proof. destruct j; reflexivity. Qed.

Lemma pin_nth_spec : forall i l j,
  nth j (pin_nth l i) true = if Nat.eqb j i then false else nth j l true.
Proof.
  induction i as [|i IH]; intros [|b l] [|j]; cbn [pin_nth nth Nat.eqb]; try reflexivity.
  - apply nth_nil_true.
  - rewrite IH, nth_nil_true. reflexivity.
  - apply IH.
Qed.

Lemma mask_get_pin m v w :
  mask_get (mask_pin m v) w = if svar_eqb w v then false else mask_get m w.
Proof.
  destruct v as [sv iv], w as [sw iw]. unfold mask_get, mask_pin, svar_eqb. cbn [fst snd].
  destruct sv, sw; cbn [fst snd Bool.eqb andb]; try reflexivity; apply pin_nth_spec.
Qed.

Lemma in_positions t0 sd i : In (sd, i) (positions t0) <-> (i < length (span_of sd t0))%nat.
Proof.
  unfold positions. rewrite in_app_iff, !in_map_iff. split.
  - intros [(x & E & Hx)|(x & E & Hx)]; injection E as <- <-; apply in_seq in Hx; cbn [span_of]; lia.
  - intros H. destruct sd; [right|left]; exists i; (split; [reflexivity|]); apply in_seq;
      cbn [span_of] in H; lia.
Qed.

Lemma in_nrange : forall len lo c, lo <= c -> c < lo + N.of_nat len -> In c (nrange lo len).
Proof.
  induction len as [|len IH]; intros lo c H1 H2; [lia|]. cbn [nrange].
  destruct (N.eq_dec lo c) as [->|Hne]; [left; reflexivity|]. right. apply IH; lia.
Qed.

Lemma forallb_false_ex {A} (f : A -> bool) : forall l, forallb f l = false -> exists x, In x l /\ f x = false.
Proof.
  induction l as [|a l IH]; cbn [forallb]; intros H; [discriminate H|].
  destruct (f a) eqn:E.
  - destruct (IH H) as (x & Hx & Hf). exists x. split; [right; exact Hx|exact Hf].
  - exists a. split; [left; reflexivity|exact E].
Qed.

Lemma shape_length sd (a b : tape) : same_shape a b -> length (span_of sd a) = length (span_of sd b).
Proof.
  intros H. apply (shape_span_of sd) in H.
  rewrite <- (map_length fst (span_of sd a)), H. apply map_length.
Qed.

Lemma lb_get_overflow (req : bounds) (sd : bool) i :
  (length (if sd then snd req else fst req) <= i)%nat -> lb_get req (sd, i) = 0.
Proof. intros H. unfold lb_get. cbn [fst snd]. apply nth_overflow. exact H. Qed.

Lemma req_fits_len (req : bounds) t0 (sd : bool) : req_fits req t0 = true ->
  (length (if sd then snd req else fst req) <= length (span_of sd t0))%nat.
Proof.
  unfold req_fits. intros H. apply andb_prop in H as [H1 H2].
  apply Nat.leb_le in H1, H2. destruct sd; cbn [span_of]; assumption.
Qed.

(** the requirement holds, or some block of the tape is below it *)
Lemma req_ok_or req t t0 : same_shape t t0 -> req_fits req t0 = true ->
  req_ok req t \/ exists v, In v (positions t0) /\ env_of t v < lb_get req v.
Proof.
  intros Hs Hfit.
  destruct (forallb (fun v => lb_get req v <=? env_of t v) (positions t0)) eqn:E.
  - left. intros [sd i]. destruct (Nat.lt_ge_cases i (length (span_of sd t0))) as [Hlt|Hge].
    + rewrite forallb_forall in E. apply N.leb_le. apply E. apply in_positions. exact Hlt.
    + rewrite lb_get_overflow; [lia|]. pose proof (req_fits_len req t0 sd Hfit). lia.
  - right. apply forallb_false_ex in E. destruct E as (v & Hv & Hf).
    exists v. split; [exact Hv|]. apply N.leb_gt. exact Hf.
Qed.

Lemma count_in_range t sd i : (i < length (span_of sd t))%nat ->
  get_count t (sd, N.of_nat i) = Ok (env_of t (sd, i)).
Proof.
  intros H. rewrite get_count_nat.
  destruct (nth_error (span_of sd t) i) as [b|] eqn:E.
  - symmetry. f_equal. apply env_of_count. rewrite get_count_nat, E. reflexivity.
  - apply nth_error_None in E. lia.
Qed.

Section CoverSound.
Variables (comp : comp_prog) (q : state) (r : rule) (cycles restarts : nat) (g : bounds).

(** every tape of the family above the floor [g] is covered by one of the
    certificates of the case split *)
Theorem cover_sound : forall fuel m t0,
  cover comp q r cycles restarts g fuel m t0 = true ->
  forall t t1, canon_tape t -> same_shape t t0 -> fixed_ok m t t0 ->
    env_ge (env_of t) g -> Shifted r 1 t t1 ->
    exists k z, (1 <= k)%nat /\
      tm_steps (to_prog comp) k (q, unroll_tape t) = Some (q, z) /\
      tape_eq z (unroll_tape t1).
Proof.
  induction fuel as [|fuel IH]; intros m t0 H t t1 Hcan Hs Hfix Hg Hsh; cbn [cover] in H; [discriminate H|].
  destruct (check_rule comp q t0 r m cycles restarts) as [n req|w req] eqn:E; [|discriminate H].
  apply andb_prop in H as [Hfit Hall].
  destruct (req_ok_or req t t0 Hs Hfit) as [Hok|([sd i] & Hv & Hlt)].
  - exact (check_rule_sound comp q t0 r m cycles restarts n req E t t1 Hcan Hs
             (same_shape_lens _ _ Hs) Hfix Hok Hsh).
  - rewrite forallb_forall in Hall. specialize (Hall _ Hv). rewrite forallb_forall in Hall.
    cbn [fst snd] in Hall.
    set (c := env_of t (sd, i)) in *.
    assert (Hin : In c (nrange (lb_get g (sd, i)) (N.to_nat (lb_get req (sd, i) - lb_get g (sd, i))))).
    { apply in_nrange; [exact (Hg (sd, i))|]. lia. }
    specialize (Hall c Hin).
    apply in_positions in Hv.
    assert (Hc0 : exists c0, get_count t0 (sd, N.of_nat i) = Ok c0).
    { exists (env_of t0 (sd, i)). apply count_in_range. exact Hv. }
    destruct Hc0 as (c0 & Hc0).
    assert (Hct : get_count t (sd, N.of_nat i) = Ok c).
    { apply count_in_range. rewrite (shape_length sd t t0 Hs). exact Hv. }
    apply (IH _ _ Hall t t1 Hcan); try assumption.
    + eapply same_shape_trans; [exact Hs|]. apply same_shape_sym. apply set_count_shape.
    + intros sd' i' Em. rewrite mask_get_pin in Em.
      destruct (svar_eqb (sd', i') (sd, i)) eqn:Ev.
      * apply svar_eqb_eq in Ev. injection Ev as -> ->.
        rewrite Hct. symmetry. eapply get_set_same. exact Hc0.
      * rewrite get_set_other; [exact (Hfix sd' i' Em)|].
        intros Heq. injection Heq as <- Hi. apply Nat2N.inj in Hi. subst i'.
        rewrite svar_eqb_refl in Ev. discriminate Ev.
Qed.
End CoverSound.
Print Assumptions cover_sound.

(** ---- the guard of rules.rs as lower bounds ---- *)
Lemma nth_map_seq {A} (f : nat -> A) d n i : (i < n)%nat -> nth i (map f (seq 0 n)) d = f i.
Proof.
  intros H. rewrite (nth_indep _ d (f O)) by (rewrite map_length, seq_length; exact H).
  rewrite map_nth, seq_nth by exact H. reflexivity.
Qed.

Lemma lb_get_guard base m r t0 sd i :
  lb_get (guard_bounds base m r t0) (sd, i) =
  if (i <? length (span_of sd t0))%nat then guard_val base m r sd i else 0.
Proof.
  unfold lb_get, guard_bounds. cbn [fst snd].
  destruct (Nat.ltb_spec i (length (span_of sd t0))) as [H|H].
  - destruct sd; cbn [span_of] in H; apply nth_map_seq; exact H.
  - destruct sd; cbn [span_of] in H; apply nth_overflow; rewrite map_length, seq_length; exact H.
Qed.

Lemma mask_get_all v : mask_get mask_all v = true.
Proof. destruct v as [[|] i]; unfold mask_get, mask_all; cbn [fst snd]; apply nth_nil_true. Qed.

Lemma canon_count_ge1 t sd i c : canon_tape t -> get_count t (sd, N.of_nat i) = Ok c -> 1 <= c.
Proof.
  intros Hc H. apply (proj2 (pos_counts_iff t) (canon_tape_counts_pos t Hc) _ _ H).
Qed.

Lemma delta_neg_in r ix : (rule_delta r ix < 0)%Z -> In (ix, Plus (rule_delta r ix)) r.
Proof.
  unfold rule_delta. destruct (srule_get r ix) as [[d|a b]|] eqn:E; try lia.
  intros _. apply srule_get_in. exact E.
Qed.

(** canonical tapes that pass the guard are above the guard bounds *)
Lemma guard_env_all r t0 t : canon_tape t -> same_shape t t0 -> rule_guard r t ->
  env_ge (env_of t) (guard_bounds 1 mask_all r t0).
Proof.
  intros Hcan Hs Hguard [sd i]. rewrite lb_get_guard.
  destruct (Nat.ltb_spec i (length (span_of sd t0))) as [Hlt|Hge]; [|lia].
  rewrite <- (shape_length sd t t0 Hs) in Hlt. pose proof (count_in_range t sd i Hlt) as Hc.
  unfold guard_val. rewrite mask_get_all. cbv zeta.
  destruct (Z.ltb_spec (rule_delta r (sd, N.of_nat i)) 0) as [Hd|Hd].
  - destruct (Hguard _ _ (delta_neg_in r _ Hd) Hd) as (c & Hc' & Habs).
    rewrite Hc in Hc'. injection Hc' as Hc'. rewrite Hc'. lia.
  - exact (canon_count_ge1 t sd i _ Hcan Hc).
Qed.

(** ITEM 6: a successful case split from the guard establishes [RuleValid] *)
Theorem cover_rule_valid comp q r t0 cycles restarts fuel :
  cover comp q r cycles restarts (guard_bounds 1 mask_all r t0) fuel mask_all t0 = true ->
  RuleValid (to_prog comp) q r t0.
Proof.
  intros H t t1 Hcan Hs _ Hsh Hguard.
  apply (cover_sound comp q r cycles restarts _ fuel mask_all t0 H t t1 Hcan Hs); [| |exact Hsh].
  - intros sd i Em. rewrite mask_get_all in Em. discriminate Em.
  - apply guard_env_all; assumption.
Qed.
Print Assumptions cover_rule_valid.

(** one certificate whose requirement is within the guard: same conclusion *)
Theorem check_rule_valid comp q r t0 cycles restarts n req :
  check_rule comp q t0 r mask_all cycles restarts = CCert n req ->
  req_fits req t0 = true ->
  (forall v, lb_get req v <= lb_get (guard_bounds 1 mask_all r t0) v) ->
  RuleValid (to_prog comp) q r t0.
Proof.
  intros H Hfit Hle t t1 Hcan Hs Hl Hsh Hguard.
  apply (check_rule_sound comp q t0 r mask_all cycles restarts n req H t t1 Hcan Hs Hl); [| |exact Hsh].
  - intros sd i Em. rewrite mask_get_all in Em. discriminate Em.
  - intros v. pose proof (guard_env_all r t0 t Hcan Hs Hguard v). specialize (Hle v). unfold req_ok. lia.
Qed.

(** hence, with [apply_sound]: the bulk application is a real run, for ALL counts *)
Theorem cover_apply_sound comp q r t0 cycles restarts fuel t times t' :
  cover comp q r cycles restarts (guard_bounds 1 mask_all r t0) fuel mask_all t0 = true ->
  canon_tape t -> same_shape t t0 -> rule_keys_nodup r ->
  apply_rule t r = Ok (Some times, t') ->
  exists n z, (N.to_nat times <= n)%nat /\
    tm_steps (to_prog comp) n (q, unroll_tape t) = Some (q, z) /\
    tape_eq z (unroll_tape t') /\ canon_tape t'.
Proof.
  intros H Hcan Hs Hnd Hap.
  exact (apply_sound (to_prog comp) q r t0 t times t' (cover_rule_valid _ _ _ _ _ _ _ H)
           Hcan Hs (same_shape_lens _ _ Hs) Hnd Hap).
Qed.
Print Assumptions cover_apply_sound.

Lemma req_within_le req g t0 : req_within req g t0 = true -> forall v, lb_get req v <= lb_get g v.
Proof.
  unfold req_within. intros H [sd i]. apply andb_prop in H as [Hfit H].
  destruct (Nat.lt_ge_cases i (length (span_of sd t0))) as [Hlt|Hge].
  - rewrite forallb_forall in H. apply N.leb_le. apply H. apply in_positions. exact Hlt.
  - rewrite lb_get_overflow; [lia|]. pose proof (req_fits_len req t0 sd Hfit). lia.
Qed.

(** ITEM 6, as stated: one certificate within the guard gives [RuleValid] *)
Theorem check_rule_guard_valid comp q r t0 cycles restarts n req :
  check_rule comp q t0 r mask_all cycles restarts = CCert n req ->
  req_le_guard r t0 req = true ->
  RuleValid (to_prog comp) q r t0.
Proof.
  intros H Hle. unfold req_le_guard in Hle. eapply check_rule_valid; [exact H| |].
  - unfold req_within in Hle. apply andb_prop in Hle as [Hfit _]. exact Hfit.
  - apply (req_within_le _ _ t0). exact Hle.
Qed.
Print Assumptions check_rule_guard_valid.

(** ================================================================== *)
(** * Bulk applications under a restricted validity                     *)

(** [RuleValid] on a subset [Dom] of the family *)
Definition RuleValidOn (P : prog) (q : state) (r : rule) (t0 : tape) (Dom : tape -> Prop) : Prop :=
  forall t t1, canon_tape t -> same_shape t t0 -> Shifted r 1 t t1 -> Dom t ->
    exists n z, (1 <= n)%nat /\ tm_steps P n (q, unroll_tape t) = Some (q, z) /\
                tape_eq z (unroll_tape t1).

(** the first [K] of the [times] single applications of a bulk application:
    enough that the tapes BEFORE each of them, t + k.r for k < K, are in [Dom] *)
Theorem apply_prefix_on P q r t0 Dom t times t' K :
  RuleValidOn P q r t0 Dom -> canon_tape t -> same_shape t t0 -> rule_keys_nodup r ->
  apply_rule t r = Ok (Some times, t') -> (K <= N.to_nat times)%nat ->
  (forall k, (k < K)%nat -> Dom (shift_tape r k t)) ->
  exists n z, (K <= n)%nat /\
    tm_steps P n (q, unroll_tape t) = Some (q, z) /\
    tape_eq z (unroll_tape (shift_tape r K t)) /\
    canon_tape (shift_tape r K t) /\ Shifted r K t (shift_tape r K t).
Proof.
  intros HV Hc Hs Hnd Hap HK HDom.
  destruct (apply_facts _ _ _ _ Hnd Hap) as (Hplus & Hvalid & Hdec & _).
  set (T := N.to_nat times) in *.
  assert (Hchain : forall k, (k <= K)%nat ->
            exists n z, (k <= n)%nat /\ tm_steps P n (q, unroll_tape t) = Some (q, z) /\
                        tape_eq z (unroll_tape (shift_tape r k t))).
  { induction k as [|k IH]; intros Hk.
    - exists 0%nat, (unroll_tape t). split; [lia|]. split; [reflexivity|].
      rewrite (shift_zero r t T); auto. apply tape_eq_refl.
    - destruct (IH ltac:(lia)) as (n & z & Hn & Hrun & Heq).
      assert (Sk : Shifted r k t (shift_tape r k t)) by (apply (shifted_k r t T); auto; lia).
      assert (Sk1 : Shifted r (S k) t (shift_tape r (S k) t)) by (apply (shifted_k r t T); auto; lia).
      assert (Hsk : same_shape (shift_tape r k t) t0).
      { eapply same_shape_trans; [exact (proj1 Sk)|exact Hs]. }
      destruct (HV (shift_tape r k t) (shift_tape r (S k) t)) as (n1 & z1 & Hn1 & Hrun1 & Heq1).
      + apply (canon_k r t T); auto. lia.
      + exact Hsk.
      + eapply shifted_step; eassumption.
      + apply HDom. lia.
      + destruct (tm_steps_eq P n1 q _ _ q z1 (tape_eq_sym _ _ Heq) Hrun1) as (w & Hrunw & Hw).
        exists (n + n1)%nat, w. split; [lia|]. split.
        * rewrite tm_steps_plus, Hrun. exact Hrunw.
        * eapply tape_eq_trans; [apply tape_eq_sym; exact Hw|exact Heq1]. }
  destruct (Hchain K (le_n _)) as (n & z & Hn & Hrun & Heq).
  exists n, z. split; [exact Hn|]. split; [exact Hrun|]. split; [exact Heq|]. split.
  - apply (canon_k r t T); auto.
  - apply (shifted_k r t T); auto.
Qed.
Print Assumptions apply_prefix_on.

(** [apply_sound] for a rule valid on [Dom]: enough that the tapes BEFORE each
    of the [times] single applications, t + k.r for k < times, are in [Dom] *)
Theorem apply_sound_on P q r t0 Dom t times t' :
  RuleValidOn P q r t0 Dom -> canon_tape t -> same_shape t t0 -> rule_keys_nodup r ->
  apply_rule t r = Ok (Some times, t') ->
  (forall k, (k < N.to_nat times)%nat -> Dom (shift_tape r k t)) ->
  exists n z, (N.to_nat times <= n)%nat /\
    tm_steps P n (q, unroll_tape t) = Some (q, z) /\
    tape_eq z (unroll_tape t') /\ canon_tape t'.
Proof.
  intros HV Hc Hs Hnd Hap HDom.
  destruct (apply_prefix_on P q r t0 Dom t times t' (N.to_nat times) HV Hc Hs Hnd Hap (le_n _) HDom)
    as (n & z & Hn & Hrun & Heq & Hcan & Hsh).
  assert (E : shift_tape r (N.to_nat times) t = t').
  { destruct (apply_facts _ _ _ _ Hnd Hap) as (Hplus & _).
    apply (shifted_unique r (N.to_nat times) t); [exact Hsh|apply apply_shifted; assumption|exact Hplus]. }
  rewrite E in *. exists n, z. auto.
Qed.
Print Assumptions apply_sound_on.

(** the domain of one certificate *)
Definition Dom_cert (m : smask) (req : bounds) (t0 t : tape) : Prop :=
  fixed_ok m t t0 /\ req_ok req t.

Lemma check_rule_on comp q t0 r m cycles restarts n req :
  check_rule comp q t0 r m cycles restarts = CCert n req ->
  RuleValidOn (to_prog comp) q r t0 (Dom_cert m req t0).
Proof.
  intros H t t1 Hcan Hs Hsh [Hfix Hreq].
  exact (check_rule_sound comp q t0 r m cycles restarts n req H t t1 Hcan Hs
           (same_shape_lens _ _ Hs) Hfix Hreq Hsh).
Qed.

(** counts of the k-fold shifted tape *)
Lemma shifted_count r k t tk : all_plus r -> Shifted r k t tk ->
  forall ix c, get_count t ix = Ok c ->
    get_count tk ix = Ok (Z.to_N (Z.of_N c + rule_delta r ix * Z.of_nat k)) /\
    (0 <= Z.of_N c + rule_delta r ix * Z.of_nat k)%Z.
Proof.
  intros Hplus (_ & _ & Hin & Hout) ix c Hc. unfold rule_delta.
  destruct (srule_get r ix) as [[d|a b]|] eqn:Eg.
  - apply srule_get_in in Eg. destruct (Hin _ _ Eg) as (c' & Hc' & Hck & Hge).
    rewrite Hc in Hc'. injection Hc' as <-. split; assumption.
  - apply srule_get_in in Eg. destruct (Hplus _ _ Eg) as (d & Hd). discriminate Hd.
  - rewrite (Hout _ (srule_get_none _ _ Eg)), Hc. split; [f_equal|]; lia.
Qed.

Lemma env_of_out t sd i : (length (span_of sd t) <= i)%nat -> get_count t (sd, N.of_nat i) = Panic.
Proof.
  intros H. rewrite get_count_nat. apply nth_error_None in H. rewrite H. reflexivity.
Qed.

(** the decidable condition on (tape before, times): every tape before a
    single application of the bulk application is in the domain of the certificate *)
Lemma covered_dom m req t0 t r times :
  app_covered m req t0 t r times = true -> all_plus r -> same_shape t t0 ->
  forall k tk, (k < N.to_nat times)%nat -> Shifted r k t tk -> Dom_cert m req t0 tk.
Proof.
  unfold app_covered. intros H Hplus Hs k tk Hk Hsh.
  apply andb_prop in H as [Hfit H]. rewrite forallb_forall in H.
  assert (Hstk : same_shape tk t0) by (eapply same_shape_trans; [exact (proj1 Hsh)|exact Hs]).
  split.
  - intros sd i Em.
    destruct (Nat.lt_ge_cases i (length (span_of sd t0))) as [Hlt|Hge].
    + specialize (H (sd, i) (proj2 (in_positions t0 sd i) Hlt)). cbn [fst snd] in H.
      apply andb_prop in H as [_ H]. rewrite Em in H. cbn [orb] in H.
      apply andb_prop in H as [H1 H2]. apply N.eqb_eq in H1. apply Z.eqb_eq in H2.
      assert (Hlt' : (i < length (span_of sd t))%nat) by (rewrite (shape_length sd t t0 Hs); exact Hlt).
      pose proof (count_in_range t sd i Hlt') as Hc.
      destruct (shifted_count r k t tk Hplus Hsh _ _ Hc) as [Hck _].
      rewrite Hck, H2, (count_in_range t0 sd i Hlt). unfold env_of in *. rewrite <- H1. f_equal. lia.
    + rewrite !env_of_out; [reflexivity|exact Hge|rewrite (shape_length sd tk t0 Hstk); exact Hge].
  - intros [sd i].
    destruct (Nat.lt_ge_cases i (length (span_of sd t0))) as [Hlt|Hge].
    + specialize (H (sd, i) (proj2 (in_positions t0 sd i) Hlt)). cbn [fst snd] in H.
      apply andb_prop in H as [H _]. apply Z.leb_le in H.
      assert (Hlt' : (i < length (span_of sd t))%nat) by (rewrite (shape_length sd t t0 Hs); exact Hlt).
      pose proof (count_in_range t sd i Hlt') as Hc.
      destruct (shifted_count r k t tk Hplus Hsh _ _ Hc) as [Hck Hge].
      rewrite (env_of_count tk sd i _ Hck). unfold env_of in *.
      set (d := rule_delta r (sd, N.of_nat i)) in *. set (c := count_at t (sd, i)) in *.
      destruct (Z.ltb_spec d 0) as [Hd|Hd]; nia.
    + rewrite lb_get_overflow; [lia|]. pose proof (req_fits_len req t0 sd Hfit). lia.
Qed.

(** ITEM 6, second half: a certificate that is valid only above [req] still
    covers every bulk application whose last intermediate tape satisfies
    [req] -- the decidable condition [app_covered] on (tape before, times) *)
Theorem apply_sound_above comp q t0 r m cycles restarts n req t times t' :
  check_rule comp q t0 r m cycles restarts = CCert n req ->
  app_covered m req t0 t r times = true ->
  canon_tape t -> same_shape t t0 -> rule_keys_nodup r ->
  apply_rule t r = Ok (Some times, t') ->
  exists k z, (N.to_nat times <= k)%nat /\
    tm_steps (to_prog comp) k (q, unroll_tape t) = Some (q, z) /\
    tape_eq z (unroll_tape t') /\ canon_tape t'.
Proof.
  intros H Hcov Hcan Hs Hnd Hap.
  destruct (apply_facts _ _ _ _ Hnd Hap) as (Hplus & Hvalid & Hdec & _).
  apply (apply_sound_on (to_prog comp) q r t0 (Dom_cert m req t0) t times t'
           (check_rule_on _ _ _ _ _ _ _ _ _ H) Hcan Hs Hnd Hap).
  intros k Hk. apply (covered_dom m req t0 t r times Hcov Hplus Hs k); [exact Hk|].
  apply (shifted_k r t (N.to_nat times)); auto. lia.
Qed.
Print Assumptions apply_sound_above.

(** the same for the first [K] single applications only: the certificate
    takes the run from [t] to [t + K.r] whenever the tapes t + k.r, k < K, are
    above the threshold ([app_covered .. K]); the remaining [times - K]
    applications, which start below the threshold, are single applications
    between consecutive tapes t + k.r and can be replayed concretely *)
Theorem apply_prefix_above comp q t0 r m cycles restarts n req t times t' K :
  check_rule comp q t0 r m cycles restarts = CCert n req ->
  K <= times -> app_covered m req t0 t r K = true ->
  canon_tape t -> same_shape t t0 -> rule_keys_nodup r ->
  apply_rule t r = Ok (Some times, t') ->
  exists k z, (N.to_nat K <= k)%nat /\
    tm_steps (to_prog comp) k (q, unroll_tape t) = Some (q, z) /\
    tape_eq z (unroll_tape (shift_tape r (N.to_nat K) t)) /\
    canon_tape (shift_tape r (N.to_nat K) t) /\
    Shifted r (N.to_nat K) t (shift_tape r (N.to_nat K) t).
Proof.
  intros H HK Hcov Hcan Hs Hnd Hap.
  destruct (apply_facts _ _ _ _ Hnd Hap) as (Hplus & Hvalid & Hdec & _).
  apply (apply_prefix_on (to_prog comp) q r t0 (Dom_cert m req t0) t times t' (N.to_nat K)
           (check_rule_on _ _ _ _ _ _ _ _ _ H) Hcan Hs Hnd Hap); [lia|].
  intros k Hk. apply (covered_dom m req t0 t r K Hcov Hplus Hs k); [exact Hk|].
  apply (shifted_k r t (N.to_nat times)); auto. lia.
Qed.
Print Assumptions apply_prefix_above.

Lemma shift_tape_N_eq r K t : shift_tape_N r K t = shift_tape r (N.to_nat K) t.
Proof.
  unfold shift_tape_N, shift_tape, write_all, shift_list. f_equal. apply map_ext.
  intros e. f_equal. unfold shift_val_N, shift_val. rewrite N_nat_Z. reflexivity.
Qed.

Lemma max_covered_spec m req t0 t r times K :
  max_covered m req t0 t r times = K ->
  K = 0 \/ (K <= times /\ app_covered m req t0 t r K = true).
Proof.
  unfold max_covered. set (K' := bsearch _ _ _ _).
  destruct ((1 <=? K') && (K' <=? times) && app_covered m req t0 t r K') eqn:E; intros <-; [|left; reflexivity].
  apply andb_prop in E as [E E3]. apply andb_prop in E as [_ E2]. apply N.leb_le in E2.
  right. split; assumption.
Qed.

(** what the runner's [symsplit] answers: the certificate takes the run
    from [t] to [shift_tape_N r K t] for K = [max_covered ..] *)
Theorem apply_split_above comp q t0 r m cycles restarts n req t times t' :
  check_rule comp q t0 r m cycles restarts = CCert n req ->
  canon_tape t -> same_shape t t0 -> rule_keys_nodup r ->
  apply_rule t r = Ok (Some times, t') ->
  let K := max_covered m req t0 t r times in
  exists k z, (N.to_nat K <= k)%nat /\
    tm_steps (to_prog comp) k (q, unroll_tape t) = Some (q, z) /\
    tape_eq z (unroll_tape (shift_tape_N r K t)) /\
    canon_tape (shift_tape_N r K t) /\
    Shifted r (N.to_nat K) t (shift_tape_N r K t).
Proof.
  intros H Hcan Hs Hnd Hap K. rewrite shift_tape_N_eq.
  destruct (max_covered_spec m req t0 t r times K eq_refl) as [E|[HK Hcov]].
  - rewrite E. destruct (apply_facts _ _ _ _ Hnd Hap) as (Hplus & Hvalid & Hdec & _).
    exists 0%nat, (unroll_tape t). cbn [N.to_nat].
    rewrite (shift_zero r t (N.to_nat times)); auto.
    split; [lia|]. split; [reflexivity|]. split; [apply tape_eq_refl|]. split; [exact Hcan|].
    apply shifted_zero. exact Hvalid.
  - exact (apply_prefix_above comp q t0 r m cycles restarts n req t times t' K H HK Hcov Hcan Hs Hnd Hap).
Qed.
Print Assumptions apply_split_above.

(** ================================================================== *)
(** * The tapes the prover applies a rule to: same signature + guard     *)

Lemma nth_map_default {A B} (f : A -> B) d : forall l i,
  nth i (map f l) d = match nth_error l i with Some x => f x | None => d end.
Proof. induction l as [|a l IH]; intros [|i]; cbn [map nth nth_error]; auto. Qed.

Lemma mask_get_sig t0 sd i :
  mask_get (mask_sig t0) (sd, i) =
  match nth_error (span_of sd t0) i with Some b => negb (snd b =? 1) | None => true end.
Proof.
  unfold mask_get, mask_sig, mask_sig_span. cbn [fst snd].
  destruct sd; cbn [span_of]; apply nth_map_default.
Qed.

Lemma block_cc_eq x y : block_cc x = block_cc y -> fst x = fst y /\ (snd x =? 1) = (snd y =? 1).
Proof.
  unfold block_cc. destruct (snd x =? 1), (snd y =? 1); intros H; inversion H; split; reflexivity.
Qed.

Lemma span_sig_colours s : map cc_color (span_sig s) = map fst s.
Proof.
  unfold span_sig. rewrite map_map. apply map_ext. intros b. unfold block_cc.
  destruct (snd b =? 1); reflexivity.
Qed.

Lemma sig_span_of sd t t0 : tape_sig t = tape_sig t0 -> span_sig (span_of sd t) = span_sig (span_of sd t0).
Proof. unfold tape_sig. intros H. injection H as _ Hl Hr. destruct sd; assumption. Qed.

Lemma sig_same_shape t t0 : tape_sig t = tape_sig t0 -> same_shape t t0.
Proof.
  intros H. pose proof (sig_span_of false _ _ H) as Hl. pose proof (sig_span_of true _ _ H) as Hr.
  cbn [span_of] in Hl, Hr. unfold tape_sig in H. injection H as Hsc _ _.
  split; [exact Hsc|]. rewrite <- !span_sig_colours, Hl, Hr. split; reflexivity.
Qed.

Lemma sig_nth (a b : span) i x : span_sig a = span_sig b -> nth_error a i = Some x ->
  exists y, nth_error b i = Some y /\ fst x = fst y /\ (snd x =? 1) = (snd y =? 1).
Proof.
  intros H Hx. assert (E : nth_error (span_sig a) i = Some (block_cc x)).
  { unfold span_sig. rewrite nth_error_map, Hx. reflexivity. }
  rewrite H in E. unfold span_sig in E. rewrite nth_error_map in E.
  destruct (nth_error b i) as [y|]; [|discriminate E]. cbn [option_map] in E. injection E as E.
  exists y. split; [reflexivity|]. apply block_cc_eq. symmetry. exact E.
Qed.

Lemma span_sig_ext : forall a b : span, map fst a = map fst b ->
  (forall i x y, nth_error a i = Some x -> nth_error b i = Some y -> (snd x =? 1) = (snd y =? 1)) ->
  span_sig a = span_sig b.
Proof.
  induction a as [|x a IH]; intros [|y b] Hc Hn; cbn [map] in Hc; try discriminate Hc; [reflexivity|].
  injection Hc as Hc1 Hc2. cbn [span_sig map]. f_equal.
  - unfold block_cc. rewrite (Hn O x y eq_refl eq_refl), Hc1. reflexivity.
  - apply IH; [exact Hc2|]. intros i x' y' Hx Hy. exact (Hn (S i) x' y' Hx Hy).
Qed.

Definition Dom_sig (r : rule) (t0 t : tape) : Prop := tape_sig t = tape_sig t0 /\ rule_guard r t.

Section Sig.
Variables (comp : comp_prog) (q : state) (r : rule) (cycles restarts fuel : nat) (t0 : tape).
Hypothesis Hcover : cover_sig comp q r cycles restarts fuel t0 = true.

(** one application is a real run on every tape with the signature of [t0]
    that passes the guard *)
Theorem cover_sig_valid : RuleValidOn (to_prog comp) q r t0 (Dom_sig r t0).
Proof.
  unfold cover_sig in Hcover. apply andb_prop in Hcover as [_ H].
  intros t t1 Hcan Hs Hsh [Hsig Hguard].
  apply (cover_sound comp q r cycles restarts _ fuel (mask_sig t0) t0 H t t1 Hcan Hs); [| |exact Hsh].
  - intros sd i Em. rewrite mask_get_sig in Em.
    destruct (nth_error (span_of sd t0) i) as [b0|] eqn:E0; [|discriminate Em].
    destruct (sig_nth _ _ i b0 (eq_sym (sig_span_of sd _ _ Hsig)) E0) as (b & Eb & _ & H1).
    rewrite !get_count_nat, E0, Eb. f_equal.
    destruct (N.eqb_spec (snd b0) 1) as [E1|E1]; [|discriminate Em].
    symmetry in H1. apply N.eqb_eq in H1. congruence.
  - intros [sd i]. rewrite lb_get_guard.
    destruct (Nat.ltb_spec i (length (span_of sd t0))) as [Hlt|Hge]; [|lia].
    pose proof Hlt as Hlt'. rewrite <- (shape_length sd t t0 Hs) in Hlt'.
    pose proof (count_in_range t sd i Hlt') as Hc.
    unfold guard_val. destruct (mask_get (mask_sig t0) (sd, i)) eqn:Em; [|lia]. cbv zeta.
    destruct (Z.ltb_spec (rule_delta r (sd, N.of_nat i)) 0) as [Hd|Hd].
    + destruct (Hguard _ _ (delta_neg_in r _ Hd) Hd) as (c & Hc' & Habs).
      rewrite Hc in Hc'. injection Hc' as Hc'. rewrite Hc'. lia.
    + rewrite mask_get_sig in Em.
      destruct (nth_error (span_of sd t0) i) as [b0|] eqn:E0; [|apply nth_error_None in E0; lia].
      destruct (sig_nth _ _ i b0 (eq_sym (sig_span_of sd _ _ Hsig)) E0) as (b & Eb & _ & H1).
      pose proof (canon_count_ge1 t sd i _ Hcan Hc) as Hge1.
      assert (Ecb : env_of t (sd, i) = snd b).
      { apply env_of_count. rewrite get_count_nat, Eb. reflexivity. }
      rewrite Ecb in *. destruct (N.eqb_spec (snd b0) 1) as [E1|E1]; [discriminate Em|].
      destruct (N.eqb_spec (snd b) 1) as [E2|E2]; [discriminate H1|]. lia.
Qed.

(** the signature is kept along a bulk application (before its last step) *)
Lemma sig_kept t T k : canon_tape t -> tape_sig t = tape_sig t0 -> all_plus r ->
  (forall ix d, In (ix, Plus d) r -> (d < 0)%Z ->
     exists c, get_count t ix = Ok c /\ (1 <= Z.of_N c + d * Z.of_nat T)%Z) ->
  (k < T)%nat -> forall tk, Shifted r k t tk -> tape_sig tk = tape_sig t0.
Proof.
  intros Hcan Hsig Hplus Hdec Hk tk Hsh. rewrite <- Hsig.
  unfold cover_sig in Hcover. apply andb_prop in Hcover as [Hmult _].
  unfold rule_on_mult in Hmult. rewrite forallb_forall in Hmult.
  pose proof (proj1 Hsh) as Hs.
  assert (Hspan : forall sd, span_sig (span_of sd tk) = span_sig (span_of sd t)).
  { intros sd. apply span_sig_ext; [apply shape_span_of; exact Hs|].
    intros i x y Hx Hy.
    assert (Hc : get_count t (sd, N.of_nat i) = Ok (snd y)) by (rewrite get_count_nat, Hy; reflexivity).
    destruct (shifted_count r k t tk Hplus Hsh _ _ Hc) as [Hck Hge].
    rewrite get_count_nat, Hx in Hck. injection Hck as Hck. rewrite Hck.
    pose proof (canon_count_ge1 t sd i _ Hcan Hc) as Hy1.
    set (d := rule_delta r (sd, N.of_nat i)) in *.
    destruct (Z.compare_spec d 0) as [Hd|Hd|Hd].
    - rewrite Hd. f_equal. lia.
    - destruct (Hdec _ _ (delta_neg_in r _ Hd) Hd) as (c' & Hc' & Hge').
      rewrite Hc in Hc'. injection Hc' as <-. fold d in Hge'.
      assert (H2 : (2 <= Z.of_N (snd y) + d * Z.of_nat k)%Z) by nia.
      assert (H3 : 2 <= snd y) by nia.
      destruct (N.eqb_spec (Z.to_N (Z.of_N (snd y) + d * Z.of_nat k)) 1);
        destruct (N.eqb_spec (snd y) 1); try reflexivity; lia.
    - assert (Hin : In ((sd, N.of_nat i), Plus d) r).
      { unfold d, rule_delta in *. destruct (srule_get r (sd, N.of_nat i)) as [[d'|a b]|] eqn:Eg; try lia.
        apply srule_get_in. exact Eg. }
      specialize (Hmult _ Hin). cbn [fst snd] in Hmult. rewrite Nat2N.id in Hmult.
      destruct (sig_nth _ _ i y (sig_span_of sd _ _ Hsig) Hy) as (b0 & Eb0 & _ & H1).
      assert (E0 : count_at t0 (sd, i) = snd b0).
      { apply (env_of_count t0). rewrite get_count_nat, Eb0. reflexivity. }
      rewrite E0 in Hmult.
      destruct (N.eqb_spec (snd b0) 1) as [E1|E1]; [discriminate Hmult|].
      destruct (N.eqb_spec (snd y) 1) as [E2|E2]; [discriminate H1|].
      assert (H2 : (2 <= Z.of_N (snd y) + d * Z.of_nat k)%Z) by nia.
      destruct (N.eqb_spec (Z.to_N (Z.of_N (snd y) + d * Z.of_nat k)) 1); [lia|reflexivity]. }
  unfold tape_sig. f_equal; [exact (proj1 Hs)|exact (Hspan false)|exact (Hspan true)].
Qed.

(** the bulk application, on a tape with the signature of [t0]: what
    run_prover does when the signature matches exactly *)
Theorem cover_sig_apply_sound t times t' :
  canon_tape t -> tape_sig t = tape_sig t0 -> rule_keys_nodup r ->
  apply_rule t r = Ok (Some times, t') ->
  exists n z, (N.to_nat times <= n)%nat /\
    tm_steps (to_prog comp) n (q, unroll_tape t) = Some (q, z) /\
    tape_eq z (unroll_tape t') /\ canon_tape t'.
Proof.
  intros Hcan Hsig Hnd Hap.
  destruct (apply_facts _ _ _ _ Hnd Hap) as (Hplus & Hvalid & Hdec & _).
  pose proof (sig_same_shape _ _ Hsig) as Hs.
  apply (apply_sound_on (to_prog comp) q r t0 (Dom_sig r t0) t times t' cover_sig_valid Hcan Hs Hnd Hap).
  intros k Hk. split.
  - apply (sig_kept t (N.to_nat times) k Hcan Hsig Hplus Hdec Hk).
    apply (shifted_k r t (N.to_nat times)); auto. lia.
  - apply (guard_k r t (N.to_nat times)); auto.
Qed.
End Sig.
Print Assumptions cover_sig_valid.
Print Assumptions cover_sig_apply_sound.

(** ================================================================== *)
(** * Discharging the hypothesis [apps_valid] of the run theorems       *)
From BB Require Import MachineModel ProverModel ProverSound.

(** every rule applied in a run passes the complete symbolic check on the
    family of the tape it was applied to *)
Definition apps_certified (comp : comp_prog) (cycles restarts fuel : nat) (apps : list rule_app) : bool :=
  forallb (fun a =>
    cover comp (app_state a) (app_rule a) cycles restarts
          (guard_bounds 1 mask_all (app_rule a) (app_before a)) fuel mask_all (app_before a)) apps.

Theorem apps_certified_valid comp cycles restarts fuel apps :
  apps_certified comp cycles restarts fuel apps = true -> apps_valid (to_prog comp) apps.
Proof.
  unfold apps_certified. rewrite forallb_forall. intros H a Ha.
  exact (cover_rule_valid comp _ _ _ cycles restarts fuel (H a Ha)).
Qed.
Print Assumptions apps_certified_valid.
