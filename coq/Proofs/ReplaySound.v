(** Soundness of the replay checker: a [true] answer exhibits a run of real
    machine steps between the two configurations. *)
From BB Require Import Base TM TMabs TapeModel InstrsModel ReplayModel.
From BB Require Import TapeCanon TapeObs StepSim Loops QuickSim AbsEquiv TranslatedCycle RecSound.
Open Scope N_scope.

Section Replay.
Variable comp : comp_prog.
Let P := to_prog comp.

(** zipper-level version of one compressed cycle *)
Lemma cycle_tm q t color sh q' t' stepped z :
  canon_tape t -> tape_eq z (unroll_tape t) ->
  cp_get comp (q, scan t) = Some (color, sh, q') ->
  step t sh color (q =? q') = (t', stepped) ->
  exists z', tm_steps P (N.to_nat stepped) (q, z) = Some (q', z') /\ tape_eq z' (unroll_tape t') /\
             (1 <= N.to_nat stepped)%nat.
Proof.
  intros Hcan Hz Hget Hstep.
  set (c := mkA q 0%Z (abs_of z 0%Z)).
  assert (Hrep : arep c q (mkHT 0%Z t)).
  { unfold arep, c. cbn [a_q a_h a_t ht_head ht_tape]. split; [reflexivity|]. split; [reflexivity|].
    apply abs_of_tape_eq. exact Hz. }
  destruct (cycle_abs comp q t 0%Z color sh q' t' stepped c Hcan Hrep Hget Hstep)
    as (n & c' & Hn & Hn1 & Hrun & (Cq & Ch & Ct) & _).
  subst n. cbn [ht_head ht_tape] in *.
  pose proof (zipper_abs_steps P (N.to_nat stepped) q z 0%Z) as Hzs. fold c in Hzs. fold P in Hrun.
  match type of Hzs with match ?x with _ => _ end => set (r := x) in Hzs end.
  change (tm_steps P (N.to_nat stepped) (q, z)) with r. clearbody r.
  destruct r as [[q'' z'']|].
  - destruct Hzs as (h'' & t'' & Ha & He). rewrite Hrun in Ha. inversion Ha; subst c'.
    cbn [a_q a_h a_t] in *. subst q''. exists z''. split; [reflexivity|]. split; [|exact Hn1].
    apply (abs_of_tape_eq_inv z'' _ h''). eapply aeq_trans; [apply aeq_sym; exact He|].
    rewrite Ch. exact Ct.
  - rewrite Hrun in Hzs. discriminate.
Qed.

Lemma tm_steps_add a b c0 :
  tm_steps P (a + b) c0 = match tm_steps P a c0 with Some c1 => tm_steps P b c1 | None => None end.
Proof.
  revert c0. induction a as [|a IH]; intro c0; [reflexivity|].
  cbn [Nat.add tm_steps]. destruct (tm_step P c0); [apply IH|reflexivity].
Qed.

Lemma replay_iter m : forall q t n z tq tt,
  canon_tape t -> tape_eq z (unroll_tape t) ->
  iter_nat m (replay_body comp tq tt) (q, t, n) = inr true ->
  exists k z', tm_steps P k (q, z) = Some (tq, z') /\ tape_eq z' (unroll_tape tt) /\
               (n = 0 -> (1 <= k)%nat).
Proof.
  induction m as [|m IH]; intros q t n z tq tt Hcan Hz H; [discriminate|].
  cbn [iter_nat] in H. unfold replay_body in H at 1.
  destruct ((0 <? n) && (q =? tq) && tape_eqb t tt) eqn:Ehit.
  - apply andb_prop in Ehit as [E1 E3]. apply andb_prop in E1 as [E1 E2].
    apply N.ltb_lt in E1. apply N.eqb_eq in E2. apply tape_eqb_eq in E3. subst tq tt.
    exists O, z. split; [reflexivity|]. split; [exact Hz|]. intro; lia.
  - destruct (cp_get comp (q, scan t)) as [[[color sh] q']|] eqn:Eget; [|discriminate].
    destruct ((q =? q') && at_edge t sh); [discriminate|].
    destruct (step t sh color (q =? q')) as [t' stepped] eqn:Estep. cbn [fst] in H.
    destruct (cycle_tm q t color sh q' t' stepped z Hcan Hz Eget Estep) as (z1 & Hrun & Hz1 & Hk).
    assert (Hcan' : canon_tape t').
    { replace t' with (fst (step t sh color (q =? q'))) by (rewrite Estep; reflexivity).
      apply canon_step. exact Hcan. }
    destruct (IH q' t' (n + 1) z1 tq tt Hcan' Hz1 H) as (k & z' & Hk' & Hz' & _).
    exists (N.to_nat stepped + k)%nat, z'. split.
    + rewrite tm_steps_add, Hrun. exact Hk'.
    + split; [exact Hz'|]. intro; lia.
Qed.

Theorem replay_sound q t tq tt fuel :
  canon_tape t -> replay comp q t tq tt fuel = true ->
  exists k z', (1 <= k)%nat /\ tm_steps P k (q, unroll_tape t) = Some (tq, z') /\
               tape_eq z' (unroll_tape tt).
Proof.
  intros Hcan H. unfold replay in H. rewrite for_upto_iter in H.
  destruct (iter_nat (N.to_nat fuel) (replay_body comp tq tt) (q, t, 0)) as [s|b] eqn:E; [discriminate|].
  subst b.
  destruct (replay_iter _ q t 0 (unroll_tape t) tq tt Hcan (tape_eq_refl _) E) as (k & z' & A & B & C).
  exists k, z'. split; [apply C; reflexivity|]. split; assumption.
Qed.
End Replay.

Print Assumptions replay_sound.

(** the three-valued checker reports "reached" exactly when [replay] says true *)
Lemma replay3_body_rel comp tq tt s :
  match replay3_body comp tq tt s, replay_body comp tq tt s with
  | inl a, inl b => a = b
  | inr (RpReached _), inr true => True
  | inr (RpStopped _), inr false => True
  | _, _ => False
  end.
Proof.
  destruct s as [[q t] n]. unfold replay3_body, replay_body.
  destruct ((0 <? n) && (q =? tq) && tape_eqb t tt); [exact I|].
  destruct (cp_get comp (q, scan t)) as [[[color sh] q']|]; [|exact I].
  destruct ((q =? q') && at_edge t sh); [exact I|reflexivity].
Qed.

Theorem replay3_reached comp q t tq tt fuel n :
  replay3 comp q t tq tt fuel = RpReached n -> replay comp q t tq tt fuel = true.
Proof.
  unfold replay3, replay. rewrite !for_upto_iter.
  generalize (N.to_nat fuel) as m. generalize (q, t, 0) as s.
  intros s m. revert s. induction m as [|m IH]; intros s H; [discriminate|].
  cbn [iter_nat] in *. pose proof (replay3_body_rel comp tq tt s) as R.
  destruct (replay3_body comp tq tt s) as [a|r3] eqn:E3.
  - destruct (replay_body comp tq tt s) as [b|rb] eqn:Eb; [|destruct rb; contradiction].
    subst b. apply IH. exact H.
  - destruct (replay_body comp tq tt s) as [b|rb] eqn:Eb.
    + destruct r3; contradiction.
    + destruct r3 as [c|c|]; destruct rb; try contradiction; try discriminate; reflexivity.
Qed.
Print Assumptions replay3_reached.
