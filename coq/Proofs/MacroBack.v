(** C09 layer 3 — the backsymbol logic (macros.rs:235-335).

    Window = scanned cell + the k remembered cells.  [calc_back P fx k Q C]
    is the backsymbol macro of the plain base program [P] as a pure function
    of the slot ([fx] = the model switch [lg_split_fix]: false = the code as
    written, [split_at(self.cells - 1)], macros.rs:320; true = repaired).

    For the REPAIRED logic: soundness of a computed instruction
    ([calc_back_sound]), "no instruction <-> halts inside / never leaves"
    ([calc_back_none], the => direction under the counting hypothesis that
    [sim_lim] covers all boundary configurations, which holds for k <= 1
    only), agreement with the stateful object ([macro_calculate_back]) and
    the run theorem ([back_run_sim]).  For the FAITHFUL logic: it agrees with
    the repaired one whenever the window is left on the right
    ([calc_back_right_exit_eq]) and is refuted on a concrete slot
    ([back_refuted]). *)
From BB Require Import Base TM TMabs MacroSpec InstrsModel MacrosModel Loops TranslatedCycle AbsEquiv.
From BB Require Import MacroSim MacroPure MacroBlock.
Open Scope N_scope.

Definition back_logic (fx : bool) (k Q C : N) : logic :=
  mkLogic LkBacksymbol k Q C (C ^ k) fx.

(** everything the logic computes fits in a u64 *)
Definition back_fits (k Q C : N) : Prop :=
  C ^ k <= u64_max /\ 2 * Q * C ^ k * C <= u64_max.

Lemma back_new_ok fx k Q C :
  1 <= C -> C ^ k <= u64_max -> backsymbol_new fx k (Q, C) = Ok (back_logic fx k Q C).
Proof.
  intros HC Hf. unfold backsymbol_new. cbn [fst snd]. rewrite (pow_u64_ok C k HC Hf). reflexivity.
Qed.

Lemma back_sim_lim fx k Q C :
  1 <= C -> back_fits k Q C -> macro_sim_lim (back_logic fx k Q C) = Ok (2 * Q * C ^ k * C).
Proof.
  intros HC (F1 & F2). unfold macro_sim_lim, macro_states, macro_colors, back_logic.
  cbn [lg_kind lg_base_states lg_backsymbols lg_base_colors].
  pose proof (pow_ge_1 C k HC) as Hp. set (M := C ^ k) in *.
  assert (H1 : 2 * Q * 1 <= 2 * Q * M) by (apply N.mul_le_mono_l; lia).
  assert (H2 : 2 * Q * M * 1 <= 2 * Q * M * C) by (apply N.mul_le_mono_l; lia).
  rewrite chk_mul_ok by lia. cbn [obind].
  rewrite chk_mul_ok by lia. cbn [obind].
  rewrite chk_mul_ok by exact F2. reflexivity.
Qed.

(** the backsymbol macro as a pure function *)
Definition calc_back (P : prog) (fx : bool) (k Q C : N) (sl : slot) : option instr :=
  match fst (run_simulator unit (pget P) (back_logic fx k Q C)
               (back_state C k (fst sl),
                (negb (fst sl mod 2 =? 1), back_in_window C k (fst sl) (snd sl))) tt) with
  | Ok (Some (st', (side, tp'))) =>
      match backsymbol_split (back_logic fx k Q C) (negb side) tp' with
      | Ok (bs, col) =>
          Some (col, negb side, (if negb side then 1 else 0) + 2 * (st' * C ^ k + encode C bs))
      | Panic => None
      end
  | _ => None
  end.

(** ---- list and arithmetic facts ---- *)
Lemma skipn_last (l : list colour) n : length l = S n -> skipn n l = [nth n l 0].
Proof.
  revert l. induction n as [|n IH]; intros [|x l] H; cbn [length] in H; try lia.
  - destruct l; [reflexivity|cbn [length] in H; lia].
  - cbn [skipn nth]. apply IH. lia.
Qed.

Lemma firstn_last (l : list colour) n : length l = S n -> firstn n l ++ [nth n l 0] = l.
Proof. intro H. rewrite <- (skipn_last l n H). apply firstn_skipn. Qed.

Lemma Forall_firstn_ (Qp : colour -> Prop) n (l : list colour) : Forall Qp l -> Forall Qp (firstn n l).
Proof.
  intro H. revert n. induction H as [|x l Hx Hl IH]; intros [|n]; cbn [firstn]; constructor; auto.
Qed.

Lemma back_unpack B st bsv (bit : bool) :
  bsv < B ->
  let ms := (if bit then 1 else 0) + 2 * (st * B + bsv) in
  ms mod 2 = (if bit then 1 else 0) /\ (ms / 2) / B = st /\ (ms / 2) mod B = bsv.
Proof.
  intros Hb ms.
  assert (H2 : ms / 2 = st * B + bsv).
  { unfold ms. destruct bit; symmetry;
      [apply (N.div_unique _ _ _ 1)|apply (N.div_unique _ _ _ 0)]; lia. }
  split; [|split].
  - unfold ms. destruct bit; symmetry; apply (N.mod_unique _ _ (st * B + bsv)); lia.
  - rewrite H2. symmetry. apply (N.div_unique _ _ _ bsv); [exact Hb|lia].
  - rewrite H2. symmetry. apply (N.mod_unique _ _ st); [exact Hb|lia].
Qed.

(** what the repaired [split_at] returns on a window of k+1 cells *)
Lemma split_fix_left k Q C tp' :
  length tp' = S (N.to_nat k) ->
  backsymbol_split (back_logic true k Q C) true tp' =
  Ok (firstn (N.to_nat k) tp', nth (N.to_nat k) tp' 0).
Proof.
  intro Hl. unfold backsymbol_split, back_logic. cbn [lg_split_fix lg_cells obind].
  destruct (N.ltb_spec (mt_len tp') k) as [L|_]; [unfold mt_len in L; lia|].
  unfold mt_drop, mt_take. rewrite (skipn_last tp' _ Hl). reflexivity.
Qed.

Lemma split_right lg tp' :
  tp' <> [] -> backsymbol_split lg false tp' = Ok (tl tp', hd 0 tp').
Proof. intro H. destruct tp' as [|c r]; [contradiction|reflexivity]. Qed.

Section Back.
Variables (P : prog) (k Q C : N).
Hypothesis HC : 1 <= C.
Hypothesis Hfit : back_fits k Q C.
Hypothesis HW : prog_within_P P Q C.

Let kn := N.to_nat k.
Let B := C ^ k.
Notation lgf := (back_logic true k Q C).

Lemma B_pos : 0 < B.
Proof. unfold B. pose proof (pow_ge_1 C k HC). lia. Qed.

Lemma span_length ms : length (back_span C k ms) = kn.
Proof. unfold back_span. apply decode_length. Qed.

Lemma span_Forall ms : Forall (ltC C) (back_span C k ms).
Proof. unfold back_span. apply decode_Forall. lia. Qed.

Lemma in_window_length ms mc : length (back_in_window C k ms mc) = S kn.
Proof.
  unfold back_in_window. destruct (ms mod 2 =? 1).
  - cbn [length]. rewrite span_length. reflexivity.
  - rewrite app_length, span_length. cbn [length]. lia.
Qed.

Lemma in_window_ne ms mc : back_in_window C k ms mc <> [].
Proof. intro E. pose proof (in_window_length ms mc) as H. rewrite E in H. discriminate. Qed.

Lemma in_window_Forall ms mc : mc < C -> Forall (ltC C) (back_in_window C k ms mc).
Proof.
  intro Hmc. unfold back_in_window. destruct (ms mod 2 =? 1).
  - constructor; [exact Hmc|apply span_Forall].
  - apply Forall_app. split; [apply span_Forall|]. constructor; [exact Hmc|constructor].
Qed.

(** the exit tape has k+1 cells *)
Lemma back_exit_length fx ms mc st' side tp' :
  fst (run_simulator unit (pget P) (back_logic fx k Q C)
         (back_state C k ms, (negb (ms mod 2 =? 1), back_in_window C k ms mc)) tt)
    = Ok (Some (st', (side, tp'))) ->
  length tp' = S kn.
Proof.
  intro Er.
  pose proof (run_simulator_sound P (back_logic fx k Q C) (back_state C k ms)
                (negb (ms mod 2 =? 1)) (back_in_window C k ms mc) _ 0%Z _
                (back_sim_lim fx k Q C HC Hfit) (in_window_ne ms mc) (win_at_self _)) as HS.
  rewrite Er in HS. destruct HS as [HS _]. rewrite in_window_length in HS. exact HS.
Qed.

(** SOUNDNESS of an instruction computed by the repaired logic *)
Theorem calc_back_sound ms mc mc' sh ms' :
  mc < C ->
  calc_back P true k Q C (ms, mc) = Some (mc', sh, ms') ->
  (forall lo t, win_at t lo (back_in_window C k ms mc) ->
     leaves P lo (S kn)
            (mkA (back_state C k ms) (entry_pos (negb (ms mod 2 =? 1)) lo (S kn)) t)
            (negb sh) (back_state C k ms') (back_out_window C k ms' mc' sh)) /\
  ms' mod 2 = (if sh then 1 else 0) /\ back_state C k ms' < Q /\ mc' < C.
Proof.
  intro Hmc. unfold calc_back. cbn [fst snd].
  pose proof (back_sim_lim true k Q C HC Hfit) as Hlim.
  pose proof (in_window_ne ms mc) as Hne.
  pose proof (in_window_Forall ms mc Hmc) as Hin.
  pose proof (in_window_length ms mc) as Hlen.
  match goal with |- context [fst ?X] => destruct (fst X) as [|[[st' [side tp']]|]] eqn:Er end;
    try discriminate.
  pose proof (back_exit_length true ms mc st' side tp' Er) as Hl'.
  destruct (run_simulator_bounded P Q C _ _ _ _ _ _ _ _ Hlim Hne HW Hin Er) as [Hst' Htp'].
  assert (Hleaves : forall lo t, win_at t lo (back_in_window C k ms mc) ->
            leaves P lo (S kn)
              (mkA (back_state C k ms) (entry_pos (negb (ms mod 2 =? 1)) lo (S kn)) t)
              side st' tp').
  { intros lo t Hw.
    pose proof (run_simulator_sound P lgf (back_state C k ms) (negb (ms mod 2 =? 1))
                  (back_in_window C k ms mc) _ lo t Hlim Hne Hw) as HS.
    rewrite Er, Hlen in HS. apply HS. }
  pose proof B_pos as HB.
  destruct side; cbn [negb].
  - (* left the window on the right: split_at(1) *)
    rewrite split_right by (intro E; rewrite E in Hl'; discriminate).
    intro Hc. injection Hc as <- <- <-.
    destruct tp' as [|c rest]; [discriminate|]. cbn [hd tl length] in *.
    inversion Htp' as [|? ? Hc0 Hrest]; subst.
    assert (Hlr : length rest = kn) by lia.
    pose proof (encode_lt C rest Hrest) as He. rewrite Hlr in He. unfold kn in He.
    rewrite N2Nat.id in He. fold B in He |- *.
    destruct (back_unpack B st' (encode C rest) false He) as (U1 & U2 & U3).
    cbv zeta in U1, U2, U3.
    assert (Hspan : back_span C k (0 + 2 * (st' * B + encode C rest)) = rest).
    { unfold back_span. fold B. rewrite U3. fold kn. rewrite <- Hlr. apply enc_dec. exact Hrest. }
    split; [|split; [|split]].
    + intros lo t Hw. unfold back_out_window, back_state. fold B. rewrite U2, Hspan.
      apply (Hleaves lo t Hw).
    + exact U1.
    + unfold back_state. fold B. rewrite U2. exact Hst'.
    + exact Hc0.
  - (* left the window on the left: the repaired split_at(self.cells) *)
    rewrite (split_fix_left k Q C tp' Hl'). fold kn.
    intro Hc. injection Hc as <- <- <-.
    pose proof (firstn_last tp' kn Hl') as Hsplit.
    assert (Hbs : Forall (ltC C) (firstn kn tp')) by (apply Forall_firstn_; exact Htp').
    assert (Hlb : length (firstn kn tp') = kn) by (rewrite firstn_length; lia).
    pose proof (encode_lt C _ Hbs) as He. rewrite Hlb in He. unfold kn in He at 2.
    rewrite N2Nat.id in He. fold B in He |- *.
    destruct (back_unpack B st' (encode C (firstn kn tp')) true He) as (U1 & U2 & U3).
    cbv zeta in U1, U2, U3.
    assert (Hspan : back_span C k (1 + 2 * (st' * B + encode C (firstn kn tp'))) = firstn kn tp').
    { unfold back_span. fold B. rewrite U3. fold kn. rewrite <- Hlb at 1. apply enc_dec. exact Hbs. }
    split; [|split; [|split]].
    + intros lo t Hw. unfold back_out_window, back_state. fold B. rewrite U2, Hspan, Hsplit.
      apply (Hleaves lo t Hw).
    + exact U1.
    + unfold back_state. fold B. rewrite U2. exact Hst'.
    + rewrite Forall_forall in Htp'. apply Htp'. apply nth_In. lia.
Qed.

(** the repaired logic never fails to rebuild an instruction *)
Lemma calc_back_fix_some ms mc st' side tp' :
  fst (run_simulator unit (pget P) lgf
         (back_state C k ms, (negb (ms mod 2 =? 1), back_in_window C k ms mc)) tt)
    = Ok (Some (st', (side, tp'))) ->
  calc_back P true k Q C (ms, mc) <> None.
Proof.
  intro Er. pose proof (back_exit_length true ms mc st' side tp' Er) as Hl'.
  unfold calc_back. cbn [fst snd]. rewrite Er. destruct side; cbn [negb].
  - rewrite split_right by (intro E; rewrite E in Hl'; discriminate). discriminate.
  - rewrite (split_fix_left k Q C tp' Hl'). discriminate.
Qed.

(** NO INSTRUCTION  <->  halts inside the window or never leaves it.
    [<-] holds for every k.  [->] needs the iteration limit
    2*Q*C^k*C to be at least the number Q*(k+1)*C^(k+1) of (state, position,
    contents) triples: true exactly when k <= 1 (or Q = 0). *)
Theorem calc_back_none_conv ms mc lo t :
  win_at t lo (back_in_window C k ms mc) ->
  halts_inside P lo (S kn)
    (mkA (back_state C k ms) (entry_pos (negb (ms mod 2 =? 1)) lo (S kn)) t) \/
  never_leaves P lo (S kn)
    (mkA (back_state C k ms) (entry_pos (negb (ms mod 2 =? 1)) lo (S kn)) t) ->
  calc_back P true k Q C (ms, mc) = None.
Proof.
  intros Hw Hor.
  pose proof (run_simulator_none_conv P lgf (back_state C k ms) (negb (ms mod 2 =? 1))
                (back_in_window C k ms mc) _ lo t (back_sim_lim true k Q C HC Hfit)
                (in_window_ne ms mc) Hw) as HN.
  rewrite in_window_length in HN. specialize (HN Hor).
  unfold calc_back. cbn [fst snd]. rewrite HN. reflexivity.
Qed.

Theorem calc_back_none ms mc lo t :
  mc < C ->
  Q * (k + 1) * C ^ (k + 1) <= 2 * Q * C ^ k * C ->
  win_at t lo (back_in_window C k ms mc) ->
  (calc_back P true k Q C (ms, mc) = None <->
   halts_inside P lo (S kn)
     (mkA (back_state C k ms) (entry_pos (negb (ms mod 2 =? 1)) lo (S kn)) t) \/
   never_leaves P lo (S kn)
     (mkA (back_state C k ms) (entry_pos (negb (ms mod 2 =? 1)) lo (S kn)) t)).
Proof.
  intros Hmc Hpig Hw. split; [|apply calc_back_none_conv; exact Hw].
  intro Hc.
  pose proof (back_sim_lim true k Q C HC Hfit) as Hlim.
  pose proof (run_simulator_sound P lgf (back_state C k ms) (negb (ms mod 2 =? 1))
                (back_in_window C k ms mc) _ lo t Hlim (in_window_ne ms mc) Hw) as HS.
  pose proof (run_simulator_none P Q C lgf (back_state C k ms) (negb (ms mod 2 =? 1))
                (back_in_window C k ms mc) _ lo t Hlim (in_window_ne ms mc) Hw HW
                (in_window_Forall ms mc Hmc)) as HN.
  rewrite in_window_length in HN.
  destruct (fst (run_simulator unit (pget P) lgf
                   (back_state C k ms, (negb (ms mod 2 =? 1), back_in_window C k ms mc)) tt))
    as [|[[st' [side tp']]|]] eqn:Er; [contradiction| |].
  - exfalso. exact (calc_back_fix_some ms mc st' side tp' Er Hc).
  - apply HN; [|reflexivity].
    unfold mt_len. rewrite in_window_length. unfold kn.
    replace (N.of_nat (S (N.to_nat k))) with (k + 1) by lia. exact Hpig.
Qed.

(** for every k: no instruction => halts inside, or still inside after
    [sim_lim] iterations of the simulator loop *)
Theorem calc_back_none_weak ms mc lo t :
  win_at t lo (back_in_window C k ms mc) ->
  calc_back P true k Q C (ms, mc) = None ->
  halts_inside P lo (S kn)
    (mkA (back_state C k ms) (entry_pos (negb (ms mod 2 =? 1)) lo (S kn)) t) \/
  exists sL, iter_nat (N.to_nat (2 * Q * C ^ k * C))
               (sim_body unit (pget P) (mt_len (back_in_window C k ms mc)))
               (sim_start (back_state C k ms) (negb (ms mod 2 =? 1)) (back_in_window C k ms mc))
             = inl sL.
Proof.
  intros Hw Hc.
  pose proof (back_sim_lim true k Q C HC Hfit) as Hlim.
  pose proof (run_simulator_sound P lgf (back_state C k ms) (negb (ms mod 2 =? 1))
                (back_in_window C k ms mc) _ lo t Hlim (in_window_ne ms mc) Hw) as HS.
  rewrite in_window_length in HS.
  destruct (fst (run_simulator unit (pget P) lgf
                   (back_state C k ms, (negb (ms mod 2 =? 1), back_in_window C k ms mc)) tt))
    as [|[[st' [side tp']]|]] eqn:Er; [contradiction| |exact HS].
  exfalso. exact (calc_back_fix_some ms mc st' side tp' Er Hc).
Qed.

(** ---- the stateful object agrees with the pure function ---- *)
Lemma split_fix_spec side tp' :
  length tp' = S kn -> Forall (ltC C) tp' ->
  exists bs col,
    backsymbol_split lgf (negb side) tp' = Ok (bs, col) /\
    length bs = kn /\ Forall (ltC C) bs /\ col < C.
Proof.
  intros Hl Ht. destruct side; cbn [negb].
  - rewrite split_right by (intro E; rewrite E in Hl; discriminate).
    destruct tp' as [|c rest]; [discriminate|]. cbn [hd tl length] in *.
    inversion Ht; subst. exists rest, c. repeat split; [lia|assumption..].
  - rewrite (split_fix_left k Q C tp' Hl). fold kn. eexists. eexists.
    split; [reflexivity|]. split; [rewrite firstn_length; lia|].
    split; [apply Forall_firstn_; exact Ht|].
    rewrite Forall_forall in Ht. apply Ht. apply nth_In. lia.
Qed.

Theorem macro_calculate_back m ms mc bs :
  mc < C -> cache_ok k C m -> c2t_get (ms_c2t m) ((ms / 2) mod C ^ k) = Some bs ->
  exists m',
    macro_calculate_instr unit (pget P) lgf (m, tt) (ms, mc)
      = (Ok (calc_back P true k Q C (ms, mc)), (m', tt)) /\
    cache_ok k C m' /\ ms_instrs m' = ms_instrs m /\
    (forall c x, c2t_get (ms_c2t m) c = Some x -> c2t_get (ms_c2t m') c = Some x) /\
    (forall mc' sh ms', calc_back P true k Q C (ms, mc) = Some (mc', sh, ms') ->
       c2t_get (ms_c2t m') ((ms' / 2) mod C ^ k) = Some (back_span C k ms')).
Proof.
  intros Hmc Hok Hg.
  destruct (color_to_tape_decode k C m _ bs Hok Hg) as [Hct Hbs]. fold kn in Hbs.
  pose proof (back_sim_lim true k Q C HC Hfit) as Hlim.
  pose proof (in_window_ne ms mc) as Hne.
  pose proof (in_window_Forall ms mc Hmc) as Hin.
  pose proof B_pos as HB.
  unfold macro_calculate_instr, deconstruct_inputs, backsymbol_deconstruct_inputs.
  cbn [lg_kind back_logic lg_backsymbols]. fold B.
  destruct (N.eqb_spec B 0) as [E|_]; [lia|].
  fold B in Hct. rewrite Hct. cbn [obind].
  match goal with |- context [run_simulator _ _ _ (_, ?X) _] =>
    replace X with (negb (ms mod 2 =? 1), back_in_window C k ms mc)
      by (rewrite Hbs; unfold back_in_window, back_span; destruct (ms mod 2 =? 1); reflexivity)
  end.
  change (ms / 2 / B) with (back_state C k ms).
  unfold calc_back. cbn [fst snd].
  pose proof (fun st' side tp' => back_exit_length true ms mc st' side tp') as HL.
  pose proof (fun st' side tp' =>
                run_simulator_bounded P Q C lgf (back_state C k ms) (negb (ms mod 2 =? 1))
                  (back_in_window C k ms mc) _ st' side tp' Hlim Hne HW Hin) as HBd.
  pose proof (run_simulator_sound P lgf (back_state C k ms) (negb (ms mod 2 =? 1))
                (back_in_window C k ms mc) _ 0%Z _ Hlim Hne (win_at_self _)) as HS.
  unfold state, mtape, colour in HL, HBd, HS |- *.
  revert HL HBd HS.
  match goal with |- context [run_simulator ?a ?b ?c ?d ?e] =>
    destruct (run_simulator a b c d e) as [r []] end.
  cbn [fst]. intros HL HBd HS.
  destruct r as [|[[st' [side tp']]|]].
  - contradiction.
  - specialize (HL st' side tp' eq_refl). destruct (HBd st' side tp' eq_refl) as [Hst' Htp'].
    destruct (split_fix_spec side tp' HL Htp') as (bs' & col & Esp & Hlb & Hfb & Hcol).
    unfold reconstruct_outputs, backsymbol_reconstruct_outputs.
    cbn [lg_kind back_logic lg_backsymbols lg_base_colors].
    change (mkLogic LkBacksymbol k Q C (C ^ k) true) with lgf. rewrite Esp. fold B.
    destruct Hfit as (F1 & F2). fold B in F1, F2.
    pose proof (encode_lt C bs' Hfb) as He. unfold colour in He, Hlb. rewrite Hlb in He.
    unfold kn in He. rewrite N2Nat.id in He. fold B in He.
    assert (Hx : st' * B + encode C bs' < Q * B) by nia.
    assert (H1 : 2 * Q * B * 1 <= 2 * Q * B * C) by (apply N.mul_le_mono_l; lia).
    rewrite chk_mul_ok by nia.
    destruct (tape_to_color_ok k C m bs' HC F1 Hok) as (m' & Ht2c & Hok' & Hmemo & Hmono & Hinc);
      [unfold mt_len, colour; rewrite Hlb; unfold kn; lia|exact Hfb|].
    rewrite Ht2c.
    rewrite chk_add_ok by nia. cbn [obind].
    rewrite chk_mul_ok by nia. cbn [obind].
    rewrite chk_add_ok by (destruct (negb side); nia). cbn [obind].
    exists m'. split; [reflexivity|]. split; [exact Hok'|]. split; [exact Hmemo|].
    split; [exact Hmono|]. intros mc' sh ms' E. injection E as _ _ <-.
    destruct (back_unpack B st' (encode C bs') (negb side) He) as (_ & _ & U3). cbv zeta in U3.
    unfold back_span. fold B. rewrite U3.
    replace (decode C (N.to_nat k) (encode C bs')) with bs'; [exact Hinc|].
    symmetry. fold kn. rewrite <- Hlb. apply enc_dec. exact Hfb.
  - exists m. split; [reflexivity|]. split; [exact Hok|]. split; [reflexivity|].
    split; [intros c x Hx; exact Hx|]. intros mc' sh ms' E. discriminate.
Qed.

(** ---- the macro machine on decoded configurations ---- *)
Let kz := Z.of_N k.
Notation M := (calc_back P true k Q C).
Notation dec := (back_dec_cfg C k).

Definition tape_lt (c : aconf) : Prop := forall x, a_t c x < C.

Lemma dec_window c :
  win_at (a_t (dec c)) (- a_h c)%Z (back_in_window C k (a_q c) (a_t c (a_h c))).
Proof.
  destruct c as [ms H T]. cbn [a_q a_h a_t]. intros i Hi. rewrite in_window_length in Hi.
  unfold back_dec_cfg. cbn [a_q a_h a_t]. fold kz.
  assert (Hk : Z.of_nat kn = kz) by (unfold kn, kz; lia).
  destruct (Z.ltb_spec (- H + Z.of_nat i) (- H)) as [L|_]; [lia|].
  destruct (Z.ltb_spec (- H + kz) (- H + Z.of_nat i)) as [L|_]; [lia|].
  unfold back_in_window. pose proof (span_length ms) as Hsl.
  destruct (ms mod 2 =? 1).
  - destruct (Z.eqb_spec (- H + Z.of_nat i) (- H)) as [E|E].
    + assert (i = O) by lia. subst i. reflexivity.
    + destruct i as [|i]; [lia|]. cbn [nth]. f_equal. lia.
  - destruct (Z.eqb_spec (- H + Z.of_nat i) (- H + kz)) as [E|E].
    + rewrite app_nth2 by lia. replace (i - length (back_span C k ms))%nat with O by lia.
      reflexivity.
    + rewrite app_nth1 by lia. f_equal. lia.
Qed.

Lemma back_step_sim c c' :
  tape_lt c -> a_step M c = Some c' ->
  tape_lt c' /\
  exists n cb, (1 <= n)%nat /\ a_steps P n (dec c) = Some cb /\ aconf_eq cb (dec c').
Proof.
  intros Hlt Hs. pose proof (dec_window c) as Hwin.
  destruct c as [ms H T]. unfold a_step in Hs. cbn [a_q a_h a_t] in *.
  destruct (M (ms, T H)) as [[[mc' sh] ms']|] eqn:EM; [|discriminate].
  injection Hs as <-.
  destruct (calc_back_sound ms (T H) mc' sh ms' (Hlt H) EM) as (HL & Hbit & _ & Hmc').
  split.
  { intro x. cbn [a_t]. unfold a_write. destruct (x =? H)%Z; [exact Hmc'|apply Hlt]. }
  destruct (HL (- H)%Z _ Hwin) as (n & t' & Hn & (R & _ & U) & W').
  exists n. eexists. split; [exact Hn|]. split.
  - unfold back_dec_cfg at 1. cbn [a_q a_h a_t]. fold kz.
    unfold back_dec_cfg in R. cbn [a_q a_h a_t] in R. fold kz in R.
    replace (if ms mod 2 =? 1 then (- H)%Z else (- H + kz)%Z)
      with (entry_pos (negb (ms mod 2 =? 1)) (- H) (S kn))
      by (unfold entry_pos; destruct (ms mod 2 =? 1); cbn [negb]; unfold kz, kn; lia).
    exact R.
  - assert (Hk : Z.of_nat kn = kz) by (unfold kn, kz; lia).
    assert (Hsl : length (back_span C k ms') = kn) by apply span_length.
    assert (Hbit' : (ms' mod 2 =? 1) = sh) by (rewrite Hbit; destruct sh; reflexivity).
    unfold aconf_eq. cbn [a_q a_h a_t].
    unfold back_dec_cfg at 1 2 3. cbn [a_q a_h a_t]. fold kz. rewrite Hbit'.
    split; [reflexivity|]. split; [destruct sh; cbn [negb]; lia|].
    (* the tapes *)
    cbn [a_t] in U. unfold back_dec_cfg in U. cbn [a_q a_h a_t] in U. fold kz in U.
    unfold back_out_window in W'.
    intro x.
    assert (Hwx : forall i, (i < S kn)%nat -> x = (- H + Z.of_nat i)%Z ->
               t' x = nth i (if sh then back_span C k ms' ++ [mc'] else mc' :: back_span C k ms') 0).
    { intros i Hi ->. apply W'. destruct sh; [rewrite app_length|]; cbn [length]; lia. }
    assert (Hux : ~ inside (- H) (S kn) x ->
               t' x = (if (x <? - H)%Z then T (- x)%Z else T (kz - x)%Z)).
    { intro Ho. rewrite (U x Ho). unfold inside in Ho.
      destruct (Z.ltb_spec x (- H)) as [L|G]; [reflexivity|].
      destruct (Z.ltb_spec (- H + kz) x) as [L'|G']; [reflexivity|lia]. }
    unfold inside in Hux. unfold a_write.
    destruct sh.
    + (* macro right = base left: H' = H + 1 *)
      destruct (Z.ltb_spec x (- (H + 1))) as [L|G].
      * rewrite Hux by lia. destruct (Z.ltb_spec x (- H)) as [_|G']; [|lia].
        destruct (Z.eqb_spec (- x) H) as [E|_]; [lia|reflexivity].
      * destruct (Z.ltb_spec (- (H + 1) + kz) x) as [L'|G'].
        -- destruct (Z.eq_dec x (- H + kz)) as [E|E].
           ++ rewrite (Hwx kn ltac:(lia) ltac:(lia)). rewrite app_nth2 by lia.
              replace (kn - length (back_span C k ms'))%nat with O by lia. cbn [nth].
              destruct (Z.eqb_spec (kz - x) H) as [_|E']; [reflexivity|lia].
           ++ rewrite Hux by lia. destruct (Z.ltb_spec x (- H)) as [L''|_]; [lia|].
              destruct (Z.eqb_spec (kz - x) H) as [E'|_]; [lia|reflexivity].
        -- destruct (Z.eqb_spec x (- (H + 1))) as [E|E].
           ++ rewrite Hux by lia. destruct (Z.ltb_spec x (- H)) as [_|G'']; [|lia].
              destruct (Z.eqb_spec (H + 1) H) as [E'|_]; [lia|]. f_equal. lia.
           ++ rewrite (Hwx (Z.to_nat (x + H)) ltac:(lia) ltac:(lia)).
              rewrite app_nth1 by lia. f_equal. lia.
    + (* macro left = base right: H' = H - 1 *)
      destruct (Z.ltb_spec x (- (H - 1))) as [L|G].
      * destruct (Z.eq_dec x (- H)) as [E|E].
        -- rewrite (Hwx O ltac:(lia) ltac:(lia)). cbn [nth].
           destruct (Z.eqb_spec (- x) H) as [_|E']; [reflexivity|lia].
        -- rewrite Hux by lia. destruct (Z.ltb_spec x (- H)) as [_|G']; [|lia].
           destruct (Z.eqb_spec (- x) H) as [E'|_]; [lia|reflexivity].
      * destruct (Z.ltb_spec (- (H - 1) + kz) x) as [L'|G'].
        -- rewrite Hux by lia. destruct (Z.ltb_spec x (- H)) as [L''|_]; [lia|].
           destruct (Z.eqb_spec (kz - x) H) as [E'|_]; [lia|reflexivity].
        -- destruct (Z.eqb_spec x (- (H - 1) + kz)) as [E|E].
           ++ rewrite Hux by lia. destruct (Z.ltb_spec x (- H)) as [L''|_]; [lia|].
              destruct (Z.eqb_spec (H - 1) H) as [E'|_]; [lia|]. f_equal. lia.
           ++ rewrite (Hwx (Z.to_nat (x + H)) ltac:(lia) ltac:(lia)).
              replace (Z.to_nat (x + H)) with (S (Z.to_nat (x - - (H - 1)))) by lia.
              cbn [nth]. reflexivity.
Qed.

(** THE RUN (repaired logic) *)
Theorem back_run_sim c0 n :
  tape_lt c0 ->
  exists tm : nat -> nat,
    tm O = O /\ (forall i, (i < n)%nat -> (tm i < tm (S i))%nat) /\
    forall i ci, (i <= n)%nat -> a_steps M i c0 = Some ci ->
      tape_lt ci /\
      exists cb, a_steps P (tm i) (dec c0) = Some cb /\ aconf_eq cb (dec ci).
Proof. apply (run_sim_generic P M dec tape_lt back_step_sim). Qed.

Lemma dec_ext c1 c2 : aconf_eq c1 c2 -> aconf_eq (dec c1) (dec c2).
Proof.
  intros (Hq & Hh & Ht). unfold back_dec_cfg, aconf_eq. cbn [a_q a_h a_t]. rewrite Hq, Hh.
  split; [reflexivity|]. split; [reflexivity|]. intro x. rewrite !Ht. reflexivity.
Qed.

Theorem back_run_sim_zipper ms z H n ms' z' :
  (forall x, abs_of z H x < C) ->
  tm_steps M n (ms, z) = Some (ms', z') ->
  exists H' m cb, (n <= m)%nat /\
    a_steps P m (dec (mkA ms H (abs_of z H))) = Some cb /\
    aconf_eq cb (dec (mkA ms' H' (abs_of z' H'))).
Proof.
  intros Hlt Hrun. pose proof (zipper_abs_steps M n ms z H) as Hz. rewrite Hrun in Hz.
  destruct Hz as (H' & T' & Ha & Et).
  destruct (back_run_sim (mkA ms H (abs_of z H)) n Hlt) as (tm & T0 & Tmono & Tsim).
  destruct (Tsim n _ (le_n _) Ha) as (_ & cb & Rb & Eb).
  exists H', (tm n), cb. split; [apply clock_ge; exact Tmono|]. split; [exact Rb|].
  eapply aconf_eq_trans; [exact Eb|]. apply dec_ext.
  split; [reflexivity|]. split; [reflexivity|exact Et].
Qed.


End Back.

(** ---- the real object (repaired logic): [macro_get_instr] with its memo ---- *)
Section BackObj.
Variables (P : prog) (k Q C : N).
Hypothesis HC : 1 <= C.
Hypothesis Hfit : back_fits k Q C.
Hypothesis HW : prog_within_P P Q C.

Notation M := (calc_back P true k Q C).
Notation lg := (back_logic true k Q C).

(** the colour of the remembered cells of macro state [ms] is in the cache *)
Definition known_b (m : mstate) (ms : state) : Prop :=
  c2t_get (ms_c2t m) ((ms / 2) mod C ^ k) = Some (back_span C k ms).

Definition obj_ok_b (m : mstate) : Prop :=
  cache_ok k C m /\
  forall sl mc' sh ms', cp_get (ms_instrs m) sl = Some (mc', sh, ms') ->
    M sl = Some (mc', sh, ms') /\ known_b m ms'.

Lemma obj_ok_b_new : obj_ok_b (mstate_new k) /\ known_b (mstate_new k) 0.
Proof.
  assert (Hok : cache_ok k C (mstate_new k)) by (apply cache_ok_new; lia).
  split; [split; [exact Hok|]|].
  - intros sl mc' sh ms' H. discriminate.
  - unfold known_b, back_span. change (0 / 2) with 0.
    pose proof (pow_ge_1 C k HC). rewrite N.mod_0_l by lia.
    assert (Hg : c2t_get (ms_c2t (mstate_new k)) 0 = Some (repeat 0 (N.to_nat k))) by reflexivity.
    rewrite Hg. f_equal. apply (color_to_tape_decode k C _ 0 _ Hok Hg).
Qed.

Theorem macro_get_back m ms mc :
  mc < C -> obj_ok_b m -> known_b m ms ->
  exists m',
    macro_get_instr unit (pget P) lg (m, tt) (ms, mc) = (Ok (M (ms, mc)), (m', tt)) /\
    obj_ok_b m' /\
    (forall mc' sh ms', M (ms, mc) = Some (mc', sh, ms') -> known_b m' ms' /\ mc' < C).
Proof.
  intros Hmc [Hok Hmemo] Hkn. unfold macro_get_instr. cbn [fst].
  destruct (cp_get (ms_instrs m) (ms, mc)) as [[[mc' sh] ms']|] eqn:Eg.
  - destruct (Hmemo _ _ _ _ Eg) as [EM Hk']. exists m. rewrite EM.
    split; [reflexivity|]. split; [split; assumption|].
    intros mc'' sh'' ms'' E. injection E as <- <- <-. split; [exact Hk'|].
    apply (calc_back_sound P k Q C HC Hfit HW ms mc mc' sh ms' Hmc EM).
  - destruct (macro_calculate_back P k Q C HC Hfit HW m ms mc _ Hmc Hok Hkn)
      as (m1 & E & Hok1 & Hmemo1 & Hmono & Hin).
    unfold state, colour in E |- *.
    rewrite E.
    match goal with |- context [match ?X with Some _ => _ | None => _ end] =>
      destruct X as [[[mc' sh] ms']|] eqn:EM end.
    + eexists. split; [reflexivity|]. split; [split|].
      * apply cache_ok_memo. exact Hok1.
      * cbn [ms_instrs ms_c2t]. intros sl mc'' sh'' ms'' Hg.
        apply cp_get_insert in Hg. destruct Hg as [[-> Ei]|Hg].
        -- injection Ei as -> -> ->. split; [exact EM|]. exact (Hin mc' sh ms' eq_refl).
        -- rewrite Hmemo1 in Hg. destruct (Hmemo _ _ _ _ Hg) as [E1 E2].
           split; [exact E1|]. unfold known_b in *. apply Hmono. exact E2.
      * intros mc'' sh'' ms'' Ei. injection Ei as <- <- <-. split.
        -- unfold known_b. cbn [ms_c2t]. exact (Hin mc' sh ms' eq_refl).
        -- apply (calc_back_sound P k Q C HC Hfit HW ms mc mc' sh ms' Hmc EM).
    + exists m1. split; [reflexivity|]. split; [split|].
      * exact Hok1.
      * intros sl mc'' sh'' ms'' Hg. rewrite Hmemo1 in Hg. destruct (Hmemo _ _ _ _ Hg) as [E1 E2].
        split; [exact E1|]. unfold known_b in *. apply Hmono. exact E2.
      * intros mc'' sh'' ms'' Ei. discriminate.
Qed.

(** every colour on the macro tape is a base colour *)
Definition ztape_lt (z : ztape) : Prop :=
  zc z < C /\ Forall (ltC C) (zl z) /\ Forall (ltC C) (zr z).

Lemma ztape_lt_move z sh pr : ztape_lt z -> pr < C -> ztape_lt (tm_move z sh pr).
Proof.
  intros (Hc & Hl & Hr) Hp. unfold tm_move. destruct sh; cbn [zl zc zr].
  - split; [|split].
    + destruct (zr z) as [|x r]; [cbn; lia|]. inversion Hr; assumption.
    + constructor; assumption.
    + destruct (zr z) as [|x r]; [constructor|]. inversion Hr; assumption.
  - split; [|split].
    + destruct (zl z) as [|x l]; [cbn; lia|]. inversion Hl; assumption.
    + destruct (zl z) as [|x l]; [constructor|]. inversion Hl; assumption.
    + constructor; assumption.
Qed.

Theorem back_obj_run : forall n m q z,
  obj_ok_b m -> known_b m q -> ztape_lt z ->
  match tm_steps M n (q, z) with
  | Some c' => exists m', obj_steps (macro_get_instr unit (pget P) lg) n ((m, tt), (q, z))
                            = Ok (Some ((m', tt), c')) /\
                          obj_ok_b m' /\ known_b m' (fst c') /\ ztape_lt (snd c')
  | None => obj_steps (macro_get_instr unit (pget P) lg) n ((m, tt), (q, z)) = Ok None
  end.
Proof.
  induction n as [|n IH]; intros m q z Hobj Hkn Hlt.
  - cbn [tm_steps obj_steps]. exists m. split; [reflexivity|]. split; [exact Hobj|]. split; [exact Hkn|exact Hlt].
  - cbn [tm_steps obj_steps tm_step obj_step].
    destruct (macro_get_back m q (zc z) (proj1 Hlt) Hobj Hkn) as (m1 & E & Hobj1 & Hin).
    unfold state, colour in E, Hin |- *. rewrite E.
    match goal with |- context [match ?X with Some _ => _ | None => _ end] =>
      destruct X as [[[pr sh] q']|] eqn:EM end; [|reflexivity].
    destruct (Hin pr sh q' eq_refl) as [Hk' Hpr].
    apply IH; [exact Hobj1|exact Hk'|]. apply ztape_lt_move; assumption.
Qed.

Corollary back_obj_run_blank n :
  match tm_steps M n ((0 : state), blank_tape) with
  | Some c' => exists m', obj_steps (macro_get_instr unit (pget P) lg) n
                            ((mstate_new k, tt), ((0 : state), blank_tape)) = Ok (Some ((m', tt), c'))
  | None => obj_steps (macro_get_instr unit (pget P) lg) n
              ((mstate_new k, tt), ((0 : state), blank_tape)) = Ok None
  end.
Proof.
  destruct obj_ok_b_new as [Hobj H0].
  assert (Hlt : ztape_lt blank_tape).
  { split; [cbn [zc blank_tape]; lia|]. split; constructor. }
  pose proof (back_obj_run n (mstate_new k) 0 blank_tape Hobj H0 Hlt) as HR.
  revert HR. match goal with |- context [tm_steps ?a ?b ?c] => destruct (tm_steps a b c) as [c'|] end;
    intro HR; [|exact HR].
  destruct HR as (m' & E & _). exists m'. exact E.
Qed.
End BackObj.

(** ---- faithful vs repaired ---- *)
Lemma run_simulator_fx (P : prog) k Q C cfg :
  run_simulator unit (pget P) (back_logic false k Q C) cfg tt =
  run_simulator unit (pget P) (back_logic true k Q C) cfg tt.
Proof. destruct cfg as [st [re tp]]. reflexivity. Qed.

(** the two logics give the same instruction unless the simulator leaves the
    window on the LEFT (the only place where [split_at(self.cells - 1)] is
    used) *)
Theorem calc_back_right_exit_eq (P : prog) k Q C ms mc :
  (forall st' tp',
     fst (run_simulator unit (pget P) (back_logic true k Q C)
            (back_state C k ms, (negb (ms mod 2 =? 1), back_in_window C k ms mc)) tt)
       <> Ok (Some (st', (false, tp')))) ->
  calc_back P false k Q C (ms, mc) = calc_back P true k Q C (ms, mc).
Proof.
  intro Hnl. unfold calc_back. cbn [fst snd]. rewrite run_simulator_fx.
  match goal with |- context [fst ?X] => destruct (fst X) as [|[[st' [side tp']]|]] eqn:Er end;
    try reflexivity.
  destruct side; [reflexivity|]. exfalso. exact (Hnl st' tp' eq_refl).
Qed.

(** in terms of the answers: an instruction of the repaired logic that moves
    macro-LEFT (the base head left the window on the right), and the answer
    "no instruction", are also the faithful logic's answers *)
Corollary calc_back_faithful_right (P : prog) k Q C ms mc mc' ms' :
  calc_back P true k Q C (ms, mc) = Some (mc', false, ms') ->
  calc_back P false k Q C (ms, mc) = Some (mc', false, ms').
Proof.
  intro H. rewrite <- H. apply calc_back_right_exit_eq. intros st' tp' Er.
  unfold calc_back in H. cbn [fst snd] in H. rewrite Er in H. cbn [negb] in H.
  destruct (backsymbol_split (back_logic true k Q C) true tp') as [|[bs col]]; discriminate.
Qed.

Corollary calc_back_faithful_none (P : prog) k Q C ms mc :
  1 <= C -> back_fits k Q C ->
  calc_back P true k Q C (ms, mc) = None -> calc_back P false k Q C (ms, mc) = None.
Proof.
  intros HC Hfit H. rewrite <- H. apply calc_back_right_exit_eq. intros st' tp' Er.
  exact (calc_back_fix_some P k Q C HC Hfit ms mc st' false tp' Er H).
Qed.

(** the same for the stateful objects, from the same object state *)
Theorem macro_calculate_back_right_eq (P : prog) k Q C m ms mc :
  (forall cfg st' tp', deconstruct_inputs (back_logic true k Q C) m (ms, mc) = Ok cfg ->
     fst (run_simulator unit (pget P) (back_logic true k Q C) cfg tt)
       <> Ok (Some (st', (false, tp')))) ->
  macro_calculate_instr unit (pget P) (back_logic false k Q C) (m, tt) (ms, mc) =
  macro_calculate_instr unit (pget P) (back_logic true k Q C) (m, tt) (ms, mc).
Proof.
  intro Hnl. unfold macro_calculate_instr.
  change (deconstruct_inputs (back_logic false k Q C) m (ms, mc))
    with (deconstruct_inputs (back_logic true k Q C) m (ms, mc)).
  destruct (deconstruct_inputs (back_logic true k Q C) m (ms, mc)) as [|cfg] eqn:Ed; [reflexivity|].
  rewrite run_simulator_fx. specialize (Hnl cfg).
  destruct (run_simulator unit (pget P) (back_logic true k Q C) cfg tt) as [r b].
  cbn [fst] in Hnl.
  destruct r as [|[[st' [side tp']]|]]; try reflexivity.
  destruct side; [reflexivity|]. exfalso. exact (Hnl st' tp' eq_refl eq_refl).
Qed.

(** ---- outside F3: a faithful run that never moves macro-right ---- *)
Lemma skipn_nonempty (l : list colour) n : (n < length l)%nat -> skipn n l <> [].
Proof.
  revert l. induction n as [|n IH]; intros [|x l] H; cbn [length] in H; try lia; cbn [skipn].
  - discriminate.
  - apply IH. lia.
Qed.

(** for k >= 1 the faithful logic answers a left exit with a macro-RIGHT move *)
Lemma faithful_left_some (P : prog) k Q C ms mc st' tp' :
  1 <= k -> 1 <= C -> back_fits k Q C ->
  fst (run_simulator unit (pget P) (back_logic true k Q C)
         (back_state C k ms, (negb (ms mod 2 =? 1), back_in_window C k ms mc)) tt)
    = Ok (Some (st', (false, tp'))) ->
  exists mc' ms', calc_back P false k Q C (ms, mc) = Some (mc', true, ms').
Proof.
  intros Hk HC Hfit Er.
  pose proof (back_exit_length P k Q C HC Hfit true ms mc st' false tp' Er) as Hl.
  unfold calc_back. cbn [fst snd]. rewrite run_simulator_fx, Er. cbn [negb].
  unfold backsymbol_split, back_logic. cbn [lg_split_fix lg_cells].
  destruct (N.eqb_spec k 0) as [E|_]; [lia|]. cbn [obind].
  destruct (N.ltb_spec (mt_len tp') (k - 1)) as [L|_]; [unfold mt_len in L; lia|].
  unfold mt_drop.
  destruct (skipn (N.to_nat (k - 1)) tp') as [|c r] eqn:Es.
  - exfalso. revert Es. apply skipn_nonempty. lia.
  - eexists. eexists. reflexivity.
Qed.

Lemma tm_steps_agree (M1 M2 : prog) : forall n c,
  (forall i ci, (i < n)%nat -> tm_steps M1 i c = Some ci ->
     M1 (fst ci, zc (snd ci)) = M2 (fst ci, zc (snd ci))) ->
  tm_steps M1 n c = tm_steps M2 n c.
Proof.
  induction n as [|n IH]; intros c H; [reflexivity|].
  cbn [tm_steps]. assert (E0 : tm_step M1 c = tm_step M2 c).
  { destruct c as [q z]. cbn [tm_step]. pose proof (H O (q, z) ltac:(lia) eq_refl) as E.
    cbn [fst snd] in E. rewrite E. reflexivity. }
  rewrite <- E0. destruct (tm_step M1 c) as [c1|] eqn:Es; [|reflexivity].
  apply IH. intros i ci Hi Hc. apply (H (S i) ci ltac:(lia)). cbn [tm_steps]. rewrite Es. exact Hc.
Qed.

Theorem back_run_sim_outside_F3 (P : prog) k Q C ms z H n ms' z' :
  1 <= k -> 1 <= C -> back_fits k Q C -> prog_within_P P Q C ->
  (forall x, abs_of z H x < C) ->
  tm_steps (calc_back P false k Q C) n (ms, z) = Some (ms', z') ->
  (* no instruction computed along the run moves macro-right, i.e. none of
     them left its window on the left *)
  (forall i ci, (i < n)%nat -> tm_steps (calc_back P false k Q C) i (ms, z) = Some ci ->
     forall mc' ms'', calc_back P false k Q C (fst ci, zc (snd ci)) <> Some (mc', true, ms'')) ->
  exists H' m cb, (n <= m)%nat /\
    a_steps P m (back_dec_cfg C k (mkA ms H (abs_of z H))) = Some cb /\
    aconf_eq cb (back_dec_cfg C k (mkA ms' H' (abs_of z' H'))).
Proof.
  intros Hk HC Hfit HW Hlt Hrun Hnr.
  apply (back_run_sim_zipper P k Q C HC Hfit HW ms z H n ms' z' Hlt).
  rewrite <- Hrun. symmetry. apply tm_steps_agree.
  intros i ci Hi Hc. destruct ci as [q zi]. cbn [fst snd].
  apply calc_back_right_exit_eq. intros st' tp' Er.
  destruct (faithful_left_some P k Q C q (zc zi) st' tp' Hk HC Hfit Er) as (mc' & ms'' & E).
  exact (Hnr i (q, zi) Hi Hc mc' ms'' E).
Qed.

(** a checker for the hypothesis *)
Fixpoint no_rights (M : prog) (n : nat) (c : config) : bool :=
  match n with
  | O => true
  | S n' =>
      match M (fst c, zc (snd c)) with
      | Some (pr, sh, q') => negb sh && no_rights M n' (q', tm_move (snd c) sh pr)
      | None => true
      end
  end.

Lemma no_rights_sound (M : prog) : forall n c, no_rights M n c = true ->
  forall i ci, (i < n)%nat -> tm_steps M i c = Some ci ->
  forall mc' ms'', M (fst ci, zc (snd ci)) <> Some (mc', true, ms'').
Proof.
  induction n as [|n IH]; intros c Hb i ci Hi Hc mc' ms''; [lia|].
  cbn [no_rights] in Hb. destruct i as [|i].
  - cbn [tm_steps] in Hc. injection Hc as <-. intro E. rewrite E in Hb. discriminate.
  - cbn [tm_steps] in Hc. destruct c as [q z]. cbn [tm_step fst snd] in *.
    destruct (M (q, zc z)) as [[[pr sh] q']|]; [|discriminate].
    apply andb_true_iff in Hb. destruct Hb as [_ Hb].
    apply (IH _ Hb i ci ltac:(lia) Hc).
Qed.

(** the blank macro configuration is the blank base configuration (the head
    at position k: one end of the all-blank window) *)
Lemma decode_zero_nth C n j : 1 <= C -> nth j (decode C n 0) 0 = 0.
Proof.
  intro HC. revert j. induction n as [|n IH]; intro j; cbn [decode]; [destruct j; reflexivity|].
  replace (0 / C) with 0 by (symmetry; apply N.div_0_l; lia).
  replace (0 mod C) with 0 by (symmetry; apply N.mod_0_l; lia).
  destruct (Nat.lt_ge_cases j (length (decode C n 0))) as [L|G].
  - rewrite app_nth1 by exact L. apply IH.
  - rewrite app_nth2 by exact G. destruct (j - length (decode C n 0))%nat as [|[|]]; reflexivity.
Qed.

Lemma back_dec_blank k C :
  1 <= C ->
  aconf_eq (back_dec_cfg C k (mkA 0 0%Z (abs_of blank_tape 0%Z))) (mkA 0 (Z.of_N k) (fun _ => 0)).
Proof.
  intro HC. pose proof (pow_ge_1 C k HC) as Hp.
  assert (Hb : forall x, abs_of blank_tape 0%Z x = 0).
  { intro x. unfold abs_of, blank_tape. cbn [zl zc zr]. unfold cell.
    destruct (x <? 0)%Z; [destruct (Z.to_nat _); reflexivity|].
    destruct (x =? 0)%Z; [reflexivity|destruct (Z.to_nat _); reflexivity]. }
  unfold back_dec_cfg, aconf_eq. cbn [a_q a_h a_t].
  change (0 mod 2 =? 1) with false. cbv iota.
  split; [|split].
  - unfold back_state. change (0 / 2) with 0. apply N.div_0_l. lia.
  - lia.
  - intro x. rewrite !Hb. unfold back_span. change (0 / 2) with 0.
    rewrite N.mod_0_l by lia.
    destruct (x <? - 0)%Z; [reflexivity|]. destruct (- 0 + Z.of_N k <? x)%Z; [reflexivity|].
    destruct (x =? - 0 + Z.of_N k)%Z; [reflexivity|]. apply decode_zero_nth. exact HC.
Qed.

(** ---- the stateful object over a program table (repaired logic) ---- *)
Theorem back_instr_sound_fix comp k Q C m ms mc bs r m' :
  1 <= C -> back_fits k Q C -> prog_within comp Q C -> mc < C ->
  cache_ok k C m -> c2t_get (ms_c2t m) ((ms / 2) mod C ^ k) = Some bs ->
  macro_calculate_instr unit (plain_get comp) (back_logic true k Q C) (m, tt) (ms, mc) = (r, (m', tt)) ->
  cache_ok k C m' /\ r = Ok (calc_back (to_prog comp) true k Q C (ms, mc)) /\
  forall mc' sh ms', r = Ok (Some (mc', sh, ms')) ->
    ms' mod 2 = (if sh then 1 else 0) /\ back_state C k ms' < Q /\ mc' < C /\
    c2t_get (ms_c2t m') ((ms' / 2) mod C ^ k) = Some (back_span C k ms') /\
    forall lo t, win_at t lo (back_in_window C k ms mc) ->
      leaves (to_prog comp) lo (S (N.to_nat k))
             (mkA (back_state C k ms) (entry_pos (negb (ms mod 2 =? 1)) lo (S (N.to_nat k))) t)
             (negb sh) (back_state C k ms') (back_out_window C k ms' mc' sh).
Proof.
  intros HC Hfit HW Hmc Hok Hg Hcalc. apply prog_within_sound in HW.
  destruct (macro_calculate_back (to_prog comp) k Q C HC Hfit HW m ms mc bs Hmc Hok Hg)
    as (m1 & E & Hok1 & _ & _ & Hin).
  unfold plain_get in Hcalc. rewrite E in Hcalc. injection Hcalc as <- <-.
  split; [exact Hok1|]. split; [reflexivity|].
  intros mc' sh ms' Er. injection Er as Er.
  destruct (calc_back_sound (to_prog comp) k Q C HC Hfit HW ms mc mc' sh ms' Hmc Er)
    as (HL & Hbit & Hq & Hc).
  split; [exact Hbit|]. split; [exact Hq|]. split; [exact Hc|].
  split; [exact (Hin mc' sh ms' Er)|exact HL].
Qed.

Theorem back_instr_none_fix comp k Q C m ms mc bs lo t :
  1 <= C -> back_fits k Q C -> prog_within comp Q C -> mc < C ->
  cache_ok k C m -> c2t_get (ms_c2t m) ((ms / 2) mod C ^ k) = Some bs ->
  Q * (k + 1) * C ^ (k + 1) <= 2 * Q * C ^ k * C ->
  win_at t lo (back_in_window C k ms mc) ->
  (fst (macro_calculate_instr unit (plain_get comp) (back_logic true k Q C) (m, tt) (ms, mc)) = Ok None <->
   halts_inside (to_prog comp) lo (S (N.to_nat k))
     (mkA (back_state C k ms) (entry_pos (negb (ms mod 2 =? 1)) lo (S (N.to_nat k))) t) \/
   never_leaves (to_prog comp) lo (S (N.to_nat k))
     (mkA (back_state C k ms) (entry_pos (negb (ms mod 2 =? 1)) lo (S (N.to_nat k))) t)).
Proof.
  intros HC Hfit HW Hmc Hok Hg Hpig Hw. apply prog_within_sound in HW.
  destruct (macro_calculate_back (to_prog comp) k Q C HC Hfit HW m ms mc bs Hmc Hok Hg)
    as (m1 & E & _).
  unfold plain_get. rewrite E. cbn [fst].
  pose proof (calc_back_none (to_prog comp) k Q C HC Hfit HW ms mc lo t Hmc Hpig Hw) as Hn.
  split.
  - intro H. injection H as H. apply Hn. exact H.
  - intro H. apply Hn in H. f_equal. exact H.
Qed.

(** the counting hypothesis holds for one remembered cell *)
Lemma back_pigeon_k1 Q C : Q * (1 + 1) * C ^ (1 + 1) <= 2 * Q * C ^ 1 * C.
Proof. change (1 + 1) with 2. rewrite N.pow_1_r, N.pow_2_r. lia. Qed.

(** ... and fails for more (Q, C >= 1): [sim_lim] is smaller than the number
    of boundary configurations *)
Lemma back_pigeon_fails k Q C :
  1 <= Q -> 1 <= C -> 2 <= k -> 2 * Q * C ^ k * C < Q * (k + 1) * C ^ (k + 1).
Proof.
  intros HQ HC Hk. replace (k + 1) with (N.succ k) by lia. rewrite N.pow_succ_r'.
  pose proof (pow_ge_1 C k HC) as Hp. set (M := C ^ k) in *.
  assert (H1 : 1 <= Q * (C * M)) by nia.
  replace (2 * Q * M * C) with (2 * (Q * (C * M))) by lia.
  replace (Q * N.succ k * (C * M)) with (N.succ k * (Q * (C * M))) by lia.
  set (X := Q * (C * M)) in *. nia.
Qed.

(** ---- F3: the faithful logic is wrong on a left exit ---- *)
Definition f3_comp : comp_prog :=
  [((0,0),(1,true,1)); ((0,1),(1,false,1)); ((1,0),(1,false,0))].   (* 1RB 1LB  1LA --- *)

Theorem back_refuted :
  fst (macro_calculate_instr unit (plain_get f3_comp) (back_logic false 1 2 2)
         (mstate_new 1, tt) (0, 1)) = Ok (Some (1, true, 1)) /\
  calc_back (to_prog f3_comp) false 1 2 2 (0, 1) = Some (1, true, 1) /\
  forall lo t, win_at t lo (back_in_window 2 1 0 1) ->
    ~ leaves (to_prog f3_comp) lo 2
        (mkA (back_state 2 1 0) (entry_pos (negb (0 mod 2 =? 1)) lo 2) t)
        (negb true) (back_state 2 1 1) (back_out_window 2 1 1 1 true).
Proof.
  split; [vm_compute; reflexivity|]. split; [vm_compute; reflexivity|].
  intros lo t Hw HL.
  assert (HC : 1 <= 2) by lia.
  assert (Hfit : back_fits 1 2 2) by (unfold back_fits; vm_compute; split; discriminate).
  assert (HW : prog_within_P (to_prog f3_comp) 2 2)
    by (apply prog_within_sound; vm_compute; reflexivity).
  assert (Hfix : calc_back (to_prog f3_comp) true 1 2 2 (0, 1) = Some (1, true, 3))
    by (vm_compute; reflexivity).
  destruct (calc_back_sound (to_prog f3_comp) 1 2 2 HC Hfit HW 0 1 1 true 3 ltac:(lia) Hfix)
    as (HL' & _).
  specialize (HL' lo t Hw). change (S (N.to_nat 1)) with 2%nat in HL'.
  destruct (leaves_unique _ _ _ _ _ _ _ _ _ _ HL HL' eq_refl eq_refl) as (_ & _ & E).
  vm_compute in E. discriminate.
Qed.

Print Assumptions calc_back_sound.
Print Assumptions calc_back_none.
Print Assumptions calc_back_none_conv.
Print Assumptions calc_back_none_weak.
Print Assumptions macro_calculate_back.
Print Assumptions back_run_sim.
Print Assumptions back_run_sim_zipper.
Print Assumptions calc_back_right_exit_eq.
Print Assumptions macro_calculate_back_right_eq.
Print Assumptions back_instr_sound_fix.
Print Assumptions back_instr_none_fix.
Print Assumptions back_refuted.
Print Assumptions back_run_sim_outside_F3.
Print Assumptions back_obj_run.
Print Assumptions back_obj_run_blank.
