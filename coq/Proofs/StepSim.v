(** C01, part 1: one [step] of the compressed tape is [stepped] moves of the
    cell-by-cell tape, and during a sweep every intermediate scanned cell is
    the original scanned colour. Pure tape lemmas (no program). *)
From BB Require Import Base TM TapeModel TapeCanon TapeObs.

(** k-fold move in one direction writing the same colour *)
Fixpoint mv_n (k : nat) (sh : shift) (pr : colour) (z : ztape) : ztape :=
  match k with O => z | S k' => mv_n k' sh pr (tm_move z sh pr) end.

Lemma cell_hd0 l : hd0 l = cell l 0.
Proof. destruct l; reflexivity. Qed.
Lemma cell_tl l i : cell (tl l) i = cell l (S i).
Proof. destruct l; [rewrite !cell_nil; reflexivity|reflexivity]. Qed.
Lemma cell_skipn l k i : cell (skipn k l) i = cell l (k + i).
Proof.
  revert l. induction k as [|k IH]; intros l; [reflexivity|].
  destruct l as [|x l]; [cbn [skipn]; rewrite !cell_nil; reflexivity|].
  cbn [skipn]. rewrite IH. reflexivity.
Qed.
Lemma cell_cons x l i : cell (x :: l) (S i) = cell l i.
Proof. reflexivity. Qed.

Lemma side_eq_refl a : side_eq a a. Proof. intro; reflexivity. Qed.
Lemma side_eq_sym a b : side_eq a b -> side_eq b a. Proof. intros H i; symmetry; apply H. Qed.
Lemma side_eq_trans a b c : side_eq a b -> side_eq b c -> side_eq a c.
Proof. intros H1 H2 i. rewrite H1. apply H2. Qed.
Lemma side_eq_cons x a b : side_eq a b -> side_eq (x :: a) (x :: b).
Proof. intros H [|i]; [reflexivity|]. rewrite !cell_cons. apply H. Qed.
Lemma side_eq_tl a b : side_eq a b -> side_eq (tl a) (tl b).
Proof. intros H i. rewrite !cell_tl. apply H. Qed.
Lemma side_eq_skipn k a b : side_eq a b -> side_eq (skipn k a) (skipn k b).
Proof. intros H i. rewrite !cell_skipn. apply H. Qed.
Lemma side_eq_app l a b : side_eq a b -> side_eq (l ++ a) (l ++ b).
Proof. induction l as [|x l IH]; intro H; [exact H|]. cbn [app]. apply side_eq_cons. auto. Qed.

Lemma tape_eq_refl a : tape_eq a a.
Proof. repeat split; apply side_eq_refl. Qed.
Lemma tape_eq_sym a b : tape_eq a b -> tape_eq b a.
Proof. intros (H1 & H2 & H3). repeat split; auto using side_eq_sym. Qed.
Lemma tape_eq_trans a b c : tape_eq a b -> tape_eq b c -> tape_eq a c.
Proof.
  intros (H1 & H2 & H3) (G1 & G2 & G3).
  repeat split; eauto using side_eq_trans. congruence.
Qed.

Lemma tm_move_eq a b sh pr : tape_eq a b -> tape_eq (tm_move a sh pr) (tm_move b sh pr).
Proof.
  intros (H1 & H2 & H3). unfold tm_move. destruct sh; repeat split; cbn [zl zc zr].
  - apply side_eq_cons. exact H1.
  - rewrite !cell_hd0. apply H3.
  - apply side_eq_tl. exact H3.
  - apply side_eq_tl. exact H1.
  - rewrite !cell_hd0. apply H1.
  - apply side_eq_cons. exact H3.
Qed.

Lemma mv_n_eq k a b sh pr : tape_eq a b -> tape_eq (mv_n k sh pr a) (mv_n k sh pr b).
Proof.
  revert a b. induction k as [|k IH]; intros a b H; [exact H|].
  cbn [mv_n]. apply IH. apply tm_move_eq. exact H.
Qed.

Lemma repeat_cons_app {A} (x : A) k l : repeat x k ++ x :: l = repeat x (S k) ++ l.
Proof. induction k as [|k IH]; [reflexivity|]. cbn [repeat app] in *. rewrite IH. reflexivity. Qed.

(** shape of the tape after k moves to the right / left *)
Lemma mv_n_R k pr z :
  zl (mv_n k true pr z) = repeat pr k ++ zl z /\
  zr (mv_n k true pr z) = skipn k (zr z) /\
  (forall j, k = S j -> zc (mv_n k true pr z) = cell (zr z) j).
Proof.
  revert z. induction k as [|k IH]; intros z.
  - repeat split; intros; discriminate.
  - cbn [mv_n]. destruct (IH (tm_move z true pr)) as (H1 & H2 & H3).
    cbn [tm_move zl zr zc] in *. repeat split.
    + rewrite H1. apply repeat_cons_app.
    + rewrite H2. destruct (zr z); [destruct k; reflexivity|reflexivity].
    + intros j Hj. inversion Hj; subst j. destruct k as [|k'].
      * cbn [mv_n tm_move zc]. apply cell_hd0.
      * rewrite (H3 k' eq_refl). apply cell_tl.
Qed.

Lemma mv_n_L k pr z :
  zr (mv_n k false pr z) = repeat pr k ++ zr z /\
  zl (mv_n k false pr z) = skipn k (zl z) /\
  (forall j, k = S j -> zc (mv_n k false pr z) = cell (zl z) j).
Proof.
  revert z. induction k as [|k IH]; intros z.
  - repeat split; intros; discriminate.
  - cbn [mv_n]. destruct (IH (tm_move z false pr)) as (H1 & H2 & H3).
    cbn [tm_move zl zr zc] in *. repeat split.
    + rewrite H1. apply repeat_cons_app.
    + rewrite H2. destruct (zl z); [destruct k; reflexivity|reflexivity].
    + intros j Hj. inversion Hj; subst j. destruct k as [|k'].
      * cbn [mv_n tm_move zc]. apply cell_hd0.
      * rewrite (H3 k' eq_refl). apply cell_tl.
Qed.

(** ---- pull ---- *)
Lemma unroll_cons_S c n s m :
  N.to_nat n = S m -> unroll_span ((c, n) :: s) = c :: repeat c m ++ unroll_span s.
Proof. intros E. rewrite unroll_cons, E. reflexivity. Qed.

(** the "take one cell" half of pull *)
Definition take1 (s1 : span) : span * colour :=
  match s1 with
  | [] => (s1, 0)
  | (c, n) :: rest => if 1 <? n then ((c, n - 1) :: rest, c) else (rest, c)
  end.

Lemma take1_unroll s1 :
  counts_pos s1 ->
  unroll_span (fst (take1 s1)) = skipn 1 (unroll_span s1) /\ snd (take1 s1) = cell (unroll_span s1) 0.
Proof.
  intros Hc. destruct s1 as [|[c n] rest]; [split; reflexivity|].
  inversion Hc as [|? ? Hn Hc']; subst. cbn in Hn. cbn [take1].
  destruct (1 <? n) eqn:E.
  - apply N.ltb_lt in E. cbn [fst snd].
    destruct (N.to_nat n) as [|m] eqn:Em; [lia|].
    rewrite (unroll_cons_S c n rest m Em).
    rewrite (unroll_cons c (n - 1) rest). replace (N.to_nat (n - 1)) with m by lia.
    split; reflexivity.
  - apply N.ltb_ge in E. assert (n = 1) by lia. subst n. cbn [fst snd].
    rewrite unroll_cons. split; reflexivity.
Qed.

Lemma pull_take1 s sc skip :
  pull s sc skip =
  match s with
  | (c, n) :: rest =>
      if skip && (c =? sc) then (fst (take1 rest), snd (take1 rest), 1 + n)
      else (fst (take1 s), snd (take1 s), 1)
  | [] => ([], 0, 1)
  end.
Proof.
  unfold pull. destruct s as [|[c n] rest]; [reflexivity|].
  destruct (skip && (c =? sc)).
  - destruct rest as [|[d m] rest']; [reflexivity|]. cbn [take1]. destruct (1 <? m); reflexivity.
  - cbn [take1]. destruct (1 <? n); reflexivity.
Qed.

Lemma skipn_repeat_app {A} (x : A) m l : skipn m (repeat x m ++ l) = l.
Proof. induction m as [|m IH]; [reflexivity|]. cbn [repeat app skipn]. exact IH. Qed.

Lemma skipn_S_repeat_app {A} (x : A) m l : skipn (S m) (repeat x m ++ l) = skipn 1 l.
Proof. induction m as [|m IH]; [reflexivity|]. cbn [repeat app]. exact IH. Qed.

Lemma cell_repeat_app_lt x m l i : (i < m)%nat -> cell (repeat x m ++ l) i = x.
Proof.
  revert i. induction m as [|m IH]; intros i Hi; [lia|].
  destruct i as [|i]; [reflexivity|]. cbn [repeat app]. rewrite cell_cons. apply IH. lia.
Qed.

Lemma cell_repeat_app_ge x m l i : cell (repeat x m ++ l) (m + i) = cell l i.
Proof. induction m as [|m IH]; [reflexivity|]. cbn [repeat app Nat.add]. rewrite cell_cons. exact IH. Qed.

(** what pull does to the unrolled pull side *)
Lemma pull_unroll s sc skip s' nx stepped :
  counts_pos s -> pull s sc skip = (s', nx, stepped) ->
  exists j, N.to_nat stepped = S j /\
    unroll_span s' = skipn (S j) (unroll_span s) /\
    nx = cell (unroll_span s) j /\
    (forall i, (i < j)%nat -> cell (unroll_span s) i = sc) /\
    counts_pos s' /\
    (j <> O -> exists c n rest, s = (c, n) :: rest /\ c = sc /\ N.to_nat n = j).
Proof.
  intros Hc Hp. rewrite pull_take1 in Hp.
  assert (Ht : forall s1, counts_pos s1 -> counts_pos (fst (take1 s1))).
  { intros s1 H1. destruct s1 as [|[c n] rest]; [exact H1|]. cbn [take1].
    inversion H1; subst. destruct (1 <? n) eqn:E; cbn [fst]; [|assumption].
    apply N.ltb_lt in E. constructor; [cbn; lia|assumption]. }
  destruct s as [|[c n] rest].
  - inversion Hp; subst. exists O. repeat split; try reflexivity; try (intros; lia).
    constructor.
  - inversion Hc as [|? ? Hn Hc']; subst. cbn in Hn.
    destruct (skip && (c =? sc)) eqn:E.
    + apply andb_prop in E as [_ E]. apply N.eqb_eq in E. subst c.
      injection Hp as E1 E2 E3; subst s' nx stepped.
      destruct (take1_unroll rest Hc') as [U1 U2].
      exists (N.to_nat n). repeat split.
      * lia.
      * rewrite U1, unroll_cons. symmetry. apply skipn_S_repeat_app.
      * rewrite U2, unroll_cons. rewrite <- (Nat.add_0_r (N.to_nat n)) at 2.
        rewrite cell_repeat_app_ge. reflexivity.
      * intros i Hi. rewrite unroll_cons. apply cell_repeat_app_lt. exact Hi.
      * exact (Ht _ Hc').
      * intros _. exists sc, n, rest. repeat split.
    + injection Hp as E1 E2 E3; subst s' nx stepped.
      destruct (take1_unroll ((c, n) :: rest) Hc) as [U1 U2].
      exists O. repeat split.
      * exact U1.
      * exact U2.
      * intros i Hi. lia.
      * exact (Ht _ Hc).
      * intros H; contradiction.
Qed.

(** ---- push ---- *)
Lemma push_unroll s pr stepped :
  side_eq (unroll_span (push s pr stepped)) (repeat pr (N.to_nat stepped) ++ unroll_span s).
Proof.
  unfold push. destruct s as [|[c n] rest].
  - destruct (pr =? 0) eqn:E.
    + apply N.eqb_eq in E. subst pr. intro i. cbn [unroll_span flat_map]. rewrite app_nil_r.
      rewrite cell_nil. unfold cell. generalize (N.to_nat stepped) as m. intro m.
      revert i. induction m as [|m IH]; intros [|i]; cbn; auto.
    + rewrite unroll_cons. apply side_eq_refl.
  - destruct (c =? pr) eqn:E.
    + apply N.eqb_eq in E. subst c. rewrite !unroll_cons.
      replace (N.to_nat (n + stepped)) with (N.to_nat stepped + N.to_nat n)%nat by lia.
      rewrite repeat_app, <- app_assoc. apply side_eq_refl.
    + rewrite unroll_cons. apply side_eq_refl.
Qed.

Lemma push_counts_pos s pr stepped : counts_pos s -> 1 <= stepped -> counts_pos (push s pr stepped).
Proof.
  intros Hc Hs. unfold push. destruct s as [|[c n] rest].
  - destruct (pr =? 0); constructor; [cbn; lia|constructor].
  - inversion Hc; subst. cbn in *. destruct (c =? pr); constructor; cbn; auto; try lia.
Qed.

(** ---- the step lemma ---- *)
Definition counts_pos_tape (t : tape) : Prop := counts_pos (lspan t) /\ counts_pos (rspan t).

Lemma canon_tape_counts_pos t : canon_tape t -> counts_pos_tape t.
Proof. intros [(H1 & _) (H2 & _)]. split; assumption. Qed.

Theorem step_unroll t sh pr skip t' stepped :
  counts_pos_tape t -> step t sh pr skip = (t', stepped) ->
  exists j, N.to_nat stepped = S j /\
    tape_eq (unroll_tape t') (mv_n (S j) sh pr (unroll_tape t)) /\
    (forall i, (i < j)%nat -> cell (side sh (unroll_tape t)) i = scan t) /\
    counts_pos_tape t' /\
    (j <> O -> exists c n rest, (if sh then rspan t else lspan t) = (c, n) :: rest
                               /\ c = scan t /\ N.to_nat n = j).
Proof.
  intros [Hl Hr] Hs. unfold step in Hs. destruct sh.
  - destruct (pull (rspan t) (scan t) skip) as [[r' nx] st] eqn:Ep.
    inversion Hs; subst; clear Hs.
    destruct (pull_unroll _ _ _ _ _ _ Hr Ep) as (j & Hj & U1 & U2 & U3 & U4 & U5).
    exists j. split; [exact Hj|]. split; [|split; [|split]].
    + destruct (mv_n_R (S j) pr (unroll_tape t)) as (M1 & M2 & M3).
      unfold tape_eq. rewrite M1, M2, (M3 j eq_refl). cbn [unroll_tape zl zc zr scan lspan rspan].
      repeat split.
      * rewrite <- Hj. apply push_unroll.
      * exact U2.
      * rewrite U1. apply side_eq_refl.
    + exact U3.
    + split; cbn; [apply push_counts_pos; [assumption|lia]|assumption].
    + exact U5.
  - destruct (pull (lspan t) (scan t) skip) as [[l' nx] st] eqn:Ep.
    inversion Hs; subst; clear Hs.
    destruct (pull_unroll _ _ _ _ _ _ Hl Ep) as (j & Hj & U1 & U2 & U3 & U4 & U5).
    exists j. split; [exact Hj|]. split; [|split; [|split]].
    + destruct (mv_n_L (S j) pr (unroll_tape t)) as (M1 & M2 & M3).
      unfold tape_eq. rewrite M1, M2, (M3 j eq_refl). cbn [unroll_tape zl zc zr scan lspan rspan].
      repeat split.
      * rewrite U1. apply side_eq_refl.
      * exact U2.
      * rewrite <- Hj. apply push_unroll.
    + exact U3.
    + split; cbn; [assumption|apply push_counts_pos; [assumption|lia]].
    + exact U5.
Qed.
