(** C06: soundness of the closed-position-set decider (model: CpsModel).

    Concretisation.  With span length [n] (= rad - 1), a real configuration
    [(q, z)] is COVERED by [cfgs] iff
      (i)  its local abstraction [alpha n q z] (state, scanned cell, the [n]
           nearest cells of each side as the span and cell [n] as [last]) is
           a member of [c_seen cfgs], and
      (ii) for every k >= 1, the window of [n] cells starting at cell k of
           the left (right) half tape has the cell following it registered
           among its colours in [c_lspans] ([c_rspans]).
    Cells beyond the lists are blank.

    Chain of the proof:
      [covered_step]       local soundness (B)
      [sweep_inl]          a completed sweep re-establishes [all_registered]
      [sweep_true]         a sweep answering true checked every seen config
                           against the FINAL sets (C)
      [cps_cant_reach_sound] every reachable configuration is covered (D)
      the three goal theorems, [cps_run], the early exits (E), orders, mono (F). *)
From BB Require Import Base TM InstrsModel CpsModel.
From BB Require Import Loops StepSim QuickSim CpsData.
Open Scope N_scope.

(** ------------------------------------------------------------------ *)
(** Abstraction of a half tape *)

Fixpoint window (l : list colour) (n : nat) : list colour :=
  match n with O => [] | S n' => hd0 l :: window (tl l) n' end.

Definition spanabs (n : nat) (l : list colour) : cspan := mkCSpan (window l n) (cell l n).

Definition alpha (n : nat) (q : state) (z : ztape) : cconfig :=
  mkConfig q (mkCTape (zc z) (spanabs n (zl z)) (spanabs n (zr z))).

Lemma window_length l n : length (window l n) = n.
Proof. revert l. induction n as [|n IH]; intros l; cbn [window length]; [reflexivity|]. rewrite IH. reflexivity. Qed.

Lemma window_nth l n i : (i < n)%nat -> nth i (window l n) 0 = cell l i.
Proof.
  revert l i. induction n as [|n IH]; intros l i Hi; [lia|]. cbn [window].
  destruct i as [|i]; cbn [nth]; [apply cell_hd0|]. rewrite IH by lia. apply cell_tl.
Qed.

Lemma window_snoc l n : window l (S n) = window l n ++ [cell l n].
Proof.
  revert l. induction n as [|n IH]; intros l.
  - cbn [window app]. rewrite cell_hd0. reflexivity.
  - change (window l (S (S n))) with (hd0 l :: window (tl l) (S n)).
    rewrite IH. cbn [window app]. rewrite cell_tl. reflexivity.
Qed.

Lemma pop_last_window l n : pop_last_ne (hd0 l) (window (tl l) n) = (window l n, cell l n).
Proof.
  revert l. induction n as [|n IH]; intros l.
  - cbn [window pop_last_ne]. rewrite cell_hd0. reflexivity.
  - cbn [window pop_last_ne]. rewrite IH. rewrite cell_tl. reflexivity.
Qed.

Lemma span_push_abs n l pr : span_push (spanabs n l) pr = spanabs n (pr :: l).
Proof.
  unfold span_push, spanabs. cbn [sp_span].
  pose proof (pop_last_window (pr :: l) n) as H. cbn [hd0 tl] in H. rewrite H. reflexivity.
Qed.

Lemma span_pull_abs n l :
  span_pull (spanabs n l) = (hd0 l, mkCSpan (window (tl l) n) (cell l n)).
Proof.
  destruct n as [|n]; unfold span_pull, spanabs; cbn [sp_span sp_last].
  - cbn [window]. rewrite cell_hd0. reflexivity.
  - change (window l (S n)) with (hd0 l :: window (tl l) n).
    rewrite (window_snoc (tl l) n), cell_tl. reflexivity.
Qed.

Lemma window_blank l n : all_blank l -> forallb (fun c => c =? 0) (window l n) = true.
Proof.
  revert l. induction n as [|n IH]; intros l Hb; cbn [window forallb]; [reflexivity|].
  rewrite cell_hd0, (Hb O), IH by (apply all_blank_tl; exact Hb). reflexivity.
Qed.

Lemma all_blank_cons0 l : all_blank l -> all_blank (0 :: l).
Proof. intros H [|i]; [reflexivity|]. rewrite cell_cons. apply H. Qed.

(** ------------------------------------------------------------------ *)
(** Coverage *)

Definition side_reg (n : nat) (sp : spans) (l : list colour) : Prop :=
  forall k, (1 <= k)%nat -> reg sp (window (skipn k l) n) (cell (skipn k l) n).

Definition covered (n : nat) (cfgs : configs) (c : config) : Prop :=
  cset_mem (alpha n (fst c) (snd c)) (c_seen cfgs) = true /\
  side_reg n (c_lspans cfgs) (zl (snd c)) /\
  side_reg n (c_rspans cfgs) (zr (snd c)).

Lemma side_reg_cons n sp l pr :
  reg sp (window l n) (cell l n) -> side_reg n sp l -> side_reg n sp (pr :: l).
Proof.
  intros H0 Hs [|[|k]] Hk; [lia| |]; cbn [skipn].
  - exact H0.
  - apply (Hs (S k)). lia.
Qed.

Lemma side_reg_tl n sp l : side_reg n sp l -> side_reg n sp (tl l).
Proof. intros Hs k Hk. rewrite skipn_tl. apply Hs. lia. Qed.

Lemma side_reg_next n sp l : side_reg n sp l -> reg sp (window (tl l) n) (cell (tl l) n).
Proof.
  intros Hs. specialize (Hs 1%nat (le_n _)).
  replace (skipn 1 l) with (tl l) in Hs by (destruct l; reflexivity). exact Hs.
Qed.

Lemma side_reg_mono n sp sp' l :
  (forall w col, reg sp w col -> reg sp' w col) -> side_reg n sp l -> side_reg n sp' l.
Proof. intros Hm Hs k Hk. apply Hm, Hs, Hk. Qed.

(** ------------------------------------------------------------------ *)
(** The body of the while loop, restated without tuple patterns *)

Definition pull_of (sh : shift) (t : ctape) : cspan := if sh then ct_rspan t else ct_lspan t.
Definition push_of (sh : shift) (t : ctape) : cspan := if sh then ct_lspan t else ct_rspan t.
Definition pull_spans_of (sh : shift) (cfgs : configs) : spans :=
  if sh then c_rspans cfgs else c_lspans cfgs.
Definition push_spans_of (sh : shift) (cfgs : configs) : spans :=
  if sh then c_lspans cfgs else c_rspans cfgs.
Definition set_push_spans (sh : shift) (cfgs : configs) (sp : spans) : configs :=
  if sh then mkConfigs (c_seen cfgs) sp (c_rspans cfgs)
  else mkConfigs (c_seen cfgs) (c_lspans cfgs) sp.

(** the successor config generated for the guessed far colour [col] *)
Definition succ_cfg (nx : state) (sh : shift) (pr : colour) (t : ctape) (col : colour) : cconfig :=
  let p := span_pull (pull_of sh t) in
  mkConfig nx (ctape_from_spans (fst p) (span_push (push_of sh t) pr)
                                (mkCSpan (sp_span (snd p)) col) sh).

(** [Config] insertion, cps.rs:131-137 *)
Definition ins (cfg : cconfig) (w : wstate) : wstate :=
  match try_insert cfg w with None => w | Some w' => w' end.

Lemma branch_colors_fold nx scan push pull sh colors w :
  branch_colors nx scan push pull sh colors w =
  fold_left (fun w col => ins (mkConfig nx (ctape_from_spans scan push (mkCSpan (sp_span pull) col) sh)) w)
            colors w.
Proof.
  revert w. induction colors as [|col colors IH]; intros w; cbn [branch_colors fold_left]; [reflexivity|].
  rewrite IH. reflexivity.
Qed.

Lemma process_inl prog goal c w w' :
  cps_process prog goal c w = inl w' ->
  match cp_get prog (cf_state c, ct_scan (cf_tape c)) with
  | None => goal <> CpsHalt /\ w' = w
  | Some (pr, sh, nx) =>
      let t := cf_tape c in
      let p := span_pull (pull_of sh t) in
      let cfgs := w_cfgs w in
      exists cols,
        ctrie_get (sp_span (snd p)) (pull_spans_of sh cfgs) = Some cols /\
        goal_test goal (sort_colors cols) (fst p) (snd p) (span_push (push_of sh t) pr)
                  (cf_state c) nx = false /\
        w' = fold_left (fun w col => ins (succ_cfg nx sh pr t col) w) (sort_colors cols)
               (mkW (w_todo w)
                    (set_push_spans sh cfgs (add_span (push_spans_of sh cfgs) (push_of sh t)))
                    (w_update w))
  end.
Proof.
  unfold cps_process.
  destruct (cp_get prog (cf_state c, ct_scan (cf_tape c))) as [[[pr sh] nx]|].
  2:{ destruct goal; intros H; try discriminate; injection H as <-; split; congruence. }
  cbv zeta.
  assert (Hgen : forall pull pull_spans push push_spans cfgs',
    pull = pull_of sh (cf_tape c) -> pull_spans = pull_spans_of sh (w_cfgs w) ->
    push = push_of sh (cf_tape c) -> push_spans = push_spans_of sh (w_cfgs w) ->
    cfgs' = set_push_spans sh (w_cfgs w) (add_span push_spans push) ->
    (let '(scan', pull') := span_pull pull in
     match get_colors pull_spans pull' with
     | Panic => inr Panic
     | Ok colors =>
         if goal_test goal colors scan' pull' (span_push push pr) (cf_state c) nx
         then inr (Ok false)
         else
           match split_last colors with
           | None => inr Panic
           | Some (colors', last_color) =>
               let w1 := mkW (w_todo w) cfgs' (w_update w) in
               let w2 := branch_colors nx scan' (span_push push pr) pull' sh colors' w1 in
               let next_config :=
                 mkConfig nx (ctape_from_spans scan' (span_push push pr)
                                               (mkCSpan (sp_span pull') last_color) sh) in
               match try_insert next_config w2 with
               | None => inl w2
               | Some w3 =>
                   if MAX_DEPTH <? set_len (c_seen (w_cfgs w3)) then inr (Ok false) else inl w3
               end
           end
     end) = inl w' ->
    exists cols,
      ctrie_get (sp_span (snd (span_pull pull))) pull_spans = Some cols /\
      goal_test goal (sort_colors cols) (fst (span_pull pull)) (snd (span_pull pull))
                (span_push push pr) (cf_state c) nx = false /\
      w' = fold_left (fun w col => ins (succ_cfg nx sh pr (cf_tape c) col) w) (sort_colors cols)
             (mkW (w_todo w) cfgs' (w_update w))).
  { intros pull pull_spans push push_spans cfgs' -> -> -> -> ->.
    unfold succ_cfg.
    destruct (span_pull (pull_of sh (cf_tape c))) as [scan' pull']. cbn [fst snd].
    unfold get_colors. destruct (ctrie_get (sp_span pull') (pull_spans_of sh (w_cfgs w))) as [cols|];
      [|discriminate].
    destruct (goal_test goal (sort_colors cols) scan' pull'
                (span_push (push_of sh (cf_tape c)) pr) (cf_state c) nx) eqn:Eg; [discriminate|].
    destruct (split_last (sort_colors cols)) as [[colors' lastc]|] eqn:Es; [|discriminate].
    apply split_last_app in Es. cbv zeta. intros H.
    exists cols. split; [reflexivity|]. split; [exact Eg|].
    rewrite Es. rewrite fold_left_app. cbn [fold_left]. rewrite <- branch_colors_fold.
    unfold ins at 1.
    match type of H with
    | match try_insert ?a ?b with _ => _ end = _ => destruct (try_insert a b) as [w3|]
    end.
    - destruct (MAX_DEPTH <? set_len (c_seen (w_cfgs w3))); [discriminate|]. congruence.
    - congruence. }
  destruct sh; intros H; (eapply Hgen; [..|exact H]); reflexivity.
Qed.

(** the body never answers [Ok true] by itself *)
Lemma process_inr prog goal c w r : cps_process prog goal c w = inr r -> r <> Ok true.
Proof.
  unfold cps_process.
  destruct (cp_get prog (cf_state c, ct_scan (cf_tape c))) as [[[pr sh] nx]|].
  2:{ destruct goal; intros H; try discriminate; injection H as <-; discriminate. }
  destruct sh; cbv zeta iota beta;
    match goal with |- context [span_pull ?s] => destruct (span_pull s) as [scan' pull'] end;
    match goal with |- context [get_colors ?a ?b] => destruct (get_colors a b) as [|colors] end;
    try (intros H; injection H as <-; discriminate);
    match goal with |- context [goal_test ?a ?b ?c ?d ?e ?f ?g] => destruct (goal_test a b c d e f g) end;
    try (intros H; injection H as <-; discriminate);
    destruct (split_last colors) as [[colors' lastc]|];
    try (intros H; injection H as <-; discriminate);
    cbv zeta;
    match goal with |- context [try_insert ?a ?b] => destruct (try_insert a b) as [w3|] end;
    try discriminate;
    match goal with |- context [MAX_DEPTH <? ?x] => destruct (MAX_DEPTH <? x) end;
    try discriminate; intros H; injection H as <-; discriminate.
Qed.

(** ------------------------------------------------------------------ *)
(** Insertions only extend the state *)

Record wext (w w' : wstate) : Prop := {
  we_l : c_lspans (w_cfgs w') = c_lspans (w_cfgs w);
  we_r : c_rspans (w_cfgs w') = c_rspans (w_cfgs w);
  we_todo : incl (w_todo w) (w_todo w');
  we_new : forall x, In x (set_elems (c_seen (w_cfgs w'))) ->
                     In x (set_elems (c_seen (w_cfgs w))) \/ In x (w_todo w');
  we_mem : forall x, cset_mem x (c_seen (w_cfgs w)) = true -> cset_mem x (c_seen (w_cfgs w')) = true;
  we_ok : cset_ok (c_seen (w_cfgs w)) -> cset_ok (c_seen (w_cfgs w'));
  we_upd : w_update w = true -> w_update w' = true;
  we_noupd : w_update w' = false -> w' = w }.

Lemma wext_refl w : wext w w.
Proof. constructor; auto. apply incl_refl. Qed.

Lemma wext_trans a b c : wext a b -> wext b c -> wext a c.
Proof.
  intros [l1 r1 t1 n1 m1 o1 u1 x1] [l2 r2 t2 n2 m2 o2 u2 x2]. constructor.
  - congruence.
  - congruence.
  - eapply incl_tran; eassumption.
  - intros x Hx. destruct (n2 x Hx) as [H|H]; [|auto].
    destruct (n1 x H) as [H'|H']; [auto|]. right. apply t2. exact H'.
  - auto.
  - auto.
  - auto.
  - intros Hu. pose proof (x2 Hu) as ->. apply x1. exact Hu.
Qed.

Lemma ins_wext cfg w : wext w (ins cfg w).
Proof.
  unfold ins, try_insert. destruct (cset_mem cfg (c_seen (w_cfgs w))) eqn:Em; [apply wext_refl|].
  constructor; cbn [w_cfgs w_todo w_update c_seen c_lspans c_rspans].
  - reflexivity.
  - reflexivity.
  - apply incl_tl, incl_refl.
  - intros x Hx. apply set_elems_insert in Hx. destruct Hx as [->|Hx]; [right; left; reflexivity|auto].
  - intros x. apply cset_mem_insert_mono.
  - apply cset_ok_insert.
  - reflexivity.
  - discriminate.
Qed.

Lemma ins_noupd cfg w :
  w_update (ins cfg w) = false -> cset_mem cfg (c_seen (w_cfgs w)) = true.
Proof.
  unfold ins, try_insert. destruct (cset_mem cfg (c_seen (w_cfgs w))); [reflexivity|].
  cbn [w_update]. discriminate.
Qed.

Lemma fold_ins_wext (mk : colour -> cconfig) cols w :
  wext w (fold_left (fun w col => ins (mk col) w) cols w).
Proof.
  revert w. induction cols as [|col cols IH]; intros w; cbn [fold_left]; [apply wext_refl|].
  eapply wext_trans; [apply ins_wext|apply IH].
Qed.

Lemma fold_ins_noupd (mk : colour -> cconfig) cols w :
  w_update (fold_left (fun w col => ins (mk col) w) cols w) = false ->
  forall col, In col cols -> cset_mem (mk col) (c_seen (w_cfgs w)) = true.
Proof.
  revert w. induction cols as [|col cols IH]; intros w Hu c Hin; [destruct Hin|].
  cbn [fold_left] in Hu.
  pose proof (we_noupd _ _ (fold_ins_wext mk cols (ins (mk col) w)) Hu) as Heq.
  rewrite Heq in Hu.
  pose proof (we_noupd _ _ (ins_wext (mk col) w) Hu) as Heq2.
  destruct Hin as [<-|Hin].
  - apply ins_noupd. exact Hu.
  - rewrite <- Heq2. apply IH; [|exact Hin]. rewrite Heq. exact Hu.
Qed.

(** ------------------------------------------------------------------ *)
(** The registration invariant *)

Definition push_reg (prog : comp_prog) (lsp rsp : spans) (c : cconfig) : Prop :=
  match cp_get prog (cf_state c, ct_scan (cf_tape c)) with
  | None => True
  | Some (pr, sh, nx) =>
      reg (if sh then lsp else rsp) (sp_span (push_of sh (cf_tape c))) (sp_last (push_of sh (cf_tape c)))
  end.

Definition all_registered (prog : comp_prog) (cfgs : configs) : Prop :=
  forall c, In c (set_elems (c_seen cfgs)) -> push_reg prog (c_lspans cfgs) (c_rspans cfgs) c.

Definition cfgs_le (a b : configs) : Prop :=
  (forall c, cset_mem c (c_seen a) = true -> cset_mem c (c_seen b) = true) /\
  (forall w col, reg (c_lspans a) w col -> reg (c_lspans b) w col) /\
  (forall w col, reg (c_rspans a) w col -> reg (c_rspans b) w col).

Lemma cfgs_le_refl a : cfgs_le a a.
Proof. repeat split; auto. Qed.

Lemma cfgs_le_trans a b c : cfgs_le a b -> cfgs_le b c -> cfgs_le a c.
Proof. intros (A1 & A2 & A3) (B1 & B2 & B3). repeat split; auto. Qed.

Lemma push_reg_mono prog l r l' r' c :
  (forall w col, reg l w col -> reg l' w col) -> (forall w col, reg r w col -> reg r' w col) ->
  push_reg prog l r c -> push_reg prog l' r' c.
Proof.
  intros Hl Hr. unfold push_reg.
  destruct (cp_get prog (cf_state c, ct_scan (cf_tape c))) as [[[pr sh] nx]|]; [|auto].
  destruct sh; auto.
Qed.

Lemma covered_mono n a b c : cfgs_le a b -> covered n a c -> covered n b c.
Proof.
  intros (H1 & H2 & H3) (C1 & C2 & C3). split; [auto|].
  split; eapply side_reg_mono; eassumption.
Qed.

Lemma set_push_spans_le sh cfgs s :
  cfgs_le cfgs (set_push_spans sh cfgs (add_span (push_spans_of sh cfgs) s)).
Proof.
  destruct sh; unfold set_push_spans, push_spans_of; repeat split;
    cbn [c_seen c_lspans c_rspans]; auto; intros; apply reg_add_span_mono; assumption.
Qed.

Lemma set_push_spans_seen sh cfgs sp : c_seen (set_push_spans sh cfgs sp) = c_seen cfgs.
Proof. destruct sh; reflexivity. Qed.

Lemma set_push_spans_same sh cfgs : set_push_spans sh cfgs (push_spans_of sh cfgs) = cfgs.
Proof. destruct sh, cfgs; reflexivity. Qed.

Section Sweep.
Variable prog : comp_prog.
Variable goal : cps_term.

Definition sweep_inv (cfgs0 : configs) (w : wstate) : Prop :=
  cset_ok (c_seen (w_cfgs w)) /\ cfgs_le cfgs0 (w_cfgs w) /\
  forall c, In c (set_elems (c_seen (w_cfgs w))) ->
            In c (w_todo w) \/ push_reg prog (c_lspans (w_cfgs w)) (c_rspans (w_cfgs w)) c.

Lemma wext_inv cfgs0 w w' : sweep_inv cfgs0 w -> wext w w' -> sweep_inv cfgs0 w'.
Proof.
  intros (Hok & Hle & Hreg) [l r t nw m o u x]. split; [auto|]. split.
  - eapply cfgs_le_trans; [exact Hle|]. repeat split; [exact m|rewrite l; auto|rewrite r; auto].
  - intros c Hc. rewrite l, r. destruct (nw c Hc) as [H|H]; [|auto].
    destruct (Hreg c H) as [H'|H']; [left; apply t; exact H'|auto].
Qed.

Lemma process_inv cfgs0 c todo cfgs upd w' :
  sweep_inv cfgs0 (mkW (c :: todo) cfgs upd) ->
  cps_process prog goal c (mkW todo cfgs upd) = inl w' ->
  sweep_inv cfgs0 w'.
Proof.
  intros (Hok & Hle & Hreg) H. cbn [w_cfgs w_todo] in Hok, Hle, Hreg.
  apply process_inl in H. cbn [w_cfgs w_todo w_update] in H.
  destruct (cp_get prog (cf_state c, ct_scan (cf_tape c))) as [[[pr sh] nx]|] eqn:Eg.
  - cbv zeta in H. destruct H as (cols & Hget & Hgoal & ->).
    eapply wext_inv; [|apply fold_ins_wext].
    split; [|split]; cbn [w_cfgs w_todo].
    + rewrite set_push_spans_seen. exact Hok.
    + eapply cfgs_le_trans; [exact Hle|apply set_push_spans_le].
    + rewrite set_push_spans_seen. intros x Hx.
      destruct (Hreg x Hx) as [[<-|Hin]|Hp].
      * right. unfold push_reg. rewrite Eg.
        destruct sh; cbn [set_push_spans push_spans_of c_lspans c_rspans]; apply reg_add_span_same.
      * left. exact Hin.
      * right. pose proof (set_push_spans_le sh cfgs (push_of sh (cf_tape c))) as (_ & Hl & Hr).
        eapply push_reg_mono; [exact Hl|exact Hr|exact Hp].
  - destruct H as [_ ->]. split; [exact Hok|]. split; [exact Hle|]. cbn [w_cfgs w_todo].
    intros x Hx. destruct (Hreg x Hx) as [[<-|Hin]|Hp]; auto.
    right. unfold push_reg. rewrite Eg. exact I.
Qed.

Lemma while_body_inl w w' :
  cps_while_body prog goal w = inl w' ->
  exists c todo, w_todo w = c :: todo /\
                 cps_process prog goal c (mkW todo (w_cfgs w) (w_update w)) = inl w'.
Proof.
  unfold cps_while_body. destruct (w_todo w) as [|c todo]; [discriminate|].
  destruct (cps_process prog goal c (mkW todo (w_cfgs w) (w_update w))) as [w1|r] eqn:E; [|discriminate].
  intros H. injection H as <-. eauto.
Qed.

Lemma while_body_done w cfgs u :
  cps_while_body prog goal w = inr (WDone cfgs u) ->
  w_todo w = [] /\ cfgs = w_cfgs w /\ u = w_update w.
Proof.
  unfold cps_while_body. destruct (w_todo w) as [|c todo].
  - intros H. injection H as <- <-. auto.
  - destruct (cps_process prog goal c (mkW todo (w_cfgs w) (w_update w))); discriminate.
Qed.

Lemma while_body_return w r : cps_while_body prog goal w = inr (WReturn r) -> r <> Ok true.
Proof.
  unfold cps_while_body. destruct (w_todo w) as [|c todo]; [discriminate|].
  destruct (cps_process prog goal c (mkW todo (w_cfgs w) (w_update w))) as [w1|r1] eqn:E; [discriminate|].
  intros H. injection H as <-. eapply process_inr. exact E.
Qed.

Lemma while_body_inv cfgs0 w w' :
  sweep_inv cfgs0 w -> cps_while_body prog goal w = inl w' -> sweep_inv cfgs0 w'.
Proof.
  intros Hinv H. apply while_body_inl in H. destruct H as (c & todo & Ht & Hp).
  eapply process_inv; [|exact Hp]. destruct w as [td cf up]. cbn [w_todo w_cfgs w_update] in *.
  subst td. exact Hinv.
Qed.

End Sweep.

Lemma iter_nat_inv {St Rs : Type} (body : St -> St + Rs) (I : St -> Prop) :
  (forall s s', I s -> body s = inl s' -> I s') ->
  forall n s r, I s -> iter_nat n body s = inr r -> exists s', I s' /\ body s' = inr r.
Proof.
  intros Hstep. induction n as [|n IH]; intros s r Hs; cbn [iter_nat]; [discriminate|].
  destruct (body s) as [s1|r1] eqn:E.
  - apply IH. eapply Hstep; eassumption.
  - intros H. injection H as <-. eauto.
Qed.

(** the processing order of a sweep enumerates exactly the configs of [seen]
    (a HashSet iteration does; repetitions are harmless) *)
Definition order_ok (order : list cconfig -> list cconfig) : Prop :=
  forall l x, In x (order l) <-> In x l.

(** a completed sweep: everything seen is registered, everything grew *)
Lemma sweep_inl order prog goal fuel cfgs cfgs' :
  order_ok order -> cset_ok (c_seen cfgs) ->
  cps_loop_body order prog goal fuel cfgs = inl cfgs' ->
  cset_ok (c_seen cfgs') /\ cfgs_le cfgs cfgs' /\ all_registered prog cfgs'.
Proof.
  intros Hord Hok. unfold cps_loop_body.
  destruct (for_upto fuel (cps_while_body prog goal) (mkW (order (set_elems (c_seen cfgs))) cfgs false))
    as [w|[cfgs1 u|r]] eqn:E; try discriminate.
  destruct u; [|discriminate]. intros H. injection H as <-.
  rewrite for_upto_iter in E.
  apply (iter_nat_inv _ (sweep_inv prog cfgs)) in E.
  - destruct E as (w & (Hok' & Hle & Hreg) & Hb). apply while_body_done in Hb.
    destruct Hb as (Ht & -> & _). split; [exact Hok'|]. split; [exact Hle|].
    intros c Hc. destruct (Hreg c Hc) as [Hin|Hp]; [|exact Hp]. rewrite Ht in Hin. destruct Hin.
  - intros s s'. apply while_body_inv.
  - split; [exact Hok|]. split; [apply cfgs_le_refl|]. cbn [w_cfgs w_todo].
    intros c Hc. left. apply Hord. exact Hc.
Qed.

(** ------------------------------------------------------------------ *)
(** What the last sweep checked *)

Definition checked (prog : comp_prog) (goal : cps_term) (cfgs : configs) (c : cconfig) : Prop :=
  match cp_get prog (cf_state c, ct_scan (cf_tape c)) with
  | None => goal <> CpsHalt
  | Some (pr, sh, nx) =>
      let t := cf_tape c in
      let p := span_pull (pull_of sh t) in
      reg (push_spans_of sh cfgs) (sp_span (push_of sh t)) (sp_last (push_of sh t)) /\
      exists cols,
        ctrie_get (sp_span (snd p)) (pull_spans_of sh cfgs) = Some cols /\
        goal_test goal (sort_colors cols) (fst p) (snd p) (span_push (push_of sh t) pr)
                  (cf_state c) nx = false /\
        forall col, In col cols -> cset_mem (succ_cfg nx sh pr t col) (c_seen cfgs) = true
  end.

(** [cfgs] is closed (and goal free) *)
Definition closed (prog : comp_prog) (goal : cps_term) (cfgs : configs) : Prop :=
  forall c, In c (set_elems (c_seen cfgs)) -> checked prog goal cfgs c.

Lemma process_upd_mono prog goal c w w' :
  cps_process prog goal c w = inl w' -> w_update w = true -> w_update w' = true.
Proof.
  intros H Hu. apply process_inl in H.
  destruct (cp_get prog (cf_state c, ct_scan (cf_tape c))) as [[[pr sh] nx]|].
  - cbv zeta in H. destruct H as (cols & _ & _ & ->).
    eapply we_upd; [apply fold_ins_wext|]. exact Hu.
  - destruct H as [_ ->]. exact Hu.
Qed.

Lemma process_final prog goal c todo cfgs w' :
  cps_process prog goal c (mkW todo cfgs false) = inl w' ->
  w_update w' = false ->
  push_reg prog (c_lspans cfgs) (c_rspans cfgs) c ->
  w' = mkW todo cfgs false /\ checked prog goal cfgs c.
Proof.
  intros H Hu Hp. apply process_inl in H. unfold checked, push_reg in *.
  cbn [w_cfgs w_todo w_update] in H.
  destruct (cp_get prog (cf_state c, ct_scan (cf_tape c))) as [[[pr sh] nx]|].
  - cbv zeta in H. destruct H as (cols & Hget & Hgoal & ->). cbv zeta.
    assert (Hp' : reg (push_spans_of sh cfgs) (sp_span (push_of sh (cf_tape c)))
                      (sp_last (push_of sh (cf_tape c)))) by (destruct sh; exact Hp).
    rewrite (add_span_noop _ _ Hp'), set_push_spans_same in Hu |- *.
    pose proof (we_noupd _ _ (fold_ins_wext _ _ _) Hu) as Heq.
    split; [exact Heq|]. split; [exact Hp'|].
    exists cols. split; [exact Hget|]. split; [exact Hgoal|].
    intros col Hin.
    apply (fold_ins_noupd _ _ _ Hu col). apply sort_colors_In. exact Hin.
  - destruct H as [Hg ->]. auto.
Qed.

(** a sweep that answers true checked every seen config against the final sets *)
Lemma sweep_true order prog goal fuel cfgs :
  order_ok order -> all_registered prog cfgs ->
  cps_loop_body order prog goal fuel cfgs = inr (Ok true) ->
  closed prog goal cfgs.
Proof.
  intros Hord Hall. unfold cps_loop_body.
  set (todo0 := order (set_elems (c_seen cfgs))).
  destruct (for_upto fuel (cps_while_body prog goal) (mkW todo0 cfgs false))
    as [w|[cfgs1 u|r]] eqn:E; try discriminate.
  - destruct u; [discriminate|]. intros _.
    rewrite for_upto_iter in E.
    apply (iter_nat_inv _ (fun w => w_update w = false ->
             w_cfgs w = cfgs /\ incl (w_todo w) todo0 /\
             forall c, In c todo0 -> In c (w_todo w) \/ checked prog goal cfgs c)) in E.
    + destruct E as (w & Hinv & Hb). apply while_body_done in Hb. destruct Hb as (Ht & _ & Hu).
      destruct (Hinv (eq_sym Hu)) as (_ & _ & Hch).
      intros c Hc. destruct (Hch c (proj2 (Hord _ _) Hc)) as [Hin|H]; [|exact H].
      rewrite Ht in Hin. destruct Hin.
    + intros s s' Hinv Hb Hu'. apply while_body_inl in Hb. destruct Hb as (c & todo & Ht & Hp).
      destruct (w_update s) eqn:Hus.
      { pose proof (process_upd_mono _ _ _ _ _ Hp eq_refl) as Hx. congruence. }
      destruct (Hinv eq_refl) as (Hcf & Hincl & Hch). rewrite Hcf in Hp.
      assert (Hcin : In c todo0) by (apply Hincl; rewrite Ht; left; reflexivity).
      assert (Hcs : In c (set_elems (c_seen cfgs))) by (apply Hord; exact Hcin).
      destruct (process_final _ _ _ _ _ _ Hp Hu' (Hall c Hcs)) as [-> Hck].
      cbn [w_cfgs w_todo]. split; [reflexivity|]. split.
      * intros x Hx. apply Hincl. rewrite Ht. right. exact Hx.
      * intros x Hx. destruct (Hch x Hx) as [Hin|H]; [|auto].
        rewrite Ht in Hin. destruct Hin as [<-|Hin]; auto.
    + intros _. cbn [w_cfgs w_todo]. split; [reflexivity|]. split; [apply incl_refl|auto].
  - intros H. injection H as ->. rewrite for_upto_iter in E.
    apply (iter_nat_inv _ (fun _ => True)) in E; [|auto|exact I].
    destruct E as (w & _ & Hb). apply while_body_return in Hb. congruence.
Qed.


(** ------------------------------------------------------------------ *)
(** B. Local soundness *)

Lemma alpha_tape n q z :
  cf_tape (alpha n q z) = mkCTape (zc z) (spanabs n (zl z)) (spanabs n (zr z)).
Proof. reflexivity. Qed.

Lemma succ_cfg_alpha n q z nx sh pr :
  succ_cfg nx sh pr (cf_tape (alpha n q z)) (cell (tl (side sh z)) n) = alpha n nx (tm_move z sh pr).
Proof.
  unfold succ_cfg. rewrite alpha_tape.
  destruct sh; unfold pull_of, push_of, side, tm_move, alpha, ctape_from_spans;
    cbn [ct_lspan ct_rspan ct_scan zl zr zc];
    rewrite span_pull_abs, span_push_abs; cbn [fst snd sp_span]; reflexivity.
Qed.

Theorem covered_step prog goal n cfgs q z q' z' :
  covered n cfgs (q, z) ->
  checked prog goal cfgs (alpha n q z) ->
  tm_step (to_prog prog) (q, z) = Some (q', z') ->
  covered n cfgs (q', z').
Proof.
  intros (Hmem & Hl & Hr) Hck Hstep. cbn [fst snd] in Hmem, Hl, Hr.
  unfold tm_step, to_prog in Hstep. unfold checked in Hck.
  change (cf_state (alpha n q z)) with q in Hck.
  change (ct_scan (cf_tape (alpha n q z))) with (zc z) in Hck.
  destruct (cp_get prog (q, zc z)) as [[[pr sh] nx]|]; [|discriminate].
  injection Hstep as <- <-. cbv zeta in Hck.
  destruct Hck as (Hpush & cols & Hget & _ & Hsucc).
  assert (Hcol : In (cell (tl (side sh z)) n) cols).
  { rewrite alpha_tape in Hget.
    assert (Hn : reg (pull_spans_of sh cfgs) (window (tl (side sh z)) n) (cell (tl (side sh z)) n))
      by (destruct sh; apply side_reg_next; assumption).
    destruct Hn as (cols' & Hg' & Hin).
    replace (sp_span (snd (span_pull (pull_of sh (mkCTape (zc z) (spanabs n (zl z)) (spanabs n (zr z)))))))
      with (window (tl (side sh z)) n) in Hget
      by (destruct sh; unfold pull_of, side; cbn [ct_lspan ct_rspan]; rewrite span_pull_abs; reflexivity).
    congruence. }
  specialize (Hsucc _ Hcol). rewrite succ_cfg_alpha in Hsucc.
  split; [exact Hsucc|]. cbn [fst snd]. rewrite alpha_tape in Hpush.
  destruct sh; unfold tm_move; cbn [zl zr push_of push_spans_of ct_lspan ct_rspan spanabs sp_span sp_last] in *.
  - split; [apply side_reg_cons; assumption|apply side_reg_tl; assumption].
  - split; [apply side_reg_tl; assumption|apply side_reg_cons; assumption].
Qed.

(** ------------------------------------------------------------------ *)
(** D. Every reachable configuration is covered by the final sets *)

Lemma closed_reach prog goal n cfgs :
  cset_ok (c_seen cfgs) -> closed prog goal cfgs ->
  forall k c0 c, covered n cfgs c0 -> tm_steps (to_prog prog) k c0 = Some c -> covered n cfgs c.
Proof.
  intros Hok Hcl. induction k as [|k IH]; intros c0 c Hcov; cbn [tm_steps].
  - intros H. injection H as <-. exact Hcov.
  - destruct (tm_step (to_prog prog) c0) as [c1|] eqn:E; [|discriminate].
    apply IH. destruct c0 as [q z], c1 as [q1 z1].
    eapply covered_step; [exact Hcov| |exact E].
    apply Hcl. apply Hok. exact (proj1 Hcov).
Qed.

Lemma covered_checked prog goal n cfgs q z :
  cset_ok (c_seen cfgs) -> closed prog goal cfgs -> covered n cfgs (q, z) ->
  checked prog goal cfgs (alpha n q z).
Proof. intros Hok Hcl Hcov. apply Hcl, Hok. exact (proj1 Hcov). Qed.

Lemma iter_cons0 k : N.iter k (cons 0) [] = window [] (N.to_nat k).
Proof.
  rewrite N2Nat.inj_iter. induction (N.to_nat k) as [|m IH]; [reflexivity|].
  cbn [nat_rect window hd0 tl]. unfold Nat.iter in IH. cbn [Nat.iter nat_rect]. f_equal. exact IH.
Qed.

Lemma cell_nil i : cell [] i = 0.
Proof. unfold cell. destruct i; reflexivity. Qed.

Lemma configs_init_good prog rad cfgs0 :
  configs_init rad = Ok cfgs0 ->
  cset_ok (c_seen cfgs0) /\ all_registered prog cfgs0 /\
  covered (N.to_nat (rad - 1)) cfgs0 init_config.
Proof.
  unfold configs_init, config_init, ctape_init, span_init.
  destruct (0 <? rad); [|discriminate]. intros H. injection H as <-.
  set (n := N.to_nat (rad - 1)).
  assert (Hs : mkCSpan (N.iter (rad - 1) (cons 0) []) 0 = spanabs n [])
    by (unfold spanabs; rewrite iter_cons0, cell_nil; reflexivity).
  rewrite Hs. cbn [cf_tape ct_lspan ct_rspan c_seen c_lspans c_rspans].
  set (init := mkConfig 0 (mkCTape 0 (spanabs n []) (spanabs n []))).
  split; [apply cset_ok_insert, cset_ok_empty|]. split.
  - intros c Hc. cbn [c_seen c_lspans c_rspans] in *. apply set_elems_insert in Hc.
    destruct Hc as [->|[]]. unfold push_reg.
    destruct (cp_get prog (cf_state init, ct_scan (cf_tape init))) as [[[pr sh] nx]|]; [|exact I].
    destruct sh; cbn [push_of init cf_tape ct_lspan ct_rspan]; apply reg_add_span_same.
  - split; [|split]; cbn [fst snd init_config blank_tape zl zr c_seen c_lspans c_rspans].
    + apply cset_mem_insert_same.
    + intros k _. replace (skipn k (@nil colour)) with (@nil colour) by (destruct k; reflexivity).
      apply (reg_add_span_same _ (spanabs n [])).
    + intros k _. replace (skipn k (@nil colour)) with (@nil colour) by (destruct k; reflexivity).
      apply (reg_add_span_same _ (spanabs n [])).
Qed.

(** D: the final sets are closed and cover every reachable configuration *)
Theorem cps_cant_reach_sound order prog rad goal :
  order_ok order ->
  cps_cant_reach order prog rad goal = Ok true ->
  exists cfgs, cset_ok (c_seen cfgs) /\ closed prog goal cfgs /\
    forall k c, tm_steps (to_prog prog) k init_config = Some c ->
                covered (N.to_nat (rad - 1)) cfgs c.
Proof.
  intros Hord. unfold cps_cant_reach.
  destruct (configs_init rad) as [|cfgs0] eqn:Ei; [discriminate|].
  destruct (for_upto MAX_LOOPS (cps_loop_body order prog goal (while_fuel prog rad)) cfgs0)
    as [x|r] eqn:E; [discriminate|].
  intros ->. rewrite for_upto_iter in E.
  apply (iter_nat_inv _ (fun cfgs => cset_ok (c_seen cfgs) /\ all_registered prog cfgs /\
                                     covered (N.to_nat (rad - 1)) cfgs init_config)) in E.
  - destruct E as (cfgs & (Hok & Hall & Hcov) & Hb).
    pose proof (sweep_true _ _ _ _ _ Hord Hall Hb) as Hcl.
    exists cfgs. split; [exact Hok|]. split; [exact Hcl|].
    intros k c. eapply closed_reach; eassumption.
  - intros s s' (Hok & Hall & Hcov) Hb.
    destruct (sweep_inl _ _ _ _ _ _ Hord Hok Hb) as (Hok' & Hle & Hall').
    split; [exact Hok'|]. split; [exact Hall'|]. eapply covered_mono; eassumption.
  - eapply configs_init_good. exact Ei.
Qed.

(** the goal tests are necessary conditions of the events *)
Lemma goal_test_blank colors scan pull push st nx :
  In 0 colors -> scan = 0 -> span_blank_span pull = true -> span_all_blank push = true ->
  goal_test CpsBlank colors scan pull push st nx = true.
Proof.
  intros Hin -> Hp Hq. unfold goal_test. apply existsb_eqb_In in Hin. rewrite Hin, Hp, Hq. reflexivity.
Qed.

Lemma goal_test_spinout colors scan pull push st :
  In 0 colors -> scan = 0 -> span_blank_span pull = true ->
  goal_test CpsSpinout colors scan pull push st st = true.
Proof.
  intros Hin -> Hp. unfold goal_test. apply existsb_eqb_In in Hin. rewrite Hin, Hp, !N.eqb_refl. reflexivity.
Qed.

Section Goals.
Variables (order : list cconfig -> list cconfig) (prog : comp_prog) (rad : N).
Hypothesis Hord : order_ok order.

Theorem cps_cant_reach_halt :
  cps_cant_reach order prog rad CpsHalt = Ok true ->
  forall k sl, ~ halts_at (to_prog prog) init_config k sl.
Proof.
  intros H k sl (q & t & Hs & -> & Hn).
  destruct (cps_cant_reach_sound _ _ _ _ Hord H) as (cfgs & Hok & Hcl & Hreach).
  pose proof (covered_checked _ _ _ _ _ _ Hok Hcl (Hreach _ _ Hs)) as Hck.
  unfold checked in Hck.
  change (cf_state (alpha (N.to_nat (rad - 1)) q t)) with q in Hck.
  change (ct_scan (cf_tape (alpha (N.to_nat (rad - 1)) q t))) with (zc t) in Hck.
  unfold to_prog in Hn. rewrite Hn in Hck. congruence.
Qed.

Theorem cps_cant_reach_blank :
  cps_cant_reach order prog rad CpsBlank = Ok true ->
  forall k q, ~ blank_after (to_prog prog) init_config k q.
Proof.
  intros H k q (q0 & t0 & pr & sh & t & Hs & Hi & -> & -> & Hb).
  destruct (cps_cant_reach_sound _ _ _ _ Hord H) as (cfgs & Hok & Hcl & Hreach).
  pose proof (Hreach _ _ Hs) as Hcov.
  pose proof (covered_checked _ _ _ _ _ _ Hok Hcl Hcov) as Hck.
  set (n := N.to_nat (rad - 1)) in *.
  unfold checked in Hck.
  change (cf_state (alpha n q0 t0)) with q0 in Hck.
  change (ct_scan (cf_tape (alpha n q0 t0))) with (zc t0) in Hck.
  unfold to_prog in Hi. rewrite Hi in Hck. cbv zeta in Hck.
  destruct Hck as (_ & cols & Hget & Hgoal & _).
  destruct Hcov as (_ & Hl & Hr). cbn [fst snd] in Hl, Hr.
  destruct Hb as (Bl & Bc & Br).
  rewrite goal_test_blank in Hgoal; [discriminate| | | |].
  - apply sort_colors_In.
    assert (Hn : reg (pull_spans_of sh cfgs) (window (tl (side sh t0)) n) (cell (tl (side sh t0)) n))
      by (destruct sh; apply side_reg_next; assumption).
    destruct Hn as (cols' & Hg' & Hin).
    replace (sp_span (snd (span_pull (pull_of sh (cf_tape (alpha n q0 t0))))))
      with (window (tl (side sh t0)) n) in Hget
      by (destruct sh; unfold pull_of, side; cbn [alpha cf_tape ct_lspan ct_rspan];
          rewrite span_pull_abs; reflexivity).
    assert (cols' = cols) by congruence. subst cols'.
    replace (cell (tl (side sh t0)) n) with 0 in Hin; [exact Hin|].
    symmetry. destruct sh; cbn [side tm_move zl zr] in *; [apply Br|apply Bl].
  - destruct sh; unfold pull_of; cbn [alpha cf_tape ct_lspan ct_rspan];
      rewrite span_pull_abs; cbn [fst]; cbn [tm_move zc] in Bc; exact Bc.
  - destruct sh; unfold pull_of, span_blank_span; cbn [alpha cf_tape ct_lspan ct_rspan];
      rewrite span_pull_abs; cbn [snd sp_span]; apply window_blank;
      cbn [tm_move zl zr] in *; assumption.
  - destruct sh; unfold push_of, span_all_blank, span_blank_span; cbn [alpha cf_tape ct_lspan ct_rspan];
      rewrite span_push_abs; cbn [spanabs sp_span sp_last]; cbn [tm_move zl zr] in *.
    + rewrite (Bl _), window_blank by exact Bl. reflexivity.
    + rewrite (Br _), window_blank by exact Br. reflexivity.
Qed.

Theorem cps_cant_reach_spinout :
  cps_cant_reach order prog rad CpsSpinout = Ok true ->
  forall k c, tm_steps (to_prog prog) k init_config = Some c -> ~ spinout_cfg (to_prog prog) c.
Proof.
  intros H k [q t] Hs (Hz & pr & sh & Hi & Hb).
  destruct (cps_cant_reach_sound _ _ _ _ Hord H) as (cfgs & Hok & Hcl & Hreach).
  pose proof (Hreach _ _ Hs) as Hcov.
  pose proof (covered_checked _ _ _ _ _ _ Hok Hcl Hcov) as Hck.
  set (n := N.to_nat (rad - 1)) in *.
  unfold checked in Hck.
  change (cf_state (alpha n q t)) with q in Hck.
  change (ct_scan (cf_tape (alpha n q t))) with (zc t) in Hck.
  unfold to_prog in Hi. rewrite Hz in Hck.
  assert (Hi' : cp_get prog (@pair state colour q 0) = Some (pr, sh, q)) by exact Hi.
  rewrite Hi' in Hck. cbv zeta in Hck.
  destruct Hck as (_ & cols & Hget & Hgoal & _).
  destruct Hcov as (_ & Hl & Hr). cbn [fst snd] in Hl, Hr.
  rewrite goal_test_spinout in Hgoal; [discriminate| | |].
  - apply sort_colors_In.
    assert (Hn : reg (pull_spans_of sh cfgs) (window (tl (side sh t)) n) (cell (tl (side sh t)) n))
      by (destruct sh; apply side_reg_next; assumption).
    destruct Hn as (cols' & Hg' & Hin).
    replace (sp_span (snd (span_pull (pull_of sh (cf_tape (alpha n q t))))))
      with (window (tl (side sh t)) n) in Hget
      by (destruct sh; unfold pull_of, side; cbn [alpha cf_tape ct_lspan ct_rspan];
          rewrite span_pull_abs; reflexivity).
    assert (cols' = cols) by congruence. subst cols'.
    replace (cell (tl (side sh t)) n) with 0 in Hin; [exact Hin|].
    symmetry. apply all_blank_tl. exact Hb.
  - destruct sh; unfold pull_of; cbn [alpha cf_tape ct_lspan ct_rspan];
      rewrite span_pull_abs; cbn [fst]; rewrite cell_hd0; apply Hb.
  - destruct sh; unfold pull_of, span_blank_span; cbn [alpha cf_tape ct_lspan ct_rspan];
      rewrite span_pull_abs; cbn [snd sp_span]; apply window_blank; apply all_blank_tl; exact Hb.
Qed.
End Goals.

(** ------------------------------------------------------------------ *)
(** E. [cps_run] and the early exits *)

Lemma cps_run_sound order prog rad goal :
  cps_run order prog rad goal = Ok true ->
  exists seg, cps_cant_reach order prog seg goal = Ok true.
Proof.
  unfold cps_run. destruct (1 <? rad); [|discriminate].
  match goal with |- context [for_upto ?n ?b ?s] => destruct (for_upto n b s) as [x|r] eqn:E end;
    [discriminate|].
  intros ->. rewrite for_upto_iter in E.
  apply (iter_nat_inv _ (fun _ => True)) in E; [|auto|exact I].
  destruct E as (seg & _ & Hb). exists seg.
  destruct (cps_cant_reach order prog seg goal) as [|[|]]; try discriminate. reflexivity.
Qed.

Lemma erases_blank_after P c0 k : erases_at P c0 k -> exists q, blank_after P c0 k q.
Proof.
  intros (q0 & t0 & pr & sh & q & Hs & Hi & Hp & _ & Hb).
  exists q, q0, t0, pr, sh, (tm_move t0 sh pr). auto.
Qed.

Lemma slot_eqb_eq a b : slot_eqb a b = true -> a = b.
Proof.
  destruct a as [a1 a2], b as [b1 b2]. unfold slot_eqb. cbn [fst snd].
  rewrite andb_true_iff, !N.eqb_eq. intros [-> ->]. reflexivity.
Qed.

Lemma cp_get_In (p : comp_prog) k v : cp_get p k = Some v -> In (k, v) p.
Proof.
  induction p as [|[k' v'] p IH]; cbn [cp_get]; [discriminate|].
  destruct (slot_eqb k' k) eqn:E.
  - intros H. injection H as ->. apply slot_eqb_eq in E. subst. left; reflexivity.
  - intros H. right. apply IH. exact H.
Qed.

Lemma flat_map_nil {A B} (f : A -> list B) l : flat_map f l = [] -> forall x, In x l -> f x = [].
Proof.
  induction l as [|y l IH]; cbn [flat_map]; intros H x Hx; [destruct Hx|].
  apply app_eq_nil in H. destruct H as [H1 H2]. destruct Hx as [<-|Hx]; auto.
Qed.

Lemma no_erase_slots prog :
  erase_slots prog = [] -> forall k, ~ erases_at (to_prog prog) init_config k.
Proof.
  intros He k (q0 & t0 & pr & sh & q & Hs & Hi & -> & Hnz & _).
  apply cp_get_In in Hi. pose proof (flat_map_nil _ _ He _ Hi) as Hf. cbv beta iota in Hf.
  rewrite N.eqb_refl in Hf. apply N.eqb_neq in Hnz. rewrite Hnz in Hf. discriminate.
Qed.

Lemma no_zr_shifts prog :
  zr_shifts prog = [] -> forall c, ~ spinout_cfg (to_prog prog) c.
Proof.
  intros He [q t] (_ & pr & sh & Hi & _).
  apply cp_get_In in Hi. pose proof (flat_map_nil _ _ He _ Hi) as Hf. cbv beta iota in Hf.
  rewrite !N.eqb_refl in Hf. discriminate.
Qed.

(** the box of [halt_slots]: states and colours up to the maximal KEY *)
Lemma In_N_range f lo x : In x (N_range f lo) <-> lo <= x < lo + N.of_nat f.
Proof.
  revert lo. induction f as [|f IH]; intros lo; cbn [N_range In].
  - split; [tauto|lia].
  - rewrite IH. lia.
Qed.

Lemma In_range0 m x : x <= m -> In x (range 0 (m + 1)).
Proof. intros H. unfold range. apply In_N_range. lia. Qed.

Lemma no_halt_slots prog st co :
  halt_slots prog = [] -> st <= fst (cp_params prog) -> co <= snd (cp_params prog) ->
  cp_mem prog (st, co) = true.
Proof.
  unfold halt_slots. destruct (cp_params prog) as [ms mc]. cbn [fst snd]. intros H Hs Hc.
  pose proof (flat_map_nil _ _ H st (In_range0 _ _ Hs)) as H1. cbv beta in H1.
  pose proof (flat_map_nil _ _ H1 co (In_range0 _ _ Hc)) as H2. cbv beta in H2.
  revert H2. unfold state, colour. destruct (cp_mem prog (st, co)); [reflexivity|discriminate].
Qed.

(** every state and colour mentioned INSIDE an instruction is within the
    box spanned by the keys (the guard against finding F2) *)
Definition dims_okb (p : comp_prog) : bool :=
  forallb (fun kv => let '(_, (pr, _, nx)) := kv in
                     (pr <=? snd (cp_params p)) && (nx <=? fst (cp_params p))) p.
Definition dims_ok (p : comp_prog) : Prop := dims_okb p = true.

Lemma dims_ok_In p k pr sh nx :
  dims_ok p -> In (k, (pr, sh, nx)) p -> pr <= snd (cp_params p) /\ nx <= fst (cp_params p).
Proof.
  unfold dims_ok, dims_okb. rewrite forallb_forall. intros H Hin. specialize (H _ Hin).
  cbv beta iota in H. apply andb_true_iff in H. rewrite !N.leb_le in H. exact H.
Qed.

Definition in_box (p : comp_prog) (c : config) : Prop :=
  fst c <= fst (cp_params p) /\ zc (snd c) <= snd (cp_params p) /\
  (forall i, cell (zl (snd c)) i <= snd (cp_params p)) /\
  (forall i, cell (zr (snd c)) i <= snd (cp_params p)).

Lemma step_in_box p c c' :
  dims_ok p -> in_box p c -> tm_step (to_prog p) c = Some c' -> in_box p c'.
Proof.
  intros Hd (Hq & Hc & Hl & Hr). destruct c as [q t]. cbn [fst snd] in *.
  unfold tm_step, to_prog. destruct (cp_get p (q, zc t)) as [[[pr sh] nx]|] eqn:E; [|discriminate].
  intros H. injection H as <-. apply cp_get_In in E. destruct (dims_ok_In _ _ _ _ _ Hd E) as [Hpr Hnx].
  unfold in_box. cbn [fst snd]. split; [exact Hnx|].
  destruct sh; unfold tm_move; cbn [zl zc zr]; (split; [rewrite cell_hd0; auto|]); split; intros i.
  - destruct i as [|i]; [exact Hpr|]. rewrite cell_cons. apply Hl.
  - rewrite cell_tl. apply Hr.
  - rewrite cell_tl. apply Hl.
  - destruct i as [|i]; [exact Hpr|]. rewrite cell_cons. apply Hr.
Qed.

Lemma reach_in_box p :
  dims_ok p -> forall k c, tm_steps (to_prog p) k init_config = Some c -> in_box p c.
Proof.
  intros Hd. assert (Hgen : forall k c0 c, in_box p c0 -> tm_steps (to_prog p) k c0 = Some c -> in_box p c).
  { induction k as [|k IH]; intros c0 c Hb; cbn [tm_steps].
    - intros H. injection H as <-. exact Hb.
    - destruct (tm_step (to_prog p) c0) as [c1|] eqn:E; [|discriminate].
      apply IH. eapply step_in_box; eassumption. }
  intros k c. apply Hgen. unfold in_box, init_config, blank_tape. cbn [fst snd zl zc zr].
  repeat split; try apply N.le_0_l; intros i; rewrite cell_nil; apply N.le_0_l.
Qed.

Lemma no_halt_slots_sound prog :
  dims_ok prog -> halt_slots prog = [] ->
  forall k sl, ~ halts_at (to_prog prog) init_config k sl.
Proof.
  intros Hd Hh k sl (q & t & Hs & -> & Hn).
  destruct (reach_in_box _ Hd _ _ Hs) as (Hq & Hc & _). cbn [fst snd] in Hq, Hc.
  pose proof (no_halt_slots _ _ _ Hh Hq Hc) as Hm. unfold cp_mem in Hm.
  unfold to_prog in Hn. unfold state, colour in *. rewrite Hn in Hm. discriminate.
Qed.

Section Top.
Variables (order : list cconfig -> list cconfig) (prog : comp_prog) (rad : N).
Hypothesis Hord : order_ok order.

Theorem cps_cant_halt_sound :
  dims_ok prog -> cps_cant_halt order prog rad = Ok true ->
  forall k sl, ~ halts_at (to_prog prog) init_config k sl.
Proof.
  intros Hd. unfold cps_cant_halt. destruct (halt_slots prog) as [|s l] eqn:E.
  - intros _. apply no_halt_slots_sound; assumption.
  - intros H. apply cps_run_sound in H. destruct H as (seg & H).
    eapply cps_cant_reach_halt; eassumption.
Qed.

(** without the early exit no guard is needed *)
Theorem cps_run_halt_sound :
  cps_run order prog rad CpsHalt = Ok true ->
  forall k sl, ~ halts_at (to_prog prog) init_config k sl.
Proof.
  intros H. apply cps_run_sound in H. destruct H as (seg & H).
  eapply cps_cant_reach_halt; eassumption.
Qed.

Theorem cps_cant_blank_sound :
  cps_cant_blank order prog rad = Ok true ->
  forall k, ~ erases_at (to_prog prog) init_config k.
Proof.
  unfold cps_cant_blank. destruct (erase_slots prog) as [|s l] eqn:E.
  - intros _. apply no_erase_slots. exact E.
  - intros H k He. apply cps_run_sound in H. destruct H as (seg & H).
    apply erases_blank_after in He. destruct He as (q & He).
    eapply cps_cant_reach_blank; eassumption.
Qed.

(** the stronger fact behind it when the analysis really ran *)
Theorem cps_run_blank_sound :
  cps_run order prog rad CpsBlank = Ok true ->
  forall k q, ~ blank_after (to_prog prog) init_config k q.
Proof.
  intros H. apply cps_run_sound in H. destruct H as (seg & H).
  eapply cps_cant_reach_blank; eassumption.
Qed.

Theorem cps_run_spinout_sound :
  cps_run order prog rad CpsSpinout = Ok true -> never_spins_out (to_prog prog) init_config.
Proof.
  intros H. apply cps_run_sound in H. destruct H as (seg & H).
  exact (cps_cant_reach_spinout _ _ _ Hord H).
Qed.

Theorem cps_cant_spin_out_sound :
  cps_cant_spin_out order prog rad = Ok true ->
  forall k, ~ spins_out_at (to_prog prog) init_config k.
Proof.
  unfold cps_cant_spin_out. destruct (zr_shifts prog) as [|s l] eqn:E.
  - intros _ k (c & _ & Hc). eapply no_zr_shifts; eassumption.
  - intros H k (c & Hs & Hc). apply cps_run_sound in H. destruct H as (seg & H).
    eapply cps_cant_reach_spinout; eassumption.
Qed.
End Top.

(** ------------------------------------------------------------------ *)
(** F. orders; monotonicity in the radius *)

Lemma order_ok_newest_first : order_ok order_newest_first.
Proof. intros l x. unfold order_newest_first. tauto. Qed.

Lemma order_ok_oldest_first : order_ok order_oldest_first.
Proof.
  intros l x. unfold order_oldest_first. rewrite rev_append_rev, app_nil_r. symmetry. apply in_rev.
Qed.

(** [Ok true] (and a panic) found with bound r is found with every bound above r *)
Theorem cps_run_mono order prog r r' goal :
  cps_run order prog r goal = Ok true -> r <= r' -> cps_run order prog r' goal = Ok true.
Proof.
  unfold cps_run. intros H Hle. destruct (1 <? r) eqn:E1; [|discriminate].
  assert (E2 : 1 <? r' = true) by (apply N.ltb_lt; apply N.ltb_lt in E1; lia). rewrite E2.
  match type of H with match for_upto ?n ?b ?s with _ => _ end = _ =>
    destruct (for_upto n b s) as [x|r0] eqn:E end; [discriminate|].
  rewrite (for_upto_mono _ _ _ _ _ E) by lia. exact H.
Qed.

(** more generally: past the assertion, any settled answer persists *)
Theorem cps_run_mono_settled order prog r r' goal res :
  1 < r -> cps_run order prog r goal = res -> res <> Ok false -> r <= r' ->
  cps_run order prog r' goal = res.
Proof.
  unfold cps_run. intros H1 H Hne Hle.
  assert (E1 : 1 <? r = true) by (apply N.ltb_lt; lia).
  assert (E2 : 1 <? r' = true) by (apply N.ltb_lt; lia). rewrite E1 in H. rewrite E2.
  match type of H with match for_upto ?n ?b ?s with _ => _ end = _ =>
    destruct (for_upto n b s) as [x|r0] eqn:E end; [congruence|].
  rewrite (for_upto_mono _ _ _ _ _ E) by lia. exact H.
Qed.

Theorem cps_cant_halt_mono order prog r r' :
  cps_cant_halt order prog r = Ok true -> r <= r' -> cps_cant_halt order prog r' = Ok true.
Proof.
  unfold cps_cant_halt. destruct (halt_slots prog); [reflexivity|]. apply cps_run_mono.
Qed.
Theorem cps_cant_blank_mono order prog r r' :
  cps_cant_blank order prog r = Ok true -> r <= r' -> cps_cant_blank order prog r' = Ok true.
Proof.
  unfold cps_cant_blank. destruct (erase_slots prog); [reflexivity|]. apply cps_run_mono.
Qed.
Theorem cps_cant_spin_out_mono order prog r r' :
  cps_cant_spin_out order prog r = Ok true -> r <= r' -> cps_cant_spin_out order prog r' = Ok true.
Proof.
  unfold cps_cant_spin_out. destruct (zr_shifts prog); [reflexivity|]. apply cps_run_mono.
Qed.
