(** C05 layer 5 — soundness of the REFUTATIONS (goals Halt and Spinout):
    if [all_segments_reached] saturates ([Ok None]) for some window size, the
    goal event never happens on the run from the blank tape.  This file: the
    analysis of the search loop ([sg_asr_halt_none], [sg_asr_spin_none]:
    [Ok None] implies [end_fact]); SegmentCover.v / SegmentRefuteHalt.v /
    SegmentRefuteSpin.v: [end_fact] is incompatible with the event.

    Argument.  Fix the window size [seg] (the window holds [cells = seg - 2]
    cells; positions 0 and seg-1 are "just outside").  The exploration
    processes abstract configurations (state, window tape); a processed
    configuration [x] is run inside the window by macro steps ([miter]) until
    it gets stuck: at an edge (then all its abstract successors — re-entry in
    any state that moves back in, or any other state while staying outside —
    are put on the todo stack unless already marked in [seen]/[blanks]), at an
    undefined slot, or it cycles.  Goal configurations met on the way (Halt:
    the undefined slot; Spinout: every configuration that passes the spin-out
    test; both: edge configurations passing the goal test of segment.rs:220)
    have their position recorded in [reached].

    [Inv goal cs D Dr] is the invariant of the search loop, with a ghost list
    [D] of the processed start configurations: everything marked is pending
    or on the run of a processed configuration; for every processed run the
    consequences above hold ([run_done]).  When the loop ends with [None] the
    todo stack is empty, so the set of configurations on processed runs is
    CLOSED under the abstract transition relation and contains all [seg]
    initial configurations.  A real run, viewed through the window placed at
    ANY offset [lo], stays covered ([Rrel], SegmentShape.v; SegmentCover.v).
    If the event happened in state q with the head on cell H, then for each of
    the seg placements lo = H - p the covering configuration at that time has
    position p and is a goal configuration, so p was inserted into reached[q];
    a duplicate-free set with seg elements has length seg, and the search
    would have answered [Reached] at the last insertion.

    The [blanks] pruning is harmless for these two goals: a position is put
    into blanks[st] only for a configuration that is pushed on the todo stack,
    is an initial configuration, or lies on the run being processed (the hare
    continues from it); blank windows with the head at the same place are
    interchangeable ([KnownB], [Rrel_blank_same]).  For the goal Blank the
    search never answers [None] at all (SegmentBlank.v). *)
From BB Require Import Base TM TMabs MacroSpec InstrsModel SegmentModel Loops TranslatedCycle AbsEquiv MacroSim.
From BB Require Import SegmentTape SegmentSound SegmentVerdicts SegmentAprog SegmentShape.
Open Scope N_scope.

(** destruct the dictionary lookup inside an unfolded [sg_dict_entry] *)
Ltac dentry H v E :=
  match type of H with
  | context [match ?g with Some _ => _ | None => _ end] =>
      destruct g as [v|] eqn:E; try rewrite E in H; [|destruct H]
  end.

Section Refute.
Variable prog : comp_prog.
Notation P := (to_prog prog).

(** ---- determinism of the macro run ---- *)
Lemma miter_add a : forall b x,
  miter prog (a + b) x = match miter prog a x with Some y => miter prog b y | None => None end.
Proof.
  induction a as [|a IH]; intros b x; cbn [Nat.add miter]; [reflexivity|].
  destruct (mstep prog x) as [x1|]; [apply IH|reflexivity].
Qed.

Definition halting (y : state * sg_tape) : Prop :=
  exists co, sgt_scan (snd y) = Some co /\ cp_get prog (fst y, co) = None.

Lemma mstep_none y : mstep prog y = None -> sgt_scan (snd y) = None \/ halting y.
Proof.
  unfold mstep. destruct (sgt_scan (snd y)) as [co|] eqn:Es; [|left; reflexivity].
  destruct (cp_get prog (fst y, co)) as [[[pr sh] q']|] eqn:HP.
  - unfold sg_tape_step. rewrite Es. destruct sh.
    + destruct (sg_span_pull _ _ _) as [[a b] c]. discriminate.
    + destruct (sg_span_pull _ _ _) as [[a b] c]. discriminate.
  - intros _. right. exists co. split; [exact Es|exact HP].
Qed.

Lemma halting_stuck y : halting y -> mstep prog y = None.
Proof. intros (co & Es & HP). unfold mstep. rewrite Es, HP. reflexivity. Qed.

Lemma edge_stuck y : sgt_scan (snd y) = None -> mstep prog y = None.
Proof. intro Es. unfold mstep. rewrite Es. reflexivity. Qed.

Lemma miter_stuck_unique a m x y1 y2 :
  miter prog a x = Some y1 -> mstep prog y1 = None ->
  miter prog m x = Some y2 -> mstep prog y2 = None -> y1 = y2.
Proof.
  intros H1 S1 H2 S2. destruct (Nat.lt_trichotomy a m) as [L|[E|G]].
  - exfalso. replace m with (a + S (m - a - 1))%nat in H2 by lia.
    rewrite miter_add, H1 in H2. cbn [miter] in H2. rewrite S1 in H2. discriminate.
  - subst m. congruence.
  - exfalso. replace a with (m + S (a - m - 1))%nat in H1 by lia.
    rewrite miter_add, H2 in H1. cbn [miter] in H1. rewrite S2 in H1. discriminate.
Qed.

Definition cyc (z : state * sg_tape) : Prop :=
  exists m, (1 <= m)%nat /\ miter prog m z = Some z.

Lemma cyc_no_stuck a x z : miter prog a x = Some z -> cyc z ->
  forall m y, miter prog m x = Some y -> mstep prog y <> None.
Proof.
  intros Ha (per & Hper & Hz) m. induction m as [m IH] using lt_wf_ind. intros y Hy.
  destruct (Nat.lt_ge_cases m (a + per)) as [L|G].
  - assert (Hfull : miter prog (a + per) x = Some z) by (rewrite miter_add, Ha; exact Hz).
    replace (a + per)%nat with (m + S (a + per - m - 1))%nat in Hfull by lia.
    rewrite miter_add, Hy in Hfull. cbn [miter] in Hfull.
    destruct (mstep prog y); [discriminate|discriminate].
  - apply (IH (m - per)%nat ltac:(lia)).
    replace m with (a + per + (m - a - per))%nat in Hy by lia.
    rewrite miter_add, miter_add, Ha, Hz in Hy.
    replace (m - per)%nat with (a + (m - a - per))%nat by lia.
    rewrite miter_add, Ha. exact Hy.
Qed.

(** ---- [run_to_edge] for goal Halt, exactly ---- *)
Definition blanks_ext (x0 : state * sg_tape) (B0 B1 : sg_dict sg_nset) : Prop :=
  forall q ps p, sg_dict_get q B1 = Some ps -> In p ps ->
    (exists ps0, sg_dict_get q B0 = Some ps0 /\ In p ps0) \/
    (exists j t, miter prog j x0 = Some (q, t) /\ sg_tape_blank t = true /\ sg_tape_pos t = p).

Definition frame (x0 : state * sg_tape) (cs0 cs1 : sg_configs) : Prop :=
  sgs_todo cs1 = sgs_todo cs0 /\ sgs_seen cs1 = sgs_seen cs0 /\
  sgs_reached cs1 = sgs_reached cs0 /\ sgs_seg cs1 = sgs_seg cs0 /\
  blanks_ext x0 (sgs_blanks cs0) (sgs_blanks cs1).

Lemma frame_refl x0 cs : frame x0 cs cs.
Proof.
  repeat split. intros q ps p H1 H2. left. exists ps. split; assumption.
Qed.

Lemma blanks_ext_insert x0 B0 B1 j st t :
  blanks_ext x0 B0 B1 -> miter prog j x0 = Some (st, t) -> sg_tape_blank t = true ->
  blanks_ext x0 B0 (sg_dict_set st (sg_nset_insert (sg_tape_pos t) (sg_dict_entry st [] B1)) B1).
Proof.
  intros Hext Hj Hb q ps p Hg Hin. destruct (N.eq_dec q st) as [->|Ne].
  - rewrite sg_dict_get_set_same in Hg. injection Hg as <-.
    apply sg_nset_insert_In in Hin. destruct Hin as [->|Hin].
    + right. exists j, t. repeat split; assumption.
    + unfold sg_dict_entry in Hin. dentry Hin ps1 E.
      apply (Hext st ps1 p E Hin).
  - rewrite sg_dict_get_set_other in Hg by exact Ne. apply (Hext q ps p Hg Hin).
Qed.

Definition rteH_post (x0 : state * sg_tape) (cs0 : sg_configs) (r : sg_rte_ret) : Prop :=
  match r with
  | Panic => True
  | Ok (res, c', cs1) =>
      frame x0 cs0 cs1 /\ (exists a, miter prog a x0 = Some (sg_x c')) /\
      match res with
      | None => sgt_scan (sgc_tape c') = None
      | Some (SgFound SgHalt) => halting (sg_x c')
      | Some SgRepeat => sgc_init c' = true \/ cyc (sg_x c')
      | Some (SgFound SgSpinout) => sgc_init c' = true
      | _ => False
      end
  end.

Definition rteH_inv (x0 : state * sg_tape) (cs0 : sg_configs) (s : sg_rte_state) : Prop :=
  frame x0 cs0 (rte_configs s) /\
  (exists a, miter prog a x0 = Some (sg_x (rte_self s))) /\
  exists m, miter prog m (sg_x (rte_copy s)) = Some (sg_x (rte_self s)) /\
            (rte_step s = true -> (1 <= m)%nat).

Lemma rteH_blank_check_spec print st self1 cs :
  match sg_rte_blank_check SgHalt print st self1 cs with
  | inl (self2, cs2) =>
      sg_x self2 = sg_x self1 /\
      sgs_todo cs2 = sgs_todo cs /\ sgs_seen cs2 = sgs_seen cs /\
      sgs_reached cs2 = sgs_reached cs /\ sgs_seg cs2 = sgs_seg cs /\
      (sgs_blanks cs2 = sgs_blanks cs \/
       (sg_tape_blank (sgc_tape self1) = true /\
        sgs_blanks cs2 = sg_dict_set st (sg_nset_insert (sg_tape_pos (sgc_tape self1))
                                           (sg_dict_entry st [] (sgs_blanks cs))) (sgs_blanks cs)))
  | inr (Ok (res, self2, cs2)) =>
      res = Some SgRepeat /\ sgc_init self2 = true /\ self2 = self1 /\ cs2 = cs
  | inr Panic => False
  end.
Proof.
  unfold sg_rte_blank_check.
  destruct ((print =? 0) && sg_tape_blank (sgc_tape self1)) eqn:Eb.
  2:{ repeat split. left. reflexivity. }
  apply andb_true_iff in Eb. destruct Eb as [_ Hb].
  destruct ((st =? 0) && sgc_init self1) eqn:Ei.
  { apply andb_true_iff in Ei. destruct Ei as [_ Ei]. repeat split. exact Ei. }
  cbn [sg_term_eqb].
  assert (Hx : sg_x (if st =? 0 then mkSgConfig (sgc_state self1) (sgc_tape self1) true else self1)
               = sg_x self1) by (destruct (st =? 0); reflexivity).
  assert (Ht : sgc_tape (if st =? 0 then mkSgConfig (sgc_state self1) (sgc_tape self1) true else self1)
               = sgc_tape self1) by (destruct (st =? 0); reflexivity).
  split; [exact Hx|]. cbn [sgs_set_blanks sgs_todo sgs_seen sgs_reached sgs_seg sgs_blanks].
  repeat split. right. split; [exact Hb|]. rewrite Ht. reflexivity.
Qed.

Lemma rteH_body_inv x0 cs0 s : rteH_inv x0 cs0 s ->
  match sg_rte_body prog SgHalt s with
  | inl s' => rteH_inv x0 cs0 s'
  | inr r => rteH_post x0 cs0 r
  end.
Proof.
  destruct s as [self copy step cs]. unfold rteH_inv. cbn [rte_self rte_copy rte_step rte_configs].
  intros (Hfr & (a & Ha) & m & Hm & Hm1). unfold sg_rte_body.
  cbn [rte_self rte_copy rte_step rte_configs].
  destruct (sg_config_slot self) as [sl|] eqn:Esl.
  2:{ cbn [rteH_post]. split; [exact Hfr|]. split; [exists a; exact Ha|].
      unfold sg_config_slot in Esl. destruct (sgt_scan (sgc_tape self)); [discriminate|reflexivity]. }
  destruct (cp_get prog sl) as [i|] eqn:HP.
  2:{ cbn [rteH_post]. split; [exact Hfr|]. split; [exists a; exact Ha|].
      unfold sg_config_slot in Esl. destruct (sgt_scan (sgc_tape self)) as [co|] eqn:Es; [|discriminate].
      injection Esl as <-. exists co. split; [exact Es|exact HP]. }
  destruct i as [[print sh] st].
  cbn [sg_term_eqb]. rewrite orb_false_r.
  assert (Hspin : exists spin,
            (if sgc_init self && sg_config_spinout self (print, sh, st)
             then if sgc_init self then (true, cs) else sg_check_reached cs self SgHalt
             else (false, cs)) = (spin, cs) /\ (spin = true -> sgc_init self = true)).
  { destruct (sgc_init self); cbn [andb].
    - destruct (sg_config_spinout self (print, sh, st)); eexists; split; reflexivity || auto.
    - exists false. split; [reflexivity|discriminate]. }
  destruct Hspin as (spin & -> & Hspin).
  destruct spin.
  { cbn [rteH_post]. split; [exact Hfr|]. split; [exists a; exact Ha|]. apply Hspin. reflexivity. }
  destruct (sg_config_step self (print, sh, st)) as [|self1] eqn:Estep; [exact I|].
  destruct (config_step_mstep prog self sl print sh st self1 Esl HP Estep) as (Hms & Hinit1 & Hst1).
  pose proof (miter_snoc prog a _ _ _ Ha Hms) as Ha1.
  pose proof (miter_snoc prog m _ _ _ Hm Hms) as Hm'.
  pose proof (rteH_blank_check_spec print st self1 cs) as HB.
  destruct (sg_rte_blank_check SgHalt print st self1 cs) as [[self2 cs2]|r].
  2:{ destruct r as [|[[res self2] cs2]]; [exact I|].
      destruct HB as (-> & Hi2 & -> & ->). cbn [rteH_post].
      split; [exact Hfr|]. split; [exists (S a); exact Ha1|]. left. exact Hi2. }
  destruct HB as (Hx & T1 & T2 & T3 & T4 & HBl).
  assert (Hfr2 : frame x0 cs0 cs2).
  { destruct Hfr as (F1 & F2 & F3 & F4 & F5). unfold frame.
    split; [congruence|]. split; [congruence|]. split; [congruence|]. split; [congruence|].
    destruct HBl as [->|[Hb ->]]; [exact F5|].
    apply (blanks_ext_insert x0 _ _ (S a) st (sgc_tape self1) F5); [|exact Hb].
    rewrite Ha1. unfold sg_x. rewrite Hst1. reflexivity. }
  unfold sg_rte_copy_step. destruct step; cbn [negb].
  2:{ unfold rteH_inv. cbn [rte_self rte_copy rte_step rte_configs].
      split; [exact Hfr2|]. split; [exists (S a); rewrite Hx; exact Ha1|].
      exists (S m). split; [rewrite Hx; exact Hm'|intros _; lia]. }
  destruct (sg_config_slot copy) as [cslot|] eqn:Ecs; [|exact I].
  destruct (cp_get prog cslot) as [[[cpr csh] cst]|] eqn:HPc; [|exact I].
  destruct (sg_config_step copy (cpr, csh, cst)) as [|copy'] eqn:Ecstep; [exact I|].
  destruct (config_step_mstep prog copy cslot cpr csh cst copy' Ecs HPc Ecstep) as (Hmc & _ & _).
  assert (Hm2 : miter prog m (sg_x copy') = Some (sg_x self2)).
  { rewrite Hx. change (miter prog (S m) (sg_x copy)) with
      (match mstep prog (sg_x copy) with Some x' => miter prog m x' | None => None end) in Hm'.
    rewrite Hmc in Hm'. exact Hm'. }
  specialize (Hm1 eq_refl).
  destruct ((sgc_state copy' =? sgc_state self2) && sg_tape_eqb (sgc_tape copy') (sgc_tape self2)) eqn:Ecmp.
  - apply andb_true_iff in Ecmp. destruct Ecmp as [E1 E2]. apply N.eqb_eq in E1.
    apply sg_tape_eqb_eq in E2.
    assert (Ex : sg_x copy' = sg_x self2) by (unfold sg_x; congruence).
    rewrite Ex in Hm2. cbn [rteH_post].
    split; [exact Hfr2|]. split; [exists (S a); rewrite Hx; exact Ha1|].
    right. exists m. split; [exact Hm1|exact Hm2].
  - unfold rteH_inv. cbn [rte_self rte_copy rte_step rte_configs].
    split; [exact Hfr2|]. split; [exists (S a); rewrite Hx; exact Ha1|].
    exists m. split; [exact Hm2|discriminate].
Qed.

Lemma sg_run_to_edge_halt_spec c cs :
  rteH_post (sg_x c) cs (sg_run_to_edge prog SgHalt c cs).
Proof.
  unfold sg_run_to_edge. destruct (sgt_scan (sgc_tape c)) eqn:Es.
  2:{ cbn [rteH_post]. split; [apply frame_refl|]. split; [exists 0%nat; reflexivity|exact Es]. }
  rewrite for_upto_iter.
  pose proof (iter_nat_inv (sg_rte_body prog SgHalt) (rteH_inv (sg_x c) cs) (rteH_post (sg_x c) cs)
                (rteH_body_inv (sg_x c) cs)
                (N.to_nat (sg_rte_fuel prog (sgs_seg cs))) (mkSgRte c c false cs)) as H.
  destruct (iter_nat _ _ _) as [s'|r]; [exact I|]. apply H.
  unfold rteH_inv. cbn [rte_self rte_copy rte_step rte_configs].
  split; [apply frame_refl|]. split; [exists 0%nat; reflexivity|].
  exists 0%nat. split; [reflexivity|discriminate].
Qed.

(** ---- the invariant of the search loop ---- *)
Variables (S C seg : N).
Hypothesis Hseg : 4 <= seg.
Let ap := sg_aprog_new prog (S, C).
Let cells : Z := Z.of_N (seg - 2).

Lemma cells_pos : (1 <= cells)%Z.
Proof. unfold cells. lia. Qed.

Definition OnRun (D : list (state * sg_tape)) (y : state * sg_tape) : Prop :=
  exists x0 m, In x0 D /\ miter prog m x0 = Some y.
Definition Pending (cs : sg_configs) (y : state * sg_tape) : Prop :=
  exists c, In c (sgs_todo cs) /\ sg_x c = y.
Definition Known (cs : sg_configs) D (y : state * sg_tape) : Prop := Pending cs y \/ OnRun D y.
Definition KnownB (cs : sg_configs) D (q : state) (t : sg_tape) : Prop :=
  exists t', wf cells t' /\ Known cs D (q, t') /\
    (t' = t \/ (sg_tape_blank t = true /\ sg_tape_blank t' = true /\
                sg_tape_pos t' = sg_tape_pos t)).
Definition reached_has (cs : sg_configs) (q : state) (p : N) : Prop :=
  forall r, sg_dict_get q (sgs_reached cs) = Some r -> In p r.
Definition succs_known (cs : sg_configs) D (y : state * sg_tape) : Prop :=
  forall sd diffs dirs,
    sg_tape_side (snd y) = Ok sd ->
    sg_dict_get (fst y) (sga_branches ap) = Some (diffs, dirs) ->
    (forall st nt, In st (sg_dirs_get dirs (negb sd)) ->
       sg_tape_step_in (snd y) (negb sd) = Ok nt -> KnownB cs D st nt) /\
    (forall st, In st diffs -> KnownB cs D st (snd y)).
(** the goal event on an abstract configuration, the goal test on an edge
    configuration (segment.rs:220-230) and the keys of [reached] *)
Definition spin (y : state * sg_tape) : Prop :=
  exists pr sh, sgt_scan (snd y) = Some 0 /\
                cp_get prog (fst y, (0 : colour)) = Some (pr, sh, fst y) /\
                sg_tape_at_edge (snd y) sh = true.
Definition edge_spin (y : state * sg_tape) : Prop :=
  exists sh sd, sg_dict_get (fst y) (sga_spinouts ap) = Some sh /\
                sg_tape_side (snd y) = Ok sd /\
                Bool.eqb sh sd || sg_tape_blank (snd y) = true.

Section Gen.
Variable goal : sg_term.
Hypothesis Hgoal : sg_term_eqb goal SgBlank = false.

Definition evt (y : state * sg_tape) : Prop :=
  match goal with SgHalt => halting y | SgSpinout => spin y | SgBlank => False end.
Definition edge_goal (y : state * sg_tape) : Prop :=
  match goal with SgHalt => True | SgSpinout => edge_spin y | SgBlank => False end.
Definition keys (q : state) : Prop :=
  match goal with
  | SgHalt => In q (sga_halts ap)
  | SgSpinout => sg_dict_get q (sga_spinouts ap) <> None
  | SgBlank => False
  end.

Definition run_done (cs : sg_configs) D (x : state * sg_tape) : Prop :=
  forall m y, miter prog m x = Some y ->
    (evt y -> reached_has cs (fst y) (sg_tape_pos (snd y))) /\
    (sgt_scan (snd y) = None ->
       (edge_goal y -> reached_has cs (fst y) (sg_tape_pos (snd y))) /\ succs_known cs D y).

Definition Inv (cs : sg_configs) (D Dr : list (state * sg_tape)) : Prop :=
  sgs_seg cs = seg /\
  (forall c, In c (sgs_todo cs) -> wf cells (sgc_tape c)) /\
  (forall x, In x D -> wf cells (snd x)) /\
  (forall q ts t, sg_dict_get q (sgs_seen cs) = Some ts -> In t ts -> Known cs D (q, t)) /\
  (forall q ps p, sg_dict_get q (sgs_blanks cs) = Some ps -> In p ps ->
     exists t, wf cells t /\ sg_tape_blank t = true /\ sg_tape_pos t = p /\ Known cs D (q, t)) /\
  (forall x, In x Dr -> run_done cs D x) /\
  (forall q r, sg_dict_get q (sgs_reached cs) = Some r -> NoDup r /\ sg_len r < seg) /\
  (forall q, keys q -> sg_dict_get q (sgs_reached cs) <> None).

Lemma KnownB_mono cs D cs' D' q t :
  (forall y, Known cs D y -> Known cs' D' y) -> KnownB cs D q t -> KnownB cs' D' q t.
Proof.
  intros Hk (t' & Hwf & Hkn & Hor). exists t'. split; [exact Hwf|]. split; [apply Hk, Hkn|exact Hor].
Qed.

Lemma run_done_mono cs D cs' D' x :
  (forall y, Known cs D y -> Known cs' D' y) ->
  (forall q p, reached_has cs q p -> reached_has cs' q p) ->
  run_done cs D x -> run_done cs' D' x.
Proof.
  intros Hk Hr Hd m y Hy. destruct (Hd m y Hy) as [H1 H2]. split.
  - intro Hh. apply Hr, H1, Hh.
  - intro He. destruct (H2 He) as [H3 H4]. split; [intro Hg; apply Hr, H3, Hg|].
    intros sd diffs dirs Hsd Hbr. destruct (H4 sd diffs dirs Hsd Hbr) as [H5 H6]. split.
    + intros st nt Hin Hnt. apply (KnownB_mono cs D); [exact Hk|]. apply (H5 st nt Hin Hnt).
    + intros st Hin. apply (KnownB_mono cs D); [exact Hk|]. apply (H6 st Hin).
Qed.

Lemma Inv_update cs D Dr cs' D' :
  Inv cs D Dr ->
  sgs_seg cs' = seg ->
  (forall y, Known cs D y -> Known cs' D' y) ->
  (forall q p, reached_has cs q p -> reached_has cs' q p) ->
  (forall c, In c (sgs_todo cs') -> wf cells (sgc_tape c)) ->
  (forall x, In x D' -> wf cells (snd x)) ->
  (forall q ts t, sg_dict_get q (sgs_seen cs') = Some ts -> In t ts ->
     (exists ts0, sg_dict_get q (sgs_seen cs) = Some ts0 /\ In t ts0) \/ Known cs' D' (q, t)) ->
  (forall q ps p, sg_dict_get q (sgs_blanks cs') = Some ps -> In p ps ->
     (exists ps0, sg_dict_get q (sgs_blanks cs) = Some ps0 /\ In p ps0) \/
     exists t, wf cells t /\ sg_tape_blank t = true /\ sg_tape_pos t = p /\ Known cs' D' (q, t)) ->
  (forall q r, sg_dict_get q (sgs_reached cs') = Some r -> NoDup r /\ sg_len r < seg) ->
  (forall q, keys q -> sg_dict_get q (sgs_reached cs') <> None) ->
  Inv cs' D' Dr.
Proof.
  intros (I1 & I2 & I3 & I4 & I5 & I6 & I7 & I8) H1 Hk Hr H2 H3 H4 H5 H7 H8.
  split; [exact H1|]. split; [exact H2|]. split; [exact H3|]. split; [|split; [|split; [|split]]].
  - intros q ts t Hg Hin. destruct (H4 q ts t Hg Hin) as [(ts0 & Hg0 & Hin0)|Hkn]; [|exact Hkn].
    apply Hk, (I4 q ts0 t Hg0 Hin0).
  - intros q ps p Hg Hin. destruct (H5 q ps p Hg Hin) as [(ps0 & Hg0 & Hin0)|Hex]; [|exact Hex].
    destruct (I5 q ps0 p Hg0 Hin0) as (t & W & B & Pp & Kn). exists t. split; [exact W|]. split; [exact B|]. split; [exact Pp|].
    apply Hk, Kn.
  - intros x Hx. apply (run_done_mono cs D); [exact Hk|exact Hr|apply I6, Hx].
  - exact H7.
  - exact H8.
Qed.

(** ---- check_reached, goal Halt or Spinout ---- *)
Lemma check_reached_nb cs D Dr c cs' :
  Inv cs D Dr -> sg_check_reached cs c goal = (false, cs') ->
  Inv cs' D Dr /\ sgs_todo cs' = sgs_todo cs /\
  reached_has cs' (sgc_state c) (sg_tape_pos (sgc_tape c)) /\
  (forall q p, reached_has cs q p -> reached_has cs' q p).
Proof.
  intros HI H. unfold sg_check_reached in H. rewrite Hgoal in H.
  destruct (sg_dict_get (sgc_state c) (sgs_reached cs)) as [r|] eqn:Er.
  2:{ injection H as <-. split; [exact HI|]. split; [reflexivity|]. split; [|auto].
      intros r Hr. congruence. }
  injection H as Hb <-. cbn [sgs_set_reached sgs_todo].
  set (r' := sg_nset_insert (sg_tape_pos (sgc_tape c)) r) in *.
  assert (Hmono : forall q p, reached_has cs q p ->
            reached_has (sgs_set_reached cs (sg_dict_set (sgc_state c) r' (sgs_reached cs))) q p).
  { intros q p Hh r0 Hr0. cbn [sgs_set_reached sgs_reached] in Hr0.
    destruct (N.eq_dec q (sgc_state c)) as [->|Ne].
    - rewrite sg_dict_get_set_same in Hr0. injection Hr0 as <-. apply sg_nset_insert_In. right.
      apply Hh. exact Er.
    - rewrite sg_dict_get_set_other in Hr0 by exact Ne. apply Hh. exact Hr0. }
  split; [|split; [reflexivity|split; [|exact Hmono]]].
  - pose proof HI as (I1 & I2 & I3 & I4 & I5 & I6 & I7 & I8).
    apply (Inv_update cs D Dr); try assumption.
    + intros y Hy. exact Hy.
    + intros q ts t Hg Hin. left. exists ts. split; assumption.
    + intros q ps p Hg Hin. left. exists ps. split; assumption.
    + intros q r0 Hr0. cbn [sgs_set_reached sgs_reached] in Hr0.
      destruct (N.eq_dec q (sgc_state c)) as [->|Ne].
      * rewrite sg_dict_get_set_same in Hr0. injection Hr0 as <-.
        destruct (I7 _ _ Er) as [Hnd Hlen]. split; [apply sg_nset_insert_NoDup; exact Hnd|].
        apply N.eqb_neq in Hb. rewrite I1 in Hb. unfold r' in *. rewrite sg_len_insert in *.
        destruct (sg_nset_mem _ r); lia.
      * rewrite sg_dict_get_set_other in Hr0 by exact Ne. apply (I7 _ _ Hr0).
    + intros q Hq. cbn [sgs_set_reached sgs_reached].
      destruct (N.eq_dec q (sgc_state c)) as [->|Ne].
      * rewrite sg_dict_get_set_same. discriminate.
      * rewrite sg_dict_get_set_other by exact Ne. apply I8, Hq.
  - intros r0 Hr0. cbn [sgs_set_reached sgs_reached] in Hr0.
    rewrite sg_dict_get_set_same in Hr0. injection Hr0 as <-. apply sg_nset_insert_In. left. reflexivity.
Qed.

(** ---- one [check_seen] followed by the conditional [add_todo] ---- *)
Lemma sg_tapes_mem_In t ts : sg_tapes_mem t ts = true -> In t ts.
Proof.
  induction ts as [|u ts IH]; cbn [sg_tapes_mem]; [discriminate|].
  intro H. apply orb_true_iff in H. destruct H as [H|H].
  - left. symmetry. apply sg_tape_eqb_eq, H.
  - right. apply IH, H.
Qed.

Lemma check_seen_step cs D Dr st nt :
  Inv cs D Dr -> wf cells nt ->
  forall o cs1, sg_check_seen cs st nt (sg_tape_blank nt) = (o, cs1) ->
  let cs2 := match o with Some init => sg_add_todo cs1 (sg_config_new st nt init) | None => cs1 end in
  Inv cs2 D Dr /\ KnownB cs2 D st nt /\
  (forall y, Known cs D y -> Known cs2 D y) /\ sgs_reached cs2 = sgs_reached cs.
Proof.
  intros HI Hwf o cs1 H. pose proof HI as (I1 & I2 & I3 & I4 & I5 & I6 & I7 & I8).
  unfold sg_check_seen in H. destruct (sg_tape_blank nt) eqn:Hb.
  - (* blank: the set of positions *)
    destruct (sg_nset_mem (sg_tape_pos nt) (sg_dict_entry st [] (sgs_blanks cs))) eqn:Em.
    + (* already marked *)
      injection H as <- <-. cbn zeta.
      assert (Hk : forall y, Known cs D y ->
                Known (sgs_set_blanks cs (sg_dict_set st (sg_dict_entry st [] (sgs_blanks cs)) (sgs_blanks cs))) D y).
      { intros y Hy. exact Hy. }
      apply sg_nset_mem_In in Em. unfold sg_dict_entry in Em.
      dentry Em ps Eg.
      split; [|split; [|split; [exact Hk|reflexivity]]].
      * apply (Inv_update cs D Dr); try assumption; auto.
        -- intros q ts t Hg Hin. left. exists ts. split; assumption.
        -- intros q ps0 p Hg Hin. cbn [sgs_set_blanks sgs_blanks] in Hg. left.
           destruct (N.eq_dec q st) as [->|Ne].
           ++ rewrite sg_dict_get_set_same in Hg. injection Hg as <-. unfold sg_dict_entry in Hin.
              rewrite Eg in Hin. exists ps. split; assumption.
           ++ rewrite sg_dict_get_set_other in Hg by exact Ne. exists ps0. split; assumption.
      * destruct (I5 st ps _ Eg Em) as (t' & W & B & Pp & Kn). exists t'.
        split; [exact W|]. split; [apply Hk, Kn|]. right. repeat split; assumption.
    + (* new: marked and pushed *)
      injection H as <- <-. cbn zeta.
      set (cs2 := sg_add_todo _ _).
      assert (Hpend : Pending cs2 (st, nt)).
      { exists (sg_config_new st nt (true && (st =? 0))). split; [left; reflexivity|reflexivity]. }
      assert (Hk : forall y, Known cs D y -> Known cs2 D y).
      { intros y [(c0 & Hin & Hx)|Hy]; [left|right; exact Hy].
        exists c0. split; [right; exact Hin|exact Hx]. }
      split; [|split; [|split; [exact Hk|reflexivity]]].
      * apply (Inv_update cs D Dr); try assumption; auto.
        -- intros c0 [<-|Hin]; [exact Hwf|apply I2, Hin].
        -- intros q ts t Hg Hin. left. exists ts. split; assumption.
        -- intros q ps0 p Hg Hin. cbn [cs2 sg_add_todo sgs_set_todo sgs_set_blanks sgs_blanks] in Hg.
           destruct (N.eq_dec q st) as [->|Ne].
           ++ rewrite sg_dict_get_set_same in Hg. injection Hg as <-.
              apply sg_nset_insert_In in Hin. destruct Hin as [->|Hin].
              ** right. exists nt. split; [exact Hwf|]. split; [exact Hb|]. split; [reflexivity|]. left. exact Hpend.
              ** left. unfold sg_dict_entry in Hin.
                 dentry Hin ps Eg.
                 exists ps. split; [first [exact Eg|reflexivity]|exact Hin].
           ++ rewrite sg_dict_get_set_other in Hg by exact Ne. left. exists ps0. split; assumption.
      * exists nt. split; [exact Hwf|]. split; [left; exact Hpend|left; reflexivity].
  - (* not blank: the set of tapes *)
    destruct (sg_tapes_mem nt (sg_dict_entry st [] (sgs_seen cs))) eqn:Em.
    + injection H as <- <-. cbn zeta.
      assert (Hk : forall y, Known cs D y ->
                Known (sgs_set_seen cs (sg_dict_set st (sg_dict_entry st [] (sgs_seen cs)) (sgs_seen cs))) D y).
      { intros y Hy. exact Hy. }
      apply sg_tapes_mem_In in Em. unfold sg_dict_entry in Em.
      dentry Em ts Eg.
      split; [|split; [|split; [exact Hk|reflexivity]]].
      * apply (Inv_update cs D Dr); try assumption; auto.
        -- intros q ts0 t Hg Hin. cbn [sgs_set_seen sgs_seen] in Hg. left.
           destruct (N.eq_dec q st) as [->|Ne].
           ++ rewrite sg_dict_get_set_same in Hg. injection Hg as <-. unfold sg_dict_entry in Hin.
              rewrite Eg in Hin. exists ts. split; assumption.
           ++ rewrite sg_dict_get_set_other in Hg by exact Ne. exists ts0. split; assumption.
        -- intros q ps p Hg Hin. left. exists ps. split; assumption.
      * exists nt. split; [exact Hwf|]. split; [apply Hk, (I4 st ts nt Eg Em)|left; reflexivity].
    + injection H as <- <-. cbn zeta.
      set (cs2 := sg_add_todo _ _).
      assert (Hpend : Pending cs2 (st, nt)).
      { exists (sg_config_new st nt (false && (st =? 0))). split; [left; reflexivity|reflexivity]. }
      assert (Hk : forall y, Known cs D y -> Known cs2 D y).
      { intros y [(c0 & Hin & Hx)|Hy]; [left|right; exact Hy].
        exists c0. split; [right; exact Hin|exact Hx]. }
      split; [|split; [|split; [exact Hk|reflexivity]]].
      * apply (Inv_update cs D Dr); try assumption; auto.
        -- intros c0 [<-|Hin]; [exact Hwf|apply I2, Hin].
        -- intros q ts0 t Hg Hin. cbn [cs2 sg_add_todo sgs_set_todo sgs_set_seen sgs_seen] in Hg.
           destruct (N.eq_dec q st) as [->|Ne].
           ++ rewrite sg_dict_get_set_same in Hg. injection Hg as <-.
              destruct Hin as [<-|Hin]; [right; left; exact Hpend|].
              left. unfold sg_dict_entry in Hin.
              dentry Hin ts Eg.
              exists ts. split; [first [exact Eg|reflexivity]|exact Hin].
           ++ rewrite sg_dict_get_set_other in Hg by exact Ne. left. exists ts0. split; assumption.
        -- intros q ps p Hg Hin. left. exists ps. split; assumption.
      * exists nt. split; [exact Hwf|]. split; [left; exact Hpend|left; reflexivity].
Qed.

Lemma branch_in_loop_known t sh nt : sg_tape_step_in t sh = Ok nt -> wf cells nt ->
  sg_tape_blank nt = sg_tape_blank t ->
  forall sts cs D Dr cs', Inv cs D Dr ->
  sg_branch_in_loop cs t sh (sg_tape_blank t) sts = Ok cs' ->
  Inv cs' D Dr /\ (forall st, In st sts -> KnownB cs' D st nt) /\
  (forall y, Known cs D y -> Known cs' D y) /\ sgs_reached cs' = sgs_reached cs.
Proof.
  intros Hin Hwf Hbl. induction sts as [|st sts IH]; intros cs D Dr cs' HI H; cbn [sg_branch_in_loop] in H.
  - injection H as <-. split; [exact HI|]. split; [intros st []|]. split; [auto|reflexivity].
  - rewrite Hin in H. cbn [obind] in H. rewrite <- Hbl in H.
    destruct (sg_check_seen cs st nt (sg_tape_blank nt)) as [o cs1] eqn:Ecs.
    pose proof (check_seen_step cs D Dr st nt HI Hwf o cs1 Ecs) as Hstep. cbn zeta in Hstep.
    rewrite Hbl in H.
    destruct o as [init|]; destruct Hstep as (HI2 & HK & Hk & Hr);
      destruct (IH _ D Dr cs' HI2 H) as (HI' & HK' & Hk' & Hr').
    + split; [exact HI'|]. split; [|split; [intros y Hy; apply Hk', Hk, Hy|congruence]].
      intros st0 [<-|Hin0]; [apply (KnownB_mono _ D _ D _ _ Hk' HK)|apply HK', Hin0].
    + split; [exact HI'|]. split; [|split; [intros y Hy; apply Hk', Hk, Hy|congruence]].
      intros st0 [<-|Hin0]; [apply (KnownB_mono _ D _ D _ _ Hk' HK)|apply HK', Hin0].
Qed.

Lemma branch_out_loop_known t : wf cells t ->
  forall sts cs D Dr, Inv cs D Dr ->
  let cs' := sg_branch_out_loop cs t (sg_tape_blank t) sts in
  Inv cs' D Dr /\ (forall st, In st sts -> KnownB cs' D st t) /\
  (forall y, Known cs D y -> Known cs' D y) /\ sgs_reached cs' = sgs_reached cs.
Proof.
  intros Hwf. induction sts as [|st sts IH]; intros cs D Dr HI; cbn [sg_branch_out_loop].
  - cbn zeta. split; [exact HI|]. split; [intros st []|]. split; [auto|reflexivity].
  - destruct (sg_check_seen cs st t (sg_tape_blank t)) as [o cs1] eqn:Ecs.
    pose proof (check_seen_step cs D Dr st t HI Hwf o cs1 Ecs) as Hstep. cbn zeta in Hstep.
    destruct o as [init|]; destruct Hstep as (HI2 & HK & Hk & Hr);
      destruct (IH _ D Dr HI2) as (HI' & HK' & Hk' & Hr'); cbn zeta.
    + split; [exact HI'|]. split; [|split; [intros y Hy; apply Hk', Hk, Hy|congruence]].
      intros st0 [<-|Hin0]; [apply (KnownB_mono _ D _ D _ _ Hk' HK)|apply HK', Hin0].
    + split; [exact HI'|]. split; [|split; [intros y Hy; apply Hk', Hk, Hy|congruence]].
      intros st0 [<-|Hin0]; [apply (KnownB_mono _ D _ D _ _ Hk' HK)|apply HK', Hin0].
Qed.

Lemma sg_split_last_In {A} (l : list A) x last front :
  sg_split_last l = Some (last, front) -> In x l -> x = last \/ In x front.
Proof.
  revert last front. induction l as [|y l IH]; intros last front H Hin; cbn [sg_split_last] in H; [discriminate|].
  destruct (sg_split_last l) as [[z fr]|] eqn:E.
  - injection H as <- <-. destruct Hin as [->|Hin]; [right; left; reflexivity|].
    destruct (IH z fr eq_refl Hin) as [->|H']; [left; reflexivity|right; right; exact H'].
  - injection H as <- <-. destruct l; [|cbn [sg_split_last] in E; destruct (sg_split_last l) as [[? ?]|]; discriminate].
    destruct Hin as [->|[]]. left. reflexivity.
Qed.

Lemma sg_split_last_None {A} (l : list A) : sg_split_last l = None -> l = [].
Proof.
  destruct l as [|y l]; [reflexivity|]. cbn [sg_split_last].
  destruct (sg_split_last l) as [[? ?]|]; discriminate.
Qed.

Lemma branch_out_known c diffs cs D Dr : wf cells (sgc_tape c) -> Inv cs D Dr ->
  let cs' := sg_branch_out cs c diffs (sg_tape_blank (sgc_tape c)) in
  Inv cs' D Dr /\ (forall st, In st diffs -> KnownB cs' D st (sgc_tape c)) /\
  (forall y, Known cs D y -> Known cs' D y) /\ sgs_reached cs' = sgs_reached cs.
Proof.
  intros Hwf HI. unfold sg_branch_out.
  destruct (sg_split_last diffs) as [[last_next front]|] eqn:Esl.
  2:{ cbn zeta. apply sg_split_last_None in Esl. subst diffs.
      split; [exact HI|]. split; [intros st []|]. split; [auto|reflexivity]. }
  destruct (branch_out_loop_known (sgc_tape c) Hwf front cs D Dr HI) as (HI1 & HK1 & Hk1 & Hr1).
  destruct (sg_check_seen _ last_next (sgc_tape c) (sg_tape_blank (sgc_tape c))) as [o cs2] eqn:Ecs.
  pose proof (check_seen_step _ D Dr last_next (sgc_tape c) HI1 Hwf o cs2 Ecs) as Hstep. cbn zeta in Hstep.
  assert (Hfin : forall cs3, Inv cs3 D Dr -> KnownB cs3 D last_next (sgc_tape c) ->
            (forall y, Known (sg_branch_out_loop cs (sgc_tape c) (sg_tape_blank (sgc_tape c)) front) D y -> Known cs3 D y) ->
            sgs_reached cs3 = sgs_reached (sg_branch_out_loop cs (sgc_tape c) (sg_tape_blank (sgc_tape c)) front) ->
            Inv cs3 D Dr /\ (forall st, In st diffs -> KnownB cs3 D st (sgc_tape c)) /\
            (forall y, Known cs D y -> Known cs3 D y) /\ sgs_reached cs3 = sgs_reached cs).
  { intros cs3 HI3 HK3 Hk3 Hr3. split; [exact HI3|]. split; [|split; [intros y Hy; apply Hk3, Hk1, Hy|congruence]].
    intros st Hin. destruct (sg_split_last_In diffs st last_next front Esl Hin) as [->|Hf]; [exact HK3|].
    apply (KnownB_mono _ D _ D _ _ Hk3). apply HK1, Hf. }
  destruct o as [init|]; destruct Hstep as (HI2 & HK & Hk & Hr); cbn zeta.
  - apply Hfin; assumption.
  - apply Hfin; assumption.
Qed.

(** ---- taking the next configuration ---- *)
Lemma sg_find_free_None fuel : forall lo s, sg_find_free fuel lo s = None ->
  forall p, lo <= p < lo + N.of_nat fuel -> In p s.
Proof.
  induction fuel as [|f IH]; intros lo s H p Hp; [lia|]. cbn [sg_find_free] in H.
  destruct (sg_nset_mem lo s) eqn:Em; [|discriminate]. apply sg_nset_mem_In in Em.
  destruct (N.eq_dec p lo) as [->|Ne]; [exact Em|]. apply (IH (lo + 1) s H). lia.
Qed.

Lemma sg_find_free_Some fuel : forall lo s p, sg_find_free fuel lo s = Some p ->
  lo <= p < lo + N.of_nat fuel.
Proof.
  induction fuel as [|f IH]; intros lo s p H; cbn [sg_find_free] in H; [discriminate|].
  destruct (sg_nset_mem lo s).
  - pose proof (IH _ _ _ H). lia.
  - injection H as <-. lia.
Qed.

Lemma configs_next_some cs D c cs0 :
  Inv cs D D -> sg_configs_next cs = Ok (Some c, cs0) ->
  wf cells (sgc_tape c) /\ Inv cs0 (sg_x c :: D) D.
Proof.
  intros HI H. pose proof HI as (I1 & I2 & I3 & I4 & I5 & I6 & I7 & I8).
  unfold sg_configs_next, sg_next_init in H.
  destruct (sg_find_free (N.to_nat (sgs_seg cs)) 0 (sg_dict_entry 0 [] (sgs_blanks cs))) as [pos|] eqn:Ef.
  - unfold sg_config_init in H.
    destruct (sg_tape_init (sgs_seg cs) pos) as [|t] eqn:Et; [discriminate|].
    cbn [obind] in H. injection H as <- <-. rewrite I1 in Et.
    destruct (sg_tape_init_wf _ _ _ Et) as (Hwf & Hb & Hp). fold cells in Hwf.
    cbn [sg_config_new sgc_tape]. split; [exact Hwf|].
    assert (Hk : forall y cs', sgs_todo cs' = sgs_todo cs -> Known cs D y ->
                   Known cs' (sg_x (mkSgConfig 0 t true) :: D) y).
    { intros y cs' Ht [(c0 & Hin & Hx)|(x0 & m & Hin & Hm)].
      - left. exists c0. rewrite Ht. split; assumption.
      - right. exists x0, m. split; [right; exact Hin|exact Hm]. }
    apply (Inv_update cs D D); try assumption.
    + intros y Hy. apply (Hk y); [reflexivity|exact Hy].
    + intros q p Hh. exact Hh.
    + intros x [<-|Hin]; [exact Hwf|apply I3, Hin].
    + intros q ts t0 Hg Hin. left. exists ts. split; assumption.
    + intros q ps p Hg Hin. cbn [sgs_set_blanks sgs_blanks] in Hg.
      destruct (N.eq_dec q 0) as [->|Ne].
      * rewrite sg_dict_get_set_same in Hg. injection Hg as <-.
        apply sg_nset_insert_In in Hin. destruct Hin as [->|Hin].
        -- right. exists t. split; [exact Hwf|]. split; [exact Hb|]. split; [exact Hp|]. right.
           exists (sg_x (mkSgConfig 0 t true)), 0%nat. split; [left; reflexivity|reflexivity].
        -- left. unfold sg_dict_entry in Hin.
           dentry Hin ps Eg.
           exists ps. split; [first [exact Eg|reflexivity]|exact Hin].
      * rewrite sg_dict_get_set_other in Hg by exact Ne. left. exists ps. split; assumption.
  - cbn [obind] in H. cbn [sgs_set_blanks sgs_todo] in H.
    destruct (sgs_todo cs) as [|c1 todo'] eqn:Etodo; [discriminate|].
    injection H as <- <-.
    split; [apply I2; try rewrite Etodo; left; reflexivity|].
    apply (Inv_update cs D D); try assumption.
    + intros y [(c0 & Hin & Hx)|(x0 & m & Hin & Hm)].
      * rewrite Etodo in Hin. destruct Hin as [<-|Hin].
        -- right. exists (sg_x c1), 0%nat. split; [left; reflexivity|]. cbn [miter]. congruence.
        -- left. exists c0. split; assumption.
      * right. exists x0, m. split; [right; exact Hin|exact Hm].
    + intros q p Hh. exact Hh.
    + intros c0 Hin. apply I2. try rewrite Etodo. right. exact Hin.
    + intros x [<-|Hin]; [apply I2; try rewrite Etodo; left; reflexivity|apply I3, Hin].
    + intros q ts t0 Hg Hin. left. exists ts. split; assumption.
    + intros q ps p Hg Hin. cbn [sgs_set_todo sgs_set_blanks sgs_blanks] in Hg. left.
      destruct (N.eq_dec q 0) as [->|Ne].
      * rewrite sg_dict_get_set_same in Hg. injection Hg as <-. unfold sg_dict_entry in Hin.
        dentry Hin ps Eg.
        exists ps. split; [first [exact Eg|reflexivity]|exact Hin].
      * rewrite sg_dict_get_set_other in Hg by exact Ne. exists ps. split; assumption.
Qed.

Lemma configs_next_none cs cs' : sgs_seg cs = seg ->
  sg_configs_next cs = Ok (None, cs') ->
  sgs_todo cs = [] /\
  exists ps, sg_dict_get 0 (sgs_blanks cs) = Some ps /\ forall p, p < seg -> In p ps.
Proof.
  intros I1 H. unfold sg_configs_next, sg_next_init in H.
  destruct (sg_find_free (N.to_nat (sgs_seg cs)) 0 (sg_dict_entry 0 [] (sgs_blanks cs))) as [pos|] eqn:Ef.
  - destruct (sg_config_init (sgs_seg cs) pos); [discriminate|]. cbn [obind] in H. discriminate.
  - cbn [obind] in H. cbn [sgs_set_blanks sgs_todo] in H.
    destruct (sgs_todo cs) as [|c1 todo']; [|discriminate]. split; [reflexivity|].
    unfold sg_dict_entry in Ef.
    match type of Ef with context [match ?g with Some _ => _ | None => _ end] =>
      destruct g as [ps|] eqn:Eg; try rewrite Eg in Ef end.
    + exists ps. split; [first [exact Eg|reflexivity]|]. intros p Hp.
      apply (sg_find_free_None _ _ _ Ef). rewrite I1. lia.
    + exfalso. rewrite I1 in Ef. destruct (N.to_nat seg) as [|f] eqn:En; [lia|].
      cbn [sg_find_free sg_nset_mem] in Ef. discriminate.
Qed.

(** ---- [run_to_edge] keeps the invariant ---- *)
Lemma frame_Inv c cs0 cs1 D Dr :
  wf cells (sgc_tape c) -> In (sg_x c) D ->
  frame (sg_x c) cs0 cs1 -> Inv cs0 D Dr -> Inv cs1 D Dr.
Proof.
  intros Hwf HinD (F1 & F2 & F3 & F4 & F5) HI. pose proof HI as (I1 & I2 & I3 & I4 & I5 & I6 & I7 & I8).
  assert (Hk : forall y, Known cs0 D y -> Known cs1 D y).
  { intros y [(c0 & Hin & Hx)|Hy]; [left|right; exact Hy]. exists c0. rewrite F1. split; assumption. }
  apply (Inv_update cs0 D Dr); try assumption.
  - congruence.
  - intros q p Hh r Hr. apply Hh. rewrite <- F3. exact Hr.
  - intros c0 Hin. apply I2. rewrite <- F1. exact Hin.
  - intros q ts t Hg Hin. left. exists ts. rewrite <- F2. split; assumption.
  - intros q ps p Hg Hin. destruct (F5 q ps p Hg Hin) as [Hold|(j & t & Hj & Hb & Hp)]; [left; exact Hold|].
    right. exists t. split; [|split; [exact Hb|split; [exact Hp|]]].
    + apply (miter_wf prog cells j (sg_x c) (q, t) Hwf Hj).
    + right. exists (sg_x c), j. split; [exact HinD|exact Hj].
  - intros q r Hr. apply (I7 q r). rewrite <- F3. exact Hr.
  - intros q Hq. rewrite F3. apply I8, Hq.
Qed.

Lemma Inv_add_done cs D Dr x : Inv cs D Dr -> run_done cs D x -> Inv cs D (x :: Dr).
Proof.
  intros (I1 & I2 & I3 & I4 & I5 & I6 & I7 & I8) Hd. repeat (split; [assumption|]).
  split; [|split; assumption]. intros x0 [<-|Hin]; [exact Hd|apply I6, Hin].
Qed.

(** ---- the search loop has ended with [None] ---- *)
Definition end_fact : Prop :=
  exists cs D, Inv cs D D /\ sgs_todo cs = [] /\
    exists ps, sg_dict_get 0 (sgs_blanks cs) = Some ps /\ forall p, p < seg -> In p ps.

End Gen.

(** establishing [run_done] for the configuration just processed (goal Halt) *)
Lemma run_done_unique cs D x a y :
  miter prog a x = Some y -> mstep prog y = None ->
  (halting y -> reached_has cs (fst y) (sg_tape_pos (snd y))) ->
  (sgt_scan (snd y) = None ->
     reached_has cs (fst y) (sg_tape_pos (snd y)) /\ succs_known cs D y) ->
  run_done SgHalt cs D x.
Proof.
  intros Ha Hs H1 H2 m y' Hy'. split.
  - intro Hh. cbn [evt] in Hh.
    assert (y = y') by (apply (miter_stuck_unique a m x y y' Ha Hs Hy'), halting_stuck, Hh).
    subst y'. apply H1, Hh.
  - intro He. assert (y = y') by (apply (miter_stuck_unique a m x y y' Ha Hs Hy'), edge_stuck, He).
    subst y'. destruct (H2 He) as [H3 H4]. split; [intros _; exact H3|exact H4].
Qed.

Lemma run_done_cyc cs D x a z : miter prog a x = Some z -> cyc z -> run_done SgHalt cs D x.
Proof.
  intros Ha Hc m y Hy. pose proof (cyc_no_stuck a x z Ha Hc m y Hy) as Hns. split.
  - intro Hh. exfalso. apply Hns, halting_stuck, Hh.
  - intro He. exfalso. apply Hns, edge_stuck, He.
Qed.

(** ---- one iteration of the search loop, goal Halt ---- *)
Definition asrH_post (r : sg_asr_ret) : Prop :=
  match r with Ok None => end_fact SgHalt | _ => True end.

Lemma asrH_check_reached c cs D Dr x :
  Inv SgHalt cs D Dr -> In x D ->
  (forall cs', sgs_todo cs' = sgs_todo cs ->
     reached_has cs' (sgc_state c) (sg_tape_pos (sgc_tape c)) ->
     (forall y, Known cs D y -> Known cs' D y) ->
     run_done SgHalt cs' D x) ->
  match sg_asr_check_reached SgHalt c cs with
  | inl cs' => Inv SgHalt cs' D (x :: Dr)
  | inr r => asrH_post r
  end.
Proof.
  intros HI HinD Hrd. unfold sg_asr_check_reached.
  destruct (sg_check_reached cs c SgHalt) as [b cs'] eqn:E. destruct b; [exact I|].
  destruct (check_reached_nb SgHalt eq_refl cs D Dr c cs' HI E) as (HI' & Ht & Hh & Hm).
  apply Inv_add_done; [exact HI'|]. apply Hrd; [exact Ht|exact Hh|].
  intros y [(c0 & Hin & Hx)|Hy]; [left|right; exact Hy]. exists c0. rewrite Ht. split; assumption.
Qed.

Lemma asrH_body_inv cs : (exists D, Inv SgHalt cs D D) ->
  match sg_asr_body ap SgHalt cs with
  | inl cs' => exists D, Inv SgHalt cs' D D
  | inr r => asrH_post r
  end.
Proof.
  intros [D HI]. unfold sg_asr_body.
  destruct (sg_configs_next cs) as [|[[c|] cs0]] eqn:En; [exact I| |].
  2:{ cbn [asrH_post]. pose proof HI as (I1 & _).
      destruct (configs_next_none cs cs0 I1 En) as (Ht & ps & Hg & Hall).
      exists cs, D. split; [exact HI|]. split; [exact Ht|]. exists ps. split; assumption. }
  destruct (configs_next_some SgHalt cs D c cs0 HI En) as [Hwfc HI0].
  set (x := sg_x c) in *. set (D1 := x :: D) in *.
  assert (HinD : In x D1) by (left; reflexivity).
  replace (sga_prog ap) with prog by (symmetry; apply sg_aprog_new_prog).
  pose proof (sg_run_to_edge_halt_spec c cs0) as HR. fold x in HR.
  destruct (sg_run_to_edge prog SgHalt c cs0) as [|[[res c'] cs1]]; [exact I|].
  cbn [rteH_post] in HR. destruct HR as (Hfr & (a & Ha) & Hres).
  pose proof (frame_Inv SgHalt c cs0 cs1 D1 D Hwfc HinD Hfr HI0) as HI1.
  assert (Hwf' : wf cells (sgc_tape c')).
  { apply (miter_wf prog cells a x (sg_x c') Hwfc Ha). }
  destruct res as [result|].
  - unfold sg_asr_result. destruct result as [| | |[| |]]; try contradiction.
    + (* Repeat *)
      destruct (sgc_init c') eqn:Ei; [exact I|]. destruct Hres as [Hres|Hres]; [discriminate|].
      exists D1. apply Inv_add_done; [exact HI1|]. apply (run_done_cyc cs1 D1 x a (sg_x c') Ha Hres).
    + (* Found Halt *)
      destruct (sgc_init c') eqn:Ei; [exact I|]. cbn [sg_term_eqb].
      assert (G : match sg_asr_check_reached SgHalt c' cs1 with
                  | inl cs' => Inv SgHalt cs' D1 (x :: D)
                  | inr r => asrH_post r
                  end).
      { apply (asrH_check_reached c' cs1 D1 D x HI1 HinD).
        intros cs' Ht Hh Hk. apply (run_done_unique cs' D1 x a (sg_x c') Ha (halting_stuck (sg_x c') Hres)).
        - intros _. exact Hh.
        - intro He. exfalso. destruct Hres as (co & Es & _). cbn [sg_x snd] in Es, He. congruence. }
      destruct (sg_asr_check_reached SgHalt c' cs1) as [cs'|r]; [exists D1; exact G|exact G].
    + (* Found Spinout: only for init configurations *)
      destruct (sgc_init c') eqn:Ei; [exact I|discriminate].
  - (* at an edge *)
    unfold sg_asr_edge. cbn [sg_goal_tape].
    destruct (sg_check_reached cs1 c' SgHalt) as [reached cs2] eqn:Er.
    destruct reached; [exact I|].
    destruct (check_reached_nb SgHalt eq_refl cs1 D1 D c' cs2 HI1 Er) as (HI2 & Ht2 & Hh2 & Hm2).
    destruct (sg_dict_get (sgc_state c') (sga_branches ap)) as [[diffs dirs]|] eqn:Ebr; [|exact I].
    destruct (sg_branch_in cs2 (sgc_tape c') dirs (sg_tape_blank (sgc_tape c'))) as [|cs3] eqn:Ebi; [exact I|].
    unfold sg_branch_in in Ebi.
    destruct (sg_tape_side (sgc_tape c')) as [|sd] eqn:Esd; [discriminate|]. cbn [obind] in Ebi.
    (* branch_in *)
    assert (Hin3 : Inv SgHalt cs3 D1 D /\
              (forall st nt, In st (sg_dirs_get dirs (negb sd)) ->
                 sg_tape_step_in (sgc_tape c') (negb sd) = Ok nt -> KnownB cs3 D1 st nt) /\
              (forall y, Known cs2 D1 y -> Known cs3 D1 y) /\ sgs_reached cs3 = sgs_reached cs2).
    { destruct (sg_dirs_get dirs (negb sd)) as [|st0 sts0] eqn:Edirs.
      - cbn [sg_branch_in_loop] in Ebi. injection Ebi as <-.
        split; [exact HI2|]. split; [intros st nt []|]. split; [auto|reflexivity].
      - destruct (sg_tape_step_in (sgc_tape c') (negb sd)) as [|nt] eqn:Ein.
        { cbn [sg_branch_in_loop] in Ebi. rewrite Ein in Ebi. discriminate. }
        destruct (sg_tape_step_in_wf cells _ _ nt Hwf' cells_pos Ein) as (Hwfn & _ & Hbn & _).
        destruct (branch_in_loop_known SgHalt _ _ nt Ein Hwfn Hbn _ cs2 D1 D cs3 HI2 Ebi) as (H1 & H2 & H3 & H4).
        split; [exact H1|]. split; [|split; assumption].
        intros st nt' Hin Hnt'. injection Hnt' as <-. apply H2, Hin. }
    destruct Hin3 as (HI3 & HKin & Hk3 & Hr3).
    (* branch_out *)
    destruct (branch_out_known SgHalt c' diffs cs3 D1 D Hwf' HI3) as (HI4 & HKout & Hk4 & Hr4).
    cbn zeta in HI4, HKout, Hk4, Hr4.
    set (cs4 := sg_branch_out cs3 c' diffs (sg_tape_blank (sgc_tape c'))) in *.
    destruct (sg_check_depth cs4); [exact I|].
    exists D1. apply Inv_add_done; [exact HI4|].
    assert (Hrh : forall q p, reached_has cs2 q p -> reached_has cs4 q p).
    { intros q p Hh r Hr. apply Hh. rewrite <- Hr3, <- Hr4. exact Hr. }
    apply (run_done_unique cs4 D1 x a (sg_x c') Ha (edge_stuck (sg_x c') Hres)).
    + intros _. apply Hrh, Hh2.
    + intros _. split; [apply Hrh, Hh2|].
      intros sd' diffs' dirs' Hsd' Hbr'. cbn [sg_x fst snd] in Hsd', Hbr'.
      rewrite Esd in Hsd'. injection Hsd' as <-. rewrite Ebr in Hbr'. injection Hbr' as <- <-.
      cbn [sg_x fst snd]. split.
      * intros st nt Hin Hnt. apply (KnownB_mono cs3 D1 cs4 D1 _ _ Hk4). apply (HKin st nt Hin Hnt).
      * exact HKout.
Qed.

Theorem sg_asr_halt_none : sg_all_segments_reached ap seg SgHalt = Ok None -> end_fact SgHalt.
Proof.
  intro H. unfold sg_all_segments_reached in H. rewrite for_upto_iter in H.
  pose proof (iter_nat_inv (sg_asr_body ap SgHalt) (fun cs => exists D, Inv SgHalt cs D D) asrH_post
                asrH_body_inv
                (N.to_nat (sg_asr_fuel (sga_prog ap) seg))
                (sg_configs_new (sga_halts ap) (sga_spinouts ap) seg SgHalt)) as HI.
  destruct (iter_nat _ _ _) as [s'|r]; [discriminate|]. subst r. apply HI.
  exists []. unfold Inv, sg_configs_new. cbn [sgs_seg sgs_todo sgs_seen sgs_blanks sgs_reached].
  split; [reflexivity|]. split; [intros c []|]. split; [intros x []|].
  split; [intros q ts t Hg; discriminate|]. split; [intros q ps p Hg; discriminate|].
  split; [intros x []|].
  pose proof (configs_new_reached_halt (sga_halts ap) (sga_spinouts ap) seg) as Hk.
  unfold sg_configs_new in Hk. cbn [sgs_reached] in Hk. split.
  - intros q r Hr. rewrite Hk in Hr. destruct (sg_nset_mem q (sga_halts ap)); [|discriminate].
    injection Hr as <-. split; [constructor|]. cbn. lia.
  - intros q Hq. rewrite Hk. apply sg_nset_mem_In in Hq. rewrite Hq. discriminate.
Qed.

(** ================= goal Spinout ================= *)

Lemma spin_spinout c sl pr sh st :
  sg_config_slot c = Some sl -> cp_get prog sl = Some (pr, sh, st) ->
  (spin (sg_x c) <-> sg_config_spinout c (pr, sh, st) = true).
Proof.
  unfold sg_config_slot, spin, sg_config_spinout, sg_x. cbn [fst snd].
  destruct (sgt_scan (sgc_tape c)) as [co|] eqn:Es; [|discriminate].
  intros E HP. injection E as <-. split.
  - intros (pr' & sh' & E0 & HP' & He). injection E0 as ->.
    pose proof (eq_trans (eq_sym HP) HP') as E2.
    injection E2 as -> -> ->. rewrite N.eqb_refl. exact He.
  - intro H. apply andb_true_iff in H. destruct H as [Eq He]. apply N.eqb_eq in Eq.
    pose proof He as He'. unfold sg_tape_at_edge in He'. apply andb_true_iff in He'.
    destruct He' as [E0 _]. rewrite Es in E0. cbn [sg_ocolour_eqb] in E0. apply N.eqb_eq in E0.
    subst co. exists pr, sh. split; [reflexivity|]. split; [|exact He].
    refine (eq_trans HP _). congruence.
Qed.

Lemma spin_not_stuck y : spin y -> mstep prog y <> None.
Proof.
  intros (pr & sh & Es & HP & _). unfold mstep. rewrite Es, HP. unfold sg_tape_step. rewrite Es.
  destruct sh; destruct (sg_span_pull _ _ _) as [[a b] c]; discriminate.
Qed.

Definition reached_ok (cs0 cs1 : sg_configs) : Prop :=
  (forall q p, reached_has cs0 q p -> reached_has cs1 q p) /\
  ((forall q r, sg_dict_get q (sgs_reached cs0) = Some r -> NoDup r /\ sg_len r < sgs_seg cs0) ->
   (forall q r, sg_dict_get q (sgs_reached cs1) = Some r -> NoDup r /\ sg_len r < sgs_seg cs0)) /\
  (forall q, sg_dict_get q (sgs_reached cs0) <> None -> sg_dict_get q (sgs_reached cs1) <> None).

Lemma reached_ok_refl cs : reached_ok cs cs.
Proof. split; [auto|]. split; auto. Qed.

Lemma reached_ok_eq cs0 cs cs1 : reached_ok cs0 cs -> sgs_reached cs1 = sgs_reached cs -> reached_ok cs0 cs1.
Proof.
  intros (R1 & R2 & R3) E. unfold reached_ok, reached_has in *. rewrite E. split; [exact R1|]. split; assumption.
Qed.

Lemma reached_ok_trans cs0 cs cs1 : sgs_seg cs = sgs_seg cs0 ->
  reached_ok cs0 cs -> reached_ok cs cs1 -> reached_ok cs0 cs1.
Proof.
  intros Es (R1 & R2 & R3) (Q1 & Q2 & Q3). rewrite Es in Q2. split; [|split].
  - intros q p H. apply Q1, R1, H.
  - intro H. apply Q2, R2, H.
  - intros q H. apply Q3, R3, H.
Qed.

Lemma check_reached_false goal cs c cs' : sg_term_eqb goal SgBlank = false ->
  sg_check_reached cs c goal = (false, cs') ->
  sgs_todo cs' = sgs_todo cs /\ sgs_seen cs' = sgs_seen cs /\ sgs_blanks cs' = sgs_blanks cs /\
  sgs_seg cs' = sgs_seg cs /\ reached_ok cs cs' /\
  reached_has cs' (sgc_state c) (sg_tape_pos (sgc_tape c)).
Proof.
  intros Hg H. unfold sg_check_reached in H. rewrite Hg in H.
  destruct (sg_dict_get (sgc_state c) (sgs_reached cs)) as [r|] eqn:Er.
  2:{ injection H as <-. repeat (split; [reflexivity|]). split; [apply reached_ok_refl|].
      intros r Hr. congruence. }
  injection H as Hb <-. cbn [sgs_set_reached sgs_todo sgs_seen sgs_blanks sgs_seg].
  repeat (split; [reflexivity|]).
  set (r' := sg_nset_insert (sg_tape_pos (sgc_tape c)) r) in *. split; [split; [|split]|].
  - intros q p Hh r0 Hr0. cbn [sgs_set_reached sgs_reached] in Hr0.
    destruct (N.eq_dec q (sgc_state c)) as [->|Ne].
    + rewrite sg_dict_get_set_same in Hr0. injection Hr0 as <-. apply sg_nset_insert_In. right.
      apply Hh. exact Er.
    + rewrite sg_dict_get_set_other in Hr0 by exact Ne. apply Hh. exact Hr0.
  - intros I7 q r0 Hr0. cbn [sgs_set_reached sgs_reached] in Hr0.
    destruct (N.eq_dec q (sgc_state c)) as [->|Ne].
    + rewrite sg_dict_get_set_same in Hr0. injection Hr0 as <-.
      destruct (I7 _ _ Er) as [Hnd Hlen]. split; [apply sg_nset_insert_NoDup; exact Hnd|].
      apply N.eqb_neq in Hb. unfold r' in *. rewrite sg_len_insert in *.
      destruct (sg_nset_mem _ r); lia.
    + rewrite sg_dict_get_set_other in Hr0 by exact Ne. apply (I7 _ _ Hr0).
  - intros q Hq. cbn [sgs_set_reached sgs_reached].
    destruct (N.eq_dec q (sgc_state c)) as [->|Ne].
    + rewrite sg_dict_get_set_same. discriminate.
    + rewrite sg_dict_get_set_other by exact Ne. exact Hq.
  - intros r0 Hr0. cbn [sgs_set_reached sgs_reached] in Hr0.
    rewrite sg_dict_get_set_same in Hr0. injection Hr0 as <-. apply sg_nset_insert_In. left. reflexivity.
Qed.

Lemma check_reached_twice goal cs c cs' : sg_term_eqb goal SgBlank = false ->
  sg_check_reached cs c goal = (true, cs') ->
  exists cs'', sg_check_reached cs' c goal = (true, cs'').
Proof.
  intros Hg H. unfold sg_check_reached in *. rewrite Hg in *.
  destruct (sg_dict_get (sgc_state c) (sgs_reached cs)) as [r|] eqn:Er; [|discriminate].
  injection H as Hb <-. cbn [sgs_set_reached sgs_reached sgs_seg].
  rewrite sg_dict_get_set_same. eexists. f_equal.
  rewrite sg_len_insert.
  assert (Hm : sg_nset_mem (sg_tape_pos (sgc_tape c)) (sg_nset_insert (sg_tape_pos (sgc_tape c)) r) = true).
  { apply sg_nset_mem_In, sg_nset_insert_In. left. reflexivity. }
  rewrite Hm. exact Hb.
Qed.

Definition frameS (x0 : state * sg_tape) (cs0 cs1 : sg_configs) : Prop :=
  sgs_todo cs1 = sgs_todo cs0 /\ sgs_seen cs1 = sgs_seen cs0 /\
  reached_ok cs0 cs1 /\ sgs_seg cs1 = sgs_seg cs0 /\
  blanks_ext x0 (sgs_blanks cs0) (sgs_blanks cs1).

Lemma frameS_refl x0 cs : frameS x0 cs cs.
Proof.
  split; [reflexivity|]. split; [reflexivity|]. split; [apply reached_ok_refl|]. split; [reflexivity|].
  intros q ps p H1 H2. left. exists ps. split; assumption.
Qed.

(** the spin-out test has been made on the first [a] configurations of the run *)
Definition visited (x0 : state * sg_tape) (a : nat) (cs : sg_configs) : Prop :=
  forall j y, (j < a)%nat -> miter prog j x0 = Some y -> spin y ->
    reached_has cs (fst y) (sg_tape_pos (snd y)).

Lemma visited_mono x0 a cs cs' :
  (forall q p, reached_has cs q p -> reached_has cs' q p) -> visited x0 a cs -> visited x0 a cs'.
Proof. intros Hm Hv j y Hj Hy Hs. apply Hm, (Hv j y Hj Hy Hs). Qed.

Definition rteS_post (x0 : state * sg_tape) (cs0 : sg_configs) (r : sg_rte_ret) : Prop :=
  match r with
  | Panic => True
  | Ok (Some (SgFound SgSpinout), c', cs1) =>
      sgc_init c' = true \/ exists cs', sg_check_reached cs1 c' SgSpinout = (true, cs')
  | Ok (res, c', cs1) =>
      frameS x0 cs0 cs1 /\
      exists a, miter prog a x0 = Some (sg_x c') /\ visited x0 a cs1 /\
        match res with
        | None => sgt_scan (sgc_tape c') = None
        | Some (SgFound SgHalt) => halting (sg_x c')
        | Some SgRepeat =>
            sgc_init c' = true \/
            exists b m, (1 <= m)%nat /\ (b + m = a)%nat /\ miter prog b x0 = Some (sg_x c')
        | _ => False
        end
  end.

Definition rteS_inv (x0 : state * sg_tape) (cs0 : sg_configs) (s : sg_rte_state) : Prop :=
  frameS x0 cs0 (rte_configs s) /\
  exists b m, miter prog b x0 = Some (sg_x (rte_copy s)) /\
              miter prog m (sg_x (rte_copy s)) = Some (sg_x (rte_self s)) /\
              (rte_step s = true -> (1 <= m)%nat) /\
              visited x0 (b + m) (rte_configs s).

Lemma rte_blank_check_spec_nb goal print st self1 cs : sg_term_eqb goal SgBlank = false ->
  match sg_rte_blank_check goal print st self1 cs with
  | inl (self2, cs2) =>
      sg_x self2 = sg_x self1 /\
      sgs_todo cs2 = sgs_todo cs /\ sgs_seen cs2 = sgs_seen cs /\
      sgs_reached cs2 = sgs_reached cs /\ sgs_seg cs2 = sgs_seg cs /\
      (sgs_blanks cs2 = sgs_blanks cs \/
       (sg_tape_blank (sgc_tape self1) = true /\
        sgs_blanks cs2 = sg_dict_set st (sg_nset_insert (sg_tape_pos (sgc_tape self1))
                                           (sg_dict_entry st [] (sgs_blanks cs))) (sgs_blanks cs)))
  | inr (Ok (res, self2, cs2)) =>
      res = Some SgRepeat /\ sgc_init self2 = true /\ self2 = self1 /\ cs2 = cs
  | inr Panic => False
  end.
Proof.
  intro Hg. unfold sg_rte_blank_check.
  destruct ((print =? 0) && sg_tape_blank (sgc_tape self1)) eqn:Eb.
  2:{ repeat split. left. reflexivity. }
  apply andb_true_iff in Eb. destruct Eb as [_ Hb].
  destruct ((st =? 0) && sgc_init self1) eqn:Ei.
  { apply andb_true_iff in Ei. destruct Ei as [_ Ei]. repeat split. exact Ei. }
  rewrite Hg.
  assert (Hx : sg_x (if st =? 0 then mkSgConfig (sgc_state self1) (sgc_tape self1) true else self1)
               = sg_x self1) by (destruct (st =? 0); reflexivity).
  assert (Ht : sgc_tape (if st =? 0 then mkSgConfig (sgc_state self1) (sgc_tape self1) true else self1)
               = sgc_tape self1) by (destruct (st =? 0); reflexivity).
  split; [exact Hx|]. cbn [sgs_set_blanks sgs_todo sgs_seen sgs_reached sgs_seg sgs_blanks].
  repeat split. right. split; [exact Hb|]. rewrite Ht. reflexivity.
Qed.

Lemma rteS_body_inv x0 cs0 s : rteS_inv x0 cs0 s ->
  match sg_rte_body prog SgSpinout s with
  | inl s' => rteS_inv x0 cs0 s'
  | inr r => rteS_post x0 cs0 r
  end.
Proof.
  destruct s as [self copy step cs]. unfold rteS_inv. cbn [rte_self rte_copy rte_step rte_configs].
  intros (Hfr & b & m & Hb & Hm & Hm1 & Hvis).
  assert (Ha : miter prog (b + m) x0 = Some (sg_x self)) by (rewrite miter_add, Hb; exact Hm).
  unfold sg_rte_body. cbn [rte_self rte_copy rte_step rte_configs].
  destruct (sg_config_slot self) as [sl|] eqn:Esl.
  2:{ cbn [rteS_post]. split; [exact Hfr|]. exists (b + m)%nat. split; [exact Ha|]. split; [exact Hvis|].
      unfold sg_config_slot in Esl. destruct (sgt_scan (sgc_tape self)); [discriminate|reflexivity]. }
  destruct (cp_get prog sl) as [i|] eqn:HP.
  2:{ cbn [rteS_post]. split; [exact Hfr|]. exists (b + m)%nat. split; [exact Ha|]. split; [exact Hvis|].
      unfold sg_config_slot in Esl. destruct (sgt_scan (sgc_tape self)) as [co|] eqn:Es; [|discriminate].
      injection Esl as <-. exists co. split; [exact Es|exact HP]. }
  destruct i as [[print sh] st].
  cbn [sg_term_eqb]. rewrite orb_true_r. cbn [andb].
  (* what happens after the spin-out test *)
  assert (Hcont : forall cs1, frameS x0 cs0 cs1 -> visited x0 (Datatypes.S (b + m)) cs1 ->
    match
      match sg_config_step self (print, sh, st) with
      | Panic => inr Panic
      | Ok self1 =>
          match sg_rte_blank_check SgSpinout print st self1 cs1 with
          | inl (self2, cs2) => sg_rte_copy_step prog self2 copy step cs2
          | inr r => inr r
          end
      end
    with
    | inl s' => rteS_inv x0 cs0 s'
    | inr r => rteS_post x0 cs0 r
    end).
  { intros cs1 Hfr1 Hvis1.
    destruct (sg_config_step self (print, sh, st)) as [|self1] eqn:Estep; [exact I|].
    destruct (config_step_mstep prog self sl print sh st self1 Esl HP Estep) as (Hms & Hinit1 & Hst1).
    pose proof (miter_snoc prog (b + m) _ _ _ Ha Hms) as Ha1.
    pose proof (miter_snoc prog m _ _ _ Hm Hms) as Hm'.
    pose proof (rte_blank_check_spec_nb SgSpinout print st self1 cs1 eq_refl) as HB.
    destruct (sg_rte_blank_check SgSpinout print st self1 cs1) as [[self2 cs2]|r].
    2:{ destruct r as [|[[res self2] cs2]]; [exact I|].
        destruct HB as (-> & Hi2 & -> & ->). cbn [rteS_post].
        split; [exact Hfr1|]. exists (Datatypes.S (b + m)). split; [exact Ha1|]. split; [exact Hvis1|].
        left. exact Hi2. }
    destruct HB as (Hx & T1 & T2 & T3 & T4 & HBl).
    assert (Hfr2 : frameS x0 cs0 cs2).
    { destruct Hfr1 as (F1 & F2 & F3 & F4 & F5). unfold frameS.
      split; [congruence|]. split; [congruence|]. split; [apply (reached_ok_eq cs0 cs1 cs2 F3 T3)|].
      split; [congruence|].
      destruct HBl as [->|[Hbl ->]]; [exact F5|].
      apply (blanks_ext_insert x0 _ _ (Datatypes.S (b + m)) st (sgc_tape self1) F5); [|exact Hbl].
      rewrite Ha1. unfold sg_x. rewrite Hst1. reflexivity. }
    assert (Hvis2 : visited x0 (Datatypes.S (b + m)) cs2).
    { apply (visited_mono x0 _ cs1); [|exact Hvis1]. intros q p Hh r Hr. apply Hh. rewrite <- T3. exact Hr. }
    unfold sg_rte_copy_step. destruct step; cbn [negb].
    2:{ unfold rteS_inv. cbn [rte_self rte_copy rte_step rte_configs].
        split; [exact Hfr2|]. exists b, (Datatypes.S m). split; [exact Hb|].
        split; [rewrite Hx; exact Hm'|]. split; [intros _; lia|].
        rewrite Nat.add_succ_r. exact Hvis2. }
    destruct (sg_config_slot copy) as [cslot|] eqn:Ecs; [|exact I].
    destruct (cp_get prog cslot) as [[[cpr csh] cst]|] eqn:HPc; [|exact I].
    destruct (sg_config_step copy (cpr, csh, cst)) as [|copy'] eqn:Ecstep; [exact I|].
    destruct (config_step_mstep prog copy cslot cpr csh cst copy' Ecs HPc Ecstep) as (Hmc & _ & _).
    assert (Hm2 : miter prog m (sg_x copy') = Some (sg_x self2)).
    { rewrite Hx. change (miter prog (Datatypes.S m) (sg_x copy)) with
        (match mstep prog (sg_x copy) with Some x' => miter prog m x' | None => None end) in Hm'.
      rewrite Hmc in Hm'. exact Hm'. }
    pose proof (miter_snoc prog b _ _ _ Hb Hmc) as Hb'.
    specialize (Hm1 eq_refl).
    destruct ((sgc_state copy' =? sgc_state self2) && sg_tape_eqb (sgc_tape copy') (sgc_tape self2)) eqn:Ecmp.
    - apply andb_true_iff in Ecmp. destruct Ecmp as [E1 E2]. apply N.eqb_eq in E1.
      apply sg_tape_eqb_eq in E2.
      assert (Ex : sg_x copy' = sg_x self2) by (unfold sg_x; congruence).
      cbn [rteS_post]. split; [exact Hfr2|]. exists (Datatypes.S (b + m)).
      split; [rewrite Hx; exact Ha1|]. split; [exact Hvis2|].
      right. exists (Datatypes.S b), m. split; [exact Hm1|]. split; [reflexivity|].
      rewrite <- Ex. exact Hb'.
    - unfold rteS_inv. cbn [rte_self rte_copy rte_step rte_configs].
      split; [exact Hfr2|]. exists (Datatypes.S b), m. split; [exact Hb'|].
      split; [exact Hm2|]. split; [discriminate|exact Hvis2]. }
  pose proof (spin_spinout self sl print sh st Esl HP) as Hss.
  destruct (sg_config_spinout self (print, sh, st)) eqn:Esp.
  - destruct (sgc_init self) eqn:Ei.
    + cbn [rteS_post]. left. exact Ei.
    + destruct (sg_check_reached cs self SgSpinout) as [bb cs1] eqn:Ecr. destruct bb.
      * cbn [rteS_post]. right. apply (check_reached_twice SgSpinout cs self cs1 eq_refl Ecr).
      * destruct (check_reached_false SgSpinout cs self cs1 eq_refl Ecr) as (C1 & C2 & C3 & C4 & C5 & C6).
        apply Hcont.
        -- destruct Hfr as (F1 & F2 & F3 & F4 & F5). unfold frameS.
           split; [congruence|]. split; [congruence|].
           split; [apply (reached_ok_trans cs0 cs cs1 F4 F3 C5)|]. split; [congruence|].
           rewrite C3. exact F5.
        -- intros j y Hj Hy Hs. destruct (Nat.eq_dec j (b + m)) as [->|Ne].
           ++ rewrite Ha in Hy. injection Hy as <-. exact C6.
           ++ destruct C5 as (M1 & _). apply M1. apply (Hvis j y ltac:(lia) Hy Hs).
  - apply Hcont; [exact Hfr|].
    intros j y Hj Hy Hs. destruct (Nat.eq_dec j (b + m)) as [->|Ne].
    + rewrite Ha in Hy. injection Hy as <-. apply Hss in Hs. discriminate.
    + apply (Hvis j y ltac:(lia) Hy Hs).
Qed.

Lemma sg_run_to_edge_spin_spec c cs :
  rteS_post (sg_x c) cs (sg_run_to_edge prog SgSpinout c cs).
Proof.
  unfold sg_run_to_edge. destruct (sgt_scan (sgc_tape c)) eqn:Es.
  2:{ cbn [rteS_post]. split; [apply frameS_refl|]. exists 0%nat. split; [reflexivity|].
      split; [intros j y Hj; lia|exact Es]. }
  rewrite for_upto_iter.
  pose proof (iter_nat_inv (sg_rte_body prog SgSpinout) (rteS_inv (sg_x c) cs) (rteS_post (sg_x c) cs)
                (rteS_body_inv (sg_x c) cs)
                (N.to_nat (sg_rte_fuel prog (sgs_seg cs))) (mkSgRte c c false cs)) as H.
  destruct (iter_nat _ _ _) as [s'|r]; [exact I|]. apply H.
  unfold rteS_inv. cbn [rte_self rte_copy rte_step rte_configs].
  split; [apply frameS_refl|]. exists 0%nat, 0%nat. split; [reflexivity|]. split; [reflexivity|].
  split; [discriminate|]. intros j y Hj; lia.
Qed.

(** [run_to_edge] keeps the invariant (goal Spinout) *)
Lemma frameS_Inv c cs0 cs1 D Dr :
  wf cells (sgc_tape c) -> In (sg_x c) D ->
  frameS (sg_x c) cs0 cs1 -> Inv SgSpinout cs0 D Dr -> Inv SgSpinout cs1 D Dr.
Proof.
  intros Hwf HinD (F1 & F2 & (R1 & R2 & R3) & F4 & F5) HI.
  pose proof HI as (I1 & I2 & I3 & I4 & I5 & I6 & I7 & I8).
  assert (Hk : forall y, Known cs0 D y -> Known cs1 D y).
  { intros y [(c0 & Hin & Hx)|Hy]; [left|right; exact Hy]. exists c0. rewrite F1. split; assumption. }
  apply (Inv_update SgSpinout cs0 D Dr); try assumption.
  - congruence.
  - intros c0 Hin. apply I2. rewrite <- F1. exact Hin.
  - intros q ts t Hg Hin. left. exists ts. rewrite <- F2. split; assumption.
  - intros q ps p Hg Hin. destruct (F5 q ps p Hg Hin) as [Hold|(j & t & Hj & Hb & Hp)]; [left; exact Hold|].
    right. exists t. split; [|split; [exact Hb|split; [exact Hp|]]].
    + apply (miter_wf prog cells j (sg_x c) (q, t) Hwf Hj).
    + right. exists (sg_x c), j. split; [exact HinD|exact Hj].
  - rewrite I1 in R2. apply R2, I7.
  - intros q Hq. apply R3, I8, Hq.
Qed.

Lemma miter_le_stuck a m x ya y : miter prog a x = Some ya -> mstep prog ya = None ->
  miter prog m x = Some y -> (m <= a)%nat.
Proof.
  intros Ha Hs Hm. destruct (Nat.le_gt_cases m a) as [L|G]; [exact L|]. exfalso.
  replace m with (a + Datatypes.S (m - a - 1))%nat in Hm by lia.
  rewrite miter_add, Ha in Hm. cbn [miter] in Hm. rewrite Hs in Hm. discriminate.
Qed.

Lemma miter_cycle_lt b m x z : miter prog b x = Some z -> miter prog (b + m) x = Some z ->
  (1 <= m)%nat -> forall j y, miter prog j x = Some y ->
  exists j', (j' < b + m)%nat /\ miter prog j' x = Some y.
Proof.
  intros Hb Hbm Hm j. induction j as [j IH] using lt_wf_ind. intros y Hy.
  destruct (Nat.lt_ge_cases j (b + m)) as [L|G]; [exists j; split; assumption|].
  apply (IH (j - m)%nat ltac:(lia)).
  replace j with (b + m + (j - b - m))%nat in Hy by lia. rewrite miter_add, Hbm in Hy.
  replace (j - m)%nat with (b + (j - b - m))%nat by lia. rewrite miter_add, Hb. exact Hy.
Qed.

Lemma run_done_spin_stuck cs D x a y :
  miter prog a x = Some y -> mstep prog y = None -> visited x a cs ->
  (sgt_scan (snd y) = None ->
     (edge_spin y -> reached_has cs (fst y) (sg_tape_pos (snd y))) /\ succs_known cs D y) ->
  run_done SgSpinout cs D x.
Proof.
  intros Ha Hs Hv H2 m y' Hy'. pose proof (miter_le_stuck a m x y y' Ha Hs Hy') as Hle. split.
  - intro Hsp. cbn [evt] in Hsp. destruct (Nat.eq_dec m a) as [->|Ne].
    + exfalso. rewrite Ha in Hy'. injection Hy' as <-. exact (spin_not_stuck y Hsp Hs).
    + apply (Hv m y' ltac:(lia) Hy' Hsp).
  - intro He. assert (y = y') by (apply (miter_stuck_unique a m x y y' Ha Hs Hy'), edge_stuck, He).
    subst y'. apply H2, He.
Qed.

Lemma run_done_spin_cyc cs D x a b m z : (1 <= m)%nat -> (b + m = a)%nat ->
  miter prog a x = Some z -> miter prog b x = Some z -> visited x a cs ->
  run_done SgSpinout cs D x.
Proof.
  intros Hm Hab Ha Hb Hv j y Hy. subst a.
  assert (Hc : cyc z).
  { exists m. split; [exact Hm|]. rewrite miter_add, Hb in Ha. exact Ha. }
  split.
  - intro Hsp. cbn [evt] in Hsp.
    destruct (miter_cycle_lt b m x z Hb Ha Hm j y Hy) as (j' & Hj' & Hy'). apply (Hv j' y Hj' Hy' Hsp).
  - intro He. exfalso. apply (cyc_no_stuck b x z Hb Hc j y Hy), edge_stuck, He.
Qed.

Lemma goal_tape_spin c gt : sg_goal_tape ap SgSpinout c = Ok gt -> edge_spin (sg_x c) -> gt = true.
Proof.
  unfold sg_goal_tape, edge_spin, sg_x. cbn [fst snd]. intros H (sh & sd & E1 & E2 & E3).
  rewrite E1, E2 in H. cbn [obind] in H. injection H as <-. exact E3.
Qed.

Definition asrS_post (r : sg_asr_ret) : Prop :=
  match r with Ok None => end_fact SgSpinout | _ => True end.

Lemma asrS_body_inv cs : (exists D, Inv SgSpinout cs D D) ->
  match sg_asr_body ap SgSpinout cs with
  | inl cs' => exists D, Inv SgSpinout cs' D D
  | inr r => asrS_post r
  end.
Proof.
  intros [D HI]. unfold sg_asr_body.
  destruct (sg_configs_next cs) as [|[[c|] cs0]] eqn:En; [exact I| |].
  2:{ cbn [asrS_post]. pose proof HI as (I1 & _).
      destruct (configs_next_none cs cs0 I1 En) as (Ht & ps & Hg & Hall).
      exists cs, D. split; [exact HI|]. split; [exact Ht|]. exists ps. split; assumption. }
  destruct (configs_next_some SgSpinout cs D c cs0 HI En) as [Hwfc HI0].
  set (x := sg_x c) in *. set (D1 := x :: D) in *.
  assert (HinD : In x D1) by (left; reflexivity).
  replace (sga_prog ap) with prog by (symmetry; apply sg_aprog_new_prog).
  pose proof (sg_run_to_edge_spin_spec c cs0) as HR. fold x in HR.
  destruct (sg_run_to_edge prog SgSpinout c cs0) as [|[[res c'] cs1]]; [exact I|].
  destruct res as [result|].
  - unfold sg_asr_result. destruct result as [| | |[| |]]; cbn [rteS_post] in HR.
    + destruct HR as (_ & a & _ & _ & []).
    + (* Repeat *)
      destruct HR as (Hfr & a & Ha & Hvis & Hres).
      destruct (sgc_init c') eqn:Ei; [exact I|]. destruct Hres as [Hres|(b & m & Hm & Hab & Hb)]; [discriminate|].
      pose proof (frameS_Inv c cs0 cs1 D1 D Hwfc HinD Hfr HI0) as HI1.
      exists D1. apply Inv_add_done; [exact HI1|].
      apply (run_done_spin_cyc cs1 D1 x a b m (sg_x c') Hm Hab Ha Hb Hvis).
    + destruct HR as (_ & a & _ & _ & []).
    + (* Found Halt *)
      destruct HR as (Hfr & a & Ha & Hvis & Hres).
      destruct (sgc_init c') eqn:Ei; [exact I|]. cbn [sg_term_eqb].
      pose proof (frameS_Inv c cs0 cs1 D1 D Hwfc HinD Hfr HI0) as HI1.
      exists D1. apply Inv_add_done; [exact HI1|].
      apply (run_done_spin_stuck cs1 D1 x a (sg_x c') Ha (halting_stuck (sg_x c') Hres) Hvis).
      intro He. exfalso. destruct Hres as (co & Es & _). cbn [sg_x snd] in Es, He. congruence.
    + destruct HR as (_ & a & _ & _ & []).
    + (* Found Spinout *)
      destruct (sgc_init c') eqn:Ei; [exact I|]. cbn [sg_term_eqb negb].
      destruct HR as [HR|(cs' & HR)]; [congruence|].
      unfold sg_asr_check_reached. rewrite HR. exact I.
  - (* at an edge *)
    cbn [rteS_post] in HR. destruct HR as (Hfr & a & Ha & Hvis & Hres).
    pose proof (frameS_Inv c cs0 cs1 D1 D Hwfc HinD Hfr HI0) as HI1.
    assert (Hwf' : wf cells (sgc_tape c')).
    { apply (miter_wf prog cells a x (sg_x c') Hwfc Ha). }
    unfold sg_asr_edge.
    destruct (sg_goal_tape ap SgSpinout c') as [|goal_tape] eqn:Egt; [exact I|].
    destruct (if goal_tape then sg_check_reached cs1 c' SgSpinout else (false, cs1)) as [reached cs2] eqn:Er.
    destruct reached; [exact I|].
    assert (H2 : Inv SgSpinout cs2 D1 D /\ sgs_todo cs2 = sgs_todo cs1 /\
                 (edge_spin (sg_x c') -> reached_has cs2 (sgc_state c') (sg_tape_pos (sgc_tape c'))) /\
                 (forall q p, reached_has cs1 q p -> reached_has cs2 q p)).
    { destruct goal_tape.
      - destruct (check_reached_nb SgSpinout eq_refl cs1 D1 D c' cs2 HI1 Er) as (A1 & A2 & A3 & A4).
        split; [exact A1|]. split; [exact A2|]. split; [intros _; exact A3|exact A4].
      - injection Er as <-. split; [exact HI1|]. split; [reflexivity|]. split; [|auto].
        intro Hes. discriminate (goal_tape_spin c' false Egt Hes). }
    destruct H2 as (HI2 & Ht2 & Hh2 & Hm2).
    destruct (sg_dict_get (sgc_state c') (sga_branches ap)) as [[diffs dirs]|] eqn:Ebr; [|exact I].
    destruct (sg_branch_in cs2 (sgc_tape c') dirs (sg_tape_blank (sgc_tape c'))) as [|cs3] eqn:Ebi; [exact I|].
    unfold sg_branch_in in Ebi.
    destruct (sg_tape_side (sgc_tape c')) as [|sd] eqn:Esd; [discriminate|]. cbn [obind] in Ebi.
    assert (Hin3 : Inv SgSpinout cs3 D1 D /\
              (forall st nt, In st (sg_dirs_get dirs (negb sd)) ->
                 sg_tape_step_in (sgc_tape c') (negb sd) = Ok nt -> KnownB cs3 D1 st nt) /\
              (forall y, Known cs2 D1 y -> Known cs3 D1 y) /\ sgs_reached cs3 = sgs_reached cs2).
    { destruct (sg_dirs_get dirs (negb sd)) as [|st0 sts0] eqn:Edirs.
      - cbn [sg_branch_in_loop] in Ebi. injection Ebi as <-.
        split; [exact HI2|]. split; [intros st nt []|]. split; [auto|reflexivity].
      - destruct (sg_tape_step_in (sgc_tape c') (negb sd)) as [|nt] eqn:Ein.
        { cbn [sg_branch_in_loop] in Ebi. rewrite Ein in Ebi. discriminate. }
        destruct (sg_tape_step_in_wf cells _ _ nt Hwf' cells_pos Ein) as (Hwfn & _ & Hbn & _).
        destruct (branch_in_loop_known SgSpinout _ _ nt Ein Hwfn Hbn _ cs2 D1 D cs3 HI2 Ebi) as (H1 & H2 & H3 & H4).
        split; [exact H1|]. split; [|split; assumption].
        intros st nt' Hin Hnt'. injection Hnt' as <-. apply H2, Hin. }
    destruct Hin3 as (HI3 & HKin & Hk3 & Hr3).
    destruct (branch_out_known SgSpinout c' diffs cs3 D1 D Hwf' HI3) as (HI4 & HKout & Hk4 & Hr4).
    cbn zeta in HI4, HKout, Hk4, Hr4.
    set (cs4 := sg_branch_out cs3 c' diffs (sg_tape_blank (sgc_tape c'))) in *.
    destruct (sg_check_depth cs4); [exact I|].
    exists D1. apply Inv_add_done; [exact HI4|].
    assert (Hrh : forall q p, reached_has cs2 q p -> reached_has cs4 q p).
    { intros q p Hh r Hr. apply Hh. rewrite <- Hr3, <- Hr4. exact Hr. }
    apply (run_done_spin_stuck cs4 D1 x a (sg_x c') Ha (edge_stuck (sg_x c') Hres)).
    + apply (visited_mono x a cs1); [|exact Hvis]. intros q p Hh. apply Hrh, Hm2, Hh.
    + intros _. split; [intro Hes; apply Hrh, Hh2, Hes|].
      intros sd' diffs' dirs' Hsd' Hbr'. cbn [sg_x fst snd] in Hsd', Hbr'.
      rewrite Esd in Hsd'. injection Hsd' as <-. rewrite Ebr in Hbr'. injection Hbr' as <- <-.
      cbn [sg_x fst snd]. split.
      * intros st nt Hin Hnt. apply (KnownB_mono cs3 D1 cs4 D1 _ _ Hk4). apply (HKin st nt Hin Hnt).
      * exact HKout.
Qed.

Theorem sg_asr_spin_none : sg_all_segments_reached ap seg SgSpinout = Ok None -> end_fact SgSpinout.
Proof.
  intro H. unfold sg_all_segments_reached in H. rewrite for_upto_iter in H.
  pose proof (iter_nat_inv (sg_asr_body ap SgSpinout) (fun cs => exists D, Inv SgSpinout cs D D) asrS_post
                asrS_body_inv
                (N.to_nat (sg_asr_fuel (sga_prog ap) seg))
                (sg_configs_new (sga_halts ap) (sga_spinouts ap) seg SgSpinout)) as HI.
  destruct (iter_nat _ _ _) as [s'|r]; [discriminate|]. subst r. apply HI.
  exists []. unfold Inv, sg_configs_new. cbn [sgs_seg sgs_todo sgs_seen sgs_blanks sgs_reached].
  split; [reflexivity|]. split; [intros c []|]. split; [intros x []|].
  split; [intros q ts t Hg; discriminate|]. split; [intros q ps p Hg; discriminate|].
  split; [intros x []|].
  pose proof (configs_new_reached_spin (sga_halts ap) (sga_spinouts ap) seg) as Hk.
  unfold sg_configs_new in Hk. cbn [sgs_reached] in Hk. split.
  - intros q r Hr. rewrite Hk in Hr. destruct (sg_dict_get q (sga_spinouts ap)); [|discriminate].
    injection Hr as <-. split; [constructor|]. cbn. lia.
  - intros q Hq. cbn [keys] in Hq. rewrite Hk. destruct (sg_dict_get q (sga_spinouts ap)); [discriminate|congruence].
Qed.

End Refute.


Print Assumptions sg_asr_halt_none.
Print Assumptions sg_asr_spin_none.
