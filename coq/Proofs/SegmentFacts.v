(** C05/C15 facts about the segment-analysis model: limit monotonicity and
    the machine-checked witness of the known defect F2 at the wrapper. *)
From BB Require Import Base TM Ref InstrsModel TapeModel SegmentModel Loops.

Theorem seg_mono prog params goal s s' :
  2 <= s -> s <= s' ->
  sg_segment_cant_reach prog params s goal <> Ok SgrSegmentLimit ->
  sg_segment_cant_reach prog params s' goal = sg_segment_cant_reach prog params s goal.
Proof.
  intros H2 Hs H. unfold sg_segment_cant_reach in *.
  assert (E1 : 2 <=? s = true) by (apply N.leb_le; lia).
  assert (E2 : 2 <=? s' = true) by (apply N.leb_le; lia).
  rewrite E1 in H. rewrite E1, E2. cbn [negb] in *.
  match goal with |- (if ?c then _ else _) = _ => destruct c end; [reflexivity|].
  destruct (for_upto (s - 1) _ 2) as [x|r] eqn:E.
  - congruence.
  - rewrite (for_upto_mono _ _ _ _ _ E); [reflexivity|lia].
Qed.

(* 1RB 0LA  ... ... *)
Definition f2_seg_prog : comp_prog := [((0,0),(1,true,1)); ((0,1),(0,false,0))].

Lemma f2_seg_witness :
  sg_py_segment_cant_halt f2_seg_prog 3 = Ok (SgrRefuted 0) /\
  halts_at (to_prog f2_seg_prog) init_config 1 (1, 0) /\
  sg_seg_cant_halt f2_seg_prog (2, 2) 3 = Ok SgrHalt.
Proof.
  split; [vm_compute; reflexivity|]. split; [|vm_compute; reflexivity].
  unfold halts_at. eexists. eexists. split; [vm_compute; reflexivity|]. split; vm_compute; reflexivity.
Qed.
