(** Locality of runs of the absolute-tape machine and the translated-cycle
    theorem: if after n >= 1 steps the machine is in the same state, the head
    has moved by d, the tape around the new head looks like the tape around
    the old head did (on a window that contained the head during the whole
    period) and the whole half-line on the side the head moves towards is
    equal too, then the machine never halts (and, if no configuration of the
    first period is a spin-out configuration, none ever is). *)
From BB Require Import Base TM TMabs.
Open Scope Z_scope.

Section Locality.
Variable P : prog.

(** the head is inside [lo,hi] at every time 0..n *)
Definition stays (n : nat) (c : aconf) (lo hi : Z) : Prop :=
  forall i ci, (i <= n)%nat -> a_steps P i c = Some ci -> lo <= a_h ci <= hi.

(** ---- generic facts about [a_steps] ---- *)
Lemma a_steps_add n m : forall c,
  a_steps P (n + m) c =
  match a_steps P n c with Some c' => a_steps P m c' | None => None end.
Proof.
  induction n as [|n IH]; intro c; cbn [Nat.add a_steps]; [reflexivity|].
  destruct (a_step P c) as [c'|]; [apply IH|reflexivity].
Qed.

Lemma a_steps_prefix n m c c' :
  (m <= n)%nat -> a_steps P n c = Some c' -> exists c'', a_steps P m c = Some c''.
Proof.
  intros Hle H. replace n with (m + (n - m))%nat in H by lia.
  rewrite a_steps_add in H.
  destruct (a_steps P m c) as [c''|]; [eexists; reflexivity|discriminate].
Qed.

(** ---- generic facts about [stays] ---- *)
Lemma stays_head n c lo hi : stays n c lo hi -> lo <= a_h c <= hi.
Proof. intro H. apply (H O c); [lia|reflexivity]. Qed.

Lemma stays_step n c c' lo hi :
  stays (S n) c lo hi -> a_step P c = Some c' -> stays n c' lo hi.
Proof.
  intros H Hs i ci Hi Hc. apply (H (S i) ci); [lia|].
  cbn [a_steps]. rewrite Hs. exact Hc.
Qed.

Lemma stays_S_intro n c lo hi :
  lo <= a_h c <= hi ->
  (forall c', a_step P c = Some c' -> stays n c' lo hi) ->
  stays (S n) c lo hi.
Proof.
  intros H0 Hs [|i] ci Hi Hc.
  - cbn [a_steps] in Hc. injection Hc as <-. exact H0.
  - cbn [a_steps] in Hc. destruct (a_step P c) as [c'|] eqn:E; [|discriminate].
    apply (Hs c' eq_refl i ci); [lia|exact Hc].
Qed.

Lemma stays_le n m c lo hi : (m <= n)%nat -> stays n c lo hi -> stays m c lo hi.
Proof. intros Hle H i ci Hi Hc. apply (H i ci); [lia|exact Hc]. Qed.

Lemma stays_after n m c c' lo hi :
  stays (n + m) c lo hi -> a_steps P n c = Some c' -> stays m c' lo hi.
Proof.
  intros H Hn i ci Hi Hc. apply (H (n + i)%nat ci); [lia|].
  rewrite a_steps_add, Hn. exact Hc.
Qed.

Lemma stays_widen n c lo hi lo' hi' :
  lo' <= lo -> hi <= hi' -> stays n c lo hi -> stays n c lo' hi'.
Proof. intros Hl Hh H i ci Hi Hc. pose proof (H i ci Hi Hc). lia. Qed.

(** ---- one step of a translated configuration ---- *)
Lemma step_translate c1 c1' lo hi d :
  lo <= a_h c1 <= hi ->
  a_q c1 = a_q c1' ->
  a_h c1' = a_h c1 + d ->
  (forall x, lo <= x <= hi -> a_t c1' (x + d) = a_t c1 x) ->
  match a_step P c1, a_step P c1' with
  | Some c2, Some c2' =>
      a_q c2' = a_q c2 /\ a_h c2' = a_h c2 + d /\
      (forall x, lo <= x <= hi -> a_t c2' (x + d) = a_t c2 x) /\
      (forall y, y <> a_h c1' -> a_t c2' y = a_t c1' y)
  | None, None => True
  | _, _ => False
  end.
Proof.
  intros Hin Hq Hh Hw. unfold a_step.
  assert (Hread : a_t c1' (a_h c1') = a_t c1 (a_h c1))
    by (rewrite Hh; apply Hw; exact Hin).
  rewrite <- Hq, Hread.
  destruct (P (a_q c1, a_t c1 (a_h c1))) as [[[pr sh] q']|]; [|exact I].
  cbn [a_q a_h a_t]. split; [reflexivity|]. split; [destruct sh; lia|]. split.
  - intros x Hx. unfold a_write. rewrite Hh.
    destruct (Z.eqb_spec x (a_h c1)) as [E|E],
             (Z.eqb_spec (x + d) (a_h c1 + d)) as [E'|E'].
    + reflexivity.
    + exfalso. lia.
    + exfalso. lia.
    + apply Hw. exact Hx.
  - intros y Hy. unfold a_write.
    destruct (Z.eqb_spec y (a_h c1')) as [E|E]; [contradiction|reflexivity].
Qed.

(** B.1 LOCALITY: a run that keeps its head in a window depends only on,
    and changes only, the cells of that window; the translated start gives
    the translated run. *)
Theorem locality n : forall c1 c1' c2 lo hi d,
  stays n c1 lo hi ->
  a_q c1 = a_q c1' ->
  a_h c1' = a_h c1 + d ->
  (forall x, lo <= x <= hi -> a_t c1' (x + d) = a_t c1 x) ->
  a_steps P n c1 = Some c2 ->
  exists c2',
    a_steps P n c1' = Some c2' /\ a_q c2' = a_q c2 /\ a_h c2' = a_h c2 + d /\
    (forall x, lo <= x <= hi -> a_t c2' (x + d) = a_t c2 x) /\
    (forall y, ~ (lo + d <= y <= hi + d) -> a_t c2' y = a_t c1' y) /\
    stays n c1' (lo + d) (hi + d).
Proof.
  induction n as [|n IH]; intros c1 c1' c2 lo hi d Hst Hq Hh Hw Hrun;
    pose proof (stays_head _ _ _ _ Hst) as Hin.
  - cbn [a_steps] in Hrun. injection Hrun as <-. exists c1'.
    split; [reflexivity|]. split; [symmetry; exact Hq|]. split; [exact Hh|].
    split; [exact Hw|]. split; [reflexivity|].
    intros i ci Hi Hc. assert (i = O) by lia. subst i.
    cbn [a_steps] in Hc. injection Hc as <-. lia.
  - pose proof (step_translate c1 c1' lo hi d Hin Hq Hh Hw) as Hs.
    cbn [a_steps] in Hrun.
    destruct (a_step P c1) as [c1s|] eqn:Es; [|discriminate].
    destruct (a_step P c1') as [c1s'|] eqn:Es'; [|contradiction].
    destruct Hs as (Sq & Sh & Sw & So).
    pose proof (stays_step _ _ _ _ _ Hst Es) as Hst'.
    assert (Sq' : a_q c1s = a_q c1s') by (symmetry; exact Sq).
    destruct (IH c1s c1s' c2 lo hi d Hst' Sq' Sh Sw Hrun)
      as (c2' & R1 & R2 & R3 & R4 & R5 & R6).
    exists c2'. split; [cbn [a_steps]; rewrite Es'; exact R1|].
    split; [exact R2|]. split; [exact R3|]. split; [exact R4|]. split.
    + intros y Hy. rewrite (R5 y Hy). apply So. lia.
    + apply stays_S_intro; [lia|]. intros c' Hc'. rewrite Es' in Hc'.
      injection Hc' as <-. exact R6.
Qed.

(** halting version: the translated run halts too (at the same time) *)
Theorem locality_halt n : forall c1 c1' lo hi d,
  stays n c1 lo hi ->
  a_q c1 = a_q c1' ->
  a_h c1' = a_h c1 + d ->
  (forall x, lo <= x <= hi -> a_t c1' (x + d) = a_t c1 x) ->
  a_steps P n c1 = None ->
  a_steps P n c1' = None.
Proof.
  induction n as [|n IH]; intros c1 c1' lo hi d Hst Hq Hh Hw Hrun;
    pose proof (stays_head _ _ _ _ Hst) as Hin.
  - cbn [a_steps] in Hrun. discriminate.
  - pose proof (step_translate c1 c1' lo hi d Hin Hq Hh Hw) as Hs.
    cbn [a_steps] in Hrun |- *.
    destruct (a_step P c1) as [c1s|] eqn:Es;
      destruct (a_step P c1') as [c1s'|] eqn:Es'; try contradiction;
      [|reflexivity].
    destruct Hs as (Sq & Sh & Sw & So).
    pose proof (stays_step _ _ _ _ _ Hst Es) as Hst'.
    assert (Sq' : a_q c1s = a_q c1s') by (symmetry; exact Sq).
    exact (IH c1s c1s' lo hi d Hst' Sq' Sh Sw Hrun).
Qed.

Theorem untouched_outside n c1 c2 lo hi :
  stays n c1 lo hi -> a_steps P n c1 = Some c2 ->
  forall y, ~ (lo <= y <= hi) -> a_t c2 y = a_t c1 y.
Proof.
  intros Hst Hrun y Hy.
  assert (Hh : a_h c1 = a_h c1 + 0) by lia.
  assert (Hw : forall x, lo <= x <= hi -> a_t c1 (x + 0) = a_t c1 x)
    by (intros x _; rewrite Z.add_0_r; reflexivity).
  destruct (locality n c1 c1 c2 lo hi 0 Hst eq_refl Hh Hw Hrun)
    as (c2' & R1 & _ & _ & _ & R5 & _).
  rewrite Hrun in R1. injection R1 as <-. apply R5. lia.
Qed.

(** ---- the translated-cycle hypotheses as one predicate ---- *)
Definition tcyc (n : nat) (d : Z) (c1 c2 : aconf) (lo hi : Z) : Prop :=
  a_steps P n c1 = Some c2 /\ stays n c1 lo hi /\
  a_q c2 = a_q c1 /\ a_h c2 = a_h c1 + d /\
  (forall x, lo <= x <= hi -> a_t c2 (x + d) = a_t c1 x) /\
  (0 < d -> forall x, hi < x -> a_t c2 (x + d) = a_t c1 x) /\
  (d < 0 -> forall x, x < lo -> a_t c2 (x + d) = a_t c1 x).

Lemma tcyc_bounds n d c1 c2 lo hi lo' hi' :
  lo = lo' -> hi = hi' -> tcyc n d c1 c2 lo hi -> tcyc n d c1 c2 lo' hi'.
Proof. intros -> ->. exact (fun H => H). Qed.

(** the hypotheses on (c1,c2) transfer to (c2,c3), one period later *)
Lemma tcyc_next n d c1 c2 lo hi :
  tcyc n d c1 c2 lo hi -> exists c3, tcyc n d c2 c3 (lo + d) (hi + d).
Proof.
  intros (Hrun & Hst & Hq & Hh & Hw & Hr & Hl).
  assert (Hq' : a_q c1 = a_q c2) by (symmetry; exact Hq).
  destruct (locality n c1 c2 c2 lo hi d Hst Hq' Hh Hw Hrun)
    as (c3 & R1 & R2 & R3 & R4 & R5 & R6).
  pose proof (untouched_outside n c1 c2 lo hi Hst Hrun) as Hu.
  assert (G : forall x,
             lo <= x <= hi \/ (~ (lo <= x <= hi) /\ a_t c2 (x + d) = a_t c1 x) ->
             a_t c3 (x + d) = a_t c2 x).
  { intros x [Hx|[Hx E]]; [apply R4; exact Hx|].
    rewrite R5 by lia. rewrite E. symmetry. apply Hu. exact Hx. }
  exists c3. split; [exact R1|]. split; [exact R6|]. split; [exact R2|].
  split; [exact R3|]. split; [|split].
  - intros x Hx. apply G. destruct (Z_lt_le_dec hi x) as [Hhi|Hhi].
    + right. split; [lia|]. apply Hr; lia.
    + destruct (Z_lt_le_dec x lo) as [Hlo|Hlo].
      * right. split; [lia|]. apply Hl; lia.
      * left. lia.
  - intros Hd x Hx. apply G. right. split; [lia|]. apply Hr; lia.
  - intros Hd x Hx. apply G. right. split; [lia|]. apply Hl; lia.
Qed.

(** relation of the configuration after k periods to the first one *)
Definition cyc_inv (n : nat) (d : Z) (c1 : aconf) (lo hi : Z) (k : nat) (ck : aconf) : Prop :=
  a_steps P (k * n) c1 = Some ck /\ a_q ck = a_q c1 /\
  a_h ck = a_h c1 + Z.of_nat k * d /\
  (forall x, lo <= x <= hi -> a_t ck (x + Z.of_nat k * d) = a_t c1 x) /\
  (0 < d -> forall x, hi < x -> a_t ck (x + Z.of_nat k * d) = a_t c1 x) /\
  (d < 0 -> forall x, x < lo -> a_t ck (x + Z.of_nat k * d) = a_t c1 x) /\
  (* cells behind the first window are never touched again *)
  (0 <= d -> forall x, x < lo -> a_t ck x = a_t c1 x) /\
  (d <= 0 -> forall x, hi < x -> a_t ck x = a_t c1 x).

Lemma kd_nonneg k d : 0 <= d -> 0 <= Z.of_nat k * d.
Proof. intro H. apply Z.mul_nonneg_nonneg; lia. Qed.
Lemma kd_nonpos k d : d <= 0 -> Z.of_nat k * d <= 0.
Proof. intro H. apply Z.mul_nonneg_nonpos; lia. Qed.
Lemma kd_succ k d : Z.of_nat (S k) * d = Z.of_nat k * d + d.
Proof. rewrite Nat2Z.inj_succ, Z.mul_succ_l. reflexivity. Qed.

Lemma cycle_chain n d c1 c2 lo hi :
  tcyc n d c1 c2 lo hi ->
  forall k, exists ck ck',
    cyc_inv n d c1 lo hi k ck /\
    tcyc n d ck ck' (lo + Z.of_nat k * d) (hi + Z.of_nat k * d).
Proof.
  intros T k. induction k as [|k IH].
  - exists c1, c2. split.
    + unfold cyc_inv. cbn [Nat.mul Z.of_nat Z.mul].
      split; [reflexivity|]. split; [reflexivity|]. split; [lia|].
      split; [intros x _; rewrite Z.add_0_r; reflexivity|].
      split; [intros _ x _; rewrite Z.add_0_r; reflexivity|].
      split; [intros _ x _; rewrite Z.add_0_r; reflexivity|].
      split; intros _ x _; reflexivity.
    + apply (tcyc_bounds n d c1 c2 lo hi); [cbn [Z.of_nat Z.mul]; lia ..|exact T].
  - destruct IH as (ck & ck' & Inv & Tk).
    destruct (tcyc_next _ _ _ _ _ _ Tk) as [ck'' Tk'].
    exists ck', ck''. split.
    + destruct Inv as (I0 & Iq & Ih & Iw & Ir & Il & Iul & Iur).
      destruct Tk as (Trun & Tst & Tq & Th & Tw & Tr & Tl).
      pose proof (untouched_outside n ck ck' _ _ Tst Trun) as Hu.
      pose proof (kd_nonneg k d) as Kp. pose proof (kd_nonpos k d) as Kn.
      unfold cyc_inv. rewrite (kd_succ k d).
      set (K := Z.of_nat k * d) in *.
      split.
      { replace (S k * n)%nat with (k * n + n)%nat by lia.
        rewrite a_steps_add, I0. exact Trun. }
      split; [congruence|]. split; [lia|].
      split; [|split; [|split; [|split]]].
      * intros x Hx. replace (x + (K + d)) with ((x + K) + d) by lia.
        rewrite Tw by lia. apply Iw. exact Hx.
      * intros Hd x Hx. replace (x + (K + d)) with ((x + K) + d) by lia.
        rewrite (Tr Hd) by lia. apply (Ir Hd). exact Hx.
      * intros Hd x Hx. replace (x + (K + d)) with ((x + K) + d) by lia.
        rewrite (Tl Hd) by lia. apply (Il Hd). exact Hx.
      * intros Hd x Hx. rewrite Hu by lia. apply (Iul Hd). exact Hx.
      * intros Hd x Hx. rewrite Hu by lia. apply (Iur Hd). exact Hx.
    + apply (tcyc_bounds n d ck' ck'' (lo + Z.of_nat k * d + d) (hi + Z.of_nat k * d + d));
        [rewrite kd_succ; lia ..|exact Tk'].
Qed.

End Locality.

(** B.2 THE MAIN THEOREM, strong form: the configuration after k periods is
    the k*d translate of the first one on the window, and the next period
    stays inside the translated window.  (Hypothesis [1 <= n] is not needed
    here; kept so that the hypotheses are those of [translated_cycle].) *)
Theorem translated_cycle_periodic : forall P c1 c2 n lo hi d,
  (1 <= n)%nat ->
  a_steps P n c1 = Some c2 ->
  stays P n c1 lo hi ->
  a_q c2 = a_q c1 ->
  a_h c2 = a_h c1 + d ->
  (forall x, lo <= x <= hi -> a_t c2 (x + d) = a_t c1 x) ->
  (0 < d -> forall x, hi < x -> a_t c2 (x + d) = a_t c1 x) ->
  (d < 0 -> forall x, x < lo -> a_t c2 (x + d) = a_t c1 x) ->
  forall k, exists ck,
    a_steps P (k * n) c1 = Some ck /\ a_q ck = a_q c1 /\
    a_h ck = a_h c1 + Z.of_nat k * d /\
    (forall x, lo <= x <= hi -> a_t ck (x + Z.of_nat k * d) = a_t c1 x) /\
    stays P n ck (lo + Z.of_nat k * d) (hi + Z.of_nat k * d).
Proof.
  intros P c1 c2 n lo hi d _ Hrun Hst Hq Hh Hw Hr Hl k.
  assert (T : tcyc P n d c1 c2 lo hi).
  { split; [exact Hrun|]. split; [exact Hst|]. split; [exact Hq|].
    split; [exact Hh|]. split; [exact Hw|]. split; [exact Hr|exact Hl]. }
  destruct (cycle_chain P n d c1 c2 lo hi T k) as (ck & ck' & Inv & Tk).
  destruct Inv as (I0 & Iq & Ih & Iw & _).
  destruct Tk as (_ & Tst & _).
  exists ck. split; [exact I0|]. split; [exact Iq|]. split; [exact Ih|].
  split; [exact Iw|exact Tst].
Qed.

Theorem translated_cycle : forall P c1 c2 n lo hi d,
  (1 <= n)%nat ->
  a_steps P n c1 = Some c2 ->
  stays P n c1 lo hi ->
  a_q c2 = a_q c1 ->
  a_h c2 = a_h c1 + d ->
  (* the tape around the new head looks like the tape around the old head did: *)
  (forall x, lo <= x <= hi -> a_t c2 (x + d) = a_t c1 x) ->
  (* and the whole half-line on the side the head moves towards is equal too: *)
  (0 < d -> forall x, hi < x -> a_t c2 (x + d) = a_t c1 x) ->
  (d < 0 -> forall x, x < lo -> a_t c2 (x + d) = a_t c1 x) ->
  a_never_halts P c1.
Proof.
  intros P c1 c2 n lo hi d Hn Hrun Hst Hq Hh Hw Hr Hl m.
  destruct (translated_cycle_periodic P c1 c2 n lo hi d Hn Hrun Hst Hq Hh Hw Hr Hl m)
    as (cm & Hm & _).
  apply (a_steps_prefix P (m * n) m c1 cm); [nia|exact Hm].
Qed.

(** B.3: no spin-out configuration in the first period => none ever. *)
Theorem translated_cycle_no_spinout : forall P c1 c2 n lo hi d,
  (1 <= n)%nat ->
  a_steps P n c1 = Some c2 ->
  stays P n c1 lo hi ->
  a_q c2 = a_q c1 ->
  a_h c2 = a_h c1 + d ->
  (forall x, lo <= x <= hi -> a_t c2 (x + d) = a_t c1 x) ->
  (0 < d -> forall x, hi < x -> a_t c2 (x + d) = a_t c1 x) ->
  (d < 0 -> forall x, x < lo -> a_t c2 (x + d) = a_t c1 x) ->
  (forall i ci, (i < n)%nat -> a_steps P i c1 = Some ci -> ~ a_spinout_cfg P ci) ->
  forall m cm, a_steps P m c1 = Some cm -> ~ a_spinout_cfg P cm.
Proof.
  intros P c1 c2 n lo hi d Hn Hrun Hst Hq Hh Hw Hr Hl Hns m cm Hm Hsp.
  assert (T : tcyc P n d c1 c2 lo hi).
  { split; [exact Hrun|]. split; [exact Hst|]. split; [exact Hq|].
    split; [exact Hh|]. split; [exact Hw|]. split; [exact Hr|exact Hl]. }
  assert (Hdiv : exists k i, m = (k * n + i)%nat /\ (i < n)%nat).
  { exists (m / n)%nat, (m mod n)%nat. split.
    - pose proof (Nat.div_mod m n) as Hdm. lia.
    - apply Nat.mod_upper_bound. lia. }
  destruct Hdiv as (k & i & -> & Hi).
  destruct (cycle_chain P n d c1 c2 lo hi T k) as (ck & ck' & Inv & Tk).
  destruct Inv as (I0 & Iq & Ih & Iw & Ir & Il & Iul & Iur).
  pose proof (kd_nonneg k d) as Kp. pose proof (kd_nonpos k d) as Kn.
  set (K := Z.of_nat k * d) in *.
  rewrite a_steps_add, I0 in Hm.
  destruct (a_steps_prefix P n i c1 c2) as [ci Hci]; [lia|exact Hrun|].
  apply (Hns i ci Hi Hci).
  assert (Hsti : stays P i c1 lo hi) by (apply (stays_le P n i); [lia|exact Hst]).
  destruct (locality P i c1 ck ci lo hi K Hsti (eq_sym Iq) Ih Iw Hci)
    as (cm' & R1 & R2 & R3 & R4 & R5 & _).
  rewrite Hm in R1. injection R1 as <-.
  pose proof (untouched_outside P i c1 ci lo hi Hsti Hci) as Hu.
  pose proof (Hsti i ci (le_n _) Hci) as Hin.
  destruct Hsp as (S0 & pr & sh & SP & Sb).
  unfold a_spinout_cfg. split.
  - rewrite <- R4 by exact Hin. rewrite <- R3. exact S0.
  - exists pr, sh. split; [rewrite <- R2; exact SP|].
    destruct sh; cbv beta iota in Sb |- *; intros x Hx.
    + destruct (Z_lt_le_dec hi x) as [Hhi|Hhi].
      * rewrite Hu by lia. destruct (Z_lt_le_dec 0 d) as [Hd|Hd].
        -- rewrite <- (Ir Hd x Hhi). rewrite <- R5 by lia. apply Sb. lia.
        -- rewrite <- (Iur Hd x Hhi). rewrite <- R5 by lia. apply Sb. lia.
      * rewrite <- R4 by lia. apply Sb. lia.
    + destruct (Z_lt_le_dec x lo) as [Hlo|Hlo].
      * rewrite Hu by lia. destruct (Z_lt_le_dec d 0) as [Hd|Hd].
        -- rewrite <- (Il Hd x Hlo). rewrite <- R5 by lia. apply Sb. lia.
        -- rewrite <- (Iul Hd x Hlo). rewrite <- R5 by lia. apply Sb. lia.
      * rewrite <- R4 by lia. apply Sb. lia.
Qed.

Print Assumptions locality.
Print Assumptions locality_halt.
Print Assumptions untouched_outside.
Print Assumptions translated_cycle_periodic.
Print Assumptions translated_cycle.
Print Assumptions translated_cycle_no_spinout.
