(** C16: lazily compiled macros (macros.rs) are history independent.

    Contents
    1. positional encoding [encode]/[decode] and the machine-arithmetic fold
       [t2c_fold] computes it;
    2. the sorted-association-list caches;
    3. the converter invariant [conv_inv] and [tape_to_color];
    4. the simulator over a stateful base that behaves purely equals the
       simulator over the pure base;
    5. one macro layer over a "pure base" is again a pure base whose pure
       reference is [gcalc] (a function of logic, base reference and slot);
    6. stacks of layers over a plain table ([stack_get]); the C16 theorems;
    7. the F3 refutation for the faithful backsymbol logic. *)
From BB Require Import Base InstrsModel MacrosModel Loops.

(** ------------------------------------------------------------------ *)
(** * 1. Positional encoding *)

(** the value [t2c_fold] computes: last cell least significant (Horner) *)
Definition encode (bc : N) (tp : mtape) : N :=
  fold_left (fun acc v => acc * bc + v) tp 0.

Fixpoint decode_nat (bc : N) (n : nat) (c : N) : mtape :=
  match n with
  | O => []
  | S n' => decode_nat bc n' (c / bc) ++ [c mod bc]
  end.
Definition decode (bc cells c : N) : mtape := decode_nat bc (N.to_nat cells) c.

Definition cells_lt (bc : N) (tp : mtape) : Prop := Forall (fun c => c < bc) tp.

Lemma encode_nil bc : encode bc [] = 0.
Proof. reflexivity. Qed.

Lemma encode_snoc bc tp x : encode bc (tp ++ [x]) = encode bc tp * bc + x.
Proof. unfold encode. rewrite fold_left_app. reflexivity. Qed.

Lemma encode_repeat0 bc n : encode bc (repeat 0 n) = 0.
Proof.
  induction n as [|n IH]; [reflexivity|].
  unfold encode in *. cbn [repeat fold_left]. rewrite N.mul_0_l, N.add_0_l. exact IH.
Qed.

Lemma cells_lt_snoc bc tp x : cells_lt bc (tp ++ [x]) <-> cells_lt bc tp /\ x < bc.
Proof.
  unfold cells_lt. rewrite Forall_app. split.
  - intros [H1 H2]. split; [exact H1|]. inversion H2; assumption.
  - intros [H1 H2]. split; [exact H1|]. constructor; [exact H2|constructor].
Qed.

Lemma encode_lt bc tp : cells_lt bc tp -> encode bc tp < bc ^ N.of_nat (length tp).
Proof.
  induction tp as [|x tp IH] using rev_ind; intros H.
  - cbn [length N.of_nat]. rewrite N.pow_0_r, encode_nil. lia.
  - apply cells_lt_snoc in H. destruct H as [Htp Hx]. specialize (IH Htp).
    rewrite encode_snoc, app_length. cbn [length]. rewrite Nat.add_1_r, Nat2N.inj_succ, N.pow_succ_r'.
    nia.
Qed.

Lemma dec_enc_nat bc tp : cells_lt bc tp -> decode_nat bc (length tp) (encode bc tp) = tp.
Proof.
  induction tp as [|x tp IH] using rev_ind; intros H; [reflexivity|].
  apply cells_lt_snoc in H. destruct H as [Htp Hx].
  rewrite encode_snoc, app_length. cbn [length]. rewrite Nat.add_1_r. cbn [decode_nat].
  assert (Hbc : bc <> 0) by lia.
  rewrite N.div_add_l by exact Hbc. rewrite N.div_small by exact Hx. rewrite N.add_0_r.
  rewrite N.add_comm, N.mod_add by exact Hbc. rewrite N.mod_small by exact Hx.
  rewrite IH by exact Htp. reflexivity.
Qed.

Lemma enc_dec_nat bc n : forall c, c < bc ^ N.of_nat n -> encode bc (decode_nat bc n c) = c.
Proof.
  induction n as [|n IH]; intros c Hc.
  - cbn [N.of_nat] in Hc. rewrite N.pow_0_r in Hc. cbn [decode_nat]. rewrite encode_nil. lia.
  - rewrite Nat2N.inj_succ, N.pow_succ_r' in Hc. cbn [decode_nat].
    assert (Hbc : bc <> 0) by (intros ->; lia).
    rewrite encode_snoc, IH.
    + rewrite N.mul_comm. symmetry. apply N.div_mod. exact Hbc.
    + apply N.div_lt_upper_bound; assumption.
Qed.

Lemma decode_nat_length bc n : forall c, length (decode_nat bc n c) = n.
Proof.
  induction n as [|n IH]; intros c; [reflexivity|].
  cbn [decode_nat]. rewrite app_length, IH. cbn [length]. lia.
Qed.

Lemma decode_nat_lt bc n : 1 <= bc -> forall c, cells_lt bc (decode_nat bc n c).
Proof.
  intros Hbc. induction n as [|n IH]; intros c; [constructor|].
  cbn [decode_nat]. apply cells_lt_snoc. split; [apply IH|]. apply N.mod_lt. lia.
Qed.

Lemma decode_nat_zero bc n : decode_nat bc n 0 = repeat 0 n.
Proof.
  induction n as [|n IH]; [reflexivity|].
  cbn [decode_nat].
  assert (H0 : 0 / bc = 0) by (destruct bc; reflexivity).
  assert (H1 : 0 mod bc = 0) by (destruct bc; reflexivity).
  rewrite H0, H1, IH. symmetry. cbn [repeat]. apply repeat_cons.
Qed.

(** the statements in terms of [cells : N] *)
Theorem dec_enc bc cells tp :
  mt_len tp = cells -> cells_lt bc tp -> decode bc cells (encode bc tp) = tp.
Proof.
  intros Hl Hc. unfold decode. subst cells. unfold mt_len. rewrite Nat2N.id.
  apply dec_enc_nat. exact Hc.
Qed.

Theorem enc_dec bc cells c :
  c < bc ^ cells -> encode bc (decode bc cells c) = c.
Proof.
  intros Hc. unfold decode. apply enc_dec_nat. rewrite N2Nat.id. exact Hc.
Qed.

Lemma decode_len bc cells c : mt_len (decode bc cells c) = cells.
Proof. unfold decode, mt_len. rewrite decode_nat_length. apply N2Nat.id. Qed.

Lemma decode_lt bc cells c : 1 <= bc -> cells_lt bc (decode bc cells c).
Proof. intros H. apply decode_nat_lt. exact H. Qed.

Lemma decode_zero bc cells : decode bc cells 0 = repeat 0 (N.to_nat cells).
Proof. apply decode_nat_zero. Qed.

Lemma encode_bound bc cells tp :
  mt_len tp = cells -> cells_lt bc tp -> encode bc tp < bc ^ cells.
Proof. intros <- H. apply encode_lt. exact H. Qed.

Lemma encode_inj bc tp1 tp2 :
  cells_lt bc tp1 -> cells_lt bc tp2 -> length tp1 = length tp2 ->
  encode bc tp1 = encode bc tp2 -> tp1 = tp2.
Proof.
  intros H1 H2 Hl He. rewrite <- (dec_enc_nat bc tp1 H1), <- (dec_enc_nat bc tp2 H2), Hl, He.
  reflexivity.
Qed.

(** ---- u64 arithmetic of the fold ---- *)
Lemma chk_u64_ok n : n <= u64_max -> chk_u64 n = Ok n.
Proof. intros H. unfold chk_u64. apply N.leb_le in H. rewrite H. reflexivity. Qed.

Lemma pow_ge_1 b e : 1 <= b -> 1 <= b ^ e.
Proof. intros H. assert (b ^ e <> 0) by (apply N.pow_nonzero; lia). lia. Qed.

Lemma iter_pow b : 1 <= b -> forall n acc,
  acc * b ^ N.of_nat n <= u64_max ->
  iter_nat n (pow_body b) acc = inl (acc * b ^ N.of_nat n).
Proof.
  intros Hb. induction n as [|n IH]; intros acc H.
  - cbn [iter_nat N.of_nat]. rewrite N.pow_0_r, N.mul_1_r. reflexivity.
  - rewrite Nat2N.inj_succ, N.pow_succ_r' in *.
    assert (Hp : 1 <= b ^ N.of_nat n) by (apply pow_ge_1; exact Hb).
    cbn [iter_nat]. unfold pow_body at 1.
    assert (Hab : acc * b <= u64_max) by nia.
    apply N.leb_le in Hab. rewrite Hab.
    rewrite IH by nia. f_equal. lia.
Qed.

Lemma pow_lt_64 b e : 2 <= b -> b ^ e <= u64_max -> e < 64.
Proof.
  intros Hb H. destruct (N.lt_ge_cases e 64) as [Hl|Hg]; [exact Hl|exfalso].
  assert (H1 : 2 ^ 64 <= 2 ^ e) by (apply N.pow_le_mono_r; [lia|exact Hg]).
  assert (H2 : 2 ^ e <= b ^ e) by (apply N.pow_le_mono_l; exact Hb).
  assert (H3 : 2 ^ 64 = u64_max + 1) by (vm_compute; reflexivity).
  lia.
Qed.

Lemma pow_u64_spec b e : 1 <= b -> b ^ e <= u64_max -> pow_u64 b e = Ok (b ^ e).
Proof.
  intros Hb H. unfold pow_u64.
  destruct (N.eq_dec b 1) as [->|Hb1].
  - rewrite N.pow_1_l. destruct (_ =? 0); reflexivity.
  - assert (He : e < 64) by (apply (pow_lt_64 b); [lia|exact H]).
    assert (He32 : e mod 4294967296 = e) by (apply N.mod_small; lia).
    rewrite He32. destruct (N.eqb_spec e 0) as [->|He0]; [rewrite N.pow_0_r; reflexivity|].
    destruct (N.eqb_spec b 0) as [->|_]; [lia|].
    destruct (N.eqb_spec b 1) as [->|_]; [congruence|].
    rewrite for_upto_iter, iter_pow; rewrite ?N2Nat.id, ?N.mul_1_l; try assumption; reflexivity.
Qed.

Fixpoint enc_rev (bc : N) (r : mtape) : N :=
  match r with [] => 0 | v :: r' => v + bc * enc_rev bc r' end.

Lemma enc_rev_rev bc tp : enc_rev bc (rev tp) = encode bc tp.
Proof.
  induction tp as [|x tp IH] using rev_ind; [reflexivity|].
  rewrite rev_app_distr, encode_snoc. cbn [rev app enc_rev]. rewrite IH. lia.
Qed.

Lemma t2c_fold_spec bc : 1 <= bc -> forall r place acc,
  cells_lt bc r -> acc < bc ^ place ->
  bc ^ (place + N.of_nat (length r)) <= u64_max ->
  t2c_fold bc r place acc = Ok (acc + bc ^ place * enc_rev bc r).
Proof.
  intros Hbc. induction r as [|v r IH]; intros place acc Hr Hacc Hmax.
  - cbn [t2c_fold enc_rev]. f_equal. lia.
  - inversion Hr as [|v' r' Hv Hr']; subst.
    cbn [length] in Hmax. rewrite Nat2N.inj_succ in Hmax.
    assert (Hle : bc ^ (place + 1) <= bc ^ (place + N.succ (N.of_nat (length r)))).
    { apply N.pow_le_mono_r; lia. }
    rewrite N.pow_add_r, N.pow_1_r in Hle.
    assert (Hp : 1 <= bc ^ place) by (apply pow_ge_1; exact Hbc).
    cbn [t2c_fold].
    rewrite pow_u64_spec by (try assumption; nia). cbn [obind].
    unfold chk_mul_u64. rewrite chk_u64_ok by nia. cbn [obind].
    unfold chk_add_u64. rewrite chk_u64_ok by nia. cbn [obind].
    rewrite IH.
    + f_equal. cbn [enc_rev]. rewrite N.pow_add_r, N.pow_1_r. lia.
    + exact Hr'.
    + rewrite N.pow_add_r, N.pow_1_r. nia.
    + replace (place + 1 + N.of_nat (length r)) with (place + N.succ (N.of_nat (length r))) by lia.
      exact Hmax.
Qed.

Lemma t2c_fold_encode bc tp :
  1 <= bc -> cells_lt bc tp -> bc ^ mt_len tp <= u64_max ->
  t2c_fold bc (rev tp) 0 0 = Ok (encode bc tp).
Proof.
  intros Hbc Htp Hmax. rewrite t2c_fold_spec.
  - rewrite N.pow_0_r, enc_rev_rev. f_equal. lia.
  - exact Hbc.
  - apply Forall_rev. exact Htp.
  - rewrite N.pow_0_r. lia.
  - rewrite rev_length, N.add_0_l. exact Hmax.
Qed.

(** ------------------------------------------------------------------ *)
(** * 2. The caches (association lists) *)

Lemma mtape_cmp_eq a : forall b, mtape_cmp a b = Eq <-> a = b.
Proof.
  induction a as [|x a IH]; intros [|y b]; cbn [mtape_cmp]; try (split; [discriminate|discriminate]).
  - split; reflexivity.
  - destruct (x ?= y) eqn:E.
    + apply N.compare_eq_iff in E. subst y. rewrite IH. split; [intros ->; reflexivity|intros H; inversion H; reflexivity].
    + split; [discriminate|]. intros H. inversion H; subst. rewrite N.compare_refl in E. discriminate.
    + split; [discriminate|]. intros H. inversion H; subst. rewrite N.compare_refl in E. discriminate.
Qed.

Lemma c2t_get_In m : forall k v, c2t_get m k = Some v -> In (k, v) m.
Proof.
  induction m as [|[k' v'] m IH]; intros k v H; cbn [c2t_get] in H; [discriminate|].
  destruct (N.eqb_spec k' k) as [->|Hne].
  - inversion H; subst. left. reflexivity.
  - right. apply IH. exact H.
Qed.

Lemma c2t_insert_In k v m : forall x, In x (c2t_insert k v m) -> x = (k, v) \/ In x m.
Proof.
  induction m as [|[k' v'] m IH]; intros x H; cbn [c2t_insert] in H.
  - destruct H as [<-|[]]. left. reflexivity.
  - destruct (k <? k').
    + destruct H as [<-|H]; [left; reflexivity|right; exact H].
    + destruct (k =? k').
      * destruct H as [<-|H]; [left; reflexivity|right; right; exact H].
      * destruct H as [<-|H]; [right; left; reflexivity|].
        destruct (IH _ H) as [E|E]; [left; exact E|right; right; exact E].
Qed.

Lemma c2t_get_insert_same k v m : c2t_get (c2t_insert k v m) k = Some v.
Proof.
  induction m as [|[k' v'] m IH]; cbn [c2t_insert].
  - cbn [c2t_get]. rewrite N.eqb_refl. reflexivity.
  - destruct (N.ltb_spec k k') as [Hlt|Hge].
    + cbn [c2t_get]. rewrite N.eqb_refl. reflexivity.
    + destruct (N.eqb_spec k k') as [->|Hne].
      * cbn [c2t_get]. rewrite N.eqb_refl. reflexivity.
      * cbn [c2t_get]. destruct (N.eqb_spec k' k) as [->|_]; [congruence|exact IH].
Qed.

Lemma c2t_get_insert_other k v m k0 : k0 <> k -> c2t_get (c2t_insert k v m) k0 = c2t_get m k0.
Proof.
  intros Hne. induction m as [|[k' v'] m IH]; cbn [c2t_insert].
  - cbn [c2t_get]. destruct (N.eqb_spec k k0) as [->|_]; [congruence|reflexivity].
  - destruct (N.ltb_spec k k') as [Hlt|Hge].
    + cbn [c2t_get]. destruct (N.eqb_spec k k0) as [->|_]; [congruence|reflexivity].
    + destruct (N.eqb_spec k k') as [->|Hne'].
      * cbn [c2t_get]. destruct (N.eqb_spec k' k0) as [->|_]; [congruence|reflexivity].
      * cbn [c2t_get]. destruct (k' =? k0); [reflexivity|exact IH].
Qed.

Lemma t2c_get_In m : forall k v, t2c_get m k = Some v -> In (k, v) m.
Proof.
  induction m as [|[k' v'] m IH]; intros k v H; cbn [t2c_get] in H; [discriminate|].
  destruct (mtape_cmp k' k) eqn:E; try (right; apply IH; exact H).
  apply mtape_cmp_eq in E. subst k'. inversion H; subst. left. reflexivity.
Qed.

Lemma t2c_get_None_In m : forall k v, t2c_get m k = None -> ~ In (k, v) m.
Proof.
  induction m as [|[k' v'] m IH]; intros k v H Hin; [destruct Hin|].
  cbn [t2c_get] in H. destruct Hin as [E|Hin].
  - inversion E; subst. assert (Hr : mtape_cmp k k = Eq) by (apply mtape_cmp_eq; reflexivity).
    rewrite Hr in H. discriminate.
  - destruct (mtape_cmp k' k); try discriminate; exact (IH _ _ H Hin).
Qed.

Lemma t2c_insert_In k v m : forall x, In x (t2c_insert k v m) -> x = (k, v) \/ In x m.
Proof.
  induction m as [|[k' v'] m IH]; intros x H; cbn [t2c_insert] in H.
  - destruct H as [<-|[]]. left. reflexivity.
  - destruct (mtape_cmp k k').
    + destruct H as [<-|H]; [left; reflexivity|right; right; exact H].
    + destruct H as [<-|H]; [left; reflexivity|right; exact H].
    + destruct H as [<-|H]; [right; left; reflexivity|].
      destruct (IH _ H) as [E|E]; [left; exact E|right; right; exact E].
Qed.

Lemma slot_eqb_eq a b : slot_eqb a b = true <-> a = b.
Proof.
  destruct a as [a1 a2], b as [b1 b2]. unfold slot_eqb. cbn [fst snd].
  rewrite andb_true_iff, !N.eqb_eq. split; [intros [-> ->]; reflexivity|intros H; inversion H; auto].
Qed.

Lemma cp_get_In p : forall k v, cp_get p k = Some v -> In (k, v) p.
Proof.
  induction p as [|[k' v'] p IH]; intros k v H; cbn [cp_get] in H; [discriminate|].
  destruct (slot_eqb k' k) eqn:E.
  - apply slot_eqb_eq in E. subst k'. inversion H; subst. left. reflexivity.
  - right. apply IH. exact H.
Qed.

Lemma cp_insert_In k v p : forall x, In x (cp_insert k v p) -> x = (k, v) \/ In x p.
Proof.
  induction p as [|[k' v'] p IH]; intros x H; cbn [cp_insert] in H.
  - destruct H as [<-|[]]. left. reflexivity.
  - destruct (slot_ltb k k').
    + destruct H as [<-|H]; [left; reflexivity|right; exact H].
    + destruct (slot_eqb k k').
      * destruct H as [<-|H]; [left; reflexivity|right; right; exact H].
      * destruct H as [<-|H]; [right; left; reflexivity|].
        destruct (IH _ H) as [E|E]; [left; exact E|right; right; exact E].
Qed.

(** ------------------------------------------------------------------ *)
(** * 3. The converter invariant *)

(** a colour is known to a macro object: it is a key of [color_to_tape_cache] *)
Definition known (m : mstate) (c : colour) : Prop :=
  exists tp, c2t_get (ms_c2t m) c = Some tp.

Definition wf_tape (P : colour -> Prop) (cells : N) (tp : mtape) : Prop :=
  mt_len tp = cells /\ Forall P tp.

(** [P] is the predicate the cells of cached tapes satisfy (for a macro over a
    plain table: [fun c => c < base_colors]) *)
Definition conv_inv (P : colour -> Prop) (lg : logic) (m : mstate) : Prop :=
  (forall c tp, In (c, tp) (ms_c2t m) ->
     wf_tape P (lg_cells lg) tp /\ c = encode (lg_base_colors lg) tp) /\
  (forall tp c, In (tp, c) (ms_t2c m) ->
     wf_tape P (lg_cells lg) tp /\ c = encode (lg_base_colors lg) tp /\
     c2t_get (ms_c2t m) c = Some tp) /\
  c2t_get (ms_c2t m) 0 = Some (repeat 0 (N.to_nat (lg_cells lg))).

(** arithmetic well-formedness of a logic: at least one colour, and the
    number of block colours fits a u64 (otherwise [BacksymbolLogic::new] and
    [tape_to_color] panic); [backsymbols] is what [new] computes *)
Definition logic_wf (lg : logic) : Prop :=
  1 <= lg_base_colors lg /\
  lg_base_colors lg ^ lg_cells lg <= u64_max /\
  (lg_kind lg = LkBacksymbol -> lg_backsymbols lg = lg_base_colors lg ^ lg_cells lg).

Lemma wf_tape_mono (P Q : colour -> Prop) cells tp :
  (forall c, P c -> Q c) -> wf_tape P cells tp -> wf_tape Q cells tp.
Proof. intros H [Hl Hf]. split; [exact Hl|]. eapply Forall_impl; [exact H|exact Hf]. Qed.

Lemma conv_inv_mono (P Q : colour -> Prop) lg m :
  (forall c, P c -> Q c) -> conv_inv P lg m -> conv_inv Q lg m.
Proof.
  intros H (H1 & H2 & H3). split; [|split].
  - intros c tp Hin. destruct (H1 c tp Hin) as [Hw He]. split; [|exact He].
    eapply wf_tape_mono; [exact H|exact Hw].
  - intros tp c Hin. destruct (H2 tp c Hin) as (Hw & He & Hg). split; [|split; assumption].
    eapply wf_tape_mono; [exact H|exact Hw].
  - exact H3.
Qed.

Lemma conv_inv_new (P : colour -> Prop) lg :
  P 0 -> conv_inv P lg (mstate_new (lg_cells lg)).
Proof.
  intros H0. unfold mstate_new. split; [|split]; cbn [ms_c2t ms_t2c].
  - intros c tp [E|[]]. inversion E; subst. split; [split|].
    + unfold mt_len. rewrite repeat_length. apply N2Nat.id.
    + apply Forall_forall. intros x Hx. apply repeat_spec in Hx. subst x. exact H0.
    + symmetry. apply encode_repeat0.
  - intros tp c [].
  - cbn [c2t_get]. rewrite N.eqb_refl. reflexivity.
Qed.

Lemma known_insert k v t2c ins m c :
  known m c -> known (mkMS (c2t_insert k v (ms_c2t m)) t2c ins) c.
Proof.
  intros [tp H]. unfold known. cbn [ms_c2t].
  destruct (N.eq_dec c k) as [->|Hne].
  - exists v. apply c2t_get_insert_same.
  - exists tp. rewrite c2t_get_insert_other by exact Hne. exact H.
Qed.

(** keys of the colour cache are never removed, whatever the tape *)
Lemma tape_to_color_known bc m tp c :
  known m c -> known (snd (tape_to_color bc m tp)) c.
Proof.
  intros H. unfold tape_to_color. destruct (t2c_get (ms_t2c m) tp); [exact H|].
  destruct (t2c_fold bc (rev tp) 0 0); [exact H|]. cbn [snd]. apply known_insert. exact H.
Qed.

Lemma tape_to_color_memo bc m tp :
  ms_instrs (snd (tape_to_color bc m tp)) = ms_instrs m.
Proof.
  unfold tape_to_color. destruct (t2c_get (ms_t2c m) tp); [reflexivity|].
  destruct (t2c_fold bc (rev tp) 0 0); reflexivity.
Qed.

(** cached decodings are kept (stronger than: known colours stay known) *)
Definition stable (m m' : mstate) : Prop :=
  forall c tp, c2t_get (ms_c2t m) c = Some tp -> c2t_get (ms_c2t m') c = Some tp.

Lemma stable_refl m : stable m m.
Proof. intros c tp H. exact H. Qed.

Lemma stable_known m m' : stable m m' -> forall c, known m c -> known m' c.
Proof. intros H c [tp Hg]. exists tp. apply H. exact Hg. Qed.

Section Conv.
  Variable P : colour -> Prop.
  Variable lg : logic.
  Hypothesis Hwf : logic_wf lg.
  Hypothesis Plt : forall c, P c -> c < lg_base_colors lg.

  Lemma wf_cells_lt tp : wf_tape P (lg_cells lg) tp -> cells_lt (lg_base_colors lg) tp.
  Proof. intros [_ H]. eapply Forall_impl; [exact Plt|exact H]. Qed.

  Lemma wf_encode_inj tp1 tp2 :
    wf_tape P (lg_cells lg) tp1 -> wf_tape P (lg_cells lg) tp2 ->
    encode (lg_base_colors lg) tp1 = encode (lg_base_colors lg) tp2 -> tp1 = tp2.
  Proof.
    intros H1 H2 He. apply (encode_inj (lg_base_colors lg)); try (apply wf_cells_lt; assumption); [|exact He].
    destruct H1 as [H1 _], H2 as [H2 _]. unfold mt_len in *. apply Nat2N.inj. congruence.
  Qed.

  (** a cached colour decodes positionally *)
  Lemma conv_c2t_decode m c tp :
    conv_inv P lg m -> c2t_get (ms_c2t m) c = Some tp ->
    tp = decode (lg_base_colors lg) (lg_cells lg) c /\ wf_tape P (lg_cells lg) tp /\
    c = encode (lg_base_colors lg) tp.
  Proof.
    intros (H1 & _ & _) Hg. apply c2t_get_In in Hg. destruct (H1 _ _ Hg) as [Hw He].
    split; [|split; assumption]. subst c. symmetry. apply dec_enc; [apply Hw|apply wf_cells_lt; exact Hw].
  Qed.

  (** [tape_to_color] on a tape of the converter's width *)
  Lemma tape_to_color_wf m tp :
    conv_inv P lg m -> wf_tape P (lg_cells lg) tp ->
    fst (tape_to_color (lg_base_colors lg) m tp) = Ok (encode (lg_base_colors lg) tp) /\
    conv_inv P lg (snd (tape_to_color (lg_base_colors lg) m tp)) /\
    c2t_get (ms_c2t (snd (tape_to_color (lg_base_colors lg) m tp))) (encode (lg_base_colors lg) tp) = Some tp /\
    stable m (snd (tape_to_color (lg_base_colors lg) m tp)).
  Proof.
    intros Hinv Hw. pose proof Hinv as (H1 & H2 & H3). destruct Hwf as (Hbc & Hmax & _).
    unfold tape_to_color. destruct (t2c_get (ms_t2c m) tp) as [c|] eqn:Eg.
    - apply t2c_get_In in Eg. destruct (H2 _ _ Eg) as (_ & He & Hg). cbn [fst snd]. subst c.
      split; [reflexivity|]. split; [assumption|]. split; [assumption|apply stable_refl].
    - rewrite t2c_fold_encode; [|exact Hbc|apply wf_cells_lt; exact Hw|destruct Hw as [-> _]; exact Hmax].
      cbn [fst snd]. split; [reflexivity|]. split; [|split; [cbn [ms_c2t]; apply c2t_get_insert_same|]].
      2:{ intros c tp0 Hg. cbn [ms_c2t].
          destruct (N.eq_dec c (encode (lg_base_colors lg) tp)) as [Ec|Ec].
          - apply c2t_get_In in Hg. destruct (H1 _ _ Hg) as [Hw0 He0].
            assert (tp0 = tp) by (apply wf_encode_inj; [exact Hw0|exact Hw|rewrite <- He0; exact Ec]).
            subst tp0. rewrite Ec. apply c2t_get_insert_same.
          - rewrite c2t_get_insert_other by exact Ec. exact Hg. }
      split; [|split]; cbn [ms_c2t ms_t2c].
      + intros c tp' Hin. apply c2t_insert_In in Hin. destruct Hin as [E|Hin].
        * inversion E; subst. split; [exact Hw|reflexivity].
        * apply H1. exact Hin.
      + intros tp' c Hin. apply t2c_insert_In in Hin. destruct Hin as [E|Hin].
        * inversion E; subst. split; [exact Hw|]. split; [reflexivity|]. apply c2t_get_insert_same.
        * destruct (H2 _ _ Hin) as (Hw' & He & Hg). split; [exact Hw'|]. split; [exact He|].
          destruct (N.eq_dec c (encode (lg_base_colors lg) tp)) as [Ec|Ec].
          -- assert (tp' = tp) by (apply wf_encode_inj; [exact Hw'|exact Hw|rewrite <- He; exact Ec]). subst tp'.
             rewrite Ec. apply c2t_get_insert_same.
          -- rewrite c2t_get_insert_other by exact Ec. exact Hg.
      + destruct (N.eq_dec 0 (encode (lg_base_colors lg) tp)) as [Ec|Ec].
        * rewrite <- Ec, c2t_get_insert_same. f_equal.
          rewrite <- (dec_enc (lg_base_colors lg) (lg_cells lg) tp); [|apply Hw|apply wf_cells_lt; exact Hw].
          rewrite <- Ec. apply decode_zero.
        * rewrite c2t_get_insert_other by exact Ec. exact H3.
  Qed.

  (** the value alone, also for a tape shorter than the converter's width
      (the F3 situation: the cache cannot hit, the fold cannot overflow) *)
  Lemma tape_to_color_val m tp :
    conv_inv P lg m -> cells_lt (lg_base_colors lg) tp -> mt_len tp <= lg_cells lg ->
    fst (tape_to_color (lg_base_colors lg) m tp) = Ok (encode (lg_base_colors lg) tp).
  Proof.
    intros (_ & H2 & _) Hc Hl. destruct Hwf as (Hbc & Hmax & _).
    unfold tape_to_color. destruct (t2c_get (ms_t2c m) tp) as [c|] eqn:Eg.
    - apply t2c_get_In in Eg. destruct (H2 _ _ Eg) as (_ & He & _). cbn [fst]. rewrite He. reflexivity.
    - rewrite t2c_fold_encode; [reflexivity|exact Hbc|exact Hc|].
      eapply N.le_trans; [|exact Hmax]. apply N.pow_le_mono_r; [lia|exact Hl].
  Qed.
End Conv.

(** ------------------------------------------------------------------ *)
(** * 4. The simulator over a base that behaves purely *)

#[local] Arguments si_state {bstate}.
#[local] Arguments si_tape {bstate}.
#[local] Arguments si_pos {bstate}.
#[local] Arguments si_base {bstate}.
#[local] Arguments mkSim {bstate}.
#[local] Arguments SxNone {bstate}.
#[local] Arguments SxSide {bstate}.
#[local] Arguments SxPanic {bstate}.

(** the stateless base with reference function [bf] *)
Definition pbase (bf : slot -> outcome (option instr))
  : unit -> slot -> outcome (option instr) * unit := fun _ sl => (bf sl, tt).

(** A base program [get] with mutable state [B] is a PURE BASE with
    reference [bf] when, on every state satisfying [inv] and every slot whose
    state and colour are known ([ks], [kc]), its answer is [bf slot], the
    invariant is kept, nothing known is forgotten, and the colour and state
    of a returned instruction are known afterwards.  Colours known are below
    [ncol]; colour 0 is always known. *)
Record pure_base {B : Type} (get : B -> slot -> outcome (option instr) * B)
  (bf : slot -> outcome (option instr)) (inv : B -> Prop)
  (ks : B -> state -> Prop) (kc : B -> colour -> Prop) (ncol : N) : Prop := mkPB {
  pb_zero : forall b, inv b -> kc b 0;
  pb_lt : forall b c, inv b -> kc b c -> c < ncol;
  pb_step : forall b st co, inv b -> ks b st -> kc b co ->
     fst (get b (st, co)) = bf (st, co) /\
     inv (snd (get b (st, co))) /\
     (forall s, ks b s -> ks (snd (get b (st, co))) s) /\
     (forall c, kc b c -> kc (snd (get b (st, co))) c) /\
     (forall c sh ns, bf (st, co) = Ok (Some (c, sh, ns)) ->
        kc (snd (get b (st, co))) c /\ ks (snd (get b (st, co))) ns) }.

Lemma mt_set_length l : forall i v, length (mt_set l i v) = length l.
Proof.
  induction l as [|x l IH]; intros i v; [reflexivity|].
  cbn [mt_set]. destruct (i =? 0); cbn [length]; [reflexivity|]. rewrite IH. reflexivity.
Qed.

Lemma mt_set_Forall (Q : colour -> Prop) l : forall i v, Forall Q l -> Q v -> Forall Q (mt_set l i v).
Proof.
  induction l as [|x l IH]; intros i v Hl Hv; [constructor|].
  inversion Hl; subst. cbn [mt_set]. destruct (i =? 0); constructor; auto.
Qed.

Lemma mt_nth_In l : forall i v, mt_nth l i = Some v -> In v l.
Proof.
  induction l as [|x l IH]; intros i v H; cbn [mt_nth] in H; [discriminate|].
  destruct (i =? 0); [inversion H; left; reflexivity|right; eapply IH; exact H].
Qed.

Definition swinv (Q : colour -> Prop) (n : nat) (r : sweep_res) : Prop :=
  match r with
  | SwCont tp _ | SwExit _ tp => Forall Q tp /\ length tp = n
  | SwPanic => True
  end.

Lemma sweep_right_inv (Q : colour -> Prop) n cells scan color : Q color -> forall fuel tp pos,
  Forall Q tp -> length tp = n -> swinv Q n (sweep_right fuel cells scan color tp pos).
Proof.
  intros Hc. induction fuel as [|f IH]; intros tp pos Ht Hl; cbn [sweep_right]; [exact I|].
  destruct (mt_nth tp pos) as [v|]; [|exact I].
  destruct (v =? scan); [|split; assumption].
  destruct (cells <=? pos + 1).
  - split; [apply mt_set_Forall; assumption|rewrite mt_set_length; exact Hl].
  - apply IH; [apply mt_set_Forall; assumption|rewrite mt_set_length; exact Hl].
Qed.

Lemma sweep_left_inv (Q : colour -> Prop) n scan color : Q color -> forall fuel tp pos,
  Forall Q tp -> length tp = n -> swinv Q n (sweep_left fuel scan color tp pos).
Proof.
  intros Hc. induction fuel as [|f IH]; intros tp pos Ht Hl; cbn [sweep_left]; [exact I|].
  destruct (mt_nth tp pos) as [v|]; [|exact I].
  destruct (v =? scan); [|split; assumption].
  destruct (pos =? 0).
  - split; [apply mt_set_Forall; assumption|rewrite mt_set_length; exact Hl].
  - apply IH; [apply mt_set_Forall; assumption|rewrite mt_set_length; exact Hl].
Qed.

Section Sim.
  Context {B : Type} (get : B -> slot -> outcome (option instr) * B)
          (bf : slot -> outcome (option instr)) (inv : B -> Prop)
          (ks : B -> state -> Prop) (kc : B -> colour -> Prop) (ncol : N).
  Hypothesis HB : pure_base get bf inv ks kc ncol.

  (** nothing known in [b] is forgotten in [b'] *)
  Definition ext (b b' : B) : Prop :=
    (forall s, ks b s -> ks b' s) /\ (forall c, kc b c -> kc b' c).

  Lemma ext_refl b : ext b b.
  Proof. split; auto. Qed.
  Lemma ext_trans b1 b2 b3 : ext b1 b2 -> ext b2 b3 -> ext b1 b3.
  Proof. intros [A1 A2] [B1 B2]. split; auto. Qed.

  Definition sinv (b0 : B) (n : nat) (s : simst B) : Prop :=
    inv (si_base s) /\ ext b0 (si_base s) /\ ks (si_base s) (si_state s) /\
    Forall (kc (si_base s)) (si_tape s) /\ length (si_tape s) = n.
  Definition xinv (b0 : B) (n : nat) (x : sim_exit B) : Prop :=
    match x with
    | SxNone b | SxPanic b => inv b /\ ext b0 b
    | SxSide side st tp b => inv b /\ ext b0 b /\ ks b st /\ Forall (kc b) tp /\ length tp = n
    end.
  Definition rinv (b0 : B) (n : nat) (r : simst B + sim_exit B) : Prop :=
    match r with inl s => sinv b0 n s | inr x => xinv b0 n x end.

  Definition er_s (s : simst B) : simst unit := mkSim (si_state s) (si_tape s) (si_pos s) tt.
  Definition er_x (x : sim_exit B) : sim_exit unit :=
    match x with
    | SxNone _ => SxNone tt
    | SxSide side st tp _ => SxSide side st tp tt
    | SxPanic _ => SxPanic tt
    end.
  Definition er_r (r : simst B + sim_exit B) : simst unit + sim_exit unit :=
    match r with inl s => inl (er_s s) | inr x => inr (er_x x) end.

  Ltac fin_sim :=
    split; [reflexivity|]; cbn [rinv sinv xinv si_base si_state si_tape];
    first [ split; [eassumption|split; [eassumption|split; [eassumption|split; eassumption]]]
          | split; eassumption ].

  Lemma sim_body_er b0 n cells s : sinv b0 n s ->
    er_r (sim_body B get cells s) = sim_body unit (pbase bf) cells (er_s s) /\
    rinv b0 n (sim_body B get cells s).
  Proof.
    intros (Hi & He & Hs & Ht & Hl). unfold sim_body. cbn [er_s si_state si_tape si_pos si_base].
    destruct (mt_nth (si_tape s) (si_pos s)) as [scan|] eqn:En.
    2:{ split; [reflexivity|]. split; assumption. }
    assert (Hsc : kc (si_base s) scan).
    { apply mt_nth_In in En. rewrite Forall_forall in Ht. apply Ht. exact En. }
    destruct (pb_step _ _ _ _ _ _ HB (si_base s) (si_state s) scan Hi Hs Hsc) as (E1 & I1 & S1 & C1 & O1).
    destruct (get (si_base s) (si_state s, scan)) as [r b'] eqn:Eg. cbn [fst snd] in *. subst r.
    unfold pbase.
    assert (He' : ext b0 b') by (eapply ext_trans; [exact He|split; assumption]).
    assert (Ht' : Forall (kc b') (si_tape s)) by (eapply Forall_impl; [exact C1|exact Ht]).
    destruct (bf (si_state s, scan)) as [|[[[color sh] ns]|]] eqn:Ebf.
    - split; [reflexivity|]. split; assumption.
    - destruct (O1 color sh ns eq_refl) as [Kc Ks].
      assert (Hset : Forall (kc b') (mt_set (si_tape s) (si_pos s) color))
        by (apply mt_set_Forall; assumption).
      assert (Hlen : length (mt_set (si_tape s) (si_pos s) color) = n)
        by (rewrite mt_set_length; exact Hl).
      assert (Hs' : ks b' (si_state s)) by (apply S1; exact Hs).
      destruct (negb (ns =? si_state s)).
      + destruct sh.
        * destruct (cells <=? si_pos s + 1); fin_sim.
        * destruct (si_pos s =? 0); fin_sim.
      + assert (Hsw : swinv (kc b') n
                  (if sh then sweep_right (S (length (si_tape s))) cells scan color (si_tape s) (si_pos s)
                   else sweep_left (S (length (si_tape s))) scan color (si_tape s) (si_pos s))).
        { destruct sh; [apply sweep_right_inv|apply sweep_left_inv]; assumption. }
        destruct (if sh then sweep_right (S (length (si_tape s))) cells scan color (si_tape s) (si_pos s)
                  else sweep_left (S (length (si_tape s))) scan color (si_tape s) (si_pos s))
          as [tp' pos'|side tp'|]; cbn [swinv] in Hsw.
        * destruct Hsw. fin_sim.
        * destruct Hsw. fin_sim.
        * fin_sim.
    - split; [reflexivity|]. split; assumption.
  Qed.

  Lemma iter_er b0 n cells : forall k s, sinv b0 n s ->
    er_r (iter_nat k (sim_body B get cells) s) = iter_nat k (sim_body unit (pbase bf) cells) (er_s s) /\
    rinv b0 n (iter_nat k (sim_body B get cells) s).
  Proof.
    induction k as [|k IH]; intros s Hs; [split; [reflexivity|exact Hs]|].
    cbn [iter_nat]. destruct (sim_body_er b0 n cells s Hs) as [E R].
    destruct (sim_body B get cells s) as [s'|x]; cbn [er_r rinv] in *; rewrite <- E.
    - apply IH. exact R.
    - split; [reflexivity|exact R].
  Qed.

  (** the simulator over [get] answers like the simulator over the pure base *)
  Lemma run_sim_er lg st re tp b : inv b -> ks b st -> Forall (kc b) tp ->
    fst (run_simulator B get lg (st, (re, tp)) b)
      = fst (run_simulator unit (pbase bf) lg (st, (re, tp)) tt) /\
    inv (snd (run_simulator B get lg (st, (re, tp)) b)) /\
    ext b (snd (run_simulator B get lg (st, (re, tp)) b)) /\
    (forall st' side tp',
       fst (run_simulator B get lg (st, (re, tp)) b) = Ok (Some (st', (side, tp'))) ->
       ks (snd (run_simulator B get lg (st, (re, tp)) b)) st' /\
       Forall (kc (snd (run_simulator B get lg (st, (re, tp)) b))) tp' /\
       length tp' = length tp).
  Proof.
    intros Hi Hs Ht. unfold run_simulator.
    destruct (re && (mt_len tp =? 0)).
    { cbn [fst snd]. repeat split; auto; try apply ext_refl; discriminate. }
    destruct (macro_sim_lim lg) as [|lim].
    { cbn [fst snd]. repeat split; auto; try apply ext_refl; discriminate. }
    rewrite !for_upto_iter.
    set (pos := if re then mt_len tp - 1 else 0).
    assert (H0 : sinv b (length tp) (mkSim st tp pos b)).
    { repeat split; cbn [si_base si_state si_tape]; auto. }
    destruct (iter_er b (length tp) (mt_len tp) (N.to_nat lim) _ H0) as [E R].
    change (er_s (mkSim st tp pos b)) with (mkSim st tp pos tt) in E. rewrite <- E.
    destruct (iter_nat (N.to_nat lim) (sim_body B get (mt_len tp)) (mkSim st tp pos b)) as [s|[b'|side st' tp' b'|b']];
      cbn [er_r er_x er_s rinv xinv fst snd si_base] in *.
    - destruct R as (R1 & R2 & _). repeat split; try assumption; try apply R2; discriminate.
    - destruct R as (R1 & R2). repeat split; try assumption; try apply R2; discriminate.
    - destruct R as (R1 & R2 & R3 & R4 & R5). split; [reflexivity|]. split; [exact R1|]. split; [exact R2|].
      intros st'' side' tp'' H. inversion H; subst. repeat split; assumption.
    - destruct R as (R1 & R2). repeat split; try assumption; try apply R2; discriminate.
  Qed.

  Lemma run_sim_cfg lg (cfg : mconfig) b :
    inv b -> ks b (fst cfg) -> Forall (kc b) (snd (snd cfg)) ->
    fst (run_simulator B get lg cfg b) = fst (run_simulator unit (pbase bf) lg cfg tt) /\
    inv (snd (run_simulator B get lg cfg b)) /\
    ext b (snd (run_simulator B get lg cfg b)) /\
    (forall cfg' : mconfig,
       fst (run_simulator B get lg cfg b) = Ok (Some cfg') ->
       ks (snd (run_simulator B get lg cfg b)) (fst cfg') /\
       Forall (kc (snd (run_simulator B get lg cfg b))) (snd (snd cfg')) /\
       length (snd (snd cfg')) = length (snd (snd cfg))).
  Proof.
    destruct cfg as [st [re tp]]. cbn [fst snd]. intros Hi Hs Ht.
    destruct (run_sim_er lg st re tp b Hi Hs Ht) as (A & C & D & E).
    split; [exact A|]. split; [exact C|]. split; [exact D|].
    intros [st' [side tp']] H. cbn [fst snd]. apply (E st' side tp' H).
  Qed.
End Sim.

(** ------------------------------------------------------------------ *)
(** * 5. The pure reference of a macro layer, and one layer over a pure base *)

(** deconstruct by positional [decode]: no cache *)
Definition pure_deconstruct (lg : logic) (sl : slot) : outcome mconfig :=
  let '(macro_state, macro_color) := sl in
  match lg_kind lg with
  | LkBlock =>
      Ok (macro_state / 2,
          ((macro_state mod 2) =? 1, decode (lg_base_colors lg) (lg_cells lg) macro_color))
  | LkBacksymbol =>
      if lg_backsymbols lg =? 0 then Panic else
      let backspan := decode (lg_base_colors lg) (lg_cells lg)
                             ((macro_state / 2) mod lg_backsymbols lg) in
      Ok ((macro_state / 2) / lg_backsymbols lg,
          if (macro_state mod 2) =? 1
          then (false, macro_color :: backspan)
          else (true, backspan ++ [macro_color]))
  end.

(** reconstruct by positional [encode]: no cache.  The u64 checks on the
    state arithmetic are those of the code (they are pure). *)
Definition pure_reconstruct (lg : logic) (cfg : mconfig) : outcome instr :=
  let '(st, (right_edge, tp)) := cfg in
  match lg_kind lg with
  | LkBlock =>
      obind (chk_mul_u64 2 st) (fun x =>
      obind (chk_add_u64 x (if right_edge then 0 else 1)) (fun ns =>
      Ok (encode (lg_base_colors lg) tp, right_edge, ns)))
  | LkBacksymbol =>
      let shift := negb right_edge in
      match backsymbol_split lg shift tp with
      | Panic => Panic
      | Ok (backspan, macro_color) =>
          match chk_mul_u64 st (lg_backsymbols lg) with
          | Panic => Panic
          | Ok sb =>
              obind (chk_add_u64 sb (encode (lg_base_colors lg) backspan)) (fun x =>
              obind (chk_mul_u64 2 x) (fun y =>
              obind (chk_add_u64 (if shift then 1 else 0) y) (fun ns =>
              Ok (macro_color, shift, ns))))
          end
      end
  end.

(** the configuration in which the simulator leaves the window *)
Definition gcalc_cfg (lg : logic) (bf : slot -> outcome (option instr)) (sl : slot)
  : outcome (option mconfig) :=
  match pure_deconstruct lg sl with
  | Panic => Panic
  | Ok cfg => fst (run_simulator unit (pbase bf) lg cfg tt)
  end.

(** THE PURE REFERENCE: a function of the logic (macro parameters), the
    base program's reference function and the slot alone *)
Definition gcalc (lg : logic) (bf : slot -> outcome (option instr)) (sl : slot)
  : outcome (option instr) :=
  match gcalc_cfg lg bf sl with
  | Panic => Panic
  | Ok None => Ok None
  | Ok (Some cfg') =>
      match pure_reconstruct lg cfg' with
      | Panic => Panic
      | Ok i => Ok (Some i)
      end
  end.

(** what a layer knows, given what its base knows ([KS], [KC]) *)
Definition lks (lg : logic) (KS : state -> Prop) (m : mstate) (ms : state) : Prop :=
  match lg_kind lg with
  | LkBlock => KS (ms / 2)
  | LkBacksymbol => KS ((ms / 2) / lg_backsymbols lg) /\ known m ((ms / 2) mod lg_backsymbols lg)
  end.
Definition lkc (lg : logic) (KC : colour -> Prop) (m : mstate) (mc : colour) : Prop :=
  match lg_kind lg with
  | LkBlock => known m mc
  | LkBacksymbol => KC mc
  end.
Definition lncol (lg : logic) : N :=
  match lg_kind lg with
  | LkBlock => lg_base_colors lg ^ lg_cells lg
  | LkBacksymbol => lg_base_colors lg
  end.

(** the macro colour an instruction hands out (the one a later query will
    have decoded), and the cells of the exit configuration it stands for *)
Definition out_colour (lg : logic) (i : instr) : colour :=
  match lg_kind lg with
  | LkBlock => fst (fst i)
  | LkBacksymbol => (snd i / 2) mod lg_backsymbols lg
  end.
Definition out_cells (lg : logic) (cfg : mconfig) : mtape :=
  match lg_kind lg with
  | LkBlock => snd (snd cfg)
  | LkBacksymbol =>
      match backsymbol_split lg (negb (fst (snd cfg))) (snd (snd cfg)) with
      | Ok (backspan, _) => backspan
      | Panic => []
      end
  end.

Definition memo_inv (lg : logic) (bf : slot -> outcome (option instr))
  (KS : state -> Prop) (KC : colour -> Prop) (m : mstate) : Prop :=
  forall sl i, In (sl, i) (ms_instrs m) ->
    gcalc lg bf sl = Ok (Some i) /\ lkc lg KC m (fst (fst i)) /\ lks lg KS m (snd i) /\
    (forall cfg, gcalc_cfg lg bf sl = Ok (Some cfg) ->
       c2t_get (ms_c2t m) (out_colour lg i) = Some (out_cells lg cfg)).

Definition layer_inv (lg : logic) (bf : slot -> outcome (option instr))
  (KS : state -> Prop) (KC : colour -> Prop) (m : mstate) : Prop :=
  conv_inv KC lg m /\ memo_inv lg bf KS KC m.

(** the simulator leaves the window on the left: the [split_at(cells - 1)]
    branch of [BacksymbolLogic::reconstruct_outputs] *)
Definition left_exit (lg : logic) (bf : slot -> outcome (option instr)) (sl : slot) : Prop :=
  exists st tp, gcalc_cfg lg bf sl = Ok (Some (st, (false, tp))).

(** a query that cannot poison the caches *)
Definition layer_good (lg : logic) (bf : slot -> outcome (option instr)) (sl : slot) : Prop :=
  lg_kind lg = LkBlock \/ lg_split_fix lg = true \/ ~ left_exit lg bf sl.

Lemma lks_mono lg (KS KS' : state -> Prop) m m' s :
  (forall s, KS s -> KS' s) -> (forall c, known m c -> known m' c) ->
  lks lg KS m s -> lks lg KS' m' s.
Proof. unfold lks. intros H1 H2. destruct (lg_kind lg); [apply H1|]. intros [A C]. split; auto. Qed.

Lemma lkc_mono lg (KC KC' : colour -> Prop) m m' c :
  (forall c, KC c -> KC' c) -> (forall c, known m c -> known m' c) ->
  lkc lg KC m c -> lkc lg KC' m' c.
Proof. unfold lkc. intros H1 H2. destruct (lg_kind lg); auto. Qed.

Lemma memo_inv_mono lg bf (KS KS' : state -> Prop) (KC KC' : colour -> Prop) m m' :
  (forall s, KS s -> KS' s) -> (forall c, KC c -> KC' c) ->
  stable m m' -> ms_instrs m' = ms_instrs m ->
  memo_inv lg bf KS KC m -> memo_inv lg bf KS' KC' m'.
Proof.
  intros H1 H2 H3 H4 H sl i Hin. rewrite H4 in Hin. destruct (H sl i Hin) as (A & C & D & E).
  pose proof (stable_known _ _ H3) as H3'.
  split; [exact A|]. split; [eapply lkc_mono; eassumption|]. split; [eapply lks_mono; eassumption|].
  intros cfg Hcfg. apply H3. apply E. exact Hcfg.
Qed.

Lemma chk_u64_inv n x : chk_u64 n = Ok x -> x = n /\ n <= u64_max.
Proof.
  unfold chk_u64. destruct (N.leb_spec n u64_max) as [Hle|Hgt]; [|discriminate].
  intros E. injection E as E. split; [symmetry; exact E|exact Hle].
Qed.

Lemma half_bit b x : b <= 1 -> (b + 2 * x) / 2 = x.
Proof.
  intros Hb. rewrite (N.mul_comm 2 x), N.div_add by discriminate.
  rewrite (N.div_small b 2) by lia. reflexivity.
Qed.

Lemma firstn_Forall {A} (Q : A -> Prop) n (l : list A) : Forall Q l -> Forall Q (firstn n l).
Proof.
  intros H. revert n. induction H as [|x l Hx Hl IH]; intros [|n]; cbn [firstn]; constructor; auto.
Qed.

Section Layer.
  Context {B : Type} (get : B -> slot -> outcome (option instr) * B)
          (bf : slot -> outcome (option instr)) (inv : B -> Prop)
          (ks : B -> state -> Prop) (kc : B -> colour -> Prop).
  Variable lg : logic.
  Hypothesis HB : pure_base get bf inv ks kc (lg_base_colors lg).
  Hypothesis Hwf : logic_wf lg.

  (** length of the simulator's window *)
  Definition tape_len : nat :=
    match lg_kind lg with
    | LkBlock => N.to_nat (lg_cells lg)
    | LkBacksymbol => S (N.to_nat (lg_cells lg))
    end.

  Lemma kc_lt b : inv b -> forall c, kc b c -> c < lg_base_colors lg.
  Proof. intros Hi c Hc. eapply pb_lt; eassumption. Qed.

  Lemma bk_pos : lg_kind lg = LkBacksymbol -> 1 <= lg_backsymbols lg.
  Proof. destruct Hwf as (Hbc & _ & Hbk). intros E. rewrite (Hbk E). apply pow_ge_1. exact Hbc. Qed.

  (** deconstruct_inputs on a known slot is the positional decode *)
  Lemma deconstruct_ok m b ms mc :
    inv b -> conv_inv (kc b) lg m -> lks lg (ks b) m ms -> lkc lg (kc b) m mc ->
    deconstruct_inputs lg m (ms, mc) = pure_deconstruct lg (ms, mc) /\
    exists cfg : mconfig, pure_deconstruct lg (ms, mc) = Ok cfg /\
      ks b (fst cfg) /\ Forall (kc b) (snd (snd cfg)) /\ length (snd (snd cfg)) = tape_len.
  Proof.
    intros Hi Hc Hs Hk. unfold deconstruct_inputs, pure_deconstruct, lks, lkc, tape_len in *.
    destruct (lg_kind lg) eqn:Ek.
    - unfold block_deconstruct_inputs, color_to_tape. destruct Hk as [tp Hg]. rewrite Hg. cbn [obind].
      destruct (conv_c2t_decode (kc b) lg (kc_lt b Hi) m mc tp Hc Hg) as (Ed & [Hl Hf] & _).
      rewrite <- Ed. split; [reflexivity|]. exists (ms / 2, (ms mod 2 =? 1, tp)).
      cbn [fst snd]. split; [reflexivity|]. split; [exact Hs|]. split; [exact Hf|].
      unfold mt_len in Hl. rewrite <- Hl. rewrite Nat2N.id. reflexivity.
    - unfold backsymbol_deconstruct_inputs, color_to_tape. destruct Hs as [Hs [tp Hg]].
      pose proof (bk_pos Ek) as Hbk.
      destruct (N.eqb_spec (lg_backsymbols lg) 0) as [E0|_]; [lia|].
      rewrite Hg. cbn [obind].
      destruct (conv_c2t_decode (kc b) lg (kc_lt b Hi) m _ tp Hc Hg) as (Ed & [Hl Hf] & _).
      rewrite <- Ed. split; [reflexivity|].
      assert (Hlen : length tp = N.to_nat (lg_cells lg)).
      { unfold mt_len in Hl. rewrite <- Hl. rewrite Nat2N.id. reflexivity. }
      destruct (ms mod 2 =? 1).
      + exists (ms / 2 / lg_backsymbols lg, (false, mc :: tp)). cbn [fst snd]. split; [reflexivity|].
        split; [exact Hs|]. split; [constructor; assumption|]. cbn [length]. rewrite Hlen. reflexivity.
      + exists (ms / 2 / lg_backsymbols lg, (true, tp ++ [mc])). cbn [fst snd]. split; [reflexivity|].
        split; [exact Hs|]. split; [apply Forall_app; split; [exact Hf|constructor; [exact Hk|constructor]]|].
        rewrite app_length. cbn [length]. rewrite Hlen. lia.
  Qed.

  (** reconstruct_outputs always returns what the positional encode gives,
      and never forgets a colour *)
  Lemma reconstruct_val m b (cfg : mconfig) :
    inv b -> conv_inv (kc b) lg m -> Forall (kc b) (snd (snd cfg)) -> length (snd (snd cfg)) = tape_len ->
    fst (reconstruct_outputs lg m cfg) = pure_reconstruct lg cfg /\
    (forall c, known m c -> known (snd (reconstruct_outputs lg m cfg)) c) /\
    ms_instrs (snd (reconstruct_outputs lg m cfg)) = ms_instrs m.
  Proof.
    destruct cfg as [st [side tp]]. cbn [fst snd].
    intros Hi Hc Hf Hl. unfold reconstruct_outputs, pure_reconstruct, tape_len in *.
    destruct (lg_kind lg) eqn:Ek.
    - unfold block_reconstruct_outputs.
      assert (Hw : wf_tape (kc b) (lg_cells lg) tp).
      { split; [|exact Hf]. unfold mt_len. rewrite Hl. apply N2Nat.id. }
      pose proof (tape_to_color_wf (kc b) lg Hwf (kc_lt b Hi) m tp Hc Hw) as (Ev & _ & _).
      pose proof (tape_to_color_known (lg_base_colors lg) m tp) as Hkn.
      pose proof (tape_to_color_memo (lg_base_colors lg) m tp) as Hmm.
      destruct (tape_to_color (lg_base_colors lg) m tp) as [rc m']. cbn [fst snd] in *. subst rc.
      cbn [fst snd]. split; [reflexivity|]. split; assumption.
    - unfold backsymbol_reconstruct_outputs.
      destruct (backsymbol_split lg (negb side) tp) as [|[backspan mcol]] eqn:Esp.
      { cbn [fst snd]. split; [reflexivity|]. split; [auto|reflexivity]. }
      destruct (chk_mul_u64 st (lg_backsymbols lg)) as [|sb].
      { cbn [fst snd]. split; [reflexivity|]. split; [auto|reflexivity]. }
      assert (Hbs : cells_lt (lg_base_colors lg) backspan /\ mt_len backspan <= lg_cells lg).
      { assert (Hlt : cells_lt (lg_base_colors lg) tp).
        { eapply Forall_impl; [apply (kc_lt b Hi)|exact Hf]. }
        unfold backsymbol_split in Esp. destruct (negb side).
        - destruct (if lg_split_fix lg then Ok (lg_cells lg)
                    else if lg_cells lg =? 0 then Panic else Ok (lg_cells lg - 1)) as [|mid] eqn:Emid;
            [discriminate|]. cbn [obind] in Esp.
          destruct (mt_len tp <? mid); [discriminate|].
          destruct (mt_drop mid tp); [discriminate|]. inversion Esp; subst.
          split; [apply firstn_Forall; exact Hlt|].
          unfold mt_len, mt_take. rewrite firstn_length, Hl.
          destruct (lg_split_fix lg); [inversion Emid; subst; lia|].
          destruct (lg_cells lg =? 0); [discriminate|]. inversion Emid; subst. lia.
        - destruct tp as [|c rest]; [discriminate|]. inversion Esp; subst.
          split; [inversion Hlt; assumption|]. unfold mt_len. cbn [length] in Hl. lia. }
      destruct Hbs as [Hb1 Hb2].
      pose proof (tape_to_color_val (kc b) lg Hwf m backspan Hc Hb1 Hb2) as Ev.
      pose proof (tape_to_color_known (lg_base_colors lg) m backspan) as Hkn.
      pose proof (tape_to_color_memo (lg_base_colors lg) m backspan) as Hmm.
      destruct (tape_to_color (lg_base_colors lg) m backspan) as [rc m']. cbn [fst snd] in *. subst rc.
      cbn [fst snd]. split; [reflexivity|]. split; assumption.
  Qed.

  Lemma split_spec shift tp bs mcol :
    backsymbol_split lg shift tp = Ok (bs, mcol) -> length tp = S (N.to_nat (lg_cells lg)) ->
    In mcol tp /\ (forall Q : colour -> Prop, Forall Q tp -> Forall Q bs) /\
    (shift = false \/ lg_split_fix lg = true -> length bs = N.to_nat (lg_cells lg)).
  Proof.
    intros Esp Hl. unfold backsymbol_split in Esp. destruct shift.
    - destruct (if lg_split_fix lg then Ok (lg_cells lg)
                else if lg_cells lg =? 0 then Panic else Ok (lg_cells lg - 1)) as [|mid] eqn:Emid;
        [discriminate|]. cbn [obind] in Esp.
      destruct (mt_len tp <? mid); [discriminate|].
      destruct (mt_drop mid tp) as [|c rest] eqn:Edrop; [discriminate|]. inversion Esp; subst.
      split; [|split].
      + unfold mt_drop in Edrop. rewrite <- (firstn_skipn (N.to_nat mid) tp), Edrop.
        apply in_or_app. right. left. reflexivity.
      + intros Q HQ. apply firstn_Forall. exact HQ.
      + intros [E|E]; [discriminate|]. rewrite E in Emid. inversion Emid; subst.
        unfold mt_take. rewrite firstn_length, Hl. lia.
    - destruct tp as [|c rest]; [discriminate|]. inversion Esp; subst.
      split; [left; reflexivity|]. split.
      + intros Q HQ. inversion HQ; assumption.
      + intros _. cbn [length] in Hl. lia.
  Qed.

  (** a reconstruct that hands a full-width tape to the converter keeps the
      invariant and makes the handed-out colour decode to the exit cells *)
  Lemma reconstruct_good m b (cfg : mconfig) :
    inv b -> conv_inv (kc b) lg m -> ks b (fst cfg) -> Forall (kc b) (snd (snd cfg)) ->
    length (snd (snd cfg)) = tape_len ->
    (lg_kind lg = LkBlock \/ lg_split_fix lg = true \/ fst (snd cfg) = true) ->
    conv_inv (kc b) lg (snd (reconstruct_outputs lg m cfg)) /\
    stable m (snd (reconstruct_outputs lg m cfg)) /\
    forall i, pure_reconstruct lg cfg = Ok i ->
      lkc lg (kc b) (snd (reconstruct_outputs lg m cfg)) (fst (fst i)) /\
      lks lg (ks b) (snd (reconstruct_outputs lg m cfg)) (snd i) /\
      c2t_get (ms_c2t (snd (reconstruct_outputs lg m cfg))) (out_colour lg i)
        = Some (out_cells lg cfg).
  Proof.
    destruct cfg as [st [side tp]]. cbn [fst snd].
    intros Hi Hc Hs Hf Hl Hgood.
    unfold reconstruct_outputs, pure_reconstruct, tape_len, lkc, lks, out_colour, out_cells in *.
    destruct (lg_kind lg) eqn:Ek.
    - unfold block_reconstruct_outputs.
      assert (Hw : wf_tape (kc b) (lg_cells lg) tp).
      { split; [|exact Hf]. unfold mt_len. rewrite Hl. apply N2Nat.id. }
      pose proof (tape_to_color_wf (kc b) lg Hwf (kc_lt b Hi) m tp Hc Hw) as (Ev & Hc' & Hg & Hst).
      destruct (tape_to_color (lg_base_colors lg) m tp) as [rc m']. cbn [fst snd] in *. subst rc.
      cbn [fst snd]. split; [exact Hc'|]. split; [exact Hst|].
      intros i Hi'. destruct (chk_mul_u64 2 st) as [|x] eqn:E1; [discriminate|]. cbn [obind] in Hi'.
      destruct (chk_add_u64 x (if side then 0 else 1)) as [|ns] eqn:E2; [discriminate|]. cbn [obind] in Hi'.
      inversion Hi'; subst i. cbn [fst snd].
      split; [exists tp; exact Hg|]. split; [|exact Hg].
      apply chk_u64_inv in E1. destruct E1 as [-> _]. apply chk_u64_inv in E2. destruct E2 as [-> _].
      replace ((2 * st + (if side then 0 else 1)) / 2) with st; [exact Hs|].
      symmetry. rewrite N.add_comm. apply half_bit. destruct side; lia.
    - unfold backsymbol_reconstruct_outputs. cbn [fst snd].
      destruct (backsymbol_split lg (negb side) tp) as [|[backspan mcol]] eqn:Esp.
      { cbn [snd]. split; [exact Hc|]. split; [apply stable_refl|]. intros i Hi'. discriminate. }
      destruct (chk_mul_u64 st (lg_backsymbols lg)) as [|sb] eqn:E0.
      { cbn [snd]. split; [exact Hc|]. split; [apply stable_refl|]. intros i Hi'. discriminate. }
      destruct (split_spec _ _ _ _ Esp Hl) as (Hin & HQ & Hlen).
      assert (Hw : wf_tape (kc b) (lg_cells lg) backspan).
      { split; [|apply HQ; exact Hf]. unfold mt_len. rewrite Hlen; [apply N2Nat.id|].
        destruct Hgood as [E|[E|E]]; [congruence|right; exact E|left; subst side; reflexivity]. }
      pose proof (tape_to_color_wf (kc b) lg Hwf (kc_lt b Hi) m backspan Hc Hw) as (Ev & Hc' & Hg & Hst).
      destruct (tape_to_color (lg_base_colors lg) m backspan) as [rc m']. cbn [fst snd] in *. subst rc.
      cbn [fst snd]. split; [exact Hc'|]. split; [exact Hst|].
      intros i Hi'.
      destruct (chk_add_u64 sb (encode (lg_base_colors lg) backspan)) as [|x] eqn:E1; [discriminate|]. cbn [obind] in Hi'.
      destruct (chk_mul_u64 2 x) as [|y] eqn:E2; [discriminate|]. cbn [obind] in Hi'.
      destruct (chk_add_u64 (if negb side then 1 else 0) y) as [|ns] eqn:E3; [discriminate|]. cbn [obind] in Hi'.
      inversion Hi'; subst i. cbn [fst snd].
      apply chk_u64_inv in E0. destruct E0 as [-> _]. apply chk_u64_inv in E1. destruct E1 as [-> _].
      apply chk_u64_inv in E2. destruct E2 as [-> _]. apply chk_u64_inv in E3. destruct E3 as [-> _].
      assert (Hbk : lg_backsymbols lg = lg_base_colors lg ^ lg_cells lg) by (apply Hwf; exact Ek).
      assert (He : encode (lg_base_colors lg) backspan < lg_backsymbols lg).
      { rewrite Hbk. apply encode_bound; [apply Hw|]. eapply wf_cells_lt; [apply (kc_lt b Hi)|exact Hw]. }
      assert (Hhalf : ((if negb side then 1 else 0) + 2 * (st * lg_backsymbols lg + encode (lg_base_colors lg) backspan)) / 2
                      = st * lg_backsymbols lg + encode (lg_base_colors lg) backspan).
      { apply half_bit. destruct (negb side); lia. }
      rewrite Hhalf.
      assert (Hbk0 : lg_backsymbols lg <> 0) by lia.
      rewrite N.div_add_l by exact Hbk0. rewrite (N.div_small _ _ He), N.add_0_r.
      rewrite (N.add_comm (st * lg_backsymbols lg)), N.mod_add by exact Hbk0. rewrite (N.mod_small _ _ He).
      split; [rewrite Forall_forall in Hf; apply Hf; exact Hin|].
      split; [split; [exact Hs|exists backspan; exact Hg]|exact Hg].
  Qed.

  Lemma layer_inv_mono (b b' : B) m m' :
    ext ks kc b b' -> conv_inv (kc b') lg m' -> stable m m' -> ms_instrs m' = ms_instrs m ->
    layer_inv lg bf (ks b) (kc b) m -> layer_inv lg bf (ks b') (kc b') m'.
  Proof.
    intros [E1 E2] Hc Hst Hm [_ Hmemo]. split; [exact Hc|].
    eapply memo_inv_mono; eassumption.
  Qed.

  (** ONE LAYER: a query whose state and colour are known is answered by the
      pure reference [gcalc]; the base keeps its invariant; no colour is
      forgotten; and unless the query takes the faithful backsymbol logic's
      [split_at(cells - 1)] branch, the layer invariant is kept and the
      colour handed out decodes to the cells that produced it *)
  Lemma layer_step m b ms mc :
    inv b -> layer_inv lg bf (ks b) (kc b) m -> lks lg (ks b) m ms -> lkc lg (kc b) m mc ->
    fst (macro_get_instr B get lg (m, b) (ms, mc)) = gcalc lg bf (ms, mc) /\
    inv (snd (snd (macro_get_instr B get lg (m, b) (ms, mc)))) /\
    ext ks kc b (snd (snd (macro_get_instr B get lg (m, b) (ms, mc)))) /\
    (forall c, known m c -> known (fst (snd (macro_get_instr B get lg (m, b) (ms, mc)))) c) /\
    (layer_good lg bf (ms, mc) ->
       layer_inv lg bf (ks (snd (snd (macro_get_instr B get lg (m, b) (ms, mc)))))
                       (kc (snd (snd (macro_get_instr B get lg (m, b) (ms, mc)))))
                       (fst (snd (macro_get_instr B get lg (m, b) (ms, mc)))) /\
       stable m (fst (snd (macro_get_instr B get lg (m, b) (ms, mc)))) /\
       forall i, gcalc lg bf (ms, mc) = Ok (Some i) ->
         lkc lg (kc (snd (snd (macro_get_instr B get lg (m, b) (ms, mc)))))
                (fst (snd (macro_get_instr B get lg (m, b) (ms, mc)))) (fst (fst i)) /\
         lks lg (ks (snd (snd (macro_get_instr B get lg (m, b) (ms, mc)))))
                (fst (snd (macro_get_instr B get lg (m, b) (ms, mc)))) (snd i) /\
         forall cfg, gcalc_cfg lg bf (ms, mc) = Ok (Some cfg) ->
           c2t_get (ms_c2t (fst (snd (macro_get_instr B get lg (m, b) (ms, mc))))) (out_colour lg i)
             = Some (out_cells lg cfg)).
  Proof.
    intros Hi [Hc Hmemo] Hs Hk. unfold macro_get_instr. cbn [fst].
    destruct (cp_get (ms_instrs m) (ms, mc)) as [i|] eqn:Em.
    - apply cp_get_In in Em. destruct (Hmemo _ _ Em) as (A & C & D & E). cbn [fst snd].
      split; [symmetry; exact A|]. split; [exact Hi|]. split; [apply ext_refl|]. split; [auto|].
      intros _. split; [split; assumption|]. split; [apply stable_refl|].
      intros i' Hi'. rewrite A in Hi'. inversion Hi'; subst i'. split; [exact C|]. split; [exact D|exact E].
    - unfold macro_calculate_instr.
      destruct (deconstruct_ok m b ms mc Hi Hc Hs Hk) as (Ed & cfg0 & Ep & Hks & Hf & Hl).
      rewrite Ed, Ep.
      destruct (run_sim_cfg get bf inv ks kc _ HB lg cfg0 b Hi Hks Hf) as (Er & Hi' & Hext & Hout).
      assert (Hcfg : gcalc_cfg lg bf (ms, mc) = fst (run_simulator B get lg cfg0 b)).
      { unfold gcalc_cfg. rewrite Ep. symmetry. exact Er. }
      revert Er Hi' Hext Hout Hcfg.
      destruct (run_simulator B get lg cfg0 b) as [r b']. cbn [fst snd].
      intros Er Hi' Hext Hout Hcfg.
      unfold gcalc. rewrite Hcfg.
      pose proof Hext as [Hext1 Hext2].
      assert (Hc' : conv_inv (kc b') lg m) by (eapply conv_inv_mono; [exact Hext2|exact Hc]).
      assert (Hinv' : layer_inv lg bf (ks b') (kc b') m).
      { eapply layer_inv_mono; [exact Hext|exact Hc'|apply stable_refl|reflexivity|split; assumption]. }
      destruct r as [|[cfg'|]].
      + cbn [fst snd]. split; [reflexivity|]. split; [exact Hi'|]. split; [exact Hext|]. split; [auto|].
        intros _. split; [exact Hinv'|]. split; [apply stable_refl|]. intros i Hdis. discriminate.
      + destruct (Hout cfg' eq_refl) as (Hks' & Hf' & Hl').
        rewrite Hl in Hl'.
        pose proof (reconstruct_val m b' cfg' Hi' Hc' Hf' Hl') as (Ev & Hkn & Hmm).
        pose proof (reconstruct_good m b' cfg' Hi' Hc' Hks' Hf' Hl') as Hgd.
        revert Ev Hkn Hmm Hgd.
        destruct (reconstruct_outputs lg m cfg') as [ri m1]. cbn [fst snd].
        intros Ev Hkn Hmm Hgd. subst ri.
        assert (Hside : layer_good lg bf (ms, mc) ->
                        lg_kind lg = LkBlock \/ lg_split_fix lg = true \/ fst (snd cfg') = true).
        { intros [G|[G|G]]; [left; exact G|right; left; exact G|]. right. right.
          destruct cfg' as [st' [[|] tp']]; [reflexivity|]. exfalso. apply G. exists st', tp'. exact Hcfg. }
        destruct (pure_reconstruct lg cfg') as [|i] eqn:Epr.
        * cbn [fst snd]. split; [reflexivity|]. split; [exact Hi'|]. split; [exact Hext|]. split; [exact Hkn|].
          intros G. destruct (Hgd (Hside G)) as (Hc1 & Hst1 & _).
          split; [|split; [exact Hst1|intros i Hdis; discriminate]].
          eapply layer_inv_mono; [apply ext_refl|exact Hc1|exact Hst1|exact Hmm|exact Hinv'].
        * cbn [fst snd]. split; [reflexivity|]. split; [exact Hi'|]. split; [exact Hext|].
          split; [intros c Hc0; destruct (Hkn c Hc0) as [tp0 Htp0]; exists tp0; exact Htp0|].
          intros G. destruct (Hgd (Hside G)) as (Hc1 & Hst1 & Hout1).
          destruct (Hout1 i eq_refl) as (O1 & O2 & O3).
          assert (Hinv1 : layer_inv lg bf (ks b') (kc b') m1).
          { eapply layer_inv_mono; [apply ext_refl|exact Hc1|exact Hst1|exact Hmm|exact Hinv']. }
          split; [|split; [exact Hst1|]].
          -- split; [exact Hc1|]. intros sl' i' Hin. cbn [ms_instrs] in Hin.
             apply cp_insert_In in Hin. destruct Hin as [E|Hin].
             ++ inversion E; subst sl' i'. split; [unfold gcalc; rewrite Hcfg, Epr; reflexivity|].
                split; [exact O1|]. split; [exact O2|].
                intros cfg Hcfg'. rewrite Hcfg in Hcfg'. inversion Hcfg'; subst cfg. exact O3.
             ++ apply (proj2 Hinv1). exact Hin.
          -- intros i' Hi''. inversion Hi''; subst i'. split; [exact O1|]. split; [exact O2|].
             intros cfg Hcfg'. inversion Hcfg'; subst cfg. exact O3.
      + cbn [fst snd]. split; [reflexivity|]. split; [exact Hi'|]. split; [exact Hext|]. split; [auto|].
        intros _. split; [exact Hinv'|]. split; [apply stable_refl|]. intros i Hdis. discriminate.
  Qed.
End Layer.

(** ------------------------------------------------------------------ *)
(** * 6. Stacks of layers over a plain table ([stack_get]) *)

(** the table writes only colours below [bc] (it is a program on [bc] colours) *)
Definition plain_ok (bc : N) (comp : comp_prog) : Prop :=
  forall sl c sh st, cp_get comp sl = Some (c, sh, st) -> c < bc.

(** the pure reference of a whole stack (outermost layer first) *)
Fixpoint stk_bf (comp : comp_prog) (lgs : list logic) : slot -> outcome (option instr) :=
  match lgs with
  | [] => fun sl => Ok (cp_get comp sl)
  | lg :: lgs' => gcalc lg (stk_bf comp lgs')
  end.

Fixpoint stk_ks (lgs : list logic) (st : list mstate) (s : state) : Prop :=
  match lgs with
  | [] => True
  | lg :: lgs' =>
      match st with [] => False | m :: rest => lks lg (stk_ks lgs' rest) m s end
  end.
Fixpoint stk_kc (bc0 : N) (lgs : list logic) (st : list mstate) (c : colour) : Prop :=
  match lgs with
  | [] => c < bc0
  | lg :: lgs' =>
      match st with [] => False | m :: rest => lkc lg (stk_kc bc0 lgs' rest) m c end
  end.
Fixpoint stk_inv (comp : comp_prog) (bc0 : N) (lgs : list logic) (st : list mstate) : Prop :=
  match lgs with
  | [] => True
  | lg :: lgs' =>
      match st with
      | [] => False
      | m :: rest =>
          stk_inv comp bc0 lgs' rest /\
          layer_inv lg (stk_bf comp lgs') (stk_ks lgs' rest) (stk_kc bc0 lgs' rest) m
      end
  end.
Definition stk_ncol (bc0 : N) (lgs : list logic) : N :=
  match lgs with [] => bc0 | lg :: _ => lncol lg end.

(** every layer is arithmetically well formed, is built on the colours of the
    layer below, and is a block layer or a REPAIRED backsymbol layer *)
Fixpoint layers_ok (bc0 : N) (lgs : list logic) : Prop :=
  match lgs with
  | [] => 1 <= bc0
  | lg :: lgs' =>
      logic_wf lg /\ lg_base_colors lg = stk_ncol bc0 lgs' /\
      (lg_kind lg = LkBlock \/ lg_split_fix lg = true) /\ layers_ok bc0 lgs'
  end.

Lemma stack_get_cons comp lg lgs m rest sl :
  stack_get comp (lg :: lgs) (m :: rest) sl =
  (fst (macro_get_instr (list mstate) (stack_get comp lgs) lg (m, rest) sl),
   fst (snd (macro_get_instr (list mstate) (stack_get comp lgs) lg (m, rest) sl))
   :: snd (snd (macro_get_instr (list mstate) (stack_get comp lgs) lg (m, rest) sl))).
Proof.
  cbn [stack_get]. destruct (macro_get_instr (list mstate) (stack_get comp lgs) lg (m, rest) sl) as [r [m' rest']].
  reflexivity.
Qed.

Lemma layer_pb_lt lg m c (KC : colour -> Prop) :
  (forall c, KC c -> c < lg_base_colors lg) ->
  conv_inv KC lg m -> lkc lg KC m c -> c < lncol lg.
Proof.
  intros Hlt Hc Hk. unfold lkc, lncol in *. destruct (lg_kind lg); [|apply Hlt; exact Hk].
  destruct Hk as [tp Hg].
  destruct (conv_c2t_decode KC lg Hlt m c tp Hc Hg) as (_ & Hw & ->).
  apply encode_bound; [apply Hw|]. eapply wf_cells_lt; [exact Hlt|exact Hw].
Qed.

(** THE STACK THEOREM: every stack of well-formed layers over a plain table
    is a pure base whose reference is [stk_bf] *)
Theorem stack_pure comp bc0 lgs :
  plain_ok bc0 comp -> layers_ok bc0 lgs ->
  pure_base (stack_get comp lgs) (stk_bf comp lgs) (stk_inv comp bc0 lgs)
            (stk_ks lgs) (stk_kc bc0 lgs) (stk_ncol bc0 lgs).
Proof.
  intros Hplain. induction lgs as [|lg lgs IH]; intros Hok.
  - cbn [layers_ok] in Hok. constructor; cbn [stk_inv stk_ks stk_kc stk_ncol stk_bf stack_get fst snd].
    + intros _ _. lia.
    + intros _ c _ H. exact H.
    + intros b st co _ _ Hco. split; [reflexivity|]. split; [exact I|]. split; [auto|]. split; [auto|].
      intros c sh ns H. inversion H as [H']. split; [|exact I]. eapply Hplain. exact H'.
  - cbn [layers_ok] in Hok. destruct Hok as (Hwf & Hcol & Hfix & Hok). specialize (IH Hok).
    rewrite <- Hcol in IH.
    assert (Hgood : forall sl, layer_good lg (stk_bf comp lgs) sl).
    { intros sl. destruct Hfix as [E|E]; [left; exact E|right; left; exact E]. }
    constructor.
    + intros [|m rest]; cbn [stk_inv stk_kc]; [intros []|]. intros [Hr [Hc _]].
      unfold lkc. destruct (lg_kind lg).
      * destruct Hc as (_ & _ & H0). eexists. exact H0.
      * eapply pb_zero; eassumption.
    + intros [|m rest] c; cbn [stk_inv stk_kc stk_ncol]; [intros []|]. intros [Hr [Hc _]] Hk.
      eapply layer_pb_lt; [|exact Hc|exact Hk].
      intros c0 Hc0. eapply pb_lt; eassumption.
    + intros [|m rest] st co; cbn [stk_inv stk_ks stk_kc]; [intros []|]. intros [Hr Hl] Hs Hk.
      rewrite stack_get_cons. cbn [fst snd stk_bf].
      pose proof (layer_step (stack_get comp lgs) (stk_bf comp lgs) (stk_inv comp bc0 lgs)
                    (stk_ks lgs) (stk_kc bc0 lgs) lg IH Hwf m rest st co Hr Hl Hs Hk) as
          (A & I' & [E1 E2] & Kn & G).
      destruct (G (Hgood _)) as (Hl' & Hst & Hout).
      revert A I' E1 E2 Kn Hl' Hst Hout.
      destruct (macro_get_instr (list mstate) (stack_get comp lgs) lg (m, rest) (st, co)) as [r [m' rest']].
      cbn [fst snd]. intros A I' E1 E2 Kn Hl' Hst Hout.
      split; [exact A|]. split; [split; assumption|].
      split; [intros s Hs0; eapply lks_mono; [exact E1|exact Kn|exact Hs0]|].
      split; [intros c Hc0; eapply lkc_mono; [exact E2|exact Kn|exact Hc0]|].
      intros c sh ns Hbf. destruct (Hout _ Hbf) as (O1 & O2 & _). split; assumption.
Qed.

Lemma stack_new_inv comp bc0 lgs :
  plain_ok bc0 comp -> layers_ok bc0 lgs -> stk_inv comp bc0 lgs (stack_new lgs).
Proof.
  intros Hplain. induction lgs as [|lg lgs IH]; intros Hok; [exact I|].
  pose proof Hok as (Hwf & Hcol & Hfix & Hok'). specialize (IH Hok').
  cbn [stack_new map stk_inv]. split; [exact IH|]. split.
  - apply conv_inv_new. eapply pb_zero; [apply stack_pure; eassumption|exact IH].
  - intros sl i [].
Qed.

(** ---- histories ---- *)
Definition run_qs (comp : comp_prog) (lgs : list logic) (st : list mstate) (qs : list slot)
  : list mstate := fold_left (fun st q => snd (stack_get comp lgs st q)) qs st.

Lemma stack_queries_snd comp lgs : forall qs st,
  snd (stack_queries comp lgs st qs) = run_qs comp lgs st qs.
Proof.
  induction qs as [|q qs IH]; intros st; [reflexivity|].
  cbn [stack_queries run_qs fold_left]. destruct (stack_get comp lgs st q) as [r st'] eqn:E.
  specialize (IH st'). destruct (stack_queries comp lgs st' qs) as [rs st'']. cbn [snd] in *.
  exact IH.
Qed.

Lemma stack_queries_cons comp lgs st q qs :
  stack_queries comp lgs st (q :: qs) =
  (fst (stack_get comp lgs st q) :: fst (stack_queries comp lgs (snd (stack_get comp lgs st q)) qs),
   snd (stack_queries comp lgs (snd (stack_get comp lgs st q)) qs)).
Proof.
  cbn [stack_queries]. destruct (stack_get comp lgs st q) as [r st']. cbn [fst snd].
  destruct (stack_queries comp lgs st' qs) as [rs st'']. reflexivity.
Qed.

(** the i-th answer of a query sequence is the answer of [stack_get] in the
    state reached by the queries before it *)
Lemma stack_queries_last comp lgs : forall qs st q,
  fst (stack_queries comp lgs st (qs ++ [q])) =
  fst (stack_queries comp lgs st qs) ++ [fst (stack_get comp lgs (run_qs comp lgs st qs) q)].
Proof.
  induction qs as [|q0 qs IH]; intros st q.
  - cbn [app]. rewrite stack_queries_cons. reflexivity.
  - cbn [app]. rewrite !stack_queries_cons. cbn [fst run_qs fold_left]. rewrite IH. reflexivity.
Qed.

(** two objects share nothing: the interleaved run is the two separate runs *)
Lemma stack_queries2_indep comp lgs : forall qa sa sb qb,
  stack_queries2 comp lgs sa sb qa qb =
  (fst (stack_queries comp lgs sa qa), fst (stack_queries comp lgs sb qb)).
Proof.
  induction qa as [|a qa IH]; intros sa sb qb; [reflexivity|].
  cbn [stack_queries2]. rewrite (stack_queries_cons comp lgs sa a qa).
  destruct (stack_get comp lgs sa a) as [ra sa']. cbn [fst snd].
  destruct qb as [|b qb].
  - destruct (stack_queries comp lgs sa' qa) as [ras x]. reflexivity.
  - rewrite (stack_queries_cons comp lgs sb b qb).
    destruct (stack_get comp lgs sb b) as [rb sb']. cbn [fst snd].
    rewrite IH. reflexivity.
Qed.

(** every query of the history is known when it is made *)
Fixpoint known_run (comp : comp_prog) (bc0 : N) (lgs : list logic) (st : list mstate)
  (qs : list slot) : Prop :=
  match qs with
  | [] => True
  | q :: qs' =>
      stk_ks lgs st (fst q) /\ stk_kc bc0 lgs st (snd q) /\
      known_run comp bc0 lgs (snd (stack_get comp lgs st q)) qs'
  end.

(** NESTED MACROS, any depth: along a history of known queries, the answer
    to a known slot is the stack's pure reference *)
Theorem stack_history_indep comp bc0 lgs :
  plain_ok bc0 comp -> layers_ok bc0 lgs ->
  forall qs st sl, stk_inv comp bc0 lgs st -> known_run comp bc0 lgs st (qs ++ [sl]) ->
  fst (stack_get comp lgs (run_qs comp lgs st qs) sl) = stk_bf comp lgs sl /\
  stk_inv comp bc0 lgs (run_qs comp lgs st qs).
Proof.
  intros Hplain Hok. pose proof (stack_pure comp bc0 lgs Hplain Hok) as HP.
  induction qs as [|q qs IH]; intros st [s c] Hinv Hk.
  - cbn [app known_run fst snd] in Hk. destruct Hk as (Hs & Hc & _). cbn [run_qs fold_left].
    split; [|exact Hinv]. apply (pb_step _ _ _ _ _ _ HP st s c Hinv Hs Hc).
  - cbn [app known_run] in Hk. destruct Hk as (Hs & Hc & Hk). cbn [run_qs fold_left].
    destruct q as [s0 c0]. cbn [fst snd] in Hs, Hc.
    apply IH; [|exact Hk]. apply (pb_step _ _ _ _ _ _ HP st s0 c0 Hinv Hs Hc).
Qed.

(** ------------------------------------------------------------------ *)
(** * 7. One macro object over a plain table: the C16 theorems *)

Definition plain_bf (comp : comp_prog) : slot -> outcome (option instr) :=
  fun sl => Ok (cp_get comp sl).

(** THE PURE REFERENCE of a macro over a table: a function of the base
    program, the macro parameters (the [logic]) and the slot alone *)
Definition calc (lg : logic) (comp : comp_prog) : slot -> outcome (option instr) :=
  gcalc lg (plain_bf comp).
Definition calc_cfg (lg : logic) (comp : comp_prog) : slot -> outcome (option mconfig) :=
  gcalc_cfg lg (plain_bf comp).

(** the invariant of a macro object's caches *)
Definition cache_inv (lg : logic) (comp : comp_prog) (m : mstate) : Prop :=
  layer_inv lg (plain_bf comp) (fun _ => True) (fun c => c < lg_base_colors lg) m.

(** the colour [deconstruct_inputs] looks up in the cache *)
Definition slot_colour (lg : logic) (sl : slot) : colour :=
  match lg_kind lg with
  | LkBlock => snd sl
  | LkBacksymbol => (fst sl / 2) mod lg_backsymbols lg
  end.
(** a backsymbol slot carries a base colour *)
Definition slot_ok (lg : logic) (sl : slot) : Prop :=
  lg_kind lg = LkBacksymbol -> snd sl < lg_base_colors lg.

Definition top_known (st : list mstate) (c : colour) : Prop :=
  match st with m :: _ => known m c | [] => False end.

Definition no_left_exit (lg : logic) (comp : comp_prog) (qs : list slot) : Prop :=
  Forall (fun q => ~ left_exit lg (plain_bf comp) q) qs.

Lemma cache_inv_stk lg comp m :
  stk_inv comp (lg_base_colors lg) [lg] [m] <-> cache_inv lg comp m.
Proof. cbn [stk_inv]. unfold cache_inv. split; [intros [_ H]; exact H|intros H; split; [exact I|exact H]]. Qed.

Theorem cache_inv_new lg comp :
  logic_wf lg -> cache_inv lg comp (mstate_new (lg_cells lg)).
Proof.
  intros (Hbc & _). split; [apply conv_inv_new; lia|]. intros sl i [].
Qed.

Theorem cache_inv_tape_to_color lg comp m tp :
  logic_wf lg -> cache_inv lg comp m ->
  wf_tape (fun c => c < lg_base_colors lg) (lg_cells lg) tp ->
  fst (tape_to_color (lg_base_colors lg) m tp) = Ok (encode (lg_base_colors lg) tp) /\
  cache_inv lg comp (snd (tape_to_color (lg_base_colors lg) m tp)) /\
  color_to_tape (snd (tape_to_color (lg_base_colors lg) m tp)) (encode (lg_base_colors lg) tp) = Ok tp.
Proof.
  intros Hwf [Hc Hm] Hw.
  destruct (tape_to_color_wf _ lg Hwf (fun c H => H) m tp Hc Hw) as (A & C & D & E).
  split; [exact A|]. split.
  - split; [exact C|]. eapply memo_inv_mono; [| |exact E|apply tape_to_color_memo|exact Hm]; auto.
  - unfold color_to_tape. rewrite D. reflexivity.
Qed.

(** an unknown colour: the query panics (or hits the memo) and changes nothing *)
Lemma unknown_unchanged {B} (get : B -> slot -> outcome (option instr) * B) lg m b q :
  c2t_get (ms_c2t m) (slot_colour lg q) = None ->
  snd (macro_get_instr B get lg (m, b) q) = (m, b).
Proof.
  intros Hn. unfold macro_get_instr. cbn [fst]. destruct (cp_get (ms_instrs m) q); [reflexivity|].
  unfold macro_calculate_instr, deconstruct_inputs, slot_colour in *. destruct q as [ms mc]. cbn [fst snd] in Hn.
  destruct (lg_kind lg).
  - unfold block_deconstruct_inputs, color_to_tape. rewrite Hn. reflexivity.
  - unfold backsymbol_deconstruct_inputs, color_to_tape.
    destruct (lg_backsymbols lg =? 0); [reflexivity|]. rewrite Hn. reflexivity.
Qed.

Lemma plain_pure bc comp : 1 <= bc -> plain_ok bc comp ->
  pure_base (stack_get comp []) (plain_bf comp) (fun b => b = []) (fun _ _ => True) (fun _ c => c < bc) bc.
Proof.
  intros Hbc Hp. constructor; cbn [stack_get fst snd].
  - intros _ _. lia.
  - intros _ c _ H. exact H.
  - intros b st co Hb _ _. split; [reflexivity|]. split; [exact Hb|]. split; [auto|]. split; [auto|].
    intros c sh ns H. unfold plain_bf in H. inversion H as [H']. split; [|exact I]. eapply Hp. exact H'.
Qed.

(** one query, known or not, on a macro object over a table *)
Lemma single_step lg comp m q :
  logic_wf lg -> plain_ok (lg_base_colors lg) comp -> cache_inv lg comp m -> slot_ok lg q ->
  exists m', snd (stack_get comp [lg] [m] q) = [m'] /\
    (forall c, known m c -> known m' c) /\
    (layer_good lg (plain_bf comp) q -> cache_inv lg comp m' /\ stable m m') /\
    (known m (slot_colour lg q) ->
       fst (stack_get comp [lg] [m] q) = calc lg comp q /\
       (layer_good lg (plain_bf comp) q -> forall i cfg,
          calc lg comp q = Ok (Some i) -> calc_cfg lg comp q = Ok (Some cfg) ->
          c2t_get (ms_c2t m') (out_colour lg i) = Some (out_cells lg cfg))).
Proof.
  intros Hwf Hp Hinv Hok. rewrite stack_get_cons. cbn [fst snd].
  destruct (c2t_get (ms_c2t m) (slot_colour lg q)) as [tp0|] eqn:Eg.
  - assert (HB := plain_pure (lg_base_colors lg) comp (proj1 Hwf) Hp).
    destruct q as [ms mc].
    assert (Hs : lks lg (fun _ => True) m ms).
    { unfold lks, slot_colour in *. cbn [fst snd] in Eg. destruct (lg_kind lg); [exact I|].
      split; [exact I|exists tp0; exact Eg]. }
    assert (Hk : lkc lg (fun c => c < lg_base_colors lg) m mc).
    { unfold lkc, slot_colour, slot_ok in *. cbn [fst snd] in Eg, Hok. destruct (lg_kind lg);
        [exists tp0; exact Eg|apply Hok; reflexivity]. }
    pose proof (layer_step (stack_get comp []) (plain_bf comp) (fun b => b = []) (fun _ _ => True)
                  (fun _ c => c < lg_base_colors lg) lg HB Hwf m [] ms mc eq_refl Hinv Hs Hk)
      as (A & Hrest & _ & Kn & G).
    revert A Hrest Kn G.
    destruct (macro_get_instr (list mstate) (stack_get comp []) lg (m, []) (ms, mc)) as [r [m' rest']].
    cbn [fst snd]. intros A Hrest Kn G.
    subst rest'. exists m'. split; [reflexivity|]. split; [exact Kn|]. split.
    + intros Gd. destruct (G Gd) as (L & S & _). split; [exact L|exact S].
    + intros _. split; [exact A|]. intros Gd i cfg Hi Hcfg. destruct (G Gd) as (_ & _ & O).
      destruct (O i Hi) as (_ & _ & O3). apply O3. exact Hcfg.
  - pose proof (unknown_unchanged (stack_get comp []) lg m [] q Eg) as Hu.
    destruct (macro_get_instr (list mstate) (stack_get comp []) lg (m, []) q) as [r [m' rest']].
    cbn [fst snd] in *. inversion Hu; subst m' rest'. exists m. split; [reflexivity|].
    split; [auto|]. split; [intros _; split; [exact Hinv|apply stable_refl]|].
    intros [tp Htp]. congruence.
Qed.

(** any history of queries none of which poisons the caches keeps the
    invariant (and every decoding ever cached) *)
Lemma single_run lg comp :
  logic_wf lg -> plain_ok (lg_base_colors lg) comp ->
  forall qs m, cache_inv lg comp m ->
  Forall (slot_ok lg) qs -> Forall (layer_good lg (plain_bf comp)) qs ->
  exists m', run_qs comp [lg] [m] qs = [m'] /\ cache_inv lg comp m' /\ stable m m'.
Proof.
  intros Hwf Hp. induction qs as [|q qs IH]; intros m Hinv Hok Hgd.
  - exists m. split; [reflexivity|]. split; [exact Hinv|apply stable_refl].
  - inversion Hok as [|q' qs' Hq Hqs]; subst. inversion Hgd as [|q' qs' Gq Gqs]; subst.
    destruct (single_step lg comp m q Hwf Hp Hinv Hq) as (m1 & E1 & _ & G1 & _).
    destruct (G1 Gq) as [Hinv1 Hst1].
    destruct (IH m1 Hinv1 Hqs Gqs) as (m' & E' & Hinv' & Hst').
    exists m'. cbn [run_qs fold_left]. rewrite E1. split; [exact E'|]. split; [exact Hinv'|].
    intros c tp H. apply Hst'. apply Hst1. exact H.
Qed.

Lemma gcalc_cfg_some lg bf sl i :
  gcalc lg bf sl = Ok (Some i) ->
  exists cfg, gcalc_cfg lg bf sl = Ok (Some cfg) /\ pure_reconstruct lg cfg = Ok i.
Proof.
  unfold gcalc. destruct (gcalc_cfg lg bf sl) as [|[cfg|]]; try discriminate.
  destruct (pure_reconstruct lg cfg) as [|i'] eqn:E; [discriminate|].
  intros H. inversion H; subst. exists cfg. split; [reflexivity|exact E].
Qed.

(** GENERAL FORM of the two C16 theorems for one macro object *)
Theorem history_indep_gen lg comp qs sl :
  logic_wf lg -> plain_ok (lg_base_colors lg) comp ->
  Forall (slot_ok lg) qs -> Forall (layer_good lg (plain_bf comp)) qs -> slot_ok lg sl ->
  top_known (run_qs comp [lg] (stack_new [lg]) qs) (slot_colour lg sl) ->
  fst (stack_get comp [lg] (run_qs comp [lg] (stack_new [lg]) qs) sl) = calc lg comp sl.
Proof.
  intros Hwf Hp Hok Hgd Hsl Hk.
  destruct (single_run lg comp Hwf Hp qs _ (cache_inv_new lg comp Hwf) Hok Hgd) as (m & E & Hinv & _).
  change (stack_new [lg]) with [mstate_new (lg_cells lg)] in *. rewrite E in *. cbn [top_known] in Hk.
  destruct (single_step lg comp m sl Hwf Hp Hinv Hsl) as (m' & _ & _ & _ & H).
  apply (H Hk).
Qed.

Theorem handed_out_gen lg comp qs sl i :
  logic_wf lg -> plain_ok (lg_base_colors lg) comp ->
  Forall (slot_ok lg) qs -> Forall (layer_good lg (plain_bf comp)) qs -> slot_ok lg sl ->
  layer_good lg (plain_bf comp) sl ->
  top_known (run_qs comp [lg] (stack_new [lg]) qs) (slot_colour lg sl) ->
  fst (stack_get comp [lg] (run_qs comp [lg] (stack_new [lg]) qs) sl) = Ok (Some i) ->
  exists m' cfg,
    snd (stack_get comp [lg] (run_qs comp [lg] (stack_new [lg]) qs) sl) = [m'] /\
    calc_cfg lg comp sl = Ok (Some cfg) /\
    color_to_tape m' (out_colour lg i) = Ok (out_cells lg cfg) /\
    out_cells lg cfg = decode (lg_base_colors lg) (lg_cells lg) (out_colour lg i) /\
    encode (lg_base_colors lg) (out_cells lg cfg) = out_colour lg i.
Proof.
  intros Hwf Hp Hok Hgd Hsl Gsl Hk Hans.
  destruct (single_run lg comp Hwf Hp qs _ (cache_inv_new lg comp Hwf) Hok Hgd) as (m & E & Hinv & _).
  change (stack_new [lg]) with [mstate_new (lg_cells lg)] in *. rewrite E in *. cbn [top_known] in Hk.
  destruct (single_step lg comp m sl Hwf Hp Hinv Hsl) as (m' & E' & _ & G & H).
  destruct (H Hk) as [A O]. rewrite A in Hans.
  destruct (gcalc_cfg_some _ _ _ _ Hans) as (cfg & Hcfg & _).
  pose proof (O Gsl i cfg Hans Hcfg) as Hget.
  destruct (G Gsl) as [[Hc' _] _].
  destruct (conv_c2t_decode _ lg (fun c H => H) m' _ _ Hc' Hget) as (Hd & _ & He).
  exists m', cfg. split; [exact E'|]. split; [exact Hcfg|]. split; [|split; [exact Hd|symmetry; exact He]].
  unfold color_to_tape. rewrite Hget. reflexivity.
Qed.

(** known colours: colour 0 on a fresh object; whatever is known stays known *)
Lemma top_known_fresh lg : top_known (stack_new [lg]) 0.
Proof. cbn [stack_new map top_known]. unfold known, mstate_new. cbn [ms_c2t c2t_get]. rewrite N.eqb_refl. eexists. reflexivity. Qed.

Lemma kind_block_good lg bf sl : lg_kind lg = LkBlock -> layer_good lg bf sl.
Proof. intros H. left. exact H. Qed.
Lemma kind_block_ok lg sl : lg_kind lg = LkBlock -> slot_ok lg sl.
Proof. intros H E. congruence. Qed.

Lemma Forall_all {A} (Q : A -> Prop) (l : list A) : (forall x, Q x) -> Forall Q l.
Proof. intros H. apply Forall_forall. intros x _. apply H. Qed.

(** ---- block logic ---- *)
Theorem history_indep_block lg comp qs sl :
  lg_kind lg = LkBlock -> logic_wf lg -> plain_ok (lg_base_colors lg) comp ->
  top_known (run_qs comp [lg] (stack_new [lg]) qs) (snd sl) ->
  fst (stack_get comp [lg] (run_qs comp [lg] (stack_new [lg]) qs) sl) = calc lg comp sl.
Proof.
  intros Hk Hwf Hp Hkn. apply history_indep_gen; try assumption.
  - apply Forall_all. intros q. apply kind_block_ok. exact Hk.
  - apply Forall_all. intros q. apply kind_block_good. exact Hk.
  - apply kind_block_ok. exact Hk.
  - unfold slot_colour. rewrite Hk. exact Hkn.
Qed.

Theorem handed_out_decodes_block lg comp qs sl c' sh ns :
  lg_kind lg = LkBlock -> logic_wf lg -> plain_ok (lg_base_colors lg) comp ->
  top_known (run_qs comp [lg] (stack_new [lg]) qs) (snd sl) ->
  fst (stack_get comp [lg] (run_qs comp [lg] (stack_new [lg]) qs) sl) = Ok (Some (c', sh, ns)) ->
  exists m' st' side tp',
    snd (stack_get comp [lg] (run_qs comp [lg] (stack_new [lg]) qs) sl) = [m'] /\
    calc_cfg lg comp sl = Ok (Some (st', (side, tp'))) /\
    color_to_tape m' c' = Ok tp' /\
    tp' = decode (lg_base_colors lg) (lg_cells lg) c' /\
    encode (lg_base_colors lg) tp' = c'.
Proof.
  intros Hk Hwf Hp Hkn Hans.
  destruct (handed_out_gen lg comp qs sl (c', sh, ns) Hwf Hp) as (m' & [st' [side tp']] & H);
    try assumption.
  - apply Forall_all. intros q. apply kind_block_ok. exact Hk.
  - apply Forall_all. intros q. apply kind_block_good. exact Hk.
  - apply kind_block_ok. exact Hk.
  - apply kind_block_good. exact Hk.
  - unfold slot_colour. rewrite Hk. exact Hkn.
  - unfold out_colour, out_cells in H. rewrite Hk in H. cbn [fst snd] in H.
    exists m', st', side, tp'. exact H.
Qed.

(** ---- backsymbol logic ---- *)
Definition back_ok (lg : logic) (qs : list slot) : Prop :=
  Forall (fun q => snd q < lg_base_colors lg) qs.

Lemma back_ok_slot_ok lg qs : back_ok lg qs -> Forall (slot_ok lg) qs.
Proof. intros H. eapply Forall_impl; [|exact H]. intros q Hq _. exact Hq. Qed.

Theorem history_indep_back_fix lg comp qs sl :
  lg_kind lg = LkBacksymbol -> lg_split_fix lg = true ->
  logic_wf lg -> plain_ok (lg_base_colors lg) comp ->
  back_ok lg qs -> snd sl < lg_base_colors lg ->
  top_known (run_qs comp [lg] (stack_new [lg]) qs) ((fst sl / 2) mod lg_backsymbols lg) ->
  fst (stack_get comp [lg] (run_qs comp [lg] (stack_new [lg]) qs) sl) = calc lg comp sl.
Proof.
  intros Hk Hfix Hwf Hp Hqs Hsl Hkn. apply history_indep_gen; try assumption.
  - apply back_ok_slot_ok. exact Hqs.
  - apply Forall_all. intros q. right. left. exact Hfix.
  - intros _. exact Hsl.
  - unfold slot_colour. rewrite Hk. exact Hkn.
Qed.

Theorem handed_out_decodes_back_fix lg comp qs sl c' sh ns :
  lg_kind lg = LkBacksymbol -> lg_split_fix lg = true ->
  logic_wf lg -> plain_ok (lg_base_colors lg) comp ->
  back_ok lg qs -> snd sl < lg_base_colors lg ->
  top_known (run_qs comp [lg] (stack_new [lg]) qs) ((fst sl / 2) mod lg_backsymbols lg) ->
  fst (stack_get comp [lg] (run_qs comp [lg] (stack_new [lg]) qs) sl) = Ok (Some (c', sh, ns)) ->
  exists m' st' side tp' backspan,
    snd (stack_get comp [lg] (run_qs comp [lg] (stack_new [lg]) qs) sl) = [m'] /\
    calc_cfg lg comp sl = Ok (Some (st', (side, tp'))) /\
    backsymbol_split lg (negb side) tp' = Ok (backspan, c') /\
    color_to_tape m' ((ns / 2) mod lg_backsymbols lg) = Ok backspan /\
    backspan = decode (lg_base_colors lg) (lg_cells lg) ((ns / 2) mod lg_backsymbols lg) /\
    encode (lg_base_colors lg) backspan = (ns / 2) mod lg_backsymbols lg.
Proof.
  intros Hk Hfix Hwf Hp Hqs Hsl Hkn Hans.
  assert (Hgd : forall q, layer_good lg (plain_bf comp) q) by (intros q; right; left; exact Hfix).
  assert (Hcalc : calc lg comp sl = Ok (Some (c', sh, ns))).
  { rewrite <- Hans. symmetry. apply history_indep_back_fix; assumption. }
  destruct (handed_out_gen lg comp qs sl (c', sh, ns) Hwf Hp) as (m' & [st' [side tp']] & H);
    try assumption.
  - apply back_ok_slot_ok. exact Hqs.
  - apply Forall_all. exact Hgd.
  - intros _. exact Hsl.
  - apply Hgd.
  - unfold slot_colour. rewrite Hk. exact Hkn.
  - destruct H as (E' & Hcfg & Hct & Hd & He).
    unfold out_colour, out_cells in *. rewrite Hk in *. cbn [fst snd] in *.
    (* the split cannot have panicked: the answer exists *)
    destruct (gcalc_cfg_some _ _ _ _ Hcalc) as (cfg & Hcfg' & Hrec).
    unfold calc_cfg in Hcfg. rewrite Hcfg in Hcfg'. inversion Hcfg'; subst cfg.
    unfold pure_reconstruct in Hrec. rewrite Hk in Hrec.
    destruct (backsymbol_split lg (negb side) tp') as [|[backspan mcol]] eqn:Esp; [discriminate|].
    destruct (chk_mul_u64 st' (lg_backsymbols lg)) as [|sb]; [discriminate|].
    destruct (chk_add_u64 sb (encode (lg_base_colors lg) backspan)) as [|x]; [discriminate|]. cbn [obind] in Hrec.
    destruct (chk_mul_u64 2 x) as [|y]; [discriminate|]. cbn [obind] in Hrec.
    destruct (chk_add_u64 (if negb side then 1 else 0) y) as [|ns']; [discriminate|]. cbn [obind] in Hrec.
    injection Hrec as R1 R2 R3. subst mcol ns'.
    exists m', st', side, tp', backspan. repeat split; assumption.
Qed.

(** the FAITHFUL backsymbol logic is history independent as long as no query
    of the history left its window on the left (took [split_at(cells - 1)]) *)
Theorem history_indep_back_no_left_exit lg comp qs sl :
  lg_kind lg = LkBacksymbol ->
  logic_wf lg -> plain_ok (lg_base_colors lg) comp ->
  back_ok lg qs -> snd sl < lg_base_colors lg ->
  no_left_exit lg comp qs ->
  top_known (run_qs comp [lg] (stack_new [lg]) qs) ((fst sl / 2) mod lg_backsymbols lg) ->
  fst (stack_get comp [lg] (run_qs comp [lg] (stack_new [lg]) qs) sl) = calc lg comp sl.
Proof.
  intros Hk Hwf Hp Hqs Hsl Hnl Hkn. apply history_indep_gen; try assumption.
  - apply back_ok_slot_ok. exact Hqs.
  - eapply Forall_impl; [|exact Hnl]. intros q Hq. right. right. exact Hq.
  - intros _. exact Hsl.
  - unfold slot_colour. rewrite Hk. exact Hkn.
Qed.

(** ---- corollaries ---- *)

(** known colours stay known along any history (block logic) *)
Lemma top_known_mono_block lg comp qs q c :
  lg_kind lg = LkBlock -> logic_wf lg -> plain_ok (lg_base_colors lg) comp ->
  top_known (run_qs comp [lg] (stack_new [lg]) qs) c ->
  top_known (run_qs comp [lg] (stack_new [lg]) (qs ++ [q])) c.
Proof.
  intros Hk Hwf Hp Hkn.
  destruct (single_run lg comp Hwf Hp qs _ (cache_inv_new lg comp Hwf)) as (m & E & Hinv & _).
  { apply Forall_all. intros x. apply kind_block_ok. exact Hk. }
  { apply Forall_all. intros x. apply kind_block_good. exact Hk. }
  unfold run_qs in *. rewrite fold_left_app. cbn [fold_left].
  change (stack_new [lg]) with [mstate_new (lg_cells lg)] in *. rewrite E in *. cbn [top_known] in Hkn.
  destruct (single_step lg comp m q Hwf Hp Hinv (kind_block_ok lg q Hk)) as (m' & E' & Kn & _).
  rewrite E'. cbn [top_known]. apply Kn. exact Hkn.
Qed.

(** asking twice gives the same answer *)
Theorem repeat_same_block lg comp qs sl :
  lg_kind lg = LkBlock -> logic_wf lg -> plain_ok (lg_base_colors lg) comp ->
  top_known (run_qs comp [lg] (stack_new [lg]) qs) (snd sl) ->
  fst (stack_get comp [lg] (run_qs comp [lg] (stack_new [lg]) (qs ++ [sl])) sl)
  = fst (stack_get comp [lg] (run_qs comp [lg] (stack_new [lg]) qs) sl).
Proof.
  intros Hk Hwf Hp Hkn.
  rewrite (history_indep_block lg comp qs sl Hk Hwf Hp Hkn).
  apply history_indep_block; try assumption. apply top_known_mono_block; assumption.
Qed.

(** the answer does not depend on which slots were queried before *)
Theorem order_indep_block lg comp qs1 qs2 sl :
  lg_kind lg = LkBlock -> logic_wf lg -> plain_ok (lg_base_colors lg) comp ->
  top_known (run_qs comp [lg] (stack_new [lg]) qs1) (snd sl) ->
  top_known (run_qs comp [lg] (stack_new [lg]) qs2) (snd sl) ->
  fst (stack_get comp [lg] (run_qs comp [lg] (stack_new [lg]) qs1) sl)
  = fst (stack_get comp [lg] (run_qs comp [lg] (stack_new [lg]) qs2) sl).
Proof.
  intros Hk Hwf Hp H1 H2. rewrite !history_indep_block; try assumption. reflexivity.
Qed.

(** every colour handed out is known afterwards, so it may be queried next *)
Theorem handed_out_known_block lg comp qs sl c' sh ns :
  lg_kind lg = LkBlock -> logic_wf lg -> plain_ok (lg_base_colors lg) comp ->
  top_known (run_qs comp [lg] (stack_new [lg]) qs) (snd sl) ->
  fst (stack_get comp [lg] (run_qs comp [lg] (stack_new [lg]) qs) sl) = Ok (Some (c', sh, ns)) ->
  top_known (run_qs comp [lg] (stack_new [lg]) (qs ++ [sl])) c'.
Proof.
  intros Hk Hwf Hp Hkn Hans.
  destruct (handed_out_decodes_block lg comp qs sl c' sh ns Hk Hwf Hp Hkn Hans)
    as (m' & st' & side & tp' & E & _ & Hct & _).
  unfold run_qs in *. rewrite fold_left_app. cbn [fold_left]. rewrite E. cbn [top_known].
  unfold color_to_tape in Hct. destruct (c2t_get (ms_c2t m') c') as [tp|] eqn:Eg; [|discriminate].
  exists tp. exact Eg.
Qed.

(** ------------------------------------------------------------------ *)
(** * 8. F3: the faithful backsymbol logic IS history dependent *)

Definition f3_comp : comp_prog :=
  [((0, 0), (1, true, 1)); ((0, 1), (1, false, 1)); ((1, 0), (1, false, 0))].
Definition f3_lg (fix_ : bool) : logic := mkLogic LkBacksymbol 1 2 2 2 fix_.

Lemma f3_lg_new fix_ : backsymbol_new fix_ 1 (2, 2) = Ok (f3_lg fix_).
Proof. destruct fix_; vm_compute; reflexivity. Qed.

Lemma f3_wf fix_ : logic_wf (f3_lg fix_).
Proof. repeat split; cbn; try lia. vm_compute. discriminate. Qed.

Lemma f3_plain : plain_ok 2 f3_comp.
Proof.
  intros [s c] c' sh st H. unfold f3_comp in H. cbn [cp_get] in H.
  repeat (match type of H with
          | (if ?b then _ else _) = _ => destruct b; [inversion H; lia|]
          end).
  discriminate.
Qed.

(** two histories, same slot, both with the slot's colour known, two answers *)
Theorem history_dep_refuted :
  let lg := f3_lg false in
  let fresh := run_qs f3_comp [lg] (stack_new [lg]) [] in
  let later := run_qs f3_comp [lg] (stack_new [lg]) [(0, 1)] in
  top_known fresh (slot_colour lg (0, 0)) /\ top_known later (slot_colour lg (0, 0)) /\
  fst (stack_get f3_comp [lg] fresh (0, 0)) = Ok (Some (0, false, 6)) /\
  fst (stack_get f3_comp [lg] later (0, 0)) = Ok (Some (1, false, 4)) /\
  calc lg f3_comp (0, 0) = Ok (Some (0, false, 6)) /\
  left_exit lg (plain_bf f3_comp) (0, 1).
Proof.
  cbv zeta. split; [|split; [|split; [|split; [|split]]]].
  - vm_compute. eexists. reflexivity.
  - vm_compute. eexists. reflexivity.
  - vm_compute. reflexivity.
  - vm_compute. reflexivity.
  - vm_compute. reflexivity.
  - eexists. eexists. vm_compute. reflexivity.
Qed.

(** ---- complements ---- *)

(** [macro_get_instr] keeps the cache invariant: block logic always,
    backsymbol logic when repaired *)
Theorem cache_inv_get_instr lg comp m q :
  logic_wf lg -> plain_ok (lg_base_colors lg) comp ->
  lg_kind lg = LkBlock \/ lg_split_fix lg = true ->
  cache_inv lg comp m -> slot_ok lg q ->
  exists m', snd (stack_get comp [lg] [m] q) = [m'] /\ cache_inv lg comp m'.
Proof.
  intros Hwf Hp Hfix Hinv Hok.
  destruct (single_step lg comp m q Hwf Hp Hinv Hok) as (m' & E & _ & G & _).
  exists m'. split; [exact E|]. apply G. destruct Hfix as [H|H]; [left; exact H|right; left; exact H].
Qed.

(** the hypothesis "the colour is known" is exactly what the code needs: an
    unknown colour that is not memoised makes [get_instr] panic *)
Theorem unknown_panics lg comp m q :
  c2t_get (ms_c2t m) (slot_colour lg q) = None -> cp_get (ms_instrs m) q = None ->
  fst (stack_get comp [lg] [m] q) = Panic.
Proof.
  intros Hn Hm. rewrite stack_get_cons. cbn [fst]. unfold macro_get_instr. cbn [fst]. rewrite Hm.
  unfold macro_calculate_instr, deconstruct_inputs, slot_colour in *. destruct q as [ms mc]. cbn [fst snd] in Hn.
  destruct (lg_kind lg).
  - unfold block_deconstruct_inputs, color_to_tape. rewrite Hn. reflexivity.
  - unfold backsymbol_deconstruct_inputs, color_to_tape.
    destruct (lg_backsymbols lg =? 0); [reflexivity|]. rewrite Hn. reflexivity.
Qed.

(** the colours a block macro hands out are below [macro_colors] *)
Theorem handed_out_lt_block lg comp qs sl c' sh ns :
  lg_kind lg = LkBlock -> logic_wf lg -> plain_ok (lg_base_colors lg) comp ->
  top_known (run_qs comp [lg] (stack_new [lg]) qs) (snd sl) ->
  fst (stack_get comp [lg] (run_qs comp [lg] (stack_new [lg]) qs) sl) = Ok (Some (c', sh, ns)) ->
  c' < lg_base_colors lg ^ lg_cells lg.
Proof.
  intros Hk Hwf Hp Hkn Hans.
  destruct (handed_out_decodes_block lg comp qs sl c' sh ns Hk Hwf Hp Hkn Hans)
    as (m' & st' & side & tp' & _ & _ & _ & Hd & He).
  rewrite <- He, Hd. apply encode_bound; [apply decode_len|apply decode_lt; apply Hwf].
Qed.
