(** C03 (conditional part): bulk application of a rule is a run of real machine
    steps.

    The rule INFERENCE of src/rules.rs generalises from four observations and
    is not a theorem.  What is proved here: IF a rule is valid for ONE
    application on every tape of its family ([RuleValid], a hypothesis), THEN
    the accelerated [apply_rule] -- which applies it [times] times at once --
    is a run of at least [times] real machine steps from the tape before to the
    tape after, through the intermediate tapes t + k.r (0 <= k <= times), all of
    which are canonical with every block >= 1 cell ([apply_sound],
    [apply_sound_chain], [apply_no_zero_block]).  [tm_steps .. = Some _] says
    the machine did not halt on the way; [apply_no_spinout] adds that no
    configuration of the run is a spin-out.  [times] may be astronomically
    large: the induction over it is in the logic only, nothing is computed. *)
From BB Require Import Base TM TapeModel RulesModel.
From BB Require Import TapeCanon StepSim RulesExact.

Local Open Scope N_scope.

(** ---- a tape is determined by scan, colours and counts ---- *)
Lemma span_ext : forall a b : span,
  map fst a = map fst b ->
  (forall i, option_map snd (nth_error a i) = option_map snd (nth_error b i)) -> a = b.
Proof.
  induction a as [|[c n] a IH]; intros [|[c' n'] b] Hc Hn; cbn [map fst] in Hc;
    try discriminate; [reflexivity|].
  injection Hc as Hc1 Hc2. pose proof (Hn O) as H0. cbn [nth_error option_map snd] in H0.
  injection H0 as H0. subst c' n'. f_equal. apply IH; [exact Hc2|].
  intros i. exact (Hn (S i)).
Qed.

Lemma get_count_nth t (sd : bool) i :
  get_count t (sd, N.of_nat i) =
  match nth_error (if sd then rspan t else lspan t) i with Some b => Ok (snd b) | None => Panic end.
Proof. unfold get_count. cbn [fst snd]. rewrite Nat2N.id. reflexivity. Qed.

Lemma tape_ext a b : same_shape a b -> (forall ix, get_count a ix = get_count b ix) -> a = b.
Proof.
  intros (Hs & Hl & Hr) Hg. destruct a as [sa la ra], b as [sb lb rb].
  cbn [scan lspan rspan] in *. subst sb. f_equal.
  - apply span_ext; [exact Hl|]. intros i. specialize (Hg (false, N.of_nat i)).
    rewrite !get_count_nth in Hg. cbn [lspan rspan] in Hg.
    destruct (nth_error la i), (nth_error lb i); cbn [option_map]; congruence.
  - apply span_ext; [exact Hr|]. intros i. specialize (Hg (true, N.of_nat i)).
    rewrite !get_count_nth in Hg. cbn [lspan rspan] in Hg.
    destruct (nth_error ra i), (nth_error rb i); cbn [option_map]; congruence.
Qed.

Lemma same_shape_refl t : same_shape t t.
Proof. repeat split. Qed.
Lemma same_shape_sym a b : same_shape a b -> same_shape b a.
Proof. intros (A & B & C). repeat split; congruence. Qed.
Lemma same_shape_trans a b c : same_shape a b -> same_shape b c -> same_shape a c.
Proof. intros (A & B & C) (A' & B' & C'). repeat split; congruence. Qed.

Definition lens_eq (a b : tape) : Prop :=
  length (lspan a) = length (lspan b) /\ length (rspan a) = length (rspan b).

(** equal colour lists have equal lengths: [lens_eq] is implied by [same_shape]
    (it is kept in the statements below for readability only) *)
Lemma same_shape_lens a b : same_shape a b -> lens_eq a b.
Proof.
  intros (_ & B & C). split.
  - rewrite <- (map_length fst (lspan a)), B. apply map_length.
  - rewrite <- (map_length fst (rspan a)), C. apply map_length.
Qed.

(** is an index a key of the rule? *)
Lemma key_dec (r : rule) ix : (exists o, In (ix, o) r) \/ (forall o, ~ In (ix, o) r).
Proof.
  induction r as [|[k o] r IH].
  - right. intros o [].
  - destruct (index_eqb k ix) eqn:E.
    + apply index_eqb_eq in E. subst k. left. exists o. left. reflexivity.
    + apply index_eqb_neq in E. destruct IH as [(o' & Hin)|Hno].
      * left. exists o'. right. exact Hin.
      * right. intros o' [Heq|Hin].
        -- injection Heq as Hk _. apply E. exact Hk.
        -- exact (Hno o' Hin).
Qed.

(** ---- 1. the k-fold shifted tape, as a relation ---- *)
(** [tk] is [t] with every block listed in [r] changed by d.k, nothing else changed *)
Definition Shifted (r : rule) (k : nat) (t tk : tape) : Prop :=
  same_shape tk t /\ lens_eq tk t /\
  (forall ix d, In (ix, Plus d) r ->
     exists c, get_count t ix = Ok c /\
               get_count tk ix = Ok (Z.to_N (Z.of_N c + d * Z.of_nat k)) /\
               (0 <= Z.of_N c + d * Z.of_nat k)%Z) /\
  (forall ix, (forall o, ~ In (ix, o) r) -> get_count tk ix = get_count t ix).

(** what [apply_exact] proves, in this vocabulary *)
Lemma apply_shifted t r times t' :
  rule_keys_nodup r -> apply_rule t r = Ok (Some times, t') -> Shifted r (N.to_nat times) t t'.
Proof.
  intros Hnd H. destruct (apply_exact t r times t' Hnd H) as (Hin & Hout & A & B & C & D & E).
  split; [repeat split; assumption|]. split; [split; assumption|]. split; [|exact Hout].
  intros ix d Hi. destruct (Hin ix d Hi) as (c & Hc & Hc' & Hge). exists c.
  rewrite N_nat_Z. auto.
Qed.

(** ---- 2. uniqueness ---- *)
Theorem shifted_unique r k t a b : Shifted r k t a -> Shifted r k t b -> all_plus r -> a = b.
Proof.
  intros (Sa & _ & Ia & Oa) (Sb & _ & Ib & Ob) Hplus. apply tape_ext.
  - eapply same_shape_trans; [exact Sa|apply same_shape_sym; exact Sb].
  - intros ix. destruct (key_dec r ix) as [(o & Hin)|Hno].
    + destruct (Hplus _ _ Hin) as (d & ->).
      destruct (Ia _ _ Hin) as (c & Hc & Ha & _). destruct (Ib _ _ Hin) as (c' & Hc' & Hb & _).
      rewrite Hc in Hc'. injection Hc' as <-. rewrite Ha, Hb. reflexivity.
    + rewrite (Oa ix Hno), (Ob ix Hno). reflexivity.
Qed.

Lemma shifted_zero r t : indices_valid t r -> Shifted r 0 t t.
Proof.
  intros Hv. split; [apply same_shape_refl|]. split; [split; reflexivity|]. split; [|reflexivity].
  intros ix d Hin. destruct (Hv _ _ Hin) as (c & Hc). exists c. split; [exact Hc|].
  split; [|lia]. rewrite Hc. f_equal. lia.
Qed.

(** ---- 3. the shifted tape, as a function ---- *)
Definition shift_val (t : tape) (k : nat) (e : index * op) : N :=
  match snd e, get_count t (fst e) with
  | Plus d, Ok c => Z.to_N (Z.of_N c + d * Z.of_nat k)
  | _, Ok c => c
  | _, Panic => 0
  end.
Definition shift_list (r : rule) (k : nat) (t : tape) : list (index * N) :=
  map (fun e => (fst e, shift_val t k e)) r.
Definition shift_tape (r : rule) (k : nat) (t : tape) : tape := write_all (shift_list r k t) t.

Lemma shift_list_keys r k t : map fst (shift_list r k t) = map fst r.
Proof. unfold shift_list. rewrite map_map. apply map_ext. reflexivity. Qed.

Theorem shift_tape_spec r k t :
  rule_keys_nodup r -> all_plus r -> indices_valid t r ->
  (forall ix d c, In (ix, Plus d) r -> get_count t ix = Ok c -> (0 <= Z.of_N c + d * Z.of_nat k)%Z) ->
  Shifted r k t (shift_tape r k t).
Proof.
  intros Hnd _ Hv Hge. unfold shift_tape.
  split; [apply write_all_shape|]. split; [apply same_shape_lens; apply write_all_shape|]. split.
  - intros ix d Hin. destruct (Hv _ _ Hin) as (c & Hc). exists c. split; [exact Hc|].
    split; [|exact (Hge ix d c Hin Hc)].
    assert (Hv' : shift_val t k (ix, Plus d) = Z.to_N (Z.of_N c + d * Z.of_nat k)).
    { unfold shift_val. cbn [fst snd]. rewrite Hc. reflexivity. }
    rewrite <- Hv'. apply (write_all_in _ t ix _ c).
    + rewrite shift_list_keys. exact Hnd.
    + unfold shift_list. apply (in_map (fun e => (fst e, shift_val t k e)) r (ix, Plus d) Hin).
    + exact Hc.
  - intros ix Hno. apply write_all_other. rewrite shift_list_keys. intros Hin.
    apply in_map_iff in Hin. destruct Hin as ([k' o] & Hk & Hin). cbn [fst] in Hk. subst k'.
    exact (Hno o Hin).
Qed.

Theorem shifted_compose r k t tk tk1 :
  Shifted r k t tk -> Shifted r 1 tk tk1 -> Shifted r (S k) t tk1.
Proof.
  intros (S1 & _ & I1 & O1) (S2 & _ & I2 & O2).
  assert (Hs : same_shape tk1 t) by (eapply same_shape_trans; eassumption).
  split; [exact Hs|]. split; [apply same_shape_lens; exact Hs|]. split.
  - intros ix d Hin. destruct (I1 _ _ Hin) as (c & Hc & Hk & Hge).
    destruct (I2 _ _ Hin) as (c' & Hc' & Hk1 & Hge1). rewrite Hk in Hc'. injection Hc' as <-.
    exists c. split; [exact Hc|].
    replace (Z.of_N c + d * Z.of_nat (S k))%Z
      with (Z.of_N (Z.to_N (Z.of_N c + d * Z.of_nat k)) + d * Z.of_nat 1)%Z by lia.
    split; assumption.
  - intros ix Hno. rewrite (O2 ix Hno). exact (O1 ix Hno).
Qed.

(** the converse: consecutive shifted tapes differ by one application *)
Lemma shifted_step r k t tk tk1 :
  Shifted r k t tk -> Shifted r (S k) t tk1 -> Shifted r 1 tk tk1.
Proof.
  intros (S1 & _ & I1 & O1) (S2 & _ & I2 & O2).
  assert (Hs : same_shape tk1 tk).
  { eapply same_shape_trans; [exact S2|apply same_shape_sym; exact S1]. }
  split; [exact Hs|]. split; [apply same_shape_lens; exact Hs|]. split.
  - intros ix d Hin. destruct (I1 _ _ Hin) as (c & Hc & Hk & Hge).
    destruct (I2 _ _ Hin) as (c' & Hc' & Hk1 & Hge1). rewrite Hc in Hc'. injection Hc' as <-.
    exists (Z.to_N (Z.of_N c + d * Z.of_nat k)). split; [exact Hk|].
    replace (Z.of_N (Z.to_N (Z.of_N c + d * Z.of_nat k)) + d * Z.of_nat 1)%Z
      with (Z.of_N c + d * Z.of_nat (S k))%Z by lia.
    split; assumption.
  - intros ix Hno. rewrite (O2 ix Hno). symmetry. exact (O1 ix Hno).
Qed.

(** ---- 4. canonicity depends on colours and positivity of counts only ---- *)
Lemma adj_differ_colours : forall a b : span, map fst a = map fst b -> adj_differ a -> adj_differ b.
Proof.
  induction a as [|[c n] a IH]; intros [|[c' n'] b] H Ha; cbn [map fst] in H;
    try discriminate; [exact I|].
  injection H as Hc H. subst c'.
  destruct a as [|[c2 n2] a], b as [|[c2' n2'] b]; cbn [map fst] in H; try discriminate; [exact I|].
  injection H as Hc H. subst c2'.
  change (c <> c2 /\ adj_differ ((c2, n2') :: b)).
  change (c <> c2 /\ adj_differ ((c2, n2) :: a)) in Ha. destruct Ha as [Hd Ha].
  split; [exact Hd|]. apply (IH ((c2, n2') :: b)); [cbn [map fst]; rewrite H; reflexivity|exact Ha].
Qed.

Lemma last_nonzero_colours_iff (s : span) :
  last_nonzero s <-> match rev (map fst s) with [] => True | c :: _ => c <> 0 end.
Proof.
  unfold last_nonzero. rewrite <- map_rev. destruct (rev s) as [|b l]; cbn [map]; tauto.
Qed.

Lemma last_nonzero_colours (a b : span) : map fst a = map fst b -> last_nonzero a -> last_nonzero b.
Proof. intros H Ha. apply last_nonzero_colours_iff. rewrite <- H. apply last_nonzero_colours_iff. exact Ha. Qed.

Lemma canon_colours (a b : span) : map fst a = map fst b -> canon a -> counts_pos b -> canon b.
Proof.
  intros H (_ & Ha & Hl) Hp. split; [exact Hp|].
  split; [eapply adj_differ_colours; eassumption|eapply last_nonzero_colours; eassumption].
Qed.

Theorem shifted_canon r k t tk :
  canon_tape t -> Shifted r k t tk -> counts_pos_tape tk -> canon_tape tk.
Proof.
  intros [Cl Cr] ((_ & Hl & Hr) & _) [Pl Pr]. split.
  - apply (canon_colours (lspan t)); [symmetry; exact Hl|exact Cl|exact Pl].
  - apply (canon_colours (rspan t)); [symmetry; exact Hr|exact Cr|exact Pr].
Qed.

(** "every block has at least one cell", through the index interface *)
Definition pos_counts (t : tape) : Prop := forall ix c, get_count t ix = Ok c -> 1 <= c.

Lemma pos_counts_iff t : pos_counts t <-> counts_pos_tape t.
Proof.
  unfold pos_counts, counts_pos_tape, counts_pos. rewrite !Forall_forall. split.
  - intros H. split; intros b Hb; apply In_nth_error in Hb; destruct Hb as [i Hi].
    + apply (H (false, N.of_nat i)). rewrite get_count_nth. rewrite Hi. reflexivity.
    + apply (H (true, N.of_nat i)). rewrite get_count_nth. rewrite Hi. reflexivity.
  - intros [Hl Hr] [sd n] c Hg. unfold get_count in Hg. cbn [fst snd] in Hg.
    destruct sd.
    + destruct (nth_error (rspan t) (N.to_nat n)) as [b|] eqn:E; [|discriminate].
      injection Hg as <-. apply Hr. eapply nth_error_In. exact E.
    + destruct (nth_error (lspan t) (N.to_nat n)) as [b|] eqn:E; [|discriminate].
      injection Hg as <-. apply Hl. eapply nth_error_In. exact E.
Qed.

(** ---- runs respect [tape_eq] ---- *)
Lemma tm_steps_plus P a b c0 :
  tm_steps P (a + b) c0 = match tm_steps P a c0 with Some c1 => tm_steps P b c1 | None => None end.
Proof.
  revert c0. induction a as [|a IH]; intro c0; [reflexivity|].
  cbn [Nat.add tm_steps]. destruct (tm_step P c0); [apply IH|reflexivity].
Qed.

Lemma tm_steps_eq P n : forall q z z' q1 w,
  tape_eq z z' -> tm_steps P n (q, z) = Some (q1, w) ->
  exists w', tm_steps P n (q, z') = Some (q1, w') /\ tape_eq w w'.
Proof.
  induction n as [|n IH]; intros q z z' q1 w He H; cbn [tm_steps] in *.
  - injection H as <- <-. exists z'. split; [reflexivity|exact He].
  - unfold tm_step in *. pose proof He as (_ & Hc & _). rewrite <- Hc.
    destruct (P (q, zc z)) as [[[pr sh] q']|]; [|discriminate].
    apply (IH q' _ _ q1 w (tm_move_eq _ _ sh pr He) H).
Qed.

(** ---- 5. the semantic hypothesis ---- *)
(** the guard [absdiff >= count => None] of count_apps: every decreasing block
    is strictly larger than what one application removes *)
Definition rule_guard (r : rule) (t : tape) : Prop :=
  forall ix d, In (ix, Plus d) r -> (d < 0)%Z ->
    exists c, get_count t ix = Ok c /\ (Z.abs d < Z.of_N c)%Z.

(** ONE application, on ANY canonical tape of the family of [t0] that passes
    the guard, is a run of at least one real machine step from state [q] back
    to state [q]. *)
Definition RuleValid (P : prog) (q : state) (r : rule) (t0 : tape) : Prop :=
  forall t t1, canon_tape t -> same_shape t t0 -> lens_eq t t0 ->
    Shifted r 1 t t1 -> rule_guard r t ->
    exists n z, (1 <= n)%nat /\ tm_steps P n (q, unroll_tape t) = Some (q, z) /\
                tape_eq z (unroll_tape t1).

(** ---- 6. the chain t = t_0, t_1, ..., t_T ---- *)
Section Chain.
Variables (P : prog) (q : state) (r : rule) (t0 t : tape) (T : nat).
Hypothesis HV : RuleValid P q r t0.
Hypothesis Hcanon : canon_tape t.
Hypothesis Hshape : same_shape t t0.
Hypothesis Hnd : rule_keys_nodup r.
Hypothesis Hplus : all_plus r.
Hypothesis Hvalid : indices_valid t r.
Hypothesis Hdec : forall ix d, In (ix, Plus d) r -> (d < 0)%Z ->
  exists c, get_count t ix = Ok c /\ (1 <= Z.of_N c + d * Z.of_nat T)%Z.

Lemma t_pos : pos_counts t.
Proof. apply pos_counts_iff. apply canon_tape_counts_pos. exact Hcanon. Qed.

(** every affected block of every intermediate tape keeps at least one cell *)
Lemma count_k_ge1 k : (k <= T)%nat -> forall ix d c,
  In (ix, Plus d) r -> get_count t ix = Ok c -> (1 <= Z.of_N c + d * Z.of_nat k)%Z.
Proof.
  intros Hk ix d c Hin Hc. pose proof (t_pos ix c Hc) as Hc1.
  destruct (Z.ltb_spec d 0) as [Hd|Hd].
  - destruct (Hdec ix d Hin Hd) as (c' & Hc' & Hge). rewrite Hc in Hc'. injection Hc' as <-. nia.
  - nia.
Qed.

Lemma shifted_k k : (k <= T)%nat -> Shifted r k t (shift_tape r k t).
Proof.
  intros Hk. apply shift_tape_spec; try assumption.
  intros ix d c Hin Hc. pose proof (count_k_ge1 k Hk ix d c Hin Hc). lia.
Qed.

Lemma pos_k k : (k <= T)%nat -> counts_pos_tape (shift_tape r k t).
Proof.
  intros Hk. apply pos_counts_iff. intros ix c Hg.
  destruct (shifted_k k Hk) as (_ & _ & Hin & Hout).
  destruct (key_dec r ix) as [(o & Hi)|Hno].
  - destruct (Hplus _ _ Hi) as (d & ->). destruct (Hin _ _ Hi) as (c0 & Hc0 & Hck & _).
    rewrite Hck in Hg. injection Hg as <-. pose proof (count_k_ge1 k Hk ix d c0 Hi Hc0). lia.
  - rewrite (Hout ix Hno) in Hg. exact (t_pos ix c Hg).
Qed.

Lemma canon_k k : (k <= T)%nat -> canon_tape (shift_tape r k t).
Proof. intros Hk. eapply shifted_canon; [exact Hcanon|apply shifted_k; exact Hk|apply pos_k; exact Hk]. Qed.

(** before the last application the guard of [RuleValid] holds *)
Lemma guard_k k : (S k <= T)%nat -> rule_guard r (shift_tape r k t).
Proof.
  intros Hk ix d Hin Hd.
  destruct (shifted_k k ltac:(lia)) as (_ & _ & Hi & _).
  destruct (Hi _ _ Hin) as (c0 & Hc0 & Hck & _).
  exists (Z.to_N (Z.of_N c0 + d * Z.of_nat k)). split; [exact Hck|].
  pose proof (count_k_ge1 (S k) Hk ix d c0 Hin Hc0) as H1.
  pose proof (count_k_ge1 k ltac:(lia) ix d c0 Hin Hc0) as H0.
  rewrite Nat2Z.inj_succ in H1. lia.
Qed.

Lemma shift_zero : shift_tape r 0 t = t.
Proof.
  apply (shifted_unique r 0 t); [apply shifted_k; lia|apply shifted_zero; exact Hvalid|exact Hplus].
Qed.

Lemma chain : forall k, (k <= T)%nat ->
  exists n z, (k <= n)%nat /\ tm_steps P n (q, unroll_tape t) = Some (q, z) /\
              tape_eq z (unroll_tape (shift_tape r k t)).
Proof.
  induction k as [|k IH]; intros Hk.
  - exists 0%nat, (unroll_tape t). split; [lia|]. split; [reflexivity|].
    rewrite shift_zero. apply tape_eq_refl.
  - destruct (IH ltac:(lia)) as (n & z & Hn & Hrun & Heq).
    assert (Sk : Shifted r k t (shift_tape r k t)) by (apply shifted_k; lia).
    assert (Sk1 : Shifted r (S k) t (shift_tape r (S k) t)) by (apply shifted_k; lia).
    assert (Hs : same_shape (shift_tape r k t) t0).
    { eapply same_shape_trans; [exact (proj1 Sk)|exact Hshape]. }
    destruct (HV (shift_tape r k t) (shift_tape r (S k) t)) as (n1 & z1 & Hn1 & Hrun1 & Heq1).
    + apply canon_k. lia.
    + exact Hs.
    + apply same_shape_lens. exact Hs.
    + eapply shifted_step; eassumption.
    + apply guard_k. exact Hk.
    + destruct (tm_steps_eq P n1 q _ _ q z1 (tape_eq_sym _ _ Heq) Hrun1) as (w & Hrunw & Hw).
      exists (n + n1)%nat, w. split; [lia|]. split.
      * rewrite tm_steps_plus, Hrun. exact Hrunw.
      * eapply tape_eq_trans; [apply tape_eq_sym; exact Hw|exact Heq1].
Qed.
End Chain.

(** what a successful [apply_rule] provides *)
Lemma apply_facts t r times t' :
  rule_keys_nodup r -> apply_rule t r = Ok (Some times, t') ->
  all_plus r /\ indices_valid t r /\
  (forall ix d, In (ix, Plus d) r -> (d < 0)%Z ->
     exists c, get_count t ix = Ok c /\ (1 <= Z.of_N c + d * Z.of_nat (N.to_nat times))%Z) /\
  (exists ix d, In (ix, Plus d) r /\ (d < 0)%Z).
Proof.
  intros Hnd H. pose proof (apply_exact t r times t' Hnd H) as (Hin & _).
  apply apply_rule_inv in H.
  destruct H as [(_ & H & _)|(times' & pos & res & Hca & [(_ & H & _)|(l & Har & Ho & _)])];
    try discriminate.
  injection Ho as <-. apply apply_results_some in Har. destruct Har as (_ & _ & _ & _ & Hplus).
  destruct (count_apps_max _ _ _ _ _ Hca) as (Hmax & (dm & cm & Hinm & Hdm & _)).
  split; [exact Hplus|]. split; [|split].
  - intros ix o Hi. destruct (Hplus _ _ Hi) as (d & ->). destruct (Hin _ _ Hi) as (c & Hc & _).
    exists c. exact Hc.
  - intros ix d Hi Hd. rewrite N_nat_Z. exact (Hmax ix d Hi Hd).
  - exists pos, dm. split; assumption.
Qed.

(** MAIN THEOREM: the accelerated application is a run of real machine steps *)
Theorem apply_sound : forall P q r t0 t times t',
  RuleValid P q r t0 -> canon_tape t -> same_shape t t0 -> lens_eq t t0 ->
  rule_keys_nodup r -> apply_rule t r = Ok (Some times, t') ->
  exists n z, (N.to_nat times <= n)%nat /\
    tm_steps P n (q, unroll_tape t) = Some (q, z) /\
    tape_eq z (unroll_tape t') /\ canon_tape t'.
Proof.
  intros P q r t0 t times t' HV Hc Hs _ Hnd Hap.
  destruct (apply_facts _ _ _ _ Hnd Hap) as (Hplus & Hvalid & Hdec & _).
  assert (E : shift_tape r (N.to_nat times) t = t').
  { apply (shifted_unique r (N.to_nat times) t); [|apply apply_shifted; assumption|exact Hplus].
    apply (shifted_k r t (N.to_nat times)); auto. }
  destruct (chain P q r t0 t (N.to_nat times) HV Hc Hs Hnd Hplus Hvalid Hdec (N.to_nat times) (le_n _))
    as (n & z & Hn & Hrun & Heq).
  exists n, z. rewrite E in Heq. split; [exact Hn|]. split; [exact Hrun|]. split; [exact Heq|].
  rewrite <- E. apply (canon_k r t (N.to_nat times)); auto.
Qed.

(** every intermediate tape t + k.r is reached, in at least k steps *)
Theorem apply_sound_chain : forall P q r t0 t times t',
  RuleValid P q r t0 -> canon_tape t -> same_shape t t0 -> lens_eq t t0 ->
  rule_keys_nodup r -> apply_rule t r = Ok (Some times, t') ->
  shift_tape r 0 t = t /\ shift_tape r (N.to_nat times) t = t' /\
  forall k, (k <= N.to_nat times)%nat ->
    Shifted r k t (shift_tape r k t) /\ canon_tape (shift_tape r k t) /\
    exists n z, (k <= n)%nat /\ tm_steps P n (q, unroll_tape t) = Some (q, z) /\
                tape_eq z (unroll_tape (shift_tape r k t)).
Proof.
  intros P q r t0 t times t' HV Hc Hs _ Hnd Hap.
  destruct (apply_facts _ _ _ _ Hnd Hap) as (Hplus & Hvalid & Hdec & _).
  split; [apply (shift_zero r t (N.to_nat times)); auto|]. split.
  - apply (shifted_unique r (N.to_nat times) t); [|apply apply_shifted; assumption|exact Hplus].
    apply (shifted_k r t (N.to_nat times)); auto.
  - intros k Hk. split; [apply (shifted_k r t (N.to_nat times)); auto|].
    split; [apply (canon_k r t (N.to_nat times)); auto|].
    apply (chain P q r t0 t (N.to_nat times)); auto.
Qed.

(** no block is ever driven to zero or below: ALL intermediate tapes t + k.r,
    0 <= k <= times, have every block >= 1 cell (and are canonical) *)
Theorem apply_no_zero_block : forall r t times t',
  canon_tape t -> rule_keys_nodup r -> apply_rule t r = Ok (Some times, t') ->
  forall k, (k <= N.to_nat times)%nat ->
    Shifted r k t (shift_tape r k t) /\
    counts_pos_tape (shift_tape r k t) /\ canon_tape (shift_tape r k t).
Proof.
  intros r t times t' Hc Hnd Hap k Hk.
  destruct (apply_facts _ _ _ _ Hnd Hap) as (Hplus & Hvalid & Hdec & _).
  split; [apply (shifted_k r t (N.to_nat times)); auto|].
  split; [apply (pos_k r t (N.to_nat times)); auto|apply (canon_k r t (N.to_nat times)); auto].
Qed.


(** ---- no spin-out on the way ---- *)
Lemma tm_steps_S P n c :
  tm_steps P (S n) c = match tm_step P c with None => None | Some c' => tm_steps P n c' end.
Proof. reflexivity. Qed.

(** the guard of count_apps, from a successful count *)
Lemma count_apps_loop_guard t : forall r apps out,
  count_apps_loop t r apps = Ok (Some out) -> rule_guard r t.
Proof.
  induction r as [|[pos o] r IH]; intros apps out H ix d Hin Hd; [destruct Hin|].
  cbn [count_apps_loop] in H. destruct o as [d0|]; [|discriminate].
  destruct (Z.leb_spec 0 d0) as [Hd0|Hd0].
  - destruct Hin as [Hin|Hin]; [injection Hin as <- <-; lia|]. exact (IH _ _ H ix d Hin Hd).
  - apply obind_ok in H. destruct H as (c & Hget & H).
    destruct (N.leb_spec c (Z.to_N (Z.abs d0))) as [Hle|Hgt]; [discriminate|].
    destruct (if 0 <? c mod Z.to_N (Z.abs d0)
              then (c / Z.to_N (Z.abs d0), c mod Z.to_N (Z.abs d0))
              else (c / Z.to_N (Z.abs d0) - 1, Z.to_N (Z.abs d0))) as [te re].
    destruct Hin as [Hin|Hin].
    + injection Hin as <- <-. exists c. split; [exact Hget|lia].
    + destruct apps as [[[curr mp] res]|]; [destruct (te <? curr)|]; exact (IH _ _ H ix d Hin Hd).
Qed.

Lemma apply_guard t r times t' : apply_rule t r = Ok (Some times, t') -> rule_guard r t.
Proof.
  intros H. apply apply_rule_inv in H.
  destruct H as [(_ & H & _)|(times' & pos & res & Hca & _)]; [discriminate|].
  apply count_apps_inv in Hca. destruct Hca as [(_ & Hca)|(Hca & _)]; [discriminate|].
  eapply count_apps_loop_guard. exact Hca.
Qed.

(** ---- spin-out ---- *)
Lemma spinout_run P q pr sh : P (q, 0) = Some (pr, sh, q) ->
  forall n z, zc z = 0 -> all_blank (side sh z) ->
  exists z', tm_steps P n (q, z) = Some (q, z') /\ zc z' = 0 /\ all_blank (side sh z') /\
             side (negb sh) z' = repeat pr n ++ side (negb sh) z.
Proof.
  intros HP. induction n as [|n IH]; intros z Hz Hb.
  - exists z. repeat split; assumption.
  - rewrite tm_steps_S. unfold tm_step. cbv beta iota. unfold state, colour in *. rewrite Hz, HP.
    destruct (IH (tm_move z sh pr)) as (z' & Hrun & Hz' & Hb' & Hs').
    + destruct sh; cbn [tm_move zc]; rewrite cell_hd0; apply Hb.
    + destruct sh; cbn [side tm_move zl zr]; intros i; rewrite cell_tl; apply Hb.
    + exists z'. split; [exact Hrun|]. split; [exact Hz'|]. split; [exact Hb'|].
      rewrite Hs'. rewrite <- repeat_cons_app. destruct sh; reflexivity.
Qed.

Lemma spinout_steps P : forall m c c', spinout_cfg P c -> tm_steps P m c = Some c' -> spinout_cfg P c'.
Proof.
  intros m [q z] c' (Hz & pr & sh & HP & Hb) Hrun.
  destruct (spinout_run P q pr sh HP m z Hz Hb) as (z' & Hrun' & Hz' & Hb' & _).
  rewrite Hrun' in Hrun. injection Hrun as <-. split; [exact Hz'|]. exists pr, sh. split; assumption.
Qed.

Lemma spinout_tape_eq P q z z' : tape_eq z z' -> spinout_cfg P (q, z) -> spinout_cfg P (q, z').
Proof.
  intros (El & Ec & Er) (Hz & pr & sh & HP & Hb). split; [congruence|]. exists pr, sh. split; [exact HP|].
  destruct sh; cbn [side] in *; intros i; [rewrite <- Er|rewrite <- El]; apply Hb.
Qed.

Definition span_of (sd : bool) (t : tape) : span := if sd then rspan t else lspan t.

Lemma side_unroll sd t : side sd (unroll_tape t) = unroll_span (span_of sd t).
Proof. destruct sd; reflexivity. Qed.

Lemma canon_span_of sd t : canon_tape t -> canon (span_of sd t).
Proof. intros [Hl Hr]. destruct sd; assumption. Qed.

Lemma shape_span_of sd a b : same_shape a b -> map fst (span_of sd a) = map fst (span_of sd b).
Proof. intros (_ & Hl & Hr). destruct sd; assumption. Qed.

Lemma canon_blank_nil s : canon s -> all_blank (unroll_span s) -> s = [].
Proof.
  intros Hc Hb. apply canon_unique; [exact Hc|apply canon_nil|].
  intros i. rewrite (Hb i). cbn [unroll_span flat_map]. rewrite cell_nil. reflexivity.
Qed.

Lemma get_count_span t sd i :
  get_count t (sd, i) = match nth_error (span_of sd t) (N.to_nat i) with Some b => Ok (snd b) | None => Panic end.
Proof. reflexivity. Qed.

(** pushing onto a span without changing its colour list never lowers a count *)
Lemma push_same_colours_mono s pr m i b b1 :
  map fst (push s pr m) = map fst s ->
  nth_error s i = Some b -> nth_error (push s pr m) i = Some b1 -> snd b <= snd b1.
Proof.
  unfold push. destruct s as [|[c n] rest]; [destruct i; discriminate|].
  destruct (c =? pr).
  - intros _ Hb Hb1. destruct i as [|i]; cbn [nth_error] in *.
    + injection Hb as <-. injection Hb1 as <-. cbn [snd]. lia.
    + rewrite Hb in Hb1. injection Hb1 as <-. lia.
  - intros H. apply (f_equal (@length _)) in H. cbn [map length] in H. lia.
Qed.

Lemma spinout_shape_back P q t t' :
  canon_tape t -> canon_tape t' -> same_shape t' t ->
  spinout_cfg P (q, unroll_tape t') -> spinout_cfg P (q, unroll_tape t).
Proof.
  intros Hc Hc' Hs (Hz & pr & sh & HP & Hb). split.
  - cbn [unroll_tape zc] in *. destruct Hs as (Hs & _). congruence.
  - exists pr, sh. split; [exact HP|]. rewrite side_unroll in *.
    apply canon_blank_nil in Hb; [|apply canon_span_of; exact Hc'].
    pose proof (shape_span_of sh _ _ Hs) as Hm. rewrite Hb in Hm. cbn [map] in Hm.
    symmetry in Hm. apply map_eq_nil in Hm. rewrite Hm. intros i. cbn [unroll_span flat_map]. apply cell_nil.
Qed.

(** a tape on which a valid rule with a decreasing block is applicable is not a spin-out *)
Lemma no_spinout_start P q r t0 t :
  RuleValid P q r t0 -> canon_tape t -> same_shape t t0 -> rule_keys_nodup r -> all_plus r ->
  indices_valid t r -> rule_guard r t -> (exists ix d, In (ix, Plus d) r /\ (d < 0)%Z) ->
  ~ spinout_cfg P (q, unroll_tape t).
Proof.
  intros HV Hc Hs Hnd Hplus Hvalid Hg (pos & d & Hin & Hd) (Hz & pr & sh & HP & Hb).
  assert (Hdec : forall ix d, In (ix, Plus d) r -> (d < 0)%Z ->
            exists c, get_count t ix = Ok c /\ (1 <= Z.of_N c + d * Z.of_nat 1)%Z).
  { intros ix d' Hi Hd'. destruct (Hg ix d' Hi Hd') as (c & Hgc & Hlt). exists c. split; [exact Hgc|lia]. }
  pose proof (shifted_k r t 1 Hc Hnd Hplus Hvalid Hdec 1 (le_n _)) as Sh1.
  pose proof (canon_k r t 1 Hc Hnd Hplus Hvalid Hdec 1 (le_n _)) as Hc1.
  set (t1 := shift_tape r 1 t) in *.
  destruct (HV t t1 Hc Hs (same_shape_lens _ _ Hs) Sh1 Hg) as (n1 & z1 & Hn1 & Hrun & Heq).
  destruct (spinout_run P q pr sh HP n1 (unroll_tape t) Hz Hb) as (z' & Hrun' & _ & _ & Hside).
  rewrite Hrun' in Hrun. injection Hrun as ->.
  assert (He : side_eq (side (negb sh) (unroll_tape t1)) (side (negb sh) z1)).
  { destruct Heq as (El & _ & Er). apply side_eq_sym. destruct sh; cbn [negb side]; assumption. }
  rewrite Hside, !side_unroll in He.
  assert (Hpush : span_of (negb sh) t1 = push (span_of (negb sh) t) pr (N.of_nat n1)).
  { apply canon_unique.
    - apply canon_span_of. exact Hc1.
    - apply push_canon; [apply canon_span_of; exact Hc|lia].
    - eapply side_eq_trans; [exact He|]. apply side_eq_sym.
      pose proof (push_unroll (span_of (negb sh) t) pr (N.of_nat n1)) as Hp.
      rewrite Nat2N.id in Hp. exact Hp. }
  destruct Sh1 as (Hs1 & _ & Hi1 & _).
  destruct (Hi1 pos d Hin) as (c & Hgc & Hgc1 & Hge).
  destruct pos as [sd i]. rewrite get_count_span in Hgc, Hgc1.
  destruct (Bool.bool_dec sd sh) as [->|Hne].
  - rewrite side_unroll in Hb. apply canon_blank_nil in Hb; [|apply canon_span_of; exact Hc].
    rewrite Hb in Hgc. destruct (N.to_nat i); discriminate.
  - assert (sd = negb sh) by (destruct sd, sh; try reflexivity; exfalso; apply Hne; reflexivity). subst sd.
    destruct (nth_error (span_of (negb sh) t) (N.to_nat i)) as [b|] eqn:Eb; [|discriminate].
    destruct (nth_error (span_of (negb sh) t1) (N.to_nat i)) as [b1|] eqn:Eb1; [|discriminate].
    injection Hgc as <-. injection Hgc1 as Hb1.
    pose proof (shape_span_of (negb sh) _ _ Hs1) as Hcol.
    rewrite Hpush in Eb1, Hcol.
    pose proof (push_same_colours_mono _ pr (N.of_nat n1) (N.to_nat i) b b1 Hcol Eb Eb1) as Hm. lia.
Qed.

Lemma tm_steps_split P a b c0 c2 :
  tm_steps P (a + b) c0 = Some c2 ->
  exists c1, tm_steps P a c0 = Some c1 /\ tm_steps P b c1 = Some c2.
Proof.
  rewrite tm_steps_plus. destruct (tm_steps P a c0) as [c1|]; [|discriminate].
  intros H. exists c1. split; [reflexivity|exact H].
Qed.

(** [apply_sound] plus: no configuration of the run is a spin-out, and no
    configuration before the last one is halted *)
Theorem apply_no_spinout : forall P q r t0 t times t',
  RuleValid P q r t0 -> canon_tape t -> same_shape t t0 -> lens_eq t t0 ->
  rule_keys_nodup r -> apply_rule t r = Ok (Some times, t') ->
  exists n z, (N.to_nat times <= n)%nat /\
    tm_steps P n (q, unroll_tape t) = Some (q, z) /\
    tape_eq z (unroll_tape t') /\ canon_tape t' /\
    forall j c, (j <= n)%nat -> tm_steps P j (q, unroll_tape t) = Some c ->
      ~ spinout_cfg P c /\ ((j < n)%nat -> ~ halted_cfg P c).
Proof.
  intros P q r t0 t times t' HV Hc Hs Hl Hnd Hap.
  destruct (apply_sound P q r t0 t times t' HV Hc Hs Hl Hnd Hap) as (n & z & Hn & Hrun & Heq & Hc').
  exists n, z. split; [exact Hn|]. split; [exact Hrun|]. split; [exact Heq|]. split; [exact Hc'|].
  intros j c Hj Hrunj. split.
  - intros Hsp.
    replace n with (j + (n - j))%nat in Hrun by lia.
    apply tm_steps_split in Hrun. destruct Hrun as (c1 & H1 & H2).
    rewrite Hrunj in H1. injection H1 as <-.
    pose proof (spinout_steps P _ _ _ Hsp H2) as Hend.
    apply (spinout_tape_eq P q z (unroll_tape t') Heq) in Hend.
    apply (spinout_shape_back P q t t' Hc Hc' (proj1 (apply_shifted _ _ _ _ Hnd Hap))) in Hend.
    destruct (apply_facts _ _ _ _ Hnd Hap) as (Hplus & Hvalid & _ & Hex).
    exact (no_spinout_start P q r t0 t HV Hc Hs Hnd Hplus Hvalid (apply_guard _ _ _ _ Hap) Hex Hend).
  - intros Hlt Hh.
    replace n with (j + S (n - S j))%nat in Hrun by lia.
    apply tm_steps_split in Hrun. destruct Hrun as (c1 & H1 & H2).
    rewrite Hrunj in H1. injection H1 as <-.
    rewrite tm_steps_S in H2. destruct c as [qc zc']. unfold halted_cfg in Hh. cbn [fst snd] in Hh.
    unfold tm_step in H2. rewrite Hh in H2. discriminate.
Qed.

(** ---- 7. non-vacuity: a machine and a rule for which [RuleValid] is PROVED ----
    Three states, two colours.  On  1^a [0] 1^b  in state 0 (head on the gap):
    print 1 and step right (state 1), erase the first 1 of the right block and
    turn back (state 2), run left over the a+1 ones to the blank beyond them,
    turn (state 0), run right over them again and arrive on the new gap:
    1^(a+1) [0] 1^(b-1), state 0, after 2a+5 steps.  So the rule
    "left block +1, right block -1" is valid on the whole family, the number of
    machine steps per application depending on the tape. *)
Lemma run_sweep_left P q c c' k l rr : P (q, c) = Some (c', false, q) ->
  tm_steps P (S k) (q, {| zl := repeat c k ++ l; zc := c; zr := rr |})
  = Some (q, {| zl := tl l; zc := hd0 l; zr := repeat c' (S k) ++ rr |}).
Proof.
  intros HP. revert rr. induction k as [|k IH]; intros rr.
  - rewrite tm_steps_S. unfold tm_step. cbn [zc]. rewrite HP. reflexivity.
  - rewrite tm_steps_S. unfold tm_step. cbn [zc]. rewrite HP.
    change (repeat c (S k) ++ l) with (c :: (repeat c k ++ l)).
    unfold tm_move. cbn [zl zc zr tl hd0]. rewrite IH.
    rewrite repeat_cons_app. reflexivity.
Qed.

Lemma run_sweep_right P q c c' k l ll : P (q, c) = Some (c', true, q) ->
  tm_steps P (S k) (q, {| zl := ll; zc := c; zr := repeat c k ++ l |})
  = Some (q, {| zl := repeat c' (S k) ++ ll; zc := hd0 l; zr := tl l |}).
Proof.
  intros HP. revert ll. induction k as [|k IH]; intros ll.
  - rewrite tm_steps_S. unfold tm_step. cbn [zc]. rewrite HP. reflexivity.
  - rewrite tm_steps_S. unfold tm_step. cbn [zc]. rewrite HP.
    change (repeat c (S k) ++ l) with (c :: (repeat c k ++ l)).
    unfold tm_move. cbn [zl zc zr tl hd0]. rewrite IH.
    rewrite repeat_cons_app. reflexivity.
Qed.

Definition exP : prog := fun sl =>
  match sl with
  | (0, 0) => Some (1, true, 1)
  | (0, 1) => Some (1, true, 0)
  | (1, 1) => Some (0, false, 2)
  | (2, 1) => Some (1, false, 2)
  | (2, 0) => Some (0, true, 0)
  | _ => None
  end.
Definition ex_rule : rule := [((false, 0), Plus 1); ((true, 0), Plus (-1))].
Definition ex_tape (a b : N) : tape := mkTape 0 [(1, a)] [(1, b)].

Lemma tm_steps_chain P a b c0 c1 c2 :
  tm_steps P a c0 = Some c1 -> tm_steps P b c1 = Some c2 -> tm_steps P (a + b) c0 = Some c2.
Proof. intros H1 H2. rewrite tm_steps_plus, H1. exact H2. Qed.

Lemma ex_run_nat na nb :
  tm_steps exP (1 + (1 + (S (S na) + (1 + S (S na)))))
    (0, {| zl := repeat 1 (S na); zc := 0; zr := repeat 1 (S (S nb)) |})
  = Some (0, {| zl := repeat 1 (S (S na)) ++ [0]; zc := 0; zr := repeat 1 (S nb) |}).
Proof.
  apply (tm_steps_chain exP 1 _ _
           (1, {| zl := repeat 1 (S (S na)); zc := 1; zr := repeat 1 (S nb) |})); [reflexivity|].
  apply (tm_steps_chain exP 1 _ _
           (2, {| zl := repeat 1 (S na); zc := 1; zr := 0 :: repeat 1 (S nb) |})); [reflexivity|].
  apply (tm_steps_chain exP (S (S na)) _ _
           (2, {| zl := []; zc := 0; zr := repeat 1 (S (S na)) ++ 0 :: repeat 1 (S nb) |})).
  { pose proof (run_sweep_left exP 2 1 1 (S na) [] (0 :: repeat 1 (S nb)) eq_refl) as H3.
    rewrite app_nil_r in H3. exact H3. }
  apply (tm_steps_chain exP 1 _ _
           (0, {| zl := [0]; zc := 1; zr := repeat 1 (S na) ++ 0 :: repeat 1 (S nb) |})); [reflexivity|].
  exact (run_sweep_right exP 0 1 1 (S na) (0 :: repeat 1 (S nb)) [0] eq_refl).
Qed.

Lemma side_eq_snoc0 l : side_eq (l ++ [0]) l.
Proof.
  intros i. unfold cell. destruct (Nat.lt_ge_cases i (length l)) as [H|H].
  - rewrite app_nth1 by exact H. reflexivity.
  - rewrite app_nth2 by exact H. rewrite (nth_overflow l) by exact H.
    destruct (i - length l)%nat as [|[|j]]; reflexivity.
Qed.

Lemma ex_family t a0 b0 : same_shape t (ex_tape a0 b0) -> exists a b, t = ex_tape a b.
Proof.
  destruct t as [s l r]. intros (Hs & Hl & Hr). cbn [ex_tape scan lspan rspan map fst] in Hs, Hl, Hr.
  subst s. destruct l as [|[c a] [|? ?]]; try discriminate. destruct r as [|[c' b] [|? ?]]; try discriminate.
  cbn [map fst] in Hl, Hr. injection Hl as ->. injection Hr as ->. exists a, b. reflexivity.
Qed.

Lemma ex_canon a b : 1 <= a -> 1 <= b -> canon_tape (ex_tape a b).
Proof.
  intros Ha Hb. split; cbn [ex_tape lspan rspan]; (apply canon_cons; [apply canon_nil|assumption|discriminate]).
Qed.

Lemma ex_nodup : rule_keys_nodup ex_rule.
Proof.
  unfold rule_keys_nodup, ex_rule. cbn [map fst]. constructor.
  - intros [H|[]]. discriminate.
  - constructor; [intros []|constructor].
Qed.

Example rule_valid_nonvacuous : RuleValid exP 0 ex_rule (ex_tape 1 2).
Proof.
  intros t t1 Hc Hs _ Hsh Hg.
  destruct (ex_family t _ _ Hs) as (a & b & ->).
  assert (Hs1 : same_shape t1 (ex_tape 1 2)) by (eapply same_shape_trans; [exact (proj1 Hsh)|exact Hs]).
  destruct (ex_family t1 _ _ Hs1) as (a1 & b1 & ->).
  destruct Hsh as (_ & _ & Hin & _).
  destruct (Hin (false, 0) 1%Z (or_introl eq_refl)) as (c & Hc0 & Hc1 & _).
  destruct (Hin (true, 0) (-1)%Z (or_intror (or_introl eq_refl))) as (c' & Hc0' & Hc1' & _).
  destruct (Hg (true, 0) (-1)%Z (or_intror (or_introl eq_refl)) eq_refl) as (c2 & Hc2 & Hlt).
  change (Ok a = Ok c) in Hc0. change (Ok b = Ok c') in Hc0'. change (Ok b = Ok c2) in Hc2.
  change (Ok a1 = Ok (Z.to_N (Z.of_N c + 1 * Z.of_nat 1))) in Hc1.
  change (Ok b1 = Ok (Z.to_N (Z.of_N c' + -1 * Z.of_nat 1))) in Hc1'.
  injection Hc0 as <-. injection Hc0' as <-. injection Hc2 as <-.
  injection Hc1 as Ha1. injection Hc1' as Hb1.
  assert (Ha : 1 <= a).
  { destruct Hc as [(Pl & _) _]. cbn [ex_tape lspan] in Pl. inversion Pl as [|? ? Hx _]. exact Hx. }
  change (unroll_tape (ex_tape a b))
    with {| zl := repeat 1 (N.to_nat a) ++ []; zc := 0; zr := repeat 1 (N.to_nat b) ++ [] |}.
  change (unroll_tape (ex_tape a1 b1))
    with {| zl := repeat 1 (N.to_nat a1) ++ []; zc := 0; zr := repeat 1 (N.to_nat b1) ++ [] |}.
  rewrite !app_nil_r.
  destruct (N.to_nat a) as [|na] eqn:Ea; [lia|].
  destruct (N.to_nat b) as [|[|nb]] eqn:Eb; [lia|lia|].
  assert (Ea1 : N.to_nat a1 = S (S na)) by lia.
  assert (Eb1 : N.to_nat b1 = S nb) by lia.
  rewrite Ea1, Eb1.
  eexists. eexists. split; [|split; [apply ex_run_nat|]].
  - lia.
  - split; [apply side_eq_snoc0|]. split; [reflexivity|apply side_eq_refl].
Qed.

(** the main theorem applied to this machine: 2^62 - 1 applications at once *)
Example apply_sound_instance :
  exists n z, (N.to_nat 4611686018427387903 <= n)%nat /\
    tm_steps exP n (0, unroll_tape (ex_tape 3 4611686018427387904)) = Some (0, z) /\
    tape_eq z (unroll_tape (ex_tape 4611686018427387906 1)).
Proof.
  destruct (apply_sound exP 0 ex_rule (ex_tape 1 2) (ex_tape 3 4611686018427387904)
              4611686018427387903 (ex_tape 4611686018427387906 1)) as (n & z & H1 & H2 & H3 & _).
  - exact rule_valid_nonvacuous.
  - apply ex_canon; lia.
  - repeat split.
  - split; reflexivity.
  - exact ex_nodup.
  - vm_compute. reflexivity.
  - exists n, z. auto.
Qed.

Print Assumptions shifted_unique.
Print Assumptions shift_tape_spec.
Print Assumptions shifted_compose.
Print Assumptions shifted_canon.
Print Assumptions rule_valid_nonvacuous.
Print Assumptions apply_sound_instance.
Print Assumptions apply_sound_chain.
Print Assumptions apply_no_spinout.
Print Assumptions apply_sound.
Print Assumptions apply_no_zero_block.
