(** C12, second half: the observers of the compressed tape equal what one
    reads off the unrolled cells. *)
From BB Require Import Base TM TapeModel TapeCanon.

Definition nonzero_count (l : list colour) : N :=
  N.of_nat (length (filter (fun c => negb (c =? 0)) l)).

Lemma nonzero_count_app a b : nonzero_count (a ++ b) = nonzero_count a + nonzero_count b.
Proof. unfold nonzero_count. rewrite filter_app, app_length. apply Nat2N.inj_add. Qed.

Lemma nonzero_count_repeat c k :
  nonzero_count (repeat c k) = if c =? 0 then 0 else N.of_nat k.
Proof.
  unfold nonzero_count. induction k as [|k IH]; cbn [repeat filter].
  - destruct (c =? 0); reflexivity.
  - destruct (c =? 0) eqn:E; cbn [negb]; [exact IH|]. cbn [length]. lia.
Qed.

Lemma span_marks_spec s : span_marks s = nonzero_count (unroll_span s).
Proof.
  induction s as [|[c n] s IH]; [reflexivity|].
  rewrite unroll_cons, nonzero_count_app, nonzero_count_repeat. cbn [span_marks fold_right fst snd].
  fold (span_marks s). rewrite IH. destruct (c =? 0); lia.
Qed.

Lemma nonzero_count_single c : nonzero_count [c] = if c =? 0 then 0 else 1.
Proof. unfold nonzero_count. cbn [filter]. destruct (c =? 0); reflexivity. Qed.

Theorem marks_spec t : marks t = marks_of (unroll_tape t).
Proof.
  unfold marks, marks_of, unroll_tape. cbn [zl zc zr].
  rewrite !span_marks_spec. fold (nonzero_count (unroll_span (lspan t) ++ scan t :: unroll_span (rspan t))).
  rewrite nonzero_count_app. change (scan t :: unroll_span (rspan t)) with ([scan t] ++ unroll_span (rspan t)).
  rewrite nonzero_count_app, nonzero_count_single.
  destruct (scan t =? 0); lia.
Qed.

Lemma all_blank_nil : all_blank [].
Proof. intro i. apply cell_nil. Qed.

Lemma canon_span_blank s : canon s -> (span_blank s = true <-> all_blank (unroll_span s)).
Proof.
  intros Hs. destruct s as [|[c n] s]; cbn [span_blank]; split; intro H; try reflexivity; try discriminate.
  - apply all_blank_nil.
  - exfalso. destruct (lln_nonblank (unroll_span ((c, n) :: s))) as [i Hi].
    + rewrite unroll_cons. destruct Hs as (Hc & _). inversion Hc; subst. cbn in *.
      destruct (N.to_nat n) eqn:E; [lia|]. discriminate.
    + apply canon_unroll_lln. exact Hs.
    + apply Hi. apply H.
Qed.

Theorem blank_spec t : canon_tape t -> (blank t = true <-> tape_blank (unroll_tape t)).
Proof.
  intros [Hl Hr]. unfold blank, tape_blank, unroll_tape. cbn [zl zc zr].
  rewrite !andb_true_iff, N.eqb_eq, (canon_span_blank _ Hl), (canon_span_blank _ Hr). tauto.
Qed.

Theorem at_edge_spec t sh :
  canon_tape t -> (at_edge t sh = true <-> zc (unroll_tape t) = 0 /\ all_blank (side sh (unroll_tape t))).
Proof.
  intros [Hl Hr]. unfold at_edge, side, unroll_tape. cbn [zl zc zr].
  rewrite andb_true_iff, N.eqb_eq. destruct sh.
  - rewrite (canon_span_blank _ Hr). tauto.
  - rewrite (canon_span_blank _ Hl). tauto.
Qed.

(** block counts, block structure and signature are those of the run-length
    encoding of the cells *)
Theorem blocks_counts_spec t :
  canon_tape t ->
  counts t = (map snd (rle (zl (unroll_tape t))), map snd (rle (zr (unroll_tape t)))) /\
  blocks t = N.of_nat (length (rle (zl (unroll_tape t))) + length (rle (zr (unroll_tape t)))).
Proof.
  intros [(Hl1 & Hl2 & _) (Hr1 & Hr2 & _)]. unfold counts, blocks, span_counts, unroll_tape.
  cbn [zl zr]. rewrite !rle_unroll by assumption. split; reflexivity.
Qed.

Theorem signature_spec t :
  canon_tape t ->
  tape_sig t = mkSig (zc (unroll_tape t)) (map block_cc (rle (zl (unroll_tape t))))
                     (map block_cc (rle (zr (unroll_tape t)))).
Proof.
  intros [(Hl1 & Hl2 & _) (Hr1 & Hr2 & _)]. unfold tape_sig, span_sig, unroll_tape.
  cbn [zl zr zc]. rewrite !rle_unroll by assumption. reflexivity.
Qed.
