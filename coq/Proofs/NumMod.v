(** Proofs for C18: soundness of the Gallina model of num.py's modular
    machinery ([PyNumModModel.mod_model]) against the integer semantics
    ([NumExpr.eval]).  See Properties/C18.v for the statements and for what
    is NOT proved. *)
From BB Require Import Base NumExpr PyNumModModel Loops.
From Coq Require Import Znumtheory Zpow_facts.
Open Scope Z_scope.

(** ** Powers modulo m *)

Lemma pow_mod_l b k m : 0 < m -> (b mod m) ^ k mod m = b ^ k mod m.
Proof. intros Hm. symmetry. apply Zpower_mod. lia. Qed.

Lemma pow_split b k s : 0 <= s <= k -> b ^ k = b ^ (k - s) * b ^ s.
Proof. intros H. rewrite <- Z.pow_add_r by lia. f_equal. lia. Qed.

(** if the powers repeat once (from s on, with step p) they repeat for ever *)
Lemma pow_mod_periodic b m s p :
  0 < m -> 0 <= s -> 0 <= p -> b ^ (s + p) mod m = b ^ s mod m ->
  forall k, s <= k -> b ^ (k + p) mod m = b ^ k mod m.
Proof.
  intros Hm Hs Hp H k Hk.
  rewrite (pow_split b (k + p) (s + p)) by lia.
  rewrite (pow_split b k s) by lia.
  replace (k + p - (s + p)) with (k - s) by lia.
  rewrite Zmult_mod, H, <- Zmult_mod. reflexivity.
Qed.

Lemma pow_mod_periodic_n b m s p :
  0 < m -> 0 <= s -> 0 <= p -> b ^ (s + p) mod m = b ^ s mod m ->
  forall (q : nat) k, s <= k -> b ^ (k + Z.of_nat q * p) mod m = b ^ k mod m.
Proof.
  intros Hm Hs Hp H q. induction q as [|q IH]; intros k Hk.
  - f_equal. f_equal. lia.
  - replace (k + Z.of_nat (S q) * p) with ((k + Z.of_nat q * p) + p) by lia.
    rewrite (pow_mod_periodic b m s p) by nia. apply IH. lia.
Qed.

(** reduction of an exponent k >= s to the window [s, s+p) *)
Lemma pow_mod_reduce b m s p :
  0 < m -> 0 <= s -> 0 < p -> b ^ (s + p) mod m = b ^ s mod m ->
  forall k, s <= k -> b ^ k mod m = b ^ (s + (k - s) mod p) mod m.
Proof.
  intros Hm Hs Hp H k Hk.
  pose proof (Z.div_mod (k - s) p ltac:(lia)) as D.
  pose proof (Z.mod_pos_bound (k - s) p Hp) as B.
  assert (0 <= (k - s) / p) by (apply Z.div_pos; lia).
  replace k with ((s + (k - s) mod p) + Z.of_nat (Z.to_nat ((k - s) / p)) * p) at 1
    by (rewrite Z2Nat.id by lia; lia).
  apply (pow_mod_periodic_n b m s p); lia.
Qed.

(** a true period: b^p = 1 (mod m) *)
Lemma pow_mod_period1 b m p :
  0 < m -> 0 < p -> b ^ p mod m = 1 mod m ->
  forall k, 0 <= k -> b ^ k mod m = b ^ (k mod p) mod m.
Proof.
  intros Hm Hp H k Hk.
  rewrite (pow_mod_reduce b m 0 p) by (try lia; rewrite Z.add_0_l, Z.pow_0_r; exact H) .
  rewrite Z.sub_0_r, Z.add_0_l. reflexivity.
Qed.

(** ** The hard-coded residues of Exp.__mod__ (num.py:895-931) *)

Ltac mod_cases r p :=
  let B := fresh "B" in
  pose proof (Z.mod_pos_bound r p ltac:(lia)) as B.

Lemma pow_self_mod b k : 0 < b -> 1 <= k -> b ^ k mod b = 0.
Proof.
  intros Hb Hk. replace k with (1 + (k - 1)) by lia.
  rewrite Z.pow_add_r, Z.pow_1_r by lia. rewrite Z.mul_comm. apply Z.mod_mul. lia.
Qed.

Lemma pow_mod2 b k : 1 <= k -> b ^ k mod 2 = b mod 2.
Proof.
  intros Hk. rewrite !Zmod_even. rewrite Z.even_pow by lia. reflexivity.
Qed.

Lemma pow2_mod4 k : 2 <= k -> 2 ^ k mod 4 = 0.
Proof.
  intros Hk. replace k with (2 + (k - 2)) by lia.
  rewrite Z.pow_add_r by lia. change (2 ^ 2) with 4. rewrite Z.mul_comm. apply Z.mod_mul. lia.
Qed.

Lemma pow2_mod6 k : 1 <= k -> 2 ^ k mod 6 = if k mod 2 =? 0 then 4 else 2.
Proof.
  intros Hk. rewrite (pow_mod_reduce 2 6 1 2) by (try lia; reflexivity).
  pose proof (Z.mod_pos_bound (k - 1) 2 ltac:(lia)) as B.
  pose proof (Z.div_mod (k - 1) 2 ltac:(lia)) as D1.
  pose proof (Z.div_mod k 2 ltac:(lia)) as D2.
  pose proof (Z.mod_pos_bound k 2 ltac:(lia)) as B2.
  assert (C : (k - 1) mod 2 = 0 \/ (k - 1) mod 2 = 1) by lia.
  destruct C as [C|C]; rewrite C.
  - replace (k mod 2) with 1 by lia. reflexivity.
  - replace (k mod 2) with 0 by lia. reflexivity.
Qed.

Lemma pow2_mod12 k : 2 <= k -> 2 ^ k mod 12 = if k mod 2 =? 0 then 4 else 8.
Proof.
  intros Hk. rewrite (pow_mod_reduce 2 12 2 2) by (try lia; reflexivity).
  pose proof (Z.mod_pos_bound (k - 2) 2 ltac:(lia)) as B.
  pose proof (Z.div_mod (k - 2) 2 ltac:(lia)) as D1.
  pose proof (Z.div_mod k 2 ltac:(lia)) as D2.
  pose proof (Z.mod_pos_bound k 2 ltac:(lia)) as B2.
  assert (C : (k - 2) mod 2 = 0 \/ (k - 2) mod 2 = 1) by lia.
  destruct C as [C|C]; rewrite C.
  - replace (k mod 2) with 0 by lia. reflexivity.
  - replace (k mod 2) with 1 by lia. reflexivity.
Qed.

Lemma pow2_mod30 k : 1 <= k ->
  2 ^ k mod 30 = if k mod 4 =? 3 then 8 else if k mod 4 =? 0 then 16
                 else if k mod 4 =? 1 then 2 else 4.
Proof.
  intros Hk. rewrite (pow_mod_reduce 2 30 1 4) by (try lia; reflexivity).
  pose proof (Z.mod_pos_bound (k - 1) 4 ltac:(lia)) as B.
  pose proof (Z.div_mod (k - 1) 4 ltac:(lia)) as D1.
  pose proof (Z.div_mod k 4 ltac:(lia)) as D2.
  pose proof (Z.mod_pos_bound k 4 ltac:(lia)) as B2.
  assert (C : (k - 1) mod 4 = 0 \/ (k - 1) mod 4 = 1 \/ (k - 1) mod 4 = 2 \/ (k - 1) mod 4 = 3) by lia.
  destruct C as [C|[C|[C|C]]]; rewrite C.
  - replace (k mod 4) with 1 by lia. reflexivity.
  - replace (k mod 4) with 2 by lia. reflexivity.
  - replace (k mod 4) with 3 by lia. reflexivity.
  - replace (k mod 4) with 0 by lia. reflexivity.
Qed.

Lemma pow3_mod6 k : 1 <= k -> 3 ^ k mod 6 = 3.
Proof.
  intros Hk. rewrite (pow_mod_reduce 3 6 1 1) by (try lia; reflexivity).
  rewrite Z.mod_1_r. reflexivity.
Qed.

Lemma pow6_mod10 k : 1 <= k -> 6 ^ k mod 10 = 6.
Proof.
  intros Hk. rewrite (pow_mod_reduce 6 10 1 1) by (try lia; reflexivity).
  rewrite Z.mod_1_r. reflexivity.
Qed.

Lemma pow7_mod12 k : 0 <= k -> 7 ^ k mod 12 = if k mod 2 =? 0 then 1 else 7.
Proof.
  intros Hk. rewrite (pow_mod_period1 7 12 2) by (try lia; reflexivity).
  pose proof (Z.mod_pos_bound k 2 ltac:(lia)) as B.
  assert (C : k mod 2 = 0 \/ k mod 2 = 1) by lia.
  destruct C as [C|C]; rewrite C; reflexivity.
Qed.

(** base 3 modulo a power of two (num.py:922-923): the order of 3 divides
    2^(j-2) for j >= 3, and 2 for j = 2 *)
Lemma sq_lift x j : 1 <= j -> x mod 2 ^ j = 1 -> (x * x) mod 2 ^ (j + 1) = 1.
Proof.
  intros Hj H.
  assert (E : 2 ^ j = 2 * 2 ^ (j - 1)).
  { replace j with (1 + (j - 1)) at 1 by lia. rewrite Z.pow_add_r by lia. reflexivity. }
  assert (P : 0 < 2 ^ (j - 1)) by (apply Z.pow_pos_nonneg; lia).
  pose proof (Z.div_mod x (2 ^ j) ltac:(lia)) as D. rewrite H in D.
  set (t := x / 2 ^ j) in *. clearbody t. subst x.
  rewrite Z.pow_add_r, Z.pow_1_r by lia. rewrite E.
  set (R := 2 ^ (j - 1)) in *. clearbody R.
  replace ((2 * R * t + 1) * (2 * R * t + 1)) with (1 + (t + R * t * t) * (2 * R * 2)) by ring.
  rewrite Z.mod_add by lia. apply Z.mod_small. lia.
Qed.

Lemma pow3_pow2 j : 3 <= j -> 3 ^ (2 ^ (j - 2)) mod 2 ^ j = 1.
Proof.
  intros Hj. replace j with (3 + Z.of_nat (Z.to_nat (j - 3))) by lia.
  generalize (Z.to_nat (j - 3)) as n. clear. induction n as [|n IH].
  - reflexivity.
  - replace (3 + Z.of_nat (S n)) with ((3 + Z.of_nat n) + 1) by lia.
    replace (3 + Z.of_nat n + 1 - 2) with ((3 + Z.of_nat n - 2) + 1) by lia.
    set (a := 3 + Z.of_nat n - 2) in *.
    assert (Ha : 0 <= a) by (unfold a; lia).
    assert (E : 3 ^ (2 ^ (a + 1)) = 3 ^ (2 ^ a) * 3 ^ (2 ^ a)).
    { rewrite Z.pow_add_r, Z.pow_1_r by lia.
      replace (2 ^ a * 2) with (2 ^ a + 2 ^ a) by ring.
      apply Z.pow_add_r; apply Z.pow_nonneg; lia. }
    rewrite E. apply sq_lift; [lia|exact IH].
Qed.

(** ** The generic loop (num.py:942-955) is binary exponentiation *)

Lemma sq_pow_mod r b q m : 0 < m -> 0 <= q ->
  (r * (b ^ 2 mod m) ^ q) mod m = (r * b ^ (2 * q)) mod m.
Proof.
  intros Hm Hq. rewrite <- Z.mul_mod_idemp_r by lia. rewrite pow_mod_l by lia.
  rewrite Z.mul_mod_idemp_r by lia. rewrite <- Z.pow_mul_r by lia. reflexivity.
Qed.

Lemma binexp_pos_spec p : forall res base m, 0 < m -> 0 <= res ->
  binexp_pos p res base m = (res * base ^ Zpos p) mod m.
Proof.
  induction p as [q IH|q IH|]; intros res base m Hm Hres; cbn [binexp_pos];
    (destruct (res <=? 0) eqn:E;
     [apply Z.leb_le in E; assert (res = 0) by lia; subst;
      rewrite Z.mul_0_l, Z.mod_0_l by lia; reflexivity|]).
  - rewrite IH by (try lia; apply Z.mod_pos_bound; lia).
    rewrite sq_pow_mod by lia. rewrite Z.mul_mod_idemp_l by lia.
    f_equal. rewrite Pos2Z.inj_xI, Z.pow_add_r, Z.pow_1_r by lia. ring.
  - rewrite IH by lia. rewrite sq_pow_mod by lia. reflexivity.
  - rewrite Z.pow_1_r. reflexivity.
Qed.

Theorem binexp_mod_spec z base m : 0 < m -> 1 <= z -> binexp z base m = base ^ z mod m.
Proof.
  intros Hm Hz. destruct z as [|p|p]; try lia. unfold binexp.
  rewrite binexp_pos_spec by lia. rewrite Z.mul_1_l. reflexivity.
Qed.

(** ** find_period (num.py:1344-1361) returns a true period *)

Lemma fp_iter base m : 0 < m -> forall n val per p,
  1 <= per -> val mod m = base ^ (per - 1) mod m ->
  iter_nat n (fp_body base m) (val, per) = inr p -> base ^ p mod m = 1 /\ 1 <= p.
Proof.
  intros Hm. induction n as [|n IH]; intros val per p Hper Hval H; cbn [iter_nat] in H.
  - discriminate.
  - unfold fp_body in H at 1.
    assert (E : (val * base) mod m = base ^ per mod m).
    { rewrite <- Z.mul_mod_idemp_l by lia. rewrite Hval. rewrite Z.mul_mod_idemp_l by lia.
      replace per with ((per - 1) + 1) at 2 by lia. rewrite Z.pow_add_r, Z.pow_1_r by lia. reflexivity. }
    destruct ((val * base) mod m =? 1) eqn:T.
    + apply Z.eqb_eq in T. inversion H; subst p. split; [congruence|lia].
    + assert (G : base ^ p mod m = 1 /\ 1 <= p).
      { apply (IH ((val * base) mod m) (per + 1) p); [lia| |exact H].
        replace (per + 1 - 1) with per by lia. rewrite Z.mod_mod by lia. exact E. }
      exact G.
Qed.

Theorem find_period_sound base m p :
  0 < m -> find_period base m = MVal p -> 0 < p -> base ^ p mod m = 1.
Proof.
  intros Hm H Hp. unfold find_period in H.
  destruct ((base =? 2) && negb (float_ok_log3 m)); [discriminate|].
  destruct ((base =? 2) && is_2x3pow m); [inversion H; lia|].
  destruct (2 ^ 24 <=? m); [discriminate|].
  rewrite for_upto_iter in H.
  destruct (iter_nat _ _ _) as [s|q] eqn:E; inversion H; subst; [lia|].
  apply (fp_iter base m Hm) in E; [tauto|lia|reflexivity].
Qed.

Lemma log2_exact_spec m j : pn_log2_exact m = Some j -> m = 2 ^ j /\ 0 <= j.
Proof.
  unfold pn_log2_exact. destruct (0 <? m) eqn:P; cbn [andb]; [|discriminate].
  destruct (2 ^ Z.log2 m =? m) eqn:E; [|discriminate].
  intros H; inversion H; subst. apply Z.eqb_eq in E. split; [lia|apply Z.log2_nonneg].
Qed.

(** ** The tables of exp_mod_special_cases (num.py:1371-2243): all 818 rows *)

Definition row_ok (m : Z) (rv : Z * Z) : bool :=
  let '(r, v) := rv in (0 <=? r) && (binexp (if r =? 0 then m / 3 else r) 2 m =? v).
Definition table_ok (t : Z * list (Z * Z)) : bool :=
  let '(m, rows) := t in
  (3 <? m) && (binexp (1 + m / 3) 2 m =? 2) && forallb (row_ok m) rows.

(** every row is 2^r mod m (2^(m/3) for r = 0), and 2^(1 + m/3) = 2 (mod m):
    checked by computation with the model's own exponentiation loop, which
    [binexp_mod_spec] turns into statements about [Z.pow] *)
Lemma tables_ok : forallb table_ok special_tables = true.
Proof. vm_compute. reflexivity. Qed.

Lemma pn_table_forallb f l m rows :
  forallb f l = true -> pn_table m l = Some rows -> f (m, rows) = true.
Proof.
  induction l as [|[m' t] l IH]; cbn [pn_table forallb]; [discriminate|].
  intros H E. apply andb_true_iff in H as [H1 H2].
  destruct (m =? m') eqn:T.
  - apply Z.eqb_eq in T. subst. inversion E; subst. exact H1.
  - apply IH; assumption.
Qed.

Lemma pn_assoc_forallb f l r v :
  forallb f l = true -> pn_assoc r l = Some v -> f (r, v) = true.
Proof.
  induction l as [|[r' v'] l IH]; cbn [pn_assoc forallb]; [discriminate|].
  intros H E. apply andb_true_iff in H as [H1 H2].
  destruct (r =? r') eqn:T.
  - apply Z.eqb_eq in T. subst. inversion E; subst. exact H1.
  - apply IH; assumption.
Qed.

Lemma shift_mod k P : 0 < P -> 1 <= k ->
  1 + (k - 1) mod P = if k mod P =? 0 then P else k mod P.
Proof.
  intros HP Hk.
  pose proof (Z.div_mod k P ltac:(lia)) as D.
  pose proof (Z.mod_pos_bound k P HP) as B.
  destruct (k mod P =? 0) eqn:T.
  - apply Z.eqb_eq in T. rewrite T in D.
    rewrite <- (Z.mod_unique (k - 1) P (k / P - 1) (P - 1)); [lia|lia|].
    rewrite Z.mul_sub_distr_l. lia.
  - apply Z.eqb_neq in T.
    rewrite <- (Z.mod_unique (k - 1) P (k / P) (k mod P - 1)); [lia|lia|lia].
Qed.

Theorem tables_sound m rows r v k :
  pn_table m special_tables = Some rows -> pn_assoc r rows = Some v ->
  1 <= k -> k mod (m / 3) = r -> 2 ^ k mod m = v.
Proof.
  intros HT HA Hk Hr.
  pose proof (pn_table_forallb _ _ _ _ tables_ok HT) as OK. unfold table_ok in OK.
  apply andb_true_iff in OK as [OK R]. apply andb_true_iff in OK as [M3 PER].
  apply Z.ltb_lt in M3. apply Z.eqb_eq in PER.
  pose proof (pn_assoc_forallb _ _ _ _ R HA) as RO. unfold row_ok in RO.
  apply andb_true_iff in RO as [R0 RV]. apply Z.leb_le in R0. apply Z.eqb_eq in RV.
  assert (HP : 0 < m / 3) by (apply Z.div_str_pos; lia).
  rewrite binexp_mod_spec in PER by lia.
  rewrite (pow_mod_reduce 2 m 1 (m / 3)); try lia.
  2:{ rewrite PER. rewrite Z.pow_1_r. rewrite Z.mod_small by lia. reflexivity. }
  rewrite shift_mod by lia. rewrite Hr.
  rewrite <- RV. symmetry. apply binexp_mod_spec; [lia|].
  destruct (r =? 0) eqn:T; [lia|]. apply Z.eqb_neq in T. lia.
Qed.

(** ** Exp.__mod__ *)

Lemma mbind_val {A B} (r : mres A) (f : A -> mres B) v :
  mbind r f = MVal v -> exists a, r = MVal a /\ f a = MVal v.
Proof. destruct r; cbn [mbind]; intros H; try discriminate. eauto. Qed.

(** value of the local variable [exp]; [k] is the value of [self.exp] *)
Definition xval (k : Z) (x : pexp) : Z := match x with PInt z => z | PSym => k end.
(** invariant: [exp] is non-negative and gives the same power modulo m *)
Definition xok (base m k : Z) (x : pexp) : Prop :=
  0 <= xval k x /\ base ^ xval k x mod m = base ^ k mod m.
(** [emod j] stands for [self.exp % j] *)
Definition emod_ok (k : Z) (emod : Z -> mres Z) : Prop :=
  forall j v, 0 < j -> emod j = MVal v -> v = k mod j.

Lemma exp_rem_sound k emod x j v :
  emod_ok k emod -> 0 < j -> exp_rem emod x j = MVal v -> v = xval k x mod j.
Proof.
  intros He Hj H. destruct x as [z|]; cbn [exp_rem xval] in *.
  - inversion H. reflexivity.
  - apply He; assumption.
Qed.

Lemma exp_reduce_sound base m k emod x j x' :
  2 < m -> emod_ok k emod ->
  xok base m k x -> 0 < j -> base ^ j mod m = 1 -> exp_reduce emod x j = MVal x' ->
  xok base m k x'.
Proof.
  intros Hm He [X0 X1] Hj Hper H. unfold exp_reduce in H.
  apply mbind_val in H as [v [H1 H2]]. inversion H2; subst x'.
  apply (exp_rem_sound k) in H1; [|exact He|exact Hj]. subst v. unfold xok. cbn [xval]. split.
  - apply Z.mod_pos_bound. exact Hj.
  - rewrite <- X1. symmetry. apply pow_mod_period1; try lia.
    rewrite Hper. symmetry. apply Z.mod_small. lia.
Qed.

Lemma special_cases_sound base m k emod v :
  2 < m -> 1 < k -> emod_ok k emod ->
  exp_mod_special_cases m base emod = MVal v -> v = base ^ k mod m.
Proof.
  intros Hm Hk He. unfold exp_mod_special_cases. intros H.
  destruct (base =? 2) eqn:B; cbn [negb] in H; [|discriminate]. apply Z.eqb_eq in B. subst base.
  destruct (negb (float_ok_log3 m)); [discriminate|].
  destruct (negb (is_2x3pow m)); [discriminate|].
  apply mbind_val in H as [per [H1 H2]].
  destruct (pn_table m special_tables) as [rows|] eqn:T; [|discriminate].
  destruct (pn_assoc per rows) as [w|] eqn:A; [|discriminate]. inversion H2; subst w.
  assert (M3 : 0 < m / 3) by (apply Z.div_str_pos; lia).
  apply He in H1; [|exact M3].
  symmetry. apply (tables_sound m rows per v k T A); lia.
Qed.

Lemma exp_mod_tail_sound base m k emod x v :
  2 < m -> 1 < k -> emod_ok k emod ->
  xok base m k x -> exp_mod_tail base m x emod = MVal v -> v = base ^ k mod m.
Proof.
  intros Hm Hk He X H. unfold exp_mod_tail in H.
  apply mbind_val in H as [period [P H]].
  apply mbind_val in H as [x' [R H]].
  assert (X' : xok base m k x').
  { destruct (0 <? period) eqn:E.
    - apply Z.ltb_lt in E.
      eapply exp_reduce_sound; [exact Hm|exact He|exact X|exact E| |exact R].
      apply find_period_sound; [lia|exact P|exact E].
    - inversion R; subst. exact X. }
  destruct X' as [X0 X1].
  destruct x' as [z|]; cbn [xval] in *.
  - destruct (z =? 0) eqn:Z0.
    + apply Z.eqb_eq in Z0. subst z. inversion H; subst v.
      rewrite <- X1. rewrite Z.pow_0_r. symmetry. apply Z.mod_small. lia.
    + apply Z.eqb_neq in Z0. inversion H; subst v. rewrite <- X1.
      apply binexp_mod_spec; lia.
  - apply (special_cases_sound base m k emod); assumption.
Qed.

Definition hard_ok (base m k : Z) (h : Z + pexp) : Prop :=
  match h with inl v => v = base ^ k mod m | inr x => xok base m k x end.

Lemma xok_orig base m k x : 1 < k -> xval k x = k -> xok base m k x.
Proof. intros Hk E. unfold xok. rewrite E. split; [lia|reflexivity]. Qed.

Lemma exp_mod_hard_sound base m k emod x0 h :
  2 < m -> 1 < k -> emod_ok k emod ->
  xval k x0 = k -> exp_mod_hard base m x0 emod = MVal h -> hard_ok base m k h.
Proof.
  intros Hm Hk He X0 H. unfold exp_mod_hard in H.
  pose proof (xok_orig base m k x0 Hk X0) as XO.
  destruct (base =? 2) eqn:B2.
  { apply Z.eqb_eq in B2. subst base.
    destruct (m =? 4) eqn:M4.
    { apply Z.eqb_eq in M4. subst m. inversion H; subst h. cbn [hard_ok].
      symmetry. apply pow2_mod4. lia. }
    destruct (m =? 6) eqn:M6.
    { apply Z.eqb_eq in M6. subst m. apply mbind_val in H as [p [H1 H2]].
      apply (exp_rem_sound k) in H1; [|exact He|lia]. rewrite X0 in H1. subst p.
      inversion H2; subst h. cbn [hard_ok]. symmetry. apply pow2_mod6. lia. }
    destruct (m =? 12) eqn:M12.
    { apply Z.eqb_eq in M12. subst m. apply mbind_val in H as [p [H1 H2]].
      apply (exp_rem_sound k) in H1; [|exact He|lia]. rewrite X0 in H1. subst p.
      inversion H2; subst h. cbn [hard_ok]. symmetry. apply pow2_mod12. lia. }
    destruct (m =? 30) eqn:M30.
    { apply Z.eqb_eq in M30. subst m. apply mbind_val in H as [p [H1 H2]].
      apply (exp_rem_sound k) in H1; [|exact He|lia]. rewrite X0 in H1. subst p.
      pose proof (pow2_mod30 k ltac:(lia)) as E.
      destruct (k mod 4 =? 3); [inversion H2; subst h; cbn [hard_ok]; congruence|].
      destruct (k mod 4 =? 0); [inversion H2; subst h; cbn [hard_ok]; congruence|].
      destruct (k mod 4 =? 1); [inversion H2; subst h; cbn [hard_ok]; congruence|].
      destruct (k mod 4 =? 2); inversion H2; subst h; cbn [hard_ok]; [|exact XO].
      exact (eq_sym E). }
    inversion H; subst h. exact XO. }
  destruct (base =? 3) eqn:B3.
  { apply Z.eqb_eq in B3. subst base.
    destruct (m =? 6) eqn:M6.
    { apply Z.eqb_eq in M6. subst m. inversion H; subst h. cbn [hard_ok].
      symmetry. apply pow3_mod6. lia. }
    destruct (negb (float_ok_log2 m)); [discriminate|].
    destruct (pn_log2_exact m) as [j|] eqn:L.
    - apply log2_exact_spec in L as [Mj J0].
      apply mbind_val in H as [x' [R H2]]. inversion H2; subst h. cbn [hard_ok].
      eapply exp_reduce_sound; [exact Hm|exact He|exact XO| | |exact R].
      + apply Z.pow_pos_nonneg; lia.
      + assert (J2 : 2 <= j).
        { destruct (Z.lt_ge_cases j 2) as [Lt|]; [|assumption].
          assert (2 ^ j <= 2 ^ 1) by (apply Z.pow_le_mono_r; lia). change (2 ^ 1) with 2 in *. lia. }
        destruct (Z.eq_dec j 2) as [->|NE].
        * subst m. reflexivity.
        * replace (Z.max (j - 2) 1) with (j - 2) by lia. subst m. apply pow3_pow2. lia.
    - inversion H; subst h. exact XO. }
  destruct (base =? 6) eqn:B6.
  { apply Z.eqb_eq in B6. subst base.
    destruct (m =? 10) eqn:M10; inversion H; subst h; [|exact XO].
    apply Z.eqb_eq in M10. subst m. cbn [hard_ok]. symmetry. apply pow6_mod10. lia. }
  destruct (base =? 7) eqn:B7.
  { apply Z.eqb_eq in B7. subst base.
    destruct (m =? 12) eqn:M12.
    - apply Z.eqb_eq in M12. subst m. apply mbind_val in H as [p [H1 H2]].
      apply (exp_rem_sound k) in H1; [|exact He|lia]. rewrite X0 in H1. subst p.
      inversion H2; subst h. cbn [hard_ok]. symmetry. apply pow7_mod12. lia.
    - inversion H; subst h. exact XO. }
  inversion H; subst h. exact XO.
Qed.

Theorem exp_mod_sound base m k emod x0 lt1 v :
  0 < m -> 1 < k -> emod_ok k emod -> xval k x0 = k ->
  exp_mod base m x0 emod lt1 = MVal v -> v = base ^ k mod m.
Proof.
  intros Hm Hk He X0 H. unfold exp_mod in H.
  destruct (m =? 1) eqn:M1.
  { apply Z.eqb_eq in M1. subst m. inversion H. rewrite Z.mod_1_r. reflexivity. }
  destruct (m =? base) eqn:MB.
  { apply Z.eqb_eq in MB. subst base. inversion H. symmetry. apply pow_self_mod; lia. }
  destruct (m =? 2) eqn:M2.
  { apply Z.eqb_eq in M2. subst m. inversion H. symmetry. apply pow_mod2. lia. }
  apply Z.eqb_neq in M1. apply Z.eqb_neq in M2.
  destruct (base mod m =? 0); [discriminate|].
  apply mbind_val in H as [ok [_ H]].
  destruct (negb ok); [discriminate|].
  apply mbind_val in H as [h [H1 H2]].
  apply (exp_mod_hard_sound base m k) in H1; try assumption; try lia.
  destruct h as [w|x]; cbn [hard_ok] in H1.
  - inversion H2; subst. reflexivity.
  - eapply exp_mod_tail_sound; [| | | exact H1|exact H2]; try assumption; lia.
Qed.

(** ** The whole of [%] *)

Theorem mod_model_sound : forall e m v n,
  0 < m -> exps_gt1 e = true -> eval e = Some n -> mod_model e m = MVal v -> v = n mod m.
Proof.
  induction e as [z|l IHl r IHr|l IHl r IHr|num IH den|base x IH];
    intros m v n Hm W E H; cbn [mod_model eval exps_gt1] in *.
  - inversion E; inversion H; subst. reflexivity.
  - apply andb_true_iff in W as [Wl Wr].
    destruct (eval l) as [a|]; [|discriminate]. destruct (eval r) as [b|]; [|discriminate].
    inversion E; subst n.
    destruct (m =? 1) eqn:M1.
    { apply Z.eqb_eq in M1. subst m. inversion H. rewrite Z.mod_1_r. reflexivity. }
    apply mbind_val in H as [a' [Ha H]]. apply mbind_val in H as [b' [Hb H]].
    inversion H; subst v.
    rewrite (IHl m a' a Hm Wl eq_refl Ha), (IHr m b' b Hm Wr eq_refl Hb).
    symmetry. apply Zplus_mod.
  - apply andb_true_iff in W as [Wl Wr].
    destruct (eval l) as [a|]; [|discriminate]. destruct (eval r) as [b|]; [|discriminate].
    inversion E; subst n.
    destruct (m =? 1) eqn:M1.
    { apply Z.eqb_eq in M1. subst m. inversion H. rewrite Z.mod_1_r. reflexivity. }
    apply mbind_val in H as [a' [Ha H]].
    pose proof (IHl m a' a Hm Wl eq_refl Ha) as Ea.
    destruct (a' =? 0) eqn:A0.
    { apply Z.eqb_eq in A0. inversion H; subst v. rewrite Zmult_mod, <- Ea, A0. reflexivity. }
    apply mbind_val in H as [b' [Hb H]].
    pose proof (IHr m b' b Hm Wr eq_refl Hb) as Eb.
    destruct (b' =? 0) eqn:B0.
    { apply Z.eqb_eq in B0. inversion H; subst v. rewrite Zmult_mod, <- Eb, B0, Z.mul_0_r. reflexivity. }
    inversion H; subst v. rewrite Ea, Eb. symmetry. apply Zmult_mod.
  - destruct (eval num) as [a|] eqn:En; [|discriminate].
    destruct (0 <? den) eqn:D0; cbn [andb] in E; [|discriminate].
    destruct (a mod den =? 0) eqn:Ex; [|discriminate].
    inversion E; subst n. apply Z.ltb_lt in D0. apply Z.eqb_eq in Ex.
    destruct (den <=? 0) eqn:D1; [apply Z.leb_le in D1; lia|].
    destruct (m =? 1) eqn:M1.
    { apply Z.eqb_eq in M1. subst m. inversion H. rewrite Z.mod_1_r. reflexivity. }
    destruct (200 <? pn_depth num); [discriminate|].
    apply mbind_val in H as [r [Hr H]].
    pose proof (IH (m * den) r a ltac:(nia) W eq_refl Hr) as Er.
    (* a = den * (a / den);  a mod (m * den) = den * ((a / den) mod m) *)
    assert (Ea : a = den * (a / den)) by (pose proof (Z.div_mod a den ltac:(lia)); lia).
    assert (R : r = den * ((a / den) mod m)).
    { rewrite Er. rewrite Ea at 1. rewrite (Z.mul_comm m den).
      apply Zmult_mod_distr_l. }
    destruct (r mod den =? 0) eqn:Rm; [|discriminate]. inversion H; subst v.
    rewrite R. rewrite (Z.mul_comm den), Z.div_mul by lia. apply Z.mod_mod. lia.
  - apply andb_true_iff in W as [Wx Wk].
    destruct (eval x) as [k|] eqn:Ek; [|discriminate].
    apply Z.ltb_lt in Wk.
    destruct (0 <=? k) eqn:K0; [|discriminate]. inversion E; subst n.
    eapply exp_mod_sound; [exact Hm|exact Wk| | |exact H].
    + intros j w Hj Hw. apply (IH j w k Hj Wx eq_refl Hw).
    + destruct x; cbn [xval]; try reflexivity. cbn [eval] in Ek. inversion Ek. reflexivity.
Qed.

Corollary mod_top_sound e m v n :
  exps_gt1 e = true -> eval e = Some n -> mod_top e m = MVal v -> 0 < m /\ v = n mod m.
Proof.
  intros W E H. unfold mod_top in H. destruct (m <=? 0) eqn:M; [discriminate|].
  apply Z.leb_gt in M. split; [exact M|]. eapply mod_model_sound; eassumption.
Qed.

Lemma eval_floor_of_eval : forall e n, eval e = Some n -> eval_floor e = Some n.
Proof.
  induction e as [z|l IHl r IHr|l IHl r IHr|num IH den|base x IH]; intros n E;
    cbn [eval eval_floor] in *.
  - exact E.
  - destruct (eval l) as [a|]; [|discriminate]. destruct (eval r) as [b|]; [|discriminate].
    rewrite (IHl a eq_refl), (IHr b eq_refl). exact E.
  - destruct (eval l) as [a|]; [|discriminate]. destruct (eval r) as [b|]; [|discriminate].
    rewrite (IHl a eq_refl), (IHr b eq_refl). exact E.
  - destruct (eval num) as [a|]; [|discriminate]. rewrite (IH a eq_refl).
    destruct (0 <? den); cbn [andb] in E; [|discriminate].
    destruct (a mod den =? 0); [exact E|discriminate].
  - destruct (eval x) as [k|]; [|discriminate]. rewrite (IH k eq_refl). exact E.
Qed.

(** ** History: the two repaired defects, as facts about the pre-fix model *)

(** F5 (c18cf10): before the fix, 2**k % 30 answered 15 for every k = 0 (mod 4);
    the value is 16 *)
Theorem exp_mod30_prefix_wrong k : 1 < k -> k mod 4 = 0 ->
  mod_model_prefix (NExp 2 (NInt k)) 30 = MVal 15 /\ 2 ^ k mod 30 = 16.
Proof.
  intros Hk H4. split.
  - cbn [mod_model_prefix]. unfold exp_mod_prefix.
    change (30 =? 1) with false. change (30 =? 2) with false. change (2 mod 30 =? 0) with false.
    cbn [mbind]. replace (1 <? k) with true by (symmetry; apply Z.ltb_lt; lia). cbn [negb].
    unfold exp_mod_hard_prefix. change ((2 =? 2) && (30 =? 30)) with true.
    cbn [exp_rem mbind]. rewrite H4. reflexivity.
  - rewrite pow2_mod30 by lia. rewrite H4. reflexivity.
Qed.

(** F5b (8f2bf3a): before the fix, 3**k % 4 answered 1 for every k; for odd
    k the value is 3 *)
Theorem exp3_mod4_prefix_wrong k : 1 < k ->
  mod_model_prefix (NExp 3 (NInt k)) 4 = MVal 1 /\ (k mod 2 = 1 -> 3 ^ k mod 4 = 3).
Proof.
  intros Hk. split.
  - cbn [mod_model_prefix]. unfold exp_mod_prefix.
    change (4 =? 1) with false. change (4 =? 3) with false. change (4 =? 2) with false.
    change (3 mod 4 =? 0) with false.
    cbn [mbind]. replace (1 <? k) with true by (symmetry; apply Z.ltb_lt; lia). cbn [negb].
    unfold exp_mod_hard_prefix.
    change ((2 =? 2) && (4 =? 30)) with false. change ((3 =? 2) && (4 =? 30)) with false.
    change ((3 =? 3) && negb (4 =? 6) && float_ok_log2 4) with true.
    change (pn_log2_exact 4) with (Some 2). change (2 ^ (2 - 2)) with 1.
    unfold exp_reduce. cbn [exp_rem mbind]. rewrite Z.mod_1_r.
    unfold exp_mod_tail. change (find_period 3 4) with (MVal (A:=Z) 2). cbn [mbind].
    change (0 <? 2) with true. unfold exp_reduce. cbn [exp_rem mbind]. reflexivity.
  - intros Hodd. rewrite (pow_mod_period1 3 4 2) by (try lia; reflexivity). rewrite Hodd. reflexivity.
Qed.

(** ** Why the tables are indexed by [exp % (mod // 3)] (num.py:1369) and
    why find_period gives up on these moduli (1346): for EVERY modulus
    2*3^j the powers of 2 from 2^1 on have period 2*3^(j-1) = phi(3^j).
    (The soundness theorem does not need this general fact: [tables_ok]
    checks the period of each of the 18 table moduli by computation.) *)

Lemma cube_lift x j : 1 <= j -> x mod 3 ^ j = 1 -> (x * x * x) mod 3 ^ (j + 1) = 1.
Proof.
  intros Hj H.
  assert (E : 3 ^ j = 3 * 3 ^ (j - 1)).
  { replace j with (1 + (j - 1)) at 1 by lia. rewrite Z.pow_add_r by lia. reflexivity. }
  assert (P : 0 < 3 ^ (j - 1)) by (apply Z.pow_pos_nonneg; lia).
  pose proof (Z.div_mod x (3 ^ j) ltac:(lia)) as D. rewrite H in D.
  set (t := x / 3 ^ j) in *. clearbody t. subst x.
  rewrite Z.pow_add_r, Z.pow_1_r by lia. rewrite E.
  set (R := 3 ^ (j - 1)) in *. clearbody R.
  replace ((3 * R * t + 1) * (3 * R * t + 1) * (3 * R * t + 1))
    with (1 + (t + 3 * R * t * t + 3 * R * R * t * t * t) * (3 * R * 3)) by ring.
  rewrite Z.mod_add by lia. apply Z.mod_small. lia.
Qed.

Lemma pow2_order_pow3 j : 1 <= j -> 2 ^ (2 * 3 ^ (j - 1)) mod 3 ^ j = 1.
Proof.
  intros Hj. replace j with (1 + Z.of_nat (Z.to_nat (j - 1))) by lia.
  generalize (Z.to_nat (j - 1)) as n. clear. induction n as [|n IH].
  - reflexivity.
  - replace (1 + Z.of_nat (S n)) with ((1 + Z.of_nat n) + 1) by lia.
    replace (1 + Z.of_nat n + 1 - 1) with ((1 + Z.of_nat n - 1) + 1) by lia.
    set (a := 1 + Z.of_nat n - 1) in *.
    assert (Ha : 0 <= a) by (unfold a; lia).
    assert (Q : 0 <= 3 ^ a) by (apply Z.pow_nonneg; lia).
    assert (E : 2 ^ (2 * 3 ^ (a + 1)) = 2 ^ (2 * 3 ^ a) * 2 ^ (2 * 3 ^ a) * 2 ^ (2 * 3 ^ a)).
    { rewrite Z.pow_add_r, Z.pow_1_r by lia.
      replace (2 * (3 ^ a * 3)) with (2 * 3 ^ a + 2 * 3 ^ a + 2 * 3 ^ a) by ring.
      rewrite !Z.pow_add_r by lia. reflexivity. }
    rewrite E. apply cube_lift; [lia|exact IH].
Qed.

Theorem pow2_period_2x3pow j k : 1 <= j -> 1 <= k ->
  2 ^ (k + 2 * 3 ^ (j - 1)) mod (2 * 3 ^ j) = 2 ^ k mod (2 * 3 ^ j).
Proof.
  intros Hj Hk.
  assert (P3 : 0 < 3 ^ j) by (apply Z.pow_pos_nonneg; lia).
  assert (Q : 0 <= 3 ^ (j - 1)) by (apply Z.pow_nonneg; lia).
  pose proof (pow2_order_pow3 j Hj) as O.
  pose proof (Z.div_mod (2 ^ (2 * 3 ^ (j - 1))) (3 ^ j) ltac:(lia)) as D. rewrite O in D.
  set (s := 2 ^ (2 * 3 ^ (j - 1)) / 3 ^ j) in *. clearbody s.
  rewrite Z.pow_add_r by lia. rewrite D.
  replace k with (1 + (k - 1)) by lia. rewrite Z.pow_add_r, Z.pow_1_r by lia.
  replace (2 * 2 ^ (k - 1) * (3 ^ j * s + 1))
    with (2 * 2 ^ (k - 1) + (2 ^ (k - 1) * s) * (2 * 3 ^ j)) by ring.
  apply Z.mod_add. lia.
Qed.

(** the model's exact test (for the float test of 1346/1365) means what it says *)
Lemma pn_pow3b_spec fuel : forall n, pn_pow3b fuel n = true -> exists j, 0 <= j /\ n = 3 ^ j.
Proof.
  induction fuel as [|f IH]; intros n H; cbn [pn_pow3b] in H; [discriminate|].
  destruct (n =? 1) eqn:E1.
  - apply Z.eqb_eq in E1. exists 0. split; [lia|]. subst. reflexivity.
  - destruct (n mod 3 =? 0) eqn:E3; [|discriminate]. apply Z.eqb_eq in E3.
    destruct (IH _ H) as [j [Hj Ej]]. exists (j + 1). split; [lia|].
    rewrite Z.pow_add_r, Z.pow_1_r by lia. rewrite <- Ej.
    pose proof (Z.div_mod n 3 ltac:(lia)). lia.
Qed.

Lemma is_2x3pow_spec m : is_2x3pow m = true -> exists j, 0 <= j /\ m = 2 * 3 ^ j.
Proof.
  unfold is_2x3pow. intros H. apply andb_true_iff in H as [H2 H3]. apply Z.eqb_eq in H2.
  destruct (pn_pow3b_spec _ _ H3) as [j [Hj Ej]]. exists j. split; [exact Hj|].
  rewrite <- Ej. pose proof (Z.div_mod m 2 ltac:(lia)). lia.
Qed.
