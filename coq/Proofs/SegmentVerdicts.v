(** C05 layer 4, final form: the positive verdicts of [sg_segment_cant_reach]
    in the vocabulary of Spec/TM.v (zipper machine started from
    [init_config]). *)
From BB Require Import Base TM TMabs MacroSpec InstrsModel SegmentModel Loops TranslatedCycle AbsEquiv MacroSim SegmentTape SegmentSound.
Open Scope N_scope.

Lemma zero_abs h0 : aeq zero_tape (abs_of blank_tape h0).
Proof.
  intro x. unfold zero_tape, abs_of, blank_tape, cell. cbn [zl zc zr].
  destruct (x <? h0)%Z; [destruct (Z.to_nat _); reflexivity|].
  destruct (x =? h0)%Z; [reflexivity|destruct (Z.to_nat _); reflexivity].
Qed.

Lemma tm_steps_add_ P a : forall b c,
  tm_steps P (a + b) c = match tm_steps P a c with Some c' => tm_steps P b c' | None => None end.
Proof.
  induction a as [|a IH]; intros b c; cbn [Nat.add tm_steps]; [reflexivity|].
  destruct (tm_step P c) as [c'|]; [apply IH|reflexivity].
Qed.

Section Verdicts.
Variable prog : comp_prog.
Notation P := (to_prog prog).

(** a run of the absolute machine from the blank tape is a run of the zipper
    machine from [init_config] *)
Lemma run_zip n h0 c : a_steps P n (mkA 0 h0 zero_tape) = Some c ->
  exists z, tm_steps P n init_config = Some (a_q c, z) /\ aeq (a_t c) (abs_of z (a_h c)).
Proof.
  intro R. pose proof (zipper_abs_steps_gen P n 0 blank_tape h0 zero_tape (zero_abs h0)) as H.
  change (tm_steps P n (0, blank_tape)) with (tm_steps P n init_config) in H.
  destruct (tm_steps P n init_config) as [[q' z']|].
  - destruct H as (h' & t' & R' & Ht). rewrite R in R'. injection R' as ->.
    exists z'. cbn [a_q a_h a_t]. split; [reflexivity|exact Ht].
  - rewrite R in H. discriminate.
Qed.

Lemma halt_zip : HaltFact prog -> exists n sl, halts_at P init_config n sl.
Proof.
  intros (n & h0 & c & R & Hh). destruct (run_zip n h0 c R) as (z & Hz & Ht).
  exists n, (a_q c, zc z). unfold halts_at. exists (a_q c), z.
  split; [exact Hz|]. split; [reflexivity|].
  unfold a_step in Hh. rewrite (Ht (a_h c)), abs_of_head in Hh.
  destruct (P (a_q c, zc z)) as [[[pr sh] q']|]; [discriminate|reflexivity].
Qed.

Lemma spin_zip : SpinFact prog -> exists n, spins_out_at P init_config n.
Proof.
  intros (n & h0 & c & R & Hs). destruct (run_zip n h0 c R) as (z & Hz & Ht).
  exists n. unfold spins_out_at. exists (a_q c, z). split; [exact Hz|].
  apply (spinout_abs P (a_q c) z (a_h c)).
  destruct Hs as (H0 & pr & sh & HP & Hb). unfold a_spinout_cfg. cbn [a_q a_h a_t].
  split; [rewrite <- Ht; exact H0|]. exists pr, sh. split; [exact HP|].
  intros x Hx. rewrite <- Ht. apply Hb. exact Hx.
Qed.

Lemma blank_zip : BlankFact prog -> exists n q, blank_after P init_config n q.
Proof.
  intros (n & h0 & c & R & H0). destruct (run_zip (S n) h0 c R) as (z & Hz & Ht).
  replace (S n) with (n + 1)%nat in Hz by lia. rewrite tm_steps_add_ in Hz.
  destruct (tm_steps P n init_config) as [[q0 t0]|] eqn:En; [|discriminate].
  cbn [tm_steps tm_step] in Hz.
  destruct (P (q0, zc t0)) as [[[pr sh] q']|] eqn:HP; [|discriminate].
  injection Hz as Eq Ez.
  assert (Hb : tape_blank z).
  { assert (Heq : tape_eq z blank_tape).
    { apply (abs_of_tape_eq_inv z blank_tape (a_h c)). intro x.
      rewrite <- Ht, H0. exact (zero_abs (a_h c) x). }
    destruct Heq as (H1 & H2 & H3). unfold tape_blank, all_blank.
    split; [|split].
    - intro i. rewrite H1. unfold cell. cbn [blank_tape zl]. destruct i; reflexivity.
    - exact H2.
    - intro i. rewrite H3. unfold cell. cbn [blank_tape zr]. destruct i; reflexivity. }
  assert (Hpr : pr = 0).
  { destruct Hb as (B1 & _ & B3). rewrite <- Ez in B1, B3. unfold tm_move in B1, B3.
    destruct sh; cbn [zl zr] in B1, B3.
    - exact (B1 O).
    - exact (B3 O). }
  exists n, q'. unfold blank_after. exists q0, t0, pr, sh, z.
  split; [exact En|]. split; [exact HP|]. split; [exact Hpr|].
  split; [symmetry; exact Ez|exact Hb].
Qed.

Lemma nh_zip : NHFact prog -> never_halts P init_config.
Proof.
  intros H n. destruct (H n) as (n' & h0 & c & Hn & R).
  destruct (run_zip n' h0 c R) as (z & Hz & _).
  replace n' with (n + (n' - n))%nat in Hz by lia. rewrite tm_steps_add_ in Hz.
  destruct (tm_steps P n init_config) as [c'|]; [exists c'; reflexivity|discriminate].
Qed.

(** THE POSITIVE VERDICTS.  No hypothesis on the table size is needed. *)
Theorem seg_positive_sound params segs g :
  (sg_segment_cant_reach prog params segs g = Ok SgrHalt ->
     exists n sl, halts_at P init_config n sl) /\
  (sg_segment_cant_reach prog params segs g = Ok SgrSpinout ->
     exists n, spins_out_at P init_config n) /\
  (sg_segment_cant_reach prog params segs g = Ok SgrBlank ->
     exists n q, blank_after P init_config n q) /\
  (sg_segment_cant_reach prog params segs g = Ok SgrRepeat ->
     never_halts P init_config).
Proof.
  pose proof (sg_scr_sound prog params segs g) as H.
  repeat split; intro E; rewrite E in H; cbn [scr_post] in H.
  - apply halt_zip, H.
  - apply spin_zip, H.
  - apply blank_zip, H.
  - apply nh_zip, H.
Qed.

End Verdicts.

Print Assumptions seg_positive_sound.
